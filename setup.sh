#!/bin/sh
# Build the Lean library from files on disk (offline).  Run once after a fresh restore.
set -e
HERE="$(cd "$(dirname "$0")" && pwd)"
cd "$HERE"
/venv/bin/python harness/translate_all.py || echo "translator reported problems (checks will report them individually)"
cd lean
lake build 2>&1 | tail -5
