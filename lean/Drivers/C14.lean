import AsyncsshModel.Model.SftpProto
/- Line-protocol driver for the C14 correspondence (see harness/props/C14.py for the grammar). -/
open AsyncsshModel AsyncsshModel.Sftp

def natOf (s : String) : Option Nat := s.toNat?

def splitOn1 (s : String) (c : String) : List String := s.splitOn c

def parsePairs (s : String) : Option (List (Bytes × Bytes)) :=
  if s == "" then some [] else
  (s.splitOn "+").mapM fun p =>
    match p.splitOn "=" with
    | [k, d] => do pure ((← unhex k), (← unhex d))
    | _ => none

/-- apply one `key:value` token to an attribute record -/
def applyTok (a : Attrs) (tok : String) : Option Attrs :=
  match tok.splitOn ":" with
  | [k, v] =>
    let n := natOf v
    let b := unhex v
    match k with
    | "type" => n.map fun x => { a with type := x }
    | "size" => n.map fun x => { a with size := some x }
    | "alloc" => n.map fun x => { a with allocSize := some x }
    | "uid" => n.map fun x => { a with uid := some x }
    | "gid" => n.map fun x => { a with gid := some x }
    | "owner" => b.map fun x => { a with owner := some x }
    | "group" => b.map fun x => { a with group := some x }
    | "perm" => n.map fun x => { a with permissions := some x }
    | "atime" => n.map fun x => { a with atime := some x }
    | "atime_ns" => n.map fun x => { a with atimeNs := some x }
    | "crtime" => n.map fun x => { a with crtime := some x }
    | "crtime_ns" => n.map fun x => { a with crtimeNs := some x }
    | "mtime" => n.map fun x => { a with mtime := some x }
    | "mtime_ns" => n.map fun x => { a with mtimeNs := some x }
    | "ctime" => n.map fun x => { a with ctime := some x }
    | "ctime_ns" => n.map fun x => { a with ctimeNs := some x }
    | "acl" => b.map fun x => { a with acl := some x }
    | "bits" => n.map fun x => { a with attribBits := some x }
    | "valid" => n.map fun x => { a with attribValid := some x }
    | "hint" => n.map fun x => { a with textHint := some x }
    | "mime" => b.map fun x => { a with mimeType := some x }
    | "nlink" => n.map fun x => { a with nlink := some x }
    | "untrans" => b.map fun x => { a with untransName := some x }
    | "ext" => (parsePairs v).map fun x => { a with extended := x }
    | _ => none
  | _ => none

def parseAttrs (toks : List String) : Option Attrs :=
  toks.foldlM applyTok ({} : Attrs)

def showAttrsToks (a : Attrs) : List String :=
  let n (k : String) (o : Option Nat) : List String := match o with | some x => [s!"{k}:{x}"] | none => []
  let b (k : String) (o : Option Bytes) : List String := match o with | some x => [s!"{k}:{hex x}"] | none => []
  [s!"type:{a.type}"] ++ n "size" a.size ++ n "alloc" a.allocSize ++ n "uid" a.uid ++ n "gid" a.gid ++
  b "owner" a.owner ++ b "group" a.group ++ n "perm" a.permissions ++
  n "atime" a.atime ++ n "atime_ns" a.atimeNs ++ n "crtime" a.crtime ++ n "crtime_ns" a.crtimeNs ++
  n "mtime" a.mtime ++ n "mtime_ns" a.mtimeNs ++ n "ctime" a.ctime ++ n "ctime_ns" a.ctimeNs ++
  b "acl" a.acl ++ n "bits" a.attribBits ++ n "valid" a.attribValid ++ n "hint" a.textHint ++
  b "mime" a.mimeType ++ n "nlink" a.nlink ++ b "untrans" a.untransName ++
  (if a.extended.isEmpty then [] else
    ["ext:" ++ String.intercalate "+" (a.extended.map fun (k, d) => s!"{hex k}={hex d}")])

def showAttrs (a : Attrs) (sep : String := " ") : String := String.intercalate sep (showAttrsToks a)

def showDecErr : DecErr → String
  | .short => "short"
  | .trailing => "trailing"
  | .badFlags n => s!"badflags:{n}"
  | .badMime => "badmime"
  | .ownerInvalid => "owner"
  | .groupInvalid => "group"

/-- name tokens: `fn:<hex>` `ln:<hex>` then attribute tokens -/
def parseName (toks : List String) : Option Name := do
  let fnTok ← toks.head?
  let fnm ← match fnTok.splitOn ":" with
    | ["fn", h] => unhex h
    | _ => none
  let rest := toks.drop 1
  let (ln, rest) ← match rest with
    | t :: r => match t.splitOn ":" with
      | ["ln", h] => (unhex h).map fun x => (some x, r)
      | _ => some (none, rest)
    | [] => some (none, [])
  let a ← parseAttrs rest
  pure { filename := fnm, longname := ln, attrs := a }

def showName (n : Name) (sep : String := " ") : String :=
  String.intercalate sep ([s!"fn:{hex n.filename}"] ++
    (match n.longname with | some l => [s!"ln:{hex l}"] | none => []) ++ showAttrsToks n.attrs)

/-- compact name inside an app spec: tokens separated by `,` -/
def parseNameCompact (s : String) : Option Name := parseName ((s.splitOn ",").filter (· ≠ ""))

def parseExc (ws : List String) : Option Exc :=
  match ws with
  | ["pd"] => some .packetDecode
  | ["sftp", c] => (natOf c).map .sftp
  | ["notimpl"] => some .notImpl
  | ["os", e] => (natOf e).map .os
  | ["other"] => some .other
  | _ => none

def parseApp (s : String) : Option App :=
  match s.splitOn ":" with
  | ["unit"] => some .unit
  | ["ext"] => some .ext
  | "raise" :: r => (parseExc r).map .raise
  | ["data", h, sz] => do pure (.data (← unhex h) (← natOf sz))
  | _ =>
    if s.startsWith "names=" then
      let body := (s.drop 6).toString
      if body == "" then some (.names []) else
      ((body.splitOn ";").mapM parseNameCompact).map .names
    else if s.startsWith "attrs=" then
      (parseAttrs (((s.drop 6).toString.splitOn ",").filter (· ≠ ""))).map .attrs
    else if s.startsWith "path=" then
      match (s.drop 5).toString.splitOn "|" with
      | [h] => (unhex h).map fun b => .path b none
      | [h, ats] => do
        let b ← unhex h
        let a ← parseAttrs ((ats.splitOn ",").filter (· ≠ ""))
        pure (.path b (some a))
      | _ => none
    else none

def parseHandles (s : String) : Option (List Bytes) :=
  if s == "-" then some [] else (s.splitOn ",").mapM unhexAux'
where unhexAux' (x : String) : Option Bytes := unhex x

def showBody : Body → String
  | .status c => s!"status {c}"
  | .handle h => s!"handle {hex h}"
  | .data p => s!"data {hex p}"
  | .names p => s!"names {hex p}"
  | .attrs p => s!"attrs {hex p}"
  | .ext => "ext"

def parseKey (s : String) : Option ReqKey :=
  if s.startsWith "n" then (natOf (s.drop 1).toString).map .num
  else if s.startsWith "x" then (unhex (s.drop 1).toString).map .ext
  else none

def showCExc : CExc → String
  | .badMessage => "badmsg"
  | .connectionLost => "connlost"
  | .noConnection => "noconn"

def showCOut : COut → String
  | .sent c id => s!"sent {c} {id}"
  | .deliver c t p => s!"deliver {c} {t} {hex p}"
  | .fail c e => s!"fail {c} {showCExc e}"
  | .closed => "closed"

def showCOuts (l : List COut) : String :=
  if l.isEmpty then "-" else String.intercalate ";" (l.map showCOut)

def showOutcome : Outcome → String
  | .none => "none"
  | .handle h => s!"handle {hex h}"
  | .data b e => s!"data {hex b} {if e then 1 else 0}"
  | .names l e => s!"names {if e then 1 else 0} " ++
      (if l.isEmpty then "-" else String.intercalate ";" (l.map fun n => showName n ","))
  | .attrs a => "attrs " ++ showAttrs a ","
  | .ext p => s!"ext {hex p}"
  | .sftpError c => s!"sftp {c}"
  | .badMessage => "badmsg"
  | .packetDecode => "pd"

def kv (s : String) (k : String) : Option String :=
  if s.startsWith (k ++ "=") then some (s.drop (k.length + 1)).toString else none

def step (s : CState) (ws : List String) : CState × String :=
  match ws with
  | "enc" :: v :: toks =>
    (s, match natOf v, parseAttrs toks with
      | some v, some a => match encode? v a with | some b => hex b | none => "raise"
      | _, _ => "bad-op")
  | "encold" :: v :: toks =>
    (s, match natOf v, parseAttrs toks with
      | some v, some a => match encodeG? false v a with | some b => hex b | none => "raise"
      | _, _ => "bad-op")
  | ["dec", v, h] =>
    (s, match natOf v, unhex h with
      | some v, some b => match decode v b with
        | .ok (a, r) => s!"ok {hex r} {showAttrs a}"
        | .error e => "err " ++ showDecErr e
      | _, _ => "bad-op")
  | "carry" :: v :: toks =>
    (s, match natOf v, parseAttrs toks with
      | some v, some a => if carryable v a then "1" else "0"
      | _, _ => "bad-op")
  | "encname" :: v :: toks =>
    (s, match natOf v, parseName toks with
      | some v, some n => match encodeName? v n with | some b => hex b | none => "raise"
      | _, _ => "bad-op")
  | ["decname", v, h] =>
    (s, match natOf v, unhex h with
      | some v, some b => match decodeName v b with
        | .ok (n, r) => s!"ok {hex r} {showName n}"
        | .error e => "err " ++ showDecErr e
      | _, _ => "bad-op")
  | "carryname" :: v :: toks =>
    (s, match natOf v, parseName toks with
      | some v, some n => if carryableName v n then "1" else "0"
      | _, _ => "bad-op")
  | ["utf8", h] => (s, match unhex h with | some b => if validUtf8 b then "1" else "0" | none => "bad-op")
  | ["ftype", m] => (s, match natOf m with | some m => toString (modeToFiletype m) | none => "bad-op")
  | ["status", c, v] =>
    (s, match natOf c, natOf v with
      | some c, some v => toString (Gen.C14.statusCodeFor c v)
      | _, _ => "bad-op")
  | "exc" :: v :: r =>
    (s, match natOf v, parseExc r with
      | some v, some e => toString (excCode v e)
      | _, _ => "bad-op")
  | ["sreq", v, pkt, f, d, fr, app] =>
    (s, match natOf v, unhex pkt, (kv f "files").bind parseHandles, (kv d "dirs").bind parseHandles,
          (kv fr "fresh").bind unhex, (kv app "app").bind parseApp with
      | some v, some pkt, some files, some dirs, some fresh, some app =>
        match serverStep v { files := files, dirs := dirs, fresh := fresh, app := app } pkt with
        | some r => s!"reply {r.type} {r.id} {showBody r.body}"
        | none => "end"
      | _, _, _, _, _, _ => "bad-op")
  | ["legal", k] =>
    (s, match parseKey k with
      | some k => String.intercalate "," ((legalTypes k).map toString) ++ (if hasHandler k then " h" else " -")
      | none => "bad-op")
  | ["cnew"] => ({}, "ok")
  | ["cset", n] => (match natOf n with | some n => ({ s with nextId := n }, "ok") | none => (s, "bad-op"))
  | ["creq", c] =>
    match natOf c with
    | some c => let (s', o) := clientStep s (.request c); (s', showCOuts o)
    | none => (s, "bad-op")
  | ["cpkt", h] =>
    match unhex h with
    | some b => let (s', o) := clientStep s (.packet b); (s', showCOuts o)
    | none => (s, "bad-op")
  | ["ceof"] => let (s', o) := clientStep s .eof; (s', showCOuts o)
  | ["cstate"] =>
    (s, s!"next={s.nextId} open={if s.isOpen then 1 else 0} table=" ++
      (if s.table.isEmpty then "-" else String.intercalate "," (s.table.map fun (i, c) => s!"{i}:{c}")))
  | ["fin", v, k, t, h] =>
    (s, match natOf v, parseKey k, natOf t, unhex h with
      | some v, some k, some t, some b => showOutcome (finish v k t b)
      | _, _, _, _ => "bad-op")
  | _ => (s, "bad-op")

def main : IO Unit := runDriver step ({} : CState)
