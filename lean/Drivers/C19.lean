import AsyncsshModel.Model.Stream
import AsyncsshModel.Model.StreamProc
import AsyncsshModel.Model.StreamSrc
/- Line-protocol driver for the C19 correspondence (see harness/props/C19.py).

   S <limit> <tok>...      one reader over time.  Tokens:
        G:<a>,<a>,...      a group of wire events (d<hex> data, f<hex> direct feed, e EOF, x<code> exception,
                           code 0 = soft EOF); groups before the first call arrive before it, groups after a call
                           arrive while it waits / before the next call
        R<int> read(n)   X<int> readexactly(n)   U<hex>,<hex>.. readuntil(list)   V<hex> readuntil(bytes)   P<maxlen>:<hex>,.. readuntil(regex)
        L readline   Q at_eof()
        O<n>  n bytes arrive for the OTHER stream of the session (counted in `_recv_buf_len`, not in this buffer)
        T<n>  the application reads n bytes of the other stream
   P <limit> <ev>...       process layer: d<hex> D<hex> e s<n> S<n> c t x0 x1 w r0 r1 (redirect to a file object)
                           q0 q1 (redirect to another process's stdin: the same event for the model)
   D <ev>.. | <ev>..       drain: events before the call | events while it waits (p r l0 l1, s = a redirect source
                           is registered for the stream, f = the source ended, c0 / c1 = the peer's CLOSE arrives
                           while connection_lost is still held back, the send buffer was empty / was not)
   R <ev>...               redirect sources of a server process: o0 o1 E0 E1 (redirect stdout / stderr, send_eof),
                           d<hex> D<hex> (the source delivers), z Z (the source ends)
-/
open AsyncsshModel AsyncsshModel.Stream

def splitOnChar (s : String) (c : Char) : List String := s.splitOn (String.singleton c)

def parseInt (s : String) : Option Int :=
  match s.toList with
  | '-' :: r => (String.ofList r).toNat?.map fun n => - (n : Int)
  | _ => s.toNat?.map fun n => (n : Int)

def parseArrival (s : String) : Option Arrival :=
  match s.toList with
  | ['e'] => some .eof
  | 'd' :: r => (unhex (String.ofList r)).map .data
  | 'f' :: r => (unhex (String.ofList r)).map .feed
  | 'x' :: r => (String.ofList r).toNat?.map fun n => .exc (if n = 0 then .softEof else .other n)
  | _ => none

def parseGroup (s : String) : Option (List Arrival) :=
  if s.isEmpty then some [] else (splitOnChar s ',').mapM parseArrival

def parseSeps (s : String) : Option (List Bytes) :=
  if s.isEmpty then some [] else (splitOnChar s ',').mapM unhex

inductive Tok where
  | group (g : List Arrival)
  | op (o : Op)
  | atEof
  | other (n : Nat)
  | otherRead (n : Nat)

def parseTok (s : String) : Option Tok :=
  match s.toList with
  | 'G' :: ':' :: r => (parseGroup (String.ofList r)).map .group
  | 'R' :: r => (parseInt (String.ofList r)).map fun n => .op (.read n)
  | 'X' :: r => (parseInt (String.ofList r)).map fun n => .op (.exactly n)
  | 'U' :: r => (parseSeps (String.ofList r)).map fun l => .op (.until l)
  | 'V' :: r => (unhex (String.ofList r)).map fun b => .op (.untilOne b)
  | 'P' :: r =>
    match splitOnChar (String.ofList r) ':' with
    | [m, l] => do
      let m ← m.toNat?
      let l ← parseSeps l
      pure (.op (.untilPat l m))
    | _ => none
  | ['L'] => some (.op .line)
  | ['Q'] => some .atEof
  | 'O' :: r => (String.ofList r).toNat?.map .other
  | 'T' :: r => (String.ofList r).toNat?.map .otherRead
  | _ => none

def showExc : Exc → String
  | .softEof => "0"
  | .other n => toString n

def showRes : Res → String
  | .ok b => "ok:" ++ hex b
  | .incomplete b => "inc:" ++ hex b
  | .raised e => "exc:" ++ showExc e
  | .typeError => "typeerror"
  | .valueError => "valueerror"
  | .blocked => "blocked"

/-- leading groups of a token list and the rest -/
def takeGroups : List Tok → Sched × List Tok
  | .group g :: r => let (gs, rest) := takeGroups r; (g :: gs, rest)
  | r => ([], r)

partial def runToks (s : St) : List Tok → List String
  | [] => []
  | .group g :: r => runToks (absorb s g) r
  | .atEof :: r => (if atEof s then "eof=1" else "eof=0") :: runToks s r
  | .other n :: r => runToks (otherDeliver s n) r
  | .otherRead n :: r => runToks (otherRead s n) r
  | .op o :: r =>
    let (sched, rest) := takeGroups r
    match runOp o s sched with
    | (.blocked, _, _) => ["blocked"]
    | (res, s', left) => showRes res :: runToks (left.foldl absorb s') rest

open AsyncsshModel.StreamProc in
def parsePEv (s : String) : Option PEv :=
  match s.toList with
  | ['e'] => some .eof
  | ['c'] => some .close
  | ['t'] => some .tick
  | ['w'] => some .waitCall
  | ['x', '0'] => some (.disconnect false)
  | ['x', '1'] => some (.disconnect true)
  | ['r', '0'] => some (.redirect false)
  | ['r', '1'] => some (.redirect true)
  | ['q', '0'] => some (.redirect false)
  | ['q', '1'] => some (.redirect true)
  | 'd' :: r => (unhex (String.ofList r)).map (.data false)
  | 'D' :: r => (unhex (String.ofList r)).map (.data true)
  | 's' :: r => (String.ofList r).toNat?.map .exitStatus
  | 'S' :: r => (String.ofList r).toNat?.map .exitSignal
  | _ => none

open AsyncsshModel.StreamProc in
def showP (s : PSt) : String :=
  let o (x : Option Nat) : String := match x with | some n => toString n | none => "-"
  let w := match s.result with
    | some (.done st sg out err) => s!"wait={o st},{o sg},{hex out},{hex err}"
    | some .assertionError => "wait=raised:AssertionError"
    | none => "wait=pending"
  let closed := s.writer = some true ∧ (s.targetEof > 0 ∨ s.lost)
  w ++ s!" target={hex s.target.flatten},{if closed then 1 else 0}" ++ (if s.redirErr then " redirect=raised:AssertionError" else "")

open AsyncsshModel.StreamProc in
def parseDEv (s : String) : Option DEv :=
  match s with
  | "p" => some .pauseWriting
  | "r" => some .resumeWriting
  | "l0" => some (.lost false)
  | "l1" => some (.lost true)
  | "s" => some .setReader
  | "f" => some .readerDone
  | "c0" => some (.peerClose false)
  | "c1" => some (.peerClose true)
  | _ => none

open AsyncsshModel.StreamProc in
def showD : DrainRes → String
  | .returned => "returned"
  | .raisedExc => "exc"
  | .brokenPipe => "brokenpipe"
  | .blocked => "blocked"

open AsyncsshModel.StreamSrc in
def parseSEv (s : String) : Option SEv :=
  match s.toList with
  | ['o', '0'] => some (.redirect false false)
  | ['o', '1'] => some (.redirect false true)
  | ['E', '0'] => some (.redirect true false)
  | ['E', '1'] => some (.redirect true true)
  | ['z'] => some (.srcEof false)
  | ['Z'] => some (.srcEof true)
  | 'd' :: r => (unhex (String.ofList r)).map (.data false)
  | 'D' :: r => (unhex (String.ofList r)).map (.data true)
  | _ => none

open AsyncsshModel.StreamSrc in
def showS (s : SSt) : String :=
  let part (err : Bool) : Bytes := (s.wire.filter (·.1 == err)).flatMap (·.2)
  s!"out={hex (part false)} err={hex (part true)} eof={if s.eofSent then 1 else 0} refused={s.refused}"

def step (_ : Unit) (ws : List String) : Unit × String :=
  let r := match ws with
    | "S" :: lim :: toks =>
      match lim.toNat?, toks.mapM parseTok with
      | some lim, some toks => String.intercalate ";" (runToks { limit := lim } toks)
      | _, _ => "bad-op"
    | "P" :: lim :: evs =>
      match lim.toNat?, evs.mapM parsePEv with
      | some lim, some evs => showP (StreamProc.prun { limit := lim } evs)
      | _, _ => "bad-op"
    | "D" :: evs =>
      let pre := evs.takeWhile (· ≠ "|")
      let post := (evs.dropWhile (· ≠ "|")).drop 1
      match pre.mapM parseDEv, post.mapM parseDEv with
      | some pre, some post => showD (StreamProc.drain (pre.foldl StreamProc.dstep {}) post).1
      | _, _ => "bad-op"
    | "R" :: evs =>
      match evs.mapM parseSEv with
      | some evs => showS (StreamSrc.srun {} evs)
      | none => "bad-op"
    | _ => "bad-op"
  ((), r)

def main : IO Unit := runDriver step ()
