import AsyncsshModel.Model.KexMachine
/- Line-protocol driver for the C03 correspondence (harness/props/C03.py).

   Tokens: byte strings are hex (`-` = empty); lists of byte strings are hex items joined by `,` (`.` = empty
   list); algorithm lists are the ASCII names joined by `,` (`.` = empty list); integers are decimal.

   choose  <client names> <server names>
   kexinit <isClient 0|1> <cookie> <kex> <hostkey> <enc> <mac> <cmp>
   parse   <payload>
   nego    <isClient> <kex> <hostkey> <enc> <mac> <cmp> <peer payload>
   hash    dh   <vc> <vs> <ic> <is> <ks> <e> <f> <k>
   hash    gex  <vc> <vs> <ic> <is> <ks> <req> <p> <g> <e> <f> <k>
   hash    ecdh <vc> <vs> <ic> <is> <ks> <qc> <qs> <k>
   hash    rsa  <vc> <vs> <ic> <is> <ks> <trans> <enck> <k>
   range   <x> <p>
   sigalg  <host key algorithm name>
   group   <pref> <max>
   client  <version> <cookie> <kex> <hostkey> <enc> <mac> <cmp> <script> <delivered>
   server  <version> <cookie> <kex> <hostkey> <enc> <mac> <cmp> <script> <delivered>
     script = `key=value` items joined by `;` — the outcomes of the abstract primitives in this run:
       client: tk (trusted host key blobs, joined by `,`) vk (host key blob of the signer)
               vh (message whose signature verifies) vs (that signature)
               ka (host key algorithms the delivered host key blob can be used with, names joined by `,`)
               e (own DH value | none) qc (own EC blob) kc (shared secret k | none)
               rsa (<encrypted_k>:<k> | err:<class>)
       server: hk (`<algorithm>:<host key blob>` per host key algorithm, joined by `,`) sigraw (the signature it produces, without the leading algorithm name)
               f (own DH value | none) qs (own EC blob | none)
               ks (shared secret k | none) trans (transient RSA key blob) rsak (<k> | err:<class>)
-/
open AsyncsshModel AsyncsshModel.KexWire AsyncsshModel.Kex

def parseNames (s : String) : List Name :=
  if s == "." then [] else (s.splitOn ",").map strBytes

def parseHexList (s : String) : Option (List Bytes) :=
  if s == "." then some [] else (s.splitOn ",").mapM unhex

def showHexList (l : List Bytes) : String :=
  if l.isEmpty then "." else String.intercalate "," (l.map hex)

def showName (n : Name) : String := String.ofList (n.map fun b => Char.ofNat b.toNat)

def showNames (l : List Name) : String :=
  if l.isEmpty then "." else String.intercalate "," (l.map showName)

def showErr : Err → String
  | .proto => "proto"
  | .kexFailed => "kexfail"
  | .hostKey => "hostkey"
  | .internal => "internal"
  | .disconnect c => s!"disc{c}"

def showNeg (n : Negotiated) : String :=
  showNames [n.kex, n.encCS, n.encSC, n.macCS, n.macSC, n.cmpCS, n.cmpSC] ++ "/" ++
    (if n.hostKey.isEmpty then "." else showName n.hostKey)

def showCPhase : CPhase → String
  | .version => "version" | .kexinit => "kexinit" | .gexGroup => "gexgroup" | .reply => "reply"
  | .rsaPubkey => "rsapubkey" | .rsaDone => "rsadone" | .accepted => "accepted" | .done => "done"
  | .outOfScope => "rekey" | .failed e => "failed:" ++ showErr e

def showSPhase : SPhase → String
  | .version => "version" | .kexinit => "kexinit" | .gexRequest => "gexrequest" | .init => "init"
  | .rsaSecret => "rsasecret" | .sentNewkeys => "sentnewkeys" | .done => "done"
  | .outOfScope => "rekey" | .failed e => "failed:" ++ showErr e

def parseInt (s : String) : Option Int :=
  if s.startsWith "-" then (s.drop 1).toNat?.map fun n => -(n : Int) else s.toNat?.map fun n => (n : Int)

def lookup (kv : List (String × String)) (k : String) : Option String :=
  (kv.find? fun p => p.1 == k).map (·.2)

def parseScript (s : String) : List (String × String) :=
  (s.splitOn ";").filterMap fun item =>
    match item.splitOn "=" with
    | [k, v] => some (k, v)
    | _ => none

def optBytes (kv : List (String × String)) (k : String) : Option Bytes :=
  match lookup kv k with
  | none => none
  | some "none" => none
  | some v => unhex v

def optInt (kv : List (String × String)) (k : String) : Option Int :=
  match lookup kv k with
  | none => none
  | some "none" => none
  | some v => parseInt v

def errOfString : String → Err
  | "proto" => .proto
  | "kexfail" => .kexFailed
  | "hostkey" => .hostKey
  | _ => .internal

/-- the primitives of one recorded run: identity hash (so `H` *is* the hash input), an ideal signature that
    verifies exactly (trusted key, signed message, signature sent), scripted secret computations -/
def scriptedCrypto (kv : List (String × String)) : Crypto :=
  let tk : List Bytes := match lookup kv "tk" with
    | some v => (parseHexList v).getD []
    | none => []
  let vk := optBytes kv "vk"
  let vh := optBytes kv "vh"
  let vs := optBytes kv "vs"
  let hks : List (Name × Bytes) := match lookup kv "hk" with
    | some v => (v.splitOn ",").filterMap fun item =>
        match item.splitOn ":" with
        | [a, b] => (unhex b).map fun x => (strBytes a, x)
        | _ => none
    | none => []
  { hashOf := fun _ x => x
    verify := fun pk m σ => some pk == vk && some m == vh && some σ == vs
    trusted := fun pk => tk.contains pk
    keyAlgs := fun _ => match lookup kv "ka" with | some v => parseNames v | none => []
    hostKeyOf := fun alg => ((hks.find? fun r => r.1 == alg).map (·.2)).getD []
    signRaw := fun _ _ => (optBytes kv "sigraw").getD []
    dhClientPub := fun _ _ => optInt kv "e"
    dhClientShared := fun _ _ _ => optBytes kv "kc"
    dhServer := fun _ _ _ =>
      match optInt kv "f", optBytes kv "ks" with
      | some f, some k => some (f, k)
      | _, _ => none
    ecClientPub := fun _ => (optBytes kv "qc").getD []
    ecClientShared := fun _ _ => optBytes kv "kc"
    ecServer := fun _ _ =>
      match optBytes kv "qs", optBytes kv "ks" with
      | some q, some k => some (q, k)
      | _, _ => none
    rsaTransKey := (optBytes kv "trans").getD []
    rsaEncrypt := fun _ =>
      match lookup kv "rsa" with
      | some v =>
        if v.startsWith "err:" then .error (errOfString (v.drop 4).toString) else
        match v.splitOn ":" with
        | [a, b] =>
          match unhex a, unhex b with
          | some x, some y => .ok (x, y)
          | _, _ => .error .internal
        | _ => .error .internal
      | none => .error .internal
    rsaDecrypt := fun _ =>
      match lookup kv "rsak" with
      | some v => if v.startsWith "err:" then .error (errOfString (v.drop 4).toString) else
          match unhex v with
          | some k => .ok k
          | none => .error .internal
      | none => .error .internal }

def mkCfg (version cookie kex hk enc mac cmp : String) : Option Cfg :=
  match unhex version, unhex cookie with
  | some v, some c =>
    let algs : LocalAlgs := ⟨parseNames kex, parseNames hk, parseNames enc, parseNames mac, parseNames cmp⟩
    some ⟨v, c, algs⟩
  | _, _ => none

def showAcc (a : Option Accept) : String :=
  match a with
  | none => "- -"
  | some a => showNeg a.neg ++ " " ++ (match hashInput? a.view with | some h => hex h | none => "none")

def runClient (cr : Crypto) (cfg : Cfg) (msgs : List Bytes) : String :=
  let init := clientInit cfg
  let (st, outs) := msgs.foldl (fun (acc : CState × List Bytes) m =>
      let o := clientStep cr cfg acc.1 m
      (o.1, acc.2 ++ o.2)) init
  showCPhase st.phase ++ " " ++ (match st.negInfo with | some (n, _) => showNeg n | none => "-") ++ " "
    ++ showAcc st.acc ++ " " ++ showHexList outs

def runServer (cr : Crypto) (cfg : Cfg) (msgs : List Bytes) : String :=
  let init := serverInit cfg
  let (st, outs) := msgs.foldl (fun (acc : SState × List Bytes) m =>
      let o := serverStep cr cfg acc.1 m
      (o.1, acc.2 ++ o.2)) init
  showSPhase st.phase ++ " " ++ (match st.negInfo with | some (n, _) => showNeg n | none => "-") ++ " "
    ++ showAcc st.acc ++ " " ++ showHexList outs

def hashOp (ws : List String) : String :=
  let fin (pre : Option Prefix) (ks : Option Bytes) (body : Option KexBody) (k : Option Bytes) : String :=
    match pre, ks, body, k with
    | some pre, some ks, some body, some k =>
      match hashInput? ⟨pre, ks, body, k⟩ with
      | some h => hex h
      | none => "none"
    | _, _, _, _ => "bad-op"
  let pre (vc vs ic is : String) : Option Prefix :=
    match unhex vc, unhex vs, unhex ic, unhex is with
    | some a, some b, some c, some d => some ⟨a, b, c, d⟩
    | _, _, _, _ => none
  match ws with
  | ["dh", vc, vs, ic, is, ks, e, f, k] =>
    fin (pre vc vs ic is) (unhex ks)
      (match parseInt e, parseInt f with | some e, some f => some (.dh e f) | _, _ => none) (unhex k)
  | ["gex", vc, vs, ic, is, ks, req, p, g, e, f, k] =>
    fin (pre vc vs ic is) (unhex ks)
      (match unhex req, parseInt p, parseInt g, parseInt e, parseInt f with
       | some r, some p, some g, some e, some f => some (.gex r p g e f)
       | _, _, _, _, _ => none) (unhex k)
  | ["ecdh", vc, vs, ic, is, ks, qc, qs, k] =>
    fin (pre vc vs ic is) (unhex ks)
      (match unhex qc, unhex qs with | some a, some b => some (.ecdh a b) | _, _ => none) (unhex k)
  | ["rsa", vc, vs, ic, is, ks, t, c, k] =>
    fin (pre vc vs ic is) (unhex ks)
      (match unhex t, unhex c with | some a, some b => some (.rsa a b) | _, _ => none) (unhex k)
  | _ => "bad-op"

def showKexInit (k : KexInit) : String :=
  hex k.cookie ++ " " ++ String.intercalate ";" ([k.kexAlgs, k.hostKeyAlgs, k.encCS, k.encSC, k.macCS, k.macSC,
    k.cmpCS, k.cmpSC, k.langCS, k.langSC].map fun l => showHexList l) ++ " " ++
    (if k.firstFollows then "1" else "0") ++ " " ++ toString k.reserved

def step (_ : Unit) (ws : List String) : Unit × String :=
  let r := match ws with
    | ["choose", c, s] =>
      let c := parseNames c
      let s := parseNames s
      let sh (o : Option Name) := match o with | some n => showName n | none => "none"
      sh (chooseAlg true c s) ++ " " ++ sh (chooseAlg false s c)
    | ["kexinit", ic, cookie, kex, hk, enc, mac, cmp] =>
      match mkCfg "-" cookie kex hk enc mac cmp with
      | some cfg => (match ownKexInit (ic == "1") cfg with | some p => hex p | none => "none")
      | none => "bad-op"
    | ["parse", payload] =>
      match unhex payload with
      | some (t :: body) =>
        if t.toNat = Gen.C03.MSG_KEXINIT then
          (match parseKexInit body with | some k => "ok " ++ showKexInit k | none => "error")
        else "error"
      | _ => "error"
    | ["nego", ic, kex, hk, enc, mac, cmp, payload] =>
      match mkCfg "-" "-" kex hk enc mac cmp, unhex payload with
      | some cfg, some (_ :: body) =>
        (match parseKexInit body with
         | none => "err proto"
         | some peer =>
           match negotiate (ic == "1") cfg.algs peer with
           | .ok n => "ok " ++ showNeg n ++ " " ++ (if peerStrict (ic == "1") peer then "1" else "0") ++ " "
                        ++ (if ignoreFirstKex peer n.kex then "1" else "0")
           | .error e => "err " ++ showErr e)
      | _, _ => "bad-op"
    | "hash" :: rest => hashOp rest
    | ["range", x, p] =>
      match parseInt x, parseInt p with
      | some x, some p => (if dhClientRangeOk x p then "1" else "0") ++ " " ++ (if dhServerRangeOk x p then "1" else "0")
      | _, _ => "bad-op"
    | ["sigalg", a] => showName (sigAlgFor (strBytes a))
    | ["group", pref, mx] =>
      match pref.toNat?, mx.toNat? with
      | some a, some b => let gp := groupAt (selectGroup a b); toString gp.1 ++ " " ++ toString gp.2
      | _, _ => "bad-op"
    | ["client", version, cookie, kex, hk, enc, mac, cmp, script, delivered] =>
      match mkCfg version cookie kex hk enc mac cmp, parseHexList delivered with
      | some cfg, some msgs => runClient (scriptedCrypto (parseScript script)) cfg msgs
      | _, _ => "bad-op"
    | ["server", version, cookie, kex, hk, enc, mac, cmp, script, delivered] =>
      match mkCfg version cookie kex hk enc mac cmp, parseHexList delivered with
      | some cfg, some msgs => runServer (scriptedCrypto (parseScript script)) cfg msgs
      | _, _ => "bad-op"
    | _ => "bad-op"
  ((), r)

def main : IO Unit := runDriver step ()
