import AsyncsshModel.Model.ChannelSys
import AsyncsshModel.Model.ChannelCodec
import AsyncsshModel.Model.ChannelDecode
import AsyncsshModel.Model.ChannelText
/- Line-protocol driver for the C07 / C08 correspondence (see harness/props/_channel_lib.py).

   reset
   chan <i> <winA> <pktA> <winB> <pktB> <keepA> <keepB> <pausedA n|y|s> <pausedB> <decA 0|1> <decB 0|1>
   app <a|b> <i> write <dt|-> <hex> | eof | close | pause | resume | start | arm <k>
   deliver <a|b>                       next message on the multiplexed link to that side
   raw <a|b> <i> data <dt|-> <hex> | adjust <n> | eof | close     a (hostile) peer's message arrives directly
   req a <i>                           the client application sends a second `shell` request on a running channel
                                       (nothing is sent once its `_send_chan` is None); it travels on the link to b
                                       behind the messages already in flight; `deliver b` hands it to the server
                                       endpoint: `ProtocolError('Channel not open')` unless the receive half is
                                       open / eof_pending / eof, else answered with CHANNEL_FAILURE (`msgs=F`,
                                       nothing if the send half is close_pending / closed) and NOTHING else
                                       happens (`SSHServerChannel._start_session`, repair e7dbee0)
   dec <hex> ...                       the UTF-8 decoder alone, one chunk per argument
   tenc <codec> <cp.cp...|-> ...       one incremental encoder, one argument per write: bytes per write
   tfresh <codec> <cp.cp...|-> ...     every write encoded on its own
   tdec <codec> <hex|-> ...            one incremental decoder, one chunk per argument: text per chunk, then
                                       `clean` / `pending` (would `decode(b'', True)` raise?)
                                       codec = utf-8-sig | utf-16 | utf-32 | utf-16-le | utf-8

   side a = client (reads stderr, writes stdin only), side b = server. -/
open AsyncsshModel AsyncsshModel.Channel AsyncsshModel.ChannelCodec
open AsyncsshModel.ChannelText (TextCodec BomSt)

structure D where
  m : MSys
  /-- the decoders of a text endpoint (`Model/ChannelDecode.lean`: one per data type); `none` = bytes endpoint -/
  dec : Side → Nat → Option Decs
  dead : Bool
  /-- second session requests in flight to b: (number of link messages ahead of it, channel), in order -/
  reqs : List (Nat × Nat) := []

def initD : D :=
  { m := MSys.init (fun _ => ({ window := 1, pktsize := 1, readTypes := [1], writeTypes := [] },
                              { window := 1, pktsize := 1, readTypes := [], writeTypes := [1] })),
    dec := fun _ _ => none, dead := false }

def showDt (dt : DType) : String := match dt with | none => "-" | some t => toString t

def showMsg : Msg → String
  | .data dt bs => s!"D{showDt dt}:{bs.length}"
  | .adjust n => s!"A{n}"
  | .eof => "E"
  | .close => "C"

def showList (xs : List String) : String := if xs.isEmpty then "-" else String.intercalate "," xs

def showErr : Err → String
  | .brokenPipe => "brokenPipe" | .badDatatype => "badDatatype" | .notOpen => "notOpen"
  | .badExtType => "badExtType" | .windowExceeded => "windowExceeded" | .spin => "spin"

def parseSide (s : String) : Option Side := if s == "a" then some .a else if s == "b" then some .b else none
def parseDt (s : String) : Option DType := if s == "-" then some none else s.toNat?.map some
def parsePaused (s : String) : Option Paused :=
  if s == "n" then some .no else if s == "y" then some .yes else if s == "s" then some .starting else none

def showRaw : Out → String
  | .data dt bs => s!"d{showDt dt}:{hex bs}"
  | .eof => "e"
  | .lost => "l"

def showTOut : TOut → String
  | .text dt cps => s!"t{showDt dt}:" ++ (if cps.isEmpty then "-" else String.intercalate "." (cps.map toString))
  | .eof => "e"
  | .lost => "l"

/-- render the callbacks of one block, through the text layer of the model (`feedOutsV .now`: one decoder per data
    type, final decode before EOF / cleanup unless the block is the application's own `close()`) where the side
    decodes; `false` = UnicodeDecodeError -/
def showOuts (flush : Bool) (st : Option Decs) (os : List Out) : Option Decs × List String × Bool :=
  match st with
  | none => (none, os.map showRaw, true)
  | some ds =>
    match feedOutsV .now flush ds os with
    | (touts, some ds') => (some ds', touts.map showTOut, true)
    | (touts, none) => (some ds, touts.map showTOut, false)

/-- `ev`: the application event of the block, if it is one (the application's `close()` resets the decoders and
    skips the final decode: `discardDecs`) -/
def finish (d : D) (x : Side) (i : Nat) (pre : MSys) (inMsg : String) (r : Except Err MSys) (ev : Option Ev := none) :
    D × String :=
  match r with
  | .error e => ({ d with dead := true }, s!"fatal {showErr e}")
  | .ok m' =>
    let newMsgs := ((m'.link x.other).drop ((pre.link x.other).length)).map (fun p => showMsg p.2)
    let newOuts := ((m'.hist x i).dl).drop ((pre.hist x i).dl.length)
    let isClose := ev == some Ev.close
    let ds0 := (d.dec x i).map (fun ds => if isClose then discardDecs .now (pre.ep x i) .close ds else ds)
    let (st', outs, ok) := showOuts (!isClose) ds0 newOuts
    if ok then
      ({ d with m := m', dec := fun y j => if y = x ∧ j = i then st' else d.dec y j },
       s!"ok ch={i} in={inMsg} msgs={showList newMsgs} outs={showList outs}")
    else ({ d with dead := true }, s!"fatal decode outs={showList outs}")

def parseApp : List String → Option AppEv
  | ["write", dt, h] => do let dt ← parseDt dt; let bs ← unhex h; pure (.write dt bs)
  | ["eof"] => some .writeEof
  | ["close"] => some .close
  | ["pause"] => some .pause
  | ["resume"] => some .resume
  | ["start"] => some .startReading
  | ["arm", k] => k.toNat?.map .armPause
  | _ => none

def parseMsg : List String → Option Msg
  | ["data", dt, h] => do let dt ← parseDt dt; let bs ← unhex h; pure (.data dt bs)
  | ["adjust", n] => n.toNat?.map .adjust
  | ["eof"] => some .eof
  | ["close"] => some .close
  | _ => none

def decChunks (st : St) : List Bytes → List String → List String
  | [], acc => acc
  | c :: rest, acc =>
    match decode st c with
    | none => acc ++ ["err"]
    | some (st', cps) =>
      decChunks st' rest (acc ++ [if cps.isEmpty then "-" else String.intercalate "." (cps.map toString)])

def showCps (cps : List Nat) : String := if cps.isEmpty then "-" else String.intercalate "." (cps.map toString)
def showNats (bs : List Nat) : String := if bs.isEmpty then "-" else hex (bs.map UInt8.ofNat)
def parseCps (s : String) : Option (List Nat) := if s == "-" then some [] else (s.splitOn ".").mapM String.toNat?
def parseChunk (s : String) : Option (List Nat) :=
  if s == "-" then some [] else (unhex s).map (fun b => b.map UInt8.toNat)

def tdecRun (t : TextCodec) (isInit : t.dec.σ → Bool) (st : BomSt t.dec.σ) : List (List Nat) → List String → List String
  | [], acc =>
    acc ++ [match st with
            | .start k => if k == 0 then "clean" else "pending"
            | .body s => if isInit s then "clean" else "pending"
            | .bad _ => "pending"]
  | c :: rest, acc =>
    match ChannelText.run t.machine st c with
    | none => acc ++ ["err"]
    | some (st', cps) => tdecRun t isInit st' rest (acc ++ [showCps cps])

def textOp (op codec : String) (args : List String) : String :=
  let go (t : TextCodec) (isInit : t.dec.σ → Bool) : String :=
    if op == "tdec" then
      match args.mapM parseChunk with
      | some cs => String.intercalate " " (tdecRun t isInit (BomSt.start 0) cs [])
      | none => "bad-op"
    else
      match args.mapM parseCps with
      | some ws =>
        let outs := if op == "tenc" then ChannelText.encodeWrites t false ws else ws.map (ChannelText.encodeFresh t)
        if outs.isEmpty then "-" else String.intercalate " " (outs.map showNats)
      | none => "bad-op"
  if codec == "utf-8-sig" then go ChannelText.utf8sig (fun (s : St) => decide (s = .s0))
  else if codec == "utf-8" then go ChannelText.utf8 (fun (s : St) => decide (s = .s0))
  else if codec == "utf-16" then go ChannelText.utf16 (fun (s : ChannelText.St16) => decide (s = .s0))
  else if codec == "utf-16-le" then go ChannelText.utf16le (fun (s : ChannelText.St16) => decide (s = .s0))
  else if codec == "utf-32" then go ChannelText.utf32 (fun (s : ChannelText.St32) => decide (s = .s0))
  else "bad-op"

def step (d : D) (ws : List String) : D × String :=
  match ws with
  | ["reset"] => (initD, "ok")
  | "dec" :: hs =>
    match hs.mapM unhex with
    | some cs =>
      let outs := decChunks .s0 cs []
      (d, String.intercalate " " outs)
    | none => (d, "bad-op")
  | "tenc" :: codec :: args => (d, textOp "tenc" codec args)
  | "tfresh" :: codec :: args => (d, textOp "tfresh" codec args)
  | "tdec" :: codec :: args => (d, textOp "tdec" codec args)
  | "enc" :: cps =>
    match cps.mapM String.toNat? with
    | some l => (d, hex (encStr l))
    | none => (d, "bad-op")
  | ["chan", i, wa, pa, wb, pb, ka, kb, qa, qb, da, db] =>
    match i.toNat?, wa.toNat?, pa.toNat?, wb.toNat?, pb.toNat?, parsePaused qa, parsePaused qb with
    | some i, some wa, some pa, some wb, some pb, some qa, some qb =>
      let ca : SideCfg := { window := wa, pktsize := pa, readTypes := [1], writeTypes := [], eofKeep := ka == "1",
                            paused := qa }
      let cb : SideCfg := { window := wb, pktsize := pb, readTypes := [], writeTypes := [1], eofKeep := kb == "1",
                            paused := qb }
      let s0 := Sys.init ca cb
      let m := { d.m with ep := fun y j => if j = i then s0.ep y else d.m.ep y j,
                          hist := fun y j => if j = i then {} else d.m.hist y j }
      let dec := fun y j => if j = i then
          (match y with | .a => if da == "1" then some ([] : Decs) else none
                        | .b => if db == "1" then some ([] : Decs) else none)
        else d.dec y j
      ({ d with m := m, dec := dec }, "ok")
    | _, _, _, _, _, _, _ => (d, "bad-op")
  | "app" :: x :: i :: rest =>
    if d.dead then (d, "dead") else
    match parseSide x, i.toNat?, parseApp rest with
    | some x, some i, some e =>
      match Channel.step (d.m.ep x i) e.toEv with
      | .error err => if err.isApi then (d, s!"api {showErr err}") else ({ d with dead := true }, s!"fatal {showErr err}")
      | .ok _ => finish d x i d.m "-" (d.m.step (.app x i e)) (some e.toEv)
    | _, _, _ => (d, "bad-op")
  | ["deliver", x] =>
    if d.dead then (d, "dead") else
    match parseSide x with
    | some x =>
      match (if x = .b then d.reqs else []) with
      | (0, i) :: more =>
        -- `_process_request` → `_process_shell_request` → `_start_session` → False → `_report_response(False)`
        let c := d.m.ep .b i
        if ¬ recvOpenish c.recvState then ({ d with dead := true }, "fatal notOpen")
        else
          let reply := if c.sendState = .closePending ∨ c.sendState = .closed then "-" else "F"
          ({ d with reqs := more }, s!"ok ch={i} in=R msgs={reply} outs=-")
      | _ =>
        match d.m.link x with
        | [] => (d, "empty")
        | (i, msg) :: _ =>
          let d' := if x = .b then { d with reqs := d.reqs.map (fun p => (p.1 - 1, p.2)) } else d
          finish d' x i d.m (showMsg msg) (d.m.step (.deliver x))
    | none => (d, "bad-op")
  | ["req", "a", i] =>
    if d.dead then (d, "dead") else
    match i.toNat? with
    | some i =>
      let d' := if (d.m.ep .a i).sendChanOpen then { d with reqs := d.reqs ++ [((d.m.link .b).length, i)] } else d
      (d', s!"ok ch={i} in=- msgs=- outs=-")
    | none => (d, "bad-op")
  | "raw" :: x :: i :: rest =>
    if d.dead then (d, "dead") else
    match parseSide x, i.toNat?, parseMsg rest with
    | some x, some i, some msg =>
      -- the message is put at the head of the link to `x` and delivered at once
      let m1 := { d.m with link := upd d.m.link x ((i, msg) :: d.m.link x) }
      finish d x i m1 (showMsg msg) (m1.step (.deliver x))
    | _, _, _ => (d, "bad-op")
  | _ => (d, "bad-op")

def main : IO Unit := runDriver step initD
