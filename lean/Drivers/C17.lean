import AsyncsshModel.Model.AuthKeys
/- Line-protocol driver for the C17 correspondence (see harness/props/C17.py).
   Text arguments are hex-encoded UTF-8 (`-` = empty). -/
open AsyncsshModel AsyncsshModel.Pattern AsyncsshModel.KnownHosts AsyncsshModel.AuthKeys

structure ImpRow where
  data : Str
  key : Outcome Nat
  cert : Outcome (Nat × Bool)
  selfIssued : Bool
  subject : Outcome Nat

structure DState where
  x509 : Bool := false
  imps : List ImpRow := []
  hmacs : List (Bytes × Bytes × Bytes) := []
  kh : Except String (List Rec) := .ok []
  ak : Except String (List AKEntry) := .ok []

def text (h : String) : Option Str := do
  let b ← unhex h
  let s ← String.fromUTF8? (ByteArray.mk b.toArray)
  pure s.toList

def htext (s : Str) : String := hex (strBytes (String.ofList s))

def b2s (b : Bool) : String := if b then "1" else "0"

def parseNat? (s : String) : Option Nat := s.toNat?

def parseKeyOutcome (s : String) : Option (Outcome Nat) :=
  match s.toList with
  | ['E'] => some .importError
  | 'X' :: cls => some (.exc (String.ofList cls))
  | 'K' :: n => (String.ofList n).toNat?.map .ok
  | 'S' :: n => (String.ofList n).toNat?.map .ok
  | _ => none

/-- `C<n>x`, `C<n>o`, optionally followed by `s` (subject = issuer) -/
def parseCertOutcome (s : String) : Option (Outcome (Nat × Bool) × Bool) :=
  match s.toList with
  | ['E'] => some (.importError, false)
  | 'X' :: cls => some (.exc (String.ofList cls), false)
  | 'C' :: r =>
    let digits := r.takeWhile Char.isDigit
    let tail := r.dropWhile Char.isDigit
    match (String.ofList digits).toNat?, tail with
    | some n, ['x'] => some (.ok (n, true), false)
    | some n, ['o'] => some (.ok (n, false), false)
    | some n, ['x', 's'] => some (.ok (n, true), true)
    | some n, ['o', 's'] => some (.ok (n, false), true)
    | _, _ => none
  | _ => none

def DState.importer (st : DState) : AKImporter :=
  let find (d : Str) := st.imps.find? (·.data = d)
  { key := fun d => match find d with | some r => r.key | none => .importError,
    cert := fun d => match find d with | some r => r.cert | none => .importError,
    subject := fun d => match find d with | some r => r.subject | none => .importError,
    certSelfIssued := fun d => match find d with | some r => r.selfIssued | none => false }

def DState.hmac (st : DState) (salt msg : Bytes) : Bytes :=
  match st.hmacs.find? (fun r => r.1 = salt ∧ r.2.1 = msg) with
  | some r => r.2.2
  | none => List.replicate 21 255     -- never equals a table-less digest the harness forgot: flagged by length

def showIds (l : List Nat) : String := "[" ++ ",".intercalate (l.map toString) ++ "]"
def showCerts (l : List (Nat × Bool)) : String := "[" ++ ",".intercalate (l.map fun c => toString c.1) ++ "]"

def showResult (r : Result) : String :=
  s!"hk={showIds r.hostKeys} ca={showIds r.caKeys} rk={showIds r.revokedKeys} xc={showCerts r.x509Certs} rc={showCerts r.revokedCerts} xs={showIds r.x509Subjects} rs={showIds r.revokedSubjects}"

def showOptVal : OptVal → String
  | .flag => "T"
  | .str s => "s:" ++ htext s
  | .strs l => "l:" ++ ",".intercalate (l.map htext)
  | .env kv => "e:" ++ ",".intercalate (kv.map fun p => htext p.1 ++ ":" ++ htext p.2)
  | .froms l => "f:" ++ toString l.length
  | .names l => "p:" ++ toString l.length
  | .opens l => "o:" ++ ",".intercalate (l.map fun p => htext p.1 ++ "/" ++ (match p.2 with | none => "*" | some n => toString n))
  | .subjects l => "x:" ++ toString l.length

def showOpts (o : Opts) : String :=
  if o.isEmpty then "opts" else "opts " ++ ";".intercalate (o.map fun kv => htext kv.1 ++ "=" ++ showOptVal kv.2)

def parsePrincipals (s : String) : Option (Option (List Str)) :=
  match s.splitOn ":" with
  | ["N"] => some none
  | "L" :: rest => (rest.mapM text).map some
  | _ => none

def step (st : DState) (ws : List String) : DState × String :=
  match ws with
  | ["cfg", "x509", v] => ({ st with x509 := v == "1" }, "ok")
  | ["clear"] => ({ st with imps := [], hmacs := [] }, "ok")
  | ["imp", d, k, c, s] =>
    match text d, parseKeyOutcome k, parseCertOutcome c, parseKeyOutcome s with
    | some d, some k, some (c, si), some s => ({ st with imps := ⟨d, k, c, si, s⟩ :: st.imps }, "ok")
    | _, _, _, _ => (st, "bad-op")
  | ["hm", salt, msg, dig] =>
    match unhex salt, unhex msg, unhex dig with
    | some a, some b, some c => ({ st with hmacs := (a, b, c) :: st.hmacs }, "ok")
    | _, _, _ => (st, "bad-op")
  | ["glob", p, s] =>
    match text p, text s with
    | some p, some s => (st, b2s (globMatch p s))
    | _, _ => (st, "bad-op")
  | ["fnm", p, s] =>
    match text p, text s with
    | some p, some s => (st, match fnmatchLite p s with | some b => b2s b | none => "na")
    | _, _ => (st, "bad-op")
  | ["wfn", p, s] =>
    match text p, text s with
    | some p, some s => (st, match wildcardMatchesViaFnmatch p s with | some b => b2s b | none => "na")
    | _, _ => (st, "bad-op")
  | ["wlist", p, v] =>
    match text p, text v with
    | some p, some v => (st, b2s (wildcardListMatches p v))
    | _, _ => (st, "bad-op")
  | ["hlist", p, h, a] =>
    match text p, text h, text a with
    | some p, some h, some a =>
      (st, match lookupIP h a with
        | .error c => "exc:" ++ c
        | .ok ip => b2s (hostListMatches (parseHostList p) h a ip))
    | _, _, _ => (st, "bad-op")
  | ["ipaddr", s] =>
    match text s with
    | some s => (st, match parseAddress s with
        | some ip => (if ip.v6 then "6 " else "4 ") ++ toString ip.val
        | none => "none")
    | _ => (st, "bad-op")
  | ["ipnet", s] =>
    match text s with
    | some s => (st, match parseNetwork s with
        | some n => (if n.v6 then "6 " else "4 ") ++ toString n.addr ++ " " ++ toString n.plen
        | none => "none")
    | _ => (st, "bad-op")
  | ["b64", s] =>
    match text s with
    | some s => (st, match a2bBase64 s with | some b => hex b | none => "err")
    | _ => (st, "bad-op")
  | ["int", s] =>
    match text s with
    | some s => (st, match pyInt s with | some n => toString n | none => "err")
    | _ => (st, "bad-op")
  | ["kh", t, h, a, port] =>
    match text t, text h, text a, port.toNat? with
    | some t, some h, some a, some port =>
      (st, match matchKnownHosts st.x509 st.importer.toImporter st.hmac t h a port with
        | .error c => "exc:" ++ c
        | .ok r => showResult r)
    | _, _, _, _ => (st, "bad-op")
  | ["khload", t] =>
    match text t with
    | some t =>
      let r := KnownHosts.load st.x509 st.importer.toImporter t
      ({ st with kh := r }, match r with | .error c => "exc:" ++ c | .ok _ => "ok")
    | _ => (st, "bad-op")
  | ["khq", h, a, port] =>
    match text h, text a, port.toNat? with
    | some h, some a, some port =>
      (st, match st.kh with
        | .error c => "exc:" ++ c
        | .ok recs => match matchHosts st.hmac recs h a port with
          | .error c => "exc:" ++ c
          | .ok r => if (r.x509Certs ++ r.revokedCerts).any (fun c => !c.2) then "exc:ValueError" else showResult r)
    | _, _, _ => (st, "bad-op")
  | ["akload", t] =>
    match text t with
    | some t =>
      let r := AuthKeys.load st.x509 st.importer t
      ({ st with ak := r }, match r with | .error c => "exc:" ++ c | .ok _ => "ok")
    | _ => (st, "bad-op")
  | ["akq", key, h, a, pr, ca] =>
    match key.toNat?, text h, text a, parsePrincipals pr with
    | some key, some h, some a, some pr =>
      (st, match st.ak with
        | .error c => "exc:" ++ c
        | .ok es => match validate es key h a pr (ca == "1") with
          | .error c => "exc:" ++ c
          | .ok none => "none"
          | .ok (some o) => showOpts o)
    | _, _, _, _ => (st, "bad-op")
  | ["ak", t, key, h, a, pr, ca] =>
    match text t, key.toNat?, text h, text a, parsePrincipals pr with
    | some t, some key, some h, some a, some pr =>
      (st, match AuthKeys.load st.x509 st.importer t with
        | .error c => "exc:" ++ c
        | .ok es => match validate es key h a pr (ca == "1") with
          | .error c => "exc:" ++ c
          | .ok none => "none"
          | .ok (some o) => showOpts o)
    | _, _, _, _, _ => (st, "bad-op")
  | _ => (st, "bad-op")

def main : IO Unit := runDriver step {}
