import AsyncsshModel.Base.Hex
import AsyncsshModel.Model.LifecycleConn
import AsyncsshModel.Model.LifecycleWaiters
/- Line-protocol driver for the C09 correspondence (see harness/props/C09.py). -/
open AsyncsshModel AsyncsshModel.Lifecycle

def excName : Exc → String
  | .clean => "None" | .connLost => "ConnectionLost" | .proto => "ProtocolError"
  | .byApp => "DisconnectError" | .reset => "OSError" | .value => "ValueError"
  | .assertion => "AssertionError" | .attr => "AttributeError"

def kindName : ReqKind → String
  | .env => "env" | .pty => "pty-req" | .shell => "shell" | .exec => "exec" | .subsystem => "subsystem"
  | .exitStatus => "exit-status" | .unknown => "unknown"

def parseKind : String → ReqKind
  | "shell" => .shell | "exec" => .exec | "subsystem" => .subsystem | "env" => .env | "pty-req" => .pty
  | "exit-status" => .exitStatus | _ => .unknown

def cbName : Cb → String
  | .made => "made" | .started => "started" | .data => "data" | .eof => "eof" | .exit => "exit"
  | .ptyReq => "pty" | .sessReq k => "req:" ++ kindName k | .lost e => "lost:" ++ excName e
  | .pauseW => "pause_writing" | .resumeW => "resume_writing"

def ocbName : OCb → String
  | .made => "made" | .sessionRequested => "session_requested" | .serverRequested => "server_requested"
  | .lost e => "lost:" ++ excName e

def cmsgName (rc : Nat) : CMsg → String
  | .data => s!"data {rc}" | .eof => s!"eof {rc}" | .close => s!"close {rc}"
  | .adjust n => s!"adj {rc} {n}"
  | .req k w => s!"req {rc} {kindName k} {if w then 1 else 0}"
  | .success => s!"succ {rc}" | .failure => s!"failr {rc}"

def msgName : Msg → String
  | .chan rc m => cmsgName rc m
  | .open_ sc w => s!"open {sc} {w}"
  | .openConf rc sc w => s!"conf {rc} {sc} {w}"
  | .openFail rc => s!"fail {rc}"
  | .greq => "greq" | .gsuccess => "gsucc" | .gfailure => "gfail"
  | .disconnect e => "disc " ++ excName e

def outcomeName : Outcome → String
  | .pending => "pending" | .ok => "ok" | .openErr c => s!"ChannelOpenError:{c}"
  | .exc e => excName e | .listenErr => "ChannelListenError"

def opResName : OpRes → String
  | .ok => "ok" | .nochan => "nochan" | .raised e => "raised:" ++ excName e

def join (l : List String) (sep : String := ",") : String := if l.isEmpty then "-" else sep.intercalate l

def b (s : String) : Bool := s == "1"

def parseApp : String → Option AppOp
  | "write" => some .write | "eof" => some .eof | "close" => some .close | "abort" => some .abort
  | "pause" => some .pause | "resume" => some .resume | "exit" => some .exit | "drain" => some .drain | _ => none

def parseMode : String → OpenMode
  | "refuse" => .refuse | "later" => .later | _ => .accept

def regSlots (s : Conn) : List String :=
  (s.chans.zipIdx.filter (fun (c, _) => c.reg)).map (fun (_, i) => toString i)

def showConn (tag : String) (s : Conn) : List String :=
  let sess : List String :=
    if s.isClient then
      s.cli.zipIdx.map fun (cs, i) =>
        let ch := cs.slot.bind (fun k => s.chans[k]?)
        let tr := (ch.map (fun c => c.trace.map cbName)).getD []
        let wc := (ch.map (fun c => s!"{c.wcDone}/{c.wcPending}")).getD "0/0"
        let dr := (ch.map (fun c => s!"{c.drainDone}/{c.drainPending}")).getD "0/0"
        let out : Outcome := if cs.early then .openErr 2 else (ch.map (·.outcome)).getD .pending
        s!"c{i}={join tr};out={outcomeName out};wc={wc};dr={dr}"
    else
      s.srv.zipIdx.map fun (slot, j) =>
        let ch := slot.bind (fun k => s.chans[k]?)
        let tr := (ch.map (fun c => c.trace.map cbName)).getD []
        let wc := (ch.map (fun c => s!"{c.wcDone}/{c.wcPending}")).getD "0/0"
        let dr := (ch.map (fun c => s!"{c.drainDone}/{c.drainPending}")).getD "0/0"
        s!"s{j}={join tr};wc={wc};dr={dr}"
  [s!"{tag}.owner={join (s.ownerTrace.map ocbName)}", s!"{tag}.table={join (regSlots s)}",
   s!"{tag}.cwc={s.wcDone}/{s.wcPending}", s!"{tag}.closed={if s.closeEvent then 1 else 0}"] ++ sess ++
  (if s.isClient then s.greqs.zipIdx.map (fun (o, i) => s!"g{i}={outcomeName o}") ++
      (if s.connectOutcome != .ok ∨ s.establishing then [s!"connect={outcomeName s.connectOutcome}"] else []) else [])

def showSys (y : Sys) : String :=
  join (showConn "C" y.c ++ showConn "S" y.s ++
        [s!"q.c2s={join (y.c2s.map msgName) ";"}", s!"q.s2c={join (y.s2c.map msgName) ";"}"]) "|"


def parseExc : String → Exc
  | "None" => .clean | "ConnectionLost" => .connLost | "ProtocolError" => .proto
  | "DisconnectError" => .byApp | "OSError" => .reset | "ValueError" => .value
  | "AssertionError" => .assertion | _ => .attr

def resName : Waiters.Res → String
  | .pending => "pending" | .ret n => s!"ret:{n}" | .raised e => "raised:" ++ excName e
  | .incomplete n => s!"incomplete:{n}" | .brokenPipe => "BrokenPipeError"

def sresName : Waiters.SRes → String
  | .pending => "pending" | .reply => "reply" | .failed e => "failed:" ++ excName e
  | .connClosed => "SFTPConnectionLost" | .badMessage => "SFTPBadMessage" | .noConn => "SFTPNoConnection"

def showStream (s : Waiters.StreamSess) : String :=
  s!"reads={join (s.reads.map resName)};drains={join (s.drains.map resName)};" ++
  s!"blocked={if s.reader0.isSome then 1 else 0},{if s.reader1.isSome then 1 else 0},{s.drainers}"

def showSftp (s : Waiters.Sftp) : String :=
  let rs := (List.range s.nextId).map fun i =>
    match s.results.find? (fun p => p.1 == i) with
    | some (_, r) => sresName r
    | none => "pending"
  s!"req={join rs};reader={if s.readerAlive then 1 else 0}"

def parseInt (s : String) : Int := if s.startsWith "-" then -((s.drop 1).toNat! : Int) else (s.toNat! : Int)

structure DState where
  y : Sys := {}
  st : Waiters.StreamSess := {}
  sf : Waiters.Sftp := {}

def sideOf (s : String) : Bool := s == "c"

def evStep (d : DState) (e : Ev) : DState × String :=
  let (y, r) := d.y.step e
  ({ d with y := y }, opResName r)

def step (d : DState) (ws : List String) : DState × String :=
  match ws with
  | ["reset", w] =>
    let n := w.toNat!
    ({ d with y := { c := { isClient := true, win := n }, s := { isClient := false, win := n } } }, "ok")
  | ["establishing"] =>
    ({ d with y := { d.y with c := { d.y.c with establishing := true, connectOutcome := .pending } } }, "ok")
  | ["authdone"] =>
    ({ d with y := { d.y with c := { d.y.c with establishing := false, connectOutcome := .ok } } }, "ok")
  | ["scfg", mode, pty, req, eofr, armed] =>
    let cfg : SrvCfg := { mode := parseMode mode, ptyOK := b pty, reqOK := b req, eofRet := b eofr, armed := b armed }
    ({ d with y := { d.y with s := { d.y.s with srvCfg := d.y.s.srvCfg ++ [cfg] } } }, "ok")
  | ["pfmode", mode] =>
    ({ d with y := { d.y with s := { d.y.s with pfModes := d.y.s.pfModes ++ [parseMode mode] } } }, "ok")
  | ["open", nenv, pty, kind, eofr, armed] =>
    evStep d (.op true (.open_ { nenv := nenv.toNat!, pty := b pty, kind := parseKind kind, eofRet := b eofr, armed := b armed }))
  | ["op", side, i, "limits", hi, lo] => evStep d (.op (sideOf side) (.chanOp i.toNat! (.limits hi.toNat! lo.toNat!)))
  | ["op", side, i, o] =>
    (match parseApp o with
     | some a => evStep d (.op (sideOf side) (.chanOp i.toNat! a))
     | none => (d, "bad-op"))
  | ["wc", side, i] => evStep d (.op (sideOf side) (.waitClosed i.toNat!))
  | ["cwc", side] => evStep d (.op (sideOf side) .connWaitClosed)
  | ["greq"] => evStep d (.op true .greq)
  | ["grant", j, g] => evStep d (.op false (.grant j.toNat! (b g)))
  | ["pfdeny", j] => evStep d (.op false (.pfDecide j.toNat!))
  | ["cclose", side] => evStep d (.op (sideOf side) .connClose)
  | ["cabort", side] => evStep d (.op (sideOf side) .connAbort)
  | ["dl", dir] =>
    let toServer := dir == "c2s"
    let q := if toServer then d.y.c2s else d.y.s2c
    (match q with
     | [] => (d, "empty")
     | m :: _ => let (d', _) := evStep d (.deliver toServer); (d', msgName m))
  | ["tick"] => evStep d .tick
  | ["settle"] =>
    let (y, n) := d.y.settle 64
    ({ d with y := y }, s!"{n} {if y.quiet then "quiet" else "busy"}")
  | ["lose", side, reset] => evStep d (.lose (sideOf side) (b reset))
  | ["show"] => (d, showSys d.y)
  -- stream session / SFTP request table machines (Model/LifecycleWaiters.lean)
  | ["st", "reset"] => ({ d with st := {} }, "ok")
  | ["st", "data", dt] => ({ d with st := d.st.step (.data dt.toNat!) }, "ok")
  | ["st", "eof"] => ({ d with st := d.st.step .eof }, "ok")
  | ["st", "lost", e] => ({ d with st := d.st.step (.lost (parseExc e)) }, "ok")
  | ["st", "pausew"] => ({ d with st := d.st.step .pauseW }, "ok")
  | ["st", "resumew"] => ({ d with st := d.st.step .resumeW }, "ok")
  | ["st", "read", dt, n, x] => ({ d with st := d.st.step (.read dt.toNat! (parseInt n) (b x)) }, "ok")
  | ["st", "drain"] => ({ d with st := d.st.step .drain }, "ok")
  | ["st", "show"] => (d, showStream d.st)
  | ["sf", "reset"] => ({ d with sf := {}, st := {} }, "ok")
  | ["sf", "req"] => ({ d with sf := Waiters.sftpRequest d.sf }, "ok")
  | ["sf", "reply", i] => ({ d with sf := Waiters.sftpReply d.sf i.toNat! }, "ok")
  | ["sf", "lost", e] =>
    -- the handler's `recv_packets` task sits in `readexactly(4)` on stdout when the channel goes away
    let st0 := if d.st.reader0.isSome ∨ d.sf.readerAlive = false then d.st else d.st.step (.read 0 4 true)
    let (st, sf) := Waiters.sftpOnChannelLost st0 d.sf (parseExc e)
    ({ d with st := st, sf := sf }, "ok")
  | ["sf", "show"] => (d, showSftp d.sf)
  | _ => (d, "bad-op")

def main : IO Unit := runDriver step {}
