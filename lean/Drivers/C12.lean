import AsyncsshModel.Model.SftpIO
/- Line-protocol driver for the C12 correspondence (see harness/props/C12.py).

   read  <strict> <bs> <mr> <start> <size> <ev>*              _SFTPFileReader.run
   fread <strict> <toEndReader> <toEnd> <readLen> <maxReadLen> <mr> <off> <size> <ev>*
                                                              SFTPClientFile.read (path choice + transfer)
   write <eofErr> <writeAll> <bs> <mr> <start> <data> <file0> <wev>*     _SFTPFileWriter.run
   copy  <ext> <eofErr> <bs> <mr> <total> <sparse> <ranges|-> <ev>*      _SFTPFileCopier.run
   (<strict>, <ext>, <eofErr>, <writeAll>, <toEndReader>: 1 when the tree has the empty-reply check / the sparse
    extension step / EOF-status-is-an-error for writes / the write-everything loop of SFTPServer.write /
    read-to-end through the reader, see Gen/C12.lean)
   fobj  <appending> <toEndReader> <readLen> <writeLen> <maxReadLen> <content> <op>*
   ranges <limit> <extents|->                                 SEEK_DATA/SEEK_HOLE walk
   rcopy <src> <ranges|->                                     server-side copy-data per range

   ev  : d:<off>:<size>:<hex> | e:<off>:<size> | x:<off>:<size> | b
   wev : o:<off>:<size> | x:<off>:<size> | e:<off>:<size> (FX_EOF status) | s:<off>:<size>:<n> (short write) | b
   op  : r:<size|n>:<off|n> | w:<hex>:<off|n> | ss:<n> | sc:<n> | se:<n> | t

   Output of a transfer: the requests issued, grouped per batch (`;` between batches, sorted inside a batch,
   first group = the initial `_start_tasks`), then the outcome. -/
open AsyncsshModel AsyncsshModel.SftpIO

def splitOn (s : String) (c : Char) : List String := s.splitOn (String.singleton c)

def parseReq (o s : String) : Option Req := do
  let o ← o.toNat?
  let s ← s.toNat?
  pure ⟨o, s⟩

def parseEv (t : String) : Option Ev :=
  match splitOn t ':' with
  | ["b"] => some .endBatch
  | ["d", o, s, h] => do
    let r ← parseReq o s
    let d ← unhex h
    pure (.complete r (.data d))
  | ["e", o, s] => (parseReq o s).map fun r => .complete r .eof
  | ["x", o, s] => (parseReq o s).map fun r => .complete r .err
  | _ => none

def parseWEv (t : String) : Option WEvX :=
  match splitOn t ':' with
  | ["b"] => some (.base .endBatch)
  | ["o", o, s] => (parseReq o s).map fun r => .base (.ok r)
  | ["x", o, s] => (parseReq o s).map fun r => .base (.err r)
  | ["e", o, s] => (parseReq o s).map .eof
  | ["s", o, s, n] => do
    let r ← parseReq o s
    let n ← n.toNat?
    pure (.short r n)
  | _ => none

def parsePairs (t : String) : Option (List (Nat × Nat)) :=
  if t == "-" then some [] else
  (splitOn t ',').mapM fun p =>
    match splitOn p ':' with
    | [a, b] => do
      let a ← a.toNat?
      let b ← b.toNat?
      pure (a, b)
    | _ => none

def showReq (r : Req) : String := s!"{r.off}:{r.size}"

def sortReqs (l : List Req) : List Req :=
  (l.toArray.qsort fun a b => a.off < b.off || (a.off == b.off && a.size < b.size)).toList

def showBatch (l : List Req) : String :=
  if l.isEmpty then "-" else String.intercalate "," ((sortReqs l).map showReq)

def newReqs (before after : List Req) : List Req := after.filter fun r => !before.contains r

/-- run events, collecting per batch the requests that appeared -/
def runBatchesG {σ ε : Type} (isEnd : ε → Bool) (pend : σ → List Req) (raised : σ → Bool) (step : σ → ε → σ)
    (s0 : σ) (evs : List ε) : σ × List (List Req) :=
  let rec go (s : σ) (cur : List Req) (acc : List (List Req)) : List ε → σ × List (List Req)
    | [] => (s, if cur.isEmpty then acc.reverse else (cur :: acc).reverse)
    | e :: rest =>
      let s' := step s e
      let cur' := cur ++ newReqs (pend s) (pend s')
      if isEnd e then
        -- tasks created in a batch that ends by raising are cancelled before they issue their request
        go s' [] ((if raised s' then [] else cur') :: acc) rest
      else go s' cur' acc rest
  go s0 [] [] evs

def runBatches {σ : Type} (pend : σ → List Req) (raised : σ → Bool) (step : σ → Ev → σ) (s0 : σ)
    (evs : List Ev) : σ × List (List Req) :=
  runBatchesG (fun e => match e with | .endBatch => true | _ => false) pend raised step s0 evs

def showOutcome : Outcome → String
  | .running => "running"
  | .raised => "raised"
  | .ok b => "ok:" ++ hex b

def showBatches (init : List Req) (bs : List (List Req)) : String :=
  String.intercalate ";" ((init :: bs).map showBatch)

def doRead (strict : Bool) (bs mr start size : Nat) (evs : List Ev) : String :=
  let s0 := rinit bs mr start size
  let (s, batches) := runBatches (fun s => s.io.pending) (fun s => s.io.raised) (rstep bs mr start) s0
    (evs.map (rev strict))
  showBatches s0.io.pending batches ++ " " ++ showOutcome (goutcome s)

/-- `SFTPClientFile.read`'s single-request path: one `handler.read(offset, size)`, EOF swallowed -/
def doSingle (off size : Nat) (evs : List Ev) : String :=
  showReq ⟨off, size⟩ ++ " " ++ showOutcome (singleRead off size evs)

def showC (ext : Bool) (total : Nat) (sparse : Bool) (ranges : List (Nat × Nat)) (s : CState) : String :=
  (match coutcomeX ext total sparse ranges s with
   | .running => "running"
   | .raised => "raised"
   | .shortSource => "short"
   | .ok b => "ok:" ++ hex b) ++ s!" copied={s.g.copied}"

def parseOptInt (t : String) : Option (Option Int) :=
  if t == "n" then some none else t.toInt?.map some

def parseOp (t : String) : Option FOp :=
  match splitOn t ':' with
  | ["t"] => some .tell
  | ["ss", n] => n.toInt?.map .seekSet
  | ["sc", n] => n.toInt?.map .seekCur
  | ["se", n] => n.toInt?.map .seekEnd
  | ["r", s, o] => do
    let s ← parseOptInt s
    let o ← parseOptInt o
    pure (.read s o)
  | ["w", h, o] => do
    let d ← unhex h
    let o ← parseOptInt o
    pure (.write d o)
  | _ => none

def showRes : FRes → String
  | .bytes b => "b" ++ hex b
  | .num n => s!"n{n}"
  | .exc => "exc"

def showPairs (l : List (Nat × Nat)) : String :=
  if l.isEmpty then "-" else String.intercalate "," (l.map fun p => s!"{p.1}:{p.2}")

def step (_ : Unit) (ws : List String) : Unit × String :=
  let r : String := match ws with
    | "read" :: strict :: bs :: mr :: st :: sz :: evs =>
      match bs.toNat?, mr.toNat?, st.toNat?, sz.toNat?, evs.mapM parseEv with
      | some bs, some mr, some st, some sz, some evs => doRead (strict == "1") bs mr st sz evs
      | _, _, _, _, _ => "bad-op"
    | "fread" :: strict :: ter :: te :: rl :: mrl :: mr :: off :: sz :: evs =>
      match rl.toNat?, mrl.toNat?, mr.toNat?, off.toNat?, sz.toNat?, evs.mapM parseEv with
      | some rl, some mrl, some mr, some off, some sz, some evs =>
        if readParallel ⟨false, none, rl, 0, mrl, ter == "1"⟩ (te == "1") sz then
          "parallel " ++ doRead (strict == "1") rl mr off sz evs
        else "single " ++ doSingle off sz evs
      | _, _, _, _, _, _ => "bad-op"
    | "write" :: eofErr :: writeAll :: bs :: mr :: st :: data :: file0 :: evs =>
      match bs.toNat?, mr.toNat?, st.toNat?, unhex data, unhex file0, evs.mapM parseWEv with
      | some bs, some mr, some st, some data, some file0, some evs =>
        let s0 := winit bs mr st data file0
        let (s, batches) := runBatchesG (fun e => match e with | WEvX.base .endBatch => true | _ => false)
          (fun s => s.io.pending) (fun s => s.io.raised)
          (wstepX (eofErr == "1") (writeAll == "1") bs mr st data) s0 evs
        showBatches s0.io.pending batches ++ " " ++ showOutcome (goutcome s)
      | _, _, _, _, _, _ => "bad-op"
    | "copy" :: ext :: eofErr :: bs :: mr :: total :: sparse :: ranges :: evs =>
      match bs.toNat?, mr.toNat?, total.toNat?, parsePairs ranges, evs.mapM parseEv with
      | some bs, some mr, some total, some ranges, some evs =>
        let sp := sparse == "1"
        let rs := if sp then ranges else nonsparseRanges total
        let s0 := cinit bs mr rs
        let (s, batches) := runBatches (fun s => s.g.io.pending) (fun s => s.g.io.raised) (cstep bs mr) s0
          (evs.map (cev (eofErr == "1")))
        showBatches s0.g.io.pending batches ++ " " ++ showC (ext == "1") total sp rs s
      | _, _, _, _, _ => "bad-op"
    | "fobj" :: app :: ter :: rl :: wl :: mrl :: content :: ops =>
      match rl.toNat?, wl.toNat?, mrl.toNat?, unhex content, ops.mapM parseOp with
      | some rl, some wl, some mrl, some content, some ops =>
        let appending := app == "1"
        let w : FWorld := ⟨content, ⟨appending, if appending then none else some 0, rl, wl, mrl, ter == "1"⟩⟩
        let (w', rs) := frun w ops
        String.intercalate "," (rs.map showRes) ++ " " ++ hex w'.content ++ " " ++
          (match w'.obj.offset with | none => "n" | some o => s!"{o}")
      | _, _, _, _, _ => "bad-op"
    | ["ranges", limit, ext] =>
      match limit.toNat?, parsePairs ext with
      | some limit, some ext => showPairs (dataRanges ext limit)
      | _, _ => "bad-op"
    | ["rcopy", src, ranges] =>
      match unhex src, parsePairs ranges with
      | some src, some ranges => hex (remoteCopy src ranges)
      | _, _ => "bad-op"
    | _ => "bad-op"
  ((), r)

def main : IO Unit := runDriver step ()
