import AsyncsshModel.Model.Auth
import AsyncsshModel.Base.Hex
/- Line-protocol driver for the C05 correspondence (harness/props/C05.py). -/
open AsyncsshModel AsyncsshModel.Auth

def pairsOf (s : String) : List (Nat × Nat) :=
  if s == "-" then [] else (s.splitOn ",").filterMap fun p =>
    match p.splitOn ":" with
    | [a, b] => match a.toNat?, b.toNat? with
      | some a, some b => some (a, b)
      | _, _ => none
    | _ => none

def parseMethod : String → Option Method
  | "none" => some .none
  | "password" => some .password
  | "pkprobe" => some .pkProbe
  | "pksig1" => some (.pkSig true)
  | "pksig0" => some (.pkSig false)
  | "pwchange" => some .pwChange
  | "kbdint" => some .kbdint
  | "unknown" => some .unknown
  | _ => none

/-- hostbased: `hostsig1` / `hostsig0` present the named host's own key (host c holds key c % 3), `hostsig1k<j>`
    presents key j (correctly signed) -/
def parseHostMethod (m : String) (c : Nat) : Option Method :=
  if m == "hostsig1" then some (.hostSig true (c % 3))
  else if m == "hostsig0" then some (.hostSig false (c % 3))
  else if m.startsWith "hostsig1k" then (m.drop 9).toNat?.map (.hostSig true)
  else none

def parseEv (s : String) : Option Ev :=
  match s.splitOn ":" with
  | ["req", u, m, c] => match u.toNat?, c.toNat? with
    | some u, some c =>
      match parseMethod m with
      | some m => some (.req ⟨u, m, c⟩)
      | none => (parseHostMethod m c).map fun m => .req ⟨u, m, c⟩
    | _, _ => none
  | ["begin", k] => k.toNat?.map .beginDone
  | ["val", k] => k.toNat?.map .valDone
  | ["other"] => some .other
  | ["info", c] => c.toNat?.map .info
  | ["authmsg"] => some .authMsg
  | _ => none

def showReply : Reply → String
  | .success => "S" | .failure => "F" | .pkOk => "P" | .changeReq => "P" | .infoReq => "P" | .unimpl => "U"

def triplesOf (s : String) : List (Nat × Nat × Nat) :=
  if s == "-" then [] else (s.splitOn ",").filterMap fun p =>
    match p.splitOn ":" with
    | [a, b, c] => match a.toNat?, b.toNat?, c.toNat? with
      | some a, some b, some c => some (a, b, c)
      | _, _, _ => none
    | _ => none

def ansOf : Nat → KbdAns
  | 1 => .accept
  | 2 => .challenge
  | _ => .reject

/-- run <new|mid|old> <async 0/1><perUserKeys 0/1> <noauth users: u:1,...|-> <pw: u:c,...|-> <key: u:k,...|-> events... -/
def step (_ : Unit) (ws : List String) : Unit × String :=
  let r := match ws with
    | "run" :: variant :: async :: noauth :: pw :: key :: evs =>
      match evs.mapM parseEv with
      | some es =>
        let na := pairsOf noauth
        let pws := pairsOf pw
        let ks := pairsOf key
        let app : App := { needsAuth := fun u => !(na.any (·.1 == u)), beginAsync := async.startsWith "1",
                           pwOK := fun u c => pws.any (· == (u, c)), keyOK := fun u k => ks.any (· == (u, k)),
                           perUserKeys := async.endsWith "1" && async.length == 2 }
        let s := if variant == "old" then runOld app es else if variant == "mid" then runMid app es else run app es
        let comp := match s.complete with | some u => toString u | none => "-"
        s!"out={String.join (s.out.map showReply)} complete={comp} closed={if s.closed then 1 else 0}"
      | none => "bad-op"
    | op :: async :: noauth :: pw :: key :: pwexp :: chpw :: chpwexp :: hostkey :: hostuser :: kbd0 :: kbd1 :: evs =>
      if !op.startsWith "run2" then "bad-op" else
      match evs.mapM parseEv with
      | some es =>
        -- run2[o][q<4 bits>]: `o` also prints whose key options are in force, `q` runs the pre-repair code with
        -- the quirks trustedKeysAccumulate, claimedHostToApp, earlyInfoResponse, staleKeyOptions
        let rest := op.drop 4
        let showOpts := rest.startsWith "o"
        let qbits := (if showOpts then rest.drop 1 else rest).drop 1
        let qb := fun (i : Nat) => (qbits.drop i).startsWith "1"
        let q : Quirks := ⟨qb 0, qb 1, qb 2, qb 3⟩
        let fl := fun (i : Nat) => (async.drop i).startsWith "1"
        let rhost := ((async.drop 3).take 1).toNat?.getD 0
        let na := pairsOf noauth
        let pws := pairsOf pw
        let ks := pairsOf key
        let pe := pairsOf pwexp
        let cp := pairsOf chpw
        let cpe := pairsOf chpwexp
        let hk := pairsOf hostkey
        let hu := pairsOf hostuser
        let k0 := pairsOf kbd0
        let k1 := triplesOf kbd1
        let app : App := { needsAuth := fun u => !(na.any (·.1 == u)), beginAsync := async.startsWith "1",
                           pwOK := fun u c => pws.any (· == (u, c)), keyOK := fun u k => ks.any (· == (u, k)),
                           perUserKeys := fl 1,
                           trustClientHost := !((async.drop 2).startsWith "0"), resolvedHost := rhost,
                           pwExpired := fun u c => pe.any (· == (u, c)),
                           chpwOK := fun u c => cp.any (· == (u, c)),
                           chpwExpired := fun u c => cpe.any (· == (u, c)),
                           hostKeyOK := fun h k => hk.any (·.1 == h) && k == h % 3,
                           hostUserOK := fun u c => hu.any (· == (u, c)),
                           kbdStart := fun u => match k0.find? (·.1 == u) with | some (_, a) => ansOf a | none => .reject,
                           kbdNext := fun u c => match k1.find? (fun t => t.1 == u && t.2.1 == c) with
                             | some (_, _, a) => ansOf a | none => .reject }
        let s := if qbits.isEmpty then run app es else runQ q app es
        let comp := match s.complete with | some u => toString u | none => "-"
        let opts := if showOpts then (match s.keyOpts with | some k => s!" opts={k}" | none => " opts=-") else ""
        s!"out={String.join (s.out.map showReply)} complete={comp} closed={if s.closed then 1 else 0}{opts}"
      | none => "bad-op"
    | _ => "bad-op"
  ((), r)

def main : IO Unit := runDriver step ()
