import AsyncsshModel.Model.PathMap
/- Line-protocol driver for the C13 correspondence (see harness/props/C13.py). -/
open AsyncsshModel AsyncsshModel.Path AsyncsshModel.PathMap

def showPath (p : List Bytes) : String := String.intercalate "/" (p.map hex)
def showPaths (ps : List (List Bytes)) : String :=
  if ps.isEmpty then "-" else String.intercalate ";" (ps.map showPath)

/-- a C/D record as the sink reads it: the name is the third field of `args.split(None, 2)` (so leading blanks
    of the name sent are gone; a record without a third field is an invalid request) -/
def recOf (isDir : Bool) (name : Bytes) : ScpRec :=
  match split3 ("0644 0 ".toUTF8.toList ++ name) with
  | some (_, _, nm) => classify isDir nm
  | none => .bad name

def parseRec (s : String) : Option ScpRec :=
  match s.toList with
  | ['E'] => some .endDir
  | ['T'] => some .time
  | 'C' :: r => (unhex (String.ofList r)).map (recOf false)
  | 'D' :: r => (unhex (String.ofList r)).map (recOf true)
  | _ => none

/-- parse prefix-notation tree tokens into entries; returns entries and remaining tokens -/
partial def parseEntries (toks : List String) : List Entry × List String :=
  match toks with
  | [] => ([], [])
  | t :: rest =>
    match t.toList with
    | ['U'] => ([], rest)
    | 'F' :: r =>
      let (es, rem) := parseEntries rest
      (.file ((unhex (String.ofList r)).getD []) :: es, rem)
    | 'D' :: r =>
      let (ch, rem1) := parseEntries rest
      let (es, rem2) := parseEntries rem1
      (.dir ((unhex (String.ofList r)).getD []) ch :: es, rem2)
    | _ => ([], rest)

def step (_ : Unit) (ws : List String) : Unit × String :=
  let r := match ws with
    | ["map", r, p] => match unhex r, unhex p with
      | some r, some p => hex (mapPath r p)
      | _, _ => "bad-op"
    | ["rev", r, p] => match unhex r, unhex p with
      | some r, some p => match reverseMapPath r p with
        | some q => hex q
        | none => "none"
      | _, _ => "bad-op"
    | ["norm", p] => match unhex p with
      | some p => hex (normpath p)
      | _ => "bad-op"
    | ["join", a, b] => match unhex a, unhex b with
      | some a, some b => hex (join a b)
      | _, _ => "bad-op"
    | ["dirname", p] => match unhex p with
      | some p => hex (dirname p)
      | _ => "bad-op"
    | ["cd", a] => match unhex a with
      | some a => match split3 a with
        | some (_, _, name) => if scpNameOk name then "name " ++ hex name else "bad"
        | none => "bad"
      | _ => "bad-op"
    | "sink" :: recs => match recs.mapM parseRec with
      | some rs => showPaths (sink rs [])
      | none => "bad-op"
    | "sinknew" :: f :: recs => match recs.mapM parseRec with
      | some rs =>
        let ps := sinkNew rs (f == "1")
        if ps.isEmpty then "-" else String.intercalate ";" (ps.map fun p => if p.isEmpty then "@" else showPath p)
      | none => "bad-op"
    | "get" :: toks =>
      let (es, _) := parseEntries toks
      let (ps, ab) := copyEntries [] es
      showPaths ps ++ (if ab then " aborted" else " done")
    | "mget" :: fixed :: dir :: toks =>
      match unhex dir with
      | some dir =>
        let (es, _) := parseEntries toks
        let (ps, ab) := mget (fixed == "1") dir es
        showPaths ps ++ (if ab then " aborted" else " done")
      | none => "bad-op"
    | ["basename", p] => match unhex p with
      | some p => hex (basename p)
      | _ => "bad-op"
    | ["rlans", fixed, r, cwd, p, t] => match unhex r, unhex cwd, unhex p, unhex t with
      | some r, some cwd, some p, some t => match readlinkAnswer (fixed == "1") r cwd p t with
        | some q => hex q
        | none => "none"
      | _, _, _, _ => "bad-op"
    | _ => "bad-op"
  ((), r)

def main : IO Unit := runDriver step ()
