import AsyncsshModel.Model.Rekey
import AsyncsshModel.Base.Hex
/- Line-protocol driver for the C11 correspondence (harness/props/C11.py): the two-endpoint rekey model. -/
open AsyncsshModel AsyncsshModel.Rekey

def parseEv (s : String) : Option SysEv :=
  match s.splitOn ":" with
  | ["sc", t, g] => match t.toNat?, g.toNat? with
    | some t, some g => some (.submitC ⟨t, g⟩)
    | _, _ => none
  | ["ss", t, g] => match t.toNat?, g.toNat? with
    | some t, some g => some (.submitS ⟨t, g⟩)
    | _, _ => none
  | ["lc"] => some .limitC
  | ["ls"] => some .limitS
  | ["tc"] => some .lateC
  | ["ts"] => some .lateS
  | ["dcs"] => some .deliverCS
  | ["dsc"] => some .deliverSC
  | _ => none

def showTypes (l : List Wire) : String :=
  if l.isEmpty then "-" else String.intercalate "," (l.map fun w => toString w.pkt.type)
def showTags (l : List Pkt) : String :=
  let d := l.filter (·.type == 94)
  if d.isEmpty then "-" else String.intercalate "," (d.map fun p => toString p.tag)
def b (x : Bool) : String := if x then "1" else "0"

def step (_ : Unit) (ws : List String) : Unit × String :=
  let r := match ws with
    | "sys" :: evs =>
      match evs.mapM parseEv with
      | some es =>
        let y := sysRun Sys.init es
        s!"c_out={showTypes y.c.out} s_out={showTypes y.s.out} c_del={showTags y.c.delivered} s_del={showTags y.s.delivered} failed={b y.c.failed}{b y.s.failed} epochs={y.c.sendEpoch}/{y.c.recvEpoch}/{y.s.sendEpoch}/{y.s.recvEpoch} deferred={y.c.deferred.length}/{y.s.deferred.length}"
      | none => "bad-op"
    | _ => "bad-op"
  ((), r)

def main : IO Unit := runDriver step ()
