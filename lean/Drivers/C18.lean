import AsyncsshModel.Model.ConfigEval
import AsyncsshModel.Gen.C18
/- Line-protocol driver for the C18 correspondence (see harness/props/C18.py).

   unit ops:   shlex <hex> | spliteq <c|s> <hex>* | int <hex> | wild <pat> <val> | patlist <pats> <val>
               | exptok <hex> (<hexchar>:<hexval>)* | expenv <hex> (<hexname>:<hexval>)* | unsafe <hex>
               | strip <hex> | glob <pattern> home=<hex> dir=<hex> (<hexpath>)*
   load op:    load k=v ...   (keys: cls, fuel, mode, canon, canonical, final, host, luser, laddr, lport, user, shost,
               addr, lhost, home, uid, dir, env=<n>:<v>, file=<p>:<t>, path=<p>, init=<name>:<value>,
               inh=<name>:<value> an option inherited from the previous config object) -/
open AsyncsshModel AsyncsshModel.Config

def showList (l : List Bytes) : String :=
  if l.isEmpty then "[]" else String.intercalate "," (l.map hex)

def showErr : Err → String
  | .parse => "exc:parse" | .index => "exc:index" | .illegalUser => "exc:illegaluser"
  | .depth => "exc:depth" | .io => "exc:io"

def showPart : RekeyPart → String
  | .dflt => "d" | .none => "n" | .str s => "s" ++ hex s

def showValue : Value → String
  | .bool b => if b then "b1" else "b0"
  | .int i => "i" ++ toString i
  | .str s => "s" ++ hex s
  | .none => "n"
  | .list l => "l" ++ String.intercalate "," (l.map hex)
  | .rekey b t => "r" ++ showPart b ++ "," ++ showPart t

def showOpts (o : Opts) : String :=
  if o.isEmpty then "-" else
  String.intercalate ";" (o.map fun p => String.ofList (p.1.map fun c => Char.ofNat c.toNat) ++ "=" ++ showValue p.2)

def tableOf (s : String) : Table := if s == "s" then Gen.C18.serverTable else Gen.C18.clientTable

def splitColon (s : String) : String × String :=
  match s.splitOn ":" with
  | [a, b] => (a, b)
  | _ => (s, "-")

def unhexD (s : String) : Bytes := (unhex s).getD []

def parsePairs (ws : List String) : List (Bytes × Bytes) :=
  ws.map fun w => let (a, b) := splitColon w; (unhexD a, unhexD b)

def parsePart (s : String) : RekeyPart :=
  match s.toList with
  | ['d'] => .dflt
  | 's' :: r => .str (unhexD (String.ofList r))
  | _ => .none

def parseValue (s : String) : Value :=
  match s.toList with
  | 's' :: r => .str (unhexD (String.ofList r))
  | 'i' :: r => .int ((String.ofList r).toInt?.getD 0)
  | ['n'] => .none
  | ['b', '1'] => .bool true
  | ['b', '0'] => .bool false
  | ['l'] => .list []
  | 'l' :: r => .list (((String.ofList r).splitOn ",").map unhexD)
  | 'r' :: r =>
    match (String.ofList r).splitOn "," with
    | [a, b] => .rekey (parsePart a) (parsePart b)
    | _ => .none
  | _ => .none

def cmarker (x : Bytes) : Bytes := strBytes ("<<C:" ++ hex x ++ ">>")

def emptyEnv : Env :=
  { canonical := false, final := false, origHost := [], localUser := [], localAddr := [], localPort := [],
    user := [], host := [], addr := [], environ := [], localHost := [], home := none, uid := none,
    defaultDir := [], files := [], exec := fun c => c == strBytes "true", hashC := cmarker, ifaddr := false }

structure LoadArgs where
  env : Env := emptyEnv
  cls : String := "c"
  fuel : Nat := 40
  mode : String := "load"
  canon : Option Bytes := none
  init : Opts := []
  paths : List Bytes := []

def kv (s : String) : String × String :=
  match s.splitOn "=" with
  | [a, b] => (a, b)
  | _ => (s, "")

def applyKV (a : LoadArgs) (w : String) : LoadArgs :=
  let (k, v) := kv w
  let e := a.env
  match k with
  | "cls" => { a with cls := v }
  | "fuel" => { a with fuel := v.toNat?.getD 40 }
  | "mode" => { a with mode := v }
  | "canon" => { a with canon := if v == "none" then none else some (unhexD v) }
  | "canonical" => { a with env := { e with canonical := v == "1" } }
  | "final" => { a with env := { e with final := v == "1" } }
  | "host" => { a with env := { e with origHost := unhexD v } }
  | "luser" => { a with env := { e with localUser := unhexD v } }
  | "laddr" => { a with env := { e with localAddr := unhexD v } }
  | "lport" => { a with env := { e with localPort := unhexD v } }
  | "user" => { a with env := { e with user := unhexD v } }
  | "shost" => { a with env := { e with host := unhexD v } }
  | "addr" => { a with env := { e with addr := unhexD v } }
  | "lhost" => { a with env := { e with localHost := unhexD v } }
  | "home" => { a with env := { e with home := if v == "none" then none else some (unhexD v) } }
  | "uid" => { a with env := { e with uid := if v == "none" then none else some (unhexD v) } }
  | "dir" => { a with env := { e with defaultDir := unhexD v } }
  | "env" => let (n, x) := splitColon v; { a with env := { e with environ := e.environ ++ [(unhexD n, unhexD x)] } }
  | "file" => let (n, x) := splitColon v; { a with env := { e with files := e.files ++ [(unhexD n, unhexD x)] } }
  | "path" => { a with paths := a.paths ++ [unhexD v] }
  | "init" => let (n, x) := splitColon v; { a with init := a.init ++ [(unhexD n, parseValue x)] }
  -- an option inherited from `last_config` (already expanded there): start of the load and `_last_options`
  | "inh" => let (n, x) := splitColon v
             { a with init := a.init ++ [(unhexD n, parseValue x)],
                      env := { e with inherited := e.inherited ++ [(unhexD n, parseValue x)] } }
  | _ => a

def showResult (r : Except Err St) : String :=
  match r with
  | .error e => showErr e
  | .ok st => showOpts st.opts ++ " final=" ++ (if st.final.isSome then "1" else "0")

def step (_ : Unit) (ws : List String) : Unit × String :=
  let r := match ws with
    | ["shlex", s] => match shlexSplit (unhexD s) with
      | .ok l => showList l
      | .error e => showErr e
    | "spliteq" :: cls :: toks => match splitEq (tableOf cls).conditionals (toks.map unhexD) with
      | .ok (o, l) => hex o ++ " " ++ showList l
      | .error e => showErr e
    | ["int", s] => match pyInt (unhexD s) with
      | some i => toString i
      | none => "exc:value"
    | ["strip", s] => hex (strip (unhexD s))
    | ["wild", p, v] => if wildMatch (unhexD p) (unhexD v) then "1" else "0"
    | ["patlist", p, v] => if patListMatches (unhexD p) (unhexD v) then "1" else "0"
    | "exptok" :: s :: toks =>
      let tk : Tokens := (parsePairs toks).map fun p => (p.1.headD 0, p.2)
      match expandTokens tk (unhexD s) with
      | .ok r => hex r
      | .error e => showErr e
    | "expenv" :: s :: es => match expandEnv (parsePairs es) (unhexD s) with
      | .ok r => hex r
      | .error e => showErr e
    | ["unsafe", u] => if unsafeUser Gen.C18.unsafeUserAlts (unhexD u) then "1" else "0"
    | "glob" :: pat :: home :: dir :: files =>
      let e := { emptyEnv with home := some (unhexD ((kv home).2)), defaultDir := unhexD ((kv dir).2),
                               files := files.map fun f => (unhexD f, unhexD f) }
      showList (includeTargets e (unhexD pat))
    | "load" :: kvs =>
      let a := kvs.foldl applyKV {}
      let t := tableOf a.cls
      if a.mode == "resolve" then showResult (resolveClient t a.env a.fuel a.init a.paths a.canon)
      else showResult (load t a.env a.fuel a.init a.paths)
    | _ => "bad-op"
  ((), r)

def main : IO Unit := runDriver step ()
