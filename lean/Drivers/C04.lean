import AsyncsshModel.Model.HostTrustMachine
import AsyncsshModel.Base.Hex
/- Line-protocol driver for the C04 correspondence (see harness/props/C04.py).

   case <host> <alias> <addr> <port> <trust> <cbKey> <cbCa> <now4> <algopt> <keyalgs> <creds> <script> <rekey>
     host/alias/addr : hex utf-8 ('-' = empty)
     trust           : none | T=<ids>/C=<ids>/R=<ids>          (ids comma separated, may be empty)
     cbKey, cbCa     : 0/1 answers of validate_host_public_key / validate_host_ca_key
     algopt          : unset | default | e:<alg,alg,...>
     keyalgs         : algorithm names of the trusted keys in match order, or '-'
     creds           : server credentials ';'-separated, each
                         <alg,alg,...>|<presented>|<signer>|<alg,...: blob fits>|<alg,...: signature names it>
                       (the last two: the host key algorithms of the credential with which the presented blob can
                       be used / for which the signature names the right signature algorithm; '-' = none)
                       presented: K<id> | G | X | C<key>.<ca>.<type>.<after>.<before>.<princ hex,...|->
                       signer   : <id> genuine signature by that key over the exchange hash | x garbage |
                                  r<id> signature by that key over another hash (replay)
     script          : <pre>/<mid> letters injected between KEXINIT and the reply / between the reply and the
                       server's NEWKEYS: A service-accept, N newkeys, U userauth-failure, O other, B benign;
                       '-' = none
     rekey           : '-' | <now4b>: after authentication a second key exchange takes place at time now4b
   -> lookup=<hex>:<port|none> algs=<..> chosen=<i|none> verdict=<..> cb=<..> trace=<..> err=<..>
-/
open AsyncsshModel AsyncsshModel.HostTrust

def splitOn1 (s : String) (sep : String) : List String := if s.isEmpty then [] else s.splitOn sep

def parseIds (s : String) : List Nat := (splitOn1 s ",").filterMap String.toNat?

def parseTrust (s : String) : Option (Option Trust) :=
  if s == "none" then some none else
  match s.splitOn "/" with
  | [t, c, r] =>
    if t.startsWith "T=" && c.startsWith "C=" && r.startsWith "R=" then
      some (some ⟨parseIds (t.drop 2).toString, parseIds (c.drop 2).toString, parseIds (r.drop 2).toString⟩)
    else none
  | _ => none

def hexStr (s : String) : Option String := (unhex s).bind fun b => String.fromUTF8? (ByteArray.mk b.toArray)

def parsePresented (s : String) : Option Presented :=
  match s.toList with
  | ['G'] => some .garbage
  | ['X'] => some .x509
  | 'K' :: r => (String.ofList r).toNat?.map .key
  | 'C' :: r =>
    match (String.ofList r).splitOn "." with
    | [k, ca, ty, af, bf, pr] => do
      let k ← k.toNat?
      let ca ← ca.toNat?
      let ty ← ty.toNat?
      let af ← af.toNat?
      let bf ← bf.toNat?
      let ps ← if pr == "-" then some [] else (pr.splitOn ",").mapM hexStr
      pure (.cert ⟨k, ca, ty, af, bf, ps⟩)
    | _ => none
  | _ => none

/-- ideal signature functionality: (signer, message); `none` = not a signature of anything -/
abbrev DSig := Option (Nat × Nat)

def dverify (k : KeyId) (h : Nat) (sg : DSig) : Bool :=
  match sg with
  | some (s, m) => s == k && m == h
  | none => false

def theHash : Nat := 1

def parseSigner (s : String) : Option DSig :=
  match s.toList with
  | ['x'] => some none
  | 'r' :: r => (String.ofList r).toNat?.map fun k => some (k, theHash + 1)
  | _ => s.toNat?.map fun k => some (k, theHash)

def parseAlgList (s : String) : List String := if s == "-" then [] else splitOn1 s ","

def parseCred (s : String) : Option (List String × Presented × DSig × List String × List String) :=
  match s.splitOn "|" with
  | [a, p, g, ka, sa] => do
    let p ← parsePresented p
    let g ← parseSigner g
    pure (splitOn1 a ",", p, g, parseAlgList ka, parseAlgList sa)
  | _ => none

/-- the host key algorithm negotiated: the earliest client algorithm some server credential is registered for -/
def negotiatedAlg (clientAlgs : List String) (serverCreds : List (List String)) : Option String :=
  clientAlgs.find? fun a => serverCreds.any (·.contains a)

def parseLetters (s : String) : Option (List (Ev Nat DSig)) :=
  s.toList.mapM fun c => match c with
    | 'A' => some (.serviceAccept true)
    | 'N' => some .newkeys
    | 'U' => some (.userauthFailure true)
    | 'O' => some .other
    | 'B' => some .benign
    | _ => none

/-- `pre/mid`: letters injected before the reply / between the reply and the server's NEWKEYS -/
def parseScript (s : String) : Option (List (Ev Nat DSig) × List (Ev Nat DSig)) :=
  if s == "-" then some ([], []) else
  match s.splitOn "/" with
  | [a] => (parseLetters a).map (·, [])
  | [a, b] => do pure ((← parseLetters a), (← parseLetters b))
  | _ => none

def parseAlgOpt (s : String) : Option AlgOpt :=
  if s == "unset" then some .unset
  else if s == "default" then some .default
  else if s.startsWith "e:" then some (.explicit (splitOn1 (s.drop 2).toString ","))
  else none

def outTok : Out Nat → String
  | .sendNewkeys => toString Gen.C04.msgNewkeys
  | .sendServiceRequest => toString Gen.C04.msgServiceRequest
  | .sendUserauthRequest => toString Gen.C04.msgUserauthRequest
  | .disconnect _ => toString Gen.C04.msgDisconnect
  | .hostKeyAccepted _ => "acc"
  | .hostKeyRejected _ => "rej"
  | .sigVerified _ _ => "sigok"
  | .sigBad _ => "sigbad"

def errName : Err → String
  | .hostKeyNotVerifiable r => "HostKeyNotVerifiable:" ++ r.name
  | .keyExchangeFailed => "KeyExchangeFailed:sig"
  | .sigAlgMismatch => "KeyExchangeFailed:sigalg"
  | .protocolError => "ProtocolError"
  | .serviceNotAvailable => "ServiceNotAvailable"
  | .permissionDenied => "PermissionDenied"

def firstErr : List (Out Nat) → String
  | [] => "none"
  | .disconnect e :: _ => errName e
  | _ :: r => firstErr r

def commaOr (l : List String) : String := if l.isEmpty then "-" else String.intercalate "," l

def doCase (ws : List String) : Option String :=
  match ws with
  | [host, alias, addr, port, trust, cbk, cbc, now4, algopt, keyalgs, creds, script, rekey] => do
    let rekey ← if rekey == "-" then some none else rekey.toNat?.map some
    let host ← hexStr host
    let alias ← hexStr alias
    let addr ← hexStr addr
    let port ← port.toNat?
    let trust ← parseTrust trust
    let now4 ← now4.toNat?
    let opt ← parseAlgOpt algopt
    let keyAlgs := if keyalgs == "-" then [] else keyalgs.splitOn ","
    let creds ← (creds.splitOn ";").mapM parseCred
    let script ← parseScript script
    let app : App := ⟨fun _ _ _ _ => cbk == "1", fun _ _ _ _ => cbc == "1", .error .x509⟩
    let lh := lookupHost alias host
    let lp := lookupPort port
    let algs := offeredAlgs opt trust keyAlgs
    let chosen := chooseCred algs (creds.map (·.1))
    let head := s!"lookup={hex (strBytes lh)}:{match lp with | some p => toString p | none => "none"} " ++
      s!"algs={commaOr algs} "
    match chosen with
    | none =>
      -- the client finds no common host key algorithm itself and sends DISCONNECT
      pure (head ++ s!"chosen=none verdict=- cb=none trace={Gen.C04.msgDisconnect} err=KeyExchangeFailed:noalg")
    | some i =>
      let (_, pres, sg, fits, named) := creds.getD i ([], .garbage, none, [], [])
      let neg := (negotiatedAlg algs (creds.map (·.1))).getD ""
      let cfg : Cfg Nat DSig := ⟨trust, app, lh, addr, port, dverify, fun _ => fits.contains neg,
        fun _ => named.contains neg⟩
      let evs : List (Ev Nat DSig) :=
        [.kexInit] ++ script.1 ++ [.kexReply pres theHash sg now4] ++ script.2 ++ [.newkeys, .serviceAccept true]
          ++ (match rekey with
              | some now4b => [.kexInit, .kexReply pres theHash sg now4b, .newkeys]
              | none => [])
      let outs := run cfg St.init evs
      -- the verdict / callback columns describe the reply only when the script did not already end the connection
      let reached := (final cfg St.init ([.kexInit] ++ script.1)).closed == false
      -- (a blob that does not fit the negotiated algorithm is refused before the trust decision is taken)
      let misfit := pres != .garbage && !fits.contains neg
      let verdict := if !reached then "-" else if misfit then "rej:" ++ Reject.algMismatch.name else
        match validateHostKey trust app lh addr port now4 pres with
        | .ok k => s!"ok:{k}"
        | .error r => "rej:" ++ r.name
      let cb := if !reached || misfit then "none" else
        match consulted trust pres with
        | .none => "none"
        | .hostKey k => s!"key:{k}"
        | .caKey k => s!"ca:{k}"
      pure (head ++ s!"chosen={i} verdict={verdict} cb={cb} " ++
        s!"trace={commaOr (outs.map outTok)} err={firstErr outs}")
  | _ => none

def step (_ : Unit) (ws : List String) : Unit × String :=
  let r := match ws with
    | "case" :: rest => (doCase rest).getD "bad-op"
    | _ => "bad-op"
  ((), r)

def main : IO Unit := runDriver step ()
