import AsyncsshModel.Model.Forward
import AsyncsshModel.Model.Socks
import AsyncsshModel.Gen.C20
/- Line-protocol driver for the C20 correspondence (see harness/props/C20.py).

   relay <a|e|l|f|g> <ev>... relay machine from `initListener` (variant: as is / EOF repair / early-loss repair /
                            both / both and the repair of the open that raises another exception); events
                              ds<hex> dc<hex> (data sock/chan)  es ec (eof)  ls lc (lost)  ps pc (pause_writing)
                              rs rc (resume_writing)  ok (confirm)  fail  crash (the open raises something other
                              than ChannelOpenError: `crashStep`)
   destopen <a|f> <0|1> <ev>...  destination side (`destOpen`, before / after the repair; SSH connection lost /
                            still there when the connect completes), then relay events as above (variant g);
                            answer: the calls of the open, then one group per event
   sockdest <kind> <hosthex> <port>   `sockDest`: the address the socket layer acts on: `<hosthex> <port>`
                            answer: one group per event, groups joined by `|`; a group is `L`/`I` (legal/illegal
                            in the model) followed by the calls: w<s|c><hex> e<s|c> x<s|c> p<s|c> r<s|c>
                            k<s|c><0|1> (eof_received return value) A (assertion failure)
   socks <a|f> <chunk>...   SOCKS parser fed chunk by chunk; answer: per chunk group `|`-joined of
                              w<hex> x c<host>:<port> R<exc>  then ` ; ` and the status
                              connect <host> <port> <early-hex> | needmore | closed
                            host = n (empty) | i<hex> (address bytes) | s<hex> (name)
   perm <kind> <noPF> <cert> <permitopen> <host> <port> <app>
                            kind dt|tf|ds|sf; noPF 0|1; cert n|y|w|x|c|z (none / permit+others / permit only /
                            other permits only / critical options only / no options at all);
                            permitopen `-` or `,`-joined <hosthex>:<port|*>; answer `<verdict> <appAsked>`
   permitopen <valuehex>    `_add_permitopen`: `<hosthex> <port|*>` or `invalid`
   listen <a|r|f> <ev>...   listener table (variant: no repair / creation-vs-cleanup race repaired / that and the
                            duplicate UNIX path repair): q<hosthex>:<port>:<0|1> (request; port `u` = UNIX path)
                            c<id> f<id> x<hosthex>:<port|u> (cancel) l<id> (listener.close) C (cleanup);
                            answer `table=<ids> listening=<ids> pending=<ids> legal=<0|1>`
-/
open AsyncsshModel AsyncsshModel.Forward

def splitOnChar (s : String) (c : Char) : List String := s.splitOn (String.singleton c)

def parseSide : Char → Option Side
  | 's' => some .sock
  | 'c' => some .chan
  | _ => none

/-- an event of the relay machine, or the crash of the open -/
inductive Tok where
  | ev (e : Ev)
  | crash

def parseEv (s : String) : Option Ev :=
  match s.toList with
  | ['o', 'k'] => some .confirm
  | ['f', 'a', 'i', 'l'] => some .fail
  | 'd' :: x :: r => do
    let x ← parseSide x
    let d ← unhex (String.ofList r)
    pure (.data x d)
  | ['e', x] => (parseSide x).map .eof
  | ['l', x] => (parseSide x).map .lost
  | ['p', x] => (parseSide x).map .pauseW
  | ['r', x] => (parseSide x).map .resumeW
  | _ => none

def showSide : Side → String
  | .sock => "s"
  | .chan => "c"

def showOut : Out → String
  | .write x d => "w" ++ showSide x ++ hex d
  | .writeEof x => "e" ++ showSide x
  | .close x => "x" ++ showSide x
  | .pauseR x => "p" ++ showSide x
  | .resumeR x => "r" ++ showSide x
  | .eofRet x k => "k" ++ showSide x ++ (if k then "1" else "0")
  | .assertFail => "A"

/-- variant of the relay machine and whether the crash repair is present -/
def parseVariant (s : String) : Option (Variant × Bool) :=
  if s == "a" then some (.asIs, false) else if s == "f" then some (.fixed, false)
  else if s == "g" then some (.fixed, true)
  else if s == "e" then some (⟨true, false⟩, false) else if s == "l" then some (⟨false, true⟩, false) else none

def parseTok (s : String) : Option Tok :=
  if s == "crash" then some .crash else (parseEv s).map .ev

def showGroup (isLegal : Bool) (o : List Out) : String :=
  (if isLegal then "L" else "I") ++ String.intercalate "" ((o.map showOut).map (" " ++ ·))

def runRelay (v : Variant) (fixCrash : Bool) : Relay → List Tok → List String
  | _, [] => []
  | r, .ev e :: es =>
    let (r1, o) := step v r e
    showGroup (legal r e) o :: runRelay v fixCrash r1 es
  | r, .crash :: es =>
    let (r1, o) := crashStep fixCrash r
    showGroup (r.phase == .opening) o :: runRelay v fixCrash r1 es

/-! SOCKS -/

def showHost : Socks.Host → String
  | .none => "n"
  | .ip b => "i" ++ hex b
  | .name b => "s" ++ hex b

def showSOut : Socks.Out → String
  | .write b => "w" ++ hex b
  | .close => "x"
  | .connect h p => "c" ++ showHost h ++ ":" ++ toString p
  | .raised .assertion => "RAssertionError"
  | .raised .index => "RIndexError"
  | .raised .key => "RKeyError"
  | .outOfFuel => "FUEL"

def runSocks (v : Socks.Variant) : Socks.St → List Bytes → Socks.St × List String × List Socks.Out
  | st, [] => (st, [], [])
  | st, c :: cs =>
    let (s1, o1) := Socks.feed v st c
    let (s2, g, o2) := runSocks v s1 cs
    (s2, String.intercalate " " (o1.map showSOut) :: g, o1 ++ o2)

def showStatus : Socks.Status → String
  | .connect h p e => "connect " ++ showHost h ++ " " ++ toString p ++ " " ++ hex e
  | .needMore => "needmore"
  | .closed => "closed"

/-! permissions -/

def parseKind (s : String) : Option ReqKind :=
  if s == "dt" then some .directTcpip else if s == "tf" then some .tcpipForward
  else if s == "ds" then some .directStreamlocal else if s == "sf" then some .streamlocalForward else none

def parsePO (s : String) : Option (Bytes × Option Nat) :=
  match splitOnChar s ':' with
  | [h, p] => do
    let h ← unhex h
    if p == "*" then pure (h, none) else do
      let n ← p.toNat?
      pure (h, some n)
  | _ => none

def parsePOs (s : String) : Option (List (Bytes × Option Nat)) :=
  if s == "-" then some [] else (splitOnChar s ',').mapM parsePO

def showVerdict : Verdict → String
  | .created => "created"
  | .prohibited => "prohibited"
  | .refusedByApp => "refused"

def showInt (i : Int) : String := toString i

/-! listener table -/

def parseKey (h p : String) : Option LKey := do
  let h ← unhex h
  if p == "u" then pure (.unix h) else do
    let p ← p.toNat?
    pure (.tcp h p)

def parseLVariant (s : String) : Option LVariant :=
  if s == "a" then some ⟨false, false⟩ else if s == "r" then some ⟨true, false⟩
  else if s == "f" then some ⟨true, true⟩ else none

def parseLEv (s : String) : Option LEv :=
  match s.toList with
  | ['C'] => some .cleanup
  | 'c' :: r => (String.ofList r).toNat?.map .created
  | 'f' :: r => (String.ofList r).toNat?.map .createFailed
  | 'l' :: r => (String.ofList r).toNat?.map .closeListener
  | 'q' :: r =>
    match splitOnChar (String.ofList r) ':' with
    | [h, p, g] => (parseKey h p).map fun k => .request k (g == "1")
    | _ => none
  | 'x' :: r =>
    match splitOnChar (String.ofList r) ':' with
    | [h, p] => (parseKey h p).map .cancel
    | _ => none
  | _ => none

def showIds (l : List Nat) : String :=
  if l.isEmpty then "-" else String.intercalate "," (l.map toString)

def stepLine (_ : Unit) (ws : List String) : Unit × String :=
  let r := match ws with
    | "relay" :: v :: evs =>
      match parseVariant v, evs.mapM parseTok with
      | some (v, fc), some evs => String.intercalate " | " (runRelay v fc initListener evs)
      | _, _ => "bad-op"
    | "destopen" :: fx :: alive :: evs =>
      match evs.mapM parseTok with
      | some evs =>
        let (r, o) := destOpen (fx == "f") (alive == "1")
        String.intercalate " | " (showGroup true o :: runRelay .fixed true r evs)
      | none => "bad-op"
    | ["sockdest", kind, host, port] =>
      match parseKind kind, unhex host, port.toNat? with
      | some kind, some host, some port =>
        let d := sockDest kind { host := host, port := port }
        hex d.host ++ " " ++ toString d.port
      | _, _, _ => "bad-op"
    | "socks" :: v :: chunks =>
      match v, chunks.mapM unhex with
      | "a", some cs =>
        let (st, g, outs) := runSocks .asIs Socks.init cs
        String.intercalate " | " g ++ " ; " ++ showStatus (Socks.status st outs)
      | "f", some cs =>
        let (st, g, outs) := runSocks .fixed Socks.init cs
        String.intercalate " | " g ++ " ; " ++ showStatus (Socks.status st outs)
      | _, _ => "bad-op"
    | ["perm", kind, nopf, cert, po, host, port, app] =>
      match parseKind kind, parsePOs po, unhex host, port.toNat? with
      | some kind, some po, some host, some port =>
        let k : KeyOpts := { noPortForwarding := nopf == "1", permitopen := po }
        -- n no certificate; y permit-port-forwarding + others; w only permit-port-forwarding; x other permits
        -- only; c critical options only; z no options at all (empty dictionary)
        let c : Option CertOpts :=
          if cert == "n" then none
          else some { permitPortForwarding := cert == "y" || cert == "w", other := cert == "y" || cert == "x" || cert == "c" }
        let (vd, asked) := decideReq Gen.C20.lookup (Gen.C20.checksOf kind) k c { host := host, port := port } (app == "1")
        showVerdict vd ++ " " ++ (if asked then "1" else "0")
      | _, _, _, _ => "bad-op"
    | ["permitopen", v] =>
      match unhex v with
      | some v =>
        match parsePermitopen v with
        | some (h, .any) => hex h ++ " *"
        | some (h, .port n) => hex h ++ " " ++ showInt n
        | none => "invalid"
      | none => "bad-op"
    | "listen" :: v :: evs =>
      match parseLVariant v, evs.mapM parseLEv with
      | some v, some evs =>
        let s := lrun v {} evs
        "table=" ++ showIds (s.table.map (·.2)) ++ " listening=" ++ showIds s.listening
          ++ " pending=" ++ showIds (s.pending.map (·.1)) ++ " legal=" ++ (if llegalRun v {} evs then "1" else "0")
      | _, _ => "bad-op"
    | _ => "bad-op"
  ((), r)

def main : IO Unit := runDriver stepLine ()
