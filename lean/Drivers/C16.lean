import AsyncsshModel.Model.SshSig
import AsyncsshModel.Gen.C16
/- Line-protocol driver for the C16 correspondence (see harness/props/C16.py).
   Oracle answers (crypto primitives, key import, ip_network, parse_time) arrive on the op line;
   a query with no answer is answered "fails", so a missing answer can only make the model reject. -/
open AsyncsshModel AsyncsshModel.CertWire AsyncsshModel.Cert AsyncsshModel.SshSig
open AsyncsshModel.Gen.C16

def joinWith (sep : String) (l : List String) : String := String.intercalate sep l

def hexList (l : List Bytes) : String := if l.isEmpty then "=" else joinWith "," (l.map hex)

def unhexList (s : String) : Option (List Bytes) :=
  if s == "=" then some [] else (s.splitOn ",").mapM unhex

def showText (t : List Nat) : String := if t.isEmpty then "e" else joinWith "." (t.map toString)

def readText (s : String) : Option (List Nat) :=
  if s == "e" then some [] else (s.splitOn ".").mapM String.toNat?

def showTexts (l : List (List Nat)) : String := "P" ++ joinWith "," (l.map showText)

def readTexts (s : String) : Option (List (List Nat)) :=
  match s.toList with
  | 'P' :: [] => some []
  | 'P' :: r => ((String.ofList r).splitOn ",").mapM readText
  | _ => none

def utf8Encode (cps : List Nat) : Bytes :=
  cps.flatMap fun c =>
    if c < 128 then [UInt8.ofNat c]
    else if c < 2048 then [UInt8.ofNat (192 + c / 64), UInt8.ofNat (128 + c % 64)]
    else if c < 65536 then [UInt8.ofNat (224 + c / 4096), UInt8.ofNat (128 + c / 64 % 64), UInt8.ofNat (128 + c % 64)]
    else [UInt8.ofNat (240 + c / 262144), UInt8.ofNat (128 + c / 4096 % 64), UInt8.ofNat (128 + c / 64 % 64),
          UInt8.ofNat (128 + c % 64)]

def showRaw : RawSig → String
  | .bytes b => "b:" ++ hex b
  | .pair r s => "p:" ++ toString r ++ ":" ++ toString s

def showOptVal : OptVal → String
  | .flag => "F"
  | .text t => "T" ++ showText t
  | .addrs a => "A" ++ joinWith "," (a.map hex)

def showOpts (o : List (Bytes × OptVal)) : String :=
  "O" ++ joinWith ";" (o.map fun p => hex p.1 ++ "=" ++ showOptVal p.2)

/-- answers `tok=canon` / `tok=!` -/
def readIpAnswers (s : String) : Option (List (Bytes × Option Bytes)) :=
  if s == "=" then some [] else
  (s.splitOn ",").mapM fun item =>
    match item.splitOn "=" with
    | [k, v] => do
      let k ← unhex k
      if v == "!" then pure (k, none) else do
        let v ← unhex v
        pure (k, some v)
    | _ => none

def showPats (pl : List Pat) : String :=
  joinWith "," (pl.map fun p => (if p.neg then "!" else "+") ++ showText p.pat)

def showOptInt : Option Int → String
  | some i => toString i
  | none => "n"

def showEntry (e : Entry) : String :=
  joinWith "|" [showPats e.principals, hex e.key, if e.ca then "1" else "0",
    match e.namespaces with
    | .absent => "absent"
    | .flag => "flag"
    | .pats pl => "pats:" ++ showPats pl,
    showOptInt e.validAfter, showOptInt e.validBefore]

/-- answers `k:<utf8hex>=<keyid|!>` and `t:<utf8hex>=<int|!>` -/
structure LineAnswers where
  keys : List (List Nat × Option Bytes) := []
  times : List (List Nat × Option Int) := []

def readLineAnswers (s : String) : Option LineAnswers :=
  if s == "=" then some {} else
  (s.splitOn ",").foldlM (init := ({} : LineAnswers)) fun acc item =>
    match item.splitOn "=" with
    | [k, v] =>
      match k.splitOn ":" with
      | ["k", h] => do
        let b ← unhex h
        let t ← utf8Decode b
        if v == "!" then pure { acc with keys := acc.keys ++ [(t, none)] } else do
          let id ← unhex v
          pure { acc with keys := acc.keys ++ [(t, some id)] }
      | ["t", h] => do
        let b ← unhex h
        let t ← utf8Decode b
        if v == "!" then pure { acc with times := acc.times ++ [(t, none)] } else do
          let i ← v.toInt?
          pure { acc with times := acc.times ++ [(t, some i)] }
      | _ => none
    | _ => none

def LineAnswers.importKey (a : LineAnswers) (s : List Nat) : Option Bytes := (a.keys.lookup s).join
def LineAnswers.parseTime (a : LineAnswers) (s : List Nat) : Option Int := (a.times.lookup s).join

/-- the oracle queries the allowed-signers loader can make on this text -/
def lineQueries (text : List Nat) : List String :=
  (splitLines text).flatMap fun l =>
    let line := strip l
    if line.isEmpty ∨ line.head? = some 35 then []
    else match splitFirst line with
      | none => []
      | some (_, rest) =>
        ("k:" ++ hex (utf8Encode rest)) ::
        (match parseOptions signerOptMode rest with
         | none => []
         | some (opts, rest2) =>
           ("k:" ++ hex (utf8Encode rest2)) ::
           opts.filterMap fun p =>
             match p.2 with
             | .value v => if p.1 = nm "valid-after" ∨ p.1 = nm "valid-before"
                           then some ("t:" ++ hex (utf8Encode v)) else none
             | .flag => none)

def permissiveOracle : CertOracle :=
  { keyOf := fun _ _ => some [], caOk := fun _ => true, verify := fun _ _ _ => true, ipNet := fun a => some a }

/-- source-address tokens a certificate's options can ask `ip_network` about -/
def ipTokens (raw : CertRaw) : List Bytes :=
  let tbl := if raw.ctype = 1 then certTables.userOpts else certTables.hostOpts
  match decodeOptions (fun a => some a) certTables.consume tbl true raw.options with
  | some o => o.flatMap fun p => match p.2 with
    | .addrs a => a
    | _ => []
  | none => []

def natArg (s : String) : Option Nat := s.toNat?

def step (_ : Unit) (ws : List String) : Unit × String :=
  let r : String := match ws with
    | ["vq", ka, sig] =>
      match unhex ka, unhex sig with
      | some ka, some sig =>
        match keyDescs.lookup ka with
        | none => "nokey"
        | some kd =>
          match verifyQuery kd sig with
          | none => "reject"
          | some (scheme, raw) => "ask " ++ hex scheme ++ " " ++ showRaw raw
      | _, _ => "bad-op"
    | ["cq", blob] =>
      match unhex blob with
      | some blob =>
        match parseCertRaw certTables blob with
        | none => "reject"
        | some raw =>
          joinWith " " ["ask", hex raw.keyAlg, hexList raw.keyFields, hex raw.ca,
                        toString raw.region.length, hex raw.signature, hexList (ipTokens raw)]
      | none => "bad-op"
    | ["cf", blob, keydata, caok, sigok, ips] =>
      match unhex blob, readIpAnswers ips with
      | some blob, some ipa =>
        let kd : Option Bytes := if keydata == "!" then none else unhex keydata
        let O : CertOracle :=
          { keyOf := fun _ _ => kd, caOk := fun _ => caok == "1", verify := fun _ _ _ => sigok == "1",
            ipNet := fun a => (ipa.lookup a).join }
        match certConstruct certTables O blob with
        | none => "reject"
        | some c =>
          joinWith " " ["ok", toString c.ctype, toString c.validAfter, toString c.validBefore,
                        hex c.keyData, hex c.ca, showTexts c.principals, showOpts c.options, showText c.keyId,
                        toString c.serial]
      | _, _ => "bad-op"
    | ["val", want, ctype, after, before, princ, num, den, ps] =>
      match natArg want, natArg ctype, natArg after, natArg before, natArg num, natArg den, readTexts ps with
      | some want, some ctype, some after, some before, some num, some den, some ps =>
        let p : Option (Option (List Nat)) := if princ == "none" then some none else (readText princ).map some
        match p with
        | none => "bad-op"
        | some p =>
          match firstFailure (validateSteps want ctype after before ⟨num, den⟩ p ps) with
          | none => "ok"
          | some m => "err:" ++ m.replace " " "_"
      | _, _, _, _, _, _, _ => "bad-op"
    | ["sd", ns, h, d] =>
      match unhex ns, unhex h, unhex d with
      | some ns, some h, some d => hex (signedData sshsigMagic ns h d)
      | _, _, _ => "bad-op"
    | ["senc", pub, ns, h, sig] =>
      match unhex pub, unhex ns, unhex h, unhex sig with
      | some pub, some ns, some h, some sig => hex (encodeSigBlob sshsigMagic sshsigVersion pub ns h sig)
      | _, _, _, _ => "bad-op"
    | ["sq", blob] =>
      match unhex blob with
      | some blob =>
        match parseSigHead sshsigMagic sshsigVersion blob with
        | none => "reject"
        | some (pub, rest) =>
          match parseSigTail rest with
          | none => "head " ++ hex pub
          | some (ns, reserved, hashName, sig) =>
            joinWith " " ["ask", hex pub, hex ns, hex reserved, hex hashName, hex sig]
      | none => "bad-op"
    | ["lq", text] =>
      match (unhex text).bind utf8Decode with
      | some t => joinWith " " ("Q" :: lineQueries t)
      | none => "bad-op"
    | ["ll", text, answers] =>
      match (unhex text).bind utf8Decode, readLineAnswers answers with
      | some t, some a =>
        match importSigners signerOptMode a.importKey a.parseTime t with
        | none => "raises"
        | some es => joinWith " " ("E" :: es.map showEntry)
      | _, _ => "bad-op"
    | ["lv", text, answers, keyid, princ, ns, ca, num, den] =>
      match (unhex text).bind utf8Decode, readLineAnswers answers, unhex keyid, readText princ, readText ns,
            natArg num, natArg den with
      | some t, some a, some keyid, some princ, some ns, some num, some den =>
        match importSigners signerOptMode a.importKey a.parseTime t with
        | none => "loaderr"
        | some es =>
          match signersValidate es keyid princ ns (ca == "1") ⟨num, den⟩ with
          | none => "raises"
          | some true => "1"
          | some false => "0"
      | _, _, _, _, _, _, _ => "bad-op"
    | ["sv", msg, ish, h256, h512, blob, princ, num, den, pubinfo, vok, text, answers] =>
      match unhex msg, unhex h256, unhex h512, unhex blob, readText princ, natArg num, natArg den,
            readLineAnswers answers with
      | some msg, some h256, some h512, some blob, some princ, some num, some den, some a =>
        let signers : Option (Option (List Entry)) :=
          match (unhex text).bind utf8Decode with
          | some t => some (importSigners signerOptMode a.importKey a.parseTime t)
          | none => none
        let info : Option (Dec Cert × Dec Bytes × Dec Bytes) :=
          match pubinfo.splitOn ":" with
          | ["N"] => some (.importError, .importError, .importError)
          | ["X"] => some (.crash, .crash, .crash)
          | ["K", id] => (unhex id).map fun id => (.importError, .ok id, .importError)
          | ["C", kd, ca, ctype, after, before, ps] =>
            match unhex kd, natArg ctype, natArg after, natArg before, readTexts ps with
            | some kd, some ctype, some after, some before, some ps =>
              let caId : Dec Bytes := if ca == "!" then .importError else
                match unhex ca with
                | some x => .ok x
                | none => .importError
              some (.ok { alg := [], keyAlg := [], keyFields := [], serial := 0, ctype := ctype, keyId := [],
                           principals := ps, validAfter := after, validBefore := before, options := [],
                           ca := [67, 65], blob := [], keyData := kd }, .importError, caId)
            | _, _, _, _, _ => none
          | _ => none
        match signers, info with
        | some signers, some (cert, keyId, caId) =>
          let E : SigEnv :=
            { magic := sshsigMagic, version := sshsigVersion, hashes := sshsigHashes,
              hash := fun name _ => if name = strBytes "sha256" then h256 else if name = strBytes "sha512" then h512 else [],
              decodeCert := fun _ => cert,
              decodeKey := fun b => if b = [67, 65] then caId else keyId,
              verify := fun _ _ _ => vok == "1",
              certValid := fun c p now =>
                (firstFailure (validateSteps sshsigCertType c.ctype c.validAfter c.validBefore now (some p)
                  c.principals)).isNone }
          match validateSshsig E msg (ish == "1") blob princ signers ⟨num, den⟩ with
          | .valid => "valid"
          | .invalid => "invalid"
          | .raises => "raises"
        | _, _ => "bad-op"
      | _, _, _, _, _, _, _, _ => "bad-op"
    | ["pm", pats, value] =>
      match readText pats, readText value with
      | some p, some v => if patListMatch (parsePatList p) v then "1" else "0"
      | _, _ => "bad-op"
    | ["u8", b] =>
      match unhex b with
      | some b => match utf8Decode b with
        | some t => showText t
        | none => "bad"
      | none => "bad-op"
    | _ => "bad-op"
  ((), r)

def main : IO Unit := runDriver step ()
