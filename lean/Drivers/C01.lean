import AsyncsshModel.Model.Transport
/- Line-protocol driver for the C01 correspondence (harness/props/C01.py): the receiver machine over the ideal
   authenticated channel whose sealed packets are the honest wire packets recorded from a real session. -/
open AsyncsshModel AsyncsshModel.Transport

/-- stand-in cleartext body for an honest wire packet of `n` bytes with a `mac`-byte tag: padding length 4,
    payload = 2-byte index followed by zeros -/
def standIn (i n mac : Nat) : Bytes :=
  let bodyLen := n - 4 - mac
  let payloadLen := bodyLen - 1 - 4
  let idx : Bytes := [UInt8.ofNat (i / 256), UInt8.ofNat (i % 256)]
  (4 : UInt8) :: ((idx ++ List.replicate payloadLen 0).take payloadLen) ++ [0, 0, 0, 0]

def xorBytes (a b : Bytes) : Bytes := List.zipWith (· ^^^ ·) a b

/-- what the unauthenticated length peek returns.  mode 0: the length field is sent in clear (ETM MACs, GCM);
    mode 1: it is encrypted with a stream cipher (CTR, chacha20), so a bit flipped on the wire flips the same
    bit of the decoded length; mode 2: block-cipher garbling, unpredictable — reported as `none`. -/
def lenOfMode (mode : Nat) (honest : Nat → Option (Bytes × Nat)) (s : Nat) (fb : Bytes) : Option Nat :=
  match mode with
  | 0 => some (beNat (fb.take 4))
  | 1 => match honest s with
    | some (w, bodyLen) => some (beNat (xorBytes (xorBytes (fb.take 4) (w.take 4)) (be32 bodyLen)))
    | none => some (beNat (fb.take 4))
  | _ => match honest s with
    | some (w, bodyLen) => if fb = w.take fb.length then some bodyLen else none
    | none => none

structure Run where
  st : RState
  outs : List Bytes
  unknown : Bool

/-- feed one chunk; stop with `unknown := true` when the length peek is unpredictable -/
partial def runLoop (p : Params) (enc : Nat → Bytes → Bytes) (sent : Nat → Option Bytes)
    (lenOf : Nat → Bytes → Option Nat) (r : Run) : Run :=
  if r.unknown || r.st.buf.isEmpty then r
  else
    match r.st.phase with
    | .hdr =>
      if r.st.buf.length < p.bs then r
      else
        match lenOf r.st.seq (r.st.buf.take p.bs) with
        | none => { r with unknown := true }
        | some _ =>
          let sh := idealShim enc sent (fun s fb => (lenOf s fb).getD 0)
          match stepOnce p sh true r.st with
          | none => r
          | some (st', o) => runLoop p enc sent lenOf { r with st := st', outs := r.outs ++ o.toList }
    | .body _ _ =>
      let sh := idealShim enc sent (fun s fb => (lenOf s fb).getD 0)
      match stepOnce p sh true r.st with
      | none => r
      | some (st', o) => runLoop p enc sent lenOf { r with st := st', outs := r.outs ++ o.toList }

def splitComma (s : String) : List String := if s == "-" then [] else s.splitOn ","

def step (_ : Unit) (ws : List String) : Unit × String :=
  let r := match ws with
    | ["tamper", bs, mac, mode, s0, honest, presented] =>
      match bs.toNat?, mac.toNat?, mode.toNat?, s0.toNat?, (splitComma honest).mapM unhex, (splitComma presented).mapM unhex with
      | some bs, some mac, some mode, some s0, some ws, some chunks =>
        let pds : List Bytes := ws.zipIdx.map fun (w, i) => standIn i w.length mac
        let tbl : List (Bytes × Bytes) := ws.zip pds
        let enc : Nat → Bytes → Bytes := fun s pd =>
          if s0 ≤ s then match tbl[s - s0]? with
            | some (w, pd') => if pd = pd' then w else []
            | none => []
          else []
        let sent := fun s => if s0 ≤ s then pds[s - s0]? else none
        let honestAt := fun s => if s0 ≤ s then (tbl[s - s0]?).map (fun (w, pd) => (w, pd.length)) else none
        let lenOf := lenOfMode mode honestAt
        let p : Params := ⟨bs, mac⟩
        let fin := chunks.foldl (fun (r : Run) c =>
          runLoop p enc sent lenOf { r with st := { r.st with buf := r.st.buf ++ c } })
          { st := RState.init s0, outs := [], unknown := false }
        let state := if fin.unknown then "stall-or-mac"
          else match fin.st.closed with
            | none => "open"
            | some .mac => "closed:mac"
            | some .internal => "closed:internal"
        s!"delivered={fin.outs.length} state={state}"
      | _, _, _, _, _, _ => "bad-op"
    | _ => "bad-op"
  ((), r)

def main : IO Unit := runDriver step ()
