import AsyncsshModel.Model.Gate
import AsyncsshModel.Base.Hex
/- Line-protocol driver for the C06 correspondence (harness/props/C06.py). -/
open AsyncsshModel AsyncsshModel.Gate AsyncsshModel.Gen.C06

def parseBool (s : String) : Bool := s == "1"
def parseNats (s : String) : List Nat := if s == "-" then [] else (s.splitOn ",").filterMap (·.toNat?)

def showEffect : Effect → String
  | .handled .conn => "handled:conn"
  | .handled .kex => "handled:kex"
  | .handled .auth => "handled:auth"
  | .handled (.chan n) => s!"handled:chan{n}"
  | .error => "error"
  | .unimplemented => "unimplemented"
  | .ignored => "ignored"

/-- effect <server> <kexclass|-> <ignoreFirst> <recvEnc> <nextReady> <strict> <recvSeq> <authclass|-> <authComplete>
    <authFinal> <canExt> <channels> <type> <chanField|-> -/
def step (_ : Unit) (ws : List String) : Unit × String :=
  let r := match ws with
    | ["effect", server, kexc, ign, renc, nready, strict, rseq, authc, acomp, afinal, cext, chans, t, cf] =>
      let kh := if kexc == "-" then none else (kexClasses.find? (·.1 == kexc)).map (·.2)
      let ah := if authc == "-" then none else (authClasses.find? (·.1 == authc)).map (·.2.2)
      match rseq.toNat?, t.toNat? with
      | some rseq, some t =>
        if (kexc != "-" && kh.isNone) || (authc != "-" && ah.isNone) then "unknown-class"
        else
          let f : Flags := {
            server := parseBool server, kexActive := kh.isSome, kexHandlers := kh.getD [],
            ignoreFirstKex := parseBool ign, recvEnc := parseBool renc, nextRecvReady := parseBool nready,
            strict := parseBool strict, recvSeq := rseq, authActive := ah.isSome, authHandlers := ah.getD [],
            authComplete := parseBool acomp, authFinal := parseBool afinal, canRecvExtInfo := parseBool cext,
            channels := parseNats chans }
          showEffect (effect f t (if cf == "-" then none else cf.toNat?))
      | _, _ => "bad-op"
    | ["seq", strict, t, s] =>
      match t.toNat?, s.toNat? with
      | some t, some s => toString (seqAfter (parseBool strict) t s)
      | _, _ => "bad-op"
    | _ => "bad-op"
  ((), r)

def main : IO Unit := AsyncsshModel.runDriver step ()
