import AsyncsshModel.Model.Der
import AsyncsshModel.Model.KeyFmtPem
import AsyncsshModel.Model.KeyFmtOpenssh
/- Line-protocol driver for the C15 correspondence (see harness/props/C15.py). -/
open AsyncsshModel AsyncsshModel.Wire AsyncsshModel.Der AsyncsshModel.KeyFmt

/-! rendering of DER values as prefix-notation tokens -/

def insertStr (x : String) : List String → List String
  | [] => [x]
  | y :: ys => if x < y then x :: y :: ys else if x == y then y :: ys else y :: insertStr x ys

partial def render : DerVal → String
  | .null => "N"
  | .bool b => if b then "B1" else "B0"
  | .int v => "I" ++ toString v
  | .octets b => "O" ++ hex b
  | .utf8 b => "U" ++ hex b
  | .ia5 b => "A" ++ hex b
  | .bits u b => "T" ++ toString u ++ ":" ++ hex b
  | .oid comps => "D" ++ String.intercalate "." (comps.map toString)
  | .seq items => "S( " ++ String.join (items.map fun i => render i ++ " ") ++ ")"
  | .set items =>
    -- frozenset: order and multiplicity are not observable
    let rs := (items.map render).foldr insertStr []
    "E( " ++ String.join (rs.map fun i => i ++ " ") ++ ")"
  | .tagged c t v => "X" ++ toString c ++ ":" ++ toString t ++ "( " ++ render v ++ " )"
  | .raw c t b => "R" ++ toString c ++ ":" ++ toString t ++ ":" ++ hex b

def splitColon (s : String) : List String := s.splitOn ":"

/-- parse prefix tokens into a value; returns value and remaining tokens -/
partial def parseVal (toks : List String) : Option (DerVal × List String) :=
  match toks with
  | [] => none
  | t :: rest =>
    match t.toList with
    | ['N'] => some (.null, rest)
    | ['B', '0'] => some (.bool false, rest)
    | ['B', '1'] => some (.bool true, rest)
    | 'I' :: r => (String.ofList r).toInt?.map fun v => (.int v, rest)
    | 'O' :: r => (unhex (String.ofList r)).map fun b => (.octets b, rest)
    | 'U' :: r => (unhex (String.ofList r)).map fun b => (.utf8 b, rest)
    | 'A' :: r => (unhex (String.ofList r)).map fun b => (.ia5 b, rest)
    | 'T' :: r =>
      match splitColon (String.ofList r) with
      | [u, h] => do
        let u ← u.toNat?
        let b ← unhex h
        pure (.bits u b, rest)
      | _ => none
    | ['D'] => some (.oid [], rest)
    | 'D' :: r =>
      let parts := (String.ofList r).splitOn "."
      (parts.mapM String.toNat?).map fun cs => (.oid cs, rest)
    | ['S', '('] => (parseItems rest).map fun (items, rem) => (.seq items, rem)
    | ['E', '('] => (parseItems rest).map fun (items, rem) => (.set items, rem)
    | 'X' :: r =>
      match splitColon (String.ofList r) with
      | [c, t] => do
        let c ← c.toNat?
        let t ← (t.dropEnd 1).toString.toNat?
        let (v, rem) ← parseVal rest
        match rem with
        | ")" :: rem' => pure (.tagged c t v, rem')
        | _ => none
      | _ => none
    | 'R' :: r =>
      match splitColon (String.ofList r) with
      | [c, t, h] => do
        let c ← c.toNat?
        let t ← t.toNat?
        let b ← unhex h
        pure (.raw c t b, rest)
      | _ => none
    | _ => none
where
  parseItems (toks : List String) : Option (List DerVal × List String) :=
    match toks with
    | ")" :: rest => some ([], rest)
    | _ => do
      let (v, rem) ← parseVal toks
      let (vs, rem') ← parseItems rem
      pure (v :: vs, rem')

/-- the public `der_decode` / `der_decode_partial` report every content error as ASN1DecodeError (the wrapper
    added by repair 1ed480b converts what the type constructors raise); the model keeps the finer classes -/
def showErr : DerErr → String
  | .decode => "err decode"
  | .encode => "err decode"
  | .unicode => "err decode"
  | .fuel => "err fuel"

def optHex : Option Bytes → String
  | some b => "ok " ++ hex b
  | none => "overflow"

def showGet {α : Type} (f : α → String) : Option (α × Bytes) → String
  | some (v, r) => "ok " ++ f v ++ " " ++ hex r
  | none => "incomplete"

def optComment : Option Bytes → String
  | none => "none"
  | some c => "c" ++ hex c

def showHeaders (hs : List (Bytes × Bytes)) : String :=
  if hs.isEmpty then "-" else String.intercalate ";" (hs.map fun (k, v) => hex k ++ "=" ++ hex v)

def showFound : Found → String
  | .der v stop => "der " ++ toString stop ++ " " ++ render v
  | .pem name hs payload stop =>
    "pem " ++ toString stop ++ " " ++ hex name ++ " " ++ hex payload ++ " " ++ showHeaders hs
  | .rfc4716 c payload stop => "rfc4716 " ++ toString stop ++ " " ++ optComment c ++ " " ++ hex payload
  | .openssh alg c payload stop =>
    "openssh " ++ toString stop ++ " " ++ hex alg ++ " " ++ optComment c ++ " " ++ hex payload
  | .nothing stop => "nothing " ++ toString stop
  | .missingFooter => "missing-footer"
  | .badBase64 => "bad-base64"
  | .derOther e => "der-other " ++ showErr e
  | .unmodelled => "unmodelled"

def keytypeOf (s : String) : Option (Bytes × Bool) :=
  if s == "priv" then some (strBytes "PRIVATE KEY", false)
  else if s == "pub" then some (strBytes "PUBLIC KEY", true)
  else if s == "cert" then some (strBytes "CERTIFICATE", true)
  else none

def showOsshErr : OpensshErr → String
  | .keyImport => "err keyimport"
  | .passphrase => "err passphrase"
  | .cipher => "err cipher"
  | .overflow => "err overflow"

def step (_ : Unit) (ws : List String) : Unit × String :=
  let r := match ws with
    -- wire primitives
    | ["u32", n] => match n.toNat? with
      | some n => optHex (encUInt32? n)
      | none => "bad-op"
    | ["u64", n] => match n.toNat? with
      | some n => optHex (encUInt64? n)
      | none => "bad-op"
    | ["str", s] => match unhex s with
      | some s => optHex (encString? s)
      | none => "bad-op"
    | ["mpint", v] => match v.toInt? with
      | some v => optHex (encMPInt? v)
      | none => "bad-op"
    | ["tobytes", l, n] => match l.toNat?, n.toNat? with
      | some l, some n => optHex (toBytes? l n)
      | _, _ => "bad-op"
    | ["tobytess", l, v] => match l.toNat?, v.toInt? with
      | some l, some v => optHex (toBytesSigned? v l)
      | _, _ => "bad-op"
    | ["frombytes", b] => match unhex b with
      | some b => toString (beNat b)
      | none => "bad-op"
    | ["frombytess", b] => match unhex b with
      | some b => toString (fromBytesSigned b)
      | none => "bad-op"
    | ["bitlen", v] => match v.toInt? with
      | some v => toString (bitLength v)
      | none => "bad-op"
    | ["getu32", b] => match unhex b with
      | some b => showGet toString (getUInt32 b)
      | none => "bad-op"
    | ["getu64", b] => match unhex b with
      | some b => showGet toString (getUInt64 b)
      | none => "bad-op"
    | ["getbyte", b] => match unhex b with
      | some b => showGet toString (getByte b)
      | none => "bad-op"
    | ["getbool", b] => match unhex b with
      | some b => showGet (fun (x : Bool) => if x then "1" else "0") (getBoolean b)
      | none => "bad-op"
    | ["getstr", b] => match unhex b with
      | some b => showGet hex (getString b)
      | none => "bad-op"
    | ["getmpint", b] => match unhex b with
      | some b => showGet toString (getMPInt b)
      | none => "bad-op"
    | ["getnames", b] => match unhex b with
      | some b => showGet (fun (l : List Bytes) => toString l.length ++ "[" ++ String.intercalate "," (l.map hex) ++ "]")
                    (getNameList b)
      | none => "bad-op"
    -- DER
    | ["derdec", b] => match unhex b with
      | some b => match decode b with
        | .ok v => "ok " ++ render v
        | .error e => showErr e
      | none => "bad-op"
    | ["derpart", b] => match unhex b with
      | some b => match decodePartial (b.length + 1) b with
        | .ok (v, n) => "ok " ++ toString n ++ " " ++ render v
        | .error e => showErr e
      | none => "bad-op"
    | "derenc" :: toks => match parseVal toks with
      | some (v, []) =>
        "ok " ++ hex (enc v) ++ " enc=" ++ (if encodable v then "1" else "0") ++ " wf=" ++ (if wf v then "1" else "0")
      | _ => "bad-op"
    -- base64 and framing
    | ["a2b", b] => match unhex b with
      | some b => match a2b b with
        | some d => "ok " ++ hex d
        | none => "err"
      | none => "bad-op"
    | ["b2a", b] => match unhex b with
      | some b => hex (b2a b)
      | none => "bad-op"
    | ["wrapjoin", w, b] => match w.toNat?, unhex b with
      | some w, some b => optHex (wrapJoin? w b)
      | _, _ => "bad-op"
    | ["wrapb64", w, sp, ty, hd, d] => match w.toNat?, unhex ty, unhex hd, unhex d with
      | some w, some ty, some hd, some d => optHex (wrapBase64 d ty hd (sp == "1") w)
      | _, _, _, _ => "bad-op"
    | ["publine", alg, blob, c] => match unhex alg, unhex blob, unhex c with
      | some alg, some blob, some c => match exportPublicLine? alg blob c with
        | some t => "ok " ++ hex t
        | none => "refused"
      | _, _, _ => "bad-op"
    | ["rfc4716", blob, c] => match unhex blob, unhex c with
      | some blob, some c => match exportRfc4716? blob c with
        | some t => "ok " ++ hex t
        | none => "refused"
      | _, _ => "bad-op"
    | ["match", kt, d] => match keytypeOf kt, unhex d with
      | some (kt, pub), some d => showFound (matchNext kt pub d)
      | _, _ => "bad-op"
    | ["matchall", kt, d] => match keytypeOf kt, unhex d with
      | some (kt, pub), some d =>
        let fs := matchAll kt pub (d.length + 1) d
        toString fs.length ++ " | " ++ String.intercalate " | " (fs.map showFound)
      | _, _ => "bad-op"
    | ["splitws2", d] => match unhex d with
      | some d => let ps := splitWs2 d; toString ps.length ++ "[" ++ String.intercalate "," (ps.map hex) ++ "]"
      | none => "bad-op"
    | ["strip", d] => match unhex d with
      | some d => hex (strip d) ++ " " ++ hex (rstrip d) ++ " " ++ hex (lstrip d)
      | none => "bad-op"
    -- OpenSSH private key container (no cipher)
    | "osshenc" :: check :: bs :: alg :: comment :: pub :: fields =>
      match check.toNat?, bs.toNat?, unhex alg, unhex comment, unhex pub, fields.mapM unhex with
      | some check, some bs, some alg, some comment, some pub, some fields =>
        optHex (encodeOpenssh? { noCipher with blockSize := bs } check
                  { alg := alg, fields := fields, comment := comment, pub := pub })
      | _, _, _, _, _, _ => "bad-op"
    -- does export_private_key('openssh') write this comment, and could OpenSSH load it?
    | ["osshcomment", c] => match unhex c with
      | some c => (if commentRefused c then "refused" else "written") ++
                  (if cstringOk c then " cstring" else " not-cstring")
      | none => "bad-op"
    | ["osshdec", d] => match unhex d with
      | some d => match decodeOpenssh none d with
        | .ok k => "ok " ++ hex k.alg ++ " " ++ hex k.comment ++ " " ++ hex k.pub ++ " " ++
            toString k.fields.length ++ "[" ++ String.intercalate "," (k.fields.map hex) ++ "]"
        | .error e => showOsshErr e
      | none => "bad-op"
    | ["osshpub", d] => match unhex d with
      | some d => match decodeOpensshPublic d with
        | some p => "ok " ++ hex p
        | none => "err"
      | none => "bad-op"
    | _ => "bad-op"
  ((), r)

def main : IO Unit := runDriver step ()
