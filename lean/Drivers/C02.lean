import AsyncsshModel.Model.Transport
/- Line-protocol driver for the C02 correspondence (harness/props/C02.py). -/
open AsyncsshModel AsyncsshModel.Transport

/-- toy digest shared with the harness: `d` bytes, byte i = (sum m + i * len m + 7 * i) mod 256 -/
def toyHash (d : Nat) (m : Bytes) : Bytes :=
  let s := m.foldl (fun a x => a + x.toNat) 0
  (List.range d).map fun i => UInt8.ofNat ((s + i * m.length + 7 * i) % 256)

def showState (st : RState) : String :=
  match st.closed with
  | none => "open"
  | some .mac => "closed:mac"
  | some .internal => "closed:internal"

def step (_ : Unit) (ws : List String) : Unit × String :=
  let r := match ws with
    | ["pad", hdr, l, bs] =>
      match hdr.toNat?, l.toNat?, bs.toNat? with
      | some hdr, some l, some bs => toString (padLen hdr l bs)
      | _, _, _ => "bad-op"
    | ["check", bs, hdr, frame] =>
      match bs.toNat?, hdr.toNat?, unhex frame with
      | some bs, some hdr, some f =>
        match rfcDecode bs hdr f with
        | .ok p => "ok " ++ hex p
        | .error e => "err " ++ e
      | _, _, _ => "bad-op"
    | "recv" :: chunks =>
      match chunks.mapM unhex with
      | some cs =>
        let (st, outs) := feedAll ⟨8, 0⟩ plainShim false (RState.init 0) cs
        String.intercalate "," (outs.map hex) ++ " | " ++ showState st ++ " seq=" ++ toString st.seq
      | none => "bad-op"
    | ["ckey", d, k, h, x, sid, n] =>
      match d.toNat?, unhex k, unhex h, unhex x, unhex sid, n.toNat? with
      | some d, some k, some h, some x, some sid, some n => hex (computeKey (toyHash d) k h x sid n)
      | _, _, _, _, _, _ => "bad-op"
    | _ => "bad-op"
  ((), r)

def main : IO Unit := runDriver step ()
