import AsyncsshModel.Model.HostileWire
import AsyncsshModel.Model.HostileBanner
import AsyncsshModel.Model.HostileDer
import AsyncsshModel.Model.HostileLoop
/- Line-protocol driver for the C10 correspondence (see harness/props/C10.py). -/
open AsyncsshModel AsyncsshModel.Hostile

def parseTy (c : Char) : Option FieldTy :=
  match c with
  | 'b' => some .byte | 'o' => some .bool | 'h' => some .u16 | 'u' => some .u32 | 'q' => some .u64
  | 's' => some .str | 'm' => some .mpint | 'n' => some .names | 'r' => some .rest | 'e' => some .fin
  | _ => none

def showVal : Val → String
  | .nat n => toString n
  | .bool b => if b then "T" else "F"
  | .bytes b => hex b
  | .int v => toString v
  | .names l => "[" ++ String.intercalate "," (l.map hex) ++ "]"
  | .unit => "."

def showDerErr : Der.DerErr → String
  | .decode => "ASN1DecodeError" | .encode => "ASN1EncodeError" | .unicode => "UnicodeDecodeError"
  | .intStr => "ValueError" | .recursion => "RecursionError" | .fuel => "fuel"

def showVErr : VErr → String
  | .bannerLineTooLong => "banner-line-too-long" | .versionTooLong => "version-too-long"
  | .tooManyBannerLines => "too-many-banner-lines" | .unsupportedVersion => "unsupported-version"

def splitOnComma (s : String) : List String := if s == "-" then [] else s.splitOn ","

def step (_ : Unit) (ws : List String) : Unit × String :=
  let r := match ws with
    | ["fields", schema, p] =>
      match (if schema == "-" then some [] else schema.toList.mapM parseTy), unhex p with
      | some ts, some b =>
        match decodeFields ts b with
        | .error .incomplete => "err incomplete steps=" ++ toString (decodeSteps ts b)
        | .error .trailing => "err trailing steps=" ++ toString (decodeSteps ts b)
        | .ok (vs, r) => "ok " ++ String.intercalate " " (vs.map showVal) ++ " unread=" ++ hex r
      | _, _ => "bad-op"
    | ["handler", schema, p] =>
      match (if schema == "-" then some [] else schema.toList.mapM parseTy), unhex p with
      | some ts, some b =>
        (match syncDispatch ts b with
         | .carriesOn => "carries-on"
         | .closeProtocolError => "closes:ProtocolError")
      | _, _ => "bad-op"
    | ["der", sl, lim, p] =>
      match sl.toNat?, lim.toNat?, unhex p with
      | some sl, some lim, some b =>
        let o := Der.decode sl lim b
        (match o.res with
         | .ok n => "ok " ++ toString n
         | .error e => "err " ++ showDerErr e) ++ " depth=" ++ toString o.depth ++ " calls=" ++ toString o.calls
      | _, _, _ => "bad-op"
    | "ver" :: role :: chunks =>
      match chunks.mapM unhex with
      | some cs =>
        let r := feedVersionAll (role == "c") VState.init cs
        let tail := " banners=" ++ toString (bannerCount r.2.1) ++ " steps=" ++ toString r.2.2
        match r.1.phase with
        | .version => "waiting buf=" ++ toString r.1.buf.length ++ tail
        | .accepted v => "accepted " ++ hex v ++ " rest=" ++ toString r.1.buf.length ++ tail
        | .closed e => "closed " ++ showVErr e ++ tail
      | none => "bad-op"
    | ["open", adv, db] =>
      match adv.toNat? with
      | some a =>
        match openPktsize a (db == "1") with
        | .accept p => "accept " ++ toString p
        | .protocolError => "protocol-error"
      | none => "bad-op"
    | ["confirm", adv, db] =>
      match adv.toNat? with
      | some a =>
        match confirmPktsize a (db == "1") with
        | .accept p => "accept " ++ toString p
        | .protocolError => "protocol-error"
      | none => "bad-op"
    | ["flush", w, m, fuel, bufs] =>
      match w.toInt?, m.toInt?, fuel.toNat?, (splitOnComma bufs).mapM unhex with
      | some w, some m, some f, some bs =>
        let r := flushLoop f { bufs := bs, window := w, maxpkt := m }
        (if r.2.2 then "done" else "running") ++ " n=" ++ toString r.2.1.length ++ " sizes=" ++
          String.intercalate "," (r.2.1.map fun d => toString d.length) ++ " window=" ++ toString r.1.window
      | _, _, _, _ => "bad-op"
    | ["data", d, w, b] =>
      match d.toNat?, w.toNat?, b.toNat? with
      | some d, some w, some b =>
        (match processData d w b with | .deliver => "deliver" | .protocolError => "protocol-error")
      | _, _, _ => "bad-op"
    | ["user", n] =>
      match n.toNat? with
      | some n => if Gen.C10.usernameTooLong n then "too-long" else "ok"
      | none => "bad-op"
    | ["safe"] => (if openSafe then "open-guarded" else "open-unguarded") ++ " " ++
        (if sendLoopGuarded then "send-loop-guarded" else "send-loop-unguarded")
    | _ => "bad-op"
  ((), r)

def main : IO Unit := runDriver step ()
