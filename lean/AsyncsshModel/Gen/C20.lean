import AsyncsshModel.Model.Forward
/- GENERATED on every run by harness/props/_c20_translate.py from asyncssh/connection.py and
   asyncssh/socks.py of the checked tree.  Do not edit. -/
namespace AsyncsshModel.Gen.C20
open AsyncsshModel AsyncsshModel.Forward

/-- which checks guard each request kind: key permission, certificate permission, permitopen; the largest
    port number the handler lets through (`if <port> > N: <deny>`), and whether it refuses a path name with a
    NUL inside -/
def checksOf : ReqKind → Checks
  | .directTcpip => { key := true, cert := true, permitopen := true, maxPort := some 65535, pathNul := false }
  | .tcpipForward => { key := true, cert := true, permitopen := false, maxPort := some 65535, pathNul := false }
  | .directStreamlocal => { key := true, cert := true, permitopen := false, maxPort := none, pathNul := true }
  | .streamlocalForward => { key := true, cert := true, permitopen := false, maxPort := none, pathNul := false }

/-- all credential checks of the handler come before the application callback -/
def appAskedAfterChecks : ReqKind → Bool
  | .directTcpip => true
  | .tcpipForward => true
  | .directStreamlocal => true
  | .streamlocalForward => true

/-- the permitopen test also accepts `(dest_host, None)`, the `host:*` form -/
def permitopenWildcardPort : Bool := true

/-- `check_key_permission`: `not self._key_options.get(<prefix> + permission, <default>)` -/
def keyOptionPrefix : String := "no-"
def keyOptionDefault : Bool := false
def keyOptionRevokes : Bool := true
/-- `check_certificate_permission`: `self._cert_options.get(<prefix> + permission, <default>)`, `True` without a certificate -/
def certOptionPrefix : String := "permit-"
def certOptionDefault : Bool := false
def certAbsentPermits : Bool := true
/-- the guard of `check_certificate_permission` is the presence test `self._cert_options is not None`
    (false: a truth-value test, under which a certificate without any option counts as no certificate) -/
def certGuardIsPresenceTest : Bool := true
/-- the lookup rules as one record, the parameter of the decision model -/
def lookup : Lookup :=
  { keyRevokes := keyOptionRevokes, keyDefault := keyOptionDefault, certPresence := certGuardIsPresenceTest,
    certDefault := certOptionDefault, certAbsent := certAbsentPermits }

/-! constants of asyncssh/socks.py and asyncssh/constants.py -/
def SOCKS4 : Nat := 4
def SOCKS5 : Nat := 5
def SOCKS_CONNECT : Nat := 1
def SOCKS4_OK : Nat := 90
def SOCKS5_OK : Nat := 0
def SOCKS5_AUTH_NONE : Nat := 0
def SOCKS5_ADDR_IPV4 : Nat := 1
def SOCKS5_ADDR_HOSTNAME : Nat := 3
def SOCKS5_ADDR_IPV6 : Nat := 4
def SOCKS4_OK_RESPONSE : Bytes := [0, 90, 0, 0, 0, 0, 0, 0]
def SOCKS5_OK_RESPONSE_HDR : Bytes := [5, 0, 0]
def socks5AddrLen : List (Nat × Nat) := [(1, 4), (4, 16)]
def OPEN_ADMINISTRATIVELY_PROHIBITED : Nat := 1
def OPEN_CONNECT_FAILED : Nat := 2

end AsyncsshModel.Gen.C20
