import AsyncsshModel.Base.Hex
/-
  Byte-exact model of the `posixpath` routines asyncssh uses for path confinement
  (CPython 3.12 `posixpath.join`, `posixpath.normpath`, `bytes.lstrip(b'/')`).
  Validated against the real functions by the C13 correspondence on every run.
-/
namespace AsyncsshModel.Path

open AsyncsshModel

def slash : UInt8 := 47
def dot : Bytes := [46]
def dotdot : Bytes := [46, 46]

/-- `bytes.split(b'/')` -/
def splitSlash : Bytes → List Bytes
  | [] => [[]]
  | c :: cs =>
    if c = slash then [] :: splitSlash cs
    else match splitSlash cs with
      | [] => [[c]]
      | h :: t => (c :: h) :: t

/-- `b'/'.join(comps)` -/
def joinSlash : List Bytes → Bytes
  | [] => []
  | [c] => c
  | c :: cs => c ++ slash :: joinSlash cs

/-- `posixpath.join(a, b)` for two arguments. -/
def join (a b : Bytes) : Bytes :=
  if b.head? = some slash ∨ a = [] then b
  else if a.getLast? = some slash then a ++ b
  else a ++ slash :: b

/-- One iteration of the component loop of `posixpath.normpath`; `stack` is `new_comps` reversed,
    `abs` says whether the path has initial slashes. -/
def normStep (abs : Bool) (stack : List Bytes) (comp : Bytes) : List Bytes :=
  if comp = [] ∨ comp = dot then stack
  else if comp ≠ dotdot ∨ (abs = false ∧ stack = []) ∨ stack.head? = some dotdot then comp :: stack
  else stack.tail

/-- number of initial slashes kept by `normpath`: POSIX keeps exactly two, collapses three or more. -/
def initialSlashes (p : Bytes) : Nat :=
  match p with
  | a :: b :: c :: _ => if a = slash then (if b = slash ∧ c ≠ slash then 2 else 1) else 0
  | [a, b] => if a = slash then (if b = slash then 2 else 1) else 0
  | [a] => if a = slash then 1 else 0
  | [] => 0

def normComps (p : Bytes) : List Bytes :=
  ((splitSlash p).foldl (normStep (initialSlashes p != 0)) []).reverse

/-- `posixpath.normpath(p)` -/
def normpath (p : Bytes) : Bytes :=
  if p = [] then dot
  else
    let r := List.replicate (initialSlashes p) slash ++ joinSlash (normComps p)
    if r = [] then dot else r

/-- `bytes.lstrip(b'/')` -/
def lstripSlash : Bytes → Bytes
  | [] => []
  | c :: cs => if c = slash then lstripSlash cs else c :: cs

/-- `posixpath.isabs` -/
def isabs (p : Bytes) : Bool := p.head? = some slash

/-- `posixpath.dirname` -/
def dirname (p : Bytes) : Bytes :=
  -- i = p.rfind('/') + 1; head = p[:i]; if head and head != '/'*len(head): head = head.rstrip('/')
  let comps := splitSlash p
  let headComps := comps.dropLast
  if headComps = [] then []
  else
    let head := joinSlash headComps ++ [slash]
    if head.all (· = slash) then head
    else (head.reverse.dropWhile (· = slash)).reverse

end AsyncsshModel.Path
