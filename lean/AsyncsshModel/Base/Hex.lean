/-
  Hex encoding of byte strings for the line protocol between the Python
  correspondence harness and the Lean drivers.  `Bytes` is `List UInt8`.
-/
namespace AsyncsshModel

abbrev Bytes := List UInt8

def hexDigit (c : Char) : Option Nat :=
  if '0' ≤ c ∧ c ≤ '9' then some (c.toNat - '0'.toNat)
  else if 'a' ≤ c ∧ c ≤ 'f' then some (c.toNat - 'a'.toNat + 10)
  else none

def unhexAux : List Char → Option Bytes
  | [] => some []
  | [_] => none
  | a :: b :: rest => do
    let x ← hexDigit a
    let y ← hexDigit b
    let r ← unhexAux rest
    pure (UInt8.ofNat (x * 16 + y) :: r)

/-- Decode a hex string; `-` denotes the empty byte string. -/
def unhex (s : String) : Option Bytes :=
  if s == "-" then some [] else unhexAux s.toList

def hexNib (n : Nat) : Char :=
  if n < 10 then Char.ofNat (48 + n) else Char.ofNat (87 + n)

/-- Encode as lowercase hex; the empty byte string is `-`. -/
def hex (b : Bytes) : String :=
  if b.isEmpty then "-"
  else String.ofList (b.flatMap fun x => [hexNib (x.toNat / 16), hexNib (x.toNat % 16)])

def strBytes (s : String) : Bytes := s.toUTF8.toList

/-- Generic line-protocol loop: one operation per input line, one result line out. -/
partial def driverLoop {σ : Type} (step : σ → List String → σ × String)
    (h : IO.FS.Stream) (out : IO.FS.Stream) (s : σ) : IO Unit := do
  let line ← h.getLine
  if line.isEmpty then
    out.flush
    return ()
  let ws := (line.trimAscii.toString.splitOn " ").filter (· ≠ "")
  let (s', r) := step s ws
  out.putStrLn r
  driverLoop step h out s'

def runDriver {σ : Type} (step : σ → List String → σ × String) (init : σ) : IO Unit := do
  driverLoop step (← IO.getStdin) (← IO.getStdout) init

end AsyncsshModel
