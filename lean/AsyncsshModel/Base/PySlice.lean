import AsyncsshModel.Base.Hex
/-
  Python slicing on `bytes` with possibly negative indices (`b[:i]`, `b[i:]`, `b[i:j]`),
  and big-endian integers.  Used wherever the code slices with a computed (possibly negative) bound.
-/
namespace AsyncsshModel

/-- normalise a slice index against a length, as CPython does -/
def pyIdx (len : Nat) (i : Int) : Nat :=
  if i < 0 then (len + i).toNat else min i.toNat len

/-- `l[:i]` -/
def pyTake (l : Bytes) (i : Int) : Bytes := l.take (pyIdx l.length i)
/-- `l[i:]` -/
def pyDrop (l : Bytes) (i : Int) : Bytes := l.drop (pyIdx l.length i)
/-- `l[i:j]` -/
def pySlice (l : Bytes) (i j : Int) : Bytes :=
  (l.take (pyIdx l.length j)).drop (pyIdx l.length i)

/-- `int.from_bytes(b, 'big')` -/
def beNat (b : Bytes) : Nat := b.foldl (fun acc x => acc * 256 + x.toNat) 0

/-- `n.to_bytes(4, 'big')` for `n < 2^32` (the model never calls it out of range) -/
def be32 (n : Nat) : Bytes :=
  [UInt8.ofNat (n / 16777216 % 256), UInt8.ofNat (n / 65536 % 256), UInt8.ofNat (n / 256 % 256), UInt8.ofNat (n % 256)]

end AsyncsshModel
