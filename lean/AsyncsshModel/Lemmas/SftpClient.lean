import AsyncsshModel.Lemmas.SftpProto
/-
  Helper lemmas for the SFTP client's request table (`SFTPClientHandler`): replies for distinct outstanding
  ids are dispatched independently of their order, requests get consecutive ids, and the bookkeeping invariant
  "answered + still waiting = requested" holds along every event sequence.
-/
namespace AsyncsshModel.Sftp
open AsyncsshModel.Gen.C14

theorem clientRun_append (s : CState) (a b : List CEvent) :
    clientRun s (a ++ b) =
      ((clientRun (clientRun s a).1 b).1, (clientRun s a).2 ++ (clientRun (clientRun s a).1 b).2) := by
  induction a generalizing s with
  | nil => simp [clientRun]
  | cons e es ih =>
    simp only [List.cons_append, clientRun]
    rw [ih]
    simp [List.append_assoc]

theorem lookup_filter_ne (l : List (Nat × Nat)) (a b : Nat) (h : b ≠ a) :
    (l.filter (fun p => p.1 != a)).lookup b = l.lookup b := by
  induction l with
  | nil => rfl
  | cons p l ih =>
    obtain ⟨x, y⟩ := p
    by_cases hx : x = a
    · subst hx
      have : (b == x) = false := by simp [h]
      simp [List.filter, List.lookup, this, ih]
    · have hx' : (x != a) = true := by simp [hx]
      simp only [List.filter, hx', List.lookup]
      by_cases hb : b == x
      · simp [hb]
      · simp [hb, ih]

/-- the packet a reply is carried in -/
def replyPkt (t id : Nat) (payload : Bytes) : Bytes := putU8 t ++ putU32 id ++ payload

structure ReplyOk (r : Nat × Nat × Bytes) : Prop where
  type : r.1 < 256
  id : r.2.1 < 2^32

theorem step_reply_known (s : CState) (t id c : Nat) (payload : Bytes) (ho : s.isOpen = true)
    (ht : t < 256) (hid : id < 2^32) (hl : s.table.lookup id = some c) :
    clientStep s (.packet (replyPkt t id payload)) =
      ({ s with table := s.table.filter fun p => p.1 != id }, [.deliver c t payload]) := by
  have hh := header?_frame t id payload ht hid
  simp only [clientStep, ho, replyPkt, hh, hl]
  simp

theorem step_reply_unknown (s : CState) (t id : Nat) (payload : Bytes) (ho : s.isOpen = true)
    (ht : t < 256) (hid : id < 2^32) (hl : s.table.lookup id = none) :
    clientStep s (.packet (replyPkt t id payload)) = cleanup s .badMessage := by
  have hh := header?_frame t id payload ht hid
  simp only [clientStep, ho, replyPkt, hh, hl]
  simp

/-- replies for distinct outstanding ids, in any order: each is handed to the waiter registered under its id,
    nothing else happens, and exactly those ids leave the table -/
theorem run_replies (rs : List (Nat × Nat × Bytes)) (s : CState) (ho : s.isOpen = true)
    (hok : ∀ r ∈ rs, ReplyOk r) (hnd : (rs.map (·.2.1)).Nodup)
    (hin : ∀ r ∈ rs, (s.table.lookup r.2.1).isSome = true) :
    clientRun s (rs.map fun r => .packet (replyPkt r.1 r.2.1 r.2.2)) =
      ({ s with table := s.table.filter fun p => !(rs.map (·.2.1)).contains p.1 },
       rs.map fun r => .deliver ((s.table.lookup r.2.1).getD 0) r.1 r.2.2) := by
  induction rs generalizing s with
  | nil =>
    cases s
    simp only [List.map_nil, clientRun, List.contains_nil, Bool.not_false, Prod.mk.injEq, and_true,
      CState.mk.injEq, true_and]
    exact (List.filter_eq_self.mpr (fun _ _ => rfl)).symm
  | cons r rs ih =>
    obtain ⟨t, id, payload⟩ := r
    have hr := hok (t, id, payload) (by simp)
    have hi := hin (t, id, payload) (by simp)
    simp only at hi
    obtain ⟨c, hc⟩ := Option.isSome_iff_exists.mp hi
    simp only [List.map_cons, clientRun]
    rw [step_reply_known s t id c payload ho hr.type hr.id hc]
    simp only [List.map_cons, List.nodup_cons] at hnd
    have hne : ∀ r ∈ rs, r.2.1 ≠ id := by
      intro r hr' he
      apply hnd.1
      rw [← he]
      exact List.mem_map_of_mem (f := fun (r : Nat × Nat × Bytes) => r.2.1) hr'
    let s' : CState := { s with table := s.table.filter fun p => p.1 != id }
    have ih' := ih s' ho (fun r h => hok r (by simp [h])) hnd.2
      (fun r h => by
        show ((s.table.filter fun p => p.1 != id).lookup r.2.1).isSome = true
        rw [lookup_filter_ne _ _ _ (hne r h)]
        exact hin r (by simp [h]))
    rw [ih']
    simp only [s', hc, Option.getD_some]
    refine Prod.ext ?_ ?_
    · simp only [List.filter_filter]
      congr 1
      congr 1
      funext p
      simp only [List.contains_cons, Bool.not_or, Bool.and_comm]
      cases hpe : (p.1 == id) <;> simp [bne, hpe]
    · show [COut.deliver c t payload] ++ _ = COut.deliver c t payload :: _
      simp only [List.singleton_append, List.cons.injEq, true_and]
      rw [List.map_inj_left]
      intro r hr'
      show COut.deliver (((s.table.filter fun p => p.1 != id).lookup r.2.1).getD 0) r.1 r.2.2 = _
      rw [lookup_filter_ne _ _ _ (hne r hr')]

/-- callers paired with consecutive request ids -/
def numbered : Nat → List Nat → List (Nat × Nat)
  | _, [] => []
  | n, c :: cs => (n, c) :: numbered (n + 1) cs

theorem numbered_keys_ge (n : Nat) (cs : List Nat) : ∀ p ∈ numbered n cs, n ≤ p.1 ∧ p.1 < n + cs.length := by
  induction cs generalizing n with
  | nil => simp [numbered]
  | cons c cs ih =>
    intro p hp
    simp only [numbered, List.mem_cons] at hp
    rcases hp with rfl | hp
    · simp
    · have := ih (n + 1) p hp
      simp only [List.length_cons]
      omega

theorem lookup_numbered (n : Nat) (cs : List Nat) (i : Nat) (hi : i < cs.length) :
    (numbered n cs).lookup (n + i) = cs[i]? := by
  induction cs generalizing n i with
  | nil => simp at hi
  | cons c cs ih =>
    cases i with
    | zero => simp [numbered]
    | succ i =>
      have hne : (n + (i + 1) == n) = false := by simp
      simp only [numbered, List.lookup, hne, List.getElem?_cons_succ]
      have := ih (n + 1) i (by simpa using hi)
      rw [← this]
      congr 1
      omega

theorem filter_ne_of_lt (l : List (Nat × Nat)) (id : Nat) (h : ∀ p ∈ l, p.1 < id) :
    l.filter (fun p => p.1 != id) = l := by
  rw [List.filter_eq_self]
  intro p hp
  have := h p hp
  simp
  omega

/-- issuing requests: consecutive ids starting at `nextId`, each registered for its caller -/
theorem run_requests (cs : List Nat) (s : CState) (ho : s.isOpen = true)
    (hk : ∀ p ∈ s.table, p.1 < s.nextId) (hb : s.nextId + cs.length < 2^32) :
    clientRun s (cs.map .request) =
      ({ s with nextId := s.nextId + cs.length, table := s.table ++ numbered s.nextId cs },
       (numbered s.nextId cs).map fun p => .sent p.2 p.1) := by
  induction cs generalizing s with
  | nil => cases s; simp [clientRun, numbered]
  | cons c cs ih =>
    obtain ⟨n, tbl, op⟩ := s
    simp only at ho hk hb
    subst ho
    simp only [List.length_cons] at hb
    have hmod : (n + 1) % 2^32 = n + 1 := Nat.mod_eq_of_lt (by omega)
    simp only [List.map_cons, clientRun, clientStep, if_true, hmod, tableInsert,
      filter_ne_of_lt tbl n hk]
    have ih' := ih { nextId := n + 1, table := tbl ++ [(n, c)], isOpen := true } rfl
      (by
        intro p hp
        simp only [List.mem_append, List.mem_singleton] at hp
        rcases hp with hp | rfl
        · have := hk p hp; show p.1 < n + 1; omega
        · show n < n + 1; omega)
      (by show n + 1 + cs.length < 2^32; omega)
    rw [ih']
    simp only [numbered, List.map_cons, List.length_cons]
    refine Prod.ext ?_ ?_
    · simp only [CState.mk.injEq, List.append_assoc, List.singleton_append, and_true]
      omega
    · simp

/-- answers (a delivered reply or an exception) addressed to caller `c` -/
def answersFor (c : Nat) (outs : List COut) : Nat :=
  outs.countP fun o => match o with
    | .deliver c' _ _ => c' == c
    | .fail c' _ => c' == c
    | _ => false

/-- requests of caller `c` still waiting in the table -/
def pendingFor (c : Nat) (s : CState) : Nat := s.table.countP fun p => p.2 == c

def requestsBy (c : Nat) (evs : List CEvent) : Nat :=
  evs.countP fun e => match e with
    | .request c' => c' == c
    | _ => false

def nRequests (evs : List CEvent) : Nat :=
  evs.countP fun e => match e with
    | .request _ => true
    | _ => false

/-- table invariant: ids are unique and below the next id to be allocated; a closed handler has no waiters -/
structure CInv (s : CState) : Prop where
  lt : ∀ p ∈ s.table, p.1 < s.nextId
  nodup : (s.table.map (·.1)).Nodup
  closed : s.isOpen = false → s.table = []

theorem answersFor_append (c : Nat) (a b : List COut) :
    answersFor c (a ++ b) = answersFor c a + answersFor c b := by
  simp [answersFor, List.countP_append]

theorem answersFor_cleanup (c : Nat) (tbl : List (Nat × Nat)) (e : CExc) :
    answersFor c (tbl.map (fun p => COut.fail p.2 e) ++ [COut.closed]) = tbl.countP (fun p => p.2 == c) := by
  simp only [answersFor, List.countP_append, List.countP_map]
  simp [List.countP_nil]
  congr

theorem count_filter_lookup (l : List (Nat × Nat)) (id c' c : Nat) (hnd : (l.map (·.1)).Nodup)
    (hl : l.lookup id = some c') :
    (l.filter fun p => p.1 != id).countP (fun p => p.2 == c) + (if c' == c then 1 else 0) =
      l.countP (fun p => p.2 == c) := by
  induction l with
  | nil => simp at hl
  | cons p l ih =>
    obtain ⟨x, y⟩ := p
    simp only [List.map_cons, List.nodup_cons] at hnd
    by_cases hx : id = x
    · subst hx
      simp only [List.lookup, beq_self_eq_true] at hl
      simp at hl; subst hl
      have hnot : ∀ q ∈ l, q.1 ≠ id := by
        intro q hq he
        apply hnd.1
        rw [← he]
        exact List.mem_map_of_mem (f := fun (q : Nat × Nat) => q.1) hq
      have hf : l.filter (fun p => p.1 != id) = l := by
        rw [List.filter_eq_self]; intro q hq; simp [hnot q hq]
      simp [List.filter, hf, List.countP_cons]
    · have hne : (id == x) = false := by simp [hx]
      simp only [List.lookup, hne] at hl
      have hx' : (x != id) = true := by simp; omega
      simp only [List.filter, hx', List.countP_cons]
      have := ih hnd.2 hl
      omega

theorem lookup_lt (l : List (Nat × Nat)) (id c n : Nat) (h : ∀ p ∈ l, p.1 < n) (hl : l.lookup id = some c) :
    id < n := by
  have := lookup_mem l id c hl
  exact h _ this

theorem step_inv (s : CState) (e : CEvent) (c : Nat) (hi : CInv s)
    (hb : s.nextId + nRequests [e] < 2^32) :
    CInv (clientStep s e).1 ∧
    answersFor c (clientStep s e).2 + pendingFor c (clientStep s e).1 = pendingFor c s + requestsBy c [e] := by
  obtain ⟨n, tbl, op⟩ := s
  cases e with
  | request c' =>
    have hn : n + 1 < 2^32 := by simpa [nRequests] using hb
    have hmod : (n + 1) % 2^32 = n + 1 := Nat.mod_eq_of_lt (by omega)
    cases op with
    | true =>
      have hf : tbl.filter (fun p => p.1 != n) = tbl := by
        rw [List.filter_eq_self]; intro q hq; have := hi.lt q hq; simp at this ⊢; omega
      simp only [clientStep, if_true, hmod, tableInsert, hf]
      refine ⟨⟨?_, ?_, ?_⟩, ?_⟩
      · intro p hp
        simp only [List.mem_append, List.mem_singleton] at hp
        rcases hp with hp | rfl
        · have := hi.lt p hp; simp at this ⊢; omega
        · simp
      · simp only [List.map_append, List.map_cons, List.map_nil]
        rw [List.nodup_append]
        refine ⟨hi.nodup, by simp, ?_⟩
        intro a ha b hb'
        simp at hb'; subst hb'
        obtain ⟨q, hq, rfl⟩ := List.mem_map.mp ha
        have := hi.lt q hq; simp at this; omega
      · intro h; simp at h
      · simp [answersFor, pendingFor, requestsBy, List.countP_append, List.countP_cons]
    | false =>
      have ht : tbl = [] := hi.closed rfl
      subst ht
      simp only [clientStep, hmod]
      refine ⟨⟨by simp, by simp, fun _ => rfl⟩, ?_⟩
      simp [answersFor, pendingFor, requestsBy, List.countP_cons]
  | packet pkt =>
    cases op with
    | false =>
      simp only [clientStep]
      refine ⟨by simpa using hi, ?_⟩
      simp [answersFor, pendingFor, requestsBy]
    | true =>
      simp only [clientStep, not_true_eq_false, ↓reduceIte]
      cases hh : header? pkt with
      | none =>
        simp only [cleanup]
        refine ⟨⟨by simp, by simp, fun _ => rfl⟩, ?_⟩
        rw [answersFor_cleanup]
        simp [pendingFor, requestsBy]
      | some r =>
        obtain ⟨t, id, payload⟩ := r
        simp only
        cases hl : tbl.lookup id with
        | none =>
          simp only [cleanup]
          refine ⟨⟨by simp, by simp, fun _ => rfl⟩, ?_⟩
          rw [answersFor_cleanup]
          simp [pendingFor, requestsBy]
        | some c' =>
          simp only
          refine ⟨⟨?_, ?_, ?_⟩, ?_⟩
          · intro p hp
            exact hi.lt p (List.mem_filter.mp hp).1
          · exact List.Nodup.sublist (List.Sublist.map _ (List.filter_sublist)) hi.nodup
          · intro h; simp at h
          · have := count_filter_lookup tbl id c' c hi.nodup hl
            have h1 : answersFor c [COut.deliver c' t payload] = (if c' == c then 1 else 0) := by
              simp [answersFor, List.countP_cons]
            have h2 : requestsBy c [CEvent.packet pkt] = 0 := by simp [requestsBy]
            rw [h1, h2]
            simp only [pendingFor]
            omega
  | eof =>
    cases op with
    | false =>
      simp only [clientStep]
      refine ⟨by simpa using hi, ?_⟩
      simp [answersFor, pendingFor, requestsBy]
    | true =>
      simp only [clientStep, if_true, cleanup]
      refine ⟨⟨by simp, by simp, fun _ => rfl⟩, ?_⟩
      rw [answersFor_cleanup]
      simp [pendingFor, requestsBy]


theorem step_nextId (s : CState) (e : CEvent) (hb : s.nextId + nRequests [e] < 2^32) :
    (clientStep s e).1.nextId = s.nextId + nRequests [e] := by
  obtain ⟨n, tbl, op⟩ := s
  cases e with
  | request c' =>
    have hn : n + 1 < 2^32 := by simpa [nRequests] using hb
    have hmod : (n + 1) % 2^32 = n + 1 := Nat.mod_eq_of_lt (by omega)
    cases op <;> simp [clientStep, hmod, nRequests]
  | packet pkt =>
    cases op
    · simp [clientStep, nRequests]
    · simp only [clientStep, not_true_eq_false, ↓reduceIte]
      cases header? pkt with
      | none => simp [cleanup, nRequests]
      | some r =>
        obtain ⟨t, id, payload⟩ := r
        simp only
        cases tbl.lookup id <;> simp [cleanup, nRequests]
  | eof => cases op <;> simp [clientStep, cleanup, nRequests]

theorem nRequests_cons (e : CEvent) (es : List CEvent) : nRequests (e :: es) = nRequests [e] + nRequests es := by
  simp [nRequests, List.countP_cons]; omega

theorem requestsBy_cons (c : Nat) (e : CEvent) (es : List CEvent) :
    requestsBy c (e :: es) = requestsBy c [e] + requestsBy c es := by
  simp [requestsBy, List.countP_cons]; omega

/-- **bookkeeping invariant of the client**, for every event sequence: every request of a caller is either
    still waiting in the table or has been answered (a delivered reply or an exception) — exactly once -/
theorem run_inv (evs : List CEvent) (s : CState) (c : Nat) (hi : CInv s)
    (hb : s.nextId + nRequests evs < 2^32) :
    CInv (clientRun s evs).1 ∧
    answersFor c (clientRun s evs).2 + pendingFor c (clientRun s evs).1 = pendingFor c s + requestsBy c evs := by
  induction evs generalizing s with
  | nil => simp [clientRun, hi, answersFor, requestsBy]
  | cons e es ih =>
    rw [nRequests_cons] at hb
    have hb1 : s.nextId + nRequests [e] < 2^32 := by omega
    obtain ⟨hi1, hc1⟩ := step_inv s e c hi hb1
    have hn := step_nextId s e hb1
    obtain ⟨hi2, hc2⟩ := ih (clientStep s e).1 hi1 (by rw [hn]; omega)
    simp only [clientRun]
    refine ⟨hi2, ?_⟩
    rw [answersFor_append, requestsBy_cons]
    omega

theorem cinv_init : CInv {} := ⟨by simp, by simp, fun _ => rfl⟩

end AsyncsshModel.Sftp
