import AsyncsshModel.Model.Cert
import AsyncsshModel.Lemmas.CertWire
/-
  Helper lemmas for Model/Cert.lean: the option loop over bytes equals a walk over the list of
  strings the field splits into; walks as coded vs the PROTOCOL.certkeys reading; layout of a
  certificate blob.
-/
namespace AsyncsshModel.Cert
open AsyncsshModel AsyncsshModel.CertWire

/-! ### one-step facts about `splitStringsAux`, independent of the fuel -/

theorem split_nil (f : Nat) : splitStringsAux f [] = some [] := by
  cases f <;> simp [splitStringsAux]

theorem split_step {f : Nat} {b s r : Bytes} (hf : b.length ≤ f) (hs : getString b = some (s, r)) :
    splitStringsAux f b = (splitStringsAux f r).map (s :: ·) := by
  have hl := getString_length hs
  cases b with
  | nil => simp at hl
  | cons x xs =>
    cases f with
    | zero => simp at hf
    | succ f =>
      simp only [splitStringsAux, hs]
      rw [splitStringsAux_fuel f (f + 1) r (by simp at hf hl; omega) (by simp at hf hl; omega)]
      cases splitStringsAux (f + 1) r <;> simp

theorem split_step_none {f : Nat} {b : Bytes} (hne : b ≠ []) (hs : getString b = none) :
    splitStringsAux f b = none := by
  cases b with
  | nil => exact absurd rfl hne
  | cons x xs =>
    cases f with
    | zero => simp [splitStringsAux]
    | succ f => simp [splitStringsAux, hs]

/-! ### the byte loop is the list walk -/

theorem decodeLoop_eq_walk (ip : Bytes → Option Bytes) (c : Bool) (tbl : OptTable) (crit : Bool)
    (f : Nat) (b : Bytes) (hf : b.length ≤ f) :
    decodeLoop ip c tbl crit f b = (splitStringsAux f b).bind (codeWalk ip c tbl crit) := by
  induction f generalizing b with
  | zero =>
    have : b = [] := List.eq_nil_of_length_eq_zero (by omega)
    subst this
    simp [decodeLoop, splitStringsAux, codeWalk]
  | succ f ih =>
    cases b with
    | nil => simp [decodeLoop, splitStringsAux, codeWalk]
    | cons x xs =>
      simp only [decodeLoop]
      cases hs : getString (x :: xs) with
      | none =>
        rw [split_step_none (by simp) hs]; simp
      | some p =>
        obtain ⟨name, r⟩ := p
        have hl := getString_length hs
        have hr : r.length ≤ f := by simp at hf hl; omega
        rw [split_step hf hs, splitStringsAux_fuel (f + 1) f r (by omega) hr]
        simp only
        cases hk : tbl.lookup name with
        | some kind =>
          simp only
          cases hs2 : getString r with
          | none =>
            by_cases hrn : r = []
            · subst hrn; simp [split_nil, codeWalk, hk]
            · rw [split_step_none hrn hs2]; simp
          | some q =>
            obtain ⟨d, r'⟩ := q
            have hl2 := getString_length hs2
            have hr' : r'.length ≤ f := by omega
            rw [split_step hr hs2]
            simp only
            rw [ih r' hr']
            cases hsp : splitStringsAux f r' with
            | none => cases decodeOptVal ip kind d <;> simp
            | some rest => cases hd : decodeOptVal ip kind d <;> simp [codeWalk, hk, hd]
        | none =>
          simp only
          cases crit with
          | true =>
            simp only [if_true]
            cases splitStringsAux f r with
            | none => simp
            | some rest => cases rest <;> simp [codeWalk, hk]
          | false =>
            cases c with
            | false =>
              simp only [Bool.false_eq_true, if_false]
              rw [ih r hr]
              cases splitStringsAux f r with
              | none => simp
              | some rest => cases rest <;> simp [codeWalk, hk]
            | true =>
              simp only [Bool.false_eq_true, if_false, if_true]
              cases hs2 : getString r with
              | none =>
                by_cases hrn : r = []
                · subst hrn; simp [split_nil, codeWalk, hk]
                · rw [split_step_none hrn hs2]; simp
              | some q =>
                obtain ⟨d, r'⟩ := q
                have hl2 := getString_length hs2
                have hr' : r'.length ≤ f := by omega
                rw [split_step hr hs2]
                simp only
                rw [ih r' hr']
                cases splitStringsAux f r' <;> simp [codeWalk, hk]

theorem decodeOptions_eq_walk (ip : Bytes → Option Bytes) (c : Bool) (tbl : OptTable) (crit : Bool) (b : Bytes) :
    decodeOptions ip c tbl crit b = (splitStrings b).bind (codeWalk ip c tbl crit) :=
  decodeLoop_eq_walk ip c tbl crit b.length b (Nat.le_refl _)

/-! ### two-step induction on lists -/

theorem two_step_ind {α : Type} {P : List α → Prop} (h0 : P []) (h1 : ∀ a, P [a])
    (h2 : ∀ a b l, P l → P (a :: b :: l)) : ∀ l, P l := by
  have h : ∀ l, P l ∧ ∀ a, P (a :: l) := by
    intro l
    induction l with
    | nil => exact ⟨h0, h1⟩
    | cons b l ih => exact ⟨ih.2 b, fun a => h2 a b l ih.1⟩
  exact fun l => (h l).1

/-! ### walks: as coded vs PROTOCOL.certkeys -/

/-- critical fields: the code never takes the non-consuming branch, so it reads the field exactly as
    the specification does (whatever `consume` is) -/
theorem codeWalk_critical (ip : Bytes → Option Bytes) (c : Bool) (tbl : OptTable) (ss : List Bytes) :
    codeWalk ip c tbl true ss = specWalk ip tbl true ss := by
  induction ss using two_step_ind with
  | h0 => simp [codeWalk, specWalk]
  | h1 a => cases h : tbl.lookup a <;> simp [codeWalk, specWalk, h]
  | h2 a b l ih =>
    cases h : tbl.lookup a with
    | none => simp [codeWalk, specWalk, h]
    | some k => simp [codeWalk, specWalk, h, ih]

/-- a decoder that consumes the value of unknown entries reads every field as the specification does -/
theorem codeWalk_consume (ip : Bytes → Option Bytes) (tbl : OptTable) (crit : Bool) (ss : List Bytes) :
    codeWalk ip true tbl crit ss = specWalk ip tbl crit ss := by
  induction ss using two_step_ind with
  | h0 => simp [codeWalk, specWalk]
  | h1 a => cases h : tbl.lookup a <;> cases crit <;> simp [codeWalk, specWalk, h]
  | h2 a b l ih =>
    cases h : tbl.lookup a with
    | none => cases crit <;> simp [codeWalk, specWalk, h, ih]
    | some k => simp [codeWalk, specWalk, h, ih]

/-- the decoder that does **not** consume unknown values agrees with the specification on a
    well-formed (name, data) list in which no unknown entry has a known name as its data -/
theorem codeWalk_clean (ip : Bytes → Option Bytes) (tbl : OptTable) (ss : List Bytes)
    (heven : ss.length % 2 = 0) (hclean : CleanPairs tbl ss) :
    codeWalk ip false tbl false ss = specWalk ip tbl false ss := by
  induction ss using two_step_ind with
  | h0 => simp [codeWalk, specWalk]
  | h1 a => simp at heven
  | h2 a b l ih =>
    have hev : l.length % 2 = 0 := by simp at heven; omega
    obtain ⟨hab, hcl⟩ := hclean
    cases h : tbl.lookup a with
    | none =>
      have hb := hab h
      have e1 : codeWalk ip false tbl false (a :: b :: l) = codeWalk ip false tbl false l := by
        cases l <;> simp [codeWalk, h, hb]
      have e2 : specWalk ip tbl false (a :: b :: l) = specWalk ip tbl false l := by
        simp [specWalk, h]
      rw [e1, e2, ih hev hcl]
    | some k => simp [codeWalk, specWalk, h, ih hev hcl]

/-- a critical field the specification accepts has only known names -/
theorem specWalk_critical_names (ip : Bytes → Option Bytes) (tbl : OptTable) (ss : List Bytes)
    (res : List (Bytes × OptVal)) (h : specWalk ip tbl true ss = some res) :
    ss.length % 2 = 0 ∧ ∀ n ∈ pairNames ss, (tbl.lookup n).isSome = true := by
  induction ss using two_step_ind generalizing res with
  | h0 => simp [pairNames]
  | h1 a => simp [specWalk] at h
  | h2 a b l ih =>
    cases hk : tbl.lookup a with
    | none => simp [specWalk, hk] at h
    | some k =>
      simp only [specWalk, hk] at h
      cases hd : decodeOptVal ip k b with
      | none => simp [hd] at h
      | some v =>
        simp only [hd] at h
        cases hr : specWalk ip tbl true l with
        | none => simp [hr] at h
        | some rest =>
          obtain ⟨hev, hall⟩ := ih rest hr
          refine ⟨by simp; omega, ?_⟩
          intro n hn
          simp only [pairNames, List.mem_cons] at hn
          rcases hn with rfl | hn
          · simp [hk]
          · exact hall n hn

/-- the decoded entries are exactly the known pairs, in order -/
theorem specWalk_names (ip : Bytes → Option Bytes) (tbl : OptTable) (crit : Bool) (ss : List Bytes)
    (res : List (Bytes × OptVal)) (h : specWalk ip tbl crit ss = some res) :
    res.map Prod.fst = (pairNames ss).filter (fun n => (tbl.lookup n).isSome) := by
  induction ss using two_step_ind generalizing res with
  | h0 => simp [specWalk] at h; subst h; simp [pairNames]
  | h1 a => simp [specWalk] at h
  | h2 a b l ih =>
    cases hk : tbl.lookup a with
    | none =>
      cases crit with
      | true => simp [specWalk, hk] at h
      | false =>
        simp only [specWalk, hk, Bool.false_eq_true, if_false] at h
        simp [pairNames, hk, ih res h]
    | some k =>
      simp only [specWalk, hk] at h
      cases hd : decodeOptVal ip k b with
      | none => simp [hd] at h
      | some v =>
        simp only [hd] at h
        cases hr : specWalk ip tbl crit l with
        | none => simp [hr] at h
        | some rest =>
          simp only [hr, Option.some.injEq] at h
          subst h
          simp [pairNames, hk, ih rest hr]

/-! ### certificate blob layout -/

theorem encVals_append (a b : List Val) : encVals (a ++ b) = encVals a ++ encVals b := by
  simp [encVals]

theorem take_prefix_of_append {α : Type} (p r : List α) : (p ++ r).take ((p ++ r).length - r.length) = p := by
  have : (p ++ r).length - r.length = p.length := by simp
  rw [this]
  simp

/-- Layout of an accepted structure: the blob is the signed region followed by the signature string and
    nothing else; the region is the algorithm name and the encoded fields, the last of which is the CA key. -/
theorem parseCertRaw_layout {T : CertTables} {blob : Bytes} {raw : CertRaw}
    (h : parseCertRaw T blob = some raw) :
    blob = raw.region ++ sshString raw.signature ∧ raw.signature.length < 2 ^ 32 ∧
    (∃ vs, raw.region = encRegion raw.alg vs) ∧ (∃ pre, raw.region = pre ++ sshString raw.ca) := by
  unfold parseCertRaw at h
  split at h
  · simp at h
  · rename_i alg r0 halg
    split at h
    · simp at h
    · rename_i keyAlg k hlook
      split at h
      · simp at h
      · rename_i vs r1 hvs
        simp only at h
        split at h
        · rename_i sig hsig
          split at h
          · rename_i serial ctype keyId princ va vb opts exts reserved ca hdrop
            simp only [Option.some.injEq] at h
            obtain ⟨hb0, _⟩ := getString_eq_some halg
            obtain ⟨hb1, _⟩ := parseFields_eq_some hvs
            obtain ⟨hb2, hlt⟩ := getString_eq_some hsig
            have hblob : blob = (sshString alg ++ encVals vs) ++ r1 := by
              rw [hb0, hb1, List.append_assoc]
            have hregion : blob.take (blob.length - r1.length) = sshString alg ++ encVals vs := by
              rw [hblob]; exact take_prefix_of_append _ _
            subst h
            simp only
            refine ⟨?_, hlt, ⟨vs, ?_⟩, ?_⟩
            · rw [hregion]
              conv => lhs; rw [hblob, hb2]
              simp
            · rw [hregion]; rfl
            · rw [hregion]
              have hv : vs = vs.take (k + 1) ++ vs.drop (k + 1) := (List.take_append_drop _ _).symm
              rw [hdrop] at hv
              refine ⟨sshString alg ++ encVals (vs.take (k + 1)) ++
                encVals [.num64 serial, .num32 ctype, .bytes keyId, .bytes princ, .num64 va, .num64 vb,
                         .bytes opts, .bytes exts, .bytes reserved], ?_⟩
              conv => lhs; rw [hv]
              simp [encVals, encVal, List.append_assoc]
          · simp at h
        · simp at h

theorem encVals_all_str (l : List Val) (h : ∀ v ∈ l, v.kind = .str) :
    encVals l = encStrings (l.filterMap Val.bytes?) := by
  induction l with
  | nil => simp [encVals, encStrings]
  | cons v l ih =>
    have hv := h v (by simp)
    have ih' := ih (fun w hw => h w (by simp [hw]))
    cases v with
    | bytes b =>
      simp only [encVals, List.flatMap_cons, encVal, List.filterMap_cons, Val.bytes?, encStrings] at ih' ⊢
      rw [ih']
    | num32 n => simp [Val.kind] at hv
    | num64 n => simp [Val.kind] at hv

/-- every byte of the signed region belongs to a named field -/
theorem parseCertRaw_fields {T : CertTables} {blob : Bytes} {raw : CertRaw}
    (h : parseCertRaw T blob = some raw) :
    ∃ nonceAndKey : List Bytes,
      raw.region = sshString raw.alg ++ encStrings nonceAndKey ++ u64 raw.serial ++ u32 raw.ctype ++
        sshString raw.keyId ++ sshString raw.principals ++ u64 raw.validAfter ++ u64 raw.validBefore ++
        sshString raw.options ++ sshString raw.exts ++ sshString raw.reserved ++ sshString raw.ca ∧
      raw.keyFields = nonceAndKey.drop 1 := by
  unfold parseCertRaw at h
  split at h
  · simp at h
  · rename_i alg r0 halg
    split at h
    · simp at h
    · rename_i keyAlg k hlook
      split at h
      · simp at h
      · rename_i vs r1 hvs
        simp only at h
        split at h
        · rename_i sig hsig
          split at h
          · rename_i serial ctype keyId princ va vb opts exts reserved ca hdrop
            simp only [Option.some.injEq] at h
            obtain ⟨hb0, _⟩ := getString_eq_some halg
            obtain ⟨hb1, hkinds⟩ := parseFields_eq_some hvs
            have hblob : blob = (sshString alg ++ encVals vs) ++ r1 := by
              rw [hb0, hb1, List.append_assoc]
            have hregion : blob.take (blob.length - r1.length) = sshString alg ++ encVals vs := by
              rw [hblob]; exact take_prefix_of_append _ _
            have hv : vs = vs.take (k + 1) ++ vs.drop (k + 1) := (List.take_append_drop _ _).symm
            -- the first k+1 values are strings
            have hstr : ∀ v ∈ vs.take (k + 1), v.kind = .str := by
              intro v hvm
              have h1 : (vs.take (k + 1)).map Val.kind = (layoutV01 k).take (k + 1) := by
                rw [← hkinds, List.map_take]
              have h2 : (layoutV01 k).take (k + 1) = List.replicate (k + 1) FK.str := by
                unfold layoutV01
                rw [List.take_succ_cons, List.take_append_of_le_length (by simp)]
                simp [List.replicate_succ]
              rw [h2] at h1
              have : v.kind ∈ (vs.take (k + 1)).map Val.kind := List.mem_map_of_mem hvm
              rw [h1] at this
              exact (List.mem_replicate.mp this).2
            subst h
            refine ⟨(vs.take (k + 1)).filterMap Val.bytes?, ?_, ?_⟩
            · simp only
              rw [hregion]
              conv => lhs; rw [hv, encVals_append, encVals_all_str _ hstr, hdrop]
              simp [encVals, encVal, List.append_assoc]
            · simp only
              cases vs with
              | nil => simp
              | cons v0 rest =>
                have h0 : v0.kind = .str := hstr v0 (by simp)
                cases v0 with
                | bytes b => simp [Val.bytes?, List.take_succ_cons]
                | num32 n => simp [Val.kind] at h0
                | num64 n => simp [Val.kind] at h0
          · simp at h
        · simp at h
/-- the structure parse is injective: a blob is determined by what was parsed from it -/
theorem parseCertRaw_inj {T : CertTables} {b1 b2 : Bytes} {raw : CertRaw}
    (h1 : parseCertRaw T b1 = some raw) (h2 : parseCertRaw T b2 = some raw) : b1 = b2 := by
  rw [(parseCertRaw_layout h1).1, (parseCertRaw_layout h2).1]

/-- an accepted certificate passed every gate of `construct` -/
theorem certConstruct_some {T : CertTables} {O : CertOracle} {blob : Bytes} {c : Cert}
    (h : certConstruct T O blob = some c) :
    ∃ raw, parseCertRaw T blob = some raw ∧ O.caOk raw.ca = true ∧
      O.verify raw.ca raw.region raw.signature = true ∧
      O.keyOf raw.keyAlg raw.keyFields = some c.keyData ∧
      (raw.ctype = 1 ∨ raw.ctype = 2) ∧
      c.ca = raw.ca ∧ c.blob = blob ∧ c.ctype = raw.ctype ∧
      c.validAfter = raw.validAfter ∧ c.validBefore = raw.validBefore ∧
      ∃ o1 o2, c.options = o1 ++ o2 ∧
        decodeOptions O.ipNet T.consume (if raw.ctype = 1 then T.userOpts else T.hostOpts) true raw.options = some o1 ∧
        decodeOptions O.ipNet T.consume (if raw.ctype = 1 then T.userExts else T.hostExts) false raw.exts = some o2 := by
  unfold certConstruct at h
  split at h
  · simp at h
  · rename_i raw hraw
    refine ⟨raw, hraw, ?_⟩
    split at h
    · simp at h
    · rename_i hca
      split at h
      · simp at h
      · rename_i hver
        split at h
        · rename_i keyData keyId hkey hkid
          split at h
          · simp at h
          · rename_i principals hp
            simp only at h
            split at h
            · simp at h
            · rename_i ot et htabs
              split at h
              · simp at h
              · rename_i o1 ho1
                split at h
                · simp at h
                · rename_i o2 ho2
                  simp only [Option.some.injEq] at h
                  subst h
                  simp only [Bool.not_eq_eq_eq_not, Bool.not_true] at hca hver
                  have hca' : O.caOk raw.ca = true := by
                    cases hh : O.caOk raw.ca <;> simp_all
                  have hver' : O.verify raw.ca raw.region raw.signature = true := by
                    cases hh : O.verify raw.ca raw.region raw.signature <;> simp_all
                  refine ⟨hca', hver', hkey, ?_, rfl, rfl, rfl, rfl, rfl, o1, o2, rfl, ?_, ?_⟩
                  · by_cases h1 : raw.ctype = 1
                    · exact Or.inl h1
                    · by_cases h2 : raw.ctype = 2
                      · exact Or.inr h2
                      · simp [h1, h2] at htabs
                  · by_cases h1 : raw.ctype = 1
                    · simp [h1] at htabs ⊢; rw [htabs.1]; exact ho1
                    · by_cases h2 : raw.ctype = 2
                      · simp [h2] at htabs ⊢; rw [htabs.1]; exact ho1
                      · simp [h1, h2] at htabs
                  · by_cases h1 : raw.ctype = 1
                    · simp [h1] at htabs ⊢; rw [htabs.2]; exact ho2
                    · by_cases h2 : raw.ctype = 2
                      · simp [h2] at htabs ⊢; rw [htabs.2]; exact ho2
                      · simp [h1, h2] at htabs
        · simp at h

end AsyncsshModel.Cert
