import AsyncsshModel.Model.SftpIO
/-
  Helper lemmas for C12, part 4: `SFTPClientFile` position tracking simulates a POSIX file position.
-/
namespace AsyncsshModel.SftpIO
open AsyncsshModel

/-- abstraction: `_offset = None` stands for "at the end of the file" -/
def absF (w : FWorld) : PFile :=
  { content := w.content,
    pos := (match w.obj.offset with | some o => o | none => (w.content.length : Int)).toNat,
    append := w.obj.appending }

/-- only an append-mode file has no position; positions are never negative -/
def WF (w : FWorld) : Prop :=
  (w.obj.appending = false → w.obj.offset ≠ none) ∧ ∀ o, w.obj.offset = some o → 0 ≤ o

/-- calls without an explicit `offset=` argument; in append mode no zero-length write (asyncssh then takes the
    position to be the end of the file, Linux leaves it where it was) -/
def NoExplicit (appending : Bool) : FOp → Prop
  | .read _ (some _) => False
  | .write _ (some _) => False
  | .write d none => appending = true → d ≠ []
  | _ => True

/-- the call did not raise and did not produce a negative position -/
def OkRes : FRes → Prop
  | .exc => False
  | .num n => 0 ≤ n
  | .bytes _ => True

theorem slice_nil_of_le (b : Bytes) (off len : Nat) (h : b.length ≤ off) : slice b off len = [] := by
  simp [slice, List.drop_eq_nil_of_le h]

theorem fstep_appending (w : FWorld) (op : FOp) : (fstep w op).1.obj.appending = w.obj.appending := by
  cases op with
  | read size offset =>
    simp only [fstep]
    split
    · rfl
    · split
      · rfl
      · split <;> rfl
  | write d offset => simp only [fstep]; split <;> (split <;> rfl)
  | seekSet n => rfl
  | seekCur n => rfl
  | seekEnd n => rfl
  | tell => simp only [fstep]; split <;> rfl

theorem fstep_sim (w : FWorld) (op : FOp) (hwf : WF w) (hne : NoExplicit w.obj.appending op)
    (hok : OkRes (fstep w op).2) :
    pstep (absF w) op = (absF (fstep w op).1, (fstep w op).2) ∧ WF (fstep w op).1 := by
  obtain ⟨hwf1, hwf2⟩ := hwf
  cases op with
  | read size offset =>
    cases offset with
    | some o => exact absurd hne (by simp [NoExplicit])
    | none =>
      cases hoff : w.obj.offset with
      | none =>
        simp only [fstep, hoff]
        refine ⟨?_, ⟨hwf1, hwf2⟩⟩
        simp only [pstep, absF, hoff]
        have hs : ∀ n, slice w.content w.content.length n = [] :=
          fun n => slice_nil_of_le _ _ _ (Nat.le_refl _)
        simp [hs]
      | some off =>
        have hoff0 : 0 ≤ off := hwf2 off hoff
        simp only [fstep, hoff] at hok ⊢
        generalize hsz : effSize size (w.content.length : Int) off = sz at hok ⊢
        by_cases hbad : off < 0 ∨ sz < 0
        · simp only [hbad, if_true] at hok; exact absurd hok (by simp [OkRes])
        · simp only [hbad, if_false] at hok ⊢
          have hsz0 : 0 ≤ sz := by omega
          have hn : posixSize size w.content.length off.toNat = sz.toNat := by
            cases size with
            | none => simp only [effSize, posixSize] at hsz ⊢; omega
            | some n =>
              simp only [effSize, posixSize] at hsz ⊢
              by_cases hn : n < 0
              · simp only [hn, if_true] at hsz ⊢; omega
              · simp only [hn, if_false] at hsz ⊢; omega
          simp only [pstep, absF, hoff, hn]
          split
          · rename_i hd
            refine ⟨?_, ⟨hwf1, hwf2⟩⟩
            simp [hd.1, hoff]
          · refine ⟨?_, ?_, ?_⟩
            · simp only [Prod.mk.injEq, and_true]
              congr 1
              omega
            · intro _; simp
            · intro o ho
              simp only [Option.some.injEq] at ho
              omega
  | write d offset =>
    cases offset with
    | some o => exact absurd hne (by simp [NoExplicit])
    | none =>
      simp only [fstep] at hok ⊢
      by_cases hbad : (w.obj.offset.getD 0 : Int) < 0
      · simp only [hbad, if_true] at hok; exact absurd hok (by simp [OkRes])
      · simp only [hbad, if_false]
        cases happ : w.obj.appending with
        | true =>
          have hd : d ≠ [] := hne happ
          refine ⟨?_, ?_, ?_⟩
          · simp [pstep, absF, happ, hd]; omega
          · intro h; simp [happ] at h
          · intro o ho; simp at ho
        | false =>
          obtain ⟨o, ho⟩ := Option.ne_none_iff_exists'.mp (hwf1 happ)
          have ho0 := hwf2 o ho
          refine ⟨?_, ?_, ?_⟩
          · simp only [pstep, absF, happ, ho, Option.getD_some, Bool.false_eq_true, if_false, Prod.mk.injEq,
              and_true]
            congr 1
            omega
          · intro _; simp
          · intro o' ho'
            simp only [ho, Option.getD_some, Bool.false_eq_true, if_false, Option.some.injEq] at ho'
            omega
  | seekSet n =>
    simp only [fstep, OkRes] at hok ⊢
    exact ⟨by simp [pstep, absF], (fun _ => by simp), (fun o ho => by simp at ho; omega)⟩
  | seekCur n =>
    simp only [fstep] at hok ⊢
    cases hoff : w.obj.offset with
    | none =>
      simp only [hoff, OkRes] at hok ⊢
      refine ⟨?_, (fun _ => by simp), (fun o ho => by simp at ho; omega)⟩
      simp only [pstep, absF, hoff, Prod.mk.injEq]
      constructor
      · congr 1
      · congr 1
    | some off =>
      have := hwf2 off hoff
      simp only [hoff, OkRes] at hok ⊢
      refine ⟨?_, (fun _ => by simp), (fun o ho => by simp at ho; omega)⟩
      simp only [pstep, absF, hoff, Prod.mk.injEq]
      constructor
      · congr 1; omega
      · congr 1; omega
  | seekEnd n =>
    simp only [fstep, OkRes] at hok ⊢
    exact ⟨by simp [pstep, absF], (fun _ => by simp), (fun o ho => by simp at ho; omega)⟩
  | tell =>
    cases hoff : w.obj.offset with
    | none =>
      simp only [fstep, hoff]
      refine ⟨by simp [pstep, absF, hoff], (fun _ => by simp), (fun o ho => by simp at ho; omega)⟩
    | some off =>
      have := hwf2 off hoff
      simp only [fstep, hoff]
      refine ⟨?_, ⟨hwf1, hwf2⟩⟩
      simp only [pstep, absF, hoff, Prod.mk.injEq, true_and]
      congr 1; omega

theorem frun_sim (ops : List FOp) : ∀ (w : FWorld), WF w → (∀ op ∈ ops, NoExplicit w.obj.appending op) →
    (∀ r ∈ (frun w ops).2, OkRes r) →
    prun (absF w) ops = (absF (frun w ops).1, (frun w ops).2) := by
  induction ops with
  | nil => intro w _ _ _; rfl
  | cons op ops ih =>
    intro w hwf hne hok
    have hok1 : OkRes (fstep w op).2 := hok _ (by simp [frun])
    obtain ⟨h1, h2⟩ := fstep_sim w op hwf (hne op (by simp)) hok1
    have happ := fstep_appending w op
    have := ih (fstep w op).1 h2 (fun o ho => by rw [happ]; exact hne o (by simp [ho]))
      (fun r hr => hok r (by simp [frun, hr]))
    simp only [prun, frun, h1, this]

end AsyncsshModel.SftpIO
