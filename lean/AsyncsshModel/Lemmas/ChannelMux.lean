import AsyncsshModel.Lemmas.ChannelSys
/-
  N channels multiplexed on one connection (`MSys`): the projection onto one channel is a run of `Sys`.
-/
namespace AsyncsshModel.Channel
open AsyncsshModel

/-! ### N channels on one connection: every channel sees a run of the single-channel machine -/

theorem chanMsgs_append (i : Nat) (a b : List (Nat × Msg)) : chanMsgs i (a ++ b) = chanMsgs i a ++ chanMsgs i b := by
  induction a with
  | nil => rfl
  | cons p rest ih =>
    obtain ⟨j, m⟩ := p
    simp only [List.cons_append, chanMsgs]
    split <;> simp [ih]

theorem chanMsgs_map_same (i : Nat) (ms : List Msg) : chanMsgs i (ms.map (fun m => (i, m))) = ms := by
  induction ms with
  | nil => rfl
  | cons m rest ih => simp [chanMsgs, ih]

theorem chanMsgs_map_other (i j : Nat) (h : j ≠ i) (ms : List Msg) : chanMsgs i (ms.map (fun m => (j, m))) = [] := by
  induction ms with
  | nil => rfl
  | cons m rest ih => simp [chanMsgs, h, ih]

theorem Sys.ext' {a b : Sys} (h1 : ∀ x, a.ep x = b.ep x) (h2 : ∀ x, a.link x = b.link x)
    (h3 : ∀ x, a.hist x = b.hist x) : a = b := by
  cases a; cases b
  simp only [Sys.mk.injEq]
  exact ⟨funext h1, funext h2, funext h3⟩

theorem proj_apply_other (m : MSys) (x : Side) (i j : Nat) (hji : j ≠ i) (h0 : Hist)
    (r : Chan × List Msg × List Out) (lk : Side → List (Nat × Msg))
    (hlk : ∀ y, chanMsgs i (lk y) = chanMsgs i (m.link y)) :
    (({ m with link := lk }).apply x j h0 r).proj i = m.proj i := by
  apply Sys.ext'
  · intro y; simp [MSys.proj, MSys.apply, updCh, hji.symm]
  · intro y
    simp only [MSys.proj, MSys.apply, upd]
    split
    · rename_i hy; subst hy
      rw [chanMsgs_append, chanMsgs_map_other i j hji, List.append_nil]; exact hlk _
    · exact hlk _
  · intro y; simp [MSys.proj, MSys.apply, updCh, hji.symm]

theorem proj_apply_same (m : MSys) (x : Side) (i : Nat) (h0 : Hist)
    (r : Chan × List Msg × List Out) (lk : Side → List (Nat × Msg)) :
    (({ m with link := lk }).apply x i h0 r).proj i =
      ({ (m.proj i) with link := fun y => chanMsgs i (lk y) } : Sys).apply x h0 r := by
  apply Sys.ext'
  · intro y
    simp only [MSys.proj, MSys.apply, Sys.apply, updCh, upd]
    by_cases hy : y = x <;> simp [hy]
  · intro y
    simp only [MSys.proj, MSys.apply, Sys.apply, upd]
    by_cases hy : y = x.other
    · simp [hy, chanMsgs_append, chanMsgs_map_same]
    · simp [hy]
  · intro y
    simp only [MSys.proj, MSys.apply, Sys.apply, updCh, upd]
    by_cases hy : y = x <;> simp [hy]

/-- A step of the multiplexed system is, seen from channel `i`, either nothing or a step of the
    single-channel system `Sys` (with the same event, when the event concerns channel `i`). -/
theorem channels_independent (m m' : MSys) (ev : MEvent) (i : Nat) (h : m.step ev = .ok m') :
    m'.proj i = m.proj i ∨ ∃ e, (m.proj i).step e = .ok (m'.proj i) := by
  cases ev with
  | app x j e =>
    simp only [MSys.step] at h
    split at h
    · split at h
      · simp only [Except.ok.injEq] at h; subst h; exact Or.inl rfl
      · simp at h
    · rename_i r hr
      simp only [Except.ok.injEq] at h
      subst h
      by_cases hji : j = i
      · subst hji
        right
        refine ⟨.app x e, ?_⟩
        have h1 : Channel.step ((m.proj j).ep x) e.toEv = .ok r := hr
        simp only [Sys.step, h1]
        have := proj_apply_same m x j ((m.hist x j).recordApp e (m.ep x j)) r m.link
        simp only at this
        rw [this]
        rfl
      · left
        exact proj_apply_other m x i j hji _ r m.link (fun _ => rfl)
  | deliver x =>
    simp only [MSys.step] at h
    split at h
    · simp only [Except.ok.injEq] at h; subst h; exact Or.inl rfl
    · rename_i j msg rest hl
      split at h
      · simp at h
      · rename_i r hr
        simp only [Except.ok.injEq] at h
        subst h
        by_cases hji : j = i
        · subst hji
          right
          refine ⟨.deliver x, ?_⟩
          have hl' : (m.proj j).link x = msg :: chanMsgs j rest := by
            simp [MSys.proj, hl, chanMsgs]
          have h1 : Channel.step ((m.proj j).ep x) (.recv msg) = .ok r := hr
          simp only [Sys.step, hl', h1]
          have := proj_apply_same m x j ((m.hist x j).recordRecv msg (m.ep x j)) r (upd m.link x rest)
          simp only at this
          rw [this]
          congr 2
          apply Sys.ext'
          · intro y; rfl
          · intro y
            simp only [MSys.proj, upd]
            by_cases hy : y = x <;> simp [hy]
          · intro y; rfl
        · left
          refine proj_apply_other m x i j hji _ r (upd m.link x rest) ?_
          intro y
          simp only [upd]
          by_cases hy : y = x
          · simp [hy, hl, chanMsgs, hji]
          · simp [hy]

end AsyncsshModel.Channel
