import AsyncsshModel.Lemmas.ChannelRun
/-
  Safety of the honest composition: the send loop terminates for a positive maximum packet size, datatypes on the
  wire are those the sender may write, and no event of a reachable state fails (`no_fatal`).
-/
namespace AsyncsshModel.Channel
open AsyncsshModel

/-! ### the send loop terminates when the peer's maximum packet size is positive -/

theorem flushSend_some (c : Chan) : ∃ r, flushSend c = some r := by
  unfold flushSend
  have := flushData_terminates (flushFuel c) c (by unfold flushFuel; omega)
  cases h : flushData (flushFuel c) c with
  | none => rw [h] at this; simp at this
  | some r => obtain ⟨c1, ms⟩ := r; exact ⟨_, rfl⟩

theorem writeEof_some (c : Chan) : ∃ r, writeEof c = some r := by
  unfold writeEof
  split
  · exact flushSend_some _
  · exact ⟨_, rfl⟩

theorem eofStep_some (c : Chan) : ∃ r, eofStep c = some r := by
  unfold eofStep
  split
  · dsimp only
    split
    · obtain ⟨r, hr⟩ := writeEof_some { c with recvState := .eof }
      rw [hr]; obtain ⟨c3, ms⟩ := r; exact ⟨_, rfl⟩
    · exact ⟨_, rfl⟩
  · exact ⟨_, rfl⟩

theorem flushRecv_some (c : Chan) : ∃ r, flushRecv c = some r := by
  unfold flushRecv
  obtain ⟨r, hr⟩ := eofStep_some { (drainRecv c c.recvBuf).1 with recvBuf := (drainRecv c c.recvBuf).2.1 }
  simp only [hr]
  obtain ⟨c2, ms2, os2⟩ := r
  exact ⟨_, rfl⟩

/-- an event either succeeds or fails with one of the protocol / API errors checked at its entry; since fix
    de5c08f it never spins, whatever maximum packet size the peer advertised -/
theorem step_not_spin (c : Chan) (ev : Ev) : step c ev ≠ .error .spin := by
  cases ev with
  | write dt bs =>
    simp only [step]
    split
    · simp
    · split
      · simp
      · split
        · simp
        · obtain ⟨r, hr⟩ := flushSend_some { c with sendBuf := c.sendBuf ++ [(bs, dt)] }
          rw [hr]; obtain ⟨c1, ms⟩ := r; simp [liftSend]
  | writeEof =>
    simp only [step]
    obtain ⟨r, hr⟩ := writeEof_some c
    rw [hr]; obtain ⟨c1, ms⟩ := r; simp [liftSend]
  | close =>
    simp only [step]
    split
    · rename_i h1
      split at h1
      · obtain ⟨r, hr⟩ := flushSend_some { c with sendEofPending := decide (c.sendState = .eofPending), sendState := .closePending }
        rw [hr] at h1; cases h1
      · cases h1
    · split <;> simp
  | pause => simp [step]
  | resume =>
    simp only [step]
    split
    · obtain ⟨r, hr⟩ := flushRecv_some { c with recvPaused := .no }
      rw [hr]; simp [liftRecv]
    · simp
  | armPause k => simp [step]
  | startReading =>
    simp only [step]
    split
    · obtain ⟨r, hr⟩ := flushRecv_some { c with recvPaused := .no }
      rw [hr]; simp [liftRecv]
    · simp
  | recv m =>
    cases m with
    | data dt bs =>
      simp only [step, recvMsg]
      split
      · simp
      · split
        · simp
        · split <;> simp
    | adjust n =>
      simp only [step, recvMsg]
      split
      · simp
      · obtain ⟨r, hr⟩ := flushSend_some { c with sendWindow := c.sendWindow + n }
        rw [hr]; obtain ⟨c1, ms⟩ := r; simp [liftSend]
    | eof =>
      simp only [step, recvMsg]
      split
      · simp
      · obtain ⟨r, hr⟩ := flushRecv_some { c with recvState := .eofPending }
        rw [hr]; simp [liftRecv]
    | close =>
      simp only [step, recvMsg]
      split
      · simp
      · obtain ⟨r, hr⟩ := flushRecv_some
          { (closeSend c).1 with recvEofPending := decide (c.recvState = .eofPending), recvState := .closePending }
        simp only [hr]
        obtain ⟨c2, ms, os⟩ := r
        simp

/-! ### datatypes on the wire are the ones the sender may write -/

def bufOK (wt : List Nat) (b : Buf) : Prop := ∀ p ∈ b, typeOk wt p.2 = true

theorem bufOK_nil (wt : List Nat) : bufOK wt [] := by intro p hp; cases hp
theorem bufOK_append {wt : List Nat} {a b : Buf} (ha : bufOK wt a) (hb : bufOK wt b) : bufOK wt (a ++ b) := by
  intro p hp; rcases List.mem_append.mp hp with h | h
  · exact ha p h
  · exact hb p h
theorem bufOK_append_left {wt : List Nat} {a b : Buf} (h : bufOK wt (a ++ b)) : bufOK wt a :=
  fun p hp => h p (List.mem_append_left _ hp)

theorem splitHead_types (wt : List Nat) (p : Nat) (buf : Bytes) (dt : DType) (rest : Buf)
    (h : bufOK wt ((buf, dt) :: rest)) : bufOK wt (splitHead p buf dt rest).2 := by
  unfold splitHead
  split
  · intro q hq
    rcases List.mem_cons.mp hq with rfl | hq
    · exact h (buf, dt) (by simp)
    · exact h q (List.mem_cons_of_mem _ hq)
  · intro q hq; exact h q (List.mem_cons_of_mem _ hq)

theorem flushData_types (wt : List Nat) : ∀ (fuel : Nat) (c c' : Chan) (ms : List Msg),
    bufOK wt c.sendBuf → flushData fuel c = some (c', ms) → bufOK wt c'.sendBuf ∧ bufOK wt (dataOf ms) := by
  intro fuel
  induction fuel with
  | zero => intro c c' ms _ h; simp [flushData] at h
  | succ n ih =>
    intro c c' ms hok h
    unfold flushData at h
    split at h
    · simp only [Option.some.injEq, Prod.mk.injEq] at h
      obtain ⟨rfl, rfl⟩ := h
      exact ⟨hok, bufOK_nil _⟩
    · rename_i buf dt rest hb
      split at h
      · simp only [Option.some.injEq, Prod.mk.injEq] at h
        obtain ⟨rfl, rfl⟩ := h
        exact ⟨hok, bufOK_nil _⟩
      · split at h
        · simp only [Option.some.injEq, Prod.mk.injEq] at h
          obtain ⟨rfl, rfl⟩ := h
          exact ⟨hok, bufOK_nil _⟩
        simp only at h
        split at h
        · simp at h
        · rename_i c2 ms2 hrec
          simp only [Option.some.injEq, Prod.mk.injEq] at h
          obtain ⟨rfl, rfl⟩ := h
          rw [hb] at hok
          obtain ⟨h1, h2⟩ := ih _ _ _ (splitHead_types wt _ buf dt rest hok) hrec
          refine ⟨h1, ?_⟩
          rw [dataOf_append]
          refine bufOK_append ?_ h2
          unfold sendPkt
          split
          · intro q hq
            simp only [dataOf, List.mem_singleton] at hq
            subst hq
            exact hok (buf, dt) (by simp)
          · exact bufOK_nil _

theorem flushTail_data (c : Chan) :
    dataOf (flushTail c).2 = [] ∧ ((flushTail c).1.sendBuf = c.sendBuf ∨ (flushTail c).1.sendBuf = []) := by
  unfold flushTail
  split
  · split
    · exact ⟨by unfold sendPkt; split <;> rfl, Or.inl rfl⟩
    · refine ⟨?_, Or.inr ?_⟩
      · rw [dataOf_append]
        have h1 : dataOf (if c.sendEofPending = true then sendPkt c Msg.eof else []) = [] := by
          split
          · unfold sendPkt; split <;> rfl
          · rfl
        have h2 : dataOf (closeSend { c with sendEofPending := false }).2 = [] := by
          unfold closeSend; split
          · unfold sendPkt; split <;> rfl
          · rfl
        rw [h1, h2]; rfl
      · unfold closeSend; split <;> rfl
    · exact ⟨rfl, Or.inl rfl⟩
  · exact ⟨rfl, Or.inl rfl⟩

theorem flushSend_types (wt : List Nat) (c c' : Chan) (ms : List Msg)
    (h : flushSend c = some (c', ms)) (hok : bufOK wt c.sendBuf) : bufOK wt c'.sendBuf ∧ bufOK wt (dataOf ms) := by
  unfold flushSend at h
  split at h
  · simp at h
  · rename_i c1 ms1 hfd
    simp only [Option.some.injEq, Prod.mk.injEq] at h
    obtain ⟨rfl, rfl⟩ := h
    obtain ⟨h1, h2⟩ := flushData_types wt _ _ _ _ hok hfd
    obtain ⟨h3, h4⟩ := flushTail_data c1
    rw [dataOf_append, h3, List.append_nil]
    refine ⟨?_, h2⟩
    rcases h4 with h4 | h4
    · rw [h4]; exact h1
    · rw [h4]; exact bufOK_nil _

theorem flushRecv_types (wt : List Nat) (c c' : Chan) (ms : List Msg) (os : List Out)
    (h : flushRecv c = some (c', ms, os)) (hok : bufOK wt c.sendBuf) : bufOK wt c'.sendBuf ∧ bufOK wt (dataOf ms) := by
  unfold flushRecv at h
  have hd := drainRecv_spec c.recvBuf c
  generalize drainRecv c c.recvBuf = r at *
  obtain ⟨c1, left, ms1, os1⟩ := r
  simp only at hd h
  split at h
  · simp at h
  · rename_i c2 ms2 os2 hes
    simp only [Option.some.injEq, Prod.mk.injEq] at h
    obtain ⟨rfl, rfl, rfl⟩ := h
    have hok1 : bufOK wt c1.sendBuf := by rw [hd.same.sendBuf]; exact hok
    have h2 : bufOK wt c2.sendBuf ∧ bufOK wt (dataOf ms2) := by
      unfold eofStep at hes
      split at hes
      · dsimp only at hes
        split at hes
        · split at hes
          · simp at hes
          · rename_i c3 ms3 hwe
            simp only [Option.some.injEq, Prod.mk.injEq] at hes
            obtain ⟨rfl, rfl, rfl⟩ := hes
            unfold writeEof at hwe
            split at hwe
            · exact flushSend_types wt _ _ _ hwe hok1
            · simp only [Option.some.injEq, Prod.mk.injEq] at hwe
              obtain ⟨rfl, rfl⟩ := hwe
              exact ⟨hok1, bufOK_nil _⟩
        · simp only [Option.some.injEq, Prod.mk.injEq] at hes
          obtain ⟨rfl, rfl, rfl⟩ := hes
          exact ⟨hok1, bufOK_nil _⟩
      · simp only [Option.some.injEq, Prod.mk.injEq] at hes
        obtain ⟨rfl, rfl, rfl⟩ := hes
        exact ⟨hok1, bufOK_nil _⟩
    refine ⟨?_, ?_⟩
    · unfold closeStep; split <;> exact h2.1
    · rw [dataOf_append, allAdjust_dataOf _ hd.adj]; exact h2.2

theorem step_types (c c' : Chan) (ev : Ev) (ms : List Msg) (os : List Out)
    (hok : bufOK c.writeTypes c.sendBuf) (h : step c ev = .ok (c', ms, os)) :
    bufOK c.writeTypes c'.sendBuf ∧ bufOK c.writeTypes (dataOf ms) := by
  cases ev with
  | write dt bs =>
    obtain ⟨_, ht, _, ⟨_, hc, hm⟩ | ⟨_, h1⟩⟩ := step_write_ok h
    · rw [hc, hm]; exact ⟨hok, bufOK_nil _⟩
    · refine flushSend_types _ _ _ _ h1 ?_
      exact bufOK_append hok (by intro p hp; simp only [List.mem_singleton] at hp; subst hp; exact ht)
  | writeEof =>
    obtain ⟨h1, _⟩ := step_writeEof_ok h
    unfold writeEof at h1
    split at h1
    · exact flushSend_types _ _ _ _ h1 hok
    · simp only [Option.some.injEq, Prod.mk.injEq] at h1
      obtain ⟨rfl, rfl⟩ := h1
      exact ⟨hok, bufOK_nil _⟩
  | close =>
    obtain ⟨c1, ms1, h1, h2⟩ := step_close_ok h
    have h3 : bufOK c.writeTypes c1.sendBuf ∧ bufOK c.writeTypes (dataOf ms1) := by
      rcases h1 with ⟨_, _, h1⟩ | ⟨_, hc1, hm⟩
      · exact flushSend_types _ _ _ _ h1 hok
      · rw [hc1, hm]; exact ⟨hok, bufOK_nil _⟩
    rcases h2 with ⟨_, hc', hm', _⟩ | ⟨_, hc', hm', _⟩
    · rw [hc', hm', (discardRecv_spec c1).sendBuf, dataOf_append, discardRecv_msgs, dataOf_discardCredit,
        List.append_nil]
      exact h3
    · rw [hc', hm']; exact h3
  | pause => obtain ⟨rfl, rfl, _⟩ := step_pause_ok h; exact ⟨hok, bufOK_nil _⟩
  | armPause k => obtain ⟨rfl, rfl, _⟩ := step_arm_ok h; exact ⟨hok, bufOK_nil _⟩
  | resume =>
    rcases step_resume_ok h with ⟨_, h1⟩ | ⟨_, hc, hm, _⟩
    · exact flushRecv_types _ _ _ _ _ h1 hok
    · rw [hc, hm]; exact ⟨hok, bufOK_nil _⟩
  | startReading =>
    rcases step_start_ok h with ⟨_, h1⟩ | ⟨_, hc, hm, _⟩
    · exact flushRecv_types _ _ _ _ _ h1 hok
    · rw [hc, hm]; exact ⟨hok, bufOK_nil _⟩
  | recv m =>
    cases m with
    | data dt bs =>
      obtain ⟨_, _, _, ha⟩ := step_recv_data_ok h
      rcases acceptData_cases c bs dt with ⟨_, h1⟩ | ⟨_, _, h1⟩ | ⟨_, _, _, h1⟩ | ⟨_, _, _, h1⟩
      · rw [h1] at ha; cases ha; exact ⟨hok, bufOK_nil _⟩
      · rw [h1] at ha; cases ha; rw [dataOf_sendPkt_adjust]; exact ⟨hok, bufOK_nil _⟩
      · rw [h1] at ha; cases ha; exact ⟨hok, bufOK_nil _⟩
      · rw [h1] at ha
        obtain ⟨sp, _⟩ := deliverData_spec c bs dt
        rw [ha] at sp
        simp only at sp
        rw [sp.same.sendBuf, allAdjust_dataOf _ sp.adj]; exact ⟨hok, bufOK_nil _⟩
    | adjust n =>
      obtain ⟨_, h1, _⟩ := step_recv_adjust_ok h
      exact flushSend_types _ _ _ _ h1 hok
    | eof =>
      obtain ⟨_, h1⟩ := step_recv_eof_ok h
      exact flushRecv_types _ _ _ _ _ h1 hok
    | close =>
      obtain ⟨_, ms1, h1, rfl⟩ := step_recv_close_ok h
      have hok1 : bufOK c.writeTypes (closeSend c).1.sendBuf := by
        unfold closeSend; split <;> exact bufOK_nil _
      obtain ⟨h2, h3⟩ := flushRecv_types c.writeTypes _ _ _ _ h1 hok1
      refine ⟨h2, ?_⟩
      rw [dataOf_append]
      refine bufOK_append ?_ h3
      unfold closeSend; split
      · unfold sendPkt; split <;> exact bufOK_nil _
      · exact bufOK_nil _

/-! ### honest endpoints never produce a protocol error -/

structure TInv (s : Sys) : Prop where
  buf : ∀ x, bufOK (s.ep x).writeTypes (s.ep x).sendBuf
  link : ∀ x, bufOK (s.ep x).writeTypes (dataOf (s.link x.other))
  compat : ∀ x t, t ∈ (s.ep x).writeTypes → t ∈ (s.ep x.other).readTypes

theorem dataOf_tail_sub (m : Msg) (rest : List Msg) : ∀ p ∈ dataOf rest, p ∈ dataOf (m :: rest) := by
  intro p hp; cases m <;> simp [dataOf, hp]

theorem tinv_step_core (s s' : Sys) (z : Side) (ev : Ev) (c' : Chan) (ms : List Msg) (os : List Out)
    (linkz' : List Msg) (hinv : Inv s) (ht : TInv s)
    (hstep : step (s.ep z) ev = .ok (c', ms, os))
    (hlink : (∃ m, s.link z = m :: linkz') ∨ linkz' = s.link z)
    (he1 : s'.ep z = c') (he2 : s'.ep z.other = s.ep z.other)
    (hl1 : s'.link z = linkz') (hl2 : s'.link z.other = s.link z.other ++ ms) : TInv s' := by
  have hcfg := (step_sum _ _ _ _ _ (hinv.wf z) hstep).cfg
  obtain ⟨hb, hm⟩ := step_types _ _ _ _ _ (ht.buf z) hstep
  refine ⟨?_, ?_, ?_⟩
  · intro x
    rcases Side.eq_or_other x z with rfl | rfl
    · rw [he1, hcfg.writeTypes]; exact hb
    · rw [he2]; exact ht.buf _
  · intro x
    rcases Side.eq_or_other x z with rfl | rfl
    · rw [he1, hl2, hcfg.writeTypes, dataOf_append]; exact bufOK_append (ht.link x) hm
    · rw [Side.other_other, he2, hl1]
      have h0 := ht.link z.other
      rw [Side.other_other] at h0
      rcases hlink with ⟨m, hl⟩ | hl
      · rw [hl] at h0; exact fun p hp => h0 p (dataOf_tail_sub m _ p hp)
      · rw [hl]; exact h0
  · intro x t
    rcases Side.eq_or_other x z with rfl | rfl
    · rw [he1, he2, hcfg.writeTypes]; exact ht.compat x t
    · rw [Side.other_other, he1, he2, hcfg.readTypes]
      have := ht.compat z.other t
      rw [Side.other_other] at this; exact this

theorem tinv_step (s s' : Sys) (ev : Event) (hinv : Inv s) (ht : TInv s) (h : s.step ev = .ok s') : TInv s' := by
  cases ev with
  | app z e =>
    simp only [Sys.step] at h
    split at h
    · split at h
      · simp only [Except.ok.injEq] at h; subst h; exact ht
      · simp at h
    · rename_i r hr
      simp only [Except.ok.injEq] at h
      subst h
      obtain ⟨c', ms, os⟩ := r
      exact tinv_step_core s _ z e.toEv c' ms os (s.link z) hinv ht hr (Or.inr rfl)
        (by simp [Sys.apply]) (by simp [Sys.apply]) (by simp [Sys.apply]) (by simp [Sys.apply])
  | deliver z =>
    simp only [Sys.step] at h
    split at h
    · simp only [Except.ok.injEq] at h; subst h; exact ht
    · rename_i m rest hl
      split at h
      · simp at h
      · rename_i r hr
        simp only [Except.ok.injEq] at h
        subst h
        obtain ⟨c', ms, os⟩ := r
        exact tinv_step_core s _ z (.recv m) c' ms os rest hinv ht hr (Or.inl ⟨m, hl⟩)
          (by simp [Sys.apply]) (by simp [Sys.apply]) (by simp [Sys.apply]) (by simp [Sys.apply])

theorem typeOk_mono {wt rt : List Nat} (h : ∀ t, t ∈ wt → t ∈ rt) (dt : DType) (ht : typeOk wt dt = true) :
    typeOk rt dt = true := by
  cases dt with
  | none => rfl
  | some t => simp only [typeOk, decide_eq_true_eq] at ht ⊢; exact h t ht

theorem rStage_zero {c : Chan} (h : rStage c = 0) : c.recvState = .opn := by
  unfold rStage at h; cases hs : c.recvState <;> simp_all

theorem rStage_le_one {c : Chan} (h : rStage c ≤ 1) : recvOpenish c.recvState = true := by
  unfold rStage at h; cases hs : c.recvState <;> simp_all [recvOpenish]

theorem step_app_err (c : Chan) (e : AppEv) (err : Err) (h : step c e.toEv = .error err) :
    err.isApi = true ∨ err = .spin := by
  cases e with
  | write dt bs =>
    simp only [AppEv.toEv, step] at h
    split at h
    · cases h; left; rfl
    · split at h
      · cases h; left; rfl
      · split at h
        · cases h
        · unfold liftSend at h; split at h
          · cases h; right; rfl
          · cases h
  | writeEof =>
    simp only [AppEv.toEv, step, liftSend] at h
    split at h
    · cases h; right; rfl
    · cases h
  | close =>
    simp only [AppEv.toEv, step] at h
    split at h
    · cases h; right; rfl
    · split at h <;> cases h
  | pause => simp [AppEv.toEv, step] at h
  | resume =>
    simp only [AppEv.toEv, step, liftRecv] at h
    split at h
    · split at h
      · cases h; right; rfl
      · cases h
    · cases h
  | armPause k => simp [AppEv.toEv, step] at h
  | startReading =>
    simp only [AppEv.toEv, step, liftRecv] at h
    split at h
    · split at h
      · cases h; right; rfl
      · cases h
    · cases h

/-- In every reachable state of two honest endpoints (ANY maximum packet sizes), EVERY event succeeds:
    no delivery raises `ProtocolError` (window exceeded, channel not open, bad extended datatype) and the send
    loop always terminates. -/
theorem no_fatal (s : Sys) (hinv : Inv s) (ht : TInv s) (ev : Event) : ∃ s', s.step ev = .ok s' := by
  cases ev with
  | app z e =>
    simp only [Sys.step]
    cases hr : Channel.step (s.ep z) e.toEv with
    | ok r => exact ⟨_, rfl⟩
    | error err =>
      rcases step_app_err _ _ _ hr with h1 | h1
      · simp only [h1, if_true]; exact ⟨_, rfl⟩
      · subst h1; exact absurd hr (step_not_spin _ _)
  | deliver z =>
    simp only [Sys.step]
    cases hl : s.link z with
    | nil => exact ⟨_, rfl⟩
    | cons m rest =>
      simp only
      have hd := hinv.dir z.other
      rw [Side.other_other] at hd
      have hlk := hd.link
      rw [hl] at hlk
      suffices h : ∃ r, Channel.step (s.ep z) (.recv m) = .ok r by
        obtain ⟨r, hr⟩ := h; rw [hr]; exact ⟨_, rfl⟩
      have hns := step_not_spin (s.ep z) (.recv m)
      cases m with
      | data dt bs =>
        simp only [LinkOK] at hlk
        have hs : (s.ep z).recvState = .opn := rStage_zero hlk.1
        have htl := ht.link z.other
        rw [Side.other_other, hl] at htl
        have hty : typeOk (s.ep z).readTypes dt = true := by
          refine typeOk_mono ?_ dt (htl (bs, dt) (by simp [dataOf]))
          intro t h; have := ht.compat z.other t h; rw [Side.other_other] at this; exact this
        have hacct := hd.acct
        rw [hl] at hacct
        simp only [dataOf, bufBytes] at hacct
        have hw : ¬ ((bs.length : Int) > (s.ep z).recvWindow - bufBytes (s.ep z).recvBuf) := by
          push_cast at hacct; omega
        simp only [step, recvMsg, hs, ne_eq, not_true_eq_false, if_false, hty, hw]
        exact ⟨_, rfl⟩
      | adjust n =>
        simp only [LinkOK] at hlk
        have ho := rStage_le_one hlk.1
        simp only [step, recvMsg, ho, not_true_eq_false, if_false] at hns ⊢
        cases hf : flushSend { s.ep z with sendWindow := (s.ep z).sendWindow + n } with
        | none => rw [hf] at hns; simp [liftSend] at hns
        | some r => obtain ⟨c1, ms1⟩ := r; exact ⟨_, rfl⟩
      | eof =>
        simp only [LinkOK] at hlk
        have hs : (s.ep z).recvState = .opn := rStage_zero hlk.1
        simp only [step, recvMsg, hs, ne_eq, not_true_eq_false, if_false] at hns ⊢
        cases hf : flushRecv { s.ep z with recvState := .eofPending } with
        | none => rw [hf] at hns; simp [liftRecv] at hns
        | some r => exact ⟨_, rfl⟩
      | close =>
        simp only [LinkOK] at hlk
        have ho := rStage_le_one hlk.1
        simp only [step, recvMsg, ho, not_true_eq_false, if_false] at hns ⊢
        cases hf : flushRecv { (closeSend (s.ep z)).1 with recvEofPending := decide ((s.ep z).recvState = .eofPending), recvState := .closePending } with
        | none => rw [hf] at hns; simp at hns
        | some r => obtain ⟨c2, ms2, os2⟩ := r; exact ⟨_, rfl⟩

theorem tinv_init (ca cb : SideCfg) (h1 : ∀ t, t ∈ ca.writeTypes → t ∈ cb.readTypes)
    (h2 : ∀ t, t ∈ cb.writeTypes → t ∈ ca.readTypes) :
    TInv (Sys.init ca cb) := by
  refine ⟨?_, ?_, ?_⟩
  · intro x; cases x <;> exact bufOK_nil _
  · intro x; cases x <;> exact bufOK_nil _
  · intro x t; cases x
    · exact h1 t
    · exact h2 t

end AsyncsshModel.Channel
