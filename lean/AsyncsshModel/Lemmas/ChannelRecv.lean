import AsyncsshModel.Lemmas.Channel
/-
  Receive half of one endpoint (`deliverData`, `drainRecv`, `eofStep`, `closeStep`, `flushRecv`) and the
  composable effect summary `Eff` used by `Lemmas/ChannelStep.lean`.
-/
namespace AsyncsshModel.Channel
open AsyncsshModel

/-! ### the receive-side data path -/

/-- fields not touched by `deliverData` / `drainRecv` -/
structure SameSend (c c' : Chan) : Prop where
  initWindow : c'.initWindow = c.initWindow
  readTypes : c'.readTypes = c.readTypes
  writeTypes : c'.writeTypes = c.writeTypes
  eofKeep : c'.eofKeep = c.eofKeep
  sendPktsize : c'.sendPktsize = c.sendPktsize
  sendState : c'.sendState = c.sendState
  sendChanOpen : c'.sendChanOpen = c.sendChanOpen
  sendWindow : c'.sendWindow = c.sendWindow
  sendBuf : c'.sendBuf = c.sendBuf
  recvState : c'.recvState = c.recvState
  recvEofPending : c'.recvEofPending = c.recvEofPending
  sendEofPending : c'.sendEofPending = c.sendEofPending

theorem SameSend.refl (c : Chan) : SameSend c c := ⟨rfl, rfl, rfl, rfl, rfl, rfl, rfl, rfl, rfl, rfl, rfl, rfl⟩
theorem SameSend.trans {a b c : Chan} (h1 : SameSend a b) (h2 : SameSend b c) : SameSend a c :=
  ⟨h2.1.trans h1.1, h2.2.trans h1.2, h2.3.trans h1.3, h2.4.trans h1.4, h2.5.trans h1.5, h2.6.trans h1.6,
   h2.7.trans h1.7, h2.8.trans h1.8, h2.9.trans h1.9, h2.10.trans h1.10, h2.11.trans h1.11, h2.12.trans h1.12⟩

theorem SameSend.sStage {c c' : Chan} (h : SameSend c c') : sStage c' = sStage c := by
  simp [Channel.sStage, h.sendState]
theorem SameSend.rStage {c c' : Chan} (h : SameSend c c') : rStage c' = rStage c := by
  simp [Channel.rStage, h.recvState]
theorem SameSend.wfs {c c' : Chan} (h : SameSend c c') (hw : WFs c) : WFs c' :=
  ⟨by rw [h.sendChanOpen, h.sendState]; exact hw.chanOpen, by rw [h.sendState, h.sendBuf]; exact hw.drained⟩

/-- a list of WINDOW_ADJUST messages only -/
def allAdjust : List Msg → Prop
  | [] => True
  | .adjust _ :: rest => allAdjust rest
  | _ :: _ => False

theorem allAdjust_append : ∀ (a b : List Msg), allAdjust a → allAdjust b → allAdjust (a ++ b)
  | [], _, _, hb => hb
  | .adjust _ :: rest, b, ha, hb => by simpa [allAdjust] using allAdjust_append rest b ha hb
  | .data _ _ :: _, _, ha, _ => by simp [allAdjust] at ha
  | .eof :: _, _, ha, _ => by simp [allAdjust] at ha
  | .close :: _, _, ha, _ => by simp [allAdjust] at ha

theorem allAdjust_dataOf : ∀ (l : List Msg), allAdjust l → dataOf l = []
  | [], _ => rfl
  | .adjust _ :: rest, h => by simpa [dataOf] using allAdjust_dataOf rest h
  | .data _ _ :: _, h => by simp [allAdjust] at h
  | .eof :: _, h => by simp [allAdjust] at h
  | .close :: _, h => by simp [allAdjust] at h

theorem allAdjust_LinkOK : ∀ (l : List Msg) (r : Nat), allAdjust l → (l ≠ [] → r ≤ 1) → LinkOK r r l
  | [], _, _, _ => by simp [LinkOK]
  | .adjust _ :: rest, r, h, hr => by
    simp only [LinkOK]
    have hr1 : r ≤ 1 := hr (by simp)
    exact ⟨hr1, allAdjust_LinkOK rest r h (fun _ => hr1)⟩
  | .data _ _ :: _, _, h, _ => by simp [allAdjust] at h
  | .eof :: _, _, h, _ => by simp [allAdjust] at h
  | .close :: _, _, h, _ => by simp [allAdjust] at h

theorem sStage_le_of_open {c : Chan} (hw : WFs c) (h : c.sendChanOpen = true) : sStage c ≤ 1 := by
  have := hw.chanOpen.mp h
  unfold sStage
  cases hs : c.sendState <;> simp_all

theorem sendPkt_adjust_LinkOK (c : Chan) (hw : WFs c) (n : Nat) :
    LinkOK (sStage c) (sStage c) (sendPkt c (.adjust n)) := by
  unfold sendPkt
  split
  · rename_i h; simp [LinkOK, sStage_le_of_open hw h]
  · simp [LinkOK]

structure DeliverSpec (c c' : Chan) (ms : List Msg) (n : Nat) : Prop where
  same : SameSend c c'
  recvBuf : c'.recvBuf = c.recvBuf
  adj : allAdjust ms
  sent : ms ≠ [] → c.sendChanOpen = true
  winGe : c'.recvWindow + n ≥ c.recvWindow + adjustSum ms
  winEq : c.sendChanOpen = true → c'.recvWindow + n = c.recvWindow + adjustSum ms
  half : 2 * c'.recvWindow ≥ c.initWindow
  paused : c'.recvPaused = c.recvPaused ∨ c'.recvPaused = .yes

theorem deliverData_spec (c : Chan) (d : Bytes) (dt : DType) :
    DeliverSpec c (deliverData c d dt).1 (deliverData c d dt).2.1 d.length ∧
    (deliverData c d dt).2.2 = [.data dt d] := by
  refine ⟨?_, rfl⟩
  have hA : ∀ (w : Int) (i : Nat), needAdjust w i = true → (((i : Int) - w).toNat : Int) = (i : Int) - w := by
    intro w i h
    simp only [needAdjust, decide_eq_true_eq] at h
    omega
  have hN : ∀ (w : Int) (i : Nat), needAdjust w i = false → 2 * w ≥ (i : Int) := by
    intro w i h
    simp only [needAdjust, decide_eq_false_iff_not] at h
    omega
  unfold deliverData
  refine ⟨⟨rfl, rfl, rfl, rfl, rfl, rfl, rfl, rfl, rfl, rfl, rfl, rfl⟩, rfl, ?_, ?_, ?_, ?_, ?_, ?_⟩
  · simp only
    split
    · unfold sendPkt; split <;> simp [allAdjust]
    · simp [allAdjust]
  · simp only
    intro h
    split at h
    · unfold sendPkt at h; split at h
      · assumption
      · simp at h
    · simp at h
  · simp only
    cases hn : needAdjust (c.recvWindow - ↑d.length) c.initWindow with
    | true =>
      have := hA _ _ hn
      simp only [if_true]
      unfold sendPkt; split
      · simp only [adjustSum]; omega
      · simp only [adjustSum]; omega
    | false => simp [adjustSum]
  · simp only
    intro hop
    cases hn : needAdjust (c.recvWindow - ↑d.length) c.initWindow with
    | true =>
      have := hA _ _ hn
      simp only [if_true, sendPkt, hop, adjustSum]; omega
    | false => simp [adjustSum]
  · simp only
    cases hn : needAdjust (c.recvWindow - ↑d.length) c.initWindow with
    | true => simp only [if_true]; omega
    | false => have := hN _ _ hn; simpa using this
  · simp only
    cases c.pauseAfter with
    | none => left; rfl
    | some k => cases k with
      | zero => right; rfl
      | succ k => left; rfl

/-- all callbacks are `data_received` -/
def allDataOuts : List Out → Prop
  | [] => True
  | .data _ _ :: rest => allDataOuts rest
  | _ :: _ => False

theorem allDataOuts_append : ∀ (a b : List Out), allDataOuts a → allDataOuts b → allDataOuts (a ++ b)
  | [], _, _, hb => hb
  | .data _ _ :: rest, b, ha, hb => by simpa [allDataOuts] using allDataOuts_append rest b ha hb
  | .eof :: _, _, ha, _ => by simp [allDataOuts] at ha
  | .lost :: _, _, ha, _ => by simp [allDataOuts] at ha

theorem allDataOuts_not_mem : ∀ (l : List Out), allDataOuts l → Out.eof ∉ l ∧ Out.lost ∉ l
  | [], _ => by simp
  | .data _ _ :: rest, h => by
    have := allDataOuts_not_mem rest h; simp [this]
  | .eof :: _, h => by simp [allDataOuts] at h
  | .lost :: _, h => by simp [allDataOuts] at h

structure DrainSpec (c c' : Chan) (buf left : Buf) (ms : List Msg) (os : List Out) : Prop where
  same : SameSend c c'
  recvBuf : c'.recvBuf = c.recvBuf
  stream : tag (dataOuts os) ++ tag left = tag buf
  outs : allDataOuts os
  adj : allAdjust ms
  sent : ms ≠ [] → c.sendChanOpen = true
  winGe : c'.recvWindow + bufBytes (dataOuts os) ≥ c.recvWindow + adjustSum ms
  winEq : c.sendChanOpen = true → c'.recvWindow + bufBytes (dataOuts os) = c.recvWindow + adjustSum ms
  half : 2 * c.recvWindow ≥ c.initWindow → 2 * c'.recvWindow ≥ c.initWindow
  exit : left = [] ∨ c'.recvPaused ≠ .no
  pausedMono : c'.recvPaused = .no → c.recvPaused = .no
  pausedStart : c'.recvPaused = .starting → c.recvPaused = .starting
  leftLen : left.length ≤ buf.length
  count : os.length + left.length = buf.length

theorem drainRecv_spec : ∀ (buf : Buf) (c : Chan),
    DrainSpec c (drainRecv c buf).1 buf (drainRecv c buf).2.1 (drainRecv c buf).2.2.1 (drainRecv c buf).2.2.2
  | [], c => by
    simp only [drainRecv]
    exact ⟨SameSend.refl c, rfl, rfl, trivial, trivial, by simp, by simp [dataOuts, bufBytes, adjustSum],
      by simp [dataOuts, bufBytes, adjustSum], id, Or.inl rfl, id, id, Nat.le_refl _, rfl⟩
  | (d, dt) :: rest, c => by
    unfold drainRecv
    split
    · rename_i hp
      exact ⟨SameSend.refl c, rfl, rfl, trivial, trivial, by simp, by simp [dataOuts, bufBytes, adjustSum],
        by simp [dataOuts, bufBytes, adjustSum], id, Or.inr hp, id, id, Nat.le_refl _, by simp⟩
    · rename_i hp
      have hp' : c.recvPaused = .no := by
        cases h : c.recvPaused <;> simp_all
      obtain ⟨h1, ho1⟩ := deliverData_spec c d dt
      have h2 := drainRecv_spec rest (deliverData c d dt).1
      simp only
      generalize deliverData c d dt = r1 at *
      obtain ⟨c1, ms1, os1⟩ := r1
      simp only at h1 ho1 h2 ⊢
      subst ho1
      generalize drainRecv c1 rest = r2 at *
      obtain ⟨c2, left, ms2, os2⟩ := r2
      simp only at h2 ⊢
      have hsco : c1.sendChanOpen = c.sendChanOpen := h1.same.sendChanOpen
      refine ⟨h1.same.trans h2.same, h2.recvBuf.trans h1.recvBuf, ?_, ?_, allAdjust_append _ _ h1.adj h2.adj,
        ?_, ?_, ?_, ?_, h2.exit, ?_, ?_, ?_, ?_⟩
      · simp only [List.singleton_append, dataOuts, tag_cons, List.append_assoc]
        rw [h2.stream]
      · simpa [allDataOuts] using h2.outs
      · intro hne
        by_cases hm1 : ms1 = []
        · subst hm1
          have := h2.sent (by simpa using hne)
          rw [← hsco]; exact this
        · exact h1.sent hm1
      · have a := h1.winGe; have b := h2.winGe
        simp only [List.singleton_append, dataOuts, bufBytes, adjustSum_append]
        omega
      · intro hop
        have a := h1.winEq hop; have b := h2.winEq (hsco ▸ hop)
        simp only [List.singleton_append, dataOuts, bufBytes, adjustSum_append]
        omega
      · intro _
        have a := h1.half
        have b := h2.half (by rw [h1.same.initWindow]; exact a)
        rw [h1.same.initWindow] at b; exact b
      · intro _; exact hp'
      · intro h
        have h3 := h2.pausedStart h
        rcases h1.paused with h4 | h4
        · rw [h4] at h3; rw [hp'] at h3; cases h3
        · rw [h4] at h3; cases h3
      · have := h2.leftLen; simp only [List.length_cons]; omega
      · have := h2.count; simp only [List.length_cons, List.length_append, List.length_nil]; omega

/-! ### composable effect summaries -/

structure SameCfg (c c' : Chan) : Prop where
  initWindow : c'.initWindow = c.initWindow
  readTypes : c'.readTypes = c.readTypes
  writeTypes : c'.writeTypes = c.writeTypes
  eofKeep : c'.eofKeep = c.eofKeep
  sendPktsize : c'.sendPktsize = c.sendPktsize

theorem SameCfg.refl (c : Chan) : SameCfg c c := ⟨rfl, rfl, rfl, rfl, rfl⟩
theorem SameCfg.trans {a b c : Chan} (h1 : SameCfg a b) (h2 : SameCfg b c) : SameCfg a c :=
  ⟨h2.1.trans h1.1, h2.2.trans h1.2, h2.3.trans h1.3, h2.4.trans h1.4, h2.5.trans h1.5⟩
theorem SameRecv.cfg {c c' : Chan} (h : SameRecv c c') : SameCfg c c' :=
  ⟨h.initWindow, h.readTypes, h.writeTypes, h.eofKeep, h.sendPktsize⟩
theorem SameSend.cfg {c c' : Chan} (h : SameSend c c') : SameCfg c c' :=
  ⟨h.initWindow, h.readTypes, h.writeTypes, h.eofKeep, h.sendPktsize⟩

/-- What an operation that neither accepts new data nor discards any does, in a form that composes
    (`Eff.trans`): messages `ms` emitted, callbacks `os` made. -/
structure Eff (c c' : Chan) (ms : List Msg) (os : List Out) : Prop where
  cfg : SameCfg c c'
  sendStream : tag (dataOf ms) ++ tag c'.sendBuf = tag c.sendBuf
  sendWindow : bufBytes (dataOf ms) + c'.sendWindow = c.sendWindow
  path : LinkOK (sStage c) (sStage c') ms
  wfs : WFs c'
  pktBound : ∀ dt bs, Msg.data dt bs ∈ ms → bs.length ≤ c.sendPktsize
  recvStream : tag (dataOuts os) ++ tag c'.recvBuf = tag c.recvBuf
  winGe : c'.recvWindow + bufBytes (dataOuts os) ≥ c.recvWindow + adjustSum ms
  winEq : c'.sendChanOpen = true → c'.recvWindow + bufBytes (dataOuts os) = c.recvWindow + adjustSum ms
  rstage : rStage c' = rStage c
  openMono : c'.sendChanOpen = true → c.sendChanOpen = true
  half : 2 * c.recvWindow ≥ c.initWindow → 2 * c'.recvWindow ≥ c'.initWindow
  sendTrans : c'.sendState = c.sendState ∨ (c.sendState = .opn ∧ (c'.sendState = .eofPending ∨ c'.sendState = .eof)) ∨
    (c.sendState = .eofPending ∧ c'.sendState = .eof) ∨ (c.sendState = .closePending ∧ c'.sendState = .closed)

theorem Eff.refl (c : Chan) (hw : WFs c) : Eff c c [] [] :=
  ⟨SameCfg.refl c, rfl, by simp [dataOf, bufBytes], by simp [LinkOK], hw, by simp, rfl,
   by simp [dataOuts, bufBytes, adjustSum], by simp [dataOuts, bufBytes, adjustSum], rfl, id, id, Or.inl rfl⟩

theorem Eff.trans {a b c : Chan} {m1 m2 : List Msg} {o1 o2 : List Out}
    (h1 : Eff a b m1 o1) (h2 : Eff b c m2 o2)
    (hst : c.sendState = a.sendState ∨ (a.sendState = .opn ∧ (c.sendState = .eofPending ∨ c.sendState = .eof)) ∨
      (a.sendState = .eofPending ∧ c.sendState = .eof) ∨ (a.sendState = .closePending ∧ c.sendState = .closed)) :
    Eff a c (m1 ++ m2) (o1 ++ o2) := by
  refine ⟨h1.cfg.trans h2.cfg, ?_, ?_, LinkOK_append _ _ _ _ _ h1.path h2.path, h2.wfs, ?_, ?_, ?_, ?_,
    h2.rstage.trans h1.rstage, fun h => h1.openMono (h2.openMono h), ?_, hst⟩
  · rw [dataOf_append, tag_append, List.append_assoc, h2.sendStream, h1.sendStream]
  · have a1 := h1.sendWindow; have a2 := h2.sendWindow
    rw [dataOf_append, bufBytes_append]; omega
  · intro dt bs hm
    rcases List.mem_append.mp hm with hm | hm
    · exact h1.pktBound _ _ hm
    · have := h2.pktBound _ _ hm; rw [h1.cfg.sendPktsize] at this; exact this
  · rw [dataOuts_append, tag_append, List.append_assoc, h2.recvStream, h1.recvStream]
  · have a1 := h1.winGe; have a2 := h2.winGe
    rw [dataOuts_append, bufBytes_append, adjustSum_append]; push_cast; omega
  · intro hop
    have a2 := h2.winEq hop; have a1 := h1.winEq (h2.openMono hop)
    rw [dataOuts_append, bufBytes_append, adjustSum_append]; push_cast; omega
  · intro h; exact h2.half (by have := h1.half h; exact this)

/-- a send-half operation as an effect -/
theorem SendSpec.eff {c c' : Chan} {ms : List Msg} (h : SendSpec c c' ms) (hw : WFs c) : Eff c c' ms [] := by
  refine ⟨h.same.cfg, h.stream, h.window, h.path, h.wf, h.pktBound, ?_, ?_, ?_, ?_, ?_, ?_, ?_⟩
  · simp [dataOuts, h.same.recvBuf]
  · simp [dataOuts, bufBytes, h.noAdjust, h.same.recvWindow]
  · intro _; simp [dataOuts, bufBytes, h.noAdjust, h.same.recvWindow]
  · simp [rStage, h.same.recvState]
  · intro hop
    have h1 := h.wf.chanOpen.mp hop
    apply hw.chanOpen.mpr
    rcases h.trans with ht | ⟨ht, _⟩ | ⟨_, ht⟩
    · rw [← ht]; exact h1
    · simp [ht]
    · exact absurd ht h1
  · rw [h.same.recvWindow, h.same.initWindow]; exact id
  · rcases h.trans with ht | ht | ht
    · exact Or.inl ht
    · exact Or.inr (Or.inr (Or.inl ht))
    · exact Or.inr (Or.inr (Or.inr ht))

/-- the drain loop as an effect (the explicit buffer put back into the endpoint) -/
theorem DrainSpec.eff {c c' : Chan} {left : Buf} {ms : List Msg} {os : List Out}
    (h : DrainSpec c c' c.recvBuf left ms os) (hw : WFs c) :
    Eff c { c' with recvBuf := left } ms os := by
  have hss : sStage { c' with recvBuf := left } = sStage c := by simp [sStage, h.same.sendState]
  refine ⟨⟨h.same.initWindow, h.same.readTypes, h.same.writeTypes, h.same.eofKeep, h.same.sendPktsize⟩,
    ?_, ?_, ?_, ?_, ?_, h.stream, h.winGe, ?_, ?_, ?_, ?_, Or.inl h.same.sendState⟩
  · simp [allAdjust_dataOf _ h.adj, h.same.sendBuf]
  · simp [allAdjust_dataOf _ h.adj, bufBytes, h.same.sendWindow]
  · rw [hss]
    exact allAdjust_LinkOK ms _ h.adj (fun hne => sStage_le_of_open hw (h.sent hne))
  · exact ⟨by simp only [h.same.sendChanOpen, h.same.sendState]; exact hw.chanOpen,
           by simp only [h.same.sendState, h.same.sendBuf]; exact hw.drained⟩
  · intro dt bs hm
    exact absurd hm (dataOf_nil_not_mem ms (allAdjust_dataOf _ h.adj) dt bs)
  · intro hop; simp only [h.same.sendChanOpen] at hop; exact h.winEq hop
  · simp [rStage, h.same.recvState]
  · intro hop; simp only [h.same.sendChanOpen] at hop; exact hop
  · intro hh; have := h.half hh; simp only [h.same.initWindow]; exact this

/-! ### `_flush_recv_buf` -/

theorem writeEof_spec (c c' : Chan) (ms : List Msg) (hw : WFs c) (h : writeEof c = some (c', ms)) :
    Eff c c' ms [] ∧ c'.recvState = c.recvState ∧ c'.recvBuf = c.recvBuf ∧ c'.recvPaused = c.recvPaused ∧
    c'.recvWindow = c.recvWindow ∧ c'.pauseAfter = c.pauseAfter ∧ c'.recvEofPending = c.recvEofPending ∧
    ((c.sendBuf = [] ∨ c.sendWindow = 0 ∨ c.sendPktsize = 0) →
      (c'.sendBuf = [] ∨ c'.sendWindow = 0 ∨ c'.sendPktsize = 0)) ∧ (PendOK c → PendOK c') ∧
    (c'.sendEofPending = true → c.sendEofPending = true) ∧
    ((SendWaiting c → SendWaiting c') ∧ (c.sendState = .opn → c'.sendState = .eof → Msg.eof ∈ ms)) := by
  unfold writeEof at h
  split at h
  · rename_i hs
    have hw0 : WFs { c with sendState := .eofPending } :=
      ⟨by simp only [ne_eq, reduceCtorEq, not_false_eq_true, iff_true]; exact hw.chanOpen.mpr (by simp [hs]),
       by simp⟩
    have sp := flushSend_spec _ _ _ hw0 h
    have e := sp.eff hw0
    refine ⟨⟨⟨e.cfg.1, e.cfg.2, e.cfg.3, e.cfg.4, e.cfg.5⟩, e.sendStream, e.sendWindow, ?_, e.wfs, e.pktBound, e.recvStream, e.winGe, e.winEq, e.rstage,
      ?_, e.half, ?_⟩, sp.same.recvState, sp.same.recvBuf, sp.same.recvPaused, sp.same.recvWindow,
      sp.same.pauseAfter, sp.same.recvEofPending, fun _ => sp.exit, fun _ => sp.pendBuf, sp.flagMono,
      ⟨fun hwt => by rcases hwt with h1 | ⟨h1, _⟩ <;> (rw [hs] at h1; cases h1), fun _ he => by
        rcases sp.waiting (Or.inl rfl) with h1 | h1
        · rcases h1 with h1 | ⟨h1, _⟩ <;> (rw [he] at h1; cases h1)
        · exact h1⟩⟩
    · have : sStage c = sStage { c with sendState := .eofPending } := by simp [sStage, hs]
      rw [this]; exact e.path
    · intro _; exact hw.chanOpen.mpr (by simp [hs])
    · rcases sp.trans with ht | ⟨_, ht⟩ | ⟨ht, _⟩
      · right; left; exact ⟨hs, Or.inl ht⟩
      · right; left; exact ⟨hs, Or.inr ht⟩
      · simp at ht
  · simp only [Option.some.injEq, Prod.mk.injEq] at h
    obtain ⟨rfl, rfl⟩ := h
    rename_i hs
    exact ⟨Eff.refl c hw, rfl, rfl, rfl, rfl, rfl, rfl, id, id, id, id, fun h1 => absurd h1 hs⟩

structure EofStepSpec (c c' : Chan) (ms : List Msg) (os : List Out) : Prop where
  eff : Eff c c' ms os
  recvBuf : c'.recvBuf = c.recvBuf
  recvPaused : c'.recvPaused = c.recvPaused
  pauseAfter : c'.pauseAfter = c.pauseAfter
  recvEofPending : c'.recvEofPending = c.recvEofPending
  pend : PendOK c → PendOK c'
  sendFlagMono : c'.sendEofPending = true → c.sendEofPending = true
  sendProg : (SendWaiting c → SendWaiting c') ∧ (c.sendState = .opn → c'.sendState = .eof → Msg.eof ∈ ms)
  exit : (c.sendBuf = [] ∨ c.sendWindow = 0 ∨ c.sendPktsize = 0) →
    (c'.sendBuf = [] ∨ c'.sendWindow = 0 ∨ c'.sendPktsize = 0)
  fired : os = [.eof] ∧ c.recvState = .eofPending ∧ c'.recvState = .eof ∧ c.recvBuf = [] ∧ c.recvPaused ≠ .starting ∨
          os = [] ∧ c' = c ∧ ms = [] ∧ ¬ (c.recvBuf = [] ∧ c.recvPaused ≠ .starting ∧ c.recvState = .eofPending)

theorem eofStep_spec (c c' : Chan) (ms : List Msg) (os : List Out) (hw : WFs c)
    (h : eofStep c = some (c', ms, os)) : EofStepSpec c c' ms os := by
  unfold eofStep at h
  split at h
  · rename_i hc
    obtain ⟨hb, hp, hs⟩ := hc
    have hb' : c.recvBuf = [] := by simpa [List.isEmpty_iff] using hb
    have hw2 : WFs { c with recvState := .eof } := ⟨hw.chanOpen, hw.drained⟩
    have e0 : Eff c { c with recvState := .eof } [] [] := by
      refine ⟨⟨rfl, rfl, rfl, rfl, rfl⟩, rfl, by simp [dataOf, bufBytes], by simp [LinkOK, sStage], hw2, by simp, rfl,
        by simp [dataOuts, bufBytes, adjustSum], by simp [dataOuts, bufBytes, adjustSum], ?_, id, id, Or.inl rfl⟩
      simp [rStage, hs]
    dsimp only at h
    split at h
    · split at h
      · simp at h
      · rename_i c3 ms3 hwe
        simp only [Option.some.injEq, Prod.mk.injEq] at h
        obtain ⟨rfl, rfl, rfl⟩ := h
        obtain ⟨e1, h1, h2, h3, h4, h5, h5b, h6, h7, h8, h9⟩ := writeEof_spec _ _ _ hw2 hwe
        have e := e0.trans e1 e1.sendTrans
        simp only [List.nil_append] at e
        have e' : Eff c c3 ms3 [.eof] := by
          refine ⟨e.cfg, e.sendStream, e.sendWindow, e.path, e.wfs, e.pktBound, ?_, ?_, ?_, e.rstage, e.openMono,
            e.half, e.sendTrans⟩
          · simpa [dataOuts] using e.recvStream
          · simpa [dataOuts] using e.winGe
          · simpa [dataOuts] using e.winEq
        exact ⟨e', h2, h3, h5, h5b, h7, h8, h9, h6, Or.inl ⟨rfl, hs, h1, hb', hp⟩⟩
    · simp only [Option.some.injEq, Prod.mk.injEq] at h
      obtain ⟨rfl, rfl, rfl⟩ := h
      have e' : Eff c { c with recvState := .eof } [] [.eof] := by
        refine ⟨e0.cfg, e0.sendStream, e0.sendWindow, e0.path, e0.wfs, e0.pktBound, ?_, ?_, ?_, e0.rstage,
          e0.openMono, e0.half, e0.sendTrans⟩
        · simpa [dataOuts] using e0.recvStream
        · simpa [dataOuts] using e0.winGe
        · simpa [dataOuts] using e0.winEq
      exact ⟨e', rfl, rfl, rfl, rfl, id, id, ⟨id, fun h1 h2 => by rw [h1] at h2; cases h2⟩, id, Or.inl ⟨rfl, hs, rfl, hb', hp⟩⟩
  · rename_i hc
    simp only [Option.some.injEq, Prod.mk.injEq] at h
    obtain ⟨rfl, rfl, rfl⟩ := h
    refine ⟨Eff.refl c hw, rfl, rfl, rfl, rfl, id, id, ⟨id, fun h1 h2 => by rw [h1] at h2; cases h2⟩, id, Or.inr ⟨rfl, rfl, rfl, ?_⟩⟩
    intro ⟨a, b, d⟩
    exact hc ⟨by simp [a], b, d⟩

structure CloseStepSpec (c c' : Chan) (os : List Out) : Prop where
  eff : Eff c c' [] os
  same : SameSend c { c' with recvState := c.recvState, recvEofPending := c.recvEofPending }
  recvBuf : c'.recvBuf = c.recvBuf
  recvPaused : c'.recvPaused = c.recvPaused
  recvWindow : c'.recvWindow = c.recvWindow
  pauseAfter : c'.pauseAfter = c.pauseAfter
  fired : (c.recvState = .closePending ∧ c'.recvState = .closed ∧ c.recvBuf = [] ∧ c'.recvEofPending = false ∧
            ((c.recvEofPending = true ∧ os = [.eof, .lost]) ∨ (c.recvEofPending = false ∧ os = [.lost]))) ∨
          os = [] ∧ c' = c ∧ ¬ (c.recvBuf = [] ∧ c.recvState = .closePending)

theorem closeStep_spec (c : Chan) (hw : WFs c) : CloseStepSpec c (closeStep c).1 (closeStep c).2 := by
  unfold closeStep
  split
  · rename_i hc
    obtain ⟨hb, hs⟩ := hc
    have hb' : c.recvBuf = [] := by simpa [List.isEmpty_iff] using hb
    simp only
    refine ⟨?_, ⟨rfl, rfl, rfl, rfl, rfl, rfl, rfl, rfl, rfl, rfl, rfl, rfl⟩, rfl, rfl, rfl, rfl,
      Or.inl ⟨hs, rfl, hb', rfl, ?_⟩⟩
    · refine ⟨⟨rfl, rfl, rfl, rfl, rfl⟩, rfl, by simp [dataOf, bufBytes], by simp [LinkOK, sStage],
        ⟨hw.chanOpen, hw.drained⟩, by simp, ?_, ?_, ?_, ?_, id, id, Or.inl rfl⟩
      · cases c.recvEofPending <;> simp [dataOuts]
      · cases c.recvEofPending <;> simp [dataOuts, bufBytes, adjustSum]
      · cases c.recvEofPending <;> simp [dataOuts, bufBytes, adjustSum]
      · simp [rStage, hs]
    · cases hf : c.recvEofPending
      · right; exact ⟨rfl, by simp⟩
      · left; exact ⟨rfl, by simp⟩
  · rename_i hc
    simp only
    refine ⟨Eff.refl c hw, SameSend.refl c, rfl, rfl, rfl, rfl, Or.inr ⟨rfl, rfl, ?_⟩⟩
    intro ⟨a, b⟩
    exact hc ⟨by simp [a], b⟩

/-- the possible tails of the callbacks of one `_flush_recv_buf` -/
def OutTail (tl : List Out) : Prop := tl = [] ∨ tl = [.eof] ∨ tl = [.lost] ∨ tl = [.eof, .lost]

structure FlushRecvSpec (c c' : Chan) (ms : List Msg) (os : List Out) : Prop where
  eff : Eff c c' ms os
  exit : (c.sendBuf = [] ∨ c.sendWindow = 0 ∨ c.sendPktsize = 0) →
    (c'.sendBuf = [] ∨ c'.sendWindow = 0 ∨ c'.sendPktsize = 0)
  unpaused : c'.recvPaused = .no → c'.recvBuf = []
  eofP : c'.recvState = .eofPending → c'.recvPaused ≠ .no
  closeP : c'.recvState = .closePending → c'.recvPaused ≠ .no
  closePB : c'.recvState = .closePending → c'.recvBuf ≠ []
  closedR : (c.recvState = .closed → c.recvBuf = []) → c'.recvState = .closed → c'.recvBuf = []
  pausedMono : c'.recvPaused = .no → c.recvPaused = .no
  pausedStart : c'.recvPaused = .starting → c.recvPaused = .starting
  eofOut : Out.eof ∈ os → c'.recvBuf = [] ∧
    ((c.recvState = .eofPending ∧ c'.recvState = .eof) ∨
     (c.recvState = .closePending ∧ c.recvEofPending = true ∧ c'.recvState = .closed))
  eofState : c'.recvState = .eof → c.recvState = .eof ∨ Out.eof ∈ os
  lostOut : Out.lost ∈ os → c'.recvState = .closed ∧ c.recvState = .closePending
  recvTrans : c'.recvState = c.recvState ∨ (c.recvState = .eofPending ∧ c'.recvState = .eof) ∨
    (c.recvState = .closePending ∧ c'.recvState = .closed)
  shape : ∃ ds tl, os = ds ++ tl ∧ allDataOuts ds ∧ OutTail tl
  noData : c.recvBuf = [] → OutTail os
  bufLen : c'.recvBuf.length ≤ c.recvBuf.length
  flagMono : c'.recvEofPending = true → c.recvEofPending = true
  flagKeep : c'.recvState ≠ .closed → c'.recvEofPending = c.recvEofPending
  flagOut : c.recvState = .closePending → c.recvEofPending = true → c'.recvState = .closed → Out.eof ∈ os
  pend : PendOK c → PendOK c'
  sendFlagMono : c'.sendEofPending = true → c.sendEofPending = true
  sendProg : (SendWaiting c → SendWaiting c') ∧ (c.sendState = .opn → c'.sendState = .eof → Msg.eof ∈ ms)

theorem flushRecv_spec (c c' : Chan) (ms : List Msg) (os : List Out) (hw : WFs c)
    (h : flushRecv c = some (c', ms, os)) : FlushRecvSpec c c' ms os := by
  unfold flushRecv at h
  have hd := drainRecv_spec c.recvBuf c
  generalize drainRecv c c.recvBuf = r at *
  obtain ⟨c1, left, ms1, os1⟩ := r
  simp only at hd h
  have e1 := hd.eff hw
  split at h
  · simp at h
  · rename_i c2 ms2 os2 hes
    simp only [Option.some.injEq, Prod.mk.injEq] at h
    obtain ⟨rfl, rfl, rfl⟩ := h
    have s2 := eofStep_spec _ _ _ _ e1.wfs hes
    have s3 := closeStep_spec c2 s2.eff.wfs
    generalize closeStep c2 = r3 at *
    obtain ⟨c3, os3⟩ := r3
    simp only at s3 ⊢
    have hos1 := allDataOuts_not_mem os1 hd.outs
    -- recv-side bookkeeping of the intermediate states
    have hb1 : ({ c1 with recvBuf := left } : Chan).recvBuf = left := rfl
    have hp1 : ({ c1 with recvBuf := left } : Chan).recvPaused = c1.recvPaused := rfl
    have hr1 : ({ c1 with recvBuf := left } : Chan).recvState = c.recvState := hd.same.recvState
    have hb2 : c2.recvBuf = left := s2.recvBuf
    have hp2 : c2.recvPaused = c1.recvPaused := s2.recvPaused
    have hb3 : c3.recvBuf = left := s3.recvBuf.trans hb2
    have hp3 : c3.recvPaused = c1.recvPaused := s3.recvPaused.trans hp2
    have hst3 : c3.sendState = c2.sendState := s3.same.sendState
    have e12 := e1.trans s2.eff (by
      have := s2.eff.sendTrans
      have h0 : ({ c1 with recvBuf := left } : Chan).sendState = c.sendState := hd.same.sendState
      rw [h0] at this; exact this)
    have e123 := e12.trans s3.eff (by rw [hst3]; exact e12.sendTrans)
    simp only [List.append_nil] at e123
    have hf1 : ({ c1 with recvBuf := left } : Chan).recvEofPending = c.recvEofPending := hd.same.recvEofPending
    have hf2 : c2.recvEofPending = c.recvEofPending := s2.recvEofPending.trans hf1
    -- the three ways the tail of the call can go
    have hcases :
        (os2 = [.eof] ∧ os3 = [] ∧ c.recvState = .eofPending ∧ c3.recvState = .eof ∧ left = [] ∧
            c3.recvEofPending = c.recvEofPending ∧ c1.recvPaused ≠ .starting) ∨
        (os2 = [] ∧ c.recvState = .closePending ∧ c3.recvState = .closed ∧ left = [] ∧ c3.recvEofPending = false ∧
            ((c.recvEofPending = true ∧ os3 = [.eof, .lost]) ∨ (c.recvEofPending = false ∧ os3 = [.lost]))) ∨
        (os2 = [] ∧ os3 = [] ∧ c3.recvState = c.recvState ∧ c3.recvEofPending = c.recvEofPending ∧
            ¬ (left = [] ∧ c1.recvPaused ≠ .starting ∧ c.recvState = .eofPending) ∧
            ¬ (left = [] ∧ c.recvState = .closePending)) := by
      rcases s2.fired with ⟨h2o, h2a, h2b, h2c, h2d⟩ | ⟨h2o, h2, _, hn2⟩
      · left
        rcases s3.fired with ⟨h3a, _⟩ | ⟨h3o, h3, _⟩
        · rw [h2b] at h3a; cases h3a
        · subst h3
          exact ⟨h2o, h3o, hr1 ▸ h2a, h2b, h2c, hf2, h2d⟩
      · subst h2
        rcases s3.fired with ⟨h3a, h3b, h3c, h3d, h3e⟩ | ⟨h3o, h3, hn3⟩
        · right; left
          refine ⟨h2o, hr1 ▸ h3a, h3b, h3c, h3d, ?_⟩
          rw [← hf1]; exact h3e
        · subst h3
          right; right
          refine ⟨h2o, h3o, hr1, hf1, ?_, ?_⟩
          · intro ⟨x1, x2, x3⟩; exact hn2 ⟨x1, x2, hr1.trans x3⟩
          · intro ⟨x1, x2⟩; exact hn3 ⟨x1, hr1.trans x2⟩
    have hleft_of_no : c1.recvPaused = .no → left = [] := by
      intro hp
      rcases hd.exit with hl | hl
      · exact hl
      · exact absurd hp hl
    refine ⟨by simpa [List.append_assoc] using e123, ?_, ?_, ?_, ?_, ?_, ?_, ?_, ?_, ?_, ?_, ?_, ?_, ?_, ?_, ?_, ?_, ?_, ?_, ?_, ?_, ?_⟩
    · intro hx
      have h1 : ({ c1 with recvBuf := left } : Chan).sendBuf = [] ∨ ({ c1 with recvBuf := left } : Chan).sendWindow = 0 ∨
          ({ c1 with recvBuf := left } : Chan).sendPktsize = 0 := by
        show c1.sendBuf = [] ∨ c1.sendWindow = 0 ∨ c1.sendPktsize = 0
        rw [hd.same.sendBuf, hd.same.sendWindow, hd.same.sendPktsize]; exact hx
      have h2 := s2.exit h1
      have hsb := s3.same.sendBuf; have hw3 := s3.same.sendWindow; have hp3' := s3.same.sendPktsize
      simp only at hsb hw3 hp3'
      rw [hsb, hw3, hp3']; exact h2
    · intro hp
      rw [hp3] at hp
      rw [hb3]; exact hleft_of_no hp
    · intro hs hp
      rw [hp3] at hp
      have hleft := hleft_of_no hp
      rcases hcases with ⟨_, _, _, h3, _⟩ | ⟨_, _, h3, _⟩ | ⟨_, _, h3, _, hn, _⟩
      · rw [h3] at hs; cases hs
      · rw [h3] at hs; cases hs
      · exact hn ⟨hleft, by rw [hp]; simp, h3 ▸ hs⟩
    · intro hs hp
      rw [hp3] at hp
      have hleft := hleft_of_no hp
      rcases hcases with ⟨_, _, _, h3, _⟩ | ⟨_, _, h3, _⟩ | ⟨_, _, h3, _, _, hn⟩
      · rw [h3] at hs; cases hs
      · rw [h3] at hs; cases hs
      · exact hn ⟨hleft, h3 ▸ hs⟩
    · intro hs hb
      rw [hb3] at hb
      rcases hcases with ⟨_, _, _, h3, _⟩ | ⟨_, _, h3, _⟩ | ⟨_, _, h3, _, _, hn⟩
      · rw [h3] at hs; cases hs
      · rw [h3] at hs; cases hs
      · exact hn ⟨hb, h3 ▸ hs⟩
    · intro hpre hs
      rw [hb3]
      rcases hcases with ⟨_, _, _, h3, _⟩ | ⟨_, _, _, hl, _⟩ | ⟨_, _, h3, _⟩
      · rw [h3] at hs; cases hs
      · exact hl
      · have hcb := hpre (h3 ▸ hs)
        have := hd.leftLen
        rw [hcb] at this
        exact List.length_eq_zero_iff.mp (by simpa using this)
    · intro hp; rw [hp3] at hp; exact hd.pausedMono hp
    · intro hp; rw [hp3] at hp; exact hd.pausedStart hp
    · intro hm
      rcases hcases with ⟨_, _, h1, h3, hl, _⟩ | ⟨h2o, h1, h3, hl, _, ⟨hf, _⟩ | ⟨_, h3o⟩⟩ | ⟨h2o, h3o, _⟩
      · exact ⟨hb3.trans hl, Or.inl ⟨h1, h3⟩⟩
      · exact ⟨hb3.trans hl, Or.inr ⟨h1, hf, h3⟩⟩
      · exfalso
        rw [h2o, h3o] at hm
        rcases List.mem_append.mp hm with hm | hm
        · rcases List.mem_append.mp hm with hm | hm
          · exact hos1.1 hm
          · simp at hm
        · simp at hm
      · exfalso
        rw [h2o, h3o] at hm
        simp only [List.append_nil] at hm
        exact hos1.1 hm
    · intro hs
      rcases hcases with ⟨h2o, _, _⟩ | ⟨_, _, h3, _⟩ | ⟨_, _, h3, _⟩
      · right; rw [h2o]; simp
      · rw [h3] at hs; cases hs
      · left; rw [← h3]; exact hs
    · intro hm
      rcases hcases with ⟨h2o, h3o, _⟩ | ⟨_, h1, h3, _⟩ | ⟨h2o, h3o, _⟩
      · exfalso
        rw [h2o, h3o] at hm
        simp only [List.append_nil] at hm
        rcases List.mem_append.mp hm with hm | hm
        · exact hos1.2 hm
        · simp at hm
      · exact ⟨h3, h1⟩
      · exfalso
        rw [h2o, h3o] at hm
        simp only [List.append_nil] at hm
        exact hos1.2 hm
    · rcases hcases with ⟨_, _, h1, h3, _⟩ | ⟨_, h1, h3, _⟩ | ⟨_, _, h3, _⟩
      · right; left; exact ⟨h1, h3⟩
      · right; right; exact ⟨h1, h3⟩
      · left; exact h3
    · refine ⟨os1, os2 ++ os3, by simp [List.append_assoc], hd.outs, ?_⟩
      unfold OutTail
      rcases hcases with ⟨h2o, h3o, _⟩ | ⟨h2o, _, _, _, _, ⟨_, h3o⟩ | ⟨_, h3o⟩⟩ | ⟨h2o, h3o, _⟩ <;>
        (rw [h2o, h3o]; simp)
    · intro hcb
      have hcnt := hd.count
      rw [hcb] at hcnt
      have ho1 : os1 = [] := List.length_eq_zero_iff.mp (by simp only [List.length_nil] at hcnt; omega)
      subst ho1
      unfold OutTail
      rcases hcases with ⟨h2o, h3o, _⟩ | ⟨h2o, _, _, _, _, ⟨_, h3o⟩ | ⟨_, h3o⟩⟩ | ⟨h2o, h3o, _⟩ <;>
        (rw [h2o, h3o]; simp)
    · rw [hb3]; exact hd.leftLen
    · intro hf
      rcases hcases with ⟨_, _, _, _, _, h3, _⟩ | ⟨_, _, _, _, h3, _⟩ | ⟨_, _, _, h3, _⟩
      · rw [← h3]; exact hf
      · rw [h3] at hf; cases hf
      · rw [← h3]; exact hf
    · intro hnc
      rcases hcases with ⟨_, _, _, _, _, h3, _⟩ | ⟨_, _, h3, _⟩ | ⟨_, _, _, h3, _⟩
      · exact h3
      · exact absurd h3 hnc
      · exact h3
    · intro hs hf hcl
      rcases hcases with ⟨_, _, h1, _⟩ | ⟨_, _, _, _, _, ⟨_, h3o⟩ | ⟨hf0, _⟩⟩ | ⟨_, _, h3, _⟩
      · rw [hs] at h1; cases h1
      · rw [h3o]; simp
      · rw [hf] at hf0; cases hf0
      · rw [h3, hs] at hcl; cases hcl
    · intro hp
      have h1 : PendOK ({ c1 with recvBuf := left } : Chan) := by
        unfold PendOK at *
        show c1.sendState = .eofPending ∨ c1.sendState = .closePending → c1.sendBuf ≠ []
        rw [hd.same.sendState, hd.same.sendBuf]; exact hp
      have h2 := s2.pend h1
      unfold PendOK at *
      have a := s3.same.sendState; have b := s3.same.sendBuf
      simp only at a b
      rw [a, b]; exact h2
    · intro hf
      have a := s3.same.sendEofPending
      simp only at a
      rw [a] at hf
      have := s2.sendFlagMono hf
      have b : ({ c1 with recvBuf := left } : Chan).sendEofPending = c.sendEofPending := hd.same.sendEofPending
      rw [← b]; exact this
    · have hs1 : ({ c1 with recvBuf := left } : Chan).sendState = c.sendState := hd.same.sendState
      have hf1 : ({ c1 with recvBuf := left } : Chan).sendEofPending = c.sendEofPending := hd.same.sendEofPending
      have hs3 := s3.same.sendState; have hf3 := s3.same.sendEofPending
      simp only at hs3 hf3
      refine ⟨?_, ?_⟩
      · intro hwt
        have h1 : SendWaiting ({ c1 with recvBuf := left } : Chan) := by
          unfold SendWaiting at *; rw [hs1, hf1]; exact hwt
        have h2 := s2.sendProg.1 h1
        unfold SendWaiting at *; rw [hs3, hf3]; exact h2
      · intro ho he
        rw [hs3] at he
        have := s2.sendProg.2 (hs1.trans ho) he
        exact List.mem_append_right _ this

end AsyncsshModel.Channel
