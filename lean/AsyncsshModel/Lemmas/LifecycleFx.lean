import AsyncsshModel.Lemmas.Lifecycle
/-
  Effect summaries of the channel methods, in the form the connection-level invariants need:
  `Plain c r`   — an ordinary method call turned `c` into `r.c` with actions `r.acts`
  `Closing c r` — `_cleanup` / `process_connection_close`
-/
namespace AsyncsshModel.Lifecycle

/-- effect summary of an ordinary channel method (anything but `_cleanup`, the open confirmation and the
    resumption of `create()` with a successful open) on the fields the connection-level invariants talk about -/
structure Plain (c : Chan) (r : R) : Prop where
  inv : CInv r.c
  reg : r.c.reg = c.reg
  ow : r.c.openWaiter = true → c.openWaiter = true
  wv : r.c.wakeVal.isSome = true → c.wakeVal.isSome = true ∨ Act.wake ∈ r.acts
  okv : r.c.wakeVal = some .openOk → c.wakeVal = some .openOk
  sess : r.c.session = true → c.session = true ∨ r.c.reg = true
  sched : ∀ e, Act.sched e ∈ r.acts → r.c.openWaiter = false

theorem plain_refl (c : Chan) (h : CInv c) : Plain c (R.ok c) :=
  ⟨h, rfl, id, fun x => Or.inl x, id, fun x => Or.inl x, by simp [R.ok]⟩

theorem plain_fail (c : Chan) (h : CInv c) (e : Exc) : Plain c (R.fail c e) :=
  ⟨h, rfl, id, fun x => Or.inl x, id, fun x => Or.inl x, by simp [R.fail]⟩

/-- sequencing of two ordinary steps; `Q` is an extra fact about the intermediate state -/
theorem plain_andThen2 {c : Chan} {r : R} {f : Chan → R} (Q : Chan → Prop) (h1 : Plain c r) (hq : Q r.c)
    (hf : ∀ c', CInv c' → Q c' → Plain c' (f c')) : Plain c (r.andThen f) := by
  unfold R.andThen
  split
  · exact h1
  · have h2 := hf r.c h1.inv hq
    refine ⟨h2.inv, h2.reg.trans h1.reg, fun x => h1.ow (h2.ow x), ?_, fun x => h1.okv (h2.okv x), ?_, ?_⟩
    · intro x
      rcases h2.wv x with y | y
      · rcases h1.wv y with z | z
        · exact Or.inl z
        · exact Or.inr (List.mem_append_left _ z)
      · exact Or.inr (List.mem_append_right _ y)
    · intro x
      rcases h2.sess x with y | y
      · rcases h1.sess y with z | z
        · exact Or.inl z
        · right; rw [h2.reg]; exact z
      · exact Or.inr y
    · intro e he
      simp only at he
      rcases List.mem_append.mp he with y | y
      · have := h1.sched e y
        cases hh : (f r.c).c.openWaiter with
        | false => rfl
        | true => rw [h2.ow hh] at this; exact absurd this (by simp)
      · exact h2.sched e y

theorem plain_andThen {c : Chan} {r : R} {f : Chan → R} (h1 : Plain c r)
    (hf : ∀ c', CInv c' → Plain c' (f c')) : Plain c (r.andThen f) :=
  plain_andThen2 (fun _ => True) h1 trivial (fun c' hc _ => hf c' hc)

/-- prefixing packets to send does not change the summary -/
theorem plain_pre {c : Chan} {r : R} (acts : List Act) (hs : ∀ a ∈ acts, ∃ rc m, a = Act.send rc m)
    (h : Plain c r) : Plain c (r.pre acts) := by
  refine ⟨h.inv, h.reg, h.ow, ?_, h.okv, h.sess, ?_⟩
  · intro x
    rcases h.wv x with y | y
    · exact Or.inl y
    · exact Or.inr (List.mem_append_right _ y)
  · intro e he
    simp only [R.pre] at he
    rcases List.mem_append.mp he with y | y
    · obtain ⟨rc, m, hm⟩ := hs _ y; cases hm
    · exact h.sched e y

theorem sendPkt_sends (c : Chan) (m : CMsg) : ∀ a ∈ sendPkt c m, ∃ rc m', a = Act.send rc m' := by
  intro a ha
  unfold sendPkt at ha
  split at ha
  · simp at ha; exact ⟨_, _, ha⟩
  · simp at ha

theorem replicate_sends (c : Chan) (m : CMsg) (k : Nat) :
    ∀ a ∈ (List.replicate k ()).flatMap (fun _ => sendPkt c m), ∃ rc m', a = Act.send rc m' := by
  intro a ha
  obtain ⟨_, _, h⟩ := List.mem_flatMap.mp ha
  exact sendPkt_sends c m a h

/-- a step that only sends packets and touches none of the summarised fields -/
theorem plain_of_fields {c : Chan} {r : R} (hi : CInv r.c) (hs : ∀ a ∈ r.acts, ∃ rc m, a = Act.send rc m)
    (h1 : r.c.reg = c.reg) (h2 : r.c.openWaiter = c.openWaiter) (h3 : r.c.wakeVal = c.wakeVal)
    (h4 : r.c.session = c.session) : Plain c r := by
  refine ⟨hi, h1, by simp [h2], by rw [h3]; exact fun x => Or.inl x, by simp [h3], by rw [h4]; exact fun x => Or.inl x, ?_⟩
  intro e he
  obtain ⟨rc, m, hm⟩ := hs _ he
  cases hm

macro "fields" "[" ds:Lean.Parser.Tactic.simpLemma,* "]" : tactic =>
  `(tactic| (simp only [$ds,*, R.ok, R.fail, R.pre]; (repeat' split) <;> rfl))

theorem closeSend_plain (c : Chan) (h : CInv c) : Plain c (closeSend c) := by
  refine ⟨closeSend_inv c h, ?_, ?_, ?_, ?_, ?_, ?_⟩ <;> simp only [closeSend, R.ok, sendPkt] <;> grind

theorem discardRecv_plain (c : Chan) (h : CInv c) : Plain c (discardRecv c) := by
  have how := h.ow
  have hsends : ∀ a ∈ (if 0 < c.recvBuf then sendPkt c (.adjust c.recvBuf) else []), ∃ rc m, a = Act.send rc m := by
    intro a; split
    · exact sendPkt_sends _ _ a
    · simp
  refine ⟨discardRecv_inv c h, ?_, ?_, ?_, ?_, ?_, ?_⟩
  · simp only [discardRecv]; split <;> rfl
  · simp only [discardRecv]; split <;> exact id
  · simp only [discardRecv]; split <;> exact fun x => Or.inl x
  · simp only [discardRecv]; split <;> exact id
  · simp only [discardRecv]; split <;> exact fun x => Or.inl x
  · intro e he
    simp only [discardRecv] at he ⊢
    split
    · rename_i hcp
      simp only [ok_c]
      cases ho : c.openWaiter with
      | false => rfl
      | true => have := (how ho).2.2.2.1; rw [this] at hcp; cases hcp
    · rename_i hcp
      rw [if_neg hcp] at he
      obtain ⟨rc, m, hm⟩ := hsends _ he
      cases hm

theorem closeSend_sends (c : Chan) : ∀ a ∈ (closeSend c).acts, ∃ rc m, a = Act.send rc m := by
  simp only [closeSend]
  split
  · exact sendPkt_sends _ _
  · simp [R.ok]

/-- `CInv` only depends on the life-cycle fields; buffers, windows and pause flags are free -/
theorem cinv_congr {c c' : Chan} (h : CInv c)
    (e1 : c'.session = c.session) (e2 : c'.trace = c.trace) (e3 : c'.openWaiter = c.openWaiter)
    (e4 : c'.reg = c.reg) (e5 : c'.stage = c.stage) (e6 : c'.sendSt = c.sendSt) (e7 : c'.recvSt = c.recvSt)
    (e8 : c'.wakeVal = c.wakeVal) (e9 : c'.reqWaiter = c.reqWaiter) (e10 : c'.sendChan = c.sendChan)
    (e11 : c'.closeEvent = c.closeEvent) (e12 : c'.wcPending = c.wcPending) (e13 : c'.fo = c.fo)
    (e14 : c'.recvEofPending = c.recvEofPending) : CInv c' := by
  obtain ⟨h1, h2, h3, h4, h5, h6, h7, h8, h9, h10, h11, h12, h13, h14⟩ := h
  constructor <;> simp only [e1, e2, e3, e4, e5, e6, e7, e8, e9, e10, e11, e12, e13, e14] <;> assumption

/-- restate a summary for a definitionally equal start state -/
theorem Plain.cast {c c0 : Chan} {r : R} (h : Plain c0 r) (e1 : c0.reg = c.reg) (e2 : c0.openWaiter = c.openWaiter)
    (e3 : c0.wakeVal = c.wakeVal) (e4 : c0.session = c.session) : Plain c r :=
  ⟨h.inv, h.reg.trans e1, fun x => e2 ▸ h.ow x, fun x => e3 ▸ h.wv x, fun x => e3 ▸ h.okv x,
   fun x => e4 ▸ h.sess x, h.sched⟩

theorem pauseResumeWriting_acts (c : Chan) : (pauseResumeWriting c).acts = [] := by
  simp only [pauseResumeWriting]; (repeat' split) <;> rfl

theorem pauseResumeWriting_plain (c : Chan) (h : CInv c) : Plain c (pauseResumeWriting c) := by
  refine plain_of_fields (pauseResumeWriting_inv c h) ?_ (by fields [pauseResumeWriting])
    (by fields [pauseResumeWriting]) (by fields [pauseResumeWriting]) (by fields [pauseResumeWriting])
  intro a ha
  rw [pauseResumeWriting_acts] at ha
  cases ha

theorem closeSendEof_sends (c : Chan) : ∀ a ∈ (closeSendEof c).acts, ∃ rc m, a = Act.send rc m := by
  simp only [closeSendEof]
  intro a
  split
  · intro ha
    rcases List.mem_append.mp ha with y | y
    · exact sendPkt_sends _ _ a y
    · exact closeSend_sends _ a y
  · exact closeSend_sends _ a

theorem flushSendTail_plain (c : Chan) (h : CInv c) : Plain c (flushSendTail c) := by
  refine plain_of_fields (flushSendTail_inv c h) ?_ (by fields [flushSendTail, closeSendEof, closeSend])
    (by fields [flushSendTail, closeSendEof, closeSend]) (by fields [flushSendTail, closeSendEof, closeSend])
    (by fields [flushSendTail, closeSendEof, closeSend])
  simp only [flushSendTail]
  intro a
  split
  · split
    · exact sendPkt_sends _ _ a
    · exact closeSendEof_sends _ a
    · simp [R.ok]
  · simp [R.ok]

theorem flushSendBuf_plain (c : Chan) (h : CInv c) : Plain c (flushSendBuf c) := by
  unfold flushSendBuf
  refine plain_andThen (plain_pre _ (replicate_sends _ _ _) ?_) flushSendTail_plain
  have hi : CInv { c with sendBuf := c.sendBuf - min c.sendBuf c.sendWin, sendWin := c.sendWin - min c.sendBuf c.sendWin } :=
    cinv_congr h rfl rfl rfl rfl rfl rfl rfl rfl rfl rfl rfl rfl rfl rfl
  exact (pauseResumeWriting_plain _ hi).cast rfl rfl rfl rfl

theorem writeEof_plain (c : Chan) (h : CInv c) : Plain c (writeEof c) := by
  unfold writeEof
  split
  · have hi : CInv { c with sendSt := .eofPending } := by
      obtain ⟨h1, h2, h3, h4, h5, h6, h7, h8, h9, h10, h11, h12, h13, h14⟩ := h
      constructor <;> grind
    have := flushSendBuf_plain _ hi
    exact ⟨this.inv, this.reg, this.ow, this.wv, this.okv, this.sess, this.sched⟩
  · exact plain_refl c h

theorem deliverOne_plain (c : Chan) (h : CInv c) : Plain c (deliverOne c) := by
  refine plain_of_fields (deliverOne_inv c h) ?_ (by fields [deliverOne]) (by fields [deliverOne])
    (by fields [deliverOne]) (by fields [deliverOne])
  simp only [deliverOne]
  intro a
  split <;> (simp only [R.ok]; split <;> first | exact sendPkt_sends _ _ a | simp)

theorem deliverN_plain (n : Nat) (c : Chan) (h : CInv c) : Plain c (deliverN n c) := by
  induction n generalizing c with
  | zero => exact plain_refl c h
  | succ n ih => exact plain_andThen (deliverOne_plain c h) ih

theorem flushEofPart_plain (c : Chan) (h : CInv c) : Plain c (flushEofPart c) := by
  simp only [flushEofPart]
  split
  · split
    · have hi : CInv { c with recvSt := .eof, trace := c.trace ++ [.eof] } := by
        obtain ⟨h1, h2, h3, h4, h5, h6, h7, h8, h9, h10, h11, h12, h13, h14⟩ := h
        constructor <;> grind [dfa, runDfa_snoc]
      split
      · have := writeEof_plain _ hi
        exact ⟨this.inv, this.reg, this.ow, this.wv, this.okv, this.sess, this.sched⟩
      · exact plain_of_fields hi (by simp [R.ok]) rfl rfl rfl rfl
    · have hi : CInv { c with recvSt := .eof } := by
        obtain ⟨h1, h2, h3, h4, h5, h6, h7, h8, h9, h10, h11, h12, h13, h14⟩ := h
        constructor <;> grind
      exact plain_of_fields (r := R.fail _ _) hi (by simp [R.fail]) rfl rfl rfl rfl
  · exact plain_refl c h

theorem flushClosePart_plain (c : Chan) (h : CInv c) : Plain c (flushClosePart c) := by
  have := h.ow
  refine ⟨flushClosePart_inv c h, ?_, ?_, ?_, ?_, ?_, ?_⟩ <;> simp only [flushClosePart, R.ok] <;> grind

theorem flushRecvBuf_plain (c : Chan) (h : CInv c) : Plain c (flushRecvBuf c) := by
  unfold flushRecvBuf
  refine plain_andThen (plain_andThen ?_ flushEofPart_plain) flushClosePart_plain
  split
  · have hi : CInv { c with recvBuf := 0 } := cinv_congr h rfl rfl rfl rfl rfl rfl rfl rfl rfl rfl rfl rfl rfl rfl
    have := deliverN_plain c.recvBuf _ hi
    exact ⟨this.inv, this.reg, this.ow, this.wv, this.okv, this.sess, this.sched⟩
  · exact plain_refl c h

theorem acceptData_plain (c : Chan) (h : CInv c) : Plain c (acceptData c) := by
  unfold acceptData
  split
  · exact plain_of_fields (r := R.ok _ _) h (sendPkt_sends _ _) rfl rfl rfl rfl
  · split
    · exact plain_of_fields (r := R.ok _) (cinv_congr h rfl rfl rfl rfl rfl rfl rfl rfl rfl rfl rfl rfl rfl rfl)
        (by simp [R.ok]) rfl rfl rfl rfl
    · exact deliverOne_plain c h

theorem resumeReading_plain (c : Chan) (h : CInv c) : Plain c (resumeReading c) := by
  unfold resumeReading
  split
  · have := flushRecvBuf_plain { c with paused := .no }
      (cinv_congr h rfl rfl rfl rfl rfl rfl rfl rfl rfl rfl rfl rfl rfl rfl)
    exact ⟨this.inv, this.reg, this.ow, this.wv, this.okv, this.sess, this.sched⟩
  · exact plain_refl c h

theorem pauseReading_plain (c : Chan) (h : CInv c) : Plain c (pauseReading c) :=
  plain_of_fields (r := R.ok _) (cinv_congr h rfl rfl rfl rfl rfl rfl rfl rfl rfl rfl rfl rfl rfl rfl)
    (by simp [R.ok]) rfl rfl rfl rfl

theorem startReading_plain (c : Chan) (h : CInv c) : Plain c (startReading c) := by
  unfold startReading
  split
  · have := flushRecvBuf_plain { c with paused := .no }
      (cinv_congr h rfl rfl rfl rfl rfl rfl rfl rfl rfl rfl rfl rfl rfl rfl)
    exact ⟨this.inv, this.reg, this.ow, this.wv, this.okv, this.sess, this.sched⟩
  · exact plain_refl c h

theorem processData_plain (c : Chan) (h : CInv c) : Plain c (processData c) := by
  unfold processData
  split
  · exact plain_fail c h _
  · split
    · exact plain_fail c h _
    · exact acceptData_plain c h

theorem processEof_plain (c : Chan) (h : CInv c) : Plain c (processEof c) := by
  unfold processEof
  split
  · exact plain_fail c h _
  · have hi : CInv { c with recvSt := .eofPending } := by
      obtain ⟨h1, h2, h3, h4, h5, h6, h7, h8, h9, h10, h11, h12, h13, h14⟩ := h
      constructor <;> grind
    have := flushRecvBuf_plain _ hi
    exact ⟨this.inv, this.reg, this.ow, this.wv, this.okv, this.sess, this.sched⟩

theorem processClose_plain (c : Chan) (h : CInv c) : Plain c (processClose c) := by
  unfold processClose
  split
  · exact plain_fail c h _
  · rename_i hl
    refine plain_andThen2 (fun x => x.recvSt = c.recvSt)
      (plain_andThen2 (fun x => x.recvSt = c.recvSt) (closeSend_plain c h) (closeSend_recvSt c)
        (fun c1 hc1 _ => pauseResumeWriting_plain c1 hc1)) ?_ ?_
    · unfold R.andThen
      split
      · exact closeSend_recvSt c
      · exact (pauseResumeWriting_recvSt _).trans (closeSend_recvSt c)
    intro c' hc' hq
    have hi : CInv { c' with recvEofPending := decide (c'.recvSt = .eofPending), recvSt := .closePending } := by
      obtain ⟨h1, h2, h3, h4, h5, h6, h7, h8, h9, h10, h11, h12, h13, h14⟩ := hc'
      simp only [recvLive] at hl
      constructor <;> grind
    exact (flushRecvBuf_plain _ hi).cast rfl rfl rfl rfl

theorem processAdjust_plain (n : Nat) (c : Chan) (h : CInv c) : Plain c (processAdjust c n) := by
  unfold processAdjust
  split
  · exact plain_fail c h _
  · exact (flushSendBuf_plain { c with sendWin := c.sendWin + n }
      (cinv_congr h rfl rfl rfl rfl rfl rfl rfl rfl rfl rfl rfl rfl rfl rfl)).cast rfl rfl rfl rfl

theorem reportResponse_plain (k : ReqKind) (w r : Bool) (c : Chan) (h : CInv c) :
    Plain c (reportResponse c k w r) := by
  simp only [reportResponse]
  have hsend : ∀ a ∈ (if w = true ∧ c.sendSt ≠ St.closePending ∧ c.sendSt ≠ St.closed then
      sendPkt c (if r = true then CMsg.success else CMsg.failure) else []), ∃ rc m, a = Act.send rc m := by
    intro a
    split
    · exact sendPkt_sends _ _ a
    · simp
  split
  · split
    · rename_i hs
      apply plain_pre _ hsend
      have hi : CInv { c with trace := c.trace ++ [.started] } := by
        obtain ⟨h1, h2, h3, h4, h5, h6, h7, h8, h9, h10, h11, h12, h13, h14⟩ := h
        constructor <;> grind [dfa, runDfa_snoc]
      exact (resumeReading_plain _ hi).cast rfl rfl rfl rfl
    · exact plain_of_fields (r := R.fail _ _ _) h hsend rfl rfl rfl rfl
  · exact plain_of_fields (r := R.ok _ _) h hsend rfl rfl rfl rfl

theorem handleReq_plain (k : ReqKind) (c : Chan) (h : CInv c)
    (hs : ((c.server = true ∧ (k = .pty ∨ isStart k = true)) ∨ (c.server = false ∧ k = .exitStatus)) → c.session = true) :
    Plain c (handleReq c k).1 := by
  refine plain_of_fields (handleReq_inv k c h hs) ?_ ?_ ?_ ?_ ?_ <;>
    (cases hsv : c.server <;> cases k <;> simp only [handleReq, hsv] <;> (try split) <;> simp [R.ok, R.fail])

theorem processRequest_plain (k : ReqKind) (w : Bool) (c : Chan) (h : CInv c) : Plain c (processRequest c k w) := by
  simp only [processRequest]
  split
  · exact plain_fail c h _
  · split
    · exact plain_fail c h _
    · rename_i hl hn
      refine plain_andThen (handleReq_plain k c h ?_) (fun c' hc' => reportResponse_plain k w _ c' hc')
      intro hh
      cases hs : c.session with
      | true => rfl
      | false => exact absurd ⟨by simpa using hh, hs⟩ hn

theorem processResponse_plain (ok : Bool) (c : Chan) (h : CInv c) : Plain c (processResponse c ok) := by
  refine ⟨processResponse_inv ok c h, ?_, ?_, ?_, ?_, ?_, ?_⟩ <;> simp only [processResponse, R.ok, R.fail] <;> grind

theorem processOpenFailure_plain (c : Chan) (h : CInv c) : Plain c (processOpenFailure c) := by
  refine ⟨processOpenFailure_inv c h, ?_, ?_, ?_, ?_, ?_, ?_⟩ <;>
    simp only [processOpenFailure, R.ok, R.fail] <;> grind

theorem processMsg_plain (m : CMsg) (c : Chan) (h : CInv c) : Plain c (processMsg c m) := by
  cases m with
  | data => exact processData_plain c h
  | eof => exact processEof_plain c h
  | close => exact processClose_plain c h
  | adjust n => exact processAdjust_plain n c h
  | req k w => exact processRequest_plain k w c h
  | success => exact processResponse_plain true c h
  | failure => exact processResponse_plain false c h

theorem write_plain (c : Chan) (h : CInv c) : Plain c (write c) := by
  unfold write
  split
  · exact plain_fail c h _
  · exact (flushSendBuf_plain { c with sendBuf := c.sendBuf + 1 }
      (cinv_congr h rfl rfl rfl rfl rfl rfl rfl rfl rfl rfl rfl rfl rfl rfl)).cast rfl rfl rfl rfl

theorem abort_plain (c : Chan) (h : CInv c) : Plain c (abort c) := by
  unfold abort
  refine plain_andThen ?_ ?_
  · split
    · exact closeSend_plain c h
    · exact plain_refl c h
  · intro c' hc'
    split
    · exact discardRecv_plain c' hc'
    · exact plain_refl c' hc'

theorem close_plain (c : Chan) (h : CInv c) : Plain c (close c) := by
  unfold close
  refine plain_andThen ?_ ?_
  · split
    · have hi : CInv { c with sendEofPending := decide (c.sendSt = .eofPending), sendSt := .closePending } := by
        obtain ⟨h1, h2, h3, h4, h5, h6, h7, h8, h9, h10, h11, h12, h13, h14⟩ := h
        constructor <;> grind
      exact (flushSendBuf_plain _ hi).cast rfl rfl rfl rfl
    · exact plain_refl c h
  · intro c' hc'
    split
    · exact discardRecv_plain c' hc'
    · exact plain_refl c' hc'

theorem exit_plain (c : Chan) (h : CInv c) : Plain c (exit c) := by
  unfold exit
  split
  · exact plain_pre _ (sendPkt_sends _ _) (close_plain c h)
  · exact plain_refl c h

theorem appOp_plain (o : AppOp) (c : Chan) (h : CInv c) : Plain c (appOp c o) := by
  cases o with
  | write => exact write_plain c h
  | eof => exact writeEof_plain c h
  | close => exact close_plain c h
  | abort => exact abort_plain c h
  | pause => exact pauseReading_plain c h
  | resume => exact resumeReading_plain c h
  | exit => simp only [appOp]; split; exact exit_plain c h; exact plain_refl c h
  | limits hi lo =>
    simp only [appOp, setLimits]
    have hi : CInv { c with hiWater := hi, loWater := lo } :=
      cinv_congr h rfl rfl rfl rfl rfl rfl rfl rfl rfl rfl rfl rfl rfl rfl
    exact (pauseResumeWriting_plain _ hi).cast rfl rfl rfl rfl
  | drain =>
    simp only [appOp, drain]
    split <;> exact plain_of_fields (r := R.ok _)
      (cinv_congr h rfl rfl rfl rfl rfl rfl rfl rfl rfl rfl rfl rfl rfl rfl) (by simp [R.ok]) rfl rfl rfl rfl

/-! ### `create()` and `_finish_open_request` -/

theorem makeRequest_none (k : ReqKind) (c : Chan) (h : c.sendChan = none) : makeRequest c k = (c, [], false) := by
  simp [makeRequest, h]

theorem makeRequest_some (k : ReqKind) (c : Chan) (n : Nat) (h : c.sendChan = some n) :
    makeRequest c k = ({ c with reqWaiter := true }, [.send n (.req k true)], true) := by
  simp [makeRequest, h]

theorem createFail_plain (code : Nat) (c : Chan) (h : CInv c) (hw : c.reqWaiter = false)
    (hv : c.wakeVal = none) (ho : c.openWaiter = false) : Plain c (createFail c code) := by
  unfold createFail
  have hi : CInv { c with stage := .done, outcome := .openErr code } := by
    obtain ⟨h1, h2, h3, h4, h5, h6, h7, h8, h9, h10, h11, h12, h13, h14⟩ := h
    constructor <;> grind
  exact (close_plain _ hi).cast rfl rfl rfl rfl

/-- `c` is the channel `cs` as `create()` sees it after consuming the future's result and (for a successful
    open) attaching the session: same registration / protocol state, session attached, nothing awaited -/
structure Resumed (cs c : Chan) : Prop where
  reg : c.reg = cs.reg
  sc : c.sendChan = cs.sendChan
  ce : c.closeEvent = cs.closeEvent
  wc : c.wcPending = cs.wcPending
  fo : c.fo = cs.fo
  ss : c.sendSt = cs.sendSt
  rs : c.recvSt = cs.recvSt
  ow : c.openWaiter = false
  ow' : cs.openWaiter = false
  rw : c.reqWaiter = false
  wvn : c.wakeVal = none
  trT : c.session = true → runDfa c.trace = some 1 ∨ runDfa c.trace = some 3
  trF : c.session = false → runDfa c.trace = some 0 ∨ runDfa c.trace = some 2
  es : runDfa c.trace = some 3 → c.recvSt ≠ .opn ∧ c.recvSt ≠ .eofPending ∧ c.recvEofPending = false
  rep : c.recvEofPending = true → c.recvSt = .closePending ∨ c.recvSt = .closed
  st : cs.stage ≠ .done
  wvs : cs.wakeVal.isSome = true
  okreg : c.session = true → cs.session = true ∨ cs.reg = true

theorem Plain.cast' {cs c : Chan} {r : R} (h : Plain c r) (hr : Resumed cs c) : Plain cs r := by
  refine ⟨h.inv, h.reg.trans hr.reg, ?_, ?_, ?_, ?_, h.sched⟩
  · intro x; have := h.ow x; rw [hr.ow] at this; cases this
  · intro _; exact Or.inl hr.wvs
  · intro x; have := h.okv x; rw [hr.wvn] at this; cases this
  · intro x
    rcases h.sess x with y | y
    · rcases hr.okreg y with z | z
      · exact Or.inl z
      · right; rw [h.reg, hr.reg]; exact z
    · exact Or.inr y

theorem resumed_done_inv {cs c : Chan} (h : CInv cs) (hr : Resumed cs c) (o : Outcome) :
    CInv { c with stage := .done, outcome := o } := by
  obtain ⟨h1, h2, h3, h4, h5, h6, h7, h8, h9, h10, h11, h12, h13, h14⟩ := h
  obtain ⟨r1, r2, r3, r4, r5, r6, r7, r8, r9, r10, r11, r12, r13, r14, r15, r16, r17, r18⟩ := hr
  constructor <;> grind

theorem createFail_resumed (code : Nat) {cs c : Chan} (h : CInv cs) (hr : Resumed cs c) :
    Plain cs (createFail c code) := by
  unfold createFail
  have := close_plain _ (resumed_done_inv h hr (.openErr code))
  exact (this.cast (c := c) rfl rfl rfl rfl).cast' hr

theorem makeReq_resumed (k : ReqKind) (st : Stage) (hst : st = .waitPty ∨ st = .waitReq) {cs c : Chan} (h : CInv cs)
    (hr : Resumed cs c) (n : Nat) (hn : c.sendChan = some n) :
    Plain cs (R.ok { c with reqWaiter := true, stage := st } [.send n (.req k true)]) := by
  have hreg : cs.reg = true := by
    have := h.sc (by rw [← hr.sc, hn]; rfl)
    exact this
  refine ⟨?_, hr.reg, ?_, fun _ => Or.inl hr.wvs, ?_, ?_, by simp [R.ok]⟩
  · obtain ⟨h1, h2, h3, h4, h5, h6, h7, h8, h9, h10, h11, h12, h13, h14⟩ := h
    obtain ⟨r1, r2, r3, r4, r5, r6, r7, r8, r9, r10, r11, r12, r13, r14, r15, r16, r17, r18⟩ := hr
    constructor <;> simp only [ok_c] <;> grind
  · simp only [ok_c]; intro x; rw [hr.ow] at x; cases x
  · simp only [ok_c]; intro x; rw [hr.wvn] at x; cases x
  · intro _; right; simp only [ok_c]; rw [hr.reg]; exact hreg

theorem createMainReq_resumed {cs c : Chan} (h : CInv cs) (hr : Resumed cs c) : Plain cs (createMainReq c) := by
  unfold createMainReq
  cases hsc : c.sendChan with
  | none =>
    rw [makeRequest_none _ _ hsc]
    simp only [Bool.false_eq_true, if_false]
    exact plain_pre _ (by simp) (createFail_resumed 4 h hr)
  | some n =>
    rw [makeRequest_some _ _ n hsc]
    simp only [if_true]
    exact makeReq_resumed _ .waitReq (Or.inr rfl) h hr n hsc

theorem createAfterMade_resumed {cs c1 : Chan} (h : CInv cs) (hr : Resumed cs c1) :
    Plain cs (createAfterMade c1) := by
  simp only [createAfterMade]
  have henv : ∀ a ∈ (List.replicate c1.nenv ()).flatMap (fun _ => sendPkt c1 (.req .env false)),
      ∃ rc m, a = Act.send rc m := replicate_sends _ _ _
  split
  · cases hsc : c1.sendChan with
    | none =>
      rw [makeRequest_none _ _ hsc]
      simp only [Bool.false_eq_true, if_false]
      refine plain_pre _ ?_ (createFail_resumed 3 h hr)
      intro a ha
      rcases List.mem_append.mp ha with y | y
      · exact henv a y
      · simp at y
    | some n =>
      rw [makeRequest_some _ _ n hsc]
      simp only [if_true]
      have := makeReq_resumed .pty .waitPty (Or.inl rfl) h hr n hsc
      exact plain_pre _ henv this
  · exact plain_pre _ henv (createMainReq_resumed h hr)

theorem createAfterOpen_resumed {cs : Chan} (h : CInv cs) (hv : cs.wakeVal = some .openOk) (hreg : cs.reg = true) :
    Plain cs (createAfterOpen { cs with wakeVal := none }) := by
  have hst := h.wvO (by rw [hv]; rfl)
  have hw := h.wo hst
  have how : cs.openWaiter = false := by
    cases ho : cs.openWaiter with
    | false => rfl
    | true => have := (h.ow ho).2.2.2.2.1; rw [hv] at this; cases this
  apply createAfterMade_resumed h
  exact ⟨rfl, rfl, rfl, rfl, rfl, rfl, rfl, how, how, hw.2.2, rfl, fun _ => by simp [hw.1, dfa], fun x => by simp at x,
     fun x => by simp [hw.1, dfa] at x, h.rep, by rw [hst]; simp, by rw [hv]; rfl, fun _ => Or.inr hreg⟩

/-- the wake-up of `create()`: an ordinary step, provided a successful open finds the channel still registered -/
theorem createWake_plain (cs : Chan) (h : CInv cs) (hreg : cs.wakeVal = some .openOk → cs.reg = true) :
    Plain cs (createWake cs) := by
  unfold createWake
  cases hv : cs.wakeVal with
  | none => exact plain_refl cs h
  | some v =>
    simp only
    have how : cs.openWaiter = false := by
      cases ho : cs.openWaiter with
      | false => rfl
      | true => have := (h.ow ho).2.2.2.2.1; rw [hv] at this; cases this
    have hrw : cs.reqWaiter = false := by
      cases ho : cs.reqWaiter with
      | false => rfl
      | true => have := (h.rw ho).2.2; rw [hv] at this; cases this
    -- the consumed state, when nothing else changes
    have hdone : ∀ (o : Outcome), Plain cs (R.ok { cs with wakeVal := none, stage := .done, outcome := o }) := by
      intro o
      refine ⟨?_, rfl, by simp [R.ok], fun x => by simp [R.ok] at x, fun x => by simp [R.ok] at x,
        fun x => Or.inl x, by simp [R.ok]⟩
      obtain ⟨h1, h2, h3, h4, h5, h6, h7, h8, h9, h10, h11, h12, h13, h14⟩ := h
      constructor <;> simp only [ok_c] <;> grind
    have hres : cs.stage ≠ .done → Resumed cs { cs with wakeVal := none } := by
      intro hst
      exact ⟨rfl, rfl, rfl, rfl, rfl, rfl, rfl, how, how, hrw, rfl, h.trT, h.trF, h.es, h.rep, hst, by rw [hv]; rfl, fun x => Or.inl x⟩
    have h10 := h.wvO
    have h11 := h.wvR
    rw [hv] at h10 h11
    cases v with
    | openOk =>
      simp only [createResume, if_pos (h10 rfl)]
      exact createAfterOpen_resumed h hv (hreg hv)
    | openFail b =>
      simp only [createResume, if_pos (h10 rfl)]
      exact hdone _
    | reqVal b =>
      have hst := h11 rfl
      have hnd : cs.stage ≠ .done := by rcases hst with y | y <;> rw [y] <;> simp
      cases b with
      | true =>
        simp only [createResume]
        split
        · exact createMainReq_resumed h (hres hnd)
        · split
          · split
            · rename_i hs
              refine ⟨?_, rfl, by simp [R.ok, how], fun x => by simp [R.ok] at x, fun x => by simp [R.ok] at x,
                fun x => Or.inl x, by simp [R.ok]⟩
              obtain ⟨h1, h2, h3, h4, h5, h6, h7, h8, h9, h10, h11, h12, h13, h14⟩ := h
              constructor <;> simp only [ok_c] <;> grind [dfa, runDfa_snoc]
            · exact hdone _
          · rename_i h1 h2; rcases hst with y | y <;> contradiction
      | false =>
        simp only [createResume]
        split
        · exact createFail_resumed 3 h (hres hnd)
        · split
          · exact createFail_resumed 4 h (hres hnd)
          · rename_i h1 h2; rcases hst with y | y <;> contradiction
    | exc e =>
      have hst := h11 rfl
      simp only [createResume, if_pos hst]
      exact hdone _

theorem finishOpenGranted_plain (c : Chan) (h : CInv c) (hf : c.fo = .start ∨ c.fo = .awaiting) :
    Plain c (finishOpenGranted c) := by
  have hfo := h.fo hf
  simp only [finishOpenGranted]
  split
  · refine ⟨?_, rfl, id, fun x => Or.inl x, id, fun x => Or.inl x, ?_⟩
    · obtain ⟨h1, h2, h3, h4, h5, h6, h7, h8, h9, h10, h11, h12, h13, h14⟩ := h
      constructor <;> simp only [ok_c] <;> grind
    · intro e _; exact hfo.2.2.2.2.1
  · rename_i hr
    have hreg : c.reg = true := by simpa using hr
    have hi : CInv { c with fo := .finished, session := true, sendSt := .opn, recvSt := .opn, trace := c.trace ++ [.made] } := by
      obtain ⟨h1, h2, h3, h4, h5, h6, h7, h8, h9, h10, h11, h12, h13, h14⟩ := h
      constructor <;> grind [dfa, runDfa_snoc]
    split <;>
    · refine ⟨hi, rfl, id, fun x => Or.inl x, id, fun _ => Or.inr hreg, ?_⟩
      intro e he; simp [R.ok] at he

theorem finishOpenDenied_plain (c : Chan) (h : CInv c) (hf : c.fo = .start ∨ c.fo = .awaiting) :
    Plain c (finishOpenDenied c) := by
  have hfo := h.fo hf
  simp only [finishOpenDenied]
  refine ⟨?_, rfl, id, fun x => Or.inl x, id, fun x => Or.inl x, ?_⟩
  · obtain ⟨h1, h2, h3, h4, h5, h6, h7, h8, h9, h10, h11, h12, h13, h14⟩ := h
    constructor <;> simp only [ok_c] <;> grind
  · intro e _; exact hfo.2.2.2.2.1

theorem finishOpen_plain (c : Chan) (h : CInv c) : Plain c (finishOpen c) := by
  unfold finishOpen
  split
  · exact plain_refl c h
  · rename_i hs
    have hs' : c.fo = .start := by simpa using hs
    split
    · split
      · exact finishOpenGranted_plain c h (Or.inl hs')
      · exact finishOpenDenied_plain c h (Or.inl hs')
      · refine plain_of_fields (r := R.ok _) ?_ (by simp [R.ok]) rfl rfl rfl rfl
        obtain ⟨h1, h2, h3, h4, h5, h6, h7, h8, h9, h10, h11, h12, h13, h14⟩ := h
        constructor <;> simp only [ok_c] <;> grind
    · exact finishOpenGranted_plain c h (Or.inl hs')

theorem finishOpenResume_plain (g : Bool) (c : Chan) (h : CInv c) : Plain c (finishOpenResume c g) := by
  unfold finishOpenResume
  split
  · exact plain_refl c h
  · rename_i hs
    have hs' : c.fo = .awaiting := by simpa using hs
    split
    · exact finishOpenGranted_plain c h (Or.inr hs')
    · exact finishOpenDenied_plain c h (Or.inr hs')

/-! ### the steps that are not ordinary -/

/-- effect summary of `_cleanup` / `process_connection_close` -/
structure Closing (c : Chan) (r : R) : Prop where
  inv : CInv r.c
  reg : r.c.reg = false
  sess : r.c.session = false
  ow : r.c.openWaiter = false
  rw : r.c.reqWaiter = false
  ce : r.c.closeEvent = true
  wv : r.c.wakeVal.isSome = true → c.wakeVal.isSome = true ∨ Act.wake ∈ r.acts
  okv : r.c.wakeVal = some .openOk → c.wakeVal = some .openOk
  nosched : ∀ e, Act.sched e ∉ r.acts
  noerr : r.err = none

theorem cleanup_closing (e : Exc) (c : Chan) (h : CInv c) : Closing c (cleanup c e) := by
  refine ⟨cleanup_inv e c h, ?_, ?_, ?_, ?_, ?_, ?_, ?_, ?_, ?_⟩ <;> simp only [cleanup, R.ok] <;> grind

theorem processConnectionClose_closing (e : Exc) (c : Chan) (h : CInv c) :
    Closing c (processConnectionClose c e) := by
  unfold processConnectionClose
  have hi : CInv { c with sendSt := .closed } := by
    obtain ⟨h1, h2, h3, h4, h5, h6, h7, h8, h9, h10, h11, h12, h13, h14⟩ := h
    constructor <;> grind
  have h1 := closeSend_plain _ hi
  have hne : (closeSend { c with sendSt := .closed }).err = none := by simp [closeSend, R.ok]
  have hacts : (closeSend { c with sendSt := .closed }).acts = [] := by simp [closeSend, R.ok]
  unfold R.andThen
  rw [hne]
  simp only [hacts, List.nil_append]
  have h2 := cleanup_closing e _ h1.inv
  refine ⟨h2.inv, h2.reg, h2.sess, h2.ow, h2.rw, h2.ce, ?_, ?_, h2.nosched, h2.noerr⟩
  · intro x
    rcases h2.wv x with y | y
    · rcases h1.wv y with z | z
      · exact Or.inl z
      · rw [hacts] at z; cases z
    · exact Or.inr y
  · intro x; exact h1.okv (h2.okv x)

/-- the open confirmation: the only step that stores a successful-open result -/
theorem processOpenConf_spec (sc win : Nat) (c : Chan) (h : CInv c) :
    let r := processOpenConf c sc win
    CInv r.c ∧ r.c.reg = c.reg ∧ (r.c.openWaiter = true → c.openWaiter = true) ∧ r.c.session = c.session ∧
    (∀ e, Act.sched e ∉ r.acts) ∧
    ((c.openWaiter = true ∧ r.c.wakeVal = some .openOk ∧ r.acts = [.wake] ∧ r.c.openWaiter = false ∧ r.err = none) ∨
     (c.openWaiter = false ∧ r.c = c ∧ r.acts = [])) := by
  have hi := processOpenConf_inv sc win c h
  simp only [processOpenConf] at hi ⊢
  split <;> simp_all [R.ok, R.fail]

theorem waitClosed_spec (c : Chan) :
    (waitClosed c).reg = c.reg ∧ (waitClosed c).openWaiter = c.openWaiter ∧ (waitClosed c).wakeVal = c.wakeVal ∧
    (waitClosed c).session = c.session ∧ (waitClosed c).stage = c.stage ∧ (waitClosed c).reqWaiter = c.reqWaiter ∧
    (waitClosed c).closeEvent = c.closeEvent := by
  unfold waitClosed
  split <;> simp

/-! ### the resumption of `create()` consumes the stored result and stores no new one -/

theorem andThen_wakeVal (r : R) (f : Chan → R) (h2 : ∀ c, (f c).c.wakeVal = c.wakeVal) :
    (r.andThen f).c.wakeVal = r.c.wakeVal := by
  unfold R.andThen; split
  · rfl
  · exact h2 _

theorem pauseResumeWriting_wakeVal (c : Chan) : (pauseResumeWriting c).c.wakeVal = c.wakeVal := by
  fields [pauseResumeWriting]

theorem flushSendTail_wakeVal (c : Chan) : (flushSendTail c).c.wakeVal = c.wakeVal := by
  fields [flushSendTail, closeSendEof, closeSend]

theorem flushSendBuf_wakeVal (c : Chan) : (flushSendBuf c).c.wakeVal = c.wakeVal := by
  unfold flushSendBuf
  rw [andThen_wakeVal _ _ flushSendTail_wakeVal, pre_c, pauseResumeWriting_wakeVal]

theorem discardRecv_wakeVal (c : Chan) : (discardRecv c).c.wakeVal = c.wakeVal := by
  fields [discardRecv]

theorem close_wakeVal (c : Chan) : (close c).c.wakeVal = c.wakeVal := by
  unfold close
  rw [andThen_wakeVal]
  · split
    · exact flushSendBuf_wakeVal _
    · rfl
  · intro c'; split
    · exact discardRecv_wakeVal c'
    · rfl

theorem createFail_wakeVal (c : Chan) (n : Nat) : (createFail c n).c.wakeVal = c.wakeVal := by
  unfold createFail; rw [close_wakeVal]

theorem createMainReq_wakeVal (c : Chan) : (createMainReq c).c.wakeVal = c.wakeVal := by
  unfold createMainReq
  cases hsc : c.sendChan with
  | none => rw [makeRequest_none _ _ hsc]; simp [createFail_wakeVal]
  | some n => rw [makeRequest_some _ _ n hsc]; simp [R.ok]

theorem createAfterMade_wakeVal (c : Chan) : (createAfterMade c).c.wakeVal = c.wakeVal := by
  simp only [createAfterMade]
  split
  · cases hsc : c.sendChan with
    | none => rw [makeRequest_none _ _ hsc]; simp [createFail_wakeVal]
    | some n => rw [makeRequest_some _ _ n hsc]; simp [R.ok]
  · simp [createMainReq_wakeVal]

theorem createWake_wakeVal (c : Chan) : (createWake c).c.wakeVal = none := by
  unfold createWake
  cases hv : c.wakeVal with
  | none => simp [R.ok, hv]
  | some v =>
    simp only
    cases v with
    | openOk => simp only [createResume]; split <;> simp [createAfterOpen, createAfterMade_wakeVal, R.ok]
    | openFail b => simp only [createResume]; split <;> simp [R.ok]
    | reqVal b =>
      cases b <;> simp only [createResume] <;> (repeat' split) <;>
        simp [createMainReq_wakeVal, createFail_wakeVal, R.ok]
    | exc e => simp only [createResume]; split <;> simp [R.ok]

end AsyncsshModel.Lifecycle
