import AsyncsshModel.Model.CertWire
/-
  Helper lemmas for the SSH wire primitives of Model/CertWire.lean:
  decoders are exact inverses of the encoders, and what a decoder consumes is exactly the encoding
  of what it returns (this is what makes "signed region = consumed bytes" meaningful).
-/
namespace AsyncsshModel.CertWire
open AsyncsshModel

theorem rev_ind {α : Type} {P : List α → Prop} (nil : P [])
    (snoc : ∀ xs b, P xs → P (xs ++ [b])) (x : List α) : P x := by
  have h : ∀ y : List α, P y.reverse := by
    intro y
    induction y with
    | nil => simpa using nil
    | cons a y ih => rw [List.reverse_cons]; exact snoc _ _ ih
  simpa using h x.reverse

theorem natOfBytes_append_single (xs : Bytes) (b : UInt8) :
    natOfBytes (xs ++ [b]) = natOfBytes xs * 256 + b.toNat := by
  simp [natOfBytes, List.foldl_append]

theorem length_beBytes (k n : Nat) : (beBytes k n).length = k := by
  induction k generalizing n with
  | zero => simp [beBytes]
  | succ k ih => simp [beBytes, ih]

theorem natOfBytes_beBytes (k n : Nat) (h : n < 256 ^ k) : natOfBytes (beBytes k n) = n := by
  induction k generalizing n with
  | zero => simp [beBytes, natOfBytes]; simp at h; omega
  | succ k ih =>
    have h1 : n / 256 < 256 ^ k := by
      rw [Nat.pow_succ] at h
      exact Nat.div_lt_of_lt_mul (by rw [Nat.mul_comm]; exact h)
    have h2 : (UInt8.ofNat (n % 256)).toNat = n % 256 := by
      simp
    rw [beBytes, natOfBytes_append_single, ih _ h1, h2]
    omega

theorem natOfBytes_lt (x : Bytes) : natOfBytes x < 256 ^ x.length := by
  induction x using rev_ind with
  | nil => simp [natOfBytes]
  | snoc xs b ih =>
    rw [natOfBytes_append_single, List.length_append, List.length_singleton, Nat.pow_succ]
    have : b.toNat < 256 := b.toNat_lt
    omega

theorem beBytes_natOfBytes (x : Bytes) : beBytes x.length (natOfBytes x) = x := by
  induction x using rev_ind with
  | nil => simp [beBytes]
  | snoc xs b ih =>
    have hb : b.toNat < 256 := b.toNat_lt
    rw [natOfBytes_append_single, List.length_append, List.length_singleton, beBytes]
    have h1 : (natOfBytes xs * 256 + b.toNat) / 256 = natOfBytes xs := by omega
    have h2 : (natOfBytes xs * 256 + b.toNat) % 256 = b.toNat := by omega
    rw [h1, h2, ih]
    simp

theorem beBytes_inj (k a b : Nat) (ha : a < 256 ^ k) (hb : b < 256 ^ k)
    (h : beBytes k a = beBytes k b) : a = b := by
  rw [← natOfBytes_beBytes k a ha, ← natOfBytes_beBytes k b hb, h]

/-! ### getBytes -/

theorem getBytes_eq_some {n : Nat} {b x r : Bytes} (h : getBytes n b = some (x, r)) :
    b = x ++ r ∧ x.length = n := by
  unfold getBytes at h
  split at h
  · rename_i hle
    simp only [Option.some.injEq, Prod.mk.injEq] at h
    obtain ⟨rfl, rfl⟩ := h
    exact ⟨(List.take_append_drop n b).symm, by simp [List.length_take]; omega⟩
  · simp at h

theorem getBytes_append (x r : Bytes) : getBytes x.length (x ++ r) = some (x, r) := by
  unfold getBytes
  simp

theorem getBytes_append' {n : Nat} (x r : Bytes) (h : x.length = n) : getBytes n (x ++ r) = some (x, r) := by
  subst h; exact getBytes_append x r

/-! ### integers -/

theorem getU32_eq_some {b r : Bytes} {n : Nat} (h : getU32 b = some (n, r)) :
    b = u32 n ++ r ∧ n < 2 ^ 32 := by
  unfold getU32 at h
  split at h
  · rename_i x r' hx
    simp only [Option.some.injEq, Prod.mk.injEq] at h
    obtain ⟨rfl, rfl⟩ := h
    obtain ⟨hb, hl⟩ := getBytes_eq_some hx
    refine ⟨?_, ?_⟩
    · have := beBytes_natOfBytes x
      rw [hl] at this
      rw [u32, this]; exact hb
    · have := natOfBytes_lt x
      rw [hl] at this
      exact this
  · simp at h

theorem getU32_u32 (n : Nat) (r : Bytes) (h : n < 2 ^ 32) : getU32 (u32 n ++ r) = some (n, r) := by
  unfold getU32
  rw [getBytes_append' (u32 n) r (length_beBytes 4 n)]
  simp [u32, natOfBytes_beBytes 4 n h]

theorem getU64_eq_some {b r : Bytes} {n : Nat} (h : getU64 b = some (n, r)) :
    b = u64 n ++ r ∧ n < 2 ^ 64 := by
  unfold getU64 at h
  split at h
  · rename_i x r' hx
    simp only [Option.some.injEq, Prod.mk.injEq] at h
    obtain ⟨rfl, rfl⟩ := h
    obtain ⟨hb, hl⟩ := getBytes_eq_some hx
    refine ⟨?_, ?_⟩
    · have := beBytes_natOfBytes x
      rw [hl] at this
      rw [u64, this]; exact hb
    · have := natOfBytes_lt x
      rw [hl] at this
      exact this
  · simp at h

theorem getU64_u64 (n : Nat) (r : Bytes) (h : n < 2 ^ 64) : getU64 (u64 n ++ r) = some (n, r) := by
  unfold getU64
  rw [getBytes_append' (u64 n) r (length_beBytes 8 n)]
  simp [u64, natOfBytes_beBytes 8 n h]

/-! ### strings -/

theorem getString_eq_some {b s r : Bytes} (h : getString b = some (s, r)) :
    b = sshString s ++ r ∧ s.length < 2 ^ 32 := by
  unfold getString at h
  split at h
  · rename_i n r' hn
    obtain ⟨hb, hlt⟩ := getU32_eq_some hn
    obtain ⟨hr, hl⟩ := getBytes_eq_some h
    subst hl
    exact ⟨by rw [hb, hr, sshString, List.append_assoc], hlt⟩
  · simp at h

theorem getString_sshString (s r : Bytes) (h : s.length < 2 ^ 32) :
    getString (sshString s ++ r) = some (s, r) := by
  unfold getString sshString
  rw [List.append_assoc, getU32_u32 _ _ h]
  exact getBytes_append s r

theorem length_sshString (s : Bytes) : (sshString s).length = 4 + s.length := by
  simp [sshString, u32, length_beBytes]

theorem getString_length {b s r : Bytes} (h : getString b = some (s, r)) :
    r.length + 4 ≤ b.length := by
  obtain ⟨hb, _⟩ := getString_eq_some h
  rw [hb, List.length_append, length_sshString]; omega

theorem sshString_inj {a b : Bytes} (ha : a.length < 2 ^ 32) (h : sshString a = sshString b) : a = b := by
  have h1 := getString_sshString a [] ha
  rw [h] at h1
  by_cases hb : b.length < 2 ^ 32
  · rw [getString_sshString b [] hb] at h1
    simp at h1; exact h1.symm
  · have hl := congrArg List.length h
    rw [length_sshString, length_sshString] at hl
    omega

/-- two encodings that agree up to their tails have the same string and the same tail -/
theorem sshString_append_inj {a b r1 r2 : Bytes} (ha : a.length < 2 ^ 32) (hb : b.length < 2 ^ 32)
    (h : sshString a ++ r1 = sshString b ++ r2) : a = b ∧ r1 = r2 := by
  have h1 := getString_sshString a r1 ha
  rw [h, getString_sshString b r2 hb] at h1
  simp at h1
  exact ⟨h1.1.symm, h1.2.symm⟩

/-! ### field lists -/

theorem parseField_eq_some {k : FK} {b r : Bytes} {v : Val} (h : parseField k b = some (v, r)) :
    b = encVal v ++ r ∧ v.kind = k := by
  cases k <;> simp only [parseField] at h <;> split at h <;> simp at h
  · rename_i s r' hs
    obtain ⟨rfl, rfl⟩ := h
    exact ⟨(getString_eq_some hs).1, rfl⟩
  · rename_i n r' hs
    obtain ⟨rfl, rfl⟩ := h
    exact ⟨(getU32_eq_some hs).1, rfl⟩
  · rename_i n r' hs
    obtain ⟨rfl, rfl⟩ := h
    exact ⟨(getU64_eq_some hs).1, rfl⟩

/-- what `parseFields` consumes is exactly the encoding of what it returns -/
theorem parseFields_eq_some {ks : List FK} {b r : Bytes} {vs : List Val}
    (h : parseFields ks b = some (vs, r)) : b = encVals vs ++ r ∧ vs.map Val.kind = ks := by
  induction ks generalizing b vs with
  | nil =>
    simp [parseFields] at h
    obtain ⟨rfl, rfl⟩ := h
    simp [encVals]
  | cons k ks ih =>
    simp only [parseFields] at h
    split at h
    · simp at h
    · rename_i v r1 hv
      split at h
      · simp at h
      · rename_i vs' r2 hvs
        simp only [Option.some.injEq, Prod.mk.injEq] at h
        obtain ⟨rfl, rfl⟩ := h
        obtain ⟨hb, hk⟩ := parseField_eq_some hv
        obtain ⟨hb2, hk2⟩ := ih hvs
        refine ⟨?_, by simp [hk, hk2]⟩
        rw [hb, hb2]
        simp [encVals, List.append_assoc]

theorem length_parseFields {ks : List FK} {b r : Bytes} {vs : List Val}
    (h : parseFields ks b = some (vs, r)) : vs.length = ks.length := by
  have := (parseFields_eq_some h).2
  rw [← this]; simp

/-! ### splitting into strings -/

theorem splitStringsAux_fuel (f1 f2 : Nat) (b : Bytes) (h1 : b.length ≤ f1) (h2 : b.length ≤ f2) :
    splitStringsAux f1 b = splitStringsAux f2 b := by
  induction f1 generalizing f2 b with
  | zero =>
    have : b = [] := List.eq_nil_of_length_eq_zero (by omega)
    subst this
    cases f2 <;> simp [splitStringsAux]
  | succ f1 ih =>
    cases b with
    | nil => cases f2 <;> simp [splitStringsAux]
    | cons x xs =>
      cases f2 with
      | zero => simp at h2
      | succ f2 =>
        simp only [splitStringsAux]
        split
        · rfl
        · rename_i s r hs
          have hl := getString_length hs
          rw [ih f2 r (by omega) (by omega)]

theorem splitStringsAux_eq_some {f : Nat} {b : Bytes} {ss : List Bytes}
    (h : splitStringsAux f b = some ss) : b = encStrings ss ∧ ∀ s ∈ ss, s.length < 2 ^ 32 := by
  induction f generalizing b ss with
  | zero =>
    cases b with
    | nil => simp [splitStringsAux] at h; subst h; simp [encStrings]
    | cons x xs => simp [splitStringsAux] at h
  | succ f ih =>
    cases b with
    | nil => simp [splitStringsAux] at h; subst h; simp [encStrings]
    | cons x xs =>
      simp only [splitStringsAux] at h
      split at h
      · simp at h
      · rename_i s r hs
        split at h
        · rename_i ss' hss
          simp only [Option.some.injEq] at h
          subst h
          obtain ⟨hb, hlt⟩ := getString_eq_some hs
          obtain ⟨hr, hall⟩ := ih hss
          refine ⟨?_, ?_⟩
          · rw [hb, hr]; simp [encStrings]
          · intro t ht
            simp at ht
            rcases ht with rfl | ht
            · exact hlt
            · exact hall t ht
        · simp at h

theorem splitStrings_eq_some {b : Bytes} {ss : List Bytes} (h : splitStrings b = some ss) :
    b = encStrings ss ∧ ∀ s ∈ ss, s.length < 2 ^ 32 := splitStringsAux_eq_some h

theorem encStrings_cons (s : Bytes) (ss : List Bytes) : encStrings (s :: ss) = sshString s ++ encStrings ss := by
  simp [encStrings]

theorem sshString_ne_nil (s : Bytes) : sshString s ≠ [] := by
  intro h
  have := congrArg List.length h
  rw [length_sshString] at this
  simp at this

theorem splitStringsAux_encStrings (ss : List Bytes) (hall : ∀ s ∈ ss, s.length < 2 ^ 32) (f : Nat)
    (hf : (encStrings ss).length ≤ f) : splitStringsAux f (encStrings ss) = some ss := by
  induction ss generalizing f with
  | nil => cases f <;> simp [encStrings, splitStringsAux]
  | cons s ss ih =>
    rw [encStrings_cons] at hf ⊢
    have hne : sshString s ++ encStrings ss ≠ [] := by
      intro h
      exact sshString_ne_nil s (List.append_eq_nil_iff.mp h).1
    have hlen : 4 + s.length + (encStrings ss).length ≤ f := by
      rw [List.length_append, length_sshString] at hf; exact hf
    cases f with
    | zero => omega
    | succ f =>
      obtain ⟨y, ys, hy⟩ := List.exists_cons_of_ne_nil hne
      rw [hy]
      simp only [splitStringsAux]
      rw [← hy, getString_sshString s _ (hall s (by simp))]
      simp only
      rw [ih (fun t ht => hall t (by simp [ht])) f (by omega)]

theorem splitStrings_encStrings (ss : List Bytes) (hall : ∀ s ∈ ss, s.length < 2 ^ 32) :
    splitStrings (encStrings ss) = some ss :=
  splitStringsAux_encStrings ss hall _ (Nat.le_refl _)

end AsyncsshModel.CertWire
