import AsyncsshModel.Lemmas.Path
/-
  Helper lemmas for C13, part 2: `basename` of a joined path, the matches of a glob over a listing.
-/
namespace AsyncsshModel.PathMap
open AsyncsshModel AsyncsshModel.Path

theorem splitSlash_noslash (n : Bytes) (h : slash ∉ n) : splitSlash n = [n] := by
  induction n with
  | nil => rfl
  | cons c cs ih =>
    have hc : c ≠ slash := fun e => h (by simp [e])
    have hcs : slash ∉ cs := fun e => h (by simp [e])
    simp [splitSlash, hc, ih hcs]

theorem splitSlash_append_slash (a b : Bytes) :
    splitSlash (a ++ slash :: b) = splitSlash a ++ splitSlash b := by
  induction a with
  | nil => simp [splitSlash]
  | cons c cs ih =>
    by_cases hc : c = slash
    · simp [splitSlash, hc, ih]
    · simp only [List.cons_append, splitSlash, hc, if_false, ih]
      cases hs : splitSlash cs with
      | nil => exact absurd hs (splitSlash_ne_nil cs)
      | cons h t => simp

theorem basename_append_slash (a n : Bytes) (h : slash ∉ n) : basename (a ++ slash :: n) = n := by
  simp [basename, splitSlash_append_slash, splitSlash_noslash n h]

/-- the last component of `join(dir, name)` is `name` itself when `name` holds no separator -/
theorem basename_join_noslash (dir n : Bytes) (h : slash ∉ n) : basename (join dir n) = n := by
  unfold join
  have hhead : n.head? ≠ some slash := by
    cases n with
    | nil => simp
    | cons c cs =>
      simp only [List.head?_cons, ne_eq, Option.some.injEq]
      intro e; exact h (by simp [e])
  by_cases hd : dir = []
  · simp [hd, basename, splitSlash_noslash n h]
  · simp only [hhead, hd, or_self, if_false]
    split
    · rename_i hl
      obtain ⟨a, rfl⟩ : ∃ a, dir = a ++ [slash] := by
        rcases List.eq_nil_or_concat dir with h0 | ⟨a, x, rfl⟩
        · exact absurd h0 hd
        · simp only [List.concat_eq_append, List.getLast?_append, List.getLast?_singleton, Option.some_or,
            Option.some.injEq] at hl
          exact ⟨a, by simp [hl]⟩
      rw [List.append_assoc]
      exact basename_append_slash a n h
    · exact basename_append_slash dir n h

theorem globVerdict_use_safe (n : Bytes) (h : globNameVerdict true n = .use) :
    n ≠ dot ∧ n ≠ dotdot ∧ slash ∉ n := by
  unfold globNameVerdict at h
  split at h
  · cases h
  · rename_i h1
    split at h
    · cases h
    · rename_i h2
      simp at h2
      exact ⟨fun x => h1 (Or.inl x), fun x => h1 (Or.inr x), h2⟩

/-- every match of the repaired glob carries a name that is safe as a path component -/
theorem globMatches_safe (es ms : List Entry) (h : globMatches true es = some ms) :
    ∀ e ∈ ms, e.name ≠ dot ∧ e.name ≠ dotdot ∧ slash ∉ e.name := by
  induction es generalizing ms with
  | nil => simp [globMatches] at h; subst h; simp
  | cons e rest ih =>
    simp only [globMatches] at h
    cases hv : globNameVerdict true e.name with
    | skip => rw [hv] at h; exact ih ms h
    | reject => rw [hv] at h; cases h
    | use =>
      rw [hv] at h
      cases hr : globMatches true rest with
      | none => rw [hr] at h; cases h
      | some ms' =>
        rw [hr] at h
        simp only [Option.map_some, Option.some.injEq] at h
        subst h
        intro e' he'
        simp only [List.mem_cons] at he'
        rcases he' with rfl | he'
        · exact globVerdict_use_safe _ hv
        · exact ih ms' hr e' he'

end AsyncsshModel.PathMap
