import AsyncsshModel.Lemmas.PatternParse
import AsyncsshModel.Model.AuthKeys
/-
  C17 — helper lemmas for the option tokenizer (rendering / parsing round trip) and for
  authorized_keys validation.
-/
namespace AsyncsshModel.AuthKeys
open AsyncsshModel AsyncsshModel.Pattern AsyncsshModel.KnownHosts

/-! ### writing options -/

/-- inside double quotes: `"` and `\` are written with a backslash in front -/
def quoteChars : Str → Str
  | [] => []
  | c :: s => if c = '"' ∨ c = '\\' then '\\' :: c :: quoteChars s else c :: quoteChars s

/-- OpenSSH's way (sshd(8)): only `"` is written as `\"` -/
def osshQuote : Str → Str
  | [] => []
  | c :: s => if c = '"' then '\\' :: '"' :: osshQuote s else c :: osshQuote s

/-- OpenSSH `opt_dequote` after the opening quote: the value and the text after the closing quote -/
def osshDequote : Str → Option (Str × Str)
  | [] => none
  | '"' :: r => some ([], r)
  | '\\' :: '"' :: r => (osshDequote r).map fun vt => ('"' :: vt.1, vt.2)
  | c :: r => (osshDequote r).map fun vt => (c :: vt.1, vt.2)

theorem osshQuote_eq_quoteChars (v : Str) (h : '\\' ∉ v) : osshQuote v = quoteChars v := by
  induction v with
  | nil => rfl
  | cons c s ih =>
    have hc : c ≠ '\\' := fun e => h (by simp [e])
    have hs : '\\' ∉ s := fun e => h (List.mem_cons_of_mem _ e)
    by_cases hq : c = '"'
    · subst hq; simp [osshQuote, quoteChars, ih hs]
    · simp [osshQuote, quoteChars, ih hs, hc, hq]

/-- a character with no special meaning to the tokenizer outside quotes -/
def Plain (c : Char) : Prop := c ≠ '\\' ∧ c ≠ '"' ∧ c ≠ ',' ∧ c ∉ Gen.C17.optTerminators

/-- one option as written: plain text (e.g. `name=`) followed by an optional quoted part -/
def renderOpt (pre : Str) (q : Option Str) : Str :=
  match q with
  | none => pre
  | some v => pre ++ '"' :: quoteChars v ++ ['"']

/-- the option string `_add_option` should receive for it -/
def optText (pre : Str) (q : Option Str) : Str := pre ++ q.getD []

def renderOpts : List (Str × Option Str) → Str
  | [] => []
  | [o] => renderOpt o.1 o.2
  | o :: os => renderOpt o.1 o.2 ++ ',' :: renderOpts os

/-! ### the loop on each kind of segment -/

theorem tokLoop_quoted (v tail cur : Str) (acc : List Str) :
    tokLoop (quoteChars v ++ tail) true false cur acc = tokLoop tail true false (v.reverse ++ cur) acc := by
  induction v generalizing cur with
  | nil => rfl
  | cons c s ih =>
    by_cases hc : c = '"' ∨ c = '\\'
    · simp only [quoteChars, hc, if_true, List.cons_append]
      have e1 : tokLoop ('\\' :: c :: (quoteChars s ++ tail)) true false cur acc
          = tokLoop (quoteChars s ++ tail) true false (c :: cur) acc := by
        simp [tokLoop]
      rw [e1, ih]
      simp
    · simp only [quoteChars, hc, if_false, List.cons_append]
      have h1 : c ≠ '"' := fun e => hc (Or.inl e)
      have h2 : c ≠ '\\' := fun e => hc (Or.inr e)
      have e1 : tokLoop (c :: (quoteChars s ++ tail)) true false cur acc
          = tokLoop (quoteChars s ++ tail) true false (c :: cur) acc := by
        simp [tokLoop, h1, h2]
      rw [e1, ih]
      simp

theorem tokLoop_plain (pre tail cur : Str) (acc : List Str) (hp : ∀ c ∈ pre, Plain c) :
    tokLoop (pre ++ tail) false false cur acc = tokLoop tail false false (pre.reverse ++ cur) acc := by
  induction pre generalizing cur with
  | nil => rfl
  | cons c s ih =>
    obtain ⟨h1, h2, h3, h4⟩ := hp c (by simp)
    have e1 : tokLoop (c :: (s ++ tail)) false false cur acc = tokLoop (s ++ tail) false false (c :: cur) acc := by
      simp [tokLoop, h1, h2, h3, h4]
    rw [List.cons_append, e1, ih _ (fun d hd => hp d (List.mem_cons_of_mem _ hd))]
    simp

theorem tokLoop_opt (pre : Str) (q : Option Str) (tail cur : Str) (acc : List Str) (hp : ∀ c ∈ pre, Plain c) :
    tokLoop (renderOpt pre q ++ tail) false false cur acc
      = tokLoop tail false false ((optText pre q).reverse ++ cur) acc := by
  cases q with
  | none => simpa [renderOpt, optText] using tokLoop_plain pre tail cur acc hp
  | some v =>
    simp only [renderOpt, optText, Option.getD_some, List.append_assoc, List.cons_append, List.nil_append]
    rw [tokLoop_plain pre _ cur acc hp]
    have e1 : tokLoop ('"' :: (quoteChars v ++ '"' :: tail)) false false (pre.reverse ++ cur) acc
        = tokLoop (quoteChars v ++ '"' :: tail) true false (pre.reverse ++ cur) acc := by
      simp [tokLoop]
    rw [e1, tokLoop_quoted]
    have e2 : tokLoop ('"' :: tail) true false (v.reverse ++ (pre.reverse ++ cur)) acc
        = tokLoop tail false false (v.reverse ++ (pre.reverse ++ cur)) acc := by
      simp [tokLoop]
    rw [e2]
    simp

/-- rendering then tokenizing, with the text that follows (`tail` starts with a terminator or is empty) -/
theorem tokLoop_render (os : List (Str × Option Str)) (hne : os ≠ []) (hp : ∀ o ∈ os, ∀ c ∈ o.1, Plain c)
    (tail : Str) (acc : List Str) :
    tokLoop (renderOpts os ++ tail) false false [] acc
      = tokLoop tail false false (optText (os.getLast hne).1 (os.getLast hne).2).reverse
          ((os.dropLast.map fun o => optText o.1 o.2).reverse ++ acc) := by
  induction os generalizing acc with
  | nil => exact absurd rfl hne
  | cons o rest ih =>
    cases rest with
    | nil =>
      simp only [renderOpts, List.getLast_singleton, List.dropLast_singleton, List.map_nil, List.reverse_nil,
        List.nil_append]
      simpa using tokLoop_opt o.1 o.2 tail [] acc (hp o (by simp))
    | cons o2 rest2 =>
      have hne2 : o2 :: rest2 ≠ [] := by simp
      simp only [renderOpts, List.append_assoc, List.cons_append]
      rw [tokLoop_opt o.1 o.2 _ [] acc (hp o (by simp))]
      have e1 : tokLoop (',' :: (renderOpts (o2 :: rest2) ++ tail)) false false
          ((optText o.1 o.2).reverse ++ []) acc
          = tokLoop (renderOpts (o2 :: rest2) ++ tail) false false [] (optText o.1 o.2 :: acc) := by
        have ht : ',' ∉ Gen.C17.optTerminators := by decide
        simp [tokLoop, ht]
      rw [e1, ih hne2 (fun x hx => hp x (List.mem_cons_of_mem _ hx))]
      simp [List.getLast_cons hne2]

theorem tokLoop_stop (t : Char) (ht : t ∈ Gen.C17.optTerminators) (rest cur : Str) (acc : List Str) :
    tokLoop (t :: rest) false false cur acc = ⟨(cur.reverse :: acc).reverse, false, false, some (t :: rest)⟩ := by
  have h1 : t ≠ '\\' := by intro e; subst e; revert ht; decide
  have h2 : t ≠ '"' := by intro e; subst e; revert ht; decide
  simp [tokLoop, h1, h2, ht]

/-! ### validation -/

/-- a principals pattern list accepts the name: some positive pattern matches, no negated one does -/
def NameSelects (pl : PatList Str) (name : Str) : Prop :=
  (∃ x ∈ pl.pos, Glob x name) ∧ (∀ x ∈ pl.neg, ¬ Glob x name)

theorem nameList_iff (pl : PatList Str) (name : Str) :
    pl.matchesWith (globMatch · name) = true ↔ NameSelects pl name := by
  unfold PatList.matchesWith NameSelects
  simp only [Bool.and_eq_true, Bool.not_eq_true', List.any_eq_true, List.any_eq_false, globMatch_iff_glob]

/-- the entry is of the kind asked for and carries this key -/
def Applicable (e : AKEntry) (key : Nat) (ca : Bool) : Prop := e.key.isSome ∧ e.isCA = ca ∧ e.key = some key

instance (e : AKEntry) (key : Nat) (ca : Bool) : Decidable (Applicable e key ca) := by
  unfold Applicable; infer_instance

theorem validate_none_iff (es : List AKEntry) (key : Nat) (host addr : Str) (pr : Option (List Str)) (ca : Bool) :
    validate es key host addr pr ca = .ok none ↔
      ∀ e ∈ es, Applicable e key ca → matchOptions e.options host addr pr = .ok false := by
  induction es with
  | nil => simp [validate]
  | cons e rest ih =>
    simp only [validate, List.mem_cons, forall_eq_or_imp]
    by_cases ha : e.key.isSome ∧ e.isCA = ca ∧ e.key = some key
    · rw [if_pos ha]
      have hap : Applicable e key ca := ha
      cases hm : matchOptions e.options host addr pr with
      | error c =>
        constructor
        · intro h; cases h
        · intro h; have := h.1 hap; cases this
      | ok b =>
        cases b with
        | true =>
          constructor
          · intro h; cases h
          · intro h; have := h.1 hap; cases this
        | false =>
          show validate rest key host addr pr ca = .ok none ↔ _
          rw [ih]
          exact ⟨fun h => ⟨fun _ => rfl, h⟩, fun h => h.2⟩
    · rw [if_neg ha, ih]
      exact ⟨fun h => ⟨fun hx => absurd hx ha, h⟩, fun h => h.2⟩

theorem validate_some_iff (es : List AKEntry) (key : Nat) (host addr : Str) (pr : Option (List Str)) (ca : Bool)
    (o : Opts) :
    validate es key host addr pr ca = .ok (some o) ↔
      ∃ pre e post, es = pre ++ e :: post ∧ e.options = o ∧ Applicable e key ca ∧
        matchOptions e.options host addr pr = .ok true ∧
        ∀ e' ∈ pre, Applicable e' key ca → matchOptions e'.options host addr pr = .ok false := by
  induction es with
  | nil => simp [validate]
  | cons e rest ih =>
    -- a decomposition of `e :: rest` either starts with `e` or puts `e` in the prefix
    have shift : (∃ pre e1 post, rest = pre ++ e1 :: post ∧ e1.options = o ∧ Applicable e1 key ca ∧
          matchOptions e1.options host addr pr = .ok true ∧
          ∀ e' ∈ pre, Applicable e' key ca → matchOptions e'.options host addr pr = .ok false) →
        (Applicable e key ca → matchOptions e.options host addr pr = .ok false) →
        ∃ pre e1 post, e :: rest = pre ++ e1 :: post ∧ e1.options = o ∧ Applicable e1 key ca ∧
          matchOptions e1.options host addr pr = .ok true ∧
          ∀ e' ∈ pre, Applicable e' key ca → matchOptions e'.options host addr pr = .ok false := by
      rintro ⟨pre, e1, post, hes, ho, hap, hmt, hpre⟩ he
      refine ⟨e :: pre, e1, post, by simp [hes], ho, hap, hmt, ?_⟩
      intro e' he' hap'
      rcases List.mem_cons.mp he' with rfl | h
      · exact he hap'
      · exact hpre e' h hap'
    simp only [validate]
    by_cases ha : e.key.isSome ∧ e.isCA = ca ∧ e.key = some key
    · rw [if_pos ha]
      have hap : Applicable e key ca := ha
      -- with `e` applicable, a decomposition whose prefix is non-empty forces `matchOptions e = ok false`
      have head_or : ∀ {pre e1 post}, e :: rest = pre ++ e1 :: post →
          (∀ e' ∈ pre, Applicable e' key ca → matchOptions e'.options host addr pr = .ok false) →
          (pre = [] ∧ e1 = e ∧ post = rest) ∨
            (matchOptions e.options host addr pr = .ok false ∧ ∃ ps, pre = e :: ps ∧ rest = ps ++ e1 :: post) := by
        intro pre e1 post hes hpre
        cases pre with
        | nil =>
          simp only [List.nil_append, List.cons.injEq] at hes
          exact Or.inl ⟨rfl, hes.1.symm, hes.2.symm⟩
        | cons p ps =>
          simp only [List.cons_append, List.cons.injEq] at hes
          have := hpre p (by simp) (hes.1 ▸ hap)
          exact Or.inr ⟨hes.1 ▸ this, ps, by rw [hes.1], hes.2⟩
      cases hm : matchOptions e.options host addr pr with
      | error c =>
        constructor
        · intro h; cases h
        · rintro ⟨pre, e1, post, hes, _, _, hmt, hpre⟩
          rcases head_or hes hpre with ⟨_, h1, _⟩ | ⟨h1, _⟩
          · rw [h1, hm] at hmt; cases hmt
          · rw [hm] at h1; cases h1
      | ok b =>
        cases b with
        | true =>
          constructor
          · intro h
            have ho : e.options = o := by
              have : (Except.ok (some e.options) : Except String (Option Opts)) = .ok (some o) := h
              simpa using this
            exact ⟨[], e, rest, rfl, ho, hap, hm, by simp⟩
          · rintro ⟨pre, e1, post, hes, ho, _, _, hpre⟩
            rcases head_or hes hpre with ⟨_, h1, _⟩ | ⟨h1, _⟩
            · show (Except.ok (some e.options) : Except String (Option Opts)) = .ok (some o)
              rw [← h1, ho]
            · rw [hm] at h1; cases h1
        | false =>
          show validate rest key host addr pr ca = .ok (some o) ↔ _
          rw [ih]
          constructor
          · intro h; exact shift h (fun _ => hm)
          · rintro ⟨pre, e1, post, hes, ho, hap1, hmt, hpre⟩
            rcases head_or hes hpre with ⟨_, h1, _⟩ | ⟨_, ps, hps, hrest⟩
            · rw [h1, hm] at hmt; cases hmt
            · exact ⟨ps, e1, post, hrest, ho, hap1, hmt,
                fun e' he' => hpre e' (hps ▸ List.mem_cons_of_mem _ he')⟩
    · rw [if_neg ha, ih]
      constructor
      · intro h; exact shift h (fun hx => absurd hx ha)
      · rintro ⟨pre, e1, post, hes, ho, hap1, hmt, hpre⟩
        cases pre with
        | nil =>
          simp only [List.nil_append, List.cons.injEq] at hes
          exact absurd (hes.1 ▸ hap1) ha
        | cons p ps =>
          simp only [List.cons_append, List.cons.injEq] at hes
          exact ⟨ps, e1, post, hes.2, ho, hap1, hmt, fun e' he' => hpre e' (List.mem_cons_of_mem _ he')⟩

theorem loadLines_append (x509 : Bool) (imp : AKImporter) (l1 l2 : List Str) :
    loadLines x509 imp (l1 ++ l2) =
      match loadLines x509 imp l1 with
      | .error c => .error c
      | .ok r1 => match loadLines x509 imp l2 with
        | .error c => .error c
        | .ok r2 => .ok (r1 ++ r2) := by
  induction l1 with
  | nil =>
    simp only [List.nil_append, loadLines]
    cases loadLines x509 imp l2 <;> simp
  | cons x xs ih =>
    simp only [List.cons_append, loadLines, ih]
    cases lineEntry x509 imp x with
    | error c => rfl
    | ok rs =>
      cases loadLines x509 imp xs with
      | error c => rfl
      | ok r1 =>
        cases loadLines x509 imp l2 with
        | error c => rfl
        | ok r2 => simp

end AsyncsshModel.AuthKeys
