import AsyncsshModel.Model.HostileDer
/-
  Lemmas for the C10 DER decoder: recursion depth and number of calls are linear in the input, the model's fuel
  is always sufficient, a recursion limit of length/2 + 1 levels is never exceeded, and a nest of d SEQUENCEs
  defeats every limit below d + 1 (defect F6).
-/
namespace AsyncsshModel.Hostile.Der
open AsyncsshModel AsyncsshModel.Wire

theorem parseHighTag_len : ∀ (b : Bytes) (acc t : Nat) (r : Bytes), parseHighTag acc b = some (t, r) → r.length + 1 ≤ b.length
  | [], acc, t, r, h => by simp [parseHighTag] at h
  | x :: xs, acc, t, r, h => by
    unfold parseHighTag at h
    split at h
    · simp at h; simp [← h.2]
    · have := parseHighTag_len xs _ t r h
      simp; omega

theorem parseIdent_len {data : Bytes} {cls : Nat} {cons : Bool} {tag : Nat} {r : Bytes}
    (h : parseIdent data = some (cls, cons, tag, r)) : r.length + 1 ≤ data.length := by
  unfold parseIdent at h
  split at h
  · cases h
  · rename_i b rest
    simp only at h
    split at h
    · cases hp : parseHighTag 0 rest with
      | none => simp [hp] at h
      | some p =>
        obtain ⟨t, r'⟩ := p
        simp [hp] at h
        have := parseHighTag_len rest 0 t r' hp
        simp [← h.2.2.2]; omega
    · simp at h; simp [← h.2.2.2]

theorem parseLenContent_len {a content rest : Bytes}
    (h : parseLenContent a = some (content, rest)) : content.length + rest.length + 1 ≤ a.length := by
  unfold parseLenContent at h
  split at h
  · cases h
  · rename_i lb r
    split at h
    · simp only at h
      split at h
      · cases h
      · split at h
        · cases h
        · simp at h
          obtain ⟨rfl, rfl⟩ := h
          simp; omega
    · split at h
      · cases h
      · simp only at h
        split at h
        · cases h
        · simp at h
          obtain ⟨rfl, rfl⟩ := h
          simp; omega

/-- the bounds proved together for a call and for an item loop -/
structure Bounded (o : Out) (len : Nat) : Prop where
  depth : 2 * o.depth ≤ len + 2
  calls : o.calls ≤ len + 1
  ok : ∀ n, o.res = .ok n → n ≤ len ∧ o.calls ≤ n

theorem bounds (s : Nat) : ∀ (fuel lim : Nat) (data : Bytes),
    Bounded (decodePartial s fuel lim data) data.length ∧ Bounded (decodeItems s fuel lim data) data.length := by
  intro fuel
  induction fuel with
  | zero =>
    intro lim data
    constructor
    · simp only [decodePartial]; exact ⟨by simp, by simp, by simp⟩
    · cases data with
      | nil => simp only [decodeItems]; exact ⟨by simp, by simp, by simp⟩
      | cons b bs => simp only [decodeItems]; exact ⟨by simp, by simp, by simp⟩
  | succ fuel ih =>
    intro lim data
    have hP : Bounded (decodePartial s (fuel + 1) lim data) data.length := by
      cases lim with
      | zero => simp only [decodePartial]; exact ⟨by simp, by simp, by simp⟩
      | succ lim =>
        simp only [decodePartial]
        split
        · exact ⟨by simp, by simp, by simp⟩
        · rename_i hlen
          split
          · exact ⟨by simp, by simp, by simp⟩
          · rename_i cls cons tag afterIdent hid
            have h1 := parseIdent_len hid
            split
            · exact ⟨by simp, by simp, by simp⟩
            · rename_i content rest hlc
              have h2 := parseLenContent_len hlc
              split
              · refine ⟨by simp, by simp, ?_⟩
                intro n hn
                cases hl : leaf s tag cons content with
                | error e => simp [hl, Except.map] at hn
                | ok u => simp [hl, Except.map] at hn; exact ⟨by omega, by simp; omega⟩
              · split
                · split
                  · exact ⟨by simp, by simp, by simp⟩
                  · obtain ⟨hd, hc, hok⟩ := (ih lim content).2
                    refine ⟨by simp; omega, by simp; omega, ?_⟩
                    intro n hn
                    cases hr : (decodeItems s fuel lim content).res with
                    | error e => simp [hr, Except.map] at hn
                    | ok m =>
                      simp [hr, Except.map] at hn
                      have := hok m hr
                      simp; omega
                · split
                  · obtain ⟨hd, hc, hok⟩ := (ih lim content).1
                    refine ⟨by simp; omega, by simp; omega, ?_⟩
                    intro n hn
                    simp only at hn
                    split at hn
                    · cases hn
                    · rename_i m hm
                      split at hn
                      · cases hn
                      · simp at hn
                        have := hok m hm
                        simp; omega
                  · refine ⟨by simp, by simp, ?_⟩
                    intro n hn
                    simp at hn; exact ⟨by omega, by simp; omega⟩
    refine ⟨hP, ?_⟩
    cases data with
    | nil => simp only [decodeItems]; exact ⟨by simp, by simp, by simp⟩
    | cons b bs =>
      simp only [decodeItems]
      obtain ⟨hd, hc, hok⟩ := (ih lim (b :: bs)).1
      split
      · rename_i e he
        exact ⟨by simpa using hd, by simpa using hc, by simp⟩
      · rename_i n hn
        have hn' := hok n hn
        obtain ⟨hd2, hc2, hok2⟩ := (ih lim ((b :: bs).drop n)).2
        have hlen : ((b :: bs).drop n).length = (b :: bs).length - n := by simp
        refine ⟨?_, ?_, ?_⟩
        · simp only; rw [hlen] at hd2
          have : 2 * max (decodePartial s fuel lim (b :: bs)).depth (decodeItems s fuel lim ((b :: bs).drop n)).depth ≤ (b :: bs).length + 2 := by
            rcases Nat.le_total (decodePartial s fuel lim (b :: bs)).depth (decodeItems s fuel lim ((b :: bs).drop n)).depth with h | h
            · rw [Nat.max_eq_right h]; omega
            · rw [Nat.max_eq_left h]; omega
          exact this
        · simp only; rw [hlen] at hc2; omega
        · intro m hm
          cases hr : (decodeItems s fuel lim ((b :: bs).drop n)).res with
          | error e => simp [hr, Except.map] at hm
          | ok k =>
            simp [hr, Except.map] at hm
            have := hok2 k hr
            rw [hlen] at this
            simp only; omega

theorem leaf_err {s tag : Nat} {cons : Bool} {content : Bytes} {e : DerErr}
    (h : leaf s tag cons content = .error e) : e ≠ .fuel ∧ e ≠ .recursion := by
  unfold leaf at h
  repeat' split at h
  all_goals first | (cases h; done) | (cases h; exact ⟨by decide, by decide⟩) | (simp at h; subst h; exact ⟨by decide, by decide⟩)

/-- a successful `der_decode_partial` consumed at least the two header bytes -/
theorem partial_ok_ge2 (s fuel lim : Nat) (data : Bytes) (n : Nat)
    (h : (decodePartial s fuel lim data).res = .ok n) : 2 ≤ n := by
  cases fuel with
  | zero => simp [decodePartial] at h
  | succ fuel =>
    cases lim with
    | zero => simp [decodePartial] at h
    | succ lim =>
      simp only [decodePartial] at h
      split at h
      · simp at h
      · split at h
        · simp at h
        · rename_i cls cons tag afterIdent hid
          have h1 := parseIdent_len hid
          split at h
          · simp at h
          · rename_i content rest hlc
            have h2 := parseLenContent_len hlc
            split at h
            · cases hl : leaf s tag cons content with
              | error e => simp [hl, Except.map] at h
              | ok u => simp [hl, Except.map] at h; omega
            · split at h
              · split at h
                · simp at h
                · cases hr : (decodeItems s fuel lim content).res with
                  | error e => simp [hr, Except.map] at h
                  | ok m => simp [hr, Except.map] at h; omega
              · split at h
                · simp only at h
                  split at h
                  · cases h
                  · split at h
                    · cases h
                    · simp at h; omega
                · simp at h; omega

theorem no_fuel_error (s : Nat) : ∀ (fuel lim : Nat) (data : Bytes),
    (data.length + 1 ≤ fuel → (decodePartial s fuel lim data).res ≠ .error .fuel) ∧
    (data.length + 2 ≤ fuel → (decodeItems s fuel lim data).res ≠ .error .fuel) := by
  intro fuel
  induction fuel with
  | zero => intro lim data; constructor <;> (intro h; omega)
  | succ fuel ih =>
    intro lim data
    constructor
    · intro hf
      cases lim with
      | zero => simp [decodePartial]
      | succ lim =>
        simp only [decodePartial]
        split
        · simp
        · split
          · simp
          · rename_i cls cons tag afterIdent hid
            have h1 := parseIdent_len hid
            split
            · simp
            · rename_i content rest hlc
              have h2 := parseLenContent_len hlc
              split
              · cases hl : leaf s tag cons content with
                | error e => simp [Except.map]; exact (leaf_err hl).1
                | ok u => simp [Except.map]
              · split
                · split
                  · simp
                  · have := (ih lim content).2 (by omega)
                    cases hr : (decodeItems s fuel lim content).res with
                    | error e => simp [Except.map]; intro he; rw [he] at hr; exact this hr
                    | ok m => simp [Except.map]
                · split
                  · have := (ih lim content).1 (by omega)
                    simp only
                    split
                    · rename_i e he; intro h; simp at h; rw [h] at he; exact this he
                    · split <;> simp
                  · simp
    · intro hf
      cases data with
      | nil => simp [decodeItems]
      | cons b bs =>
        simp only [decodeItems]
        have h1 := (ih lim (b :: bs)).1 (by simp at hf ⊢; omega)
        split
        · rename_i e he; simp; intro h; rw [h] at he; exact h1 he
        · rename_i n hn
          have hge := partial_ok_ge2 s fuel lim (b :: bs) n hn
          have h2 := (ih lim ((b :: bs).drop n)).2 (by simp at hf ⊢; omega)
          cases hr : (decodeItems s fuel lim ((b :: bs).drop n)).res with
          | error e => simp [Except.map]; intro he; rw [he] at hr; exact h2 hr
          | ok k => simp [Except.map]

theorem no_recursion_error (s : Nat) : ∀ (fuel lim : Nat) (data : Bytes),
    (data.length / 2 + 1 ≤ lim → (decodePartial s fuel lim data).res ≠ .error .recursion) ∧
    ((data = [] ∨ data.length / 2 + 1 ≤ lim) → (decodeItems s fuel lim data).res ≠ .error .recursion) := by
  intro fuel
  induction fuel with
  | zero =>
    intro lim data
    constructor
    · intro _; simp [decodePartial]
    · intro _; cases data <;> simp [decodeItems]
  | succ fuel ih =>
    intro lim data
    constructor
    · intro hf
      cases lim with
      | zero => omega
      | succ lim =>
        simp only [decodePartial]
        split
        · simp
        · rename_i hlen
          split
          · simp
          · rename_i cls cons tag afterIdent hid
            have h1 := parseIdent_len hid
            split
            · simp
            · rename_i content rest hlc
              have h2 := parseLenContent_len hlc
              split
              · cases hl : leaf s tag cons content with
                | error e => simp [Except.map]; exact (leaf_err hl).2
                | ok u => simp [Except.map]
              · split
                · split
                  · simp
                  · have := (ih lim content).2 (Or.inr (by omega))
                    cases hr : (decodeItems s fuel lim content).res with
                    | error e => simp [Except.map]; intro he; rw [he] at hr; exact this hr
                    | ok m => simp [Except.map]
                · split
                  · have := (ih lim content).1 (by omega)
                    simp only
                    split
                    · rename_i e he; intro h; simp at h; rw [h] at he; exact this he
                    · split <;> simp
                  · simp
    · intro hf
      cases data with
      | nil => simp [decodeItems]
      | cons b bs =>
        have hf' : (b :: bs).length / 2 + 1 ≤ lim := by
          rcases hf with h | h
          · cases h
          · exact h
        simp only [decodeItems]
        have h1 := (ih lim (b :: bs)).1 hf'
        split
        · rename_i e he; simp; intro h; rw [h] at he; exact h1 he
        · rename_i n hn
          have h2 := (ih lim ((b :: bs).drop n)).2 (Or.inr (by
            have : ((b :: bs).drop n).length ≤ (b :: bs).length := by simp
            omega))
          cases hr : (decodeItems s fuel lim ((b :: bs).drop n)).res with
          | error e => simp [Except.map]; intro he; rw [he] at hr; exact h2 hr
          | ok k => simp [Except.map]


/-! ### nested SEQUENCEs: the F6 family -/


theorem parseIdent_seq (X : Bytes) : parseIdent (0x30 :: X) = some (0, true, 16, X) := by
  simp [parseIdent]

theorem parseLen_lenOctets (inner : Bytes) (h : inner.length < 65536) :
    parseLenContent (lenOctets inner.length ++ inner) = some (inner, []) := by
  unfold lenOctets
  split
  · rename_i h1
    have hb : (UInt8.ofNat inner.length).toNat = inner.length := by
      simp; omega
    have hlt : ¬ (UInt8.ofNat inner.length > 0x80) := by
      rw [gt_iff_lt, UInt8.lt_iff_toNat_lt, hb]; simp; omega
    have hne : ¬ (UInt8.ofNat inner.length = 0x80) := by
      intro he; have := congrArg UInt8.toNat he; rw [hb] at this; simp at this; omega
    simp [parseLenContent, hlt, hne, hb]
  · split
    · rename_i h1 h2
      have hb : (UInt8.ofNat inner.length).toNat = inner.length := by
        simp; omega
      simp [parseLenContent, beNat, hb]
    · rename_i h1 h2
      have hhi : (UInt8.ofNat (inner.length / 256)).toNat = inner.length / 256 := by
        simp; omega
      have hlo : (UInt8.ofNat (inner.length % 256)).toNat = inner.length % 256 := by
        simp
      have : inner.length / 256 * 256 + inner.length % 256 = inner.length := by omega
      simp [parseLenContent, beNat, hhi]
      rw [this]; simp

theorem nest_length_le (leaf : Bytes) : ∀ d, (nest d leaf).length ≤ leaf.length + 5 * d
  | 0 => by simp [nest]
  | d + 1 => by
    have ih := nest_length_le leaf d
    have : (lenOctets (nest d leaf).length).length ≤ 4 := by
      unfold lenOctets; repeat' split
      all_goals simp
    simp only [nest, List.length_cons, List.length_append]
    omega

theorem nest_ne_nil (leaf : Bytes) (hl : leaf ≠ []) : ∀ d, nest d leaf ≠ []
  | 0 => by simpa [nest] using hl
  | d + 1 => by simp [nest]

/-- a nest of `d` SEQUENCEs around a leaf needs `d + 1` levels: with fewer the decoder stops with
    RecursionError -/
theorem nest_recursion (s : Nat) (leaf : Bytes) (hl : leaf ≠ []) :
    ∀ (d fuel lim : Nat), lim ≤ d → 2 * d + 1 ≤ fuel → (nest d leaf).length < 65536 →
      (decodePartial s fuel lim (nest d leaf)).res = .error .recursion
  | 0, fuel, lim, hlim, hf, _ => by
    have : lim = 0 := by omega
    subst this
    cases fuel with
    | zero => omega
    | succ f => simp [decodePartial]
  | d + 1, fuel, lim, hlim, hf, hlen => by
    cases fuel with
    | zero => omega
    | succ f =>
      cases lim with
      | zero => simp [decodePartial]
      | succ l =>
        have hinner : (nest d leaf).length < 65536 := by
          simp only [nest, List.length_cons, List.length_append] at hlen; omega
        have hne := nest_ne_nil leaf hl d
        obtain ⟨b, bs, hbs⟩ : ∃ b bs, nest d leaf = b :: bs := by
          cases hn : nest d leaf with
          | nil => exact absurd hn hne
          | cons b bs => exact ⟨b, bs, rfl⟩
        cases f with
        | zero => omega
        | succ f' =>
          have ih := nest_recursion s leaf hl d f' l (by omega) (by omega) hinner
          have h2 : ¬ (nest (d + 1) leaf).length < 2 := by
            simp only [nest, List.length_cons, List.length_append]
            have : 0 < (nest d leaf).length := List.length_pos_iff.mpr hne
            omega
          simp only [decodePartial, h2, if_false]
          simp only [nest, List.cons_append]
          rw [parseIdent_seq]
          simp only []
          rw [parseLen_lenOctets _ hinner]
          simp only [hbs, decodeItems]
          rw [← hbs, ih]
          have hmem : ¬ (16 ∈ primitiveTags) := by decide
          simp [Except.map, hmem]
end AsyncsshModel.Hostile.Der
