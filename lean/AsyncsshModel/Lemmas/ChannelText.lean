import AsyncsshModel.Model.ChannelText
import AsyncsshModel.Lemmas.ChannelCodec
/-
  The mark-framed text layer (`Model/ChannelText.lean`): chunk independence of every byte machine, round trips of
  the body codecs UTF-8 / UTF-16-LE / UTF-32-LE, stripping of the mark, the stream produced by one incremental
  encoder, and what per-write encoding does instead.
-/
namespace AsyncsshModel.ChannelText
open AsyncsshModel AsyncsshModel.Channel AsyncsshModel.ChannelCodec

/-! ### chunk independence, for every byte machine -/

theorem run_append (m : ByteDec) (st : m.σ) (a b : List Nat) :
    run m st (a ++ b) =
      match run m st a with
      | none => none
      | some (st1, o1) =>
        match run m st1 b with
        | none => none
        | some (st2, o2) => some (st2, o1 ++ o2) := by
  induction a generalizing st with
  | nil =>
    simp only [List.nil_append, run]
    cases run m st b with
    | none => rfl
    | some r => simp
  | cons x rest ih =>
    simp only [List.cons_append, run]
    cases hs : m.step st x with
    | none => rfl
    | some r =>
      obtain ⟨st1, o⟩ := r
      simp only
      rw [ih st1]
      cases run m st1 rest with
      | none => rfl
      | some r1 =>
        obtain ⟨st2, o1⟩ := r1
        simp only
        cases run m st2 b with
        | none => rfl
        | some r2 => simp [List.append_assoc]

theorem runChunks_flatten (m : ByteDec) (st : m.σ) (cs : List (List Nat)) :
    (runChunks m st cs).map (fun r => (r.1, r.2.flatten)) = run m st cs.flatten := by
  induction cs generalizing st with
  | nil => rfl
  | cons c rest ih =>
    simp only [runChunks, List.flatten_cons]
    rw [run_append]
    cases run m st c with
    | none => rfl
    | some r =>
      obtain ⟨st1, o⟩ := r
      simp only
      rw [← ih st1]
      cases runChunks m st1 rest with
      | none => rfl
      | some r2 => simp

/-! ### round trips of the body codecs -/

/-- a body codec inverts its encoder on the code points satisfying `valid`, character by character -/
def RoundTrip (m : ByteDec) (enc : Nat → List Nat) (valid : Nat → Prop) : Prop :=
  ∀ cp, valid cp → run m m.init (enc cp) = some (m.init, [cp])

theorem RoundTrip.all {m : ByteDec} {enc : Nat → List Nat} {valid : Nat → Prop} (h : RoundTrip m enc valid) :
    ∀ cps : List Nat, (∀ cp ∈ cps, valid cp) → run m m.init (encAll enc cps) = some (m.init, cps)
  | [], _ => rfl
  | cp :: rest, hv => by
    have h1 : encAll enc (cp :: rest) = enc cp ++ encAll enc rest := by simp [encAll]
    rw [h1, run_append, h cp (hv cp (by simp))]
    simp only
    rw [RoundTrip.all h rest (fun c hc => hv c (List.mem_cons_of_mem _ hc))]
    simp

theorem run_utf8_eq (st : St) (bs : List Nat) : run utf8Dec st bs = decodeN st bs := by
  induction bs generalizing st with
  | nil => rfl
  | cons b rest ih =>
    simp only [run, decodeN, utf8Dec]
    cases stepByte st b with
    | none => rfl
    | some r =>
      obtain ⟨st1, o⟩ := r
      simp only [Option.map_some]
      have := ih st1
      simp only [utf8Dec] at this
      rw [this]
      cases decodeN st1 rest <;> rfl

theorem utf8_roundtrip : RoundTrip utf8Dec utf8Enc isScalar := by
  intro cp h
  have := decode_encCp cp h
  rw [decode_eq_decodeN] at this
  show run utf8Dec .s0 ((encCp cp).map UInt8.toNat) = some (.s0, [cp])
  rw [run_utf8_eq]; exact this

theorem utf32_roundtrip : RoundTrip utf32Dec utf32Enc isScalar := by
  intro cp h
  unfold isScalar at h
  have hcp : cp % 256 + 256 * (cp / 256 % 256) + 65536 * (cp / 65536 % 256) + 16777216 * (cp / 16777216 % 256) = cp := by
    omega
  simp only [utf32Enc, run, utf32Dec, step32, hcp]
  have : cp < 0xD800 ∨ (0xE000 ≤ cp ∧ cp < 0x110000) := h
  simp [this]

theorem utf16_bmp (cp : Nat) (h : cp < 0xD800 ∨ (0xE000 ≤ cp ∧ cp < 0x110000)) (h1 : cp < 0x10000) :
    run utf16Dec utf16Dec.init [cp % 256, cp / 256] = some (utf16Dec.init, [cp]) := by
  have hu : cp % 256 + 256 * (cp / 256) = cp := by omega
  have a1 : ¬ (0xD800 ≤ cp ∧ cp < 0xDC00) := by omega
  have a2 : ¬ (0xDC00 ≤ cp ∧ cp < 0xE000) := by omega
  simp only [run, utf16Dec, step16, hu, a1, a2, if_false]
  simp

theorem utf16_pair (q r : Nat) (hq1 : q < 1024) (hr1 : r < 1024) :
    run utf16Dec utf16Dec.init
        [(0xD800 + q) % 256, (0xD800 + q) / 256, (0xDC00 + r) % 256, (0xDC00 + r) / 256] =
      some (utf16Dec.init, [0x10000 + (q * 1024 + r)]) := by
  have hhi : (0xD800 + q) % 256 + 256 * ((0xD800 + q) / 256) = 0xD800 + q := by omega
  have hlo : (0xDC00 + r) % 256 + 256 * ((0xDC00 + r) / 256) = 0xDC00 + r := by omega
  have b1 : 0xD800 ≤ 0xD800 + q ∧ 0xD800 + q < 0xDC00 := by omega
  have b2 : 0xDC00 ≤ 0xDC00 + r ∧ 0xDC00 + r < 0xE000 := by omega
  simp only [run, utf16Dec, step16, hhi, hlo, b1, b2, and_self, if_true]
  simp only [List.append_nil, List.nil_append, Option.some.injEq, Prod.mk.injEq, true_and, List.cons.injEq,
    and_true]
  omega

theorem utf16_roundtrip : RoundTrip utf16Dec utf16Enc isScalar := by
  intro cp h
  unfold isScalar at h
  by_cases h1 : cp < 0x10000
  · have e : utf16Enc cp = [cp % 256, cp / 256] := by simp [utf16Enc, h1]
    rw [e]; exact utf16_bmp cp h h1
  · have e : utf16Enc cp =
        [(0xD800 + (cp - 0x10000) / 1024) % 256, (0xD800 + (cp - 0x10000) / 1024) / 256,
         (0xDC00 + (cp - 0x10000) % 1024) % 256, (0xDC00 + (cp - 0x10000) % 1024) / 256] := by
      simp [utf16Enc, h1]
    rw [e, utf16_pair ((cp - 0x10000) / 1024) ((cp - 0x10000) % 1024) (by omega) (by omega)]
    have : 0x10000 + ((cp - 0x10000) / 1024 * 1024 + (cp - 0x10000) % 1024) = cp := by omega
    rw [this]

/-! ### the mark -/

theorem run_step_silent (m : ByteDec) (st st1 : m.σ) (b : Nat) (rest : List Nat)
    (h : m.step st b = some (st1, [])) : run m st (b :: rest) = run m st1 rest := by
  simp only [run, h]
  cases run m st1 rest with
  | none => rfl
  | some r => simp

/-- once in the body, the framed decoder is the body decoder -/
theorem run_body (m : ByteDec) (bom : List Nat) (opt : Bool) (s : m.σ) (bs : List Nat) :
    run (bomMachine m bom opt) (BomSt.body s) bs =
      (run m s bs).map (fun r => (BomSt.body r.1, r.2)) := by
  induction bs generalizing s with
  | nil => rfl
  | cons b rest ih =>
    simp only [run, bomMachine]
    cases m.step s b with
    | none => rfl
    | some r =>
      obtain ⟨s1, o⟩ := r
      simp only [Option.map_some]
      have := ih s1
      simp only [bomMachine] at this
      rw [this]
      cases run m s1 rest with
      | none => rfl
      | some r2 => rfl

/-- the mark at the start of the stream is consumed, whatever the packet boundaries -/
theorem run_mark (m : ByteDec) (bom : List Nat) (opt : Bool) (k : Nat) (hk : k < bom.length) (rest : List Nat) :
    run (bomMachine m bom opt) (BomSt.start k) (bom.drop k ++ rest) =
      run (bomMachine m bom opt) (BomSt.body m.init) rest := by
  induction hn : bom.length - k generalizing k with
  | zero => omega
  | succ n ih =>
    rw [List.drop_eq_getElem_cons hk, List.cons_append]
    by_cases he : k + 1 = bom.length
    · have hs : (bomMachine m bom opt).step (BomSt.start k) bom[k] = some (BomSt.body m.init, []) := by
        simp [bomMachine, he]
      rw [run_step_silent _ _ _ _ _ hs]
      have : bom.drop (k + 1) = [] := by rw [List.drop_eq_nil_iff]; omega
      rw [this, List.nil_append]
    · have hs : (bomMachine m bom opt).step (BomSt.start k) bom[k] = some (BomSt.start (k + 1), []) := by
        simp [bomMachine, he]
      rw [run_step_silent _ _ _ _ _ hs]
      exact ih (k + 1) (by omega) (by omega)

/-- a mark-less encoding (`bom = []`): the first byte already belongs to the body -/
theorem run_nomark (m : ByteDec) (b : Nat) (rest : List Nat) :
    run (bomMachine m [] true) (BomSt.start 0) (b :: rest) =
      (run m m.init (b :: rest)).map (fun r => (BomSt.body r.1, r.2)) := by
  simp only [run]
  have hs : (bomMachine m [] true).step (BomSt.start 0) b =
      (run m m.init [b]).map (fun r => (BomSt.body r.1, r.2)) := by
    simp [bomMachine]
  rw [hs]
  simp only [run]
  cases m.step m.init b with
  | none => rfl
  | some r =>
    obtain ⟨s1, o⟩ := r
    simp only [Option.map_some, List.append_nil]
    have := run_body m [] true s1 rest
    rw [this]
    cases run m s1 rest with
    | none => rfl
    | some r2 => rfl

theorem encAll_append (enc : Nat → List Nat) (a b : List Nat) :
    encAll enc (a ++ b) = encAll enc a ++ encAll enc b := by
  simp [encAll]

theorem RoundTrip.enc_ne_nil {m : ByteDec} {enc : Nat → List Nat} {valid : Nat → Prop}
    (h : RoundTrip m enc valid) (cp : Nat) (hv : valid cp) : enc cp ≠ [] := by
  intro he
  have := h cp hv
  rw [he] at this
  simp [run] at this

/-- a codec of the family: the mark is there, or it is a mark-less encoding -/
def Framed (t : TextCodec) : Prop := t.bom ≠ [] ∨ (t.bom = [] ∧ t.optional = true)

/-- the whole stream: mark, then text -/
theorem run_stream (t : TextCodec) (valid : Nat → Prop) (hf : Framed t) (rt : RoundTrip t.dec t.enc valid)
    (cps : List Nat) (hne : cps ≠ []) (hv : ∀ cp ∈ cps, valid cp) :
    run t.machine (BomSt.start 0) (t.bom ++ encAll t.enc cps) = some (BomSt.body t.dec.init, cps) := by
  have hbody : run t.machine (BomSt.body t.dec.init) (encAll t.enc cps) = some (BomSt.body t.dec.init, cps) := by
    unfold TextCodec.machine
    rw [run_body, rt.all cps hv]; rfl
  cases hf with
  | inl hb =>
    have hk : 0 < t.bom.length := by
      cases hbm : t.bom with
      | nil => exact absurd hbm hb
      | cons x xs => simp
    have := run_mark t.dec t.bom t.optional 0 hk (encAll t.enc cps)
    rw [List.drop_zero] at this
    unfold TextCodec.machine at hbody ⊢
    rw [this]; exact hbody
  | inr hb =>
    obtain ⟨hb1, hb2⟩ := hb
    cases cps with
    | nil => exact absurd rfl hne
    | cons c rest =>
      have hc : t.enc c ≠ [] := rt.enc_ne_nil c (hv c (by simp))
      have he : encAll t.enc (c :: rest) = t.enc c ++ encAll t.enc rest := by simp [encAll]
      cases hec : t.enc c with
      | nil => exact absurd hec hc
      | cons b bs =>
        have hall := rt.all (c :: rest) hv
        rw [he, hec] at hall ⊢
        unfold TextCodec.machine
        rw [hb1, hb2, List.nil_append, List.cons_append, run_nomark]
        rw [List.cons_append] at hall
        rw [hall]; rfl

theorem runChunks_of_run (m : ByteDec) (st st' : m.σ) (cs : List (List Nat)) (o : List Nat)
    (h : run m st cs.flatten = some (st', o)) :
    ∃ outs, runChunks m st cs = some (st', outs) ∧ outs.flatten = o := by
  have := runChunks_flatten m st cs
  rw [h] at this
  cases hr : runChunks m st cs with
  | none => rw [hr] at this; simp at this
  | some r =>
    rw [hr] at this
    simp only [Option.map_some, Option.some.injEq, Prod.mk.injEq] at this
    exact ⟨r.2, by rw [← this.1], this.2⟩

/-! ### one incremental encoder, one incremental decoder -/

/-- One write, any packetisation: the text that comes out of the packets of the write is the text written, and
    the decoder is left in the state that belongs to the encoder's. -/
theorem write_roundtrip (t : TextCodec) (valid : Nat → Prop) (hf : Framed t) (rt : RoundTrip t.dec t.enc valid)
    (sent : Bool) (w : List Nat) (hv : ∀ cp ∈ w, valid cp) (cs : List (List Nat))
    (hcs : cs.flatten = (encodeWrite t sent w).2) :
    ∃ outs, runChunks t.machine (stOf t sent) cs = some (stOf t (encodeWrite t sent w).1, outs) ∧
      outs.flatten = w := by
  apply runChunks_of_run
  rw [hcs]
  by_cases hw : w = []
  · subst hw; simp [encodeWrite, run]
  · have hw' : w.isEmpty = false := by cases w with | nil => exact absurd rfl hw | cons _ _ => rfl
    cases sent with
    | true =>
      simp only [encodeWrite, hw', Bool.false_eq_true, if_false, if_true, List.nil_append, stOf]
      unfold TextCodec.machine
      rw [run_body, rt.all w hv]; rfl
    | false =>
      simp only [encodeWrite, hw', Bool.false_eq_true, if_false, stOf, if_true]
      exact run_stream t valid hf rt w hw hv

/-- All writes, every packetisation: write by write, the text delivered is the text written. -/
theorem writes_roundtrip (t : TextCodec) (valid : Nat → Prop) (hf : Framed t) (rt : RoundTrip t.dec t.enc valid)
    (sent : Bool) (ws : List (List Nat)) (hv : ∀ w ∈ ws, ∀ cp ∈ w, valid cp) (css : List (List (List Nat)))
    (hcss : css.map List.flatten = encodeWrites t sent ws) :
    ∃ sent', runWrites t.machine (stOf t sent) css = some (stOf t sent', ws) := by
  induction ws generalizing sent css with
  | nil =>
    cases css with
    | nil => exact ⟨sent, rfl⟩
    | cons _ _ => simp [encodeWrites] at hcss
  | cons w rest ih =>
    cases css with
    | nil => simp [encodeWrites] at hcss
    | cons cs css' =>
      simp only [encodeWrites, List.map_cons, List.cons.injEq] at hcss
      obtain ⟨outs, h1, h2⟩ := write_roundtrip t valid hf rt sent w (hv w (by simp)) cs hcss.1
      obtain ⟨s', h3⟩ := ih (encodeWrite t sent w).1 (fun x hx => hv x (List.mem_cons_of_mem _ hx)) css' hcss.2
      refine ⟨s', ?_⟩
      simp only [runWrites, h1, h3, h2]
      rfl

/-- the bytes of all writes through one encoder are the bytes of one write of the whole text -/
theorem encodeWrites_flatten (t : TextCodec) (sent : Bool) (ws : List (List Nat)) :
    (encodeWrites t sent ws).flatten = (encodeWrite t sent ws.flatten).2 := by
  induction ws generalizing sent with
  | nil => simp [encodeWrites, encodeWrite]
  | cons w rest ih =>
    simp only [encodeWrites, List.flatten_cons, ih]
    cases w with
    | nil => simp [encodeWrite]
    | cons c w' =>
      cases hr : rest.flatten with
      | nil => simp [encodeWrite]
      | cons d r' =>
        rw [← hr]
        cases sent <;> simp [encodeWrite, hr] <;>
          exact (encAll_append t.enc (c :: w') (d :: r')).symm

/-- The whole channel, packet boundaries anywhere (also across writes): the concatenated text delivered is the
    concatenated text written, and nothing is left in the decoder. -/
theorem stream_roundtrip (t : TextCodec) (valid : Nat → Prop) (hf : Framed t) (rt : RoundTrip t.dec t.enc valid)
    (ws : List (List Nat)) (hv : ∀ w ∈ ws, ∀ cp ∈ w, valid cp) (cs : List (List Nat))
    (hcs : cs.flatten = (encodeWrites t false ws).flatten) :
    ∃ st outs, runChunks t.machine (BomSt.start 0) cs = some (st, outs) ∧ outs.flatten = ws.flatten ∧
      Clean t st := by
  rw [encodeWrites_flatten] at hcs
  have hv' : ∀ cp ∈ ws.flatten, valid cp := by
    intro cp hcp
    rw [List.mem_flatten] at hcp
    obtain ⟨w, hw, hc⟩ := hcp
    exact hv w hw cp hc
  obtain ⟨outs, h1, h2⟩ := write_roundtrip t valid hf rt false ws.flatten hv' cs hcs
  refine ⟨_, outs, h1, h2, ?_⟩
  unfold Clean stOf
  cases (encodeWrite t false ws.flatten).1 <;> simp

/-! ### every write encoded on its own -/

theorem freshTail_valid (valid : Nat → Prop) (hm : valid 0xFEFF) (ws : List (List Nat))
    (hv : ∀ w ∈ ws, ∀ cp ∈ w, valid cp) : ∀ cp ∈ freshTail ws, valid cp := by
  intro cp hcp
  unfold freshTail at hcp
  rw [List.mem_flatMap] at hcp
  obtain ⟨w, hw, hc⟩ := hcp
  by_cases he : w.isEmpty
  · simp [he] at hc
  · simp only [he, Bool.false_eq_true, if_false, List.mem_cons] at hc
    cases hc with
    | inl h => rw [h]; exact hm
    | inr h => exact hv w hw cp h

/-- the bytes of separately encoded writes are the encoding of the text with U+FEFF in front of every write -/
theorem fresh_stream (t : TextCodec) (hm : t.enc 0xFEFF = t.bom) (ws : List (List Nat)) :
    (ws.map (encodeFresh t)).flatten = encAll t.enc (freshTail ws) := by
  induction ws with
  | nil => rfl
  | cons w rest ih =>
    have e : freshTail (w :: rest) = (if w.isEmpty then [] else 0xFEFF :: w) ++ freshTail rest := by
      simp [freshTail]
    rw [e, encAll_append, ← ih, List.map_cons, List.flatten_cons]
    congr 1
    by_cases he : w.isEmpty
    · simp [encodeFresh, he, encAll]
    · simp [encodeFresh, he, encAll, hm]

/-- What the receiver gets when every write is encoded on its own: the mark of the first write is stripped, the
    marks of all later writes arrive as U+FEFF characters in the text. -/
theorem fresh_decodes (t : TextCodec) (valid : Nat → Prop) (hb : t.bom ≠ []) (hm : t.enc 0xFEFF = t.bom)
    (rt : RoundTrip t.dec t.enc valid) (hmv : valid 0xFEFF)
    (ws : List (List Nat)) (hv : ∀ w ∈ ws, ∀ cp ∈ w, valid cp) (x : List Nat)
    (hx : freshTail ws = 0xFEFF :: x) :
    run t.machine (BomSt.start 0) (ws.map (encodeFresh t)).flatten = some (BomSt.body t.dec.init, x) := by
  rw [fresh_stream t hm, hx]
  have e : encAll t.enc (0xFEFF :: x) = t.bom ++ encAll t.enc x := by simp [encAll, hm]
  rw [e]
  have hk : 0 < t.bom.length := by
    cases hbm : t.bom with
    | nil => exact absurd hbm hb
    | cons _ _ => simp
  have := run_mark t.dec t.bom t.optional 0 hk (encAll t.enc x)
  rw [List.drop_zero] at this
  unfold TextCodec.machine
  rw [this, run_body]
  have hvx : ∀ cp ∈ x, valid cp := by
    intro cp hcp
    exact freshTail_valid valid hmv ws hv cp (by rw [hx]; exact List.mem_cons_of_mem _ hcp)
  rw [rt.all x hvx]; rfl

/-- two non-empty writes encoded separately: the receiver's text has a U+FEFF the sender never wrote -/
theorem fresh_two_writes (t : TextCodec) (valid : Nat → Prop) (hb : t.bom ≠ []) (hm : t.enc 0xFEFF = t.bom)
    (rt : RoundTrip t.dec t.enc valid) (hmv : valid 0xFEFF)
    (w1 w2 : List Nat) (h1 : w1 ≠ []) (h2 : w2 ≠ [])
    (hv1 : ∀ cp ∈ w1, valid cp) (hv2 : ∀ cp ∈ w2, valid cp) :
    run t.machine (BomSt.start 0) (encodeFresh t w1 ++ encodeFresh t w2) =
        some (BomSt.body t.dec.init, w1 ++ 0xFEFF :: w2) ∧
      w1 ++ 0xFEFF :: w2 ≠ w1 ++ w2 := by
  constructor
  · have hx : freshTail [w1, w2] = 0xFEFF :: (w1 ++ 0xFEFF :: w2) := by simp [freshTail, h1, h2]
    have := fresh_decodes t valid hb hm rt hmv [w1, w2]
      (by intro w hw; simp at hw; cases hw with | inl h => rw [h]; exact hv1 | inr h => rw [h]; exact hv2)
      _ hx
    simpa using this
  · intro h
    have := congrArg List.length h
    simp at this

/-! ### the concrete codecs -/

/-- the encodings of the family that are modelled byte by byte -/
def family : List TextCodec := [utf8sig, utf16, utf32, utf16le, utf8]

/-- the ones whose encoder emits a mark -/
def markFamily : List TextCodec := [utf8sig, utf16, utf32]

theorem family_ok (t : TextCodec) (h : t ∈ family) : Framed t ∧ RoundTrip t.dec t.enc isScalar := by
  simp only [family, List.mem_cons, List.not_mem_nil, or_false] at h
  rcases h with h | h | h | h | h <;> subst h
  · exact ⟨Or.inl (by simp [utf8sig]), utf8_roundtrip⟩
  · exact ⟨Or.inl (by simp [utf16]), utf16_roundtrip⟩
  · exact ⟨Or.inl (by simp [utf32]), utf32_roundtrip⟩
  · exact ⟨Or.inr ⟨rfl, rfl⟩, utf16_roundtrip⟩
  · exact ⟨Or.inr ⟨rfl, rfl⟩, utf8_roundtrip⟩

theorem markFamily_ok (t : TextCodec) (h : t ∈ markFamily) :
    t.bom ≠ [] ∧ t.enc 0xFEFF = t.bom ∧ RoundTrip t.dec t.enc isScalar := by
  simp only [markFamily, List.mem_cons, List.not_mem_nil, or_false] at h
  rcases h with h | h | h <;> subst h
  · exact ⟨by simp [utf8sig], by decide, utf8_roundtrip⟩
  · exact ⟨by simp [utf16], by decide, utf16_roundtrip⟩
  · exact ⟨by simp [utf32], by decide, utf32_roundtrip⟩

theorem isScalar_mark : isScalar 0xFEFF := by unfold isScalar; omega

end AsyncsshModel.ChannelText
