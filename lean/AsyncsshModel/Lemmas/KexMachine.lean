import AsyncsshModel.Model.KexMachine
import AsyncsshModel.Lemmas.KexHash
/-
  Invariants of the two endpoint machines of `Model/KexMachine.lean`:
  whatever is delivered, a client that has an accepted record verified a signature of a trusted key over the
  hash of exactly that record, built from its own version/KEXINIT and the peer values it received; a server
  only ever signs the hash of its own record.
-/
namespace AsyncsshModel.Kex
open AsyncsshModel AsyncsshModel.KexWire

@[simp] theorem CState.fail_is (st : CState) (e : Err) : (st.fail e).1.is = st.is := rfl
@[simp] theorem CState.fail_negInfo (st : CState) (e : Err) : (st.fail e).1.negInfo = st.negInfo := rfl
@[simp] theorem CState.fail_acc (st : CState) (e : Err) : (st.fail e).1.acc = st.acc := rfl
@[simp] theorem CState.fail_vs (st : CState) (e : Err) : (st.fail e).1.vs = st.vs := rfl

/-- the peer's KEXINIT payload, parsed, led this endpoint to `n` and to the handler `info` -/
def NegOK (isClient : Bool) (cfg : Cfg) (peerKexInit : Bytes) (n : Negotiated) (info : KexInfo) : Prop :=
  ∃ body peer, peerKexInit = msgByte Gen.C03.MSG_KEXINIT :: body ∧ parseKexInit body = some peer ∧
    negotiate isClient cfg.algs peer = .ok n ∧ kexInfo n.kex = some info

/-- what is known about a record the client accepted -/
structure ClientAccOK (cr : Crypto) (cfg : Cfg) (a : Accept) : Prop where
  vc : a.view.pre.vc = cfg.version
  ic : ownKexInit true cfg = some a.view.pre.ic
  neg : ∃ info, NegOK true cfg a.view.pre.is a.neg info ∧ BodyForm info.form a.view.body ∧
          ∀ e f, a.view.body = .dh e f → dhClientRangeOk f info.p = true
  trusted : cr.trusted a.view.hostKey = true
  /-- the host key presented can be used with the negotiated host key algorithm -/
  keyAlg : a.neg.hostKey ∈ cr.keyAlgs a.view.hostKey
  /-- the signature names the signature algorithm of the negotiated host key algorithm -/
  sigAlg : sigAlgName a.sig = some (sigAlgFor a.neg.hostKey)
  verified : ∃ hi, hashInput? a.view = some hi ∧ cr.verify a.view.hostKey (cr.hashOf a.neg.kex hi) a.sig = true
  gexReq : ∀ r p g e f, a.view.body = .gex r p g e f → r = clientGexReq ∧ dhClientRangeOk f p = true

/-! ### client -/

theorem clientVerify_core (cr : Crypto) (cfg : Cfg) (st : CState) (hk : Bytes)
    (shared : Except Err (KexBody × Bytes)) (sig : Bytes) :
    (clientVerify cr cfg st hk shared sig).1.is = st.is ∧
    (clientVerify cr cfg st hk shared sig).1.negInfo = st.negInfo ∧
    (clientVerify cr cfg st hk shared sig).1.vs = st.vs := by
  unfold clientVerify clientFinish
  repeat' (first | split | dsimp only)
  all_goals simp

theorem clientOnKex_core (cr : Crypto) (cfg : Cfg) (st : CState) (n : Negotiated) (info : KexInfo) (t : Nat)
    (body : Bytes) :
    (clientOnKex cr cfg st n info t body).1.is = st.is ∧
    (clientOnKex cr cfg st n info t body).1.negInfo = st.negInfo ∧
    (clientOnKex cr cfg st n info t body).1.vs = st.vs := by
  unfold clientOnKex
  repeat' (first | split | dsimp only)
  all_goals simp [clientVerify_core]

theorem clientVerify_acc {cr : Crypto} {cfg : Cfg} {st : CState} {hk : Bytes}
    {shared : Except Err (KexBody × Bytes)} {sig : Bytes} {a : Accept}
    (h : (clientVerify cr cfg st hk shared sig).1.acc = some a) :
    st.acc = some a ∨
    ∃ body k n info ic hi, shared = .ok (body, k) ∧ st.negInfo = some (n, info) ∧ ownKexInit true cfg = some ic ∧
      cr.trusted hk = true ∧ n.hostKey ∈ cr.keyAlgs hk ∧ sigAlgName sig = some (sigAlgFor n.hostKey) ∧
      a = ⟨⟨⟨cfg.version, st.vs, ic, st.is⟩, hk, body, k⟩, n, sig⟩ ∧
      hashInput? a.view = some hi ∧ cr.verify hk (cr.hashOf n.kex hi) sig = true := by
  unfold clientVerify at h
  cases hn : st.negInfo with
  | none => left; simpa [hn] using h
  | some ni =>
    obtain ⟨n, info⟩ := ni
    simp only [hn] at h
    split at h
    · left; simpa using h
    · split at h
      · left; simpa using h
      · split at h
        · left; simpa using h
        · rename_i hka htr hsa
          unfold clientFinish at h
          repeat' (first | split at h | dsimp only at h)
          all_goals first
            | (left; simpa using h)
            | skip
          rename_i body k _ ic hic _ hi hhi hv
          right
          simp only [Option.some.injEq] at h
          subst h
          exact ⟨body, k, n, info, ic, hi, rfl, rfl, hic, by simpa using htr, by simpa using hka,
            by simpa using hsa, rfl, hhi, hv⟩

/-- conditions on the method-specific values a reply handler hands to `clientVerify` -/
def SharedOK (info : KexInfo) (shared : Except Err (KexBody × Bytes)) : Prop :=
  ∀ body k, shared = .ok (body, k) →
    BodyForm info.form body ∧
    (∀ e f, body = .dh e f → dhClientRangeOk f info.p = true) ∧
    (∀ r p g e f, body = .gex r p g e f → r = clientGexReq ∧ dhClientRangeOk f p = true)

theorem clientVerify_ok {cr : Crypto} {cfg : Cfg} {st : CState} {hk : Bytes}
    {shared : Except Err (KexBody × Bytes)} {sig : Bytes} {a : Accept} {n : Negotiated} {info : KexInfo}
    (hneg : st.negInfo = some (n, info)) (hok : NegOK true cfg st.is n info) (hs : SharedOK info shared)
    (h : (clientVerify cr cfg st hk shared sig).1.acc = some a) :
    st.acc = some a ∨ ClientAccOK cr cfg a := by
  rcases clientVerify_acc h with h | ⟨body, k, n', info', ic, hi, hsh, hn, hic, htr, hka, hsa, rfl, hhi, hv⟩
  · exact Or.inl h
  · right
    rw [hneg] at hn
    simp only [Option.some.injEq, Prod.mk.injEq] at hn
    obtain ⟨rfl, rfl⟩ := hn
    obtain ⟨hbf, hdh, hgex⟩ := hs body k hsh
    exact { vc := rfl, ic := hic, neg := ⟨info, hok, hbf, hdh⟩, trusted := htr, keyAlg := hka, sigAlg := hsa,
            verified := ⟨hi, hhi, hv⟩, gexReq := hgex }

theorem dhClientSecret_ok {cr : Crypto} {g p f : Int} {k : Bytes} (h : dhClientSecret cr g p f = .ok k) :
    dhClientRangeOk f p = true := by
  unfold dhClientSecret at h
  split at h
  · assumption
  · simp at h

theorem sharedOK_dh {cr : Crypto} {info : KexInfo} (hf : info.form = .dh) (e f : Int) :
    SharedOK info ((dhClientSecret cr info.g info.p f).map fun k => (KexBody.dh e f, k)) := by
  intro body k h
  cases hs : dhClientSecret cr info.g info.p f with
  | error err => simp [hs, Except.map] at h
  | ok k' =>
    simp only [hs, Except.map, Except.ok.injEq, Prod.mk.injEq] at h
    obtain ⟨rfl, rfl⟩ := h
    refine ⟨(by simp [BodyForm, hf]), ?_, (by intro r p g e f h; cases h)⟩
    intro e' f' h'
    cases h'
    exact dhClientSecret_ok hs

theorem sharedOK_gex {cr : Crypto} {info : KexInfo} (hf : info.form = .gex) (p g e f : Int) :
    SharedOK info ((dhClientSecret cr g p f).map fun k => (KexBody.gex clientGexReq p g e f, k)) := by
  intro body k h
  cases hs : dhClientSecret cr g p f with
  | error err => simp [hs, Except.map] at h
  | ok k' =>
    simp only [hs, Except.map, Except.ok.injEq, Prod.mk.injEq] at h
    obtain ⟨rfl, rfl⟩ := h
    refine ⟨(by simp [BodyForm, hf]), (by intro e f h; cases h), ?_⟩
    intro r p' g' e' f' h'
    cases h'
    exact ⟨rfl, dhClientSecret_ok hs⟩

theorem sharedOK_ec {info : KexInfo} (hf : info.form = .ecdh ∨ info.form = .hybrid) (qc qs : Bytes)
    (o : Except Err Bytes) :
    SharedOK info (o.map fun k => (KexBody.ecdh qc qs, k)) := by
  intro body k h
  cases o with
  | error err => simp [Except.map] at h
  | ok k' =>
    simp only [Except.map, Except.ok.injEq, Prod.mk.injEq] at h
    obtain ⟨rfl, rfl⟩ := h
    refine ⟨?_, (by intro e f h; cases h), (by intro r p g e f h; cases h)⟩
    rcases hf with hf | hf <;> simp [BodyForm, hf]

theorem sharedOK_rsa {info : KexInfo} (hf : info.form = .rsa) (tr ck k : Bytes) :
    SharedOK info (.ok (KexBody.rsa tr ck, k)) := by
  intro body k' h
  simp only [Except.ok.injEq, Prod.mk.injEq] at h
  obtain ⟨rfl, rfl⟩ := h
  exact ⟨(by simp [BodyForm, hf]), (by intro e f h; cases h), (by intro r p g e f h; cases h)⟩

theorem clientOnKex_acc {cr : Crypto} {cfg : Cfg} {st : CState} {n : Negotiated} {info : KexInfo} {t : Nat}
    {body : Bytes} {a : Accept} (hneg : st.negInfo = some (n, info)) (hok : NegOK true cfg st.is n info)
    (h : (clientOnKex cr cfg st n info t body).1.acc = some a) :
    st.acc = some a ∨ ClientAccOK cr cfg a := by
  unfold clientOnKex at h
  cases hf : info.form <;> simp only [hf] at h
  · -- dh
    repeat' (first | split at h | dsimp only at h)
    all_goals first
      | (left; simpa using h)
      | exact clientVerify_ok hneg hok (sharedOK_dh hf _ _) h
  · -- gex
    repeat' (first | split at h | dsimp only at h)
    all_goals first
      | (left; simpa using h)
      | exact clientVerify_ok hneg hok (sharedOK_gex hf _ _ _ _) h
  · repeat' (first | split at h | dsimp only at h)
    all_goals first
      | (left; simpa using h)
      | exact clientVerify_ok hneg hok (sharedOK_ec (Or.inl hf) _ _ _) h
  · repeat' (first | split at h | dsimp only at h)
    all_goals first
      | (left; simpa using h)
      | exact clientVerify_ok hneg hok (sharedOK_ec (Or.inr hf) _ _ _) h
  · repeat' (first | split at h | dsimp only at h)
    all_goals first
      | (left; simpa using h)
      | exact clientVerify_ok hneg hok (sharedOK_rsa hf _ _ _) h
/-- the client invariant -/
structure CInv (cr : Crypto) (cfg : Cfg) (st : CState) : Prop where
  negOK : ∀ n info, st.negInfo = some (n, info) → NegOK true cfg st.is n info
  accOK : ∀ a, st.acc = some a → ClientAccOK cr cfg a

/-- nothing the invariant talks about changed -/
def CFrame (st st' : CState) : Prop := st'.is = st.is ∧ st'.negInfo = st.negInfo ∧ st'.acc = st.acc

theorem CInv.frame {cr : Crypto} {cfg : Cfg} {st st' : CState} (h : CInv cr cfg st) (f : CFrame st st') :
    CInv cr cfg st' := by
  obtain ⟨f1, f2, f3⟩ := f
  exact ⟨by rw [f1, f2]; exact h.negOK, by rw [f3]; exact h.accOK⟩

theorem clientInit_inv (cr : Crypto) (cfg : Cfg) : CInv cr cfg (clientInit cfg).1 :=
  ⟨by intro n info h; simp [clientInit] at h, by intro a h; simp [clientInit] at h⟩

theorem clientOnLine_frame (cfg : Cfg) (st : CState) (m : Bytes) : CFrame st (clientOnLine cfg st m).1 := by
  unfold clientOnLine CFrame
  repeat' (first | split | dsimp only)
  all_goals simp

theorem clientStartKex_frame (cr : Crypto) (st : CState) (n : Negotiated) (info : KexInfo) :
    CFrame st (clientStartKex cr st n info).1 := by
  unfold clientStartKex CFrame
  repeat' (first | split | dsimp only)
  all_goals simp

theorem toNat_eq_msgByte {tb : UInt8} {n : Nat} (h : tb.toNat = n) : tb = msgByte n := by
  unfold msgByte; rw [← h]; exact UInt8.ofNat_toNat.symm

theorem clientOnKexInit_inv {cr : Crypto} {cfg : Cfg} {st : CState} {tb : UInt8} {body : Bytes}
    (hinv : CInv cr cfg st) (ht : tb.toNat = Gen.C03.MSG_KEXINIT) :
    CInv cr cfg (clientOnKexInit cr cfg st (tb :: body) body).1 := by
  unfold clientOnKexInit
  repeat' (first | split | dsimp only)
  all_goals first
    | exact hinv.frame ⟨rfl, rfl, rfl⟩
    | skip
  rename_i peer hpeer _ n hn _ info hinfo _
  refine CInv.frame ?_ (clientStartKex_frame cr _ n info)
  refine ⟨?_, hinv.accOK⟩
  intro n' info' h
  simp only [Option.some.injEq, Prod.mk.injEq] at h
  obtain ⟨rfl, rfl⟩ := h
  exact ⟨body, peer, by rw [toNat_eq_msgByte ht], hpeer, hn, hinfo⟩

theorem bumpC_frame (o : COut) : CFrame o.1 (bumpC o).1 := ⟨rfl, rfl, rfl⟩

theorem clientStep_inv {cr : Crypto} {cfg : Cfg} {st : CState} (m : Bytes) (hinv : CInv cr cfg st) :
    CInv cr cfg (clientStep cr cfg st m).1 := by
  unfold clientStep
  split
  · exact hinv
  · exact hinv
  · exact hinv
  · exact hinv.frame (clientOnLine_frame cfg st m)
  · split
    · exact hinv.frame ⟨rfl, rfl, rfl⟩
    · rename_i tb body
      dsimp only
      refine CInv.frame ?_ (bumpC_frame _)
      split
      · rename_i ht; exact clientOnKexInit_inv hinv ht
      · split
        · split
          all_goals first
            | exact hinv.frame ⟨rfl, rfl, rfl⟩
            | skip
          all_goals
            rename_i n info _ hneg
            split
            · exact hinv.frame ⟨rfl, rfl, rfl⟩
            · have hc := clientOnKex_core cr cfg st n info tb.toNat body
              refine ⟨by rw [hc.1, hc.2.1]; exact hinv.negOK, ?_⟩
              intro a ha
              rcases clientOnKex_acc hneg (hinv.negOK n info hneg) ha with h | h
              · exact hinv.accOK a h
              · exact h
        · repeat' (first | split | dsimp only)
          all_goals exact hinv.frame ⟨rfl, rfl, rfl⟩
/-! ### server -/

@[simp] theorem SState.fail_ic (st : SState) (e : Err) : (st.fail e).1.ic = st.ic := rfl
@[simp] theorem SState.fail_negInfo (st : SState) (e : Err) : (st.fail e).1.negInfo = st.negInfo := rfl
@[simp] theorem SState.fail_signedRecs (st : SState) (e : Err) : (st.fail e).1.signedRecs = st.signedRecs := rfl
@[simp] theorem SState.fail_p (st : SState) (e : Err) : (st.fail e).1.p = st.p := rfl
@[simp] theorem SState.fail_gexReq (st : SState) (e : Err) : (st.fail e).1.gexReq = st.gexReq := rfl
@[simp] theorem SState.fail_hostAlg (st : SState) (e : Err) : (st.fail e).1.hostAlg = st.hostAlg := rfl

/-- what is known about a record the server signed -/
structure ServerAccOK (cfg : Cfg) (a : Accept) : Prop where
  vs : a.view.pre.vs = cfg.version
  is : ownKexInit false cfg = some a.view.pre.is
  neg : ∃ info, NegOK false cfg a.view.pre.ic a.neg info ∧ BodyForm info.form a.view.body ∧
          ∀ e f, a.view.body = .dh e f → dhServerRangeOk e info.p = true
  gex : ∀ r p g e f, a.view.body = .gex r p g e f →
          (r.length = 4 ∨ r.length = 12) ∧ (∃ i, p = (groupAt i).2) ∧ dhServerRangeOk e p = true
  /-- the signature was made with, and names, the signature algorithm of the host key algorithm negotiated
      on this very connection -/
  sigAlg : sigAlgName a.sig = some (sigAlgFor a.neg.hostKey)

structure SInv (cfg : Cfg) (st : SState) : Prop where
  negOK : ∀ n info, st.negInfo = some (n, info) → NegOK false cfg st.ic n info
  hostAlgOK : ∀ n info, st.negInfo = some (n, info) → st.hostAlg = n.hostKey
  recOK : ∀ r ∈ st.signedRecs, ServerAccOK cfg r.1 ∧ hashInput? r.1.view = some r.2
  pOK : ∃ i, st.p = (groupAt i).2
  dhP : ∀ n info, st.negInfo = some (n, info) → info.form = .dh → st.p = info.p
  reqOK : ∀ n info, st.negInfo = some (n, info) → info.form = .gex →
            st.p = 0 ∨ st.gexReq.length = 4 ∨ st.gexReq.length = 12

def SFrame (st st' : SState) : Prop :=
  st'.ic = st.ic ∧ st'.negInfo = st.negInfo ∧ st'.signedRecs = st.signedRecs ∧ st'.p = st.p ∧
    st'.gexReq = st.gexReq ∧ st'.hostAlg = st.hostAlg

theorem SInv.frame {cfg : Cfg} {st st' : SState} (h : SInv cfg st) (f : SFrame st st') : SInv cfg st' := by
  obtain ⟨f1, f2, f3, f4, f5, f6⟩ := f
  exact ⟨by rw [f1, f2]; exact h.negOK, by rw [f6, f2]; exact h.hostAlgOK, by rw [f3]; exact h.recOK,
         by rw [f4]; exact h.pOK, by rw [f4, f2]; exact h.dhP, by rw [f4, f5, f2]; exact h.reqOK⟩

theorem groupAt_oob : (groupAt Gen.C03.dhGroups.length).2 = 0 := by
  simp [groupAt]

theorem serverInit_inv (cfg : Cfg) : SInv cfg (serverInit cfg).1 :=
  ⟨by intro n info h; simp [serverInit] at h, by intro n info h; simp [serverInit] at h,
   by intro r h; simp [serverInit] at h,
   ⟨_, groupAt_oob.symm⟩, by intro n info h; simp [serverInit] at h, by intro n info h; simp [serverInit] at h⟩

theorem serverOnLine_frame (cfg : Cfg) (st : SState) (m : Bytes) : SFrame st (serverOnLine cfg st m).1 := by
  unfold serverOnLine SFrame
  repeat' (first | split | dsimp only)
  all_goals simp

theorem dhServerSecret_ok {cr : Crypto} {g p e : Int} {r : Int × Bytes} (h : dhServerSecret cr g p e = .ok r) :
    dhServerRangeOk e p = true := by
  unfold dhServerSecret at h
  split at h
  · assumption
  · simp at h

theorem kexInfo_group {alg : Name} {info : KexInfo} (h : kexInfo alg = some info) : ∃ i, info.p = (groupAt i).2 := by
  unfold kexInfo at h
  repeat' (first | split at h | dsimp only at h)
  all_goals first
    | (simp at h; done)
    | skip
  · simp only [Option.some.injEq] at h; subst h; exact ⟨_, rfl⟩
  · simp only [Option.some.injEq] at h; subst h; exact ⟨_, groupAt_oob.symm⟩

theorem serverSign_spec {cr : Crypto} {cfg : Cfg} {st : SState} {body : KexBody} {k : Bytes}
    {reply : Bytes → Bytes → Option Bytes} :
    SFrame st (serverSign cr cfg st body k reply).1 ∨
    ∃ n info is hi sig, st.negInfo = some (n, info) ∧ ownKexInit false cfg = some is ∧
      sigAlgName sig = some (sigAlgFor st.hostAlg) ∧
      hashInput? ⟨⟨st.vc, cfg.version, st.ic, is⟩, cr.hostKeyOf st.hostAlg, body, k⟩ = some hi ∧
      (serverSign cr cfg st body k reply).1.signedRecs =
        (⟨⟨⟨st.vc, cfg.version, st.ic, is⟩, cr.hostKeyOf st.hostAlg, body, k⟩, n, sig⟩, hi) :: st.signedRecs ∧
      (serverSign cr cfg st body k reply).1.ic = st.ic ∧
      (serverSign cr cfg st body k reply).1.negInfo = st.negInfo ∧
      (serverSign cr cfg st body k reply).1.p = st.p ∧
      (serverSign cr cfg st body k reply).1.gexReq = st.gexReq ∧
      (serverSign cr cfg st body k reply).1.hostAlg = st.hostAlg := by
  unfold serverSign
  repeat' (first | split | dsimp only)
  all_goals first
    | (left; exact ⟨rfl, rfl, rfl, rfl, rfl, rfl⟩)
    | skip
  rename_i n info is hn his _ hi hhi _ sig hsig _ r hr
  right
  refine ⟨n, info, is, hi, sig, hn, his, ?_, hhi, rfl, rfl, rfl, rfl, rfl, rfl⟩
  unfold hostKeySign at hsig
  cases he : encString? (sigAlgFor st.hostAlg) with
  | none => simp [he] at hsig
  | some nb =>
    simp only [he, Option.map, Option.some.injEq] at hsig
    subst hsig
    simp [sigAlgName, getString_enc he]
/-- conditions on the method-specific values a handler hands to `serverSign` -/
def SBodyOK (info : KexInfo) (body : KexBody) : Prop :=
  BodyForm info.form body ∧
  (∀ e f, body = .dh e f → dhServerRangeOk e info.p = true) ∧
  (∀ r p g e f, body = .gex r p g e f →
    (r.length = 4 ∨ r.length = 12) ∧ (∃ i, p = (groupAt i).2) ∧ dhServerRangeOk e p = true)

theorem serverSign_inv {cr : Crypto} {cfg : Cfg} {st : SState} {body : KexBody} {k : Bytes}
    {reply : Bytes → Bytes → Option Bytes} (hinv : SInv cfg st)
    (hb : ∀ n info, st.negInfo = some (n, info) → SBodyOK info body) :
    SInv cfg (serverSign cr cfg st body k reply).1 := by
  rcases serverSign_spec (cr := cr) (cfg := cfg) (st := st) (body := body) (k := k) (reply := reply) with
    f | ⟨n, info, is, hi, sig, hn, his, hsa, hhi, hrec, h1, h2, h3, h4, h5⟩
  · exact hinv.frame f
  · obtain ⟨hbf, hdh, hgex⟩ := hb n info hn
    refine ⟨by rw [h1, h2]; exact hinv.negOK, by rw [h5, h2]; exact hinv.hostAlgOK, ?_, by rw [h3]; exact hinv.pOK,
      by rw [h3, h2]; exact hinv.dhP, by rw [h3, h4, h2]; exact hinv.reqOK⟩
    intro r hr
    rw [hrec] at hr
    rcases List.mem_cons.mp hr with rfl | hr
    · exact ⟨{ vs := rfl, is := his, neg := ⟨info, hinv.negOK n info hn, hbf, hdh⟩, gex := hgex,
               sigAlg := by rw [hsa, hinv.hostAlgOK n info hn] }, hhi⟩
    · exact hinv.recOK r hr

theorem serverOnDhInit_inv {cr : Crypto} {cfg : Cfg} {st : SState} {rt : Nat} {mk : Int → Int → KexBody}
    {body : Bytes} (hinv : SInv cfg st)
    (hb : ∀ n info e f, st.negInfo = some (n, info) → st.p ≠ 0 → dhServerRangeOk e st.p = true →
            SBodyOK info (mk e f)) :
    SInv cfg (serverOnDhInit cr cfg st rt mk body).1 := by
  unfold serverOnDhInit
  repeat' (first | split | dsimp only)
  all_goals first
    | exact hinv.frame ⟨rfl, rfl, rfl, rfl, rfl, rfl⟩
    | skip
  rename_i hp _ e b he _ _ f k hs
  exact serverSign_inv hinv (fun n info hn => hb n info e f hn hp (dhServerSecret_ok hs))
theorem getUInt32_length {b r : Bytes} {x : Nat} (h : getUInt32 b = some (x, r)) : b.length = 4 + r.length := by
  unfold getUInt32 getUInt getBytes at h
  split at h
  · simp only [Option.map, Option.some.injEq, Prod.mk.injEq] at h
    rw [← h.2]; simp; omega
  · simp at h

theorem isEmpty_length {b : Bytes} (h : b.isEmpty = true) : b.length = 0 := by
  cases b <;> simp_all

theorem parseGexRequest_length {old : Bool} {body : Bytes} {x : Nat × Nat} (h : parseGexRequest old body = some x) :
    body.length = 4 ∨ body.length = 12 := by
  unfold parseGexRequest at h
  repeat' (first | split at h | dsimp only at h)
  all_goals first
    | (simp at h; done)
    | skip
  · rename_i _ _ _ h1 he
    have := getUInt32_length h1; have := isEmpty_length he; omega
  · rename_i _ _ _ h1 _ _ _ h2 _ _ _ h3 he
    have := getUInt32_length h1; have := getUInt32_length h2; have := getUInt32_length h3
    have := isEmpty_length he; omega

theorem serverOnKex_inv {cr : Crypto} {cfg : Cfg} {st : SState} {n : Negotiated} {info : KexInfo} {t : Nat}
    {body : Bytes} (hinv : SInv cfg st) (hneg : st.negInfo = some (n, info)) :
    SInv cfg (serverOnKex cr cfg st n info t body).1 := by
  have same : ∀ n' info', st.negInfo = some (n', info') → info' = info := by
    intro n' info' h; rw [hneg] at h; simp at h; exact h.2.symm
  unfold serverOnKex
  cases hf : info.form <;> simp only []
  · -- dh
    repeat' (first | split | dsimp only)
    all_goals first
      | exact hinv.frame ⟨rfl, rfl, rfl, rfl, rfl, rfl⟩
      | skip
    refine serverOnDhInit_inv hinv ?_
    intro n' info' e f hn hp hr
    have := same n' info' hn; subst this
    refine ⟨by simp [BodyForm, hf], ?_, (by intro r p g e f h; cases h)⟩
    intro e' f' h'; cases h'
    rw [← hinv.dhP n' info' hn hf]; exact hr
  · -- gex
    repeat' (first | split | dsimp only)
    all_goals first
      | exact hinv.frame ⟨rfl, rfl, rfl, rfl, rfl, rfl⟩
      | skip
    · rename_i _ _ _ _ pref mx hparse _ _ _ _ _ _
      refine ⟨hinv.negOK, hinv.hostAlgOK, hinv.recOK, ⟨_, rfl⟩, ?_, ?_⟩
      · intro n' info' hn hdh
        have := same n' info' hn; subst this; rw [hf] at hdh; cases hdh
      · intro n' info' _ _
        exact Or.inr (parseGexRequest_length hparse)
    · refine serverOnDhInit_inv hinv ?_
      intro n' info' e f hn hp hr
      have := same n' info' hn; subst this
      refine ⟨by simp [BodyForm, hf], (by intro e f h; cases h), ?_⟩
      intro r p g e' f' h'; cases h'
      refine ⟨?_, hinv.pOK, hr⟩
      rcases hinv.reqOK n' info' hn hf with h | h
      · exact absurd h hp
      · exact h
  · -- ecdh
    repeat' (first | split | dsimp only)
    all_goals first
      | exact hinv.frame ⟨rfl, rfl, rfl, rfl, rfl, rfl⟩
      | skip
    refine serverSign_inv hinv ?_
    intro n' info' hn
    have := same n' info' hn; subst this
    exact ⟨by simp [BodyForm, hf], (by intro e f h; cases h), (by intro r p g e f h; cases h)⟩
  · -- hybrid
    repeat' (first | split | dsimp only)
    all_goals first
      | exact hinv.frame ⟨rfl, rfl, rfl, rfl, rfl, rfl⟩
      | skip
    refine serverSign_inv hinv ?_
    intro n' info' hn
    have := same n' info' hn; subst this
    exact ⟨by simp [BodyForm, hf], (by intro e f h; cases h), (by intro r p g e f h; cases h)⟩
  · -- rsa
    repeat' (first | split | dsimp only)
    all_goals first
      | exact hinv.frame ⟨rfl, rfl, rfl, rfl, rfl, rfl⟩
      | skip
    refine serverSign_inv hinv ?_
    intro n' info' hn
    have := same n' info' hn; subst this
    exact ⟨by simp [BodyForm, hf], (by intro e f h; cases h), (by intro r p g e f h; cases h)⟩
theorem serverStartKex_spec (cr : Crypto) (st : SState) (info : KexInfo) :
    (serverStartKex cr st info).1.ic = st.ic ∧ (serverStartKex cr st info).1.negInfo = st.negInfo ∧
    (serverStartKex cr st info).1.signedRecs = st.signedRecs ∧
    (serverStartKex cr st info).1.gexReq = st.gexReq ∧
    (serverStartKex cr st info).1.hostAlg = st.hostAlg ∧
    ((info.form ≠ .dh ∧ info.form ≠ .gex ∧ (serverStartKex cr st info).1.p = st.p) ∨
     (info.form = .dh ∧ (serverStartKex cr st info).1.p = info.p) ∨
     (info.form = .gex ∧ (serverStartKex cr st info).1.p = 0)) := by
  unfold serverStartKex
  cases hf : info.form <;> simp only []
  · simp
  · simp
  · simp
  · simp
  · split <;> simp

theorem serverStartKex_inv {cr : Crypto} {cfg : Cfg} {st1 : SState} {info : KexInfo} {n : Negotiated}
    (e2 : st1.negInfo = some (n, info)) (hok : NegOK false cfg st1.ic n info)
    (hrec : ∀ r ∈ st1.signedRecs, ServerAccOK cfg r.1 ∧ hashInput? r.1.view = some r.2)
    (hp : ∃ i, st1.p = (groupAt i).2) (hinfo : kexInfo n.kex = some info) (hha : st1.hostAlg = n.hostKey) :
    SInv cfg (serverStartKex cr st1 info).1 := by
  obtain ⟨s1, s2, s3, s4, s6, s5⟩ := serverStartKex_spec cr st1 info
  refine ⟨?_, ?_, by rw [s3]; exact hrec, ?_, ?_, ?_⟩
  · intro n' info' h
    rw [s2, e2] at h
    simp only [Option.some.injEq, Prod.mk.injEq] at h
    obtain ⟨rfl, rfl⟩ := h
    rw [s1]; exact hok
  · intro n' info' h
    rw [s2, e2] at h
    simp only [Option.some.injEq, Prod.mk.injEq] at h
    obtain ⟨rfl, rfl⟩ := h
    rw [s6]; exact hha
  · rcases s5 with ⟨_, _, h⟩ | ⟨_, h⟩ | ⟨_, h⟩
    · rw [h]; exact hp
    · rw [h]; exact kexInfo_group hinfo
    · rw [h]; exact ⟨_, groupAt_oob.symm⟩
  · intro n' info' h hdh
    rw [s2, e2] at h
    simp only [Option.some.injEq, Prod.mk.injEq] at h
    obtain ⟨rfl, rfl⟩ := h
    rcases s5 with ⟨h1, _, _⟩ | ⟨_, h⟩ | ⟨h1, _⟩
    · exact absurd hdh h1
    · exact h
    · rw [hdh] at h1; cases h1
  · intro n' info' h hgex
    rw [s2, e2] at h
    simp only [Option.some.injEq, Prod.mk.injEq] at h
    obtain ⟨rfl, rfl⟩ := h
    rcases s5 with ⟨_, h1, _⟩ | ⟨h1, _⟩ | ⟨_, h⟩
    · exact absurd hgex h1
    · rw [hgex] at h1; cases h1
    · exact Or.inl h

theorem serverOnKexInit_inv {cr : Crypto} {cfg : Cfg} {st : SState} {tb : UInt8} {body : Bytes}
    (hinv : SInv cfg st) (ht : tb.toNat = Gen.C03.MSG_KEXINIT) :
    SInv cfg (serverOnKexInit cr cfg st (tb :: body) body).1 := by
  unfold serverOnKexInit
  repeat' (first | split | dsimp only)
  all_goals first
    | exact hinv.frame ⟨rfl, rfl, rfl, rfl, rfl, rfl⟩
    | skip
  rename_i peer hpeer _ n hn _ info hinfo _
  exact serverStartKex_inv (n := n) rfl ⟨body, peer, by rw [toNat_eq_msgByte ht], hpeer, hn, hinfo⟩
    hinv.recOK hinv.pOK hinfo rfl

theorem bumpS_frame (o : SOut) : SFrame o.1 (bumpS o).1 := ⟨rfl, rfl, rfl, rfl, rfl, rfl⟩

theorem serverStep_inv {cr : Crypto} {cfg : Cfg} {st : SState} (m : Bytes) (hinv : SInv cfg st) :
    SInv cfg (serverStep cr cfg st m).1 := by
  unfold serverStep
  split
  · exact hinv
  · exact hinv
  · exact hinv
  · exact hinv.frame (serverOnLine_frame cfg st m)
  · split
    · exact hinv.frame ⟨rfl, rfl, rfl, rfl, rfl, rfl⟩
    · rename_i tb body
      dsimp only
      refine SInv.frame ?_ (bumpS_frame _)
      split
      · rename_i ht; exact serverOnKexInit_inv hinv ht
      · split
        · split
          all_goals first
            | exact hinv.frame ⟨rfl, rfl, rfl, rfl, rfl, rfl⟩
            | skip
          all_goals
            rename_i n info _ hneg
            split
            · exact hinv.frame ⟨rfl, rfl, rfl, rfl, rfl, rfl⟩
            · exact serverOnKex_inv hinv hneg
        · repeat' (first | split | dsimp only)
          all_goals exact hinv.frame ⟨rfl, rfl, rfl, rfl, rfl, rfl⟩
/-! ### group exchange: an old-form request cannot be confused with the client's new-form request -/

theorem mpintLen_le_of_lt {n k : Nat} (h : n < 2 ^ k) : mpintLen (n : Int) ≤ (k + 8) / 8 := by
  by_cases hn : n = 0
  · subst hn; simp [mpintLen, bitLength]
  · have hne : (n : Int) ≠ 0 := by omega
    have hb : bitLength (n : Int) ≤ k := (natAbs_lt_pow_iff hne k).mp (by simpa using h)
    unfold mpintLen
    simp only []
    split <;> omega

theorem groups_lt : ∀ gp ∈ Gen.C03.dhGroups, gp.2 < 2 ^ 8192 := by
  decide +kernel

theorem group_mpintLen_ne (i : Nat) : mpintLen (groupAt i).2 ≠ Gen.C03.KEX_DH_GEX_PREFERRED_SIZE := by
  unfold groupAt
  cases h : Gen.C03.dhGroups[i]? with
  | none => decide
  | some gp =>
    have := mpintLen_le_of_lt (groups_lt gp (List.mem_of_getElem? h))
    simp only [Gen.C03.KEX_DH_GEX_PREFERRED_SIZE]
    omega
theorem encMPInt_shape {v : Int} {w : Bytes} (h : encMPInt? v = some w) :
    ∃ body, w = beBytes 4 (mpintLen v) ++ body ∧ mpintLen v < 256 ^ 4 := by
  unfold encMPInt? at h
  cases h1 : encUInt32? (mpintLen v) with
  | none => simp [h1] at h
  | some hdr =>
    cases h2 : toBytesSigned? v (mpintLen v) with
    | none => simp [h1, h2] at h
    | some body =>
      simp [h1, h2] at h
      obtain ⟨hlt, rfl⟩ := toBytes?_eq_some h1
      exact ⟨body, h.symm, hlt⟩

theorem beBytes4_inj {a b : Nat} (ha : a < 256 ^ 4) (hb : b < 256 ^ 4) (h : beBytes 4 a = beBytes 4 b) : a = b := by
  have := congrArg beNat h
  rw [beNat_beBytes, beNat_beBytes, Nat.mod_eq_of_lt ha, Nat.mod_eq_of_lt hb] at this
  exact this

/-- a server that hashed an old-form (4-byte) request for one of its own groups never produces the tail of a
    client that sent the new-form request -/
theorem gex_old_new_tail_ne {a b : HashFields} {p g e f p' g' e' f' : Int} {r' : Bytes}
    (ha : a.body = .gex clientGexReq p g e f) (hb : b.body = .gex r' p' g' e' f') (hr : r'.length = 4)
    (hp' : ∃ i, p' = (groupAt i).2) (ht : bodyTail? a = bodyTail? b) (hs : (bodyTail? a).isSome) : False := by
  cases hta : bodyTail? a with
  | none => simp [hta] at hs
  | some t =>
    have htb : bodyTail? b = some t := by rw [← ht, hta]
    unfold bodyTail? at hta htb
    simp only [ha, hb] at hta htb
    obtain ⟨x1, w1, e1, h1, rfl⟩ := concatPieces_cons hta
    obtain ⟨y1, v1, f1, g1, e⟩ := concatPieces_cons htb
    obtain ⟨pa, ga, hpa, hga, rfl⟩ := gexData_gex e1
    obtain ⟨pb, gb, hpb, hgb, rfl⟩ := gexData_gex f1
    obtain ⟨bodyb, rfl, hlt⟩ := encMPInt_shape hpb
    unfold clientGexReq at e
    simp only [List.append_assoc] at e
    -- first four bytes: the client's MIN against the server's request; next four: PREFERRED against len(p')
    obtain ⟨_, e⟩ := List.append_inj e (by simp [hr])
    obtain ⟨e, _⟩ := List.append_inj e (by simp)
    have := beBytes4_inj (by decide) hlt e
    obtain ⟨i, rfl⟩ := hp'
    exact group_mpintLen_ne i this.symm
/-! ### the two sides together -/

/-- both configurations encode to well-formed KEXINITs and do not list the other side's pseudo-algorithms -/
structure CfgWF (ccfg scfg : Cfg) : Prop where
  cWF : (sentKexInit true ccfg.cookie ccfg.algs).WF
  sWF : (sentKexInit false scfg.cookie scfg.algs).WF
  markers : MarkerFree ccfg.algs scfg.algs
  /-- no GSS key exchange on the server's list (GSS exchanges need no host key algorithm; not modelled) -/
  noGss : ∀ k ∈ scfg.algs.kex, isGssKex k = false

/-- if a peer KEXINIT payload is literally what the other side's `_send_kexinit` built, the negotiation ran on
    the other side's lists -/
theorem negOK_of_sent {isClient : Bool} {cfg other : Cfg} {payload : Bytes} {n : Negotiated} {info : KexInfo}
    (hwf : (sentKexInit (!isClient) other.cookie other.algs).WF)
    (hsent : ownKexInit (!isClient) other = some payload) (h : NegOK isClient cfg payload n info) :
    negotiate isClient cfg.algs (sentKexInit (!isClient) other.cookie other.algs) = .ok n ∧
      kexInfo n.kex = some info := by
  obtain ⟨body, peer, hp, hparse, hneg, hinfo⟩ := h
  unfold ownKexInit KexInit.encode? at hsent
  cases hb : (sentKexInit (!isClient) other.cookie other.algs).encodeBody? with
  | none => simp [hb] at hsent
  | some body' =>
    simp only [hb, Option.map, Option.some.injEq] at hsent
    rw [hp] at hsent
    have : body' = body := (List.cons.inj hsent).2
    subst this
    rw [parseKexInit_encodeBody hwf hb] at hparse
    simp only [Option.some.injEq] at hparse
    subst hparse
    exact ⟨hneg, hinfo⟩

theorem bodyForm_sameForm {f : Form} {x y : KexBody} (hx : BodyForm f x) (hy : BodyForm f y) :
    SameForm x y ∨ ∃ r p g e ff r' p' g' e' ff', x = .gex r p g e ff ∧ y = .gex r' p' g' e' ff' := by
  cases f <;> cases x <;> cases y <;> simp_all [BodyForm, SameForm]

/-- **Core of `no_downgrade`**: a record the client accepted and a record the server signed whose hash inputs
    coincide are the same record. -/
theorem accepted_eq_signed {cr : Crypto} {ccfg scfg : Cfg} (hwf : CfgWF ccfg scfg) {a b : Accept} {hi : Bytes}
    (ha : ClientAccOK cr ccfg a) (hb : ServerAccOK scfg b) (hia : hashInput? a.view = some hi)
    (hib : hashInput? b.view = some hi) : a.view = b.view ∧ a.neg = b.neg := by
  obtain ⟨hpre, hhk, htail⟩ := hashInput_common hia hib
  obtain ⟨infoA, hnegA, hformA, _⟩ := ha.neg
  obtain ⟨infoB, hnegB, hformB, _⟩ := hb.neg
  -- the client parsed exactly what the server's `_send_kexinit` built, and vice versa
  have hA := negOK_of_sent (isClient := true) (other := scfg) hwf.sWF (by rw [hpre]; exact hb.is) hnegA
  have hB := negOK_of_sent (isClient := false) (other := ccfg) hwf.cWF (by rw [← hpre]; exact ha.ic) hnegB
  have hneg : a.neg = b.neg := negotiate_agree hwf.markers hwf.noGss hA.1 hB.1
  have hinfo : infoA = infoB := by
    have := hA.2; rw [hneg, hB.2] at this; exact (Option.some.inj this).symm
  subst hinfo
  obtain ⟨_, _, t, _, _, t1, _⟩ := hashInput_split hia
  have hsome : (bodyTail? a.view).isSome := by simp [t1]
  have hsf : SameForm a.view.body b.view.body := by
    rcases bodyForm_sameForm hformA hformB with h | ⟨r, p, g, e, f, r', p', g', e', f', hx, hy⟩
    · exact h
    · obtain ⟨hr, _⟩ := ha.gexReq r p g e f hx
      obtain ⟨hr', hp', _⟩ := hb.gex r' p' g' e' f' hy
      subst hr
      rcases hr' with h4 | h12
      · exact (gex_old_new_tail_ne hx hy h4 hp' htail hsome).elim
      · rw [hx, hy]; simp [SameForm, clientGexReq, h12]
  obtain ⟨hbody, hk⟩ := bodyTail_inj hsf htail hsome
  refine ⟨?_, hneg⟩
  cases ha' : a.view; cases hb' : b.view
  simp_all

/-! ### the three-party machine keeps both invariants, whatever the editor delivers -/

theorem World.step_inv {cr : Crypto} {ccfg scfg : Cfg} {w : World} (ev : Ev)
    (h : CInv cr ccfg w.c ∧ SInv scfg w.s) :
    CInv cr ccfg (w.step cr ccfg scfg ev).c ∧ SInv scfg (w.step cr ccfg scfg ev).s := by
  cases ev with
  | toServer m => exact ⟨h.1, serverStep_inv m h.2⟩
  | toClient m => exact ⟨clientStep_inv m h.1, h.2⟩

theorem World.foldl_inv {cr : Crypto} {ccfg scfg : Cfg} (evs : List Ev) (w : World)
    (h : CInv cr ccfg w.c ∧ SInv scfg w.s) :
    CInv cr ccfg (evs.foldl (World.step cr ccfg scfg) w).c ∧ SInv scfg (evs.foldl (World.step cr ccfg scfg) w).s := by
  induction evs generalizing w with
  | nil => exact h
  | cons ev rest ih => exact ih _ (World.step_inv ev h)

theorem World.run_inv (cr : Crypto) (ccfg scfg : Cfg) (evs : List Ev) :
    CInv cr ccfg (World.run cr ccfg scfg evs).c ∧ SInv scfg (World.run cr ccfg scfg evs).s :=
  World.foldl_inv evs _ ⟨clientInit_inv cr ccfg, serverInit_inv scfg⟩

/-! ### several connections of one listener: each keeps its own invariant, whatever the others receive -/

theorem Listener.step_inv {cr : Crypto} {cfg : Cfg} {l : Listener} (ev : LEv)
    (h : SInv cfg l.a ∧ SInv cfg l.b) : SInv cfg (l.step cr cfg ev).a ∧ SInv cfg (l.step cr cfg ev).b := by
  cases ev with
  | toA m => exact ⟨serverStep_inv m h.1, h.2⟩
  | toB m => exact ⟨h.1, serverStep_inv m h.2⟩

theorem Listener.run_inv (cr : Crypto) (cfg : Cfg) (evs : List LEv) :
    SInv cfg (Listener.run cr cfg evs).a ∧ SInv cfg (Listener.run cr cfg evs).b := by
  unfold Listener.run
  have : ∀ (l : Listener), SInv cfg l.a ∧ SInv cfg l.b →
      SInv cfg (evs.foldl (Listener.step cr cfg) l).a ∧ SInv cfg (evs.foldl (Listener.step cr cfg) l).b := by
    induction evs with
    | nil => intro l h; exact h
    | cons ev rest ih => intro l h; exact ih _ (Listener.step_inv ev h)
  exact this _ ⟨serverInit_inv cfg, serverInit_inv cfg⟩

/-- a client in phase `accepted`/`done` holds an accepted record -/
def CPhaseInv (st : CState) : Prop := (st.phase = .accepted ∨ st.phase = .done) → st.acc.isSome = true

theorem clientVerify_phase (cr : Crypto) (cfg : Cfg) (st : CState) (hk : Bytes)
    (shared : Except Err (KexBody × Bytes)) (sig : Bytes) : CPhaseInv (clientVerify cr cfg st hk shared sig).1 := by
  unfold clientVerify clientFinish CPhaseInv
  repeat' (first | split | dsimp only)
  all_goals simp [CState.fail]

theorem clientOnKex_phase (cr : Crypto) (cfg : Cfg) (st : CState) (n : Negotiated) (info : KexInfo) (t : Nat)
    (body : Bytes) (h : CPhaseInv st) : CPhaseInv (clientOnKex cr cfg st n info t body).1 := by
  unfold clientOnKex
  repeat' (first | split | dsimp only)
  all_goals first
    | exact h
    | (simp [CPhaseInv, CState.fail]; done)
    | skip
  all_goals exact clientVerify_phase _ _ _ _ _ _

theorem clientStartKex_phase (cr : Crypto) (st : CState) (n : Negotiated) (info : KexInfo) :
    CPhaseInv (clientStartKex cr st n info).1 := by
  unfold clientStartKex CPhaseInv
  repeat' (first | split | dsimp only)
  all_goals simp [CState.fail]

theorem clientStep_phase {cr : Crypto} {cfg : Cfg} {st : CState} (m : Bytes) (h : CPhaseInv st) :
    CPhaseInv (clientStep cr cfg st m).1 := by
  unfold clientStep
  split
  · exact h
  · exact h
  · exact h
  · unfold clientOnLine CPhaseInv
    repeat' (first | split | dsimp only)
    all_goals first
      | (simp [CState.fail]; done)
      | exact h
  · split
    · simp [CPhaseInv, CState.fail]
    · rename_i tb body
      dsimp only
      have hb : ∀ o : COut, CPhaseInv o.1 → CPhaseInv (bumpC o).1 := fun o ho => ho
      apply hb
      split
      · unfold clientOnKexInit
        repeat' (first | split | dsimp only)
        all_goals first
          | exact clientStartKex_phase _ _ _ _
          | simp [CPhaseInv, CState.fail]
      · split
        · split
          all_goals first
            | (simp [CPhaseInv, CState.fail]; done)
            | skip
          all_goals
            split
            · rename_i hph _ _
              intro hp; simp only [] at hp; rw [hph] at hp; simp at hp
            · exact clientOnKex_phase _ _ _ _ _ _ _ h
        · repeat' (first | split | dsimp only)
          all_goals first
            | exact h
            | (simp [CPhaseInv, CState.fail]; done)
            | skip
          all_goals
            rename_i hacc
            intro _
            exact h (Or.inl hacc)

theorem World.run_phase (cr : Crypto) (ccfg scfg : Cfg) (evs : List Ev) :
    CPhaseInv (World.run cr ccfg scfg evs).c := by
  unfold World.run
  have : ∀ (w : World), CPhaseInv w.c → CPhaseInv (evs.foldl (World.step cr ccfg scfg) w).c := by
    induction evs with
    | nil => intro w h; exact h
    | cons ev rest ih =>
      intro w h
      apply ih
      cases ev with
      | toServer m => exact h
      | toClient m => exact clientStep_phase m h
  apply this
  intro h
  simp [World.init, clientInit] at h

end AsyncsshModel.Kex
