import AsyncsshModel.Model.HostileLoop
import AsyncsshModel.Lemmas.Transport
/-
  Lemmas for the C10 loops: the generic handler loop, the packet receive loop (reusing the measure `mu` and
  `step_measure` of Lemmas/Transport.lean), the send loop and the channel-open parameters.
-/
namespace AsyncsshModel.Hostile
open AsyncsshModel

/-! ### generic handler loop -/

theorem Handler.run_bounds {σ Out : Type} (h : Handler σ Out) (s : σ) (b : Bytes) :
    (h.run s b).2.2.2 ≤ b.length ∧ (h.run s b).2.2.1.length ≤ h.emits * (h.run s b).2.2.2 ∧
      (h.run s b).2.1.length ≤ b.length := by
  fun_induction Handler.run h s b
  · simp
  · simp
  · rename_i s b hne s' b' o hs r ih
    have hr : r = h.run s' b' := rfl
    have hc := h.consumes _ _ _ _ _ hs
    have hb := h.bounded _ _ _ _ _ hs
    simp only [hr] at ih ⊢
    obtain ⟨i1, i2, i3⟩ := ih
    refine ⟨by omega, ?_, by omega⟩
    simp only [List.length_append, Nat.mul_add, Nat.mul_one]
    omega

/-- dispatches ≤ bytes in the buffer; packets emitted ≤ `emits` per byte -/
theorem Handler.run_linear {σ Out : Type} (h : Handler σ Out) (s : σ) (b : Bytes) :
    (h.run s b).2.2.2 ≤ b.length ∧ (h.run s b).2.2.1.length ≤ h.emits * b.length := by
  obtain ⟨h1, h2, _⟩ := h.run_bounds s b
  refine ⟨h1, Nat.le_trans h2 (Nat.mul_le_mul_left _ h1)⟩

/-! ### packet receive loop -/

open Transport in
/-- handler invocations made by the receive loop on a buffer: every successful call but the closing one
    decreases `mu`; then one call closes or declines -/
theorem drainSteps_le {p : Params} {sh : Shim} {e : Bool} (hbs : 0 < p.bs) :
    ∀ (fuel : Nat) (st : RState), drainSteps p sh e fuel st ≤ mu st + 2
  | 0, st => by simp [drainSteps]
  | fuel + 1, st => by
    unfold drainSteps
    split
    · omega
    · split
      · omega
      · rename_i st' out hstep
        rcases step_measure hbs hstep with hc | hm
        · -- the connection was closed by this step: the next call declines
          have hq := closed_quiet p sh e st' hc
          have : drainSteps p sh e fuel st' ≤ 1 := by
            cases fuel with
            | zero => simp [drainSteps]
            | succ f =>
              unfold drainSteps
              split
              · omega
              · rcases hq with hq | hq
                · rename_i hb; simp [hq] at hb
                · simp [hq]
          omega
        · have := drainSteps_le (p := p) (sh := sh) (e := e) hbs fuel st'
          omega

open Transport in
/-- the packets dispatched by one `data_received` are at most the handler invocations -/
theorem drain_outputs_le {p : Params} {sh : Shim} {e : Bool} :
    ∀ (fuel : Nat) (st : RState), (drain p sh e fuel st).2.length ≤ drainSteps p sh e fuel st
  | 0, st => by simp [drain, drainSteps]
  | fuel + 1, st => by
    simp only [drain, drainSteps]
    split
    · simp
    · cases hstep : stepOnce p sh e st with
      | none => simp
      | some q =>
        obtain ⟨st', out⟩ := q
        have ih := drain_outputs_le (p := p) (sh := sh) (e := e) fuel st'
        simp only [List.length_append]
        have : out.toList.length ≤ 1 := by cases out <;> simp
        omega

open Transport in
theorem mu_le (st : RState) : mu st ≤ 2 * st.buf.length + 1 := by
  unfold mu; cases st.phase <;> simp

theorem recvBlockSizes_pos : ∀ bs ∈ Gen.C10.recvBlockSizes, 8 ≤ bs := by decide

/-! ### send loop -/

theorem flushPktsize_spec (w m : Int) : Gen.C10.flushPktsize w m = min w m := by
  simp [Gen.C10.flushPktsize]

theorem pyTake_length_pos (buf : Bytes) (p : Int) (hp : 1 ≤ p) (hlt : p < buf.length) :
    (pyTake buf p).length = p.toNat ∧ (pyDrop buf p).length = buf.length - p.toNat ∧ 1 ≤ p.toNat := by
  unfold pyTake pyDrop pyIdx
  have h0 : ¬ p < 0 := by omega
  simp only [h0, if_false]
  have : min p.toNat buf.length = p.toNat := by omega
  simp [this]; omega

/-- with a positive maximum packet size every iteration shrinks the queue, sends at most `maxpkt` bytes and
    keeps the window non-negative -/
theorem flushIter_progress (st st' : SendSt) (d : Bytes) (hm : 1 ≤ st.maxpkt) (hw : 0 ≤ st.window)
    (h : flushIter st = some (st', d)) :
    sendMeasure st'.bufs < sendMeasure st.bufs ∧ (d.length : Int) ≤ st.maxpkt ∧ 0 ≤ st'.window ∧
      st'.maxpkt = st.maxpkt := by
  unfold flushIter at h
  split at h
  · cases h
  · rename_i buf rest hb
    split at h
    · cases h
    · rename_i hw0
      rw [flushPktsize_spec] at h
      have hp1 : 1 ≤ min st.window st.maxpkt := by omega
      simp only at h
      split at h
      · cases h
      split at h
      · rename_i hgt
        simp only [Option.some.injEq, Prod.mk.injEq] at h
        obtain ⟨rfl, rfl⟩ := h
        obtain ⟨h1, h2, h3⟩ := pyTake_length_pos buf _ hp1 hgt
        refine ⟨?_, ?_, ?_, rfl⟩
        · simp only [hb, sendMeasure, h2]; omega
        · rw [h1]; omega
        · simp only [h1]; omega
      · rename_i hle
        simp only [Option.some.injEq, Prod.mk.injEq] at h
        obtain ⟨rfl, rfl⟩ := h
        refine ⟨?_, ?_, ?_, rfl⟩
        · simp only [hb, sendMeasure]; omega
        · omega
        · simp only; omega

/-- `send_loop_progress` (needs a positive maximum packet size): the loop reaches its exit condition within
    `sendMeasure` iterations, i.e. sends at most one packet per queued byte plus one per queue entry -/
theorem flushLoop_terminates : ∀ (fuel : Nat) (st : SendSt), 1 ≤ st.maxpkt → 0 ≤ st.window →
    sendMeasure st.bufs ≤ fuel →
      (flushLoop fuel st).2.2 = true ∧ (flushLoop fuel st).2.1.length ≤ sendMeasure st.bufs ∧
        ∀ d ∈ (flushLoop fuel st).2.1, (d.length : Int) ≤ st.maxpkt
  | 0, st, hm, hw, hf => by
    unfold flushLoop
    cases hi : flushIter st with
    | none => simp
    | some p =>
      obtain ⟨st', d⟩ := p
      have := (flushIter_progress st st' d hm hw hi).1
      omega
  | fuel + 1, st, hm, hw, hf => by
    unfold flushLoop
    cases hi : flushIter st with
    | none => simp
    | some p =>
      obtain ⟨st', d⟩ := p
      obtain ⟨h1, h2, h3, h4⟩ := flushIter_progress st st' d hm hw hi
      obtain ⟨i1, i2, i3⟩ := flushLoop_terminates fuel st' (by omega) h3 (by omega)
      refine ⟨i1, by simp only [List.length_cons]; omega, ?_⟩
      intro x hx
      simp only [List.mem_cons] at hx
      rcases hx with rfl | hx
      · exact h2
      · have := i3 x hx; omega

/-- with a maximum packet size of zero, a positive window and something to send, one iteration sends an empty
    DATA packet and changes nothing -/
theorem flushIter_zero (hg : Gen.C10.flushBreaks 0 = false) (buf : Bytes) (rest : List Bytes) (w : Int)
    (hb : buf ≠ []) (hw : 0 < w) :
    flushIter { bufs := buf :: rest, window := w, maxpkt := 0 } =
      some ({ bufs := buf :: rest, window := w, maxpkt := 0 }, []) := by
  unfold flushIter
  have hw0 : ¬ w = 0 := by omega
  have hlen : 0 < buf.length := List.length_pos_iff.mpr hb
  simp only [hw0, if_false, flushPktsize_spec]
  have hmin : min w 0 = 0 := by omega
  have hgt : (buf.length : Int) > 0 := by omega
  simp [hmin, hg, hb, pyTake, pyDrop, pyIdx]

/-- … so the loop never reaches its exit condition: after any number of iterations it has sent that many
    (empty) packets and is still running (defect F2) -/
theorem flushLoop_zero_spins (hg : Gen.C10.flushBreaks 0 = false) (buf : Bytes) (rest : List Bytes) (w : Int)
    (hb : buf ≠ []) (hw : 0 < w) :
    ∀ n, (flushLoop n { bufs := buf :: rest, window := w, maxpkt := 0 }).2.1.length = n ∧
         (flushLoop n { bufs := buf :: rest, window := w, maxpkt := 0 }).2.2 = false
  | 0 => by simp [flushLoop, flushIter_zero hg buf rest w hb hw]
  | n + 1 => by
    have ih := flushLoop_zero_spins hg buf rest w hb hw n
    unfold flushLoop
    simp only [flushIter_zero hg buf rest w hb hw]
    exact ⟨by simp [ih.1], ih.2⟩

/-- with a non-positive maximum packet size and the generated break, the loop is left at once, nothing sent -/
theorem flushIter_nonpos_breaks (hall : ∀ p : Int, p ≤ 0 → Gen.C10.flushBreaks p = true) (st : SendSt)
    (hm : st.maxpkt ≤ 0) : flushIter st = none := by
  unfold flushIter
  split
  · rfl
  · split
    · rfl
    · rw [flushPktsize_spec]
      have : Gen.C10.flushBreaks (min st.window st.maxpkt) = true := hall _ (by omega)
      simp [this]

/-- the full statement once the break is in place: for EVERY maximum packet size the loop is left within
    `sendMeasure` iterations -/
theorem flushLoop_terminates_all (hall : ∀ p : Int, p ≤ 0 → Gen.C10.flushBreaks p = true) (st : SendSt)
    (hw : 0 ≤ st.window) :
    (flushLoop (sendMeasure st.bufs) st).2.2 = true ∧
      (flushLoop (sendMeasure st.bufs) st).2.1.length ≤ sendMeasure st.bufs := by
  by_cases hm : st.maxpkt < 1
  · have hn := flushIter_nonpos_breaks hall st (by omega)
    cases hf : sendMeasure st.bufs with
    | zero => simp [flushLoop, hn]
    | succ n => simp [flushLoop, hn]
  · obtain ⟨h1, h2, _⟩ := flushLoop_terminates _ st (by omega) hw (Nat.le_refl _)
    exact ⟨h1, h2⟩

/-! ### channel-open parameters -/

/-- a guard that rejects 0 and −1 leaves only positive sizes -/
theorem guard_positive (g : Int → Bool) (h0 : g 0 = true) (h1 : g (-1) = true) (adv : Nat) (dropbear : Bool)
    (hr : g (if dropbear then (adv : Int) - 1 else adv) = false) :
    1 ≤ (if dropbear then (adv : Int) - 1 else (adv : Int)) := by
  cases dropbear with
  | false =>
    simp only [Bool.false_eq_true, if_false] at hr ⊢
    rcases Nat.eq_zero_or_pos adv with h | h
    · subst h; simp [h0] at hr
    · omega
  | true =>
    simp only [if_true] at hr ⊢
    rcases Nat.lt_or_ge adv 2 with h | h
    · have : adv = 0 ∨ adv = 1 := by omega
      rcases this with rfl | rfl
      · simp [h1] at hr
      · simp [h0] at hr
    · omega

/-- if the generated guards reject 0 and −1 after the adjustment, every accepted open has a positive size -/
theorem open_safe_positive (hs : openSafe = true) (adv : Nat) (dropbear : Bool) (p : Int) :
    (openPktsize adv dropbear = .accept p → 1 ≤ p) ∧ (confirmPktsize adv dropbear = .accept p → 1 ≤ p) := by
  unfold openSafe at hs
  simp only [Bool.and_eq_true] at hs
  obtain ⟨⟨⟨⟨⟨ha, h0⟩, h1⟩, hb⟩, h2⟩, h3⟩ := hs
  constructor
  · intro h
    unfold openPktsize at h
    simp only [ha, Bool.not_true, Bool.false_and, Bool.true_and, Bool.false_eq_true, if_false] at h
    by_cases hr : Gen.C10.openRejectsPktsize (if dropbear = true then (adv : Int) - 1 else adv) = true
    · simp [hr] at h
    · simp only [hr, Bool.false_eq_true, if_false, OpenOutcome.accept.injEq] at h
      rw [← h]
      exact guard_positive _ h0 h1 adv dropbear (by simpa using hr)
  · intro h
    unfold confirmPktsize at h
    simp only [hb, Bool.not_true, Bool.false_and, Bool.true_and, Bool.false_eq_true, if_false] at h
    by_cases hr : Gen.C10.confirmRejectsPktsize (if dropbear = true then (adv : Int) - 1 else adv) = true
    · simp [hr] at h
    · simp only [hr, Bool.false_eq_true, if_false, OpenOutcome.accept.injEq] at h
      rw [← h]
      exact guard_positive _ h2 h3 adv dropbear (by simpa using hr)

theorem processData_spec (d w b : Nat) : processData d w b = .protocolError ↔ (w : Int) - b < d := by
  unfold processData
  simp [Gen.C10.windowExceeded]

end AsyncsshModel.Hostile
