import AsyncsshModel.Model.Socks
/-
  Helper lemmas for the SOCKS parser model (`Model/Socks.lean`, property C20): the state invariant `wf`
  (the handler and the number of bytes it waits for belong together), the termination measure of the
  `while` loop of `data_received`, and what can be raised when.
-/
namespace AsyncsshModel.Socks
open AsyncsshModel
set_option linter.unusedSimpArgs false
set_option linter.unusedVariables false

/-- handler and `_bytes_needed` belong together (all states the parser can be in) -/
def wf (st : St) : Prop :=
  match st.h with
  | .version => st.need = 2
  | .s4addr => st.need = 6
  | .s4user => st.need = -1
  | .s4host => st.need = -1
  | .s5auth => 0 ≤ st.need
  | .s5host => 0 ≤ st.need ∧ (st.addrtype = 1 ∨ st.addrtype = 4)
  | .s5cmd => st.need = 4
  | .s5addr => 1 ≤ st.need ∧ (st.addrtype = 1 ∨ st.addrtype = 4)
  | .s5hostlen => st.need = 1 ∧ (st.addrtype = 1 ∨ st.addrtype = 4)
  | .s5port => st.need = 2 ∧ (st.addrtype = 1 ∨ st.addrtype = 4)
  | .done => True

/-- in the repaired variant a parser without transport has stopped parsing -/
def trDone (v : Variant) (st : St) : Prop := v = .fixed → st.tr = false → st.h = .done

/-- weight of the steps that consume no input -/
def w (st : St) : Nat :=
  if st.need = 0 then
    match st.h with
    | .s5auth => if st.tr then 2 else 1
    | .s5host => 1
    | _ => 0
  else 0

def mu (st : St) : Nat := 3 * st.buf.length + w st

/-- outputs that never occur -/
def Clean (outs : List Out) : Prop :=
  Out.outOfFuel ∉ outs ∧ Out.raised .index ∉ outs ∧ Out.raised .key ∉ outs

theorem clean_nil : Clean [] := by simp [Clean]
theorem clean_append {a b : List Out} (ha : Clean a) (hb : Clean b) : Clean (a ++ b) := by
  simp only [Clean, List.mem_append] at *
  exact ⟨fun h => h.elim ha.1 hb.1, fun h => h.elim ha.2.1 hb.2.1, fun h => h.elim ha.2.2 hb.2.2⟩

theorem addrLen_cases (t : Nat) : addrLen? t = some 4 ∧ t = 1 ∨ addrLen? t = some 16 ∧ t = 4 ∨ addrLen? t = none := by
  unfold addrLen? socks5AddrLen
  by_cases h1 : t = 1
  · subst h1; left; decide
  · by_cases h4 : t = 4
    · subst h4; right; left; decide
    · right; right
      have e1 : (1 == t) = false := by simp; omega
      have e4 : (4 == t) = false := by simp; omega
      simp [List.find?, e1, e4]

theorem byte_some (d : Bytes) (i : Nat) (h : i < d.length) : ∃ n, byte d i = some n := by
  unfold byte
  rw [List.getElem?_eq_getElem h]
  exact ⟨_, rfl⟩

/-- what one handler call guarantees, given that it received exactly the bytes it asked for -/
structure CallOk (v : Variant) (st : St) (r : CallRes) : Prop where
  wf : wf r.st
  trDone : trDone v r.st
  clean : Clean r.out
  buf : r.st.buf = st.buf
  measure : r.exc = false → r.st.h ≠ .done → w r.st ≤ 2 ∧ (st.need = 0 → w r.st < w st)
  trMono : st.tr = false → r.st.tr = false
  raisedTr : ∀ e, Out.raised e ∈ r.out → st.tr = false ∧ v = .asIs
  closeTr : r.st.tr = false → st.tr = false ∨ Out.close ∈ r.out
  excRaised : r.exc = true → ∃ e, Out.raised e ∈ r.out

theorem w_le (st : St) : w st ≤ 2 := by
  unfold w; split <;> (try split) <;> (try split) <;> omega

theorem len1 (d : Bytes) (h : d.length = 1) : ∃ a, d = [a] := by
  rcases d with _ | ⟨a, _ | ⟨b, t⟩⟩ <;> simp at h ⊢
theorem len2 (d : Bytes) (h : d.length = 2) : ∃ a b, d = [a, b] := by
  rcases d with _ | ⟨a, _ | ⟨b, _ | ⟨c, t⟩⟩⟩ <;> simp at h ⊢
theorem len4 (d : Bytes) (h : d.length = 4) : ∃ a b c e, d = [a, b, c, e] := by
  rcases d with _ | ⟨a, _ | ⟨b, _ | ⟨c, _ | ⟨e, _ | ⟨f, t⟩⟩⟩⟩⟩ <;> simp at h ⊢
theorem len6 (d : Bytes) (h : d.length = 6) : ∃ a b c e f g, d = [a, b, c, e, f, g] := by
  rcases d with _ | ⟨a, _ | ⟨b, _ | ⟨c, _ | ⟨e, _ | ⟨f, _ | ⟨g, _ | ⟨i, t⟩⟩⟩⟩⟩⟩⟩ <;> simp at h ⊢

macro "socks_fin" : tactic => `(tactic|
  (constructor <;> simp_all [wf, trDone, Clean, w, SOCKS5_ADDR_IPV4] <;> (try omega) <;>
    (try (split <;> omega))))

theorem closeRes_ok (v : Variant) (st : St) (hw : wf st) (ht : trDone v st)
    (hn : st.need ≠ 0 ∨ st.h = .s5auth ∧ st.tr = true) (hd : st.h ≠ .done) :
    CallOk v st (closeRes v st) := by
  obtain ⟨buf, need, h, at_, host, port, tr⟩ := st
  cases v <;> cases tr <;> cases h <;>
    simp_all [closeRes, doClose, wf, trDone, Clean, w] <;> socks_fin

theorem okAndConnect_ok (v : Variant) (st : St) (resp : Bytes) (hw : wf st) (ht : trDone v st)
    (hd : st.h ≠ .done) : CallOk v st (okAndConnect st resp) := by
  obtain ⟨buf, need, h, at_, host, port, tr⟩ := st
  cases v <;> cases tr <;>
    simp_all [okAndConnect, raise, wf, trDone, Clean, w] <;> socks_fin

/-- the handler call of one loop iteration: `data` is what the loop cut off for it -/
theorem call_ok (v : Variant) (st : St) (data : Bytes) (hw : wf st) (ht : trDone v st)
    (hd : st.h ≠ .done) (hlen : 0 ≤ st.need → data.length = st.need.toNat) :
    CallOk v st (call v st data) := by
  obtain ⟨buf, need, h, at_, host, port, tr⟩ := st
  cases h with
  | done => simp at hd
  | version =>
    simp only [wf] at hw; subst hw
    obtain ⟨a, b, rfl⟩ := len2 data (hlen (by simp))
    simp only [call, byte, List.getElem?_cons_zero, List.getElem?_cons_succ, Option.map_some]
    split
    · split
      · socks_fin
      · exact closeRes_ok v _ (by simp [wf]) ht (by simp) (by simp)
    · split
      · cases v <;> cases tr <;> socks_fin
      · exact closeRes_ok v _ (by simp [wf]) ht (by simp) (by simp)
  | s4addr =>
    simp only [wf] at hw; subst hw
    obtain ⟨a, b, c, e, f, g, rfl⟩ := len6 data (hlen (by simp))
    simp only [call, byte, List.getElem?_cons_zero, List.getElem?_cons_succ, Option.map_some]
    cases v <;> cases tr <;> socks_fin
  | s4user =>
    simp only [wf] at hw; subst hw
    simp only [call]
    split
    · exact okAndConnect_ok v _ _ (by simp [wf]) ht (by simp)
    · cases v <;> cases tr <;> socks_fin
  | s4host =>
    simp only [wf] at hw; subst hw
    simp only [call]
    split
    · have := okAndConnect_ok v
        { buf := buf, need := -1, h := .s4host, addrtype := at_, host := .name data, port := port, tr := tr }
        SOCKS4_OK_RESPONSE (by simp [wf]) ht (by simp)
      constructor
      · exact this.wf
      · exact this.trDone
      · exact this.clean
      · exact this.buf
      · exact this.measure
      · exact this.trMono
      · exact this.raisedTr
      · exact this.closeTr
      · exact this.excRaised
    · exact closeRes_ok v _ (by simp [wf]) ht (by simp) (by simp)
  | s5auth =>
    simp only [wf] at hw
    simp only [call]
    cases tr with
    | false => cases v <;> simp_all [raise, trDone] <;> socks_fin
    | true =>
      simp only [Bool.not_true, Bool.false_eq_true, if_false]
      split
      · cases v <;> socks_fin
      · exact closeRes_ok v _ (by simp [wf]; exact hw) ht (by simp) (by simp)
  | s5cmd =>
    simp only [wf] at hw; subst hw
    obtain ⟨a, b, c, e, rfl⟩ := len4 data (hlen (by simp))
    simp only [call, byte, List.getElem?_cons_zero, List.getElem?_cons_succ, Option.map_some]
    split
    · split
      · cases v <;> cases tr <;> socks_fin
      · rcases addrLen_cases e.toNat with ⟨h1, h2⟩ | ⟨h1, h2⟩ | h1 <;> rw [h1]
        · cases v <;> cases tr <;> socks_fin
        · cases v <;> cases tr <;> socks_fin
        · exact closeRes_ok v _ (by simp [wf]) ht (by simp) (by simp)
    · exact closeRes_ok v _ (by simp [wf]) ht (by simp) (by simp)
  | s5addr =>
    simp only [wf] at hw
    simp only [call]
    cases v <;> cases tr <;> socks_fin
  | s5hostlen =>
    simp only [wf] at hw
    obtain ⟨hw1, hw2⟩ := hw
    subst hw1
    obtain ⟨a, rfl⟩ := len1 data (hlen (by simp))
    simp only [call, byte, List.getElem?_cons_zero, Option.map_some]
    cases v <;> cases tr <;> socks_fin
  | s5host =>
    simp only [wf] at hw
    simp only [call]
    split
    · cases v <;> cases tr <;> socks_fin
    · rename_i hbad
      have hne : need ≠ 0 := by
        intro h0
        have : data = [] := by
          have := hlen hw.1
          rw [h0] at this
          exact List.eq_nil_of_length_eq_zero (by simpa using this)
        rw [this] at hbad
        exact hbad (by decide)
      exact closeRes_ok v _ (by simp only [wf]; exact hw) ht (by simp [hne]) (by simp)
  | s5port =>
    simp only [wf] at hw
    obtain ⟨hw1, hw2⟩ := hw
    subst hw1
    obtain ⟨a, b, rfl⟩ := len2 data (hlen (by simp))
    simp only [call, byte, List.getElem?_cons_zero, List.getElem?_cons_succ, Option.map_some]
    cases tr with
    | false => cases v <;> simp_all [raise, trDone] <;> socks_fin
    | true =>
      simp only [Bool.not_true, Bool.false_eq_true, if_false]
      rcases hw2 with rfl | rfl
      · have : addrLen? 1 = some 4 := by decide
        rw [this]
        have := okAndConnect_ok v
          { buf := buf, need := 2, h := .s5port, addrtype := 1, host := host,
            port := a.toNat * 256 + b.toNat, tr := true }
          (SOCKS5_OK_RESPONSE_HDR ++ [UInt8.ofNat 1] ++ List.replicate (4 + 2) 0) (by simp [wf]) ht (by simp)
        constructor
        · exact this.wf
        · exact this.trDone
        · exact this.clean
        · exact this.buf
        · exact this.measure
        · exact this.trMono
        · exact this.raisedTr
        · exact this.closeTr
        · exact this.excRaised
      · have : addrLen? 4 = some 16 := by decide
        rw [this]
        have := okAndConnect_ok v
          { buf := buf, need := 2, h := .s5port, addrtype := 4, host := host,
            port := a.toNat * 256 + b.toNat, tr := true }
          (SOCKS5_OK_RESPONSE_HDR ++ [UInt8.ofNat 4] ++ List.replicate (16 + 2) 0) (by simp [wf]) ht (by simp)
        constructor
        · exact this.wf
        · exact this.trDone
        · exact this.clean
        · exact this.buf
        · exact this.measure
        · exact this.trMono
        · exact this.raisedTr
        · exact this.closeTr
        · exact this.excRaised

/-- what a run of the loop guarantees -/
structure LoopOk (v : Variant) (st : St) (res : St × List Out) : Prop where
  wf : wf res.1
  trDone : trDone v res.1
  clean : Clean res.2
  trMono : st.tr = false → res.1.tr = false
  raisedTr : ∀ e, Out.raised e ∈ res.2 → v = .asIs ∧ res.1.tr = false
  closeTr : res.1.tr = false → st.tr = false ∨ Out.close ∈ res.2

theorem loopOk_refl (v : Variant) (st : St) (hw : wf st) (ht : trDone v st) : LoopOk v st (st, []) := by
  constructor <;> simp_all [Clean]

theorem loopOk_of_call (v : Variant) (st st0 : St) (r : CallRes) (h : CallOk v st r) (he : r.exc = true)
    (htr : st.tr = st0.tr) : LoopOk v st0 (r.st, r.out) := by
  constructor
  · exact h.wf
  · exact h.trDone
  · exact h.clean
  · intro h0; exact h.trMono (by rw [htr]; exact h0)
  · intro e hm
    have := h.raisedTr e hm
    exact ⟨this.2, h.trMono this.1⟩
  · intro h0
    rcases h.closeTr h0 with h1 | h1
    · left; rw [← htr]; exact h1
    · right; exact h1

theorem loopOk_trans (v : Variant) (st st0 : St) (r : CallRes) (res : St × List Out)
    (h : CallOk v st r) (h2 : LoopOk v r.st res) (htr : st.tr = st0.tr) :
    LoopOk v st0 (res.1, r.out ++ res.2) := by
  constructor
  · exact h2.wf
  · exact h2.trDone
  · exact clean_append h.clean h2.clean
  · intro h0; exact h2.trMono (h.trMono (by rw [htr]; exact h0))
  · intro e hm
    rcases List.mem_append.mp hm with hm | hm
    · have := h.raisedTr e hm
      exact ⟨this.2, h2.trMono (h.trMono this.1)⟩
    · exact h2.raisedTr e hm
  · intro h0
    rcases h2.closeTr h0 with h1 | h1
    · rcases h.closeTr h1 with h3 | h3
      · left; rw [← htr]; exact h3
      · right; exact List.mem_append.mpr (Or.inl h3)
    · right; exact List.mem_append.mpr (Or.inr h1)

theorem doClose_ok (v : Variant) (st : St) (hw : wf st) (ht : trDone v st) : LoopOk v st (doClose v st) := by
  obtain ⟨buf, need, h, at_, host, port, tr⟩ := st
  cases v <;> cases tr <;> cases h <;>
    simp_all [doClose, wf, trDone, Clean] <;> constructor <;> simp_all [wf, trDone, Clean]

theorem findNul_lt (b : Bytes) (i : Nat) (h : findNul b = some i) : i < b.length := by
  unfold findNul at h
  simp only at h
  split at h
  · cases h; assumption
  · cases h

theorem wf_buf (st : St) (b : Bytes) : wf { st with buf := b } ↔ wf st := by
  obtain ⟨buf, need, h, at_, host, port, tr⟩ := st
  cases h <;> simp [wf]

theorem w_buf (st : St) (b : Bytes) : w { st with buf := b } = w st := by
  obtain ⟨buf, need, h, at_, host, port, tr⟩ := st
  simp [w]

/-- the loop never runs out of fuel when started with more than `mu`, and keeps the invariants -/
theorem loop_ok (v : Variant) : ∀ (n : Nat) (st : St), wf st → trDone v st → mu st < n →
    LoopOk v st (loop v n st) := by
  intro n
  induction n with
  | zero => intro st _ _ h; omega
  | succ n ih =>
    intro st hw ht hm
    unfold loop
    split
    · exact loopOk_refl v st hw ht
    · rename_i hnd
      split
      · rename_i hneg
        split
        · rename_i idx hidx
          have hlt := findNul_lt _ _ hidx
          have hc := call_ok v { st with buf := st.buf.drop (idx + 1) } (st.buf.take idx)
            ((wf_buf st _).mpr hw) ht hnd (by intro h0; simp only at h0; omega)
          simp only
          split
          · rename_i hexc
            exact loopOk_of_call v _ st _ hc hexc rfl
          · rename_i hexc
            have hmu : mu (call v { st with buf := st.buf.drop (idx + 1) } (st.buf.take idx)).st < n := by
              unfold mu at hm ⊢
              rw [hc.buf]
              have := w_le (call v { st with buf := st.buf.drop (idx + 1) } (st.buf.take idx)).st
              simp only [List.length_drop]
              omega
            have h2 := ih _ hc.wf hc.trDone hmu
            exact loopOk_trans v _ st _ _ hc h2 rfl
        · split
          · exact doClose_ok v st hw ht
          · exact loopOk_refl v st hw ht
      · rename_i hneg
        split
        · rename_i hge
          have hc := call_ok v { st with buf := st.buf.drop st.need.toNat } (st.buf.take st.need.toNat)
            ((wf_buf st _).mpr hw) ht hnd (by
              intro _
              simp only [List.length_take]
              omega)
          simp only
          split
          · rename_i hexc
            exact loopOk_of_call v _ st _ hc hexc rfl
          · rename_i hexc
            have hexc' : (call v { st with buf := st.buf.drop st.need.toNat } (st.buf.take st.need.toNat)).exc
                = false := by simpa using hexc
            have hmu : mu (call v { st with buf := st.buf.drop st.need.toNat }
                (st.buf.take st.need.toNat)).st < n := by
              have e0 := w_buf st (st.buf.drop st.need.toNat)
              generalize hR : call v { st with buf := st.buf.drop st.need.toNat }
                (st.buf.take st.need.toNat) = R at hc hexc' ⊢
              unfold mu at hm ⊢
              rw [hc.buf]
              have hwle := w_le R.st
              simp only [List.length_drop]
              by_cases h0 : st.need = 0
              · have hk : st.need.toNat = 0 := by rw [h0]; rfl
                rw [hk]
                simp only [Nat.sub_zero]
                by_cases hdone : R.st.h = .done
                · have hz : w R.st = 0 := by
                    unfold w; rw [hdone]; split <;> rfl
                  have hpos : 0 < w st := by
                    obtain ⟨buf, need, h, at_, host, port, tr⟩ := st
                    simp only at h0 hnd hw
                    subst h0
                    cases h <;> simp_all [wf, w] <;> (try split) <;> omega
                  omega
                · have hlt := (hc.measure hexc' hdone).2 h0
                  omega
              · have : 1 ≤ st.need.toNat := by omega
                omega
            have h2 := ih _ hc.wf hc.trDone hmu
            exact loopOk_trans v _ st _ _ hc h2 rfl
        · exact loopOk_refl v st hw ht

theorem feed_ok (v : Variant) (st : St) (chunk : Bytes) (hw : wf st) (ht : trDone v st) :
    LoopOk v st (feed v st chunk) := by
  unfold feed
  split
  · have h1 : wf { st with buf := st.buf ++ chunk } := (wf_buf st _).mpr hw
    constructor <;> simp_all [Clean, trDone]
  · have h1 : wf { st with buf := st.buf ++ chunk } := (wf_buf st _).mpr hw
    have h2 := loop_ok v (fuelFor (st.buf ++ chunk)) { st with buf := st.buf ++ chunk } h1 ht (by
      unfold mu fuelFor
      have := w_le { st with buf := st.buf ++ chunk }
      simp only
      omega)
    constructor
    · exact h2.wf
    · exact h2.trDone
    · exact h2.clean
    · exact h2.trMono
    · exact h2.raisedTr
    · exact h2.closeTr

/-- invariant of a multi-chunk run from the initial state -/
structure RunOk (v : Variant) (st : St) (outs : List Out) : Prop where
  wf : wf st
  trDone : trDone v st
  clean : Clean outs
  closed : st.tr = false → Out.close ∈ outs
  raised : ∀ e, Out.raised e ∈ outs → v = .asIs ∧ Out.close ∈ outs

theorem feedAll_ok (v : Variant) (chunks : List Bytes) : ∀ (st : St) (outs0 : List Out),
    RunOk v st outs0 → RunOk v (feedAll v st chunks).1 (outs0 ++ (feedAll v st chunks).2) := by
  induction chunks with
  | nil => intro st outs0 h; simpa [feedAll] using h
  | cons c cs ih =>
    intro st outs0 h
    have hf := feed_ok v st c h.wf h.trDone
    have h1 : RunOk v (feed v st c).1 (outs0 ++ (feed v st c).2) := by
      constructor
      · exact hf.wf
      · exact hf.trDone
      · exact clean_append h.clean hf.clean
      · intro h0
        rcases hf.closeTr h0 with h2 | h2
        · exact List.mem_append.mpr (Or.inl (h.closed h2))
        · exact List.mem_append.mpr (Or.inr h2)
      · intro e hm
        rcases List.mem_append.mp hm with hm | hm
        · exact ⟨(h.raised e hm).1, List.mem_append.mpr (Or.inl (h.raised e hm).2)⟩
        · have := hf.raisedTr e hm
          refine ⟨this.1, ?_⟩
          rcases hf.closeTr this.2 with h2 | h2
          · exact List.mem_append.mpr (Or.inl (h.closed h2))
          · exact List.mem_append.mpr (Or.inr h2)
    have h2 := ih _ _ h1
    simp only [feedAll]
    simpa [List.append_assoc] using h2

theorem runOk_init (v : Variant) : RunOk v init [] := by
  constructor <;> simp [init, wf, trDone, Clean]

end AsyncsshModel.Socks
