import AsyncsshModel.Model.SftpProto
import AsyncsshModel.Lemmas.SftpWire
/-
  Helper lemmas for the SFTP request/reply model: the framing header, the reply's id and type, consistency of
  the hand-written handler grammar with the generated tables (kernel-evaluated over the generated lists).
-/
namespace AsyncsshModel.Sftp
open AsyncsshModel.Gen.C14

theorem header?_isSome_iff (pkt : Bytes) : (header? pkt).isSome = true ↔ 5 ≤ pkt.length := by
  unfold header? getU8 getU32
  match pkt with
  | [] => simp
  | [_] => simp
  | [_, _] => simp
  | [_, _, _] => simp
  | [_, _, _, _] => simp
  | _ :: _ :: _ :: _ :: _ :: r => simp

theorem header?_frame (t id : Nat) (payload : Bytes) (ht : t < 256) (hid : id < 2^32) :
    header? (putU8 t ++ putU32 id ++ payload) = some (t, id, payload) := by
  have h1 : ∀ r, getU8 (putU8 t ++ r) = .ok (t, r) := fun r => getU8_putU8 t r ht
  have h2 : ∀ r, getU32 (putU32 id ++ r) = .ok (id, r) := fun r => getU32_putU32 id r hid
  unfold header?
  rw [List.append_assoc, h1]
  simp only [h2]

theorem getU32_error (inp : Bytes) (e : DecErr) (h : getU32 inp = .error e) : e = .short := by
  unfold getU32 at h
  split at h <;> simp at h
  exact h.symm

theorem getStr_error (inp : Bytes) (e : DecErr) (h : getStr inp = .error e) : e = .short := by
  unfold getStr at h
  split at h
  · rename_i e' hg
    simp at h; subst h
    exact getU32_error inp e' hg
  · split at h <;> simp at h
    exact h.symm

theorem processPacket_id (v : Nat) (env : Env) (t id : Nat) (payload : Bytes) :
    (processPacket v env t id payload).id = id := by
  unfold processPacket
  split <;> rfl

theorem status_mem_legal (k : ReqKey) : FXP_STATUS ∈ legalTypes k := by simp [legalTypes]

theorem processResult_key (v : Nat) (env : Env) (t : Nat) (payload : Bytes) (k : ReqKey) (b : Body)
    (h : processResult v env t payload = .ok (k, b)) : ∃ body, splitKey t payload = .ok (k, body) := by
  unfold processResult at h
  cases hs : splitKey t payload with
  | error e => simp [hs] at h
  | ok p =>
    obtain ⟨k', body⟩ := p
    simp only [hs] at h
    refine ⟨body, ?_⟩
    split at h
    · simp at h
    · split at h
      · simp at h
      · split at h
        · simp at h
        · split at h
          · simp at h; rw [h.1]
          · simp at h

/-- the reply type is FXP_STATUS, or the `_return_types` entry of the request's key -/
theorem processPacket_type_legal (v : Nat) (env : Env) (t id : Nat) (payload : Bytes) (k : ReqKey)
    (hk : requestKey t payload = some k) : (processPacket v env t id payload).type ∈ legalTypes k := by
  unfold processPacket
  split
  · rename_i k' b h
    obtain ⟨body, hs⟩ := processResult_key v env t payload k' b h
    have : k' = k := by
      unfold requestKey at hk; rw [hs] at hk; simpa using hk
    subst this
    cases hr : returnType? k' <;> simp [legalTypes, hr]
  · exact status_mem_legal k

theorem processPacket_no_key (v : Nat) (env : Env) (t id : Nat) (payload : Bytes)
    (hk : requestKey t payload = none) :
    processPacket v env t id payload = ⟨FXP_STATUS, id, .status codeOnPacketDecodeError⟩ := by
  unfold requestKey at hk
  unfold processPacket processResult
  cases hs : splitKey t payload with
  | ok p => simp [hs] at hk
  | error e =>
    -- the only decode error of `get_string` is `short`
    have he : e = .short := by
      unfold splitKey at hs
      split at hs
      · cases hg : getStr payload with
        | ok p => simp [hg] at hs
        | error e' =>
          simp [hg] at hs; subst hs
          exact getStr_error payload e' hg
      · simp at hs
    subst he
    simp [decErrExc, excCode]

/-- no handler for the request key: FXP_STATUS with the code of `SFTPOpUnsupported` -/
theorem processPacket_no_handler (v : Nat) (env : Env) (t id : Nat) (payload : Bytes) (k : ReqKey)
    (hk : requestKey t payload = some k) (hh : hasHandler k = false) :
    processPacket v env t id payload = ⟨FXP_STATUS, id, .status (statusCodeFor codeOnNoHandler v)⟩ := by
  unfold requestKey at hk
  unfold processPacket processResult
  cases hs : splitKey t payload with
  | error e => simp [hs] at hk
  | ok p =>
    obtain ⟨k', body⟩ := p
    simp only [hs, Option.some.injEq] at hk
    subst hk
    simp [hh, excCode]

/-- the body does not parse: FXP_STATUS with the code of the decode error -/
theorem processPacket_malformed (v : Nat) (env : Env) (t id : Nat) (payload : Bytes) (k : ReqKey) (sp : Spec)
    (body : Bytes) (e : DecErr) (hk : splitKey t payload = .ok (k, body))
    (hh : hasHandler k = true) (hs : specOf v k = some sp) (hp : parseBody v sp body = .error e) :
    processPacket v env t id payload = ⟨FXP_STATUS, id, .status (excCode v (decErrExc e))⟩ := by
  unfold processPacket processResult
  simp [hk, hh, hs, hp]

/-- every key in the server's generated handler table has a body grammar in the model, in every version -/
theorem handlers_modelled :
    ∀ v ∈ [3, 4, 5, 6], (∀ n ∈ serverHandlersNum, (specNum v n).isSome = true) ∧
      (∀ e ∈ serverHandlersExt, (specExt e).isSome = true) := by
  decide +kernel

/-- and the model has no grammar for anything else among the packet types -/
theorem no_spurious_grammar :
    ∀ v ∈ [3, 4, 5, 6], ∀ n ∈ List.range 256, (specNum v n).isSome = serverHandlersNum.contains n := by
  decide +kernel

/-- the kinds that answer without a typed application result agree with `_return_types` -/
def kindConsistent (v : Nat) (k : ReqKey) : Bool :=
  match specOf v k with
  | none => true
  | some sp =>
    (sp.kind != .opendir || returnType? k == some FXP_HANDLE) &&
    (sp.kind != .open || returnType? k == some FXP_HANDLE) &&
    (sp.kind != .limits || returnType? k == some FXP_EXTENDED_REPLY) &&
    (sp.kind != .close || returnType? k == none)

theorem kinds_consistent :
    ∀ v ∈ [3, 4, 5, 6], (∀ n ∈ serverHandlersNum, kindConsistent v (.num n) = true) ∧
      (∀ e ∈ serverHandlersExt, kindConsistent v (.ext e) = true) := by
  decide +kernel

theorem return_types_known :
    (∀ p ∈ returnTypesNum, p.2 ∈ [FXP_HANDLE, FXP_DATA, FXP_NAME, FXP_ATTRS, FXP_EXTENDED_REPLY]) ∧
    (∀ p ∈ returnTypesExt, p.2 ∈ [FXP_HANDLE, FXP_DATA, FXP_NAME, FXP_ATTRS, FXP_EXTENDED_REPLY]) := by
  decide +kernel

theorem typedBody_type (v : Nat) (sp : Spec) (vals : List Val) (env : Env) (rt : Nat) (b : Body)
    (hk : rt ∈ [FXP_HANDLE, FXP_DATA, FXP_NAME, FXP_ATTRS, FXP_EXTENDED_REPLY])
    (h : typedBody v sp vals env rt = .ok b) : bodyType b = rt := by
  unfold typedBody at h
  split at h
  · rename_i hrt; simp at h; subst h; simp [bodyType, hrt]
  · split at h
    · rename_i hrt
      split at h
      · split at h
        · simp at h
        · split at h
          · simp at h; subst h; simp [bodyType, hrt]
          · simp at h
      · simp at h
    · split at h
      · rename_i hrt
        split at h
        · simp at h
        · split at h
          · simp at h
          · split at h
            · simp at h; subst h; simp [bodyType, hrt]
            · simp at h
      · split at h
        · rename_i hrt
          split at h
          · split at h
            · simp at h; subst h; simp [bodyType, hrt]
            · simp at h
          · simp at h
        · split at h
          · simp at h; subst h
            simp at hk
            rcases hk with h' | h' | h' | h' | h' <;> simp_all [bodyType]
          · simp at h

theorem handlerResult_type (v : Nat) (k : ReqKey) (sp : Spec) (vals : List Val) (env : Env) (b : Body)
    (hs : specOf v k = some sp) (hc : kindConsistent v k = true)
    (hk : ∀ rt, returnType? k = some rt → rt ∈ [FXP_HANDLE, FXP_DATA, FXP_NAME, FXP_ATTRS, FXP_EXTENDED_REPLY])
    (h : handlerResult v k sp vals env = .ok b) :
    bodyType b = (returnType? k).getD FXP_STATUS := by
  simp only [kindConsistent, hs] at hc
  simp only [Bool.and_eq_true, Bool.or_eq_true, bne_iff_ne, ne_eq, beq_iff_eq] at hc
  obtain ⟨⟨⟨hod, hop⟩, hlim⟩, hcl⟩ := hc
  unfold handlerResult at h
  split at h
  · simp at h
  · split at h
    · rename_i hk1
      simp at h; subst h
      have := hod.resolve_left (by simp [hk1])
      simp [bodyType, this]
    · split at h
      · rename_i hk1
        simp at h; subst h
        have := hlim.resolve_left (by simp [hk1])
        simp [bodyType, this]
      · split at h
        · rename_i hk1
          simp at h; subst h
          have := hcl.resolve_left (by simp [hk1.1])
          simp [bodyType, this]
        · split at h
          · simp at h
          · split at h
            · rename_i hr
              simp at h; subst h
              simp [bodyType, hr]
            · rename_i rt hr
              simp only [hr, Option.getD_some]
              exact typedBody_type v sp vals env rt b (hk rt hr) h


theorem lookup_mem {α β : Type} [BEq α] [LawfulBEq α] (l : List (α × β)) (a : α) (b : β)
    (h : l.lookup a = some b) : (a, b) ∈ l := by
  induction l with
  | nil => simp at h
  | cons p l ih =>
    obtain ⟨a', b'⟩ := p
    simp only [List.lookup_cons] at h
    by_cases he : a == a'
    · simp [he] at h
      have := eq_of_beq he
      subst this; subst h; simp
    · simp [he] at h
      exact List.mem_cons_of_mem _ (ih h)

theorem returnType_known (k : ReqKey) (rt : Nat) (h : returnType? k = some rt) :
    rt ∈ [FXP_HANDLE, FXP_DATA, FXP_NAME, FXP_ATTRS, FXP_EXTENDED_REPLY] := by
  cases k with
  | num n => exact return_types_known.1 _ (lookup_mem _ _ _ h)
  | ext e => exact return_types_known.2 _ (lookup_mem _ _ _ h)

theorem kindConsistent_of_handler (v : Nat) (hv : v ∈ [3, 4, 5, 6]) (k : ReqKey) (h : hasHandler k = true) :
    kindConsistent v k = true := by
  cases k with
  | num n => exact (kinds_consistent v hv).1 n (by simpa [hasHandler] using h)
  | ext e => exact (kinds_consistent v hv).2 e (by simpa [hasHandler] using h)

/-- the reply's type is the type of its body: STATUS carries a status, HANDLE a handle, … -/
theorem processPacket_well_typed (v : Nat) (hv : v ∈ [3, 4, 5, 6]) (env : Env) (t id : Nat) (payload : Bytes) :
    (processPacket v env t id payload).type = bodyType (processPacket v env t id payload).body := by
  unfold processPacket
  split
  · rename_i k b h
    simp only
    unfold processResult at h
    split at h
    · simp at h
    · split at h
      · simp at h
      · rename_i hh
        split at h
        · simp at h
        · rename_i sp hs
          split at h
          · simp at h
          · split at h
            · rename_i vals b' hr
              simp at h
              obtain ⟨rfl, rfl⟩ := h
              rename_i k' _ _ _ _ _ _
              have hh' : hasHandler k' = true := by simpa using hh
              exact (handlerResult_type v k' sp _ env _ hs (kindConsistent_of_handler v hv k' hh')
                (returnType_known k') hr).symm
            · simp at h
  · rfl

end AsyncsshModel.Sftp
