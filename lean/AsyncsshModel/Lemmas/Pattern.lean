import AsyncsshModel.Model.PatternIP
/-
  C17 — declarative specifications of wildcard matching and helper lemmas relating them to the
  executable model of Model/Pattern.lean.
-/
namespace AsyncsshModel.Pattern
open AsyncsshModel

/-! ### declarative glob relation (sshd(8) PATTERNS: `*` zero or more characters, `?` exactly one) -/

/-- `Glob p s`: the pattern `p` matches the whole string `s`. -/
inductive Glob : Str → Str → Prop
  | nil : Glob [] []
  | starSkip {p s : Str} : Glob p s → Glob ('*' :: p) s
  | starTake {p s : Str} {d : Char} : Glob ('*' :: p) s → Glob ('*' :: p) (d :: s)
  | any {p s : Str} {d : Char} : Glob p s → Glob ('?' :: p) (d :: s)
  | lit {p s : Str} {c : Char} : c ≠ '*' → c ≠ '?' → Glob p s → Glob (c :: p) (c :: s)

/-- what one pattern character may stand for -/
def Piece (c : Char) (w : Str) : Prop :=
  if c = '*' then True else if c = '?' then w.length = 1 else w = [c]

/-- denotational reading: the string is the concatenation of one piece per pattern character -/
inductive Pieces : Str → List Str → Prop
  | nil : Pieces [] []
  | cons {c : Char} {w : Str} {p : Str} {ws : List Str} : Piece c w → Pieces p ws → Pieces (c :: p) (w :: ws)

def GlobSem (p s : Str) : Prop := ∃ ws : List Str, Pieces p ws ∧ ws.flatten = s

theorem anySuffix_iff (f : Str → Bool) (s : Str) :
    anySuffix f s = true ↔ ∃ t, t <:+ s ∧ f t = true := by
  induction s with
  | nil =>
    simp only [anySuffix]
    constructor
    · intro h; exact ⟨[], List.suffix_refl _, h⟩
    · rintro ⟨t, ht, hf⟩
      have : t = [] := List.eq_nil_of_suffix_nil ht
      simpa [this] using hf
  | cons d s ih =>
    simp only [anySuffix, Bool.or_eq_true, ih]
    constructor
    · rintro (h | ⟨t, ht, hf⟩)
      · exact ⟨d :: s, List.suffix_refl _, h⟩
      · exact ⟨t, ht.trans (List.suffix_cons d s), hf⟩
    · rintro ⟨t, ht, hf⟩
      rcases List.suffix_cons_iff.mp ht with h | h
      · left; simpa [h] using hf
      · right; exact ⟨t, h, hf⟩

theorem glob_star_of_suffix {p t : Str} (h : Glob p t) : ∀ pre : Str, Glob ('*' :: p) (pre ++ t)
  | [] => Glob.starSkip h
  | _ :: pre => Glob.starTake (glob_star_of_suffix h pre)

theorem glob_star_elim {q s : Str} (h : Glob q s) :
    ∀ p, q = '*' :: p → ∃ t, t <:+ s ∧ Glob p t := by
  induction h with
  | nil => intro p hp; cases hp
  | starSkip h _ => intro p' hp; cases hp; exact ⟨_, List.suffix_refl _, h⟩
  | @starTake p s d _ ih =>
    intro p' hp
    obtain ⟨t, ht, hg⟩ := ih p' hp
    exact ⟨t, ht.trans (List.suffix_cons d s), hg⟩
  | any _ _ => intro p' hp; cases hp
  | lit hc _ _ _ => intro p' hp; cases hp; exact absurd rfl hc

theorem glob_star_iff (p s : Str) : Glob ('*' :: p) s ↔ ∃ t, t <:+ s ∧ Glob p t := by
  constructor
  · intro h; exact glob_star_elim h p rfl
  · rintro ⟨t, ⟨pre, rfl⟩, hg⟩; exact glob_star_of_suffix hg pre

theorem globToks_cons (c : Char) (p : Str) : globToks (c :: p) = globTok c :: globToks p := rfl

/-- the executable matcher decides the declarative relation -/
theorem globMatch_iff_glob (p : Str) : ∀ s, globMatch p s = true ↔ Glob p s := by
  induction p with
  | nil =>
    intro s
    cases s with
    | nil => simp [globMatch, globToks, matchToks]; exact Glob.nil
    | cons d s => simp [globMatch, globToks, matchToks]; intro h; cases h
  | cons c p ih =>
    intro s
    unfold globMatch at ih ⊢
    rw [globToks_cons]
    by_cases hstar : c = '*'
    · subst hstar
      simp only [globTok, if_true, matchToks]
      rw [anySuffix_iff, glob_star_iff]
      constructor
      · rintro ⟨t, ht, hm⟩; exact ⟨t, ht, (ih t).mp hm⟩
      · rintro ⟨t, ht, hg⟩; exact ⟨t, ht, (ih t).mpr hg⟩
    · by_cases hq : c = '?'
      · subst hq
        have : globTok '?' = .one .any := by simp [globTok]
        rw [this]
        cases s with
        | nil => simp [matchToks]; intro h; cases h
        | cons d s =>
          simp only [matchToks, CharClass.accepts, Bool.true_and]
          rw [ih s]
          constructor
          · exact Glob.any
          · intro h; cases h with
            | any h => exact h
            | lit _ h2 _ => exact absurd rfl h2
      · have : globTok c = .one (.lit c) := by simp [globTok, hstar, hq]
        rw [this]
        cases s with
        | nil => simp [matchToks]; intro h; cases h; exact absurd rfl hstar
        | cons d s =>
          simp only [matchToks, CharClass.accepts, Bool.and_eq_true, beq_iff_eq]
          rw [ih s]
          constructor
          · rintro ⟨rfl, h⟩; exact Glob.lit hstar hq h
          · intro h; cases h with
            | starSkip _ => exact absurd rfl hstar
            | starTake _ => exact absurd rfl hstar
            | any _ => exact absurd rfl hq
            | lit _ _ h => exact ⟨rfl, h⟩

/-! ### the inductive relation and the denotational reading agree -/

theorem glob_to_sem {p s : Str} (h : Glob p s) : GlobSem p s := by
  induction h with
  | nil => exact ⟨[], Pieces.nil, rfl⟩
  | starSkip _ ih =>
    obtain ⟨ws, hf, hs⟩ := ih
    exact ⟨[] :: ws, Pieces.cons (by simp [Piece]) hf, by simpa using hs⟩
  | @starTake p s d _ ih =>
    obtain ⟨ws, hf, hs⟩ := ih
    cases hf with
    | cons hw hrest =>
      rename_i w ws'
      refine ⟨(d :: w) :: ws', Pieces.cons (by simp [Piece]) hrest, ?_⟩
      simp only [List.flatten_cons, List.cons_append] at hs ⊢
      rw [hs]
  | @any p s d _ ih =>
    obtain ⟨ws, hf, hs⟩ := ih
    exact ⟨[d] :: ws, Pieces.cons (by simp [Piece]) hf, by simp [hs]⟩
  | @lit p s c h1 h2 _ ih =>
    obtain ⟨ws, hf, hs⟩ := ih
    exact ⟨[c] :: ws, Pieces.cons (by simp [Piece, h1, h2]) hf, by simp [hs]⟩

theorem sem_to_glob : ∀ (p : Str) (ws : List Str), Pieces p ws → Glob p ws.flatten
  | [], _, h => by cases h; exact Glob.nil
  | c :: p, _, h => by
    cases h with
    | cons hw hrest =>
      rename_i w ws
      have ih := sem_to_glob p ws hrest
      simp only [List.flatten_cons]
      by_cases hstar : c = '*'
      · subst hstar; exact glob_star_of_suffix ih w
      · by_cases hq : c = '?'
        · subst hq
          simp only [Piece] at hw
          match w, hw with
          | [d], _ => exact Glob.any ih
        · simp only [Piece, hstar, hq, if_false] at hw
          subst hw
          exact Glob.lit hstar hq ih

theorem glob_iff_sem (p s : Str) : Glob p s ↔ GlobSem p s :=
  ⟨glob_to_sem, fun ⟨ws, hf, hs⟩ => hs ▸ sem_to_glob p ws hf⟩

/-! ### what `fnmatch` makes of the bracket-escaped pattern -/

/-- token the escaped text of one pattern character translates to -/
def escTok (c : Char) : Tok :=
  if c = '[' then .one (.set false ['[']) else if c = ']' then .one (.set false [']']) else globTok c

theorem findClose_open (r : Str) : findClose ('[' :: ']' :: r) = some (['['], r) := by
  simp [findClose, scanClose]

theorem findClose_close (r : Str) : findClose (']' :: ']' :: r) = some ([']'], r) := by
  simp [findClose, scanClose]

theorem fnTokensAux_escape (p : Str) :
    ∀ fuel, (escapeBrackets p).length ≤ fuel → fnTokensAux fuel (escapeBrackets p) = some (p.map escTok) := by
  induction p with
  | nil => intro fuel _; cases fuel <;> simp [escapeBrackets, fnTokensAux]
  | cons c p ih =>
    intro fuel hf
    by_cases ho : c = '['
    · subst ho
      simp only [escapeBrackets, if_true, List.length_cons] at hf ⊢
      obtain ⟨f, rfl⟩ : ∃ f, fuel = f + 1 := ⟨fuel - 1, by omega⟩
      have h1 : ¬ ('[' = '*') := by decide
      have h2 : ¬ ('[' = '?') := by decide
      simp only [fnTokensAux, h1, h2, if_false, if_true, findClose_open]
      have : ([('[' : Char)].contains '-') = false := by decide
      simp only [this]
      rw [ih f (by omega)]
      simp [escTok, setOf]
    · by_cases hc : c = ']'
      · subst hc
        have h0 : ¬ (']' = '[') := by decide
        simp only [escapeBrackets, h0, if_false, if_true, List.length_cons] at hf ⊢
        obtain ⟨f, rfl⟩ : ∃ f, fuel = f + 1 := ⟨fuel - 1, by omega⟩
        have h1 : ¬ ('[' = '*') := by decide
        have h2 : ¬ ('[' = '?') := by decide
        simp only [fnTokensAux, h1, h2, if_false, if_true, findClose_close]
        have : ([(']' : Char)].contains '-') = false := by decide
        simp only [this]
        rw [ih f (by omega)]
        simp [escTok, setOf]
      · simp only [escapeBrackets, ho, hc, if_false, List.length_cons] at hf ⊢
        obtain ⟨f, rfl⟩ : ∃ f, fuel = f + 1 := ⟨fuel - 1, by omega⟩
        have hrec := ih f (by omega)
        by_cases hs : c = '*'
        · subst hs; simp [fnTokensAux, hrec, escTok, globTok]
        · by_cases hq : c = '?'
          · subst hq; simp [fnTokensAux, hrec, escTok, globTok]
          · simp [fnTokensAux, hrec, escTok, globTok, ho, hc, hs, hq]

theorem matchToks_escTok (p : Str) : ∀ s, matchToks (p.map escTok) s = matchToks (globToks p) s := by
  induction p with
  | nil => intro s; rfl
  | cons c p ih =>
    intro s
    have hfun : matchToks (p.map escTok) = matchToks (globToks p) := funext ih
    rw [List.map_cons, globToks_cons]
    by_cases ho : c = '['
    · subst ho
      have h1 : escTok '[' = .one (.set false ['[']) := by simp [escTok]
      have h2 : globTok '[' = .one (.lit '[') := by decide
      rw [h1, h2]
      cases s with
      | nil => rfl
      | cons d s =>
        simp [matchToks, CharClass.accepts, ih s]
        by_cases hd : d = '['
        · subst hd; simp
        · have hb : ('[' == d) = false := beq_eq_false_iff_ne.mpr (fun h => hd h.symm)
          simp [hd, hb]
    · by_cases hc : c = ']'
      · subst hc
        have h1 : escTok ']' = .one (.set false [']']) := by decide
        have h2 : globTok ']' = .one (.lit ']') := by decide
        rw [h1, h2]
        cases s with
        | nil => rfl
        | cons d s =>
          simp [matchToks, CharClass.accepts, ih s]
          by_cases hd : d = ']'
          · subst hd; simp
          · have hb : (']' == d) = false := beq_eq_false_iff_ne.mpr (fun h => hd h.symm)
            simp [hd, hb]
      · have h1 : escTok c = globTok c := by simp [escTok, ho, hc]
        rw [h1]
        cases hg : globTok c with
        | star => simp [matchToks, hfun]
        | one cc =>
          cases s with
          | nil => rfl
          | cons d s => simp [matchToks, ih s]

end AsyncsshModel.Pattern
