import AsyncsshModel.Model.Transport
namespace AsyncsshModel.Transport
open AsyncsshModel

/-! ### Python slicing facts for non-negative bounds -/

theorem pyIdx_nonneg (len : Nat) (n : Nat) : pyIdx len (n : Int) = min n len := by
  unfold pyIdx
  have : ¬ ((n : Int) < 0) := by omega
  simp [this]

theorem pyTake_nat (l : Bytes) (n : Nat) : pyTake l (n : Int) = l.take n := by
  unfold pyTake
  rw [pyIdx_nonneg]
  rw [List.take_eq_take_iff]
  omega

theorem pyDrop_nat (l : Bytes) (n : Nat) : pyDrop l (n : Int) = l.drop n := by
  unfold pyDrop
  rw [pyIdx_nonneg]
  by_cases h : n ≤ l.length
  · simp [Nat.min_eq_left h]
  · have h' : l.length ≤ n := by omega
    simp [Nat.min_eq_right h', List.drop_eq_nil_of_le h']

theorem pySlice_nat (l : Bytes) (a b : Nat) : pySlice l (a : Int) (b : Int) = (l.take b).drop a := by
  unfold pySlice
  rw [pyIdx_nonneg, pyIdx_nonneg]
  have h1 : l.take (min b l.length) = l.take b := by
    rw [List.take_eq_take_iff]; omega
  rw [h1]
  by_cases h : a ≤ l.length
  · simp [Nat.min_eq_left h]
  · have h' : l.length ≤ a := by omega
    rw [Nat.min_eq_right h']
    rw [List.drop_eq_nil_of_le (by simp; omega), List.drop_eq_nil_of_le (by simp; omega)]

end AsyncsshModel.Transport

namespace AsyncsshModel.Transport
open AsyncsshModel

/-! ### The honest sender of one key epoch and the laws of an (ideal) authenticated cipher -/

/-- wire bytes of a list of cleartext packet bodies sealed with consecutive sequence numbers -/
def wire (enc : Nat → Bytes → Bytes) : Nat → List Bytes → Bytes
  | _, [] => []
  | s, pd :: rest => enc s pd ++ wire enc (s + 1) rest

/-- the packet body the sender sealed under sequence number `s`, if any -/
def sentOf (s0 : Nat) (pkts : List Bytes) (s : Nat) : Option Bytes :=
  if s0 ≤ s then pkts[s - s0]? else none

/-- what the receiver relies on, for the packets the sender really sealed:
    decoding is correct (`hdr_ok`, `open_ok`) -/
structure Correct (p : Params) (sh : Shim) (enc : Nat → Bytes → Bytes) (sent : Nat → Option Bytes) : Prop where
  wire_len : ∀ s pd, (enc s pd).length = 4 + pd.length + p.mac
  hdr_ok : ∀ s pd, sent s = some pd → pd.length < 4294967296 → p.bs ≤ 4 + pd.length →
    (sh.decryptHeader s ((enc s pd).take p.bs)).2 = pd.length
  open_ok : ∀ s pd, sent s = some pd → pd.length < 4294967296 → p.bs ≤ 4 + pd.length →
    sh.decryptPacket s (sh.decryptHeader s ((enc s pd).take p.bs)).1
      (((enc s pd).drop p.bs).take (4 + pd.length - p.bs)) ((enc s pd).drop (4 + pd.length)) = some pd

/-- ciphertext integrity (ideal authenticated encryption): whatever verifies under sequence number `s`
    is byte for byte the packet the key holder sealed under `s`. -/
def IntCtxt (p : Params) (sh : Shim) (enc : Nat → Bytes → Bytes) (sent : Nat → Option Bytes) : Prop :=
  ∀ s fb rest mac pd, fb.length = p.bs →
    sh.decryptPacket s (sh.decryptHeader s fb).1 rest mac = some pd →
    sent s = some pd ∧ fb ++ rest ++ mac = enc s pd

/-- a well-formed honest packet body: decodes to `payload`, fills at least the first block, and leaves
    something to read after the first block -/
structure GoodPkt (p : Params) (pd payload : Bytes) : Prop where
  nonempty : pd ≠ []
  payload_ok : extractPayload pd = some payload
  first_block : p.bs ≤ 4 + pd.length
  rem_pos : p.bs < 4 + pd.length + p.mac
  small : pd.length < 4294967296

/-- how the bytes received after the last accepted packet sit in the receiver state -/
def Raw (p : Params) (sh : Shim) (st : RState) (B : Bytes) : Prop :=
  match st.phase with
  | .hdr => st.buf = B
  | .body first len => ∃ fb, fb.length = p.bs ∧ B = fb ++ st.buf ∧ sh.decryptHeader st.seq fb = (first, len)

theorem wire_append (enc : Nat → Bytes → Bytes) (s : Nat) (a b : List Bytes) :
    wire enc s (a ++ b) = wire enc s a ++ wire enc (s + a.length) b := by
  induction a generalizing s with
  | nil => simp [wire]
  | cons x xs ih =>
    simp only [List.cons_append, wire, ih, List.length_cons, List.append_assoc]
    congr 3
    omega

theorem sentOf_at (s0 : Nat) (done : List Bytes) (pd : Bytes) (todo : List Bytes) :
    sentOf s0 (done ++ pd :: todo) (s0 + done.length) = some pd := by
  unfold sentOf
  simp

theorem sentOf_end (s0 : Nat) (pkts : List Bytes) : sentOf s0 pkts (s0 + pkts.length) = none := by
  unfold sentOf
  simp

theorem nextSeq_lt (s : Nat) (h : s + 1 < 4294967296) : nextSeq s = s + 1 := by
  unfold nextSeq
  exact Nat.mod_eq_of_lt h

end AsyncsshModel.Transport

namespace AsyncsshModel.Transport
open AsyncsshModel

/-- payload carried by a well-formed packet body -/
def payloadOf (pd : Bytes) : Bytes := (extractPayload pd).getD []

/-- all facts about one run that the invariant needs -/
structure Setting (p : Params) (sh : Shim) (enc : Nat → Bytes → Bytes) (s0 : Nat) (pkts : List Bytes) : Prop where
  correct : Correct p sh enc (sentOf s0 pkts)
  good : ∀ pd ∈ pkts, GoodPkt p pd (payloadOf pd)
  nowrap : s0 + pkts.length < 4294967296
  bs_pos : 0 < p.bs

/-- The receiver is in step with the sender: `done` packets accepted, `B` = raw bytes received after them. -/
def Inv (p : Params) (sh : Shim) (enc : Nat → Bytes → Bytes) (s0 : Nat) (pkts : List Bytes)
    (st : RState) (outs : List Bytes) (T : Bytes) : Prop :=
  ∃ done todo B,
    pkts = done ++ todo ∧
    outs = done.map payloadOf ∧
    T = wire enc s0 done ++ B ∧
    (st.closed = none → st.seq = s0 + done.length ∧ Raw p sh st B) ∧
    (st.closed ≠ none → ∀ pd rest x, todo = pd :: rest → ¬ (enc (s0 + done.length) pd <+: B ++ x))

theorem prefix_take_eq {a b : Bytes} (h : a <+: b) : b.take a.length = a := by
  obtain ⟨t, rfl⟩ := h
  simp

/-- if the raw bytes start with the honest next packet, the body step accepts exactly that packet -/
theorem honest_body_accepts {p : Params} {sh : Shim} {enc : Nat → Bytes → Bytes} {sent : Nat → Option Bytes}
    (hc : Correct p sh enc sent)
    (s : Nat) (pd fb buf : Bytes) (first : Bytes) (len : Nat)
    (hsent : sent s = some pd) (hsmall : pd.length < 4294967296)
    (hfb : fb.length = p.bs) (hdr : sh.decryptHeader s fb = (first, len))
    (hfirst : p.bs ≤ 4 + pd.length) (hpre : enc s pd <+: fb ++ buf) :
    len = pd.length ∧
    sh.decryptPacket s first (buf.take (4 + pd.length - p.bs))
      ((buf.take (4 + pd.length - p.bs + p.mac)).drop (4 + pd.length - p.bs)) = some pd ∧
    4 + pd.length - p.bs + p.mac ≤ buf.length := by
  have hlen := hc.wire_len s pd
  obtain ⟨t, ht⟩ := hpre
  have hfbeq : (enc s pd).take p.bs = fb := by
    have := congrArg (List.take p.bs) ht
    rw [List.take_append_of_le_length (by omega)] at this
    rw [this, List.take_append_of_le_length (by omega), List.take_of_length_le (by omega)]
  have hbuf : buf = (enc s pd).drop p.bs ++ t := by
    have := congrArg (List.drop p.bs) ht
    rw [List.drop_append_of_le_length (by omega)] at this
    rw [← hfb, List.drop_left] at this
    rw [hfb] at this
    exact this.symm
  have h1 := hc.hdr_ok s pd hsent hsmall hfirst
  have h2 := hc.open_ok s pd hsent hsmall hfirst
  rw [hfbeq, hdr] at h1 h2
  simp only at h1 h2
  have hdl : ((enc s pd).drop p.bs).length = 4 + pd.length - p.bs + p.mac := by
    simp [hlen]; omega
  have e1 : ((enc s pd).drop p.bs ++ t).take (4 + pd.length - p.bs) =
      ((enc s pd).drop p.bs).take (4 + pd.length - p.bs) :=
    List.take_append_of_le_length (by omega)
  have e2 : ((enc s pd).drop p.bs ++ t).take (4 + pd.length - p.bs + p.mac) = (enc s pd).drop p.bs := by
    rw [← hdl]; simp
  have e3 : ((enc s pd).drop p.bs).drop (4 + pd.length - p.bs) = (enc s pd).drop (4 + pd.length) := by
    rw [List.drop_drop]; congr 1; omega
  refine ⟨h1, ?_, ?_⟩
  · rw [hbuf, e1, e2, e3]; exact h2
  · rw [hbuf]; simp [hlen]; omega

end AsyncsshModel.Transport

namespace AsyncsshModel.Transport
open AsyncsshModel

theorem take_drop_slices (buf : Bytes) (a m : Nat) (h : a + m ≤ buf.length) :
    buf.take a ++ (buf.take (a + m)).drop a = buf.take (a + m) := by
  have : buf.take a = (buf.take (a + m)).take a := by
    rw [List.take_take]; congr 1; omega
  rw [this, List.take_append_drop]

/-- if the handler was enabled on a header that belongs to the honest next packet, the whole honest
    packet is already in the buffer -/
theorem prefix_of_guard {p : Params} {sh : Shim} {enc : Nat → Bytes → Bytes} {sent : Nat → Option Bytes}
    (hc : Correct p sh enc sent)
    (s : Nat) (pd fb buf x : Bytes) (first : Bytes) (len : Nat)
    (hsent : sent s = some pd) (hsmall : pd.length < 4294967296)
    (hfb : fb.length = p.bs) (hdr : sh.decryptHeader s fb = (first, len))
    (hfirst : p.bs ≤ 4 + pd.length) (hpre : enc s pd <+: fb ++ buf ++ x)
    (hguard : ¬ ((buf.length : Int) < 4 + (len : Int) + (p.mac : Int) - (p.bs : Int))) :
    enc s pd <+: fb ++ buf := by
  have hlen := hc.wire_len s pd
  have hfbeq : (enc s pd).take p.bs = fb := by
    obtain ⟨t, ht⟩ := hpre
    have := congrArg (List.take p.bs) ht
    rw [List.take_append_of_le_length (by omega)] at this
    rw [this, List.append_assoc, List.take_append_of_le_length (by omega), List.take_of_length_le (by omega)]
  have h1 := hc.hdr_ok s pd hsent hsmall hfirst
  rw [hfbeq, hdr] at h1
  simp only at h1
  have hle : (enc s pd).length ≤ (fb ++ buf).length := by
    simp [hlen, hfb]; omega
  rw [List.prefix_iff_eq_take] at hpre ⊢
  rw [List.take_append_of_le_length hle] at hpre
  exact hpre

/-- One handler call preserves the invariant (safety needs ciphertext integrity). -/
theorem inv_step {p : Params} {sh : Shim} {enc : Nat → Bytes → Bytes} {s0 : Nat} {pkts : List Bytes}
    (hs : Setting p sh enc s0 pkts) (e : Bool)
    {st st' : RState} {outs : List Bytes} {T : Bytes} {out : Option Bytes}
    (hsrc : IntCtxt p sh enc (sentOf s0 pkts) ∨ T <+: wire enc s0 pkts)
    (hinv : Inv p sh enc s0 pkts st outs T) (hstep : stepOnce p sh e st = some (st', out)) :
    Inv p sh enc s0 pkts st' (outs ++ out.toList) T := by
  obtain ⟨done, todo, B, hp, ho, hT, hopen, hclosed⟩ := hinv
  unfold stepOnce at hstep
  cases hcl : st.closed with
  | some err => simp [hcl] at hstep
  | none =>
    obtain ⟨hseq, hraw⟩ := hopen hcl
    simp only [hcl] at hstep
    cases hph : st.phase with
    | hdr =>
      simp only [hph] at hstep
      unfold Raw at hraw
      simp only [hph] at hraw
      split at hstep
      · cases hstep
      · rename_i hlen
        simp only [Option.some.injEq, Prod.mk.injEq] at hstep
        obtain ⟨rfl, rfl⟩ := hstep
        refine ⟨done, todo, B, hp, by simp [ho], hT, ?_, ?_⟩
        · intro _
          refine ⟨hseq, ?_⟩
          unfold Raw
          simp only
          refine ⟨st.buf.take p.bs, ?_, ?_, rfl⟩
          · simp; omega
          · rw [← hraw]; simp
        · intro h; simp [hcl] at h
    | body first len =>
      simp only [hph] at hstep
      unfold Raw at hraw
      simp only [hph] at hraw
      obtain ⟨fb, hfb, hB, hdr⟩ := hraw
      split at hstep
      · cases hstep
      · rename_i hlen
        -- a successful or failing body step
        have hcontra : ∀ pd rest x, todo = pd :: rest → enc (s0 + done.length) pd <+: B ++ x →
            len = pd.length ∧
            sh.decryptPacket st.seq first (st.buf.take (4 + pd.length - p.bs))
              ((st.buf.take (4 + pd.length - p.bs + p.mac)).drop (4 + pd.length - p.bs)) = some pd ∧
            4 + pd.length - p.bs + p.mac ≤ st.buf.length := by
          intro pd rest x htodo hpre
          have hg := hs.good pd (by rw [hp, htodo]; simp)
          rw [hB] at hpre
          rw [hseq] at hdr ⊢
          have hsent : sentOf s0 pkts (s0 + done.length) = some pd := by rw [hp, htodo]; exact sentOf_at _ _ _ _
          have hpre' := prefix_of_guard hs.correct _ pd fb st.buf x first len hsent hg.small hfb hdr hg.first_block hpre hlen
          exact honest_body_accepts hs.correct _ pd fb st.buf first len hsent hg.small hfb hdr hg.first_block hpre'
        -- rewriting the slices when the header length is the honest one
        have hslices : ∀ pd : Bytes, p.bs ≤ 4 + pd.length → len = pd.length →
            pyTake st.buf (4 + (len : Int) + (p.mac : Int) - (p.bs : Int) - (p.mac : Int)) =
              st.buf.take (4 + pd.length - p.bs) ∧
            pySlice st.buf (4 + (len : Int) + (p.mac : Int) - (p.bs : Int) - (p.mac : Int))
                (4 + (len : Int) + (p.mac : Int) - (p.bs : Int)) =
              (st.buf.take (4 + pd.length - p.bs + p.mac)).drop (4 + pd.length - p.bs) ∧
            pyDrop st.buf (4 + (len : Int) + (p.mac : Int) - (p.bs : Int)) =
              st.buf.drop (4 + pd.length - p.bs + p.mac) := by
          intro pd h1 h2
          have ea : (4 + (len : Int) + (p.mac : Int) - (p.bs : Int) - (p.mac : Int)) =
              ((4 + pd.length - p.bs : Nat) : Int) := by omega
          have eb : (4 + (len : Int) + (p.mac : Int) - (p.bs : Int)) =
              ((4 + pd.length - p.bs + p.mac : Nat) : Int) := by omega
          rw [ea, eb]
          exact ⟨pyTake_nat _ _, pySlice_nat _ _ _, pyDrop_nat _ _⟩
        -- failure cases all share this argument
        have hfail : ∀ st2 : RState, st2.closed ≠ none → (∀ pd rest, todo = pd :: rest →
              sh.decryptPacket st.seq first
                (pyTake st.buf (4 + (len : Int) + (p.mac : Int) - (p.bs : Int) - (p.mac : Int)))
                (pySlice st.buf (4 + (len : Int) + (p.mac : Int) - (p.bs : Int) - (p.mac : Int))
                  (4 + (len : Int) + (p.mac : Int) - (p.bs : Int))) = some pd → False) →
            Inv p sh enc s0 pkts st2 (outs ++ (none : Option Bytes).toList) T := by
          intro st2 hc2 hno
          refine ⟨done, todo, B, hp, by simp [ho], hT, ?_, ?_⟩
          · intro h; exact absurd h hc2
          · intro _ pd rest x htodo hpre
            obtain ⟨h1, h2, _⟩ := hcontra pd rest x htodo hpre
            have hg := hs.good pd (by rw [hp, htodo]; simp)
            obtain ⟨e1, e2, _⟩ := hslices pd hg.first_block h1
            apply hno pd rest htodo
            rw [e1, e2]; exact h2
        split at hstep
        · -- MAC failure
          rename_i hdec
          simp only [Option.some.injEq, Prod.mk.injEq] at hstep
          obtain ⟨rfl, rfl⟩ := hstep
          apply hfail _ (by simp)
          intro pd rest _ h
          rw [hdec] at h; cases h
        · rename_i pd' hdec
          split at hstep
          · -- empty packet data on an encrypted connection
            rename_i hempty
            simp only [Option.some.injEq, Prod.mk.injEq] at hstep
            obtain ⟨rfl, rfl⟩ := hstep
            apply hfail _ (by simp)
            intro pd rest htodo h
            rw [hdec] at h
            have hg := hs.good pd (by rw [hp, htodo]; simp)
            have : pd' = pd := by simpa using h
            subst this
            have := hg.nonempty
            simp at hempty
            exact this hempty.2
          · split at hstep
            · -- no padding-length byte
              rename_i hext
              simp only [Option.some.injEq, Prod.mk.injEq] at hstep
              obtain ⟨rfl, rfl⟩ := hstep
              apply hfail _ (by simp)
              intro pd rest htodo h
              rw [hdec] at h
              have hg := hs.good pd (by rw [hp, htodo]; simp)
              have : pd' = pd := by simpa using h
              subst this
              rw [hg.payload_ok] at hext; cases hext
            · -- the packet is accepted
              rename_i payload hext
              simp only [Option.some.injEq, Prod.mk.injEq] at hstep
              obtain ⟨rfl, rfl⟩ := hstep
              rw [hseq] at hdec hdr
              have hdec' := hdec
              rw [← (show (sh.decryptHeader (s0 + done.length) fb).1 = first by rw [hdr])] at hdec'
              have hkey : ∃ pd rest, todo = pd :: rest ∧ pd = pd' ∧
                  fb ++ pyTake st.buf (4 + (len : Int) + (p.mac : Int) - (p.bs : Int) - (p.mac : Int)) ++
                    pySlice st.buf (4 + (len : Int) + (p.mac : Int) - (p.bs : Int) - (p.mac : Int))
                      (4 + (len : Int) + (p.mac : Int) - (p.bs : Int)) = enc (s0 + done.length) pd := by
                rcases hsrc with hint | hhon
                · obtain ⟨hsent, hwire⟩ := hint _ fb _ _ pd' hfb hdec'
                  cases todo with
                  | nil =>
                    rw [hp] at hsent
                    simp at hsent
                    rw [sentOf_end] at hsent; cases hsent
                  | cons pd rest =>
                    rw [hp, sentOf_at] at hsent
                    have : pd = pd' := by simpa using hsent
                    subst this
                    exact ⟨pd, rest, rfl, rfl, hwire⟩
                · -- honest stream: the raw bytes are a prefix of what the sender still has to send
                  rw [hT, hp, wire_append] at hhon
                  have hB' : B <+: wire enc (s0 + done.length) todo := (List.prefix_append_right_inj _).mp hhon
                  cases todo with
                  | nil =>
                    simp only [wire, List.prefix_nil] at hB'
                    rw [hB] at hB'
                    have h0 : fb = [] := (List.append_eq_nil_iff.mp hB').1
                    rw [h0] at hfb
                    have := hs.bs_pos
                    simp at hfb
                    omega
                  | cons pd rest =>
                    simp only [wire] at hB'
                    obtain ⟨x, hx⟩ := hB'
                    have hpre : enc (s0 + done.length) pd <+: B ++ x := ⟨_, hx.symm⟩
                    have hcon := hcontra pd rest x rfl hpre
                    obtain ⟨h1, h2, h3⟩ := hcon
                    have hg := hs.good pd (by rw [hp]; simp)
                    obtain ⟨e1, e2, _⟩ := hslices pd hg.first_block h1
                    rw [hseq] at h2
                    rw [e1, e2] at hdec
                    rw [h2] at hdec
                    have hpd : pd = pd' := by simpa using hdec
                    refine ⟨pd, rest, rfl, hpd, ?_⟩
                    rw [e1, e2, List.append_assoc, take_drop_slices _ _ _ h3]
                    have hpre2 : enc (s0 + done.length) pd <+: fb ++ st.buf := by
                      rw [hB] at hpre
                      have hdr' : sh.decryptHeader (s0 + done.length) fb = (first, len) := hdr
                      have hsent : sentOf s0 pkts (s0 + done.length) = some pd := by rw [hp]; exact sentOf_at _ _ _ _
                      exact prefix_of_guard hs.correct _ pd fb st.buf x first len hsent hg.small hfb hdr' hg.first_block hpre hlen
                    rw [List.prefix_iff_eq_take] at hpre2
                    rw [hpre2, hs.correct.wire_len]
                    have := hg.first_block
                    rw [List.take_append]
                    have hf : fb.take (4 + pd.length + p.mac) = fb :=
                      List.take_of_length_le (by rw [hfb]; omega)
                    rw [hf, hfb]
                    congr 2
                    omega
              obtain ⟨pd, rest, htodo, hpd, hwire⟩ := hkey
              subst htodo
              subst hpd
              have hg := hs.good pd (by rw [hp]; simp)
              -- header length is the honest one
              have hlenpd : len = pd.length := by
                have hwl := hs.correct.wire_len (s0 + done.length) pd
                have hfbeq : (enc (s0 + done.length) pd).take p.bs = fb := by
                  rw [← hwire, List.append_assoc, List.take_append_of_le_length (by omega),
                    List.take_of_length_le (by omega)]
                have hsent : sentOf s0 pkts (s0 + done.length) = some pd := by rw [hp]; exact sentOf_at _ _ _ _
                have := hs.correct.hdr_ok (s0 + done.length) pd hsent hg.small hg.first_block
                rw [hfbeq, hdr] at this
                exact this
              obtain ⟨e1, e2, e3⟩ := hslices pd hg.first_block hlenpd
              have hbl : 4 + pd.length - p.bs + p.mac ≤ st.buf.length := by
                have : ¬ ((st.buf.length : Int) < 4 + (len : Int) + (p.mac : Int) - (p.bs : Int)) := hlen
                have := hg.first_block
                omega
              rw [e1, e2] at hwire
              rw [List.append_assoc, take_drop_slices _ _ _ hbl] at hwire
              refine ⟨done ++ [pd], rest, st.buf.drop (4 + pd.length - p.bs + p.mac), by simp [hp], ?_, ?_, ?_, ?_⟩
              · have hpay : payload = payloadOf pd := by
                  unfold payloadOf; rw [hext]; rfl
                simp [ho, hpay]
              · rw [wire_append, hT, hB]
                simp only [wire, List.append_nil, List.append_assoc]
                congr 1
                rw [← hwire, List.append_assoc, List.take_append_drop]
              · intro _
                refine ⟨?_, ?_⟩
                · simp only [List.length_append, List.length_cons, List.length_nil]
                  rw [nextSeq_lt]
                  · omega
                  · have := hs.nowrap
                    rw [hp] at this
                    simp at this
                    omega
                · unfold Raw
                  simp only
                  exact e3
              · intro h; simp at h

end AsyncsshModel.Transport

namespace AsyncsshModel.Transport
open AsyncsshModel

theorem inv_append {p : Params} {sh : Shim} {enc : Nat → Bytes → Bytes} {s0 : Nat} {pkts : List Bytes}
    {st : RState} {outs : List Bytes} {T : Bytes} (c : Bytes)
    (hinv : Inv p sh enc s0 pkts st outs T) :
    Inv p sh enc s0 pkts { st with buf := st.buf ++ c } outs (T ++ c) := by
  obtain ⟨done, todo, B, hp, ho, hT, hopen, hclosed⟩ := hinv
  refine ⟨done, todo, B ++ c, hp, ho, by rw [hT, List.append_assoc], ?_, ?_⟩
  · intro hcl
    obtain ⟨hseq, hraw⟩ := hopen hcl
    refine ⟨hseq, ?_⟩
    unfold Raw at hraw ⊢
    cases hph : st.phase with
    | hdr => simp only [hph] at hraw ⊢; rw [hraw]
    | body first len =>
      simp only [hph] at hraw ⊢
      obtain ⟨fb, h1, h2, h3⟩ := hraw
      exact ⟨fb, h1, by rw [h2, List.append_assoc], h3⟩
  · intro hcl pd rest x htodo
    have := hclosed hcl pd rest (c ++ x) htodo
    rwa [List.append_assoc]

theorem inv_drain {p : Params} {sh : Shim} {enc : Nat → Bytes → Bytes} {s0 : Nat} {pkts : List Bytes}
    (hs : Setting p sh enc s0 pkts) (e : Bool) {T : Bytes}
    (hsrc : IntCtxt p sh enc (sentOf s0 pkts) ∨ T <+: wire enc s0 pkts)
    (fuel : Nat) (st : RState) (outs : List Bytes) (hinv : Inv p sh enc s0 pkts st outs T) :
    Inv p sh enc s0 pkts (drain p sh e fuel st).1 (outs ++ (drain p sh e fuel st).2) T := by
  induction fuel generalizing st outs with
  | zero => simpa [drain] using hinv
  | succ n ih =>
    unfold drain
    split
    · simpa using hinv
    · split
      · simpa using hinv
      · rename_i st' out hstep
        have h1 := inv_step hs e hsrc hinv hstep
        have h2 := ih st' _ h1
        simpa [List.append_assoc] using h2

theorem inv_feedAll {p : Params} {sh : Shim} {enc : Nat → Bytes → Bytes} {s0 : Nat} {pkts : List Bytes}
    (hs : Setting p sh enc s0 pkts) (e : Bool)
    (chunks : List Bytes) (st : RState) (outs : List Bytes) (T : Bytes)
    (hsrc : IntCtxt p sh enc (sentOf s0 pkts) ∨ (T ++ chunks.flatten) <+: wire enc s0 pkts)
    (hinv : Inv p sh enc s0 pkts st outs T) :
    Inv p sh enc s0 pkts (feedAll p sh e st chunks).1 (outs ++ (feedAll p sh e st chunks).2)
      (T ++ chunks.flatten) := by
  induction chunks generalizing st outs T with
  | nil => simpa [feedAll] using hinv
  | cons c cs ih =>
    simp only [feedAll, feed, List.flatten_cons]
    have hsrc1 : IntCtxt p sh enc (sentOf s0 pkts) ∨ (T ++ c) <+: wire enc s0 pkts := by
      rcases hsrc with h | h
      · exact Or.inl h
      · right
        simp only [List.flatten_cons] at h
        rw [← List.append_assoc] at h
        exact List.IsPrefix.trans (List.prefix_append _ _) h
    have h1 := inv_append c hinv
    have h2 := inv_drain hs e hsrc1 (fuelFor { st with buf := st.buf ++ c }) _ outs h1
    have hsrc2 : IntCtxt p sh enc (sentOf s0 pkts) ∨ ((T ++ c) ++ cs.flatten) <+: wire enc s0 pkts := by
      rcases hsrc with h | h
      · exact Or.inl h
      · right; simpa [List.append_assoc] using h
    have h3 := ih _ _ (T ++ c) hsrc2 h2
    simpa [List.append_assoc] using h3

theorem inv_init (p : Params) (sh : Shim) (enc : Nat → Bytes → Bytes) (s0 : Nat) (pkts : List Bytes) :
    Inv p sh enc s0 pkts (RState.init s0) [] [] := by
  refine ⟨[], pkts, [], by simp, by simp, by simp [wire], ?_, ?_⟩
  · intro _; exact ⟨by simp [RState.init], by simp [Raw, RState.init]⟩
  · intro h; simp [RState.init] at h

/-! ### quiescence -/

def Quiet (p : Params) (sh : Shim) (e : Bool) (st : RState) : Prop :=
  st.buf = [] ∨ stepOnce p sh e st = none

def mu (st : RState) : Nat :=
  2 * st.buf.length + (match st.phase with | .hdr => 0 | .body _ _ => 1)

theorem pyDrop_length_le (l : Bytes) (i : Int) : (pyDrop l i).length ≤ l.length := by
  unfold pyDrop; simp

theorem step_measure {p : Params} {sh : Shim} {e : Bool} (hbs : 0 < p.bs) {st st' : RState} {out : Option Bytes}
    (hstep : stepOnce p sh e st = some (st', out)) : st'.closed ≠ none ∨ mu st' < mu st := by
  unfold stepOnce at hstep
  cases hcl : st.closed with
  | some err => simp [hcl] at hstep
  | none =>
    simp only [hcl] at hstep
    cases hph : st.phase with
    | hdr =>
      simp only [hph] at hstep
      split at hstep
      · cases hstep
      · simp only [Option.some.injEq, Prod.mk.injEq] at hstep
        obtain ⟨rfl, _⟩ := hstep
        right
        unfold mu
        simp only [hph, List.length_drop]
        omega
    | body first len =>
      simp only [hph] at hstep
      split at hstep
      · cases hstep
      · split at hstep
        · simp only [Option.some.injEq, Prod.mk.injEq] at hstep
          obtain ⟨rfl, _⟩ := hstep
          left; simp
        · split at hstep
          · simp only [Option.some.injEq, Prod.mk.injEq] at hstep
            obtain ⟨rfl, _⟩ := hstep
            left; simp
          · split at hstep
            · simp only [Option.some.injEq, Prod.mk.injEq] at hstep
              obtain ⟨rfl, _⟩ := hstep
              left; simp
            · simp only [Option.some.injEq, Prod.mk.injEq] at hstep
              obtain ⟨rfl, _⟩ := hstep
              right
              unfold mu
              simp only [hph]
              have := pyDrop_length_le st.buf (4 + (len : Int) + (p.mac : Int) - (p.bs : Int))
              omega

theorem closed_quiet (p : Params) (sh : Shim) (e : Bool) (st : RState) (h : st.closed ≠ none) :
    Quiet p sh e st := by
  right
  unfold stepOnce
  cases hcl : st.closed with
  | none => exact absurd hcl h
  | some err => simp

theorem drain_quiet {p : Params} {sh : Shim} {e : Bool} (hbs : 0 < p.bs) (fuel : Nat) (st : RState)
    (hf : mu st < fuel) : Quiet p sh e (drain p sh e fuel st).1 := by
  induction fuel generalizing st with
  | zero => omega
  | succ n ih =>
    unfold drain
    split
    · rename_i hb
      left; simpa using hb
    · split
      · rename_i hnone
        right; exact hnone
      · rename_i st' out hstep
        simp only
        rcases step_measure hbs hstep with hc | hm
        · -- closed: one more look and the loop stops
          cases n with
          | zero =>
            simp only [drain]
            exact closed_quiet p sh e st' hc
          | succ m =>
            unfold drain
            split
            · rename_i hb; left; simpa using hb
            · have hq := closed_quiet p sh e st' hc
              rcases hq with hq | hq
              · rename_i hb; simp [hq] at hb
              · simp only [hq]
                right; exact hq
        · exact ih st' (by omega)

theorem fuelFor_gt_mu (st : RState) : mu st < fuelFor st := by
  unfold mu fuelFor
  cases st.phase <;> simp <;> omega

theorem feedAll_quiet {p : Params} {sh : Shim} {e : Bool} (hbs : 0 < p.bs)
    (chunks : List Bytes) (st : RState) (hq : Quiet p sh e st) :
    Quiet p sh e (feedAll p sh e st chunks).1 := by
  induction chunks generalizing st with
  | nil => simpa [feedAll] using hq
  | cons c cs ih =>
    simp only [feedAll, feed]
    apply ih
    exact drain_quiet hbs _ _ (fuelFor_gt_mu _)

end AsyncsshModel.Transport

namespace AsyncsshModel.Transport
open AsyncsshModel

/-- At quiescence every honest packet that has wholly arrived, untouched, has been delivered. -/
theorem quiet_complete {p : Params} {sh : Shim} {enc : Nat → Bytes → Bytes} {s0 : Nat} {pkts : List Bytes}
    (hs : Setting p sh enc s0 pkts) (e : Bool) {st : RState} {outs : List Bytes} {T : Bytes}
    (hinv : Inv p sh enc s0 pkts st outs T) (hq : Quiet p sh e st)
    (pre post : List Bytes) (hpp : pkts = pre ++ post) (hj : wire enc s0 pre <+: T) :
    pre.map payloadOf <+: outs := by
  obtain ⟨done, todo, B, hp, ho, hT, hopen, hclosed⟩ := hinv
  have h1 : pre <+: pkts := ⟨post, hpp.symm⟩
  have h2 : done <+: pkts := ⟨todo, hp.symm⟩
  rcases List.prefix_or_prefix_of_prefix h1 h2 with h | h
  · obtain ⟨t, rfl⟩ := h
    rw [ho]; simp
  · -- `done` is a prefix of `pre`
    obtain ⟨t, ht⟩ := h
    cases t with
    | nil =>
      simp at ht; subst ht; rw [ho]; exact List.prefix_refl _
    | cons pd r =>
      exfalso
      subst ht
      have htodo : todo = pd :: r ++ post := by
        rw [hp] at hpp
        simp only [List.append_assoc] at hpp
        exact List.append_cancel_left hpp
      rw [hT, wire_append] at hj
      have hB : wire enc (s0 + done.length) (pd :: r) <+: B := (List.prefix_append_right_inj _).mp hj
      simp only [wire] at hB
      have hpre : enc (s0 + done.length) pd <+: B := List.IsPrefix.trans (List.prefix_append _ _) hB
      have hg := hs.good pd (by rw [hpp]; simp)
      have hwl := hs.correct.wire_len (s0 + done.length) pd
      cases hcl : st.closed with
      | some err =>
        have := hclosed (by simp [hcl]) pd (r ++ post) [] (by simpa using htodo)
        simp at this
        exact this hpre
      | none =>
        obtain ⟨hseq, hraw⟩ := hopen hcl
        have hBlen : (enc (s0 + done.length) pd).length ≤ B.length := List.IsPrefix.length_le hpre
        unfold Raw at hraw
        rcases hq with hq | hq
        · -- empty buffer
          cases hph : st.phase with
          | hdr =>
            simp only [hph] at hraw
            rw [← hraw, hq, hwl] at hBlen
            simp at hBlen
          | body first len =>
            simp only [hph] at hraw
            obtain ⟨fb, hfb, hBeq, hdr⟩ := hraw
            rw [hBeq, hq, hwl] at hBlen
            simp at hBlen
            have := hg.rem_pos
            omega
        · unfold stepOnce at hq
          simp only [hcl] at hq
          cases hph : st.phase with
          | hdr =>
            simp only [hph] at hraw hq
            split at hq
            · rename_i hlt
              rw [hraw] at hlt
              have := hg.first_block
              omega
            · cases hq
          | body first len =>
            simp only [hph] at hraw hq
            obtain ⟨fb, hfb, hBeq, hdr⟩ := hraw
            rw [hBeq] at hpre
            rw [hseq] at hdr
            have hsent : sentOf s0 pkts (s0 + done.length) = some pd := by
              rw [hp, htodo]; exact sentOf_at _ _ _ _
            obtain ⟨hl, _, hb⟩ := honest_body_accepts hs.correct _ pd fb st.buf first len hsent hg.small hfb hdr hg.first_block hpre
            split at hq
            · rename_i hlt
              have := hg.first_block
              omega
            · split at hq
              · cases hq
              · split at hq
                · cases hq
                · split at hq <;> cases hq

end AsyncsshModel.Transport

namespace AsyncsshModel.Transport
open AsyncsshModel

theorem beNat_be32 (n : Nat) (h : n < 4294967296) : beNat (be32 n) = n := by
  unfold be32 beNat
  simp only [List.foldl_cons, List.foldl_nil, UInt8.toNat_ofNat']
  omega

theorem be32_length (n : Nat) : (be32 n).length = 4 := by simp [be32]

theorem extract_packetBody (payload padding : Bytes) (h1 : 1 ≤ padding.length) (h2 : padding.length ≤ 255) :
    extractPayload (packetBody payload padding) = some payload := by
  unfold packetBody extractPayload
  simp only [List.cons_append]
  have hx : (UInt8.ofNat padding.length).toNat = padding.length := by
    simp only [UInt8.toNat_ofNat']; omega
  rw [hx]
  unfold pySlice pyIdx
  simp only [List.length_cons, List.length_append]
  have e1 : ¬ ((1 : Int) < 0) := by omega
  have e2 : (-(padding.length : Int)) < 0 := by omega
  simp only [e1, e2, if_true, if_false]
  have e3 : (((payload.length + padding.length + 1 : Nat) : Int) + -(padding.length : Int)).toNat = payload.length + 1 := by
    omega
  rw [e3]
  have e4 : min (1 : Int).toNat (payload.length + padding.length + 1) = 1 := by simp
  rw [e4]
  simp

end AsyncsshModel.Transport

namespace AsyncsshModel.Transport
open AsyncsshModel

theorem rfcStream_length (H : Bytes → Bytes) (k h x sid : Bytes) (d : Nat) (hd : ∀ m, (H m).length = d) (n : Nat) :
    (rfcStream H k h x sid n).length = n * d := by
  induction n with
  | zero => simp [rfcStream]
  | succ n ih => simp only [rfcStream, List.length_append, ih, hd]; rw [Nat.succ_mul]

/-- the loop, started on `n` RFC blocks, ends on some whole number of RFC blocks covering `keylen` -/
theorem ckLoop_rfc (H : Bytes → Bytes) (k h x sid : Bytes) (d : Nat) (hd : ∀ m, (H m).length = d) (hpos : 0 < d)
    (keylen fuel n : Nat) (hfuel : keylen ≤ n * d + fuel) :
    ∃ m, n ≤ m ∧ ckLoop H k h x sid keylen fuel (rfcStream H k h x sid n) = rfcStream H k h x sid m ∧
      keylen ≤ m * d := by
  induction fuel generalizing n with
  | zero => exact ⟨n, Nat.le_refl _, rfl, by omega⟩
  | succ f ih =>
    unfold ckLoop
    have hl := rfcStream_length H k h x sid d hd n
    split
    · rename_i hlt
      have hstep : rfcStream H k h x sid n ++
          H (k ++ h ++ (if (rfcStream H k h x sid n).isEmpty then x ++ sid else rfcStream H k h x sid n)) =
          rfcStream H k h x sid (n + 1) := by
        simp only [rfcStream]
        congr 3
        by_cases hn : n = 0
        · subst hn; simp [rfcStream]
        · have : (rfcStream H k h x sid n).isEmpty = false := by
            rw [List.isEmpty_eq_false_iff_exists_mem]
            have : 0 < (rfcStream H k h x sid n).length := by
              rw [hl]; exact Nat.mul_pos (Nat.pos_of_ne_zero hn) hpos
            exact List.exists_mem_of_length_pos this
          simp [this, hn]
      rw [hstep]
      obtain ⟨m, hm1, hm2, hm3⟩ := ih (n + 1) (by rw [Nat.succ_mul]; omega)
      exact ⟨m, by omega, hm2, hm3⟩
    · rename_i hge
      exact ⟨n, Nat.le_refl _, rfl, by rw [hl] at hge; omega⟩

theorem rfcStream_prefix (H : Bytes → Bytes) (k h x sid : Bytes) (n m : Nat) (h' : n ≤ m) :
    rfcStream H k h x sid n <+: rfcStream H k h x sid m := by
  induction m with
  | zero => have : n = 0 := by omega
            subst this; exact List.prefix_refl _
  | succ m ih =>
    by_cases hn : n = m + 1
    · subst hn; exact List.prefix_refl _
    · exact List.IsPrefix.trans (ih (by omega)) (by simp only [rfcStream]; exact List.prefix_append _ _)

end AsyncsshModel.Transport
