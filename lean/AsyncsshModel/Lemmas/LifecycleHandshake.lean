import AsyncsshModel.Model.LifecycleHandshake
import AsyncsshModel.Lemmas.Lifecycle
/-
  Lemmas for the two-endpoint close handshake (C09): the measure `HS.mu` strictly decreases with every delivery
  and every scheduled `_cleanup`; local invariants giving "quiescent and close requested ⇒ closed/closed".
-/
namespace AsyncsshModel.Lifecycle

/-- weight of what a method call emits: packets by `wMsg`, each scheduled `_cleanup` 1 -/
def emit (acts : List Act) : Nat := wMsgs (sentMsgs acts) + schedCount acts

theorem sentMsgs_append (a b : List Act) : sentMsgs (a ++ b) = sentMsgs a ++ sentMsgs b := by
  induction a with
  | nil => rfl
  | cons x rest ih => cases x <;> simp [sentMsgs, ih]

theorem schedCount_append (a b : List Act) : schedCount (a ++ b) = schedCount a + schedCount b := by
  induction a with
  | nil => simp [schedCount]
  | cons x rest ih => cases x <;> simp [schedCount, ih] <;> omega

theorem wMsgs_append (a b : List CMsg) : wMsgs (a ++ b) = wMsgs a + wMsgs b := by
  simp [wMsgs]

@[simp] theorem emit_nil : emit [] = 0 := rfl

theorem emit_append (a b : List Act) : emit (a ++ b) = emit a + emit b := by
  simp [emit, sentMsgs_append, schedCount_append, wMsgs_append]; omega

theorem emit_sendPkt (c : Chan) (m : CMsg) : emit (sendPkt c m) ≤ wMsg m := by
  unfold sendPkt
  split <;> simp [emit, sentMsgs, schedCount, wMsgs]

theorem emit_sendPkt_some (c : Chan) (m : CMsg) (n : Nat) (h : c.sendChan = some n) : emit (sendPkt c m) = wMsg m := by
  simp [sendPkt, h, emit, sentMsgs, schedCount, wMsgs]

theorem emit_replicate (c : Chan) (m : CMsg) (k : Nat) :
    emit ((List.replicate k ()).flatMap (fun _ => sendPkt c m)) ≤ k * wMsg m := by
  induction k with
  | zero => simp
  | succ n ih =>
    simp only [List.replicate_succ, List.flatMap_cons, emit_append]
    have := emit_sendPkt c m
    rw [Nat.succ_mul]; omega

/-- cost statement: potential after + weight of emissions ≤ potential before + `k` -/
def Cost (c : Chan) (r : R) (k : Nat) : Prop := pot r.c + emit r.acts ≤ pot c + k

theorem cost_andThen {c : Chan} {r : R} {f : Chan → R} {k1 k2 : Nat} (h1 : Cost c r k1)
    (h2 : ∀ c', Cost c' (f c') k2) : Cost c (r.andThen f) (k1 + k2) := by
  unfold R.andThen
  split
  · unfold Cost at h1 ⊢; omega
  · have := h2 r.c
    unfold Cost at h1 this ⊢
    simp only [emit_append]
    omega

theorem cost_pre {c : Chan} {r : R} {k : Nat} (acts : List Act) (h : Cost c r k) :
    Cost c (r.pre acts) (k + emit acts) := by
  unfold Cost at h ⊢
  simp only [R.pre, emit_append]; omega

theorem cost_mono {c : Chan} {r : R} {k k' : Nat} (h : Cost c r k) (hk : k ≤ k') : Cost c r k' := by
  unfold Cost at h ⊢; omega

theorem phiS_le (s : St) : phiS s ≤ 2 := by cases s <;> simp [phiS]
theorem phiR_le (s : St) : phiR s ≤ 1 := by cases s <;> simp [phiR]

theorem closeSend_cost (c : Chan) : Cost c (closeSend c) 0 := by
  unfold Cost
  simp only [closeSend]
  split
  · rename_i h
    have h1 := emit_sendPkt { c with sendBuf := 0 } .close
    have h2 : 1 ≤ phiS c.sendSt := by cases hs : c.sendSt <;> simp_all [phiS]
    simp only [R.ok, pot, phiS, wMsg] at *
    omega
  · simp only [R.ok, pot, emit_nil]; omega

/-- the WINDOW_ADJUST that gives back the window of discarded data -/
theorem emit_credit (c : Chan) :
    emit (if 0 < c.recvBuf then sendPkt c (.adjust c.recvBuf) else []) ≤ (if 0 < c.recvBuf then 1 else 0) := by
  split
  · have := emit_sendPkt c (.adjust c.recvBuf); simpa [wMsg] using this
  · simp

theorem emit_sched (e : Exc) : emit [Act.sched e] = 1 := by simp [emit, sentMsgs, schedCount, wMsgs]

theorem discardRecv_cost (c : Chan) : Cost c (discardRecv c) 0 := by
  unfold Cost
  simp only [discardRecv]
  have ha := emit_credit c
  generalize (if 0 < c.recvBuf then sendPkt c (.adjust c.recvBuf) else []) = acts at ha
  split
  · rename_i h
    have h' : c.recvSt = .closePending := h
    simp only [R.ok, pot, emit_append, emit_sched, h', phiR]
    split at ha <;> omega
  · simp only [R.ok, pot]
    split at ha <;> omega

theorem pauseResumeWriting_cost (c : Chan) : Cost c (pauseResumeWriting c) 0 := by
  unfold Cost
  simp only [pauseResumeWriting]
  (repeat' split) <;> simp [R.ok, R.fail, pot]

theorem flushSendTail_cost (c : Chan) : Cost c (flushSendTail c) 0 := by
  unfold Cost
  simp only [flushSendTail]
  split
  · rename_i hz
    split
    · rename_i hs
      have h1 := emit_sendPkt c .eof
      simp only [R.ok, pot, hs, phiS, wMsg] at *
      omega
    · rename_i hs
      have h1 := emit_sendPkt c .eof
      have h2 := emit_sendPkt c .close
      have h3 := emit_sendPkt { c with sendEofPending := false } .close
      simp only [closeSendEof, closeSend]
      (repeat' split) <;> simp_all [R.ok, R.pre, pot, emit_append, phiS, wMsg] <;> omega
    · simp only [R.ok, emit_nil]; omega
  · simp only [R.ok, emit_nil]; omega

theorem flushSendBuf_cost (c : Chan) : Cost c (flushSendBuf c) 0 := by
  unfold flushSendBuf
  have hk := emit_replicate c .data (min c.sendBuf c.sendWin)
  simp only [wMsg] at hk
  have hmin : min c.sendBuf c.sendWin ≤ c.sendBuf := Nat.min_le_left _ _
  have h1 := pauseResumeWriting_cost
    { c with sendBuf := c.sendBuf - min c.sendBuf c.sendWin, sendWin := c.sendWin - min c.sendBuf c.sendWin }
  have h3 := cost_andThen (cost_pre ((List.replicate (min c.sendBuf c.sendWin) ()).flatMap (fun _ => sendPkt c .data)) h1)
    flushSendTail_cost
  unfold Cost at h3 ⊢
  simp only [pot] at *
  omega

theorem writeEof_cost (c : Chan) : Cost c (writeEof c) 0 := by
  unfold writeEof
  split
  · rename_i h
    have := flushSendBuf_cost { c with sendSt := .eofPending }
    unfold Cost at this ⊢
    simp only [pot, h, phiS] at *
    omega
  · unfold Cost; simp [R.ok]

theorem deliverOne_cost (c : Chan) : Cost c (deliverOne c) 1 := by
  unfold Cost
  simp only [deliverOne]
  have h1 := emit_sendPkt c (.adjust (c.initWin - (c.recvWin - 1)))
  simp only [wMsg] at h1
  split <;> split <;> simp_all [R.ok, pot] <;> omega

theorem deliverN_cost (n : Nat) (c : Chan) : Cost c (deliverN n c) n := by
  induction n generalizing c with
  | zero => unfold Cost; simp [deliverN, R.ok]
  | succ n ih =>
    have := cost_andThen (deliverOne_cost c) ih
    simp only [deliverN]
    exact cost_mono this (by omega)

theorem flushEofPart_cost (c : Chan) : Cost c (flushEofPart c) 0 := by
  simp only [flushEofPart]
  split
  · rename_i h
    split
    · split
      · have := writeEof_cost { c with recvSt := .eof, trace := c.trace ++ [.eof] }
        unfold Cost at this ⊢
        simp only [pot, h.2.2, phiR] at *
        omega
      · unfold Cost; simp [R.ok, pot, h.2.2, phiR]
    · unfold Cost; simp [R.fail, pot, h.2.2, phiR]
  · unfold Cost; simp [R.ok]

theorem flushClosePart_cost (c : Chan) : Cost c (flushClosePart c) 0 := by
  unfold Cost
  simp only [flushClosePart]
  split
  · rename_i h
    simp [R.ok, pot, emit, sentMsgs, schedCount, wMsgs, h.2, phiR]; omega
  · simp [R.ok]

theorem flushRecvBuf_cost (c : Chan) : Cost c (flushRecvBuf c) 0 := by
  unfold flushRecvBuf
  have h1 : Cost c (if c.paused = .no then deliverN c.recvBuf { c with recvBuf := 0 } else R.ok c) 0 := by
    split
    · have := deliverN_cost c.recvBuf { c with recvBuf := 0 }
      unfold Cost at this ⊢
      simp only [pot] at *
      omega
    · unfold Cost; simp [R.ok]
  exact cost_andThen (cost_andThen h1 flushEofPart_cost) flushClosePart_cost

theorem acceptData_cost (c : Chan) : Cost c (acceptData c) 1 := by
  unfold acceptData
  split
  · have := emit_sendPkt c (.adjust 1)
    simp only [wMsg] at this
    unfold Cost; simp only [R.ok]; omega
  · split
    · unfold Cost; simp [R.ok, pot]; omega
    · exact deliverOne_cost c

theorem resumeReading_cost (c : Chan) : Cost c (resumeReading c) 0 := by
  unfold resumeReading
  split
  · have := flushRecvBuf_cost { c with paused := .no }
    unfold Cost at this ⊢
    simp only [pot] at *
    omega
  · unfold Cost; simp [R.ok]

theorem processData_cost (c : Chan) : Cost c (processData c) 1 := by
  unfold processData
  split
  · unfold Cost; simp [R.fail]
  · split
    · unfold Cost; simp [R.fail]
    · exact acceptData_cost c

theorem processEof_cost (c : Chan) : Cost c (processEof c) 0 := by
  unfold processEof
  split
  · unfold Cost; simp [R.fail]
  · rename_i h
    have hs : c.recvSt = .opn := by simpa using h
    have := flushRecvBuf_cost { c with recvSt := .eofPending }
    unfold Cost at this ⊢
    simp only [pot, hs, phiR] at *
    omega

theorem closeSend_recvSt' (c : Chan) : (closeSend c).c.recvSt = c.recvSt ∧ (closeSend c).c.recvBuf = c.recvBuf := by
  simp only [closeSend]; split <;> exact ⟨rfl, rfl⟩

theorem pauseResumeWriting_same (c : Chan) :
    (pauseResumeWriting c).c.recvSt = c.recvSt ∧ (pauseResumeWriting c).c.recvBuf = c.recvBuf ∧
    (pauseResumeWriting c).c.sendSt = c.sendSt ∧ (pauseResumeWriting c).c.sendChan = c.sendChan ∧
    (pauseResumeWriting c).c.session = c.session ∧ (pauseResumeWriting c).c.reg = c.reg ∧
    (pauseResumeWriting c).c.closeEvent = c.closeEvent ∧ (pauseResumeWriting c).acts = [] := by
  simp only [pauseResumeWriting]
  (repeat' split) <;> exact ⟨rfl, rfl, rfl, rfl, rfl, rfl, rfl, rfl⟩

/-- `_close_send(); _pause_resume_writing()` at the head of `_process_close` -/
theorem closeSendResume_recv (c : Chan) :
    ((closeSend c).andThen pauseResumeWriting).c.recvSt = c.recvSt ∧
    ((closeSend c).andThen pauseResumeWriting).c.recvBuf = c.recvBuf ∧
    ((closeSend c).andThen pauseResumeWriting).c.sendSt = .closed := by
  have hc : (closeSend c).c.recvSt = c.recvSt ∧ (closeSend c).c.recvBuf = c.recvBuf ∧ (closeSend c).c.sendSt = .closed := by
    simp only [closeSend]; split
    · exact ⟨rfl, rfl, rfl⟩
    · rename_i h; exact ⟨rfl, rfl, by simpa using h⟩
  unfold R.andThen
  split
  · exact hc
  · have := pauseResumeWriting_same (closeSend c).c
    exact ⟨this.1.trans hc.1, this.2.1.trans hc.2.1, this.2.2.1.trans hc.2.2⟩

theorem processClose_cost (c : Chan) : Cost c (processClose c) 0 := by
  unfold processClose
  split
  · unfold Cost; simp [R.fail]
  · rename_i hl
    have h1 : Cost c ((closeSend c).andThen pauseResumeWriting) 0 :=
      cost_andThen (closeSend_cost c) pauseResumeWriting_cost
    have hr := closeSendResume_recv c
    have hphi : phiR c.recvSt = 1 := by
      cases hs : c.recvSt <;> simp_all [recvLive, phiR]
    generalize (closeSend c).andThen pauseResumeWriting = r at h1 hr
    unfold R.andThen
    split
    · exact h1
    · have h2 := (fun (x : Chan) => flushRecvBuf_cost { x with recvEofPending := decide (x.recvSt = .eofPending), recvSt := .closePending }) r.c
      unfold Cost at h1 h2 ⊢
      simp only [emit_append, pot, phiR, hr.1, hr.2.1] at *
      omega

theorem processAdjust_cost (n : Nat) (c : Chan) : Cost c (processAdjust c n) 0 := by
  unfold processAdjust
  split
  · unfold Cost; simp [R.fail]
  · have := flushSendBuf_cost { c with sendWin := c.sendWin + n }
    unfold Cost at this ⊢
    simp only [pot] at *
    omega

theorem handleReq_cost (c : Chan) (k : ReqKind) : pot (handleReq c k).1.c = pot c ∧ (handleReq c k).1.acts = [] := by
  cases hsv : c.server <;> cases k <;> simp only [handleReq, hsv] <;> (try split) <;> simp [R.ok, R.fail, pot]

theorem reportResponse_cost (k : ReqKind) (w r : Bool) (c : Chan) :
    Cost c (reportResponse c k w r) (if w then 1 else 0) := by
  simp only [reportResponse]
  have hs : emit (if w = true ∧ c.sendSt ≠ St.closePending ∧ c.sendSt ≠ St.closed then
      sendPkt c (if r = true then CMsg.success else CMsg.failure) else []) ≤ (if w then 1 else 0) := by
    split
    · rename_i h
      have := emit_sendPkt c (if r = true then CMsg.success else CMsg.failure)
      have hw : wMsg (if r = true then CMsg.success else CMsg.failure) = 1 := by split <;> rfl
      simp [h.1]; omega
    · simp
  split
  · split
    · have := resumeReading_cost { c with trace := c.trace ++ [.started] }
      have := cost_pre (if w = true ∧ c.sendSt ≠ St.closePending ∧ c.sendSt ≠ St.closed then
        sendPkt c (if r = true then CMsg.success else CMsg.failure) else []) this
      unfold Cost at this ⊢
      simp only [pot] at *
      omega
    · unfold Cost; simp only [R.fail]; omega
  · unfold Cost; simp only [R.ok]; omega

theorem processRequest_cost (k : ReqKind) (w : Bool) (c : Chan) :
    Cost c (processRequest c k w) (if w then 1 else 0) := by
  simp only [processRequest]
  split
  · unfold Cost; simp [R.fail]
  · split
    · unfold Cost; simp [R.fail]
    · have h1 : Cost c (handleReq c k).1 0 := by
        have := handleReq_cost c k
        unfold Cost; rw [this.1, this.2]; simp
      have := cost_andThen h1 (fun c' => reportResponse_cost k w (handleReq c k).2 c')
      exact cost_mono this (by omega)

theorem processResponse_cost (ok : Bool) (c : Chan) : Cost c (processResponse c ok) 0 := by
  unfold Cost
  simp only [processResponse]
  split <;> simp [R.ok, R.fail, pot, emit, sentMsgs, schedCount, wMsgs]

/-- a delivered packet pays for everything its processing emits, and one more -/
theorem processMsg_cost (m : CMsg) (c : Chan) : pot (processMsg c m).c + emit (processMsg c m).acts + 1 ≤ pot c + wMsg m := by
  cases m with
  | data => have := processData_cost c; unfold Cost at this; simp only [processMsg, wMsg]; omega
  | eof => have := processEof_cost c; unfold Cost at this; simp only [processMsg, wMsg]; omega
  | close => have := processClose_cost c; unfold Cost at this; simp only [processMsg, wMsg]; omega
  | adjust n => have := processAdjust_cost n c; unfold Cost at this; simp only [processMsg, wMsg]; omega
  | req k w =>
    have := processRequest_cost k w c
    unfold Cost at this
    simp only [processMsg, wMsg]
    cases w <;> simp_all <;> omega
  | success => have := processResponse_cost true c; unfold Cost at this; simp only [processMsg, wMsg]; omega
  | failure => have := processResponse_cost false c; unfold Cost at this; simp only [processMsg, wMsg]; omega

theorem cleanup_cost (e : Exc) (c : Chan) : Cost c (cleanup c e) 0 := by
  unfold Cost
  simp only [cleanup, R.ok]
  have : emit (if c.openWaiter = true ∨ c.reqWaiter = true then [Act.wake] else []) = 0 := by
    split <;> simp [emit, sentMsgs, schedCount, wMsgs]
  rw [this]
  (repeat' split) <;> simp [pot]

/-- the measure after storing a method call's outcome -/
theorem mu_put (h : HS) (sideA : Bool) (r : R) :
    (h.put sideA r).mu = (if sideA then pot r.c + pot h.b else pot h.a + pot r.c) + wMsgs h.ab + wMsgs h.ba +
      h.ca + h.cb + emit r.acts := by
  unfold HS.put HS.mu emit
  cases sideA <;> simp [wMsgs_append] <;> omega

/-- **every delivery and every scheduled `_cleanup` strictly decreases the measure** -/
theorem mu_decreases (h : HS) (ev : HEv) (hna : ev.isApp = false) (hen : h.enabled ev = true) :
    (h.step ev).mu < h.mu := by
  unfold HS.step
  rw [hen]
  simp only [Bool.true_eq_false, if_false]
  cases ev with
  | app s o => simp [HEv.isApp] at hna
  | deliver toB =>
    cases toB with
    | true =>
      cases hab : h.ab with
      | nil => simp [HS.enabled, hab] at hen
      | cons m rest =>
        simp only
        rw [mu_put]
        have := processMsg_cost m h.b
        simp only [Bool.false_eq_true, if_false]
        unfold HS.mu
        rw [hab]
        simp only [wMsgs, List.map_cons, List.sum_cons] at *
        omega
    | false =>
      cases hba : h.ba with
      | nil => simp [HS.enabled, hba] at hen
      | cons m rest =>
        simp only
        rw [mu_put]
        have := processMsg_cost m h.a
        simp only [if_true]
        unfold HS.mu
        rw [hba]
        simp only [wMsgs, List.map_cons, List.sum_cons] at *
        omega
  | cleanup s =>
    cases s with
    | true =>
      simp only
      rw [mu_put]
      have := cleanup_cost .clean h.a
      have hpos : 0 < h.ca := by have := hen; simp [HS.enabled] at this; exact this.2
      unfold Cost at this
      unfold HS.mu
      simp only [if_true]
      omega
    | false =>
      simp only
      rw [mu_put]
      have := cleanup_cost .clean h.b
      have hpos : 0 < h.cb := by have := hen; simp [HS.enabled] at this; exact this.2
      unfold Cost at this
      unfold HS.mu
      simp only [Bool.false_eq_true, if_false]
      omega

theorem step_disabled (h : HS) (ev : HEv) (hd : h.enabled ev = false) : h.step ev = h := by
  unfold HS.step; simp [hd]

/-- **bound**: along any sequence of deliveries and cleanups, at most `mu` of them actually happen -/
theorem effective_le_mu (evs : List HEv) (h : HS) (hna : ∀ ev ∈ evs, ev.isApp = false) :
    h.effective evs ≤ h.mu := by
  induction evs generalizing h with
  | nil => simp [HS.effective]
  | cons ev rest ih =>
    simp only [HS.effective]
    have hr := ih (h.step ev) (fun e he => hna e (List.mem_cons_of_mem _ he))
    cases hen : h.enabled ev with
    | false =>
      rw [step_disabled h ev hen] at hr ⊢
      simp; exact hr
    | true =>
      have := mu_decreases h ev (hna ev (List.mem_cons_self ..)) hen
      simp; omega

/-! ### local invariants of the handshake -/

/-- per-endpoint facts about the two state variables -/
structure LInv (c : Chan) : Prop where
  d2 : (c.recvSt = .closePending ∨ c.recvSt = .closed) → c.sendSt = .closed
  d6 : c.sendSt ≠ .closed → c.sendChan.isSome = true

/-- a close that could not complete is waiting for buffered data to be delivered -/
def D3 (c : Chan) : Prop := c.recvSt = .closePending → 0 < c.recvBuf

/-- effect summary of a method call for the handshake invariants -/
structure HFx (c : Chan) (r : R) : Prop where
  linv : LInv c → LInv r.c
  sendMono : c.sendSt = .closed → r.c.sendSt = .closed
  recvMono : (c.recvSt = .closePending ∨ c.recvSt = .closed) → (r.c.recvSt = .closePending ∨ r.c.recvSt = .closed)
  recvClosed : c.recvSt = .closed → r.c.recvSt = .closed
  close : LInv c → c.sendSt ≠ .closed → r.c.sendSt = .closed → CMsg.close ∈ sentMsgs r.acts
  sched : c.recvSt ≠ .closed → r.c.recvSt = .closed → 0 < schedCount r.acts
  sched' : 0 < schedCount r.acts → r.c.recvSt = .closed
  core : r.c.session = c.session ∧ r.c.reg = c.reg ∧ r.c.closeEvent = c.closeEvent

theorem hfx_refl (c : Chan) : HFx c (R.ok c) :=
  ⟨id, id, id, id, fun _ h1 h2 => absurd h2 h1, fun h1 h2 => absurd h2 h1, fun h => by simp [R.ok, schedCount] at h,
   ⟨rfl, rfl, rfl⟩⟩

theorem hfx_fail (c : Chan) (e : Exc) : HFx c (R.fail c e) :=
  ⟨id, id, id, id, fun _ h1 h2 => absurd h2 h1, fun h1 h2 => absurd h2 h1, fun h => by simp [R.fail, schedCount] at h,
   ⟨rfl, rfl, rfl⟩⟩

theorem hfx_andThen {c : Chan} {r : R} {f : Chan → R} (h1 : HFx c r) (h2 : ∀ c', HFx c' (f c')) :
    HFx c (r.andThen f) := by
  unfold R.andThen
  split
  · exact h1
  · have g := h2 r.c
    refine ⟨fun h => g.linv (h1.linv h), fun h => g.sendMono (h1.sendMono h), fun h => g.recvMono (h1.recvMono h),
      fun h => g.recvClosed (h1.recvClosed h), ?_, ?_, ?_, ?_⟩
    · intro hl hs hf
      simp only [sentMsgs_append, List.mem_append]
      by_cases hm : r.c.sendSt = .closed
      · exact Or.inl (h1.close hl hs hm)
      · exact Or.inr (g.close (h1.linv hl) hm hf)
    · intro hs hf
      simp only [schedCount_append]
      by_cases hm : r.c.recvSt = .closed
      · have := h1.sched hs hm; omega
      · have := g.sched hm hf; omega
    · intro hp
      simp only [schedCount_append] at hp
      by_cases hz : 0 < schedCount r.acts
      · exact g.recvClosed (h1.sched' hz)
      · exact g.sched' (by omega)
    · obtain ⟨a1, a2, a3⟩ := h1.core
      obtain ⟨b1, b2, b3⟩ := g.core
      exact ⟨b1.trans a1, b2.trans a2, b3.trans a3⟩

theorem schedCount_sendPkt (c : Chan) (m : CMsg) : schedCount (sendPkt c m) = 0 := by
  unfold sendPkt; split <;> rfl

theorem schedCount_replicate (c : Chan) (m : CMsg) (k : Nat) :
    schedCount ((List.replicate k ()).flatMap (fun _ => sendPkt c m)) = 0 := by
  induction k with
  | zero => rfl
  | succ n ih => simp [List.replicate_succ, schedCount_append, schedCount_sendPkt, ih]

theorem hfx_pre {c : Chan} {r : R} (acts : List Act) (hs : schedCount acts = 0) (h : HFx c r) : HFx c (r.pre acts) := by
  refine ⟨h.linv, h.sendMono, h.recvMono, h.recvClosed, ?_, ?_, ?_, h.core⟩
  · intro hl h1 h2
    simp only [R.pre, sentMsgs_append, List.mem_append]
    exact Or.inr (h.close hl h1 h2)
  · intro h1 h2
    simp only [R.pre, schedCount_append]
    have := h.sched h1 h2; omega
  · intro hp
    simp only [R.pre, schedCount_append, hs, Nat.zero_add] at hp
    exact h.sched' hp

theorem closeSend_hfx (c : Chan) : HFx c (closeSend c) := by
  refine ⟨?_, ?_, ?_, ?_, ?_, ?_, ?_, ?_⟩
  · intro ⟨h1, h4⟩
    simp only [closeSend]; split <;> (constructor <;> simp_all [R.ok])
  · intro h; simp [closeSend, h, R.ok]
  · intro h; simp only [closeSend]; split <;> simpa [R.ok] using h
  · intro h; simp only [closeSend]; split <;> simpa [R.ok] using h
  · intro hl hs _
    have := hl.d6 hs
    cases hsc : c.sendChan with
    | none => rw [hsc] at this; cases this
    | some n => simp [closeSend, hs, R.ok, sendPkt, hsc, sentMsgs]
  · intro h1 h2
    exfalso
    simp only [closeSend] at h2
    split at h2 <;> simp [R.ok] at h2 <;> exact h1 h2
  · intro hp
    exfalso
    simp only [closeSend] at hp
    split at hp <;> simp [R.ok, schedCount_sendPkt, schedCount] at hp
  · simp only [closeSend]; split <;> exact ⟨rfl, rfl, rfl⟩

theorem discardRecv_hfx (c : Chan) : HFx c (discardRecv c) := by
  refine ⟨?_, ?_, ?_, ?_, ?_, ?_, ?_, ?_⟩
  · intro ⟨h1, h4⟩
    simp only [discardRecv]; split <;> (constructor <;> simp_all [R.ok])
  · intro h; simp only [discardRecv]; split <;> simpa [R.ok] using h
  · intro h; simp only [discardRecv]; split <;> simp_all [R.ok]
  · intro h; simp only [discardRecv]; split <;> simp_all [R.ok]
  · intro _ h1 h2
    exfalso
    simp only [discardRecv] at h2
    split at h2 <;> simp [R.ok] at h2 <;> exact h1 h2
  · intro h1 h2
    simp only [discardRecv] at h2 ⊢
    split
    · simp [R.ok, schedCount_append, schedCount]
    · rename_i hn; simp [R.ok, hn] at h2; exact absurd h2 h1
  · intro hp
    have h0 : schedCount (if 0 < c.recvBuf then sendPkt c (.adjust c.recvBuf) else []) = 0 := by
      split
      · exact schedCount_sendPkt _ _
      · rfl
    simp only [discardRecv] at hp ⊢
    split
    · simp [R.ok]
    · rename_i hn; simp [R.ok, hn, h0] at hp
  · simp only [discardRecv]; split <;> exact ⟨rfl, rfl, rfl⟩

/-- a change of fields none of the handshake invariants looks at, emitting packets only -/
theorem hfx_neutral_r {c : Chan} (r : R) (hs : schedCount r.acts = 0)
    (e1 : r.c.sendSt = c.sendSt) (e2 : r.c.recvSt = c.recvSt) (e3 : r.c.sendChan = c.sendChan)
    (e4 : r.c.session = c.session) (e5 : r.c.reg = c.reg) (e6 : r.c.closeEvent = c.closeEvent) : HFx c r := by
  refine ⟨?_, ?_, ?_, ?_, ?_, ?_, ?_, ⟨e4, e5, e6⟩⟩
  · intro ⟨h1, h4⟩
    exact ⟨by rw [e1, e2]; exact h1, by rw [e1, e3]; exact h4⟩
  · intro h; rw [e1]; exact h
  · intro h; rw [e2]; exact h
  · intro h; rw [e2]; exact h
  · intro _ h1 h2; rw [e1] at h2; exact absurd h2 h1
  · intro h1 h2; rw [e2] at h2; exact absurd h2 h1
  · intro hp; rw [hs] at hp; cases hp

theorem hfx_neutral {c c' : Chan} (acts : List Act) (hs : schedCount acts = 0)
    (e1 : c'.sendSt = c.sendSt) (e2 : c'.recvSt = c.recvSt) (e3 : c'.sendChan = c.sendChan)
    (e4 : c'.session = c.session) (e5 : c'.reg = c.reg) (e6 : c'.closeEvent = c.closeEvent) :
    HFx c (R.ok c' acts) := hfx_neutral_r (R.ok c' acts) hs e1 e2 e3 e4 e5 e6

theorem HFx.cast {c c0 : Chan} {r : R} (h : HFx c0 r) (e1 : c0.sendSt = c.sendSt) (e2 : c0.recvSt = c.recvSt)
    (e3 : c0.sendChan = c.sendChan) (e4 : c0.session = c.session) (e5 : c0.reg = c.reg)
    (e6 : c0.closeEvent = c.closeEvent) : HFx c r := by
  have hl : LInv c → LInv c0 := fun ⟨h1, h4⟩ => ⟨by rw [e1, e2]; exact h1, by rw [e1, e3]; exact h4⟩
  refine ⟨fun x => h.linv (hl x), fun x => h.sendMono (by rw [e1]; exact x), fun x => h.recvMono (by rw [e2]; exact x),
    fun x => h.recvClosed (by rw [e2]; exact x), fun x y => h.close (hl x) (by rw [e1]; exact y),
    fun x => h.sched (by rw [e2]; exact x), h.sched', ?_⟩
  obtain ⟨a1, a2, a3⟩ := h.core
  exact ⟨a1.trans e4, a2.trans e5, a3.trans e6⟩

theorem pauseResumeWriting_hfx (c : Chan) : HFx c (pauseResumeWriting c) := by
  obtain ⟨e1, _, e3, e4, e5, e6, e7, e8⟩ := pauseResumeWriting_same c
  exact hfx_neutral_r _ (by rw [e8]; rfl) e3 e1 e4 e5 e6 e7

theorem flushSendTail_hfx (c : Chan) : HFx c (flushSendTail c) := by
  simp only [flushSendTail]
  split
  · split
    · rename_i hs
      refine ⟨?_, ?_, ?_, ?_, ?_, ?_, ?_, ⟨rfl, rfl, rfl⟩⟩
      · intro ⟨h1, h4⟩
        refine ⟨?_, ?_⟩
        · intro h; have := h1 h; simp_all
        · intro _; exact h4 (by simp_all)
      · intro h; simp_all
      · exact id
      · exact id
      · intro _ _ h2; simp [R.ok] at h2
      · intro h1 h2; exact absurd h2 h1
      · intro hp; simp [R.ok, schedCount_sendPkt] at hp
    · simp only [closeSendEof]
      split
      · exact hfx_pre _ (schedCount_sendPkt _ _) ((closeSend_hfx _).cast rfl rfl rfl rfl rfl rfl)
      · exact closeSend_hfx _
    · exact hfx_refl _
  · exact hfx_refl _

theorem flushSendBuf_hfx (c : Chan) : HFx c (flushSendBuf c) := by
  unfold flushSendBuf
  have hrep := schedCount_replicate c .data (min c.sendBuf c.sendWin)
  exact hfx_andThen (hfx_pre _ hrep ((pauseResumeWriting_hfx _).cast rfl rfl rfl rfl rfl rfl)) flushSendTail_hfx

theorem writeEof_hfx (c : Chan) : HFx c (writeEof c) := by
  unfold writeEof
  split
  · rename_i hs
    have := flushSendBuf_hfx { c with sendSt := .eofPending }
    refine ⟨?_, ?_, this.recvMono, this.recvClosed, ?_, this.sched, this.sched', this.core⟩
    · intro ⟨h1, h4⟩
      exact this.linv ⟨by intro h; have := h1 h; simp_all, fun _ => h4 (by simp_all)⟩
    · intro h; simp_all
    · intro ⟨h1, h4⟩ _ hf
      exact this.close ⟨by intro h; have := h1 h; simp_all, fun _ => h4 (by simp_all)⟩ (by simp) hf
  · exact hfx_refl c

theorem deliverOne_hfx (c : Chan) : HFx c (deliverOne c) := by
  simp only [deliverOne]
  have h0 : schedCount (if decide (2 * (c.recvWin - 1) < c.initWin) = true then
      sendPkt c (.adjust (c.initWin - (c.recvWin - 1))) else []) = 0 := by
    split
    · exact schedCount_sendPkt _ _
    · rfl
  split <;> exact hfx_neutral _ h0 rfl rfl rfl rfl rfl rfl

theorem deliverN_hfx (n : Nat) (c : Chan) : HFx c (deliverN n c) := by
  induction n generalizing c with
  | zero => exact hfx_refl c
  | succ n ih => exact hfx_andThen (deliverOne_hfx c) ih

theorem flushEofPart_hfx (c : Chan) : HFx c (flushEofPart c) := by
  simp only [flushEofPart]
  split
  · rename_i h
    have hn : ∀ (tr : List Cb), HFx c (R.ok { c with recvSt := .eof, trace := tr }) := by
      intro tr
      refine ⟨?_, id, ?_, ?_, fun _ h1 h2 => absurd h2 h1, ?_, fun hp => by simp [R.ok, schedCount] at hp, ⟨rfl, rfl, rfl⟩⟩
      · intro ⟨h1, h4⟩
        exact ⟨by intro hh; simp [R.ok] at hh, h4⟩
      · intro hh; simp_all
      · intro hh; simp_all
      · intro _ h2; simp [R.ok] at h2
    split
    · split
      · have := writeEof_hfx { c with recvSt := .eof, trace := c.trace ++ [.eof] }
        have hn' := hn (c.trace ++ [.eof])
        refine ⟨fun x => this.linv (hn'.linv x), this.sendMono, fun x => this.recvMono (hn'.recvMono x),
          fun x => this.recvClosed (hn'.recvClosed x), fun x y => this.close (hn'.linv x) y, ?_, this.sched', this.core⟩
        intro _ hf
        exact this.sched (by simp) hf
      · exact hn _
    · have x := hn c.trace
      exact ⟨x.linv, x.sendMono, x.recvMono, x.recvClosed, x.close, x.sched,
        fun hp => by simp [R.fail, schedCount] at hp, x.core⟩
  · exact hfx_refl c

theorem flushClosePart_hfx (c : Chan) : HFx c (flushClosePart c) := by
  simp only [flushClosePart]
  split
  · rename_i h
    refine ⟨?_, id, fun _ => Or.inr rfl, fun _ => rfl, fun _ h1 h2 => absurd h2 h1, fun _ _ => by simp [R.ok, schedCount],
      fun _ => rfl, ⟨rfl, rfl, rfl⟩⟩
    intro ⟨h1, h4⟩
    exact ⟨fun _ => h1 (Or.inl h.2), h4⟩
  · exact hfx_refl c

theorem flushRecvBuf_hfx (c : Chan) : HFx c (flushRecvBuf c) := by
  unfold flushRecvBuf
  refine hfx_andThen (hfx_andThen ?_ flushEofPart_hfx) flushClosePart_hfx
  split
  · exact (deliverN_hfx c.recvBuf { c with recvBuf := 0 }).cast rfl rfl rfl rfl rfl rfl
  · exact hfx_refl c

theorem acceptData_hfx (c : Chan) : HFx c (acceptData c) := by
  unfold acceptData
  split
  · exact hfx_neutral _ (schedCount_sendPkt _ _) rfl rfl rfl rfl rfl rfl
  · split
    · exact hfx_neutral [] rfl rfl rfl rfl rfl rfl rfl
    · exact deliverOne_hfx c

theorem resumeReading_hfx (c : Chan) : HFx c (resumeReading c) := by
  unfold resumeReading
  split
  · exact (flushRecvBuf_hfx { c with paused := .no }).cast rfl rfl rfl rfl rfl rfl
  · exact hfx_refl c

theorem pauseReading_hfx (c : Chan) : HFx c (pauseReading c) :=
  hfx_neutral [] rfl rfl rfl rfl rfl rfl rfl

theorem processData_hfx (c : Chan) : HFx c (processData c) := by
  unfold processData
  split
  · exact hfx_fail c _
  · split
    · exact hfx_fail c _
    · exact acceptData_hfx c

theorem processEof_hfx (c : Chan) : HFx c (processEof c) := by
  unfold processEof
  split
  · exact hfx_fail c _
  · rename_i h
    have hs : c.recvSt = .opn := by simpa using h
    have := flushRecvBuf_hfx { c with recvSt := .eofPending }
    refine ⟨?_, this.sendMono, ?_, ?_, ?_, ?_, this.sched', this.core⟩
    · intro ⟨h1, h4⟩; exact this.linv ⟨by intro hh; simp at hh, h4⟩
    · intro hh; rw [hs] at hh; simp at hh
    · intro hh; rw [hs] at hh; cases hh
    · intro ⟨h1, h4⟩ y z; exact this.close ⟨by intro hh; simp at hh, h4⟩ y z
    · intro _ hf; exact this.sched (by simp) hf

theorem closeSend_keeps (c : Chan) : (closeSend c).c.recvSt = c.recvSt ∧ (closeSend c).c.sendSt = .closed := by
  simp only [closeSend]
  split
  · exact ⟨rfl, rfl⟩
  · rename_i h; exact ⟨rfl, by simpa using h⟩

theorem processClose_hfx (c : Chan) : HFx c (processClose c) := by
  unfold processClose
  split
  · exact hfx_fail c _
  · rename_i hl
    have hlive : c.recvSt ≠ .closePending ∧ c.recvSt ≠ .closed := by
      cases hs : c.recvSt <;> simp_all [recvLive]
    have h1 : HFx c ((closeSend c).andThen pauseResumeWriting) := hfx_andThen (closeSend_hfx c) pauseResumeWriting_hfx
    have hk' := closeSendResume_recv c
    have hk : ((closeSend c).andThen pauseResumeWriting).c.recvSt = c.recvSt ∧
        ((closeSend c).andThen pauseResumeWriting).c.sendSt = .closed := ⟨hk'.1, hk'.2.2⟩
    have h0 : schedCount ((closeSend c).andThen pauseResumeWriting).acts = 0 := by
      have hc0 : schedCount (closeSend c).acts = 0 := by
        simp only [closeSend]; split <;> simp [R.ok, schedCount_sendPkt, schedCount]
      unfold R.andThen
      split
      · exact hc0
      · simp only [schedCount_append, hc0, (pauseResumeWriting_same _).2.2.2.2.2.2.2]; rfl
    generalize (closeSend c).andThen pauseResumeWriting = r at h1 hk h0
    unfold R.andThen
    split
    · exact h1
    · have g := (fun (x : Chan) => flushRecvBuf_hfx { x with recvEofPending := decide (x.recvSt = .eofPending), recvSt := .closePending }) r.c
      have gl : LInv c → LInv { r.c with recvEofPending := decide (r.c.recvSt = .eofPending), recvSt := .closePending } := by
        intro hc
        have := h1.linv hc
        exact ⟨fun _ => hk.2, this.d6⟩
      refine ⟨fun h => g.linv (gl h), fun h => g.sendMono hk.2, fun h => g.recvMono (Or.inl rfl), ?_, ?_, ?_, ?_, ?_⟩
      · intro h; exact absurd h hlive.2
      · intro hc hs _
        simp only [sentMsgs_append, List.mem_append]
        exact Or.inl (h1.close hc hs hk.2)
      · intro _ hf
        simp only [schedCount_append, h0, Nat.zero_add]
        exact g.sched (by simp) hf
      · intro hp
        simp only [schedCount_append, h0, Nat.zero_add] at hp
        exact g.sched' hp
      · obtain ⟨a1, a2, a3⟩ := h1.core
        obtain ⟨b1, b2, b3⟩ := g.core
        exact ⟨b1.trans a1, b2.trans a2, b3.trans a3⟩

theorem processAdjust_hfx (n : Nat) (c : Chan) : HFx c (processAdjust c n) := by
  unfold processAdjust
  split
  · exact hfx_fail c _
  · exact (flushSendBuf_hfx { c with sendWin := c.sendWin + n }).cast rfl rfl rfl rfl rfl rfl

theorem handleReq_hfx (k : ReqKind) (c : Chan) : HFx c (handleReq c k).1 := by
  refine hfx_neutral_r _ ?_ ?_ ?_ ?_ ?_ ?_ ?_ <;>
    (cases hsv : c.server <;> cases k <;> simp only [handleReq, hsv] <;> (try split) <;>
      simp [R.ok, R.fail, schedCount])

theorem reportResponse_hfx (k : ReqKind) (w r : Bool) (c : Chan) : HFx c (reportResponse c k w r) := by
  simp only [reportResponse]
  have hs : schedCount (if w = true ∧ c.sendSt ≠ St.closePending ∧ c.sendSt ≠ St.closed then
      sendPkt c (if r = true then CMsg.success else CMsg.failure) else []) = 0 := by
    split
    · exact schedCount_sendPkt _ _
    · rfl
  split
  · split
    · exact hfx_pre _ hs ((resumeReading_hfx { c with trace := c.trace ++ [.started] }).cast rfl rfl rfl rfl rfl rfl)
    · exact hfx_neutral_r (R.fail c Exc.assertion _) hs rfl rfl rfl rfl rfl rfl
  · exact hfx_neutral _ hs rfl rfl rfl rfl rfl rfl

theorem processRequest_hfx (k : ReqKind) (w : Bool) (c : Chan) : HFx c (processRequest c k w) := by
  simp only [processRequest]
  split
  · exact hfx_fail c _
  · split
    · exact hfx_fail c _
    · exact hfx_andThen (handleReq_hfx k c) (fun c' => reportResponse_hfx k w _ c')

theorem processResponse_hfx (ok : Bool) (c : Chan) : HFx c (processResponse c ok) := by
  simp only [processResponse]
  split
  · exact hfx_neutral _ rfl rfl rfl rfl rfl rfl rfl
  · exact hfx_fail c _

theorem processMsg_hfx (m : CMsg) (c : Chan) : HFx c (processMsg c m) := by
  cases m with
  | data => exact processData_hfx c
  | eof => exact processEof_hfx c
  | close => exact processClose_hfx c
  | adjust n => exact processAdjust_hfx n c
  | req k w => exact processRequest_hfx k w c
  | success => exact processResponse_hfx true c
  | failure => exact processResponse_hfx false c

theorem write_hfx (c : Chan) : HFx c (write c) := by
  unfold write
  split
  · exact hfx_fail c _
  · exact (flushSendBuf_hfx { c with sendBuf := c.sendBuf + 1 }).cast rfl rfl rfl rfl rfl rfl

theorem abort_hfx (c : Chan) : HFx c (abort c) := by
  unfold abort
  refine hfx_andThen ?_ ?_
  · split
    · exact closeSend_hfx c
    · exact hfx_refl c
  · intro c'
    split
    · exact discardRecv_hfx c'
    · exact hfx_refl c'

theorem close_hfx (c : Chan) : HFx c (close c) := by
  unfold close
  refine hfx_andThen ?_ ?_
  · split
    · rename_i hs
      have := flushSendBuf_hfx { c with sendEofPending := decide (c.sendSt = .eofPending), sendSt := .closePending }
      refine ⟨?_, ?_, this.recvMono, this.recvClosed, ?_, this.sched, this.sched', this.core⟩
      · intro ⟨h1, h4⟩
        exact this.linv ⟨by intro h; have := h1 h; simp_all, fun _ => h4 (by simp_all)⟩
      · intro h; simp_all
      · intro ⟨h1, h4⟩ _ hf
        exact this.close ⟨by intro h; have := h1 h; simp_all, fun _ => h4 (by simp_all)⟩ (by simp) hf
    · exact hfx_refl c
  · intro c'
    split
    · exact discardRecv_hfx c'
    · exact hfx_refl c'

theorem exit_hfx (c : Chan) : HFx c (exit c) := by
  unfold exit
  split
  · exact hfx_pre _ (schedCount_sendPkt _ _) (close_hfx c)
  · exact hfx_refl c

theorem appOp_hfx (o : AppOp) (c : Chan) : HFx c (appOp c o) := by
  cases o with
  | write => exact write_hfx c
  | eof => exact writeEof_hfx c
  | close => exact close_hfx c
  | abort => exact abort_hfx c
  | pause => exact pauseReading_hfx c
  | resume => exact resumeReading_hfx c
  | exit => simp only [appOp]; split; exact exit_hfx c; exact hfx_refl c
  | limits hi lo =>
    simp only [appOp, setLimits]
    exact (pauseResumeWriting_hfx { c with hiWater := hi, loWater := lo }).cast rfl rfl rfl rfl rfl rfl
  | drain =>
    simp only [appOp, drain]
    split <;> exact hfx_neutral [] rfl rfl rfl rfl rfl rfl rfl

/-! ### a pending close always waits for buffered data -/

/-- the receive side is left alone (the buffer may grow) -/
def RecvKeep (c : Chan) (r : R) : Prop := r.c.recvSt = c.recvSt ∧ c.recvBuf ≤ r.c.recvBuf

theorem d3_of_keep {c : Chan} {r : R} (hk : RecvKeep c r) (h : D3 c) : D3 r.c := by
  intro hh; rw [hk.1] at hh; have := h hh; have := hk.2; omega

theorem keep_andThen {c : Chan} {r : R} {f : Chan → R} (h1 : RecvKeep c r) (h2 : ∀ c', RecvKeep c' (f c')) :
    RecvKeep c (r.andThen f) := by
  unfold R.andThen
  split
  · exact h1
  · have := h2 r.c
    exact ⟨this.1.trans h1.1, Nat.le_trans h1.2 this.2⟩

theorem d3_andThen {r : R} {f : Chan → R} (h1 : D3 r.c) (h2 : ∀ c', D3 c' → D3 (f c').c) : D3 (r.andThen f).c :=
  andThen_c (P := D3) r f h1 h2

theorem closeSend_keep (c : Chan) : RecvKeep c (closeSend c) := by
  simp only [closeSend, RecvKeep]; split <;> simp [R.ok]

theorem pauseResumeWriting_keep (c : Chan) : RecvKeep c (pauseResumeWriting c) := by
  have := pauseResumeWriting_same c
  exact ⟨this.1, Nat.le_of_eq this.2.1.symm⟩

theorem flushSendTail_keep (c : Chan) : RecvKeep c (flushSendTail c) := by
  simp only [flushSendTail]
  split
  · split
    · exact ⟨rfl, Nat.le_refl _⟩
    · simp only [closeSendEof]
      split
      · exact closeSend_keep { c with sendEofPending := false }
      · exact closeSend_keep c
    · exact ⟨rfl, Nat.le_refl _⟩
  · exact ⟨rfl, Nat.le_refl _⟩

theorem flushSendBuf_keep (c : Chan) : RecvKeep c (flushSendBuf c) := by
  unfold flushSendBuf
  refine keep_andThen ?_ flushSendTail_keep
  exact pauseResumeWriting_keep
    { c with sendBuf := c.sendBuf - min c.sendBuf c.sendWin, sendWin := c.sendWin - min c.sendBuf c.sendWin }

theorem writeEof_keep (c : Chan) : RecvKeep c (writeEof c) := by
  unfold writeEof
  split
  · exact flushSendBuf_keep { c with sendSt := .eofPending }
  · exact ⟨rfl, Nat.le_refl _⟩

theorem deliverOne_keep (c : Chan) : RecvKeep c (deliverOne c) := by
  simp only [deliverOne, RecvKeep]; split <;> simp [R.ok]

theorem deliverN_recv (n : Nat) (c : Chan) : (deliverN n c).c.recvSt = c.recvSt ∧ (deliverN n c).c.recvBuf = c.recvBuf ∧
    (deliverN n c).err = none := by
  induction n generalizing c with
  | zero => exact ⟨rfl, rfl, rfl⟩
  | succ n ih =>
    simp only [deliverN, R.andThen]
    have h1 : (deliverOne c).err = none := by simp only [deliverOne]; split <;> rfl
    have hk := deliverOne_keep c
    have hb : (deliverOne c).c.recvBuf = c.recvBuf := by simp only [deliverOne]; split <;> rfl
    rw [h1]
    simp only
    obtain ⟨a, b, e⟩ := ih (deliverOne c).c
    exact ⟨a.trans hk.1, b.trans hb, e⟩

theorem flushEofPart_d3 (c : Chan) (h : D3 c) : D3 (flushEofPart c).c := by
  simp only [flushEofPart]
  split
  · split
    · split
      · have := writeEof_keep { c with recvSt := .eof, trace := c.trace ++ [.eof] }
        intro hh; rw [this.1] at hh; cases hh
      · intro hh; simp [R.ok] at hh
    · intro hh; simp [R.fail] at hh
  · exact h

theorem closeSend_noerr (c : Chan) : (closeSend c).err = none := by
  simp only [closeSend]; split <;> rfl

theorem flushEofPart_err (c : Chan) (e : Exc) :
    (flushEofPart c).err = some e → (flushEofPart c).c.recvSt = .eof := by
  simp only [flushEofPart]
  split
  · split
    · split
      · intro _; exact (writeEof_keep _).1
      · intro h; simp [R.ok] at h
    · intro _; rfl
  · intro h; simp [R.ok] at h

theorem andThen_of_noerr (r : R) (f : Chan → R) (h : r.err = none) :
    (r.andThen f).c = (f r.c).c ∧ (r.andThen f).err = (f r.c).err := by
  unfold R.andThen; rw [h]; exact ⟨rfl, rfl⟩

theorem flushClosePart_d3' (c : Chan) : D3 (flushClosePart c).c := by
  simp only [flushClosePart, D3]
  split
  · intro h; simp [R.ok] at h
  · rename_i hn
    intro h
    simp only [R.ok] at h ⊢
    cases hb : c.recvBuf with
    | zero => exact absurd ⟨hb, h⟩ hn
    | succ n => omega

/-- `_flush_recv_buf` leaves no close pending unless data is still buffered -/
theorem flushRecvBuf_d3 (c : Chan) : D3 (flushRecvBuf c).c := by
  unfold flushRecvBuf
  generalize hx : (if c.paused = .no then deliverN c.recvBuf { c with recvBuf := 0 } else R.ok c) = x
  have hxe : x.err = none := by
    rw [← hx]; split
    · exact (deliverN_recv _ _).2.2
    · rfl
  obtain ⟨h12c, h12e⟩ := andThen_of_noerr x flushEofPart hxe
  cases he : (x.andThen flushEofPart).err with
  | some e =>
    have : ((x.andThen flushEofPart).andThen flushClosePart).c = (x.andThen flushEofPart).c := by
      unfold R.andThen at he ⊢; rw [hxe] at he ⊢; simp only at he ⊢; rw [he]
    rw [this, h12c]
    rw [h12e] at he
    intro hh
    rw [flushEofPart_err x.c e he] at hh; cases hh
  | none =>
    rw [(andThen_of_noerr _ flushClosePart he).1]
    exact flushClosePart_d3' _

theorem discardRecv_d3 (c : Chan) : D3 (discardRecv c).c := by
  simp only [discardRecv, D3]
  split
  · intro h; simp [R.ok] at h
  · rename_i hn; intro h; simp [R.ok] at h; exact absurd h (by simpa using hn)

theorem acceptData_keep (c : Chan) : RecvKeep c (acceptData c) := by
  unfold acceptData
  split
  · exact ⟨rfl, Nat.le_refl _⟩
  · split
    · exact ⟨rfl, by simp [R.ok]⟩
    · exact deliverOne_keep c

theorem handleReq_keep (k : ReqKind) (c : Chan) : RecvKeep c (handleReq c k).1 := by
  constructor <;>
    (cases hsv : c.server <;> cases k <;> simp only [handleReq, hsv] <;> (try split) <;> simp [R.ok, R.fail])

theorem reportResponse_d3 (k : ReqKind) (w r : Bool) (c : Chan) (h : D3 c) : D3 (reportResponse c k w r).c := by
  simp only [reportResponse]
  split
  · split
    · simp only [pre_c]
      unfold resumeReading
      split
      · exact flushRecvBuf_d3 _
      · exact h
    · exact h
  · exact h

theorem processMsg_d3 (m : CMsg) (c : Chan) (h : D3 c) : D3 (processMsg c m).c := by
  cases m with
  | data =>
    simp only [processMsg, processData]
    split
    · exact h
    · split
      · exact h
      · exact d3_of_keep (acceptData_keep c) h
  | eof =>
    simp only [processMsg, processEof]
    split
    · exact h
    · exact flushRecvBuf_d3 _
  | close =>
    simp only [processMsg, processClose]
    split
    · exact h
    · exact d3_andThen (d3_of_keep (keep_andThen (closeSend_keep c) pauseResumeWriting_keep) h)
        (fun c' _ => flushRecvBuf_d3 _)
  | adjust n =>
    simp only [processMsg, processAdjust]
    split
    · exact h
    · exact d3_of_keep (r := flushSendBuf _) (c := { c with sendWin := c.sendWin + n }) (flushSendBuf_keep _) h
  | req k w =>
    simp only [processMsg, processRequest]
    split
    · exact h
    · split
      · exact h
      · exact d3_andThen (d3_of_keep (handleReq_keep k c) h) (fun c' hc' => reportResponse_d3 k w _ c' hc')
  | success => simp only [processMsg, processResponse]; split <;> exact h
  | failure => simp only [processMsg, processResponse]; split <;> exact h

theorem close_d3 (c : Chan) (h : D3 c) : D3 (close c).c := by
  unfold close
  refine d3_andThen ?_ ?_
  · split
    · exact d3_of_keep (r := flushSendBuf _) (c := { c with sendEofPending := decide (c.sendSt = .eofPending), sendSt := .closePending }) (flushSendBuf_keep _) h
    · exact h
  · intro c' hc'
    split
    · exact discardRecv_d3 c'
    · exact hc'

theorem appOp_d3 (o : AppOp) (c : Chan) (h : D3 c) : D3 (appOp c o).c := by
  cases o with
  | write =>
    simp only [appOp, write]
    split
    · exact h
    · exact d3_of_keep (r := flushSendBuf _) (c := { c with sendBuf := c.sendBuf + 1 }) (flushSendBuf_keep _) h
  | eof => exact d3_of_keep (writeEof_keep c) h
  | close => exact close_d3 c h
  | abort =>
    simp only [appOp, abort]
    refine d3_andThen ?_ ?_
    · split
      · exact d3_of_keep (closeSend_keep c) h
      · exact h
    · intro c' hc'
      split
      · exact discardRecv_d3 c'
      · exact hc'
  | pause => exact h
  | resume =>
    simp only [appOp, resumeReading]
    split
    · exact flushRecvBuf_d3 _
    · exact h
  | exit =>
    simp only [appOp]
    split
    · simp only [exit]
      split
      · simp only [pre_c]; exact close_d3 c h
      · exact h
    · exact h
  | limits hi lo =>
    simp only [appOp, setLimits]
    exact d3_of_keep (c := { c with hiWater := hi, loWater := lo }) (pauseResumeWriting_keep _) h
  | drain =>
    simp only [appOp, drain, ok_c]
    split <;> exact h

theorem cleanup_d3 (e : Exc) (c : Chan) (h : D3 c) : D3 (cleanup c e).c := by
  simp only [cleanup, R.ok, D3]
  (repeat' split) <;> exact h

/-! ### the invariant of the two-endpoint system -/

/-- the session object stays attached for as long as the receive side is not closed (it is released by
    `_cleanup`, which is only scheduled once the receive side is closed) -/
def SessLive (c : Chan) : Prop := c.recvSt ≠ .closed → c.session = true

theorem sessLive_step {c : Chan} {r : R} (hf : HFx c r) (h : SessLive c) : SessLive r.c := by
  intro hn
  rw [hf.core.1]
  exact h (fun hc => hn (hf.recvClosed hc))

structure HInv (h : HS) : Prop where
  la : LInv h.a
  lb : LInv h.b
  sa : SessLive h.a
  sb : SessLive h.b
  da : D3 h.a
  db : D3 h.b
  d1ab : h.a.sendSt = .closed → CMsg.close ∈ h.ab ∨ h.b.recvSt = .closePending ∨ h.b.recvSt = .closed
  d1ba : h.b.sendSt = .closed → CMsg.close ∈ h.ba ∨ h.a.recvSt = .closePending ∨ h.a.recvSt = .closed
  d5a : h.a.recvSt = .closed → 0 < h.ca ∨ cleaned h.a
  d5b : h.b.recvSt = .closed → 0 < h.cb ∨ cleaned h.b
  d9a : 0 < h.ca → h.a.recvSt = .closed
  d9b : 0 < h.cb → h.b.recvSt = .closed

theorem hinv_init (w : Nat) : HInv (HS.init w) := by
  constructor <;> simp [HS.init, D3, SessLive] <;> (constructor <;> simp)

/-- one endpoint `c` with its outgoing link `out`, the peer's receive state `pr` and the number `n` of its
    scheduled cleanups: what a method call of `c` that is summarised by `HFx` keeps true -/
theorem side_step {c : Chan} {r : R} {out : List CMsg} {n : Nat} {pr : St}
    (hf : HFx c r) (hd3 : D3 c → D3 r.c) (hl : LInv c) (hd : D3 c)
    (d1 : c.sendSt = .closed → CMsg.close ∈ out ∨ pr = .closePending ∨ pr = .closed)
    (d5 : c.recvSt = .closed → 0 < n ∨ cleaned c) (d9 : 0 < n → c.recvSt = .closed) :
    LInv r.c ∧ D3 r.c ∧
    (r.c.sendSt = .closed → CMsg.close ∈ out ++ sentMsgs r.acts ∨ pr = .closePending ∨ pr = .closed) ∧
    (r.c.recvSt = .closed → 0 < n + schedCount r.acts ∨ cleaned r.c) ∧
    (0 < n + schedCount r.acts → r.c.recvSt = .closed) := by
  refine ⟨hf.linv hl, hd3 hd, ?_, ?_, ?_⟩
  · intro hs
    by_cases hc : c.sendSt = .closed
    · rcases d1 hc with y | y
      · exact Or.inl (List.mem_append_left _ y)
      · exact Or.inr y
    · exact Or.inl (List.mem_append_right _ (hf.close hl hc hs))
  · intro hs
    by_cases hc : c.recvSt = .closed
    · rcases d5 hc with y | ⟨y1, y2, y3⟩
      · left; omega
      · right
        obtain ⟨a1, a2, a3⟩ := hf.core
        exact ⟨a1.trans y1, a2.trans y2, a3.trans y3⟩
    · left; have := hf.sched hc hs; omega
  · intro hp
    by_cases hz : 0 < n
    · exact hf.recvClosed (d9 hz)
    · exact hf.sched' (by omega)

/-- the peer's view: its CLOSE is still in flight towards `c`, or `c` has seen it -/
theorem peer_view {c : Chan} {r : R} {inc : List CMsg} {ps : St} (hf : HFx c r)
    (d1' : ps = .closed → CMsg.close ∈ inc ∨ c.recvSt = .closePending ∨ c.recvSt = .closed) :
    ps = .closed → CMsg.close ∈ inc ∨ r.c.recvSt = .closePending ∨ r.c.recvSt = .closed := by
  intro hp
  rcases d1' hp with y | y
  · exact Or.inl y
  · exact Or.inr (hf.recvMono y)

theorem pauseResumeWriting_noerr (c : Chan) (hs : c.session = true) : (pauseResumeWriting c).err = none := by
  simp only [pauseResumeWriting]
  (repeat' split) <;> first | rfl | (rename_i hn; exact absurd hs hn)

/-- with its session attached, `_process_close` gets as far as `_recv_state = 'close_pending'` -/
theorem processClose_recv (c : Chan) (hsl : SessLive c) :
    (processClose c).c.recvSt = .closePending ∨ (processClose c).c.recvSt = .closed := by
  unfold processClose
  split
  · rename_i hl
    simp only [R.fail]
    cases hs : c.recvSt <;> simp_all [recvLive]
  · rename_i hl
    have hsess : c.session = true := hsl (by intro h; simp [recvLive, h] at hl)
    have e1 : ((closeSend c).andThen pauseResumeWriting).err = none := by
      rw [(andThen_of_noerr _ _ (closeSend_noerr c)).2]
      apply pauseResumeWriting_noerr
      rw [(closeSend_hfx c).core.1]; exact hsess
    rw [(andThen_of_noerr _ _ e1).1]
    exact (flushRecvBuf_hfx _).recvMono (Or.inl rfl)

theorem hfx_clearErr {c : Chan} {r : R} (h : HFx c r) : HFx c { r with err := none } :=
  ⟨h.linv, h.sendMono, h.recvMono, h.recvClosed, h.close, h.sched, h.sched', h.core⟩

/-- the receiver consumed the head of the link -/
theorem consumed_view {c : Chan} {m : CMsg} {rest : List CMsg} {ps : St} (hsl : SessLive c)
    (d1' : ps = .closed → CMsg.close ∈ m :: rest ∨ c.recvSt = .closePending ∨ c.recvSt = .closed) :
    ps = .closed → CMsg.close ∈ rest ∨ (processMsg c m).c.recvSt = .closePending ∨
      (processMsg c m).c.recvSt = .closed := by
  intro hs
  rcases d1' hs with y | y
  · rcases List.mem_cons.mp y with z | z
    · subst z; right; exact processClose_recv c hsl
    · exact Or.inl z
  · exact Or.inr ((processMsg_hfx m c).recvMono y)

theorem cleanup_cleaned (e : Exc) (c : Chan) : cleaned (cleanup c e).c := by
  simp only [cleanup, R.ok, cleaned]
  (repeat' split) <;> simp_all

/-- the invariant stated on the components of a state -/
theorem hinv_of {h : HS} (a b : Chan) (ab ba : List CMsg) (ca cb : Nat)
    (e1 : h.a = a) (e2 : h.b = b) (e3 : h.ab = ab) (e4 : h.ba = ba) (e5 : h.ca = ca) (e6 : h.cb = cb)
    (la : LInv a) (lb : LInv b) (sa : SessLive a) (sb : SessLive b) (da : D3 a) (db : D3 b)
    (d1ab : a.sendSt = .closed → CMsg.close ∈ ab ∨ b.recvSt = .closePending ∨ b.recvSt = .closed)
    (d1ba : b.sendSt = .closed → CMsg.close ∈ ba ∨ a.recvSt = .closePending ∨ a.recvSt = .closed)
    (d5a : a.recvSt = .closed → 0 < ca ∨ cleaned a) (d5b : b.recvSt = .closed → 0 < cb ∨ cleaned b)
    (d9a : 0 < ca → a.recvSt = .closed) (d9b : 0 < cb → b.recvSt = .closed) : HInv h := by
  subst e1 e2 e3 e4 e5 e6
  exact ⟨la, lb, sa, sb, da, db, d1ab, d1ba, d5a, d5b, d9a, d9b⟩

theorem put_true (h : HS) (r : R) :
    (h.put true r).a = r.c ∧ (h.put true r).b = h.b ∧ (h.put true r).ab = h.ab ++ sentMsgs r.acts ∧
    (h.put true r).ba = h.ba ∧ (h.put true r).ca = h.ca + schedCount r.acts ∧ (h.put true r).cb = h.cb :=
  ⟨rfl, rfl, rfl, rfl, rfl, rfl⟩

theorem put_false (h : HS) (r : R) :
    (h.put false r).a = h.a ∧ (h.put false r).b = r.c ∧ (h.put false r).ab = h.ab ∧
    (h.put false r).ba = h.ba ++ sentMsgs r.acts ∧ (h.put false r).ca = h.ca ∧
    (h.put false r).cb = h.cb + schedCount r.acts :=
  ⟨rfl, rfl, rfl, rfl, rfl, rfl⟩

theorem cleanup_facts (e : Exc) (c : Chan) :
    sentMsgs (cleanup c e).acts = [] ∧ schedCount (cleanup c e).acts = 0 ∧
    (cleanup c e).c.sendSt = c.sendSt ∧ (cleanup c e).c.recvSt = c.recvSt := by
  simp only [cleanup, R.ok]
  refine ⟨?_, ?_, ?_, ?_⟩
  · split <;> simp [sentMsgs]
  · split <;> simp [schedCount]
  · (repeat' split) <;> rfl
  · (repeat' split) <;> rfl

theorem hinv_step (h : HS) (ev : HEv) (hi : HInv h) : HInv (h.step ev) := by
  unfold HS.step
  split
  · exact hi
  · rename_i hen
    cases ev with
    | app sideA o =>
      cases sideA with
      | true =>
        simp only
        have hf : HFx h.a { appOp h.a o with err := none } := hfx_clearErr (appOp_hfx o h.a)
        obtain ⟨s1, s2, s3, s5, s6⟩ := side_step (out := h.ab) (n := h.ca) (pr := h.b.recvSt)
          hf (appOp_d3 o h.a) hi.la hi.da hi.d1ab hi.d5a hi.d9a
        obtain ⟨p1, p2, p3, p4, p5, p6⟩ := put_true h { appOp h.a o with err := none }
        exact hinv_of _ _ _ _ _ _ p1 p2 p3 p4 p5 p6 s1 hi.lb (sessLive_step hf hi.sa) hi.sb s2 hi.db s3
          (peer_view hf hi.d1ba) s5 hi.d5b s6 hi.d9b
      | false =>
        simp only
        have hf : HFx h.b { appOp h.b o with err := none } := hfx_clearErr (appOp_hfx o h.b)
        obtain ⟨s1, s2, s3, s5, s6⟩ := side_step (out := h.ba) (n := h.cb) (pr := h.a.recvSt)
          hf (appOp_d3 o h.b) hi.lb hi.db hi.d1ba hi.d5b hi.d9b
        obtain ⟨p1, p2, p3, p4, p5, p6⟩ := put_false h { appOp h.b o with err := none }
        exact hinv_of _ _ _ _ _ _ p1 p2 p3 p4 p5 p6 hi.la s1 hi.sa (sessLive_step hf hi.sb) hi.da s2
          (peer_view hf hi.d1ab) s3 hi.d5a s5 hi.d9a s6
    | deliver toB =>
      cases toB with
      | true =>
        simp only
        cases hab : h.ab with
        | nil => simp only; exact hi
        | cons m rest =>
          simp only
          obtain ⟨s1, s2, s3, s5, s6⟩ := side_step (out := h.ba) (n := h.cb) (pr := h.a.recvSt)
            (processMsg_hfx m h.b) (processMsg_d3 m h.b) hi.lb hi.db hi.d1ba hi.d5b hi.d9b
          obtain ⟨p1, p2, p3, p4, p5, p6⟩ := put_false ({ h with ab := rest } : HS) (processMsg h.b m)
          exact hinv_of _ _ _ _ _ _ p1 p2 p3 p4 p5 p6 hi.la s1 hi.sa (sessLive_step (processMsg_hfx m h.b) hi.sb) hi.da s2
            (consumed_view hi.sb (by rw [← hab]; exact hi.d1ab)) s3 hi.d5a s5 hi.d9a s6
      | false =>
        simp only
        cases hba : h.ba with
        | nil => simp only; exact hi
        | cons m rest =>
          simp only
          obtain ⟨s1, s2, s3, s5, s6⟩ := side_step (out := h.ab) (n := h.ca) (pr := h.b.recvSt)
            (processMsg_hfx m h.a) (processMsg_d3 m h.a) hi.la hi.da hi.d1ab hi.d5a hi.d9a
          obtain ⟨p1, p2, p3, p4, p5, p6⟩ := put_true ({ h with ba := rest } : HS) (processMsg h.a m)
          exact hinv_of _ _ _ _ _ _ p1 p2 p3 p4 p5 p6 s1 hi.lb (sessLive_step (processMsg_hfx m h.a) hi.sa) hi.sb s2 hi.db s3
            (consumed_view hi.sa (by rw [← hba]; exact hi.d1ba)) s5 hi.d5b s6 hi.d9b
    | cleanup sideA =>
      cases sideA with
      | true =>
        simp only
        have hpos : 0 < h.ca := by
          have : h.enabled (.cleanup true) = true := by simpa using hen
          simp [HS.enabled] at this; exact this.2
        have hrc := hi.d9a hpos
        have hsc := hi.la.d2 (Or.inr hrc)
        obtain ⟨f1, f2, f3, f4⟩ := cleanup_facts .clean h.a
        obtain ⟨p1, p2, p3, p4, p5, p6⟩ := put_true ({ h with ca := h.ca - 1 } : HS) (cleanup h.a .clean)
        refine hinv_of _ _ _ _ _ _ p1 p2 p3 p4 p5 p6 ⟨fun _ => by rw [f3]; exact hsc, fun hn => ?_⟩ hi.lb
          (fun hn => absurd (f4.trans hrc) hn) hi.sb
          (cleanup_d3 .clean h.a hi.da) hi.db ?_ ?_ (fun _ => Or.inr (cleanup_cleaned .clean h.a)) hi.d5b ?_ hi.d9b
        · rw [f3] at hn; exact absurd hsc hn
        · intro hs; rw [f1, List.append_nil]; exact hi.d1ab (by rw [← f3]; exact hs)
        · intro hs; rw [f4]; exact hi.d1ba hs
        · intro _; rw [f4]; exact hrc
      | false =>
        simp only
        have hpos : 0 < h.cb := by
          have : h.enabled (.cleanup false) = true := by simpa using hen
          simp [HS.enabled] at this; exact this.2
        have hrc := hi.d9b hpos
        have hsc := hi.lb.d2 (Or.inr hrc)
        obtain ⟨f1, f2, f3, f4⟩ := cleanup_facts .clean h.b
        obtain ⟨p1, p2, p3, p4, p5, p6⟩ := put_false ({ h with cb := h.cb - 1 } : HS) (cleanup h.b .clean)
        refine hinv_of _ _ _ _ _ _ p1 p2 p3 p4 p5 p6 hi.la ⟨fun _ => by rw [f3]; exact hsc, fun hn => ?_⟩
          hi.sa (fun hn => absurd (f4.trans hrc) hn) hi.da
          (cleanup_d3 .clean h.b hi.db) ?_ ?_ hi.d5a (fun _ => Or.inr (cleanup_cleaned .clean h.b)) hi.d9a ?_
        · rw [f3] at hn; exact absurd hsc hn
        · intro hs; rw [f4]; exact hi.d1ab hs
        · intro hs; rw [f1, List.append_nil]; exact hi.d1ba (by rw [← f3]; exact hs)
        · intro _; rw [f4]; exact hrc

theorem hinv_run (evs : List HEv) (h : HS) (hi : HInv h) : HInv (h.run evs) := by
  induction evs generalizing h with
  | nil => exact hi
  | cons ev rest ih => exact ih _ (hinv_step h ev hi)

/-! ### the handshake started from ANY phase in which both directions are open -/

/-- a channel pair in ANY phase of its life in which both directions are open: established, or still starting up
    (`paused = .starting`, `create()` suspended on an outstanding request, the server's session not started) -/
structure BothOpen (a b : Chan) : Prop where
  aS : a.sendSt = .opn
  aR : a.recvSt = .opn
  aC : a.sendChan.isSome = true
  aI : CInv a
  bS : b.sendSt = .opn
  bR : b.recvSt = .opn
  bC : b.sendChan.isSome = true
  bI : CInv b
  -- the session objects are attached (`connection_made` has run on both ends)
  aSs : a.session = true
  bSs : b.session = true

def HS.ofPair (a b : Chan) : HS := { a := a, b := b }

theorem hinv_ofPair (a b : Chan) (h : BothOpen a b) : HInv (HS.ofPair a b) := by
  obtain ⟨h1, h2, h3, _, h5, h6, h7, _, h9, h10⟩ := h
  constructor <;> simp [HS.ofPair, D3, SessLive, h1, h2, h5, h6, h9, h10]
  · constructor <;> simp [h1, h2, h3]
  · constructor <;> simp [h5, h6, h7]

theorem cinv_step (h : HS) (ev : HEv) (ha : CInv h.a) (hb : CInv h.b) : CInv (h.step ev).a ∧ CInv (h.step ev).b := by
  unfold HS.step
  split
  · exact ⟨ha, hb⟩
  · cases ev with
    | app sideA o =>
      cases sideA with
      | true => exact ⟨appOp_inv o h.a ha, hb⟩
      | false => exact ⟨ha, appOp_inv o h.b hb⟩
    | deliver toB =>
      cases toB with
      | true =>
        simp only
        cases hab : h.ab with
        | nil => exact ⟨ha, hb⟩
        | cons m rest => exact ⟨ha, processMsg_inv m h.b hb⟩
      | false =>
        simp only
        cases hba : h.ba with
        | nil => exact ⟨ha, hb⟩
        | cons m rest => exact ⟨processMsg_inv m h.a ha, hb⟩
    | cleanup sideA =>
      cases sideA with
      | true => exact ⟨cleanup_inv .clean h.a ha, hb⟩
      | false => exact ⟨ha, cleanup_inv .clean h.b hb⟩

theorem cinv_run (evs : List HEv) (h : HS) (ha : CInv h.a) (hb : CInv h.b) :
    CInv (h.run evs).a ∧ CInv (h.run evs).b := by
  induction evs generalizing h with
  | nil => exact ⟨ha, hb⟩
  | cons ev rest ih =>
    have := cinv_step h ev ha hb
    exact ih _ this.1 this.2

end AsyncsshModel.Lifecycle
