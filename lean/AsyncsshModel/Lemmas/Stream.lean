import AsyncsshModel.Model.Stream
/-
  Helper lemmas for property C19 (stream reads): the abstraction of a reader's situation as the byte stream
  still to come (`pend s ++ sdata sched`), the invariant under which the abstraction is faithful, and the
  behaviour of `read` on it.  The search-window lemmas for `readuntil` are in Lemmas/StreamUntil.lean.
-/
namespace AsyncsshModel.Stream

open AsyncsshModel

set_option linter.unusedSimpArgs false

macro "triv" : tactic => `(tactic| first | rfl | trivial | assumption)

/-- the data bytes of a receive buffer, in order -/
def dataOf : List Item → Bytes
  | [] => []
  | .data b :: r => b ++ dataOf r
  | .exc _ :: r => dataOf r

/-- only non-empty data chunks (no exception markers) -/
def PureData (l : List Item) : Prop := ∀ it ∈ l, ∃ b, it = .data b ∧ b ≠ []

/-- bytes received but not yet read: session buffer, then the channel queue -/
def pend (s : St) : Bytes := dataOf s.buf ++ s.chanQ.flatten

/-- EOF has been received by the channel (handed to the session or still queued behind data) -/
def eofPend (s : St) : Bool := s.eof || s.chanEof

structure Inv (s : St) : Prop where
  pure : PureData s.buf
  qne : ∀ b ∈ s.chanQ, b ≠ []
  len : s.bufLen = ((dataOf s.buf).length : Int)
  unpaused : s.paused = false → s.chanQ = [] ∧ s.chanEof = false

/-- a well-behaved peer: only data, then at most one EOF, then nothing (the flag: EOF already seen) -/
def CleanFrom : Bool → List Arrival → Prop
  | _, [] => True
  | false, .data _ :: r => CleanFrom false r
  | false, .eof :: r => CleanFrom true r
  | _, _ => False

def adata : List Arrival → Bytes
  | [] => []
  | .data b :: r => b ++ adata r
  | _ :: r => adata r

def hasEof : List Arrival → Bool
  | [] => false
  | .eof :: _ => true
  | _ :: r => hasEof r

/-- the schedule is what a well-behaved peer can still send to a reader in state `s` -/
def Clean (s : St) (sched : Sched) : Prop := CleanFrom (eofPend s) sched.flatten

/-- data bytes still to arrive -/
def sdata (sched : Sched) : Bytes := adata sched.flatten

/-- an EOF has arrived or will arrive -/
def eofComing (s : St) (sched : Sched) : Bool := eofPend s || hasEof sched.flatten

theorem adata_append (a b : List Arrival) : adata (a ++ b) = adata a ++ adata b := by
  induction a with
  | nil => rfl
  | cons x xs ih => cases x <;> simp [adata, ih]

theorem hasEof_append (a b : List Arrival) : hasEof (a ++ b) = (hasEof a || hasEof b) := by
  induction a with
  | nil => rfl
  | cons x xs ih => cases x <;> simp [hasEof, ih]

theorem dataOf_append (a b : List Item) : dataOf (a ++ b) = dataOf a ++ dataOf b := by
  induction a with
  | nil => rfl
  | cons x xs ih => cases x <;> simp [dataOf, ih]

theorem CleanFrom_true {l : List Arrival} (h : CleanFrom true l) : l = [] := by
  cases l with
  | nil => rfl
  | cons x xs => simp [CleanFrom] at h

theorem sdata_cons (g : List Arrival) (rest : Sched) : sdata (g :: rest) = adata g ++ sdata rest := by
  simp [sdata, adata_append]

/-! ### arrivals -/

theorem PureData_append {a b : List Item} (ha : PureData a) (hb : PureData b) : PureData (a ++ b) := by
  intro it hit
  rcases List.mem_append.mp hit with h | h
  · exact ha it h
  · exact hb it h

theorem PureData_single {b : Bytes} (hb : b ≠ []) : PureData [.data b] := by
  intro it hit
  simp at hit
  exact ⟨b, hit, hb⟩

theorem deliver_inv {s : St} (hs : Inv s) {b : Bytes} (hb : b ≠ []) (hq : s.chanQ = []) (he : s.chanEof = false) :
    Inv (deliver s b) ∧ pend (deliver s b) = pend s ++ b ∧ eofPend (deliver s b) = eofPend s
      ∧ (deliver s b).chanQ = [] := by
  unfold deliver
  simp only
  split
  · refine ⟨⟨?_, ?_, ?_, ?_⟩, ?_, ?_, ?_⟩
    · exact PureData_append hs.pure (PureData_single hb)
    · simpa using hs.qne
    · simp [dataOf_append, dataOf, hs.len]
    · intro h; simp at h
    · simp [pend, dataOf_append, dataOf, hq]
    · simp [eofPend]
    · simpa using hq
  · refine ⟨⟨?_, ?_, ?_, ?_⟩, ?_, ?_, ?_⟩
    · exact PureData_append hs.pure (PureData_single hb)
    · simpa using hs.qne
    · simp [dataOf_append, dataOf, hs.len]
    · intro _; exact ⟨hq, he⟩
    · simp [pend, dataOf_append, dataOf, hq]
    · simp [eofPend]
    · simpa using hq

/-- one arrival from a well-behaved peer keeps the abstraction exact -/
theorem arrive_clean {s : St} (hs : Inv s) (a : Arrival) (rest : List Arrival)
    (hc : CleanFrom (eofPend s) (a :: rest)) :
    Inv (arrive s a) ∧ CleanFrom (eofPend (arrive s a)) rest ∧ pend (arrive s a) = pend s ++ adata [a]
      ∧ eofPend (arrive s a) = (eofPend s || hasEof [a]) := by
  cases hep : eofPend s with
  | true => rw [hep] at hc; simp [CleanFrom] at hc
  | false =>
    rw [hep] at hc
    have he1 : s.eof = false := by simp [eofPend] at hep; exact hep.1
    have he2 : s.chanEof = false := by simp [eofPend] at hep; exact hep.2
    cases a with
    | data b =>
      simp only [CleanFrom] at hc
      unfold arrive
      by_cases hb : b.isEmpty
      · have : b = [] := by simpa using hb
        subst this
        simp [adata, hasEof, hep, hs, hc]
      · have hbne : b ≠ [] := by simpa using hb
        simp only [hb, Bool.false_eq_true, if_false]
        by_cases hp : s.paused
        · simp only [hp, if_true]
          refine ⟨⟨hs.pure, ?_, hs.len, ?_⟩, ?_, ?_, ?_⟩
          · intro x hx
            rcases List.mem_append.mp hx with h | h
            · exact hs.qne x h
            · simp at h; subst h; exact hbne
          · intro h; simp at h
          · simpa [eofPend, he1, he2] using hc
          · simp [pend, adata]
          · simp [eofPend, hasEof, he1, he2]
        · have hp' : s.paused = false := by simpa using hp
          simp only [hp', Bool.false_eq_true, if_false]
          obtain ⟨hq, _⟩ := hs.unpaused hp'
          obtain ⟨h1, h2, h3, _⟩ := deliver_inv hs hbne hq he2
          refine ⟨h1, ?_, ?_, ?_⟩
          · rw [h3, hep]; exact hc
          · simp [h2, adata]
          · simp [h3, hasEof, hep]
    | eof =>
      simp only [CleanFrom] at hc
      unfold arrive
      by_cases hq : s.chanQ.isEmpty
      · simp only [hq, if_true]
        refine ⟨⟨hs.pure, hs.qne, hs.len, ?_⟩, ?_, ?_, ?_⟩
        · intro h; exact hs.unpaused h
        · simpa [eofPend] using hc
        · simp [pend, adata]
        · simp [eofPend, hasEof]
      · simp only [hq, Bool.false_eq_true, if_false]
        refine ⟨⟨hs.pure, hs.qne, hs.len, ?_⟩, ?_, ?_, ?_⟩
        · intro h
          have := (hs.unpaused h).1
          simp [this] at hq
        · simpa [eofPend] using hc
        · simp [pend, adata]
        · simp [eofPend, hasEof]
    | feed b => simp [CleanFrom] at hc
    | exc e => simp [CleanFrom] at hc

/-- a group of arrivals from a well-behaved peer -/
theorem absorb_clean {s : St} (hs : Inv s) (g rest : List Arrival)
    (hc : CleanFrom (eofPend s) (g ++ rest)) :
    Inv (absorb s g) ∧ CleanFrom (eofPend (absorb s g)) rest ∧ pend (absorb s g) = pend s ++ adata g
      ∧ eofPend (absorb s g) = (eofPend s || hasEof g) := by
  induction g generalizing s with
  | nil => simp [absorb, adata, hasEof, hs]; exact hc
  | cons a as ih =>
    obtain ⟨h1, h2, h3, h4⟩ := arrive_clean hs a (as ++ rest) hc
    obtain ⟨i1, i2, i3, i4⟩ := ih h1 h2
    have : absorb s (a :: as) = absorb (arrive s a) as := rfl
    rw [this]
    refine ⟨i1, i2, ?_, ?_⟩
    · rw [i3, h3]
      have : adata (a :: as) = adata [a] ++ adata as := by
        rw [← adata_append]; rfl
      rw [this, List.append_assoc]
    · rw [i4, h4]
      have : hasEof (a :: as) = (hasEof [a] || hasEof as) := by
        rw [← hasEof_append]; rfl
      rw [this, Bool.or_assoc]


/-! ### the inner loop of `read` on a buffer of data chunks -/

/-- how many bytes a `read` asking for `n` takes out of `len` available ones (`n < 0`: all) -/
def takeCount (n : Int) (len : Nat) : Nat := if n < 0 then len else min n.toNat len

theorem PureData_cons {it : Item} {rest : List Item} (h : PureData (it :: rest)) :
    (∃ b, it = .data b ∧ b ≠ []) ∧ PureData rest :=
  ⟨h it (by simp), fun x hx => h x (by simp [hx])⟩

theorem readInner_spec (buf : List Item) (hp : PureData buf) (bl : Int) (acc : Bytes) (got : Bool) (n : Int) :
    (readInner buf bl acc got n).acc = acc ++ (dataOf buf).take (takeCount n (dataOf buf).length) ∧
    dataOf (readInner buf bl acc got n).buf = (dataOf buf).drop (takeCount n (dataOf buf).length) ∧
    PureData (readInner buf bl acc got n).buf ∧
    (readInner buf bl acc got n).bufLen = bl - (takeCount n (dataOf buf).length : Nat) ∧
    (readInner buf bl acc got n).n = n - (takeCount n (dataOf buf).length : Nat) ∧
    (readInner buf bl acc got n).brk = false ∧ (readInner buf bl acc got n).exc = none ∧
    ((readInner buf bl acc got n).n ≠ 0 → (readInner buf bl acc got n).buf = []) ∧
    (readInner buf bl acc got n).got = (got || decide (0 < takeCount n (dataOf buf).length)) := by
  induction buf generalizing bl acc got n with
  | nil =>
    have : takeCount n 0 = 0 := by unfold takeCount; split <;> simp
    simp [readInner, dataOf, this, PureData]
  | cons it rest ih =>
    obtain ⟨⟨b, rfl, hb⟩, hrest⟩ := PureData_cons hp
    have hbl : 0 < b.length := List.length_pos_iff.mpr hb
    simp only [dataOf]
    by_cases hn : n = 0
    · subst hn
      have : takeCount 0 (b ++ dataOf rest).length = 0 := by simp [takeCount]
      simp only [readInner, if_true, this]
      simp [dataOf]
      exact hp
    · by_cases hmid : 0 < n ∧ n < (b.length : Int)
      · have hk : takeCount n (b ++ dataOf rest).length = n.toNat := by
          unfold takeCount
          have : ¬ n < 0 := by omega
          simp only [this, if_false, List.length_append]
          omega
        have hle : n.toNat ≤ b.length := by omega
        simp only [readInner, hn, if_false, hmid, and_self, if_true, hk]
        refine ⟨?_, ?_, ?_, ?_, ?_, by trivial, by trivial, ?_, ?_⟩
        · rw [List.take_append_of_le_length hle]
        · simp only [dataOf]; rw [List.drop_append_of_le_length hle]
        · intro x hx
          simp at hx
          rcases hx with rfl | hx
          · refine ⟨_, rfl, ?_⟩
            intro h
            have := congrArg List.length h
            simp at this
            omega
          · exact hrest x hx
        · omega
        · omega
        · intro h; exact absurd rfl h
        · have : 0 < n.toNat := by omega
          simp [this]
      · simp only [readInner, hn, if_false, hmid]
        obtain ⟨i1, i2, i3, i4, i5, i6, i7, i8, i9⟩ :=
          ih hrest (bl - b.length) (acc ++ b) true (n - b.length)
        have hk : takeCount n (b ++ dataOf rest).length
            = b.length + takeCount (n - b.length) (dataOf rest).length := by
          unfold takeCount
          simp only [List.length_append]
          by_cases hneg : n < 0
          · have : n - (b.length : Int) < 0 := by omega
            simp [hneg, this]
          · have h2 : ¬ (n - (b.length : Int) < 0) := by omega
            simp only [hneg, h2, if_false]
            omega
        simp only [hk]
        refine ⟨?_, ?_, i3, ?_, ?_, i6, i7, i8, ?_⟩
        · rw [i1, List.take_length_add_append, List.append_assoc]
        · rw [i2, List.drop_length_add_append]
        · rw [i4]; push_cast; omega
        · rw [i5]; push_cast; omega
        · rw [i9]
          have : 0 < b.length + takeCount (n - ↑b.length) (dataOf rest).length := by omega
          simp [this]


theorem takeCount_le (n : Int) (len : Nat) : takeCount n len ≤ len := by
  unfold takeCount; split <;> omega

theorem takeCount_split (n : Int) (a c : Nat) :
    takeCount n (a + c) = takeCount n a + takeCount (n - (takeCount n a : Nat)) (a - takeCount n a + c) := by
  unfold takeCount
  by_cases h : n < 0
  · have h2 : n - (a : Int) < 0 := by omega
    simp only [h, if_true, h2]
    omega
  · have h2 : ¬ (n - ((min n.toNat a : Nat) : Int) < 0) := by omega
    simp only [h, if_false, h2]
    omega

/-! ### resuming a paused channel -/

theorem deliver_basic (s : St) (b : Bytes) :
    (deliver s b).buf = s.buf ++ [.data b] ∧ (deliver s b).bufLen = s.bufLen + b.length ∧
    (deliver s b).eof = s.eof ∧ (deliver s b).chanEof = s.chanEof ∧ (deliver s b).limit = s.limit ∧
    (deliver s b).chanQ = s.chanQ := by
  unfold deliver
  simp only
  split <;> simp

theorem flush_spec (q : List Bytes) (s : St) (hp : PureData s.buf) (hq : ∀ b ∈ q, b ≠ [])
    (hl : s.bufLen = ((dataOf s.buf).length : Int)) :
    PureData (flush s q).buf ∧ (∀ b ∈ (flush s q).chanQ, b ≠ []) ∧
    (flush s q).bufLen = ((dataOf (flush s q).buf).length : Int) ∧
    dataOf (flush s q).buf ++ (flush s q).chanQ.flatten = dataOf s.buf ++ q.flatten ∧
    ((flush s q).paused = false → (flush s q).chanQ = [] ∧ (flush s q).chanEof = false) ∧
    eofPend (flush s q) = eofPend s ∧ (flush s q).limit = s.limit ∧
    (s.paused = false → (flush s q).paused = true → (flush s q).chanQ.length < q.length) := by
  induction q generalizing s with
  | nil =>
    unfold flush
    simp only
    split
    · refine ⟨hp, by simp, hl, by simp, by simp, ?_, rfl, ?_⟩
      · simp [eofPend, *]
      · intro h1 h2; simp [h1] at h2
    · refine ⟨hp, by simp, hl, by simp, ?_, ?_, rfl, ?_⟩
      · intro _; simp_all
      · simp [eofPend]
      · intro h1 h2; simp [h1] at h2
  | cons b q ih =>
    unfold flush
    by_cases hpz : s.paused
    · simp only [hpz, if_true]
      refine ⟨hp, ?_, hl, by simp, ?_, by simp [eofPend], by trivial, ?_⟩
      · simpa using hq
      · intro h; simp at h
      · intro h; simp at h
    · simp only [hpz, Bool.false_eq_true, if_false]
      obtain ⟨d1, d2, d3, d4, d5, d6⟩ := deliver_basic s b
      have hbne : b ≠ [] := hq b (by simp)
      have hp' : PureData (deliver s b).buf := by
        rw [d1]; exact PureData_append hp (PureData_single hbne)
      have hl' : (deliver s b).bufLen = ((dataOf (deliver s b).buf).length : Int) := by
        rw [d1, d2, dataOf_append, hl]; simp [dataOf]
      obtain ⟨i1, i2, i3, i4, i5, i6, i7, _⟩ := ih (deliver s b) hp' (fun x hx => hq x (by simp [hx])) hl'
      refine ⟨i1, i2, i3, ?_, i5, ?_, ?_, ?_⟩
      · rw [i4, d1, dataOf_append]; simp [dataOf]
      · rw [i6]; simp [eofPend, d3, d4]
      · rw [i7, d5]
      · intro _ _
        have : (flush (deliver s b) q).chanQ.length ≤ q.length := by
          have := congrArg List.length i4
          simp only [List.length_append] at this
          -- the queue that is left is a part of `q`
          clear this
          exact flush_len_le q (deliver s b)
        simp; omega
where
  flush_len_le (q : List Bytes) (s : St) : (flush s q).chanQ.length ≤ q.length := by
    induction q generalizing s with
    | nil => unfold flush; simp only; split <;> simp
    | cons b q ih =>
      unfold flush
      split
      · simp
      · have := ih (deliver s b); simp; omega


theorem or_pos_add (g : Bool) (a b : Nat) :
    ((g || decide (0 < a)) || decide (0 < b)) = (g || decide (0 < a + b)) := by
  cases g
  · by_cases ha : 0 < a <;> by_cases hb : 0 < b <;> simp [ha, hb] <;> omega
  · simp

/-- bound on the number of resumptions inside one `readDrain` -/
def drainMeasure (s : St) : Nat := if s.paused then s.chanQ.length + 2 else 1

theorem drainMeasure_le_fuel (s : St) : drainMeasure s ≤ drainFuel s := by
  unfold drainMeasure drainFuel; split <;> omega

theorem maybeResume_spec (s : St) (hs : Inv s) :
    Inv (maybeResume s).1 ∧ pend (maybeResume s).1 = pend s ∧ eofPend (maybeResume s).1 = eofPend s ∧
    (maybeResume s).1.limit = s.limit ∧
    ((maybeResume s).2 = false → (maybeResume s).1 = s ∧ (s.paused = true → shouldPause s = true)) ∧
    ((maybeResume s).2 = true → drainMeasure (maybeResume s).1 + 1 ≤ drainMeasure s) := by
  unfold maybeResume
  by_cases hc : (s.paused && !shouldPause s) = true
  · simp only [hc, if_true]
    have hpz : s.paused = true := by simp at hc; exact hc.1
    obtain ⟨f1, f2, f3, f4, f5, f6, f7, f8⟩ :=
      flush_spec s.chanQ { s with paused := false } hs.pure hs.qne hs.len
    refine ⟨⟨f1, f2, f3, f5⟩, ?_, ?_, f7, by simp, ?_⟩
    · simpa [pend] using f4
    · rw [f6]; simp [eofPend]
    · intro _
      unfold drainMeasure
      simp only [hpz, if_true]
      split
      · rename_i h
        have := f8 rfl h
        omega
      · omega
  · simp only [hc, Bool.false_eq_true, if_false]
    refine ⟨hs, by triv, by triv, by triv, ?_, by simp⟩
    intro _
    refine ⟨by triv, ?_⟩
    intro hp
    simp [hp] at hc
    exact hc

/-- session state after the inner loop of `read` -/
def afterInner (s : St) (acc : Bytes) (got : Bool) (n : Int) : St :=
  { s with buf := (readInner s.buf s.bufLen acc got n).buf, bufLen := (readInner s.buf s.bufLen acc got n).bufLen }

theorem readDrain_succ (fuel : Nat) (s : St) (acc : Bytes) (got : Bool) (n : Int) (brk : Bool) :
    readDrain (fuel + 1) s acc got n brk =
      match (readInner s.buf s.bufLen acc got n).exc with
      | some e => ⟨afterInner s acc got n, (readInner s.buf s.bufLen acc got n).acc,
                   (readInner s.buf s.bufLen acc got n).got, (readInner s.buf s.bufLen acc got n).n,
                   brk || (readInner s.buf s.bufLen acc got n).brk, some e⟩
      | none =>
        if (maybeResume (afterInner s acc got n)).2 then
          readDrain fuel (maybeResume (afterInner s acc got n)).1 (readInner s.buf s.bufLen acc got n).acc
            (readInner s.buf s.bufLen acc got n).got (readInner s.buf s.bufLen acc got n).n
            (brk || (readInner s.buf s.bufLen acc got n).brk)
        else ⟨(maybeResume (afterInner s acc got n)).1, (readInner s.buf s.bufLen acc got n).acc,
              (readInner s.buf s.bufLen acc got n).got, (readInner s.buf s.bufLen acc got n).n,
              brk || (readInner s.buf s.bufLen acc got n).brk, none⟩ := by
  rfl

theorem readDrain_spec (fuel : Nat) (s : St) (hs : Inv s) (acc : Bytes) (got : Bool) (n : Int) (brk : Bool)
    (hf : drainMeasure s ≤ fuel) :
    (readDrain fuel s acc got n brk).exc = none ∧ (readDrain fuel s acc got n brk).brk = brk ∧
    (readDrain fuel s acc got n brk).acc = acc ++ (pend s).take (takeCount n (pend s).length) ∧
    pend (readDrain fuel s acc got n brk).st = (pend s).drop (takeCount n (pend s).length) ∧
    (readDrain fuel s acc got n brk).n = n - (takeCount n (pend s).length : Nat) ∧
    Inv (readDrain fuel s acc got n brk).st ∧
    eofPend (readDrain fuel s acc got n brk).st = eofPend s ∧
    (readDrain fuel s acc got n brk).st.limit = s.limit ∧
    (readDrain fuel s acc got n brk).got = (got || decide (0 < takeCount n (pend s).length)) ∧
    ((readDrain fuel s acc got n brk).n ≠ 0 →
      (readDrain fuel s acc got n brk).st.buf = [] ∧ (readDrain fuel s acc got n brk).st.chanQ = [] ∧
      (readDrain fuel s acc got n brk).st.paused = false) := by
  induction fuel generalizing s acc got n brk with
  | zero => unfold drainMeasure at hf; split at hf <;> omega
  | succ fuel ih =>
    obtain ⟨r1, r2, r3, r4, r5, r6, r7, r8, r9⟩ := readInner_spec s.buf hs.pure s.bufLen acc got n
    have hk1 := takeCount_le n (dataOf s.buf).length
    have hs1 : Inv (afterInner s acc got n) := by
      refine ⟨r3, hs.qne, ?_, hs.unpaused⟩
      show (readInner s.buf s.bufLen acc got n).bufLen = _
      rw [r4, hs.len]
      show _ = ((dataOf (readInner s.buf s.bufLen acc got n).buf).length : Int)
      rw [r2, List.length_drop]
      omega
    have hpend1 : pend (afterInner s acc got n)
        = (dataOf s.buf).drop (takeCount n (dataOf s.buf).length) ++ s.chanQ.flatten := by
      show dataOf (readInner s.buf s.bufLen acc got n).buf ++ s.chanQ.flatten = _
      rw [r2]
    have hmeas : drainMeasure (afterInner s acc got n) = drainMeasure s := rfl
    have heof1 : eofPend (afterInner s acc got n) = eofPend s := rfl
    have hlim1 : (afterInner s acc got n).limit = s.limit := rfl
    obtain ⟨m1, m2, m3, m4, m5, m6⟩ := maybeResume_spec _ hs1
    have hsplit := takeCount_split n (dataOf s.buf).length s.chanQ.flatten.length
    have hplen : (pend s).length = (dataOf s.buf).length + s.chanQ.flatten.length := by simp [pend]
    rw [readDrain_succ]
    simp only [r7]
    cases hres : (maybeResume (afterInner s acc got n)).2 with
    | false =>
      have hm := m5 hres
      simp only [Bool.false_eq_true, if_false, r6, Bool.or_false]
      rw [hm.1]
      by_cases hn0 : (readInner s.buf s.bufLen acc got n).n = 0
      · -- satisfied from the session buffer: nothing of the channel queue is needed
        have hk : takeCount n (pend s).length = takeCount n (dataOf s.buf).length := by
          rw [hplen, hsplit]
          have : n - (takeCount n (dataOf s.buf).length : Nat) = 0 := by rw [← r5]; exact hn0
          rw [this]
          simp [takeCount]
        rw [hk]
        refine ⟨by triv, by triv, ?_, ?_, r5, hs1, heof1, hlim1, r9, ?_⟩
        · rw [r1]; simp only [pend]; rw [List.take_append_of_le_length hk1]
        · rw [hpend1]; simp only [pend]; rw [List.drop_append_of_le_length hk1]
        · intro h; exact absurd hn0 h
      · -- not satisfied: the buffer is used up, and (reading not being resumed) so is the queue
        have hbuf := r8 hn0
        have hd : (dataOf s.buf).drop (takeCount n (dataOf s.buf).length) = [] := by
          rw [← r2, hbuf]; rfl
        have hkeq : takeCount n (dataOf s.buf).length = (dataOf s.buf).length := by
          have := congrArg List.length hd
          simp at this; omega
        have hnp : s.paused = false := by
          cases hp : s.paused with
          | false => rfl
          | true =>
            have h2 := hm.2 hp
            have h3 : (afterInner s acc got n).bufLen = 0 := by
              show (readInner s.buf s.bufLen acc got n).bufLen = 0
              rw [r4, hs.len, hkeq]; omega
            simp only [shouldPause, h3] at h2
            simp at h2
        have hq := (hs.unpaused hnp).1
        have hk : takeCount n (pend s).length = takeCount n (dataOf s.buf).length := by
          rw [hplen, hq]; simp
        rw [hk]
        refine ⟨by triv, by triv, ?_, ?_, r5, hs1, heof1, hlim1, r9, ?_⟩
        · rw [r1]; simp [pend, hq]
        · rw [hpend1]; simp [pend, hq]
        · intro _; exact ⟨hbuf, hq, hnp⟩
    | true =>
      have hm := m6 hres
      simp only [if_true, r6, Bool.or_false]
      have hfuel : drainMeasure (maybeResume (afterInner s acc got n)).1 ≤ fuel := by omega
      obtain ⟨j1, j2, j3, j4, j5, j6, j7, j8, j9, j10⟩ :=
        ih _ m1 (readInner s.buf s.bufLen acc got n).acc (readInner s.buf s.bufLen acc got n).got
          (readInner s.buf s.bufLen acc got n).n brk hfuel
      rw [r5] at j1 j2 j3 j4 j5 j6 j7 j8 j9 j10 ⊢
      rw [m2, hpend1] at j3 j4 j5 j9
      have hlen2 : ((dataOf s.buf).drop (takeCount n (dataOf s.buf).length) ++ s.chanQ.flatten).length
          = (dataOf s.buf).length - takeCount n (dataOf s.buf).length + s.chanQ.flatten.length := by
        simp
      rw [hlen2] at j3 j4 j5 j9
      rw [hplen, hsplit]
      refine ⟨j1, j2, ?_, ?_, ?_, j6, ?_, ?_, ?_, j10⟩
      · rw [j3, r1, List.append_assoc]
        congr 1
        simp only [pend]
        rw [List.take_add, List.take_append_of_le_length hk1, List.drop_append_of_le_length hk1]
      · rw [j4]
        simp only [pend]
        rw [← List.drop_drop, List.drop_append_of_le_length hk1]
      · rw [j5]; push_cast; omega
      · rw [j7, m3]; exact heof1
      · rw [j8, m4]; exact hlim1
      · rw [j9, r9]
        exact or_pos_add _ _ _


/-! ### the whole `read` loop on a clean schedule -/

/-- one pass of the `while True` loop of `read` after the buffer has been drained -/
def loopBody (exact : Bool) (d : Drained) (sched : Sched) : Res × St × Sched :=
  match d.exc with
  | some e => (.raised e, d.st, sched)
  | none =>
    if d.n = 0 ∨ (0 < d.n ∧ d.got ∧ !exact) ∨ (d.n < 0 ∧ !d.st.buf.isEmpty) ∨ d.st.eof ∨ d.brk then
      if 0 < d.n ∧ exact then (.incomplete d.acc, d.st, sched) else (.ok d.acc, d.st, sched)
    else match sched with
      | [] => (.blocked, d.st, [])
      | g :: rest => readLoop exact (absorb d.st g) d.acc d.got d.n d.brk rest

theorem readLoop_unfold (exact : Bool) (s : St) (acc : Bytes) (got : Bool) (n : Int) (brk : Bool) (sched : Sched) :
    readLoop exact s acc got n brk sched = loopBody exact (readDrain (drainFuel s) s acc got n brk) sched := by
  rw [readLoop.eq_def]; rfl

theorem eofComing_cons (s : St) (g : List Arrival) (rest : Sched) :
    eofComing s (g :: rest) = (eofPend s || hasEof g || hasEof rest.flatten) := by
  simp [eofComing, hasEof_append, Bool.or_assoc]

theorem drain_facts (s : St) (hs : Inv s) (acc : Bytes) (got : Bool) (n : Int) :
    ∃ st, readDrain (drainFuel s) s acc got n false =
        ⟨st, acc ++ (pend s).take (takeCount n (pend s).length), got || decide (0 < takeCount n (pend s).length),
         n - (takeCount n (pend s).length : Nat), false, none⟩ ∧
      pend st = (pend s).drop (takeCount n (pend s).length) ∧ Inv st ∧ eofPend st = eofPend s ∧
      st.limit = s.limit ∧
      (n - (takeCount n (pend s).length : Nat) ≠ 0 → st.buf = [] ∧ st.chanQ = [] ∧ st.paused = false) := by
  obtain ⟨d1, d2, d3, d4, d5, d6, d7, d8, d9, d10⟩ :=
    readDrain_spec (drainFuel s) s hs acc got n false (drainMeasure_le_fuel s)
  generalize readDrain (drainFuel s) s acc got n false = d at *
  obtain ⟨dst, dacc, dgot, dn, dbrk, dexc⟩ := d
  simp only at d1 d2 d3 d4 d5 d6 d7 d8 d9 d10
  subst d1 d2 d3 d5 d9
  exact ⟨dst, rfl, d4, d6, d7, d8, d10⟩

/-- what is left for later calls -/
def Post (s' : St) (sched' : Sched) (rest : Bytes) (ec : Bool) : Prop :=
  Inv s' ∧ Clean s' sched' ∧ pend s' ++ sdata sched' = rest ∧ eofComing s' sched' = ec

def DetSpec (exact : Bool) (s : St) (sched : Sched) (acc : Bytes) (got : Bool) (n : Int) : Prop :=
  (n - (takeCount n (pend s ++ sdata sched).length : Nat) = 0 →
    ∃ s' sched', readLoop exact s acc got n false sched =
        (.ok (acc ++ (pend s ++ sdata sched).take (takeCount n (pend s ++ sdata sched).length)), s', sched') ∧
      Post s' sched' ((pend s ++ sdata sched).drop (takeCount n (pend s ++ sdata sched).length))
        (eofComing s sched)) ∧
  (n - (takeCount n (pend s ++ sdata sched).length : Nat) ≠ 0 → eofComing s sched = true →
    ∃ s' sched', readLoop exact s acc got n false sched =
        ((if 0 < n ∧ exact = true then .incomplete (acc ++ (pend s ++ sdata sched))
          else .ok (acc ++ (pend s ++ sdata sched))), s', sched') ∧
      Post s' sched' [] true) ∧
  (n - (takeCount n (pend s ++ sdata sched).length : Nat) ≠ 0 → eofComing s sched = false →
    (readLoop exact s acc got n false sched).1 = .blocked)

theorem det_satisfied (exact : Bool) (sched : Sched) (s : St) (hs : Inv s) (hc : Clean s sched)
    (acc : Bytes) (got : Bool) (n : Int) (hz : n - (takeCount n (pend s).length : Nat) = 0) :
    DetSpec exact s sched acc got n := by
  obtain ⟨st, hd, p1, p2, p3, p4, p5⟩ := drain_facts s hs acc got n
  have hk1 := takeCount_le n (pend s).length
  have hk : takeCount n (pend s ++ sdata sched).length = takeCount n (pend s).length := by
    rw [List.length_append, takeCount_split, hz]; simp [takeCount]
  unfold DetSpec
  rw [hk]
  refine ⟨?_, fun h => absurd hz h, fun h => absurd hz h⟩
  intro _
  refine ⟨st, sched, ?_, p2, ?_, ?_, ?_⟩
  · rw [readLoop_unfold, hd]
    simp [loopBody, hz, List.take_append_of_le_length hk1]
  · simpa [Clean, p3] using hc
  · rw [p1, List.drop_append_of_le_length hk1]
  · simp [eofComing, p3]

theorem det_unsat_step (exact : Bool) (sched : Sched) (s : St) (hs : Inv s)
    (acc : Bytes) (got : Bool) (n : Int) (hdet : exact = true ∨ n ≤ 0)
    (hnz : n - (takeCount n (pend s).length : Nat) ≠ 0) :
    takeCount n (pend s).length = (pend s).length ∧
    ∃ st got', Inv st ∧ eofPend st = eofPend s ∧ pend st = [] ∧
      readLoop exact s acc got n false sched =
        if eofPend s = true then
          ((if 0 < n ∧ exact = true then .incomplete (acc ++ pend s) else .ok (acc ++ pend s)), st, sched)
        else match sched with
          | [] => (.blocked, st, [])
          | g :: rest => readLoop exact (absorb st g) (acc ++ pend s) got' (n - ((pend s).length : Nat)) false rest := by
  obtain ⟨st, hd, p1, p2, p3, p4, p5⟩ := drain_facts s hs acc got n
  obtain ⟨e1, e2, e3⟩ := p5 hnz
  have hpd : pend st = [] := by simp [pend, e1, e2, dataOf]
  have hce := (p2.unpaused e3).2
  have heof : st.eof = eofPend s := by rw [← p3]; simp [eofPend, hce]
  have hall : takeCount n (pend s).length = (pend s).length := by
    have := congrArg List.length p1
    rw [hpd] at this
    simp at this
    have := takeCount_le n (pend s).length
    omega
  refine ⟨hall, st, (got || decide (0 < (pend s).length)), p2, p3, hpd, ?_⟩
  rw [readLoop_unfold, hd]
  rw [hall] at hnz ⊢
  have hposn : (0 < n - ((pend s).length : Nat)) ↔ 0 < n := by
    unfold takeCount at hall; split at hall <;> omega
  have hnoearly : ¬ (0 < n - ((pend s).length : Nat) ∧ (got || decide (0 < (pend s).length)) = true ∧ (!exact) = true) := by
    rintro ⟨h1, _, h3⟩
    rcases hdet with h | h
    · simp [h] at h3
    · have := hposn.mp h1; omega
  cases hep : eofPend s with
  | true =>
    simp only [loopBody, hnz, hnoearly, e1, heof, hep, List.isEmpty_nil, Bool.not_true, Bool.false_eq_true,
      and_false, false_or, or_true, if_true, hposn, List.take_length]
    by_cases hx : 0 < n ∧ exact = true <;> simp [hx]
  | false =>
    simp only [loopBody, hnz, hnoearly, e1, heof, hep, List.isEmpty_nil, Bool.not_true, Bool.false_eq_true,
      and_false, false_or, or_false, if_false, List.take_length]
    cases sched <;> rfl

theorem readLoop_det (exact : Bool) (sched : Sched) (s : St) (hs : Inv s) (hc : Clean s sched)
    (acc : Bytes) (got : Bool) (n : Int) (hdet : exact = true ∨ n ≤ 0) :
    DetSpec exact s sched acc got n := by
  induction sched generalizing s acc got n with
  | nil =>
    by_cases hz : n - (takeCount n (pend s).length : Nat) = 0
    · exact det_satisfied exact [] s hs hc acc got n hz
    · obtain ⟨hall, st, got', q1, q2, q3, q4⟩ := det_unsat_step exact [] s hs acc got n hdet hz
      have hS : pend s ++ sdata [] = pend s := by simp [sdata, adata]
      unfold DetSpec
      rw [hS]
      refine ⟨fun h => absurd h hz, ?_, ?_⟩
      · intro _ hec
        have hep : eofPend s = true := by simpa [eofComing, hasEof] using hec
        refine ⟨st, [], ?_, q1, ?_, ?_, ?_⟩
        · rw [q4]; simp [hep]
        · simp [Clean, CleanFrom]
        · simp [q3, sdata, adata]
        · simp [eofComing, q2, hep]
      · intro _ hec
        have hep : eofPend s = false := by simpa [eofComing, hasEof] using hec
        rw [q4]; simp [hep]
  | cons g rest ih =>
    by_cases hz : n - (takeCount n (pend s).length : Nat) = 0
    · exact det_satisfied exact (g :: rest) s hs hc acc got n hz
    · obtain ⟨hall, st, got', q1, q2, q3, q4⟩ := det_unsat_step exact (g :: rest) s hs acc got n hdet hz
      cases hep : eofPend s with
      | true =>
        have hfl : (g :: rest).flatten = [] := by
          have : CleanFrom true (g :: rest).flatten := by simpa [Clean, hep] using hc
          exact CleanFrom_true this
        have hD : sdata (g :: rest) = [] := by simp [sdata, hfl, adata]
        have hec : eofComing s (g :: rest) = true := by simp [eofComing, hep]
        unfold DetSpec
        rw [hD, List.append_nil]
        refine ⟨fun h => absurd h hz, ?_, fun _ h => by simp [hec] at h⟩
        intro _ _
        refine ⟨st, g :: rest, ?_, q1, ?_, ?_, ?_⟩
        · rw [q4]; simp [hep]
        · simpa [Clean, q2] using hc
        · rw [hD, q3]; rfl
        · simp [eofComing, q2, hep]
      | false =>
        rw [hep] at q4
        simp only [Bool.false_eq_true, if_false] at q4
        have hcl : CleanFrom (eofPend st) (g ++ rest.flatten) := by
          simpa [Clean, q2] using hc
        obtain ⟨a1, a2, a3, a4⟩ := absorb_clean q1 g rest.flatten hcl
        have hdet' : exact = true ∨ n - ((pend s).length : Nat) ≤ 0 := by
          rcases hdet with h | h
          · exact Or.inl h
          · right; omega
        have hi := ih (absorb st g) a1 a2 (acc ++ pend s) got' (n - ((pend s).length : Nat)) hdet'
        have hS' : pend (absorb st g) ++ sdata rest = sdata (g :: rest) := by
          rw [a3, q3, sdata_cons]; rfl
        have hec' : eofComing (absorb st g) rest = eofComing s (g :: rest) := by
          rw [eofComing_cons, ← q2]; simp [eofComing, a4, Bool.or_assoc]
        unfold DetSpec at hi ⊢
        rw [hS', hec'] at hi
        obtain ⟨i1, i2, i3⟩ := hi
        have hk : takeCount n (pend s ++ sdata (g :: rest)).length
            = (pend s).length + takeCount (n - ((pend s).length : Nat)) (sdata (g :: rest)).length := by
          rw [List.length_append, takeCount_split, hall]; simp
        have hnn : n - ((takeCount n (pend s ++ sdata (g :: rest)).length : Nat) : Int)
            = n - ((pend s).length : Nat)
              - ((takeCount (n - ((pend s).length : Nat)) (sdata (g :: rest)).length : Nat) : Int) := by
          rw [hk]; push_cast; omega
        have hpos2 : (0 < n - ((pend s).length : Nat) ∧ exact = true) ↔ (0 < n ∧ exact = true) := by
          have : (0 < n - ((pend s).length : Nat)) ↔ 0 < n := by
            have hz' := hz
            rw [hall] at hz'
            unfold takeCount at hall; split at hall <;> omega
          rw [this]
        rw [hnn, hk, q4]
        refine ⟨?_, ?_, ?_⟩
        · intro h
          obtain ⟨s', sched', j1, j2, j3, j4, j5⟩ := i1 h
          refine ⟨s', sched', ?_, j2, j3, ?_, j5⟩
          · rw [j1, List.take_length_add_append, List.append_assoc]
          · rw [j4, List.drop_length_add_append]
        · intro h hec
          obtain ⟨s', sched', j1, j2⟩ := i2 h hec
          refine ⟨s', sched', ?_, j2⟩
          rw [j1, List.append_assoc]
          simp only [hpos2]
        · intro h hec
          exact i3 h hec

theorem some_step_data (sched : Sched) (s : St) (hs : Inv s) (n : Int) (hn : 0 < n) (hP : pend s ≠ []) :
    0 < takeCount n (pend s).length ∧
    ∃ st, readLoop false s [] false n false sched
        = (.ok ((pend s).take (takeCount n (pend s).length)), st, sched) ∧
      Inv st ∧ eofPend st = eofPend s ∧ pend st = (pend s).drop (takeCount n (pend s).length) := by
  obtain ⟨st, hd, p1, p2, p3, p4, p5⟩ := drain_facts s hs [] false n
  have hlen : 0 < (pend s).length := List.length_pos_iff.mpr hP
  have hk : 0 < takeCount n (pend s).length := by
    unfold takeCount; split <;> omega
  have hle := takeCount_le n (pend s).length
  have hkn : (takeCount n (pend s).length : Int) ≤ n := by
    unfold takeCount; split <;> omega
  refine ⟨hk, st, ?_, p2, p3, p1⟩
  rw [readLoop_unfold, hd]
  have hc : (n - (takeCount n (pend s).length : Nat) = 0 ∨ 0 < n - (takeCount n (pend s).length : Nat)) := by omega
  simp only [loopBody]
  rw [if_pos, if_neg]
  · simp
  · simp
  · rcases hc with h | h
    · exact Or.inl h
    · exact Or.inr (Or.inl ⟨h, by simp [hk], rfl⟩)

theorem some_step_empty (sched : Sched) (s : St) (hs : Inv s) (n : Int) (hn : 0 < n) (hP : pend s = []) :
    ∃ st, Inv st ∧ eofPend st = eofPend s ∧ pend st = [] ∧
      readLoop false s [] false n false sched =
        if eofPend s = true then (.ok [], st, sched)
        else match sched with
          | [] => (.blocked, st, [])
          | g :: rest => readLoop false (absorb st g) [] false n false rest := by
  obtain ⟨st, hd, p1, p2, p3, p4, p5⟩ := drain_facts s hs [] false n
  have hk : takeCount n (pend s).length = 0 := by
    rw [hP]; unfold takeCount; split <;> simp
  rw [hk] at hd p1 p5
  have hnz : n - ((0 : Nat) : Int) ≠ 0 := by omega
  obtain ⟨e1, e2, e3⟩ := p5 hnz
  have hpd : pend st = [] := by simp [pend, e1, e2, dataOf]
  have hce := (p2.unpaused e3).2
  have heof : st.eof = eofPend s := by rw [← p3]; simp [eofPend, hce]
  refine ⟨st, p2, p3, hpd, ?_⟩
  rw [readLoop_unfold, hd]
  have hn0 : ¬ (n - ((0 : Nat) : Int) = 0) := hnz
  have hnn : ¬ (n - ((0 : Nat) : Int) < 0) := by omega
  have hcond : ((n - ((0 : Nat) : Int) = 0 ∨ (0 < n - ((0 : Nat) : Int) ∧ (false || decide (0 < 0)) = true ∧ (!false) = true)
      ∨ (n - ((0 : Nat) : Int) < 0 ∧ (!st.buf.isEmpty) = true) ∨ st.eof = true ∨ false = true)) ↔ eofPend s = true := by
    rw [heof]
    constructor
    · rintro (h | ⟨_, h, _⟩ | ⟨h, _⟩ | h | h)
      · exact absurd h hn0
      · simp at h
      · exact absurd h hnn
      · exact h
      · simp at h
    · intro h; exact Or.inr (Or.inr (Or.inr (Or.inl h)))
  simp only [loopBody, hcond]
  cases hep : eofPend s with
  | true => simp [hP]
  | false => simp [hP] <;> (cases sched <;> rfl)

/-- `read(n)` with `n > 0`: some non-empty prefix of at most `n` bytes of the stream (empty only at EOF) -/
theorem readLoop_some (sched : Sched) (s : St) (hs : Inv s) (hc : Clean s sched) (n : Int) (hn : 0 < n) :
    ∃ r s' sched', readLoop false s [] false n false sched = (r, s', sched') ∧
      ((∃ j : Nat, r = .ok ((pend s ++ sdata sched).take j) ∧ (j : Int) ≤ n ∧ j ≤ (pend s ++ sdata sched).length ∧
          (0 < j ∨ (pend s ++ sdata sched = [] ∧ eofComing s sched = true)) ∧
          Post s' sched' ((pend s ++ sdata sched).drop j) (eofComing s sched))
       ∨ (r = .blocked ∧ pend s ++ sdata sched = [] ∧ eofComing s sched = false)) := by
  induction sched generalizing s with
  | nil =>
    have hS : pend s ++ sdata [] = pend s := by simp [sdata, adata]
    rw [hS]
    by_cases hP : pend s = []
    · obtain ⟨st, q1, q2, q3, q4⟩ := some_step_empty [] s hs n hn hP
      cases hep : eofPend s with
      | true =>
        refine ⟨.ok [], st, [], by rw [q4]; simp [hep], Or.inl ⟨0, by simp, by omega, by omega, ?_, q1, ?_, ?_, ?_⟩⟩
        · right; exact ⟨hP, by simp [eofComing, hep]⟩
        · simp [Clean, CleanFrom]
        · simp [q3, sdata, adata, hP]
        · simp [eofComing, q2]
      | false =>
        refine ⟨.blocked, st, [], by rw [q4]; simp [hep], Or.inr ⟨rfl, hP, by simp [eofComing, hep, hasEof]⟩⟩
    · obtain ⟨hk, st, q1, q2, q3, q4⟩ := some_step_data [] s hs n hn hP
      have hkn : (takeCount n (pend s).length : Int) ≤ n := by
        unfold takeCount; split <;> omega
      refine ⟨_, st, [], q1, Or.inl ⟨_, rfl, hkn, takeCount_le _ _, Or.inl hk, q2, ?_, ?_, ?_⟩⟩
      · simpa [Clean, q3] using hc
      · simp [q4, sdata, adata]
      · simp [eofComing, q3]
  | cons g rest ih =>
    by_cases hP : pend s = []
    · obtain ⟨st, q1, q2, q3, q4⟩ := some_step_empty (g :: rest) s hs n hn hP
      cases hep : eofPend s with
      | true =>
        have hfl : (g :: rest).flatten = [] := by
          have : CleanFrom true (g :: rest).flatten := by simpa [Clean, hep] using hc
          exact CleanFrom_true this
        have hD : sdata (g :: rest) = [] := by simp [sdata, hfl, adata]
        rw [hD, hP]
        refine ⟨.ok [], st, g :: rest, by rw [q4]; simp [hep], Or.inl ⟨0, by simp, by omega, by simp, ?_, q1, ?_, ?_, ?_⟩⟩
        · right; exact ⟨rfl, by simp [eofComing, hep]⟩
        · simpa [Clean, q2] using hc
        · simp [q3, hD]
        · simp [eofComing, q2]
      | false =>
        rw [hep] at q4
        simp only [Bool.false_eq_true, if_false] at q4
        have hcl : CleanFrom (eofPend st) (g ++ rest.flatten) := by
          simpa [Clean, q2] using hc
        obtain ⟨a1, a2, a3, a4⟩ := absorb_clean q1 g rest.flatten hcl
        obtain ⟨r, s', sched', i1, i2⟩ := ih (absorb st g) a1 a2
        have hS' : pend (absorb st g) ++ sdata rest = pend s ++ sdata (g :: rest) := by
          rw [a3, q3, sdata_cons, hP]; rfl
        have hec' : eofComing (absorb st g) rest = eofComing s (g :: rest) := by
          rw [eofComing_cons, ← q2]; simp [eofComing, a4, Bool.or_assoc]
        rw [hS', hec'] at i2
        exact ⟨r, s', sched', by rw [q4]; exact i1, i2⟩
    · obtain ⟨hk, st, q1, q2, q3, q4⟩ := some_step_data (g :: rest) s hs n hn hP
      have hkn : (takeCount n (pend s).length : Int) ≤ n := by
        unfold takeCount; split <;> omega
      have hle := takeCount_le n (pend s).length
      refine ⟨_, st, g :: rest, q1, Or.inl ⟨takeCount n (pend s).length, ?_, hkn, ?_, Or.inl hk, q2, ?_, ?_, ?_⟩⟩
      · rw [List.take_append_of_le_length hle]
      · simp; omega
      · simpa [Clean, q3] using hc
      · rw [q4, List.drop_append_of_le_length hle]
      · simp [eofComing, q3]

end AsyncsshModel.Stream
