import AsyncsshModel.Lemmas.ChannelHist
/-
  The two-endpoint composition: the per-direction invariant `DirInv` (link grammar, stream equation, prefix,
  window accounting), how a step of the sender / of the receiver preserves it, and the system invariant `Inv`
  preserved by every event (`inv_step`).
-/
namespace AsyncsshModel.Channel
open AsyncsshModel

/-! ### one direction of the composition -/

/-- Invariant of the direction sender `cs` → receiver `cr`: `fwd` = messages in flight to the receiver,
    `back` = messages in flight to the sender (they carry this direction's WINDOW_ADJUSTs). -/
structure DirInv (cs cr : Chan) (hs hr : Hist) (fwd back : List Msg) : Prop where
  link : LinkOK (rStage cr) (sStage cs) fwd
  stream : hr.appClosed = false →
    tag (dataOuts hr.dl) ++ tag cr.recvBuf ++ tag (dataOf fwd) ++ tag cs.sendBuf = tag hs.wr
  pre : ∃ rest, tag (dataOuts hr.dl) ++ tag cr.recvBuf ++ rest = tag hs.wr
  acct : ((bufBytes (dataOf fwd) + cs.sendWindow + bufBytes cr.recvBuf + adjustSum back : Nat) : Int)
          ≤ cr.recvWindow
  /-- with equality as long as the receiver's own CLOSE is not out (since fix ae15f0e also after its application
      closed: what it drops or discards from then on is given back as WINDOW_ADJUST at once) -/
  acctEq : cr.sendChanOpen = true →
    ((bufBytes (dataOf fwd) + cs.sendWindow + bufBytes cr.recvBuf + adjustSum back : Nat) : Int) = cr.recvWindow

/-- the write history after an event -/
def evWr (ev : Ev) (wr : Buf) : Buf :=
  match ev with
  | .write dt bs => wr ++ [(bs, dt)]
  | _ => wr

theorem sStage_two {c : Chan} (h : sStage c = 2) : c.sendState = .closed := by
  unfold sStage at h
  cases hs : c.sendState <;> simp_all

theorem evSendTag_other {ev : Ev} {c : Chan} (h1 : ev ≠ .recv .close) (h2 : ∀ dt bs, ev ≠ .write dt bs) :
    evSendTag ev c = tag c.sendBuf := by
  unfold evSendTag
  split
  · exact absurd rfl h1
  · rename_i dt bs; exact absurd rfl (h2 dt bs)
  · rfl

theorem dataOf_cons_nondata {m : Msg} {l : List Msg} (h : ∀ dt bs, m ≠ .data dt bs) : dataOf (m :: l) = dataOf l := by
  cases m with
  | data dt bs => exact absurd rfl (h dt bs)
  | _ => rfl

theorem adjustSum_cons_nonadj {m : Msg} {l : List Msg} (h : ∀ n, m ≠ .adjust n) : adjustSum (m :: l) = adjustSum l := by
  cases m with
  | adjust n => exact absurd rfl (h n)
  | _ => rfl

/-- the sender of a direction takes a step (possibly consuming the head of `back`) -/
theorem dir_sender {cs cs' cr : Chan} {hs hs' hr : Hist} {fwd backFull back' ms : List Msg} {os : List Out} {ev : Ev}
    (hd : DirInv cs cr hs hr fwd backFull) (hwf : WF cs) (hgr : GInv cr hr)
    (hrev : LinkOK (rStage cs) (sStage cr) backFull)
    (hstep : step cs ev = .ok (cs', ms, os))
    (hback : (∃ m, ev = .recv m ∧ backFull = m :: back') ∨ ((∀ m, ev ≠ .recv m) ∧ back' = backFull))
    (hwr : hs'.wr = evWr ev hs.wr) :
    DirInv cs' cr hs' hr (fwd ++ ms) back' := by
  have ss := step_sum cs cs' ev ms os hwf hstep
  -- adjust bookkeeping on `back`
  have hadj : adjustSum backFull = adjustSum back' + evAdjust ev := by
    rcases hback with ⟨m, rfl, rfl⟩ | ⟨hne, rfl⟩
    · cases m <;> simp [adjustSum, evAdjust]; omega
    · unfold evAdjust
      split
      · rename_i n; exact absurd rfl (hne _)
      · rfl
  have hwin := ss.sendWindow
  have hbytes : bufBytes (dataOf (fwd ++ ms)) = bufBytes (dataOf fwd) + bufBytes (dataOf ms) := by
    rw [dataOf_append, bufBytes_append]
  refine ⟨LinkOK_append _ _ _ _ _ hd.link ss.path, ?_, ?_, ?_, ?_⟩
  · intro hac
    have hold := hd.stream hac
    rw [dataOf_append, tag_append]
    have hs1 : tag (dataOuts hr.dl) ++ tag cr.recvBuf ++ (tag (dataOf fwd) ++ tag (dataOf ms)) ++ tag cs'.sendBuf =
        tag (dataOuts hr.dl) ++ tag cr.recvBuf ++ tag (dataOf fwd) ++ (tag (dataOf ms) ++ tag cs'.sendBuf) := by
      simp [List.append_assoc]
    rw [hs1, ss.sendStream, hwr]
    by_cases hcl : ev = .recv .close
    · subst hcl
      -- the peer closed: it is closing, hence (not by its application) it has received our CLOSE already
      rcases hback with ⟨m, hm, hbf⟩ | ⟨hne, _⟩
      · cases hm
        rw [hbf] at hrev
        simp only [LinkOK] at hrev
        have hsl : SendLate cr := Or.inr (sStage_two hrev.2.2)
        rcases hgr.closedBy hsl with h1 | h1
        · rw [hac] at h1; cases h1
        · have hl := hd.link
          rw [h1] at hl
          obtain ⟨hf, hss⟩ := LinkOK_two _ _ hl
          have hsb : cs.sendBuf = [] := hwf.s.drained (Or.inr (sStage_two hss))
          rw [hsb] at hold
          simpa [evSendTag, evWr] using hold
      · exact absurd rfl (hne _)
    · cases ev with
      | write dt bs =>
        simp only [evSendTag, evWr]
        rw [tag_append, ← hold]
        simp [List.append_assoc]
      | recv m =>
        rw [evSendTag_other hcl (by intro dt bs h; cases h)]; exact hold
      | _ => exact hold
  · obtain ⟨rest, hrest⟩ := hd.pre
    rw [hwr]
    cases ev with
    | write dt bs => exact ⟨rest ++ tag [(bs, dt)], by simp only [evWr]; rw [tag_append, ← hrest]; simp [List.append_assoc]⟩
    | _ => exact ⟨rest, hrest⟩
  · have := hd.acct
    rw [hbytes]; push_cast at this ⊢; omega
  · intro hl
    have := hd.acctEq hl
    rw [hbytes]; push_cast at this ⊢; omega

theorem evRecvTag_other {ev : Ev} {c : Chan} (h1 : ev ≠ .close) (h2 : ∀ dt bs, ev ≠ .recv (.data dt bs)) :
    evRecvTag ev c = tag c.recvBuf := by
  unfold evRecvTag
  split
  · rename_i dt bs; exact absurd rfl (h2 dt bs)
  · exact absurd rfl h1
  · rfl

theorem evCredit_other {ev : Ev} {c : Chan} (h1 : ev ≠ .close) (h2 : ∀ dt bs, ev ≠ .recv (.data dt bs)) :
    evCredit ev c = 0 := by
  unfold evCredit
  split
  · rename_i dt bs; exact absurd rfl (h2 dt bs)
  · exact absurd rfl h1
  · rfl

theorem not_sendLate_open {c : Chan} (hw : WFs c) (h : ¬ SendLate c) : c.sendChanOpen = true :=
  hw.chanOpen.mpr (fun hc => h (Or.inr hc))

/-- the receiver of a direction takes a step (possibly consuming the head of `fwd`) -/
theorem dir_receiver {cs cr cr' : Chan} {hs hr hr' : Hist} {fwdFull fwd' back ms : List Msg} {os : List Out} {ev : Ev}
    (hd : DirInv cs cr hs hr fwdFull back) (hwf : WF cr) (hgr : GInv cr hr)
    (hstep : step cr ev = .ok (cr', ms, os))
    (hfwd : (∃ m, ev = .recv m ∧ fwdFull = m :: fwd') ∨ ((∀ m, ev ≠ .recv m) ∧ fwd' = fwdFull))
    (hdl : hr'.dl = hr.dl ++ os) (hac : hr'.appClosed = (hr.appClosed || decide (ev = .close))) :
    DirInv cs cr' hs hr' fwd' (back ++ ms) := by
  have ss := step_sum cr cr' ev ms os hwf hstep
  have hlate := step_late cr cr' ev ms os hwf hstep
  have hwf' := step_wf cr cr' ev ms os hwf hstep
  -- a DATA message at the head of the link finds a receiver that does not drop it, unless its application closed
  have hnodrop : ∀ dt bs, ev = .recv (.data dt bs) → SendLate cr → hr.appClosed = true := by
    intro dt bs hev hl
    rcases hgr.closedBy hl with h1 | h1
    · exact h1
    · rcases hfwd with ⟨m, hm, hf⟩ | ⟨hne, _⟩
      · rw [hev] at hm; cases hm
        have := hd.link
        rw [hf, h1] at this
        simp [LinkOK] at this
      · exact absurd hev (hne _)
  -- byte counts of the receive side
  have hq : bufBytes (dataOuts os) + bufBytes cr'.recvBuf = (evRecvTag ev cr).length := by
    have := congrArg List.length ss.recvStream
    simpa [List.length_append, ← bufBytes_eq] using this
  refine ⟨?_, ?_, ?_, ?_, ?_⟩
  · -- link grammar
    rw [ss.rstage]
    rcases hfwd with ⟨m, rfl, rfl⟩ | ⟨hne, rfl⟩
    · have hl := hd.link
      cases m with
      | data dt bs => simp only [LinkOK] at hl; simp only [evStage]; rw [hl.1]; exact hl.2
      | adjust n => simp only [LinkOK] at hl; simp only [evStage]; exact hl.2
      | eof => simp only [LinkOK] at hl; simp only [evStage]; exact hl.2
      | close =>
        simp only [LinkOK] at hl; simp only [evStage]
        obtain ⟨_, h2, h3⟩ := hl
        rw [h2, h3]; simp [LinkOK]
    · have : evStage ev (rStage cr) = rStage cr := by
        unfold evStage; split
        · exact absurd rfl (hne _)
        · exact absurd rfl (hne _)
        · rfl
      rw [this]; exact hd.link
  · -- stream equation
    intro hac'
    rw [hac] at hac'
    simp only [Bool.or_eq_false_iff, decide_eq_false_iff_not] at hac'
    obtain ⟨hac0, hncl⟩ := hac'
    have hold := hd.stream hac0
    rw [hdl, dataOuts_append, tag_append]
    have hs1 : tag (dataOuts hr.dl) ++ tag (dataOuts os) ++ tag cr'.recvBuf ++ tag (dataOf fwd') ++ tag cs.sendBuf =
        tag (dataOuts hr.dl) ++ (tag (dataOuts os) ++ tag cr'.recvBuf) ++ tag (dataOf fwd') ++ tag cs.sendBuf := by
      simp [List.append_assoc]
    rw [hs1, ss.recvStream]
    rcases hfwd with ⟨m, rfl, rfl⟩ | ⟨hne, rfl⟩
    · cases m with
      | data dt bs =>
        have hnl : ¬ SendLate cr := fun hl => by
          have := hnodrop dt bs rfl hl; rw [hac0] at this; cases this
        unfold SendLate at hnl
        simp only [evRecvTag, hnl, if_false, dataOf] at hold ⊢
        rw [← hold]; simp [List.append_assoc]
      | adjust n => rw [evRecvTag_other (by intro h; cases h) (by intro dt bs h; cases h)]; exact hold
      | eof => rw [evRecvTag_other (by intro h; cases h) (by intro dt bs h; cases h)]; exact hold
      | close => rw [evRecvTag_other (by intro h; cases h) (by intro dt bs h; cases h)]; exact hold
    · rw [evRecvTag_other hncl (by intro dt bs h; exact hne _ h)]; exact hold
  · -- delivered ++ buffered is a prefix of what was written
    rw [hdl, dataOuts_append, tag_append]
    obtain ⟨rest, hrest⟩ := hd.pre
    by_cases hdata : ∃ dt bs, ev = .recv (.data dt bs) ∧ ¬ SendLate cr
    · obtain ⟨dt, bs, hev, hnl⟩ := hdata
      have hac0 : hr.appClosed = false := by
        cases h : hr.appClosed
        · rfl
        · exact absurd (hgr.closedApp h) hnl
      have hold := hd.stream hac0
      rcases hfwd with ⟨m, hm, hf⟩ | ⟨hne, _⟩
      · rw [hev] at hm; cases hm
        refine ⟨tag (dataOf fwd') ++ tag cs.sendBuf, ?_⟩
        have h1 := ss.recvStream
        unfold SendLate at hnl
        rw [hev] at h1
        simp only [evRecvTag, hnl, if_false] at h1
        rw [hf] at hold
        simp only [dataOf] at hold
        rw [← hold, List.append_assoc (tag (dataOuts hr.dl)), h1]
        simp [List.append_assoc]
      · exact absurd hev (hne _)
    · -- nothing new is accepted: what is delivered comes out of the buffer
      have hsub : ∃ r2, tag (dataOuts os) ++ tag cr'.recvBuf ++ r2 = tag cr.recvBuf := by
        rw [ss.recvStream]
        unfold evRecvTag
        split
        · rename_i dt bs
          split
          · exact ⟨[], by simp⟩
          · rename_i hnl; exact absurd ⟨dt, bs, rfl, hnl⟩ hdata
        · exact ⟨tag cr.recvBuf, by simp⟩
        · exact ⟨[], by simp⟩
      obtain ⟨r2, hr2⟩ := hsub
      refine ⟨r2 ++ rest, ?_⟩
      rw [← hrest, ← hr2]; simp [List.append_assoc]
  · -- window accounting (inequality)
    have hge := ss.winGe
    have hold := hd.acct
    rw [adjustSum_append]
    rcases hfwd with ⟨m, rfl, rfl⟩ | ⟨hne, rfl⟩
    · cases m with
      | data dt bs =>
        simp only [dataOf, bufBytes] at hold
        by_cases hsl : cr.sendState = .closePending ∨ cr.sendState = .closed
        · -- dropped: the bytes leave the link and their window goes back (at most) as WINDOW_ADJUST
          simp only [evRecvTag, evCredit, hsl, if_true, ← bufBytes_eq] at hq hge
          push_cast at hold hge ⊢; omega
        · simp only [evRecvTag, evCredit, hsl, if_false, List.length_append, ← bufBytes_eq, tag_cons, tag_nil,
            List.append_nil, List.length_map] at hq hge
          push_cast at hold hge ⊢; omega
      | adjust n =>
        rw [evRecvTag_other (by intro h; cases h) (by intro dt bs h; cases h), ← bufBytes_eq] at hq
        rw [evCredit_other (by intro h; cases h) (by intro dt bs h; cases h)] at hge
        simp only [dataOf] at hold; push_cast at hold hge ⊢; omega
      | eof =>
        rw [evRecvTag_other (by intro h; cases h) (by intro dt bs h; cases h), ← bufBytes_eq] at hq
        rw [evCredit_other (by intro h; cases h) (by intro dt bs h; cases h)] at hge
        simp only [dataOf] at hold; push_cast at hold hge ⊢; omega
      | close =>
        rw [evRecvTag_other (by intro h; cases h) (by intro dt bs h; cases h), ← bufBytes_eq] at hq
        rw [evCredit_other (by intro h; cases h) (by intro dt bs h; cases h)] at hge
        simp only [dataOf] at hold; push_cast at hold hge ⊢; omega
    · by_cases hcl : ev = .close
      · subst hcl
        -- the buffer is discarded and its window goes back (at most) as WINDOW_ADJUST
        simp only [evRecvTag, List.length_nil] at hq
        simp only [evCredit] at hge
        push_cast at hold hge ⊢; omega
      · rw [evRecvTag_other hcl (by intro dt bs h; exact hne _ h), ← bufBytes_eq] at hq
        rw [evCredit_other hcl (by intro dt bs h; exact hne _ h)] at hge
        push_cast at hold hge ⊢; omega
  · -- window accounting (equality while the receiver's CLOSE is not out: every byte it accepts is delivered,
    -- buffered, or — dropped / discarded after its application closed — given back as WINDOW_ADJUST at once)
    intro hop'
    have heq := ss.winEq hop'
    have hold := hd.acctEq (ss.openMono hop')
    rw [adjustSum_append]
    rcases hfwd with ⟨m, rfl, rfl⟩ | ⟨hne, rfl⟩
    · cases m with
      | data dt bs =>
        simp only [dataOf, bufBytes] at hold
        by_cases hsl : cr.sendState = .closePending ∨ cr.sendState = .closed
        · simp only [evRecvTag, evCredit, hsl, if_true, ← bufBytes_eq] at hq heq
          push_cast at hold heq ⊢; omega
        · simp only [evRecvTag, evCredit, hsl, if_false, List.length_append, ← bufBytes_eq, tag_cons, tag_nil,
            List.append_nil, List.length_map] at hq heq
          push_cast at hold heq ⊢; omega
      | adjust n =>
        rw [evRecvTag_other (by intro h; cases h) (by intro dt bs h; cases h), ← bufBytes_eq] at hq
        rw [evCredit_other (by intro h; cases h) (by intro dt bs h; cases h)] at heq
        simp only [dataOf] at hold; push_cast at hold heq ⊢; omega
      | eof =>
        rw [evRecvTag_other (by intro h; cases h) (by intro dt bs h; cases h), ← bufBytes_eq] at hq
        rw [evCredit_other (by intro h; cases h) (by intro dt bs h; cases h)] at heq
        simp only [dataOf] at hold; push_cast at hold heq ⊢; omega
      | close =>
        rw [evRecvTag_other (by intro h; cases h) (by intro dt bs h; cases h), ← bufBytes_eq] at hq
        rw [evCredit_other (by intro h; cases h) (by intro dt bs h; cases h)] at heq
        simp only [dataOf] at hold; push_cast at hold heq ⊢; omega
    · by_cases hcl : ev = .close
      · subst hcl
        simp only [evRecvTag, List.length_nil] at hq
        simp only [evCredit] at heq
        push_cast at hold heq ⊢; omega
      · rw [evRecvTag_other hcl (by intro dt bs h; exact hne _ h), ← bufBytes_eq] at hq
        rw [evCredit_other hcl (by intro dt bs h; exact hne _ h)] at heq
        push_cast at hold heq ⊢; omega

/-! ### the composition -/

/-- The invariant of the two-endpoint system. -/
structure Inv (s : Sys) : Prop where
  wf : ∀ x, WF (s.ep x)
  g : ∀ x, GInv (s.ep x) (s.hist x)
  dir : ∀ x, DirInv (s.ep x) (s.ep x.other) (s.hist x) (s.hist x.other) (s.link x.other) (s.link x)

@[simp] theorem Side.other_other (x : Side) : x.other.other = x := by cases x <;> rfl
theorem Side.other_ne (x : Side) : x.other ≠ x := by cases x <;> simp [Side.other]
theorem Side.eq_or_other (x z : Side) : x = z ∨ x = z.other := by cases x <;> cases z <;> simp [Side.other]

@[simp] theorem upd_same {α : Type} (f : Side → α) (x : Side) (v : α) : upd f x v x = v := by simp [upd]
@[simp] theorem upd_other {α : Type} (f : Side → α) (x : Side) (v : α) : upd f x v x.other = f x.other := by
  simp [upd, Side.other_ne]
@[simp] theorem upd_other' {α : Type} (f : Side → α) (x : Side) (v : α) : upd f x.other v x = f x := by
  have : x ≠ x.other := fun h => Side.other_ne x h.symm
  simp [upd, this]

theorem inv_step_core (s s' : Sys) (z : Side) (ev : Ev) (c' : Chan) (ms : List Msg) (os : List Out)
    (linkz' : List Msg) (h' : Hist) (hinv : Inv s)
    (hstep : step (s.ep z) ev = .ok (c', ms, os))
    (hlink : (∃ m, ev = .recv m ∧ s.link z = m :: linkz') ∨ ((∀ m, ev ≠ .recv m) ∧ linkz' = s.link z))
    (hwr : h'.wr = evWr ev (s.hist z).wr)
    (hdl : h'.dl = (s.hist z).dl ++ os)
    (hac : h'.appClosed = ((s.hist z).appClosed || decide (ev = .close)))
    (he1 : s'.ep z = c') (he2 : s'.ep z.other = s.ep z.other)
    (hl1 : s'.link z = linkz') (hl2 : s'.link z.other = s.link z.other ++ ms)
    (hh1 : s'.hist z = h') (hh2 : s'.hist z.other = s.hist z.other) : Inv s' := by
  have hwf' : WF c' := step_wf _ _ _ _ _ (hinv.wf z) hstep
  have hg' : GInv c' h' := ginv_step _ _ _ _ _ _ _ (hinv.wf z) (hinv.g z) hstep hdl hac
  refine ⟨?_, ?_, ?_⟩
  · intro x
    rcases Side.eq_or_other x z with rfl | rfl
    · rw [he1]; exact hwf'
    · rw [he2]; exact hinv.wf _
  · intro x
    rcases Side.eq_or_other x z with rfl | rfl
    · rw [he1, hh1]; exact hg'
    · rw [he2, hh2]; exact hinv.g _
  · intro x
    rcases Side.eq_or_other x z with rfl | rfl
    · rw [he1, he2, hh1, hh2, hl1, hl2]
      have hrev := (hinv.dir x.other).link
      rw [Side.other_other] at hrev
      exact dir_sender (hinv.dir x) (hinv.wf x) (hinv.g x.other) hrev hstep hlink hwr
    · rw [Side.other_other, he1, he2, hh1, hh2, hl1, hl2]
      have hd := hinv.dir z.other
      rw [Side.other_other] at hd
      exact dir_receiver hd (hinv.wf z) (hinv.g z) hstep hlink hdl hac

theorem AppEv.toEv_not_recv (e : AppEv) (m : Msg) : e.toEv ≠ .recv m := by cases e <;> simp [AppEv.toEv]

theorem AppEv.toEv_close (e : AppEv) : (e.toEv = .close) ↔ e = .close := by cases e <;> simp [AppEv.toEv]

/-- every event preserves the invariant -/
theorem inv_step (s s' : Sys) (ev : Event) (hinv : Inv s) (h : s.step ev = .ok s') : Inv s' := by
  cases ev with
  | app z e =>
    simp only [Sys.step] at h
    split at h
    · split at h
      · simp only [Except.ok.injEq] at h; subst h; exact hinv
      · simp at h
    · rename_i r hr
      simp only [Except.ok.injEq] at h
      subst h
      obtain ⟨c', ms, os⟩ := r
      refine inv_step_core s _ z e.toEv c' ms os (s.link z) _ hinv hr
        (Or.inr ⟨fun m => AppEv.toEv_not_recv e m, rfl⟩) ?_ ?_ ?_ ?_ ?_ ?_ ?_ rfl ?_
      · cases e <;> simp [Sys.apply, Hist.record, Hist.recordApp, AppEv.toEv, evWr]
      · cases e <;> simp [Sys.apply, Hist.record, Hist.recordApp]
      · cases e <;> simp [Sys.apply, Hist.record, Hist.recordApp, AppEv.toEv]
      · simp [Sys.apply]
      · simp [Sys.apply]
      · simp [Sys.apply]
      · simp [Sys.apply]
      · simp [Sys.apply]
  | deliver z =>
    simp only [Sys.step] at h
    split at h
    · simp only [Except.ok.injEq] at h; subst h; exact hinv
    · rename_i m rest hl
      split at h
      · simp at h
      · rename_i r hr
        simp only [Except.ok.injEq] at h
        subst h
        obtain ⟨c', ms, os⟩ := r
        refine inv_step_core s _ z (.recv m) c' ms os rest _ hinv hr
          (Or.inl ⟨m, rfl, hl⟩) ?_ ?_ ?_ ?_ ?_ ?_ ?_ rfl ?_
        · cases m <;> simp [Sys.apply, Hist.record, Hist.recordRecv, evWr]
        · cases m <;> simp [Sys.apply, Hist.record, Hist.recordRecv]
        · cases m <;> simp [Sys.apply, Hist.record, Hist.recordRecv]
        · simp [Sys.apply]
        · simp [Sys.apply]
        · simp [Sys.apply]
        · simp [Sys.apply]
        · simp [Sys.apply]

end AsyncsshModel.Channel
