import AsyncsshModel.Model.SshSig
import AsyncsshModel.Lemmas.Cert
/-
  Helper lemmas for Model/SshSig.lean: allowed-signers lookup, the signed-data encoding, blob layout.
-/
namespace AsyncsshModel.SshSig
open AsyncsshModel AsyncsshModel.CertWire AsyncsshModel.Cert

/-- a successful lookup names the entry that authorised the signer -/
theorem signersValidate_true {es : List Entry} {key : Bytes} {p ns : List Nat} {ca : Bool} {now : Q}
    (h : signersValidate es key p ns ca now = some true) :
    ∃ e ∈ es, e.ca = ca ∧ e.key = key ∧ e.matchOptions p ns now = some true := by
  induction es with
  | nil => simp [signersValidate] at h
  | cons e rest ih =>
    simp only [signersValidate] at h
    split at h
    · rename_i hk
      split at h
      · simp at h
      · rename_i hm
        exact ⟨e, by simp, hk.1, hk.2, hm⟩
      · obtain ⟨e', he', hh⟩ := ih h
        exact ⟨e', by simp [he'], hh⟩
    · obtain ⟨e', he', hh⟩ := ih h
      exact ⟨e', by simp [he'], hh⟩

/-- without any entry for this key (and role) nothing is authorised -/
theorem signersValidate_no_entry {es : List Entry} {key : Bytes} {p ns : List Nat} {ca : Bool} {now : Q}
    (h : ∀ e ∈ es, ¬ (e.ca = ca ∧ e.key = key)) : signersValidate es key p ns ca now = some false := by
  induction es with
  | nil => simp [signersValidate]
  | cons e rest ih =>
    have h1 : ¬ (e.ca = ca ∧ e.key = key) := h e (by simp)
    simp only [signersValidate, h1, if_false]
    exact ih (fun e' he' => h e' (by simp [he']))

/-- what `match_options` returning True means -/
theorem matchOptions_true_iff (e : Entry) (p ns : List Nat) (now : Q) :
    e.matchOptions p ns now = some true ↔
      patListMatch e.principals p = true ∧
      (e.namespaces = .absent ∨ ∃ pl, e.namespaces = .pats pl ∧ patListMatch pl ns = true) ∧
      (∀ a, e.validAfter = some a → Q.ltI now a = false) ∧
      (∀ b, e.validBefore = some b → Q.geI now b = false) := by
  unfold Entry.matchOptions
  cases hp : patListMatch e.principals p
  · simp
  · cases hn : e.namespaces with
    | flag => simp
    | absent =>
      cases ha : e.validAfter with
      | none =>
        cases hb : e.validBefore with
        | none => simp
        | some b => by_cases hq : Q.geI now b = true <;> simp [hq]
      | some a =>
        cases hb : e.validBefore with
        | none => by_cases hq : Q.ltI now a = true <;> simp [hq]
        | some b =>
          by_cases hq : Q.ltI now a = true <;> by_cases hq2 : Q.geI now b = true <;> simp [hq, hq2]
    | pats pl =>
      by_cases hm : patListMatch pl ns = true
      · cases ha : e.validAfter with
        | none =>
          cases hb : e.validBefore with
          | none => simp [hm]
          | some b => by_cases hq : Q.geI now b = true <;> simp [hq, hm]
        | some a =>
          cases hb : e.validBefore with
          | none => by_cases hq : Q.ltI now a = true <;> simp [hq, hm]
          | some b =>
            by_cases hq : Q.ltI now a = true <;> by_cases hq2 : Q.geI now b = true <;> simp [hq, hq2, hm]
      · simp [hm]

/-! ### signed data -/

theorem signedData_inj {magic ns h d ns' h' d' : Bytes}
    (l1 : ns.length < 2 ^ 32) (l2 : h.length < 2 ^ 32) (l3 : d.length < 2 ^ 32)
    (l1' : ns'.length < 2 ^ 32) (l2' : h'.length < 2 ^ 32) (l3' : d'.length < 2 ^ 32)
    (e : signedData magic ns h d = signedData magic ns' h' d') : ns = ns' ∧ h = h' ∧ d = d' := by
  unfold signedData at e
  simp only [List.append_assoc] at e
  have e1 := List.append_cancel_left e
  obtain ⟨hns, e2⟩ := sshString_append_inj l1 l1' e1
  obtain ⟨_, e3⟩ := sshString_append_inj (a := []) (b := []) (by simp) (by simp) e2
  obtain ⟨hh, e4⟩ := sshString_append_inj l2 l2' e3
  have e5 : sshString d ++ [] = sshString d' ++ [] := by simpa using e4
  obtain ⟨hd, _⟩ := sshString_append_inj l3 l3' e5
  exact ⟨hns, hh, hd⟩

/-! ### blob layout -/

theorem parseSigHead_eq_some {magic : Bytes} {version : Nat} {b pub rest : Bytes}
    (h : parseSigHead magic version b = some (pub, rest)) :
    b = magic ++ u32 version ++ sshString pub ++ rest := by
  unfold parseSigHead at h
  split at h
  · simp at h
  · rename_i m r0 hm
    split at h
    · simp at h
    · rename_i v r1 hv
      split at h
      · simp at h
      · rename_i hmv
        obtain ⟨hb0, _⟩ := getBytes_eq_some hm
        obtain ⟨hb1, _⟩ := getU32_eq_some hv
        obtain ⟨hb2, _⟩ := getString_eq_some h
        have hmm : m = magic ∧ v = version := by
          by_cases h1 : m = magic
          · by_cases h2 : v = version
            · exact ⟨h1, h2⟩
            · exact absurd (Or.inr h2) hmv
          · exact absurd (Or.inl h1) hmv
        rw [hb0, hb1, hb2, hmm.1, hmm.2]
        simp [List.append_assoc]

theorem parseSigTail_eq_some {r ns reserved hashName sig : Bytes}
    (h : parseSigTail r = some (ns, reserved, hashName, sig)) :
    r = sshString ns ++ sshString reserved ++ sshString hashName ++ sshString sig ∧
    ns.length < 2 ^ 32 ∧ hashName.length < 2 ^ 32 := by
  unfold parseSigTail at h
  split at h
  · rename_i ns' reserved' hashName' sig' hf
    simp only [Option.some.injEq, Prod.mk.injEq] at h
    obtain ⟨rfl, rfl, rfl, rfl⟩ := h
    obtain ⟨hb2, _⟩ := parseFields_eq_some hf
    have hlens : ns'.length < 2 ^ 32 ∧ hashName'.length < 2 ^ 32 := by
      simp only [parseFields, parseField] at hf
      cases h1 : getString r with
      | none => simp [h1] at hf
      | some p1 =>
        obtain ⟨s1, t1⟩ := p1
        simp only [h1] at hf
        cases h2 : getString t1 with
        | none => simp [h2] at hf
        | some p2 =>
          obtain ⟨s2, t2⟩ := p2
          simp only [h2] at hf
          cases h3 : getString t2 with
          | none => simp [h3] at hf
          | some p3 =>
            obtain ⟨s3, t3⟩ := p3
            simp only [h3] at hf
            cases h4 : getString t3 with
            | none => simp [h4] at hf
            | some p4 =>
              obtain ⟨s4, t4⟩ := p4
              simp only [h4, Option.some.injEq, Prod.mk.injEq, List.cons.injEq, Val.bytes.injEq,
                and_true] at hf
              obtain ⟨⟨rfl, _, rfl, _⟩, _⟩ := hf
              exact ⟨(getString_eq_some h1).2, (getString_eq_some h3).2⟩
    refine ⟨?_, hlens.1, hlens.2⟩
    rw [hb2]
    simp [encVals, encVal, List.append_assoc]
  · simp at h

theorem parseSigBlob_eq_some {magic : Bytes} {version : Nat} {b : Bytes} {sb : SigBlob}
    (h : parseSigBlob magic version b = some sb) :
    b = magic ++ u32 version ++ sshString sb.pub ++ sshString sb.ns ++ sshString sb.reserved ++
          sshString sb.hashName ++ sshString sb.sig ∧
    sb.ns.length < 2 ^ 32 ∧ sb.hashName.length < 2 ^ 32 := by
  unfold parseSigBlob at h
  split at h
  · simp at h
  · rename_i pub rest hh
    split at h
    · simp at h
    · rename_i ns reserved hashName sig ht
      simp only [Option.some.injEq] at h
      subst h
      obtain ⟨hr, l1, l2⟩ := parseSigTail_eq_some ht
      refine ⟨?_, l1, l2⟩
      rw [parseSigHead_eq_some hh, hr]
      simp [List.append_assoc]

/-- the raw blob `create_sshsig` builds is read back field by field -/
theorem parseSigBlob_encode (magic : Bytes) (version : Nat) (pub ns hashName sig : Bytes)
    (hv : version < 2 ^ 32) (h1 : pub.length < 2 ^ 32) (h2 : ns.length < 2 ^ 32)
    (h3 : hashName.length < 2 ^ 32) (h4 : sig.length < 2 ^ 32) :
    parseSigBlob magic version (encodeSigBlob magic version pub ns hashName sig) =
      some { pub := pub, ns := ns, reserved := [], hashName := hashName, sig := sig } := by
  unfold parseSigBlob parseSigHead encodeSigBlob
  simp only [List.append_assoc]
  rw [getBytes_append magic]
  simp only
  rw [getU32_u32 _ _ hv]
  simp only [ne_eq, not_true_eq_false, or_self, if_false]
  rw [getString_sshString _ _ h1]
  simp only [parseSigTail, parseFields, parseField]
  rw [getString_sshString _ _ h2]
  simp only
  rw [getString_sshString _ _ (by simp)]
  simp only
  rw [getString_sshString _ _ h3]
  simp only
  have : sshString sig = sshString sig ++ [] := by simp
  rw [this, getString_sshString _ _ h4]

end AsyncsshModel.SshSig
