import AsyncsshModel.Lemmas.ChannelHist
/-
  One endpoint against an arbitrary peer: runs (`runChan`) and the wire accounting invariant `AcctInv`
  (bytes sent vs. window granted; window advertised vs. bytes delivered).
-/
namespace AsyncsshModel.Channel
open AsyncsshModel

/-! ### one endpoint against an arbitrary (possibly hostile) peer -/

/-- `c` = the endpoint before the event -/
def Hist.recordEv (h : Hist) (c : Chan) : Ev → Hist
  | .write dt bs => { h with wr := h.wr ++ [(bs, dt)] }
  | .close => { h with appClosed := true, dropped := h.dropped + evCredit .close c }
  | .recv m => h.recordRecv m c
  | _ => h

/-- one endpoint driven by ANY sequence of events — application calls and arbitrary incoming messages.
    API errors leave the state unchanged; a fatal error (`ProtocolError`, spinning send loop) ends the run. -/
def runChan (c : Chan) (h : Hist) : List Ev → Option (Chan × Hist)
  | [] => some (c, h)
  | ev :: rest =>
    match step c ev with
    | .error e => if e.isApi then runChan c h rest else none
    | .ok (c', ms, os) => runChan c' ((h.recordEv c ev).record c c' ms os) rest

/-- the same run over the endpoint as it was before the fixes (witness theorems only) -/
def runChanOld (c : Chan) (h : Hist) : List Ev → Option (Chan × Hist)
  | [] => some (c, h)
  | ev :: rest =>
    match stepOld c ev with
    | .error e => if e.isApi then runChanOld c h rest else none
    | .ok (c', ms, os) => runChanOld c' ((h.recordEv c ev).record c c' ms os) rest

structure AcctInv (c0 c : Chan) (h : Hist) : Prop where
  wf : WF c
  send : h.sentBytes + c.sendWindow = c0.sendWindow + h.adjIn
  recvGe : c.recvWindow + bufBytes (dataOuts h.dl) + h.dropped ≥ c0.recvWindow + h.adjOut
  recvEq : c.sendChanOpen = true →
    c.recvWindow + bufBytes (dataOuts h.dl) + h.dropped = c0.recvWindow + h.adjOut
  pkt : c.sendPktsize = c0.sendPktsize
  init : c.initWindow = c0.initWindow

theorem acct_step (c0 c c' : Chan) (h : Hist) (ev : Ev) (ms : List Msg) (os : List Out)
    (hi : AcctInv c0 c h) (hs : step c ev = .ok (c', ms, os)) :
    AcctInv c0 c' ((h.recordEv c ev).record c c' ms os) := by
  have ss := step_sum c c' ev ms os hi.wf hs
  have hadj : ((h.recordEv c ev).record c c' ms os).adjIn = h.adjIn + evAdjust ev := by
    cases ev with
    | recv m => cases m <;> simp [Hist.recordEv, Hist.recordRecv, Hist.record, evAdjust]
    | _ => simp [Hist.recordEv, Hist.record, evAdjust]
  have hsent : ((h.recordEv c ev).record c c' ms os).sentBytes = h.sentBytes + bufBytes (dataOf ms) := by
    cases ev with
    | recv m => cases m <;> simp [Hist.recordEv, Hist.recordRecv, Hist.record]
    | _ => simp [Hist.recordEv, Hist.record]
  have hao : ((h.recordEv c ev).record c c' ms os).adjOut = h.adjOut + adjustSum ms := by
    cases ev with
    | recv m => cases m <;> simp [Hist.recordEv, Hist.recordRecv, Hist.record]
    | _ => simp [Hist.recordEv, Hist.record]
  have hdl : ((h.recordEv c ev).record c c' ms os).dl = h.dl ++ os := by
    cases ev with
    | recv m => cases m <;> simp [Hist.recordEv, Hist.recordRecv, Hist.record]
    | _ => simp [Hist.recordEv, Hist.record]
  have hdr : ((h.recordEv c ev).record c c' ms os).dropped = h.dropped + evCredit ev c := by
    cases ev with
    | recv m => cases m <;> simp [Hist.recordEv, Hist.recordRecv, Hist.record, evCredit]
    | _ => simp [Hist.recordEv, Hist.record, evCredit]
  refine ⟨step_wf _ _ _ _ _ hi.wf hs, ?_, ?_, ?_, ss.cfg.sendPktsize.trans hi.pkt, ss.cfg.initWindow.trans hi.init⟩
  · rw [hadj, hsent]; have := ss.sendWindow; have := hi.send; omega
  · rw [hao, hdl, hdr, dataOuts_append, bufBytes_append]
    have := ss.winGe; have := hi.recvGe; push_cast; omega
  · intro hop
    rw [hao, hdl, hdr, dataOuts_append, bufBytes_append]
    have := ss.winEq hop; have := hi.recvEq (ss.openMono hop); push_cast; omega

theorem acct_run : ∀ (evs : List Ev) (c0 c c' : Chan) (h h' : Hist), AcctInv c0 c h →
    runChan c h evs = some (c', h') → AcctInv c0 c' h'
  | [], c0, c, c', h, h', hi, hr => by
    simp only [runChan, Option.some.injEq, Prod.mk.injEq] at hr
    obtain ⟨rfl, rfl⟩ := hr; exact hi
  | ev :: rest, c0, c, c', h, h', hi, hr => by
    simp only [runChan] at hr
    split at hr
    · split at hr
      · exact acct_run rest c0 c c' h h' hi hr
      · cases hr
    · rename_i c1 ms os hs
      exact acct_run rest c0 c1 c' _ h' (acct_step c0 c c1 h ev ms os hi hs) hr

theorem acct_init (c0 : Chan) (hw : WF c0) : AcctInv c0 c0 {} :=
  ⟨hw, by simp, by simp [dataOuts, bufBytes], by simp [dataOuts, bufBytes], rfl, rfl⟩

end AsyncsshModel.Channel
