import AsyncsshModel.Lemmas.Stream
/-
  Helper lemmas for property C19 (`readuntil`): what `pat.search(buf, start)` finds, why the search window
  `start = max(buflen + 1 - seplen, 0)` cannot skip a separator that spans a chunk boundary, and the behaviour of
  the scan / wait loop on a clean schedule while reading is never paused.
-/
namespace AsyncsshModel.Stream

open AsyncsshModel

set_option linter.unusedSimpArgs false

/-- no separator occurs anywhere in `t` -/
def NoOcc (seps : List Bytes) (t : Bytes) : Prop := ∀ p, ∀ sep ∈ seps, ¬ sep <+: t.drop p

/-- `e` is the length of the shortest prefix of `t` that ends in a separator -/
def IsFirstEnd (seps : List Bytes) (t : Bytes) (e : Nat) : Prop :=
  (∃ sep ∈ seps, ∃ p, sep <+: t.drop p ∧ p + sep.length = e) ∧
  ∀ p, ∀ sep ∈ seps, sep <+: t.drop p → e ≤ p + sep.length

/-- no separator occurs inside another one other than as its suffix -/
def NoEarlyInfix (seps : List Bytes) : Prop :=
  ∀ a ∈ seps, ∀ b ∈ seps, ∀ d, d + a.length < b.length → ¬ a <+: b.drop d

theorem IsFirstEnd_unique {seps : List Bytes} {t : Bytes} {e e' : Nat}
    (h : IsFirstEnd seps t e) (h' : IsFirstEnd seps t e') : e = e' := by
  obtain ⟨⟨s1, hs1, p1, o1, rfl⟩, m1⟩ := h
  obtain ⟨⟨s2, hs2, p2, o2, rfl⟩, m2⟩ := h'
  have := m1 p2 s2 hs2 o2
  have := m2 p1 s1 hs1 o1
  omega

/-! ### prefixes and drops -/

theorem prefix_drop {a b : Bytes} (h : a <+: b) (d : Nat) : a.drop d <+: b.drop d := by
  obtain ⟨t, rfl⟩ := h
  rw [List.drop_append]
  exact List.prefix_append _ _

/-- an occurrence in a text is an occurrence in every extension of the text -/
theorem occ_extend {sep t : Bytes} (x : Bytes) {p : Nat} (h : sep <+: t.drop p) : sep <+: (t ++ x).drop p := by
  rw [List.drop_append]
  exact h.trans (List.prefix_append _ _)

/-- an occurrence in an extended text that ends inside the original text is an occurrence in it -/
theorem occ_restrict {sep t x : Bytes} {p : Nat} (h : sep <+: (t ++ x).drop p) (hl : p + sep.length ≤ t.length) :
    sep <+: t.drop p := by
  rw [List.drop_append_of_le_length (by omega)] at h
  exact List.prefix_of_prefix_length_le h (List.prefix_append _ _) (by simp; omega)

theorem occ_length {sep t : Bytes} {p : Nat} (h : sep <+: t.drop p) : p + sep.length ≤ t.length ∨ sep = [] := by
  have := h.length_le
  simp at this
  by_cases hs : sep = []
  · exact Or.inr hs
  · left
    have : 0 < sep.length := List.length_pos_iff.mpr hs
    omega

/-! ### the regular-expression search for an alternation of literals -/

theorem matchAt_some {seps : List Bytes} {s : Bytes} {l : Nat} (h : matchAt seps s = some l) :
    ∃ sep ∈ seps, sep.length = l ∧ sep <+: s := by
  induction seps with
  | nil => simp [matchAt] at h
  | cons a as ih =>
    unfold matchAt at h
    split at h
    · rename_i hp
      simp at h
      exact ⟨a, by simp, h, List.isPrefixOf_iff_prefix.mp hp⟩
    · obtain ⟨sep, hm, hl, hpre⟩ := ih h
      exact ⟨sep, by simp [hm], hl, hpre⟩

theorem matchAt_none {seps : List Bytes} {s : Bytes} (h : matchAt seps s = none) :
    ∀ sep ∈ seps, ¬ sep <+: s := by
  induction seps with
  | nil => simp
  | cons a as ih =>
    unfold matchAt at h
    split at h
    · simp at h
    · rename_i hp
      intro sep hm
      simp at hm
      rcases hm with rfl | hm
      · intro hc; exact hp (List.isPrefixOf_iff_prefix.mpr hc)
      · exact ih h sep hm

theorem searchFrom_none {seps : List Bytes} {t : Bytes} {pos : Nat} (h : searchFrom seps t pos = none) :
    ∀ p, ∀ sep ∈ seps, ¬ sep <+: t.drop p := by
  induction t generalizing pos with
  | nil =>
    unfold searchFrom at h
    have hm : matchAt seps [] = none := by
      cases hm : matchAt seps [] <;> simp [hm] at h ⊢
    intro p sep hs
    simpa using matchAt_none hm sep hs
  | cons c t ih =>
    unfold searchFrom at h
    split at h
    · simp at h
    · rename_i hm
      intro p sep hs
      cases p with
      | zero => simpa using matchAt_none hm sep hs
      | succ p => simpa using ih h p sep hs

theorem searchFrom_some {seps : List Bytes} {t : Bytes} {pos e : Nat} (h : searchFrom seps t pos = some e) :
    ∃ p l, e = pos + p + l ∧ (∃ sep ∈ seps, sep.length = l ∧ sep <+: t.drop p) ∧
      ∀ p' < p, ∀ sep ∈ seps, ¬ sep <+: t.drop p' := by
  induction t generalizing pos with
  | nil =>
    unfold searchFrom at h
    cases hm : matchAt seps [] with
    | none => simp [hm] at h
    | some l =>
      simp [hm] at h
      exact ⟨0, l, by omega, by simpa using matchAt_some hm, by intro p' hp'; omega⟩
  | cons c t ih =>
    unfold searchFrom at h
    split at h
    · rename_i l hm
      simp at h
      exact ⟨0, l, by omega, by simpa using matchAt_some hm, by intro p' hp'; omega⟩
    · rename_i hm
      obtain ⟨p, l, he, hocc, hmin⟩ := ih h
      refine ⟨p + 1, l, by omega, by simpa using hocc, ?_⟩
      intro p' hp' sep hs
      cases p' with
      | zero => simpa using matchAt_none hm sep hs
      | succ p' => simpa using hmin p' (by omega) sep hs

/-! ### the search window -/

/-- The window arithmetic is sound.  `rbuf` has been searched completely (no separator lies inside it); after
    appending the next chunk, searching from `max(len(rbuf) + 1 - seplen, 0)` gives the same answer as searching
    the whole text: nothing if no separator occurs, and otherwise the end of the shortest prefix that ends in a
    separator (this is where `NoEarlyInfix` is needed: the regex reports the leftmost *start*). -/
theorem window_sound (seps : List Bytes) (seplen : Nat) (rbuf b : Bytes)
    (hlen : ∀ sep ∈ seps, sep ≠ [] ∧ sep.length ≤ seplen) (hpos : 0 < seplen)
    (hno : NoOcc seps rbuf) (hinf : NoEarlyInfix seps) :
    (search seps (rbuf ++ b) (searchStart rbuf.length seplen) = none → NoOcc seps (rbuf ++ b)) ∧
    (∀ e, search seps (rbuf ++ b) (searchStart rbuf.length seplen) = some e → IsFirstEnd seps (rbuf ++ b) e) := by
  have hst : searchStart rbuf.length seplen = rbuf.length + 1 - seplen := by
    unfold searchStart; simp; omega
  have hstle : searchStart rbuf.length seplen ≤ (rbuf ++ b).length := by rw [hst]; simp; omega
  -- every occurrence in the new text starts inside the window
  have hwin : ∀ p, ∀ sep ∈ seps, sep <+: (rbuf ++ b).drop p → searchStart rbuf.length seplen ≤ p := by
    intro p sep hs ho
    by_cases hc : p + sep.length ≤ rbuf.length
    · exact absurd (occ_restrict ho hc) (hno p sep hs)
    · have := (hlen sep hs).2
      rw [hst]; omega
  unfold search
  simp only [hstle, if_true]
  constructor
  · intro h p sep hs ho
    have hge := hwin p sep hs ho
    have := searchFrom_none h (p - searchStart rbuf.length seplen) sep hs
    rw [List.drop_drop] at this
    have he : searchStart rbuf.length seplen + (p - searchStart rbuf.length seplen) = p := by omega
    rw [he] at this
    exact this ho
  · intro e h
    obtain ⟨p', l, he, ⟨sepA, hA, hlA, hoA⟩, hmin⟩ := searchFrom_some h
    rw [List.drop_drop] at hoA
    refine ⟨⟨sepA, hA, searchStart rbuf.length seplen + p', hoA, by omega⟩, ?_⟩
    intro p sep hs ho
    have hge := hwin p sep hs ho
    -- the match found is the leftmost one
    have hp0 : searchStart rbuf.length seplen + p' ≤ p := by
      by_cases hc : searchStart rbuf.length seplen + p' ≤ p
      · exact hc
      · have hlt : p - searchStart rbuf.length seplen < p' := by omega
        have := hmin _ hlt sep hs
        rw [List.drop_drop] at this
        have he2 : searchStart rbuf.length seplen + (p - searchStart rbuf.length seplen) = p := by omega
        rw [he2] at this
        exact absurd ho this
    -- and nothing that starts later can end earlier, or it would lie strictly inside the separator found
    by_cases hc : e ≤ p + sep.length
    · exact hc
    · exfalso
      have hd : (p - (searchStart rbuf.length seplen + p')) + sep.length < sepA.length := by omega
      refine hinf sep hs sepA hA _ hd ?_
      have h1 := prefix_drop hoA (p - (searchStart rbuf.length seplen + p'))
      rw [List.drop_drop] at h1
      have he3 : searchStart rbuf.length seplen + p' + (p - (searchStart rbuf.length seplen + p')) = p := by omega
      rw [he3] at h1
      exact List.prefix_of_prefix_length_le ho h1 (by simp; omega)

/-- every single separator list is trivially free of early infixes -/
theorem NoEarlyInfix_single' (sep : Bytes) : NoEarlyInfix [sep] := by
  intro a ha b hb d hd
  simp at ha hb
  subst ha hb
  omega

/-- combining the per-separator answers: `searchMin` finds nothing iff no separator occurs, and otherwise the
    smallest of the first ends of the separators — the first end of the list -/
theorem searchMin_spec (seps : List Bytes) (t : Bytes) (start : Nat)
    (h1 : ∀ sep ∈ seps, (search [sep] t start = none → NoOcc [sep] t) ∧
      (∀ e, search [sep] t start = some e → IsFirstEnd [sep] t e)) :
    (searchMin seps t start = none → NoOcc seps t) ∧
    (∀ e, searchMin seps t start = some e → IsFirstEnd seps t e) := by
  induction seps with
  | nil =>
    refine ⟨fun _ p sep hs => by simp at hs, fun e h => by simp [searchMin] at h⟩
  | cons a as ih =>
    obtain ⟨i1, i2⟩ := ih (fun sep hs => h1 sep (by simp [hs]))
    obtain ⟨a1, a2⟩ := h1 a (by simp)
    unfold searchMin
    cases ha : search [a] t start with
    | none =>
      have hna := a1 ha
      simp only
      constructor
      · intro h p sep hs
        simp at hs
        rcases hs with rfl | hs
        · exact hna p sep (by simp)
        · exact i1 h p sep hs
      · intro e h
        obtain ⟨⟨sep, hs, p, ho, he⟩, hmin⟩ := i2 e h
        refine ⟨⟨sep, by simp [hs], p, ho, he⟩, ?_⟩
        intro p' sep' hs' ho'
        simp at hs'
        rcases hs' with rfl | hs'
        · exact absurd ho' (hna p' sep' (by simp))
        · exact hmin p' sep' hs' ho'
    | some ea =>
      obtain ⟨⟨sa, hsa, pa, hoa, hea⟩, hmina⟩ := a2 ea ha
      simp at hsa
      subst hsa
      cases hr : searchMin as t start with
      | none =>
        have hnr := i1 hr
        simp only
        constructor
        · intro h; simp at h
        · intro e h
          simp at h
          subst h
          refine ⟨⟨sa, by simp, pa, hoa, hea⟩, ?_⟩
          intro p' sep' hs' ho'
          simp at hs'
          rcases hs' with rfl | hs'
          · exact hmina p' sep' (by simp) ho'
          · exact absurd ho' (hnr p' sep' hs')
      | some er =>
        obtain ⟨⟨sr, hsr, pr, hor, her⟩, hminr⟩ := i2 er hr
        simp only
        constructor
        · intro h; simp at h
        · intro e h
          simp at h
          subst h
          constructor
          · by_cases hc : ea ≤ er
            · exact ⟨sa, by simp, pa, hoa, by rw [hea]; omega⟩
            · exact ⟨sr, by simp [hsr], pr, hor, by rw [her]; omega⟩
          · intro p' sep' hs' ho'
            simp at hs'
            rcases hs' with rfl | hs'
            · have := hmina p' sep' (by simp) ho'; omega
            · have := hminr p' sep' hs' ho'; omega

theorem NoOcc_sub {seps : List Bytes} {t : Bytes} (h : NoOcc seps t) {sep : Bytes} (hs : sep ∈ seps) :
    NoOcc [sep] t := by
  intro p x hx
  simp at hx
  subst hx
  exact h p x hs

/-- The window arithmetic is sound for the search `readuntil` makes: for a separator list (`me = true`, one
    pattern per separator, earliest end) without any condition on the separators; for one alternation
    (`me = false`) when no separator lies inside another one other than as its suffix. -/
theorem window_sound_srch (me : Bool) (seps : List Bytes) (seplen : Nat) (rbuf b : Bytes)
    (hlen : ∀ sep ∈ seps, sep ≠ [] ∧ sep.length ≤ seplen) (hpos : 0 < seplen)
    (hno : NoOcc seps rbuf) (hinf : me = true ∨ NoEarlyInfix seps) :
    (srch me seps (rbuf ++ b) (searchStart rbuf.length seplen) = none → NoOcc seps (rbuf ++ b)) ∧
    (∀ e, srch me seps (rbuf ++ b) (searchStart rbuf.length seplen) = some e → IsFirstEnd seps (rbuf ++ b) e) := by
  cases me with
  | false =>
    have hi : NoEarlyInfix seps := by
      rcases hinf with h | h
      · exact absurd h (by simp)
      · exact h
    simpa [srch] using window_sound seps seplen rbuf b hlen hpos hno hi
  | true =>
    simp only [srch, if_true]
    refine searchMin_spec seps (rbuf ++ b) _ ?_
    intro sep hs
    exact window_sound [sep] seplen rbuf b
      (by intro x hx; simp at hx; subst hx; exact hlen x hs) hpos (NoOcc_sub hno hs) (NoEarlyInfix_single' sep)

/-! ### the scan over buffered chunks and the wait loop -/

/-- outcome of `scan` on a buffer of data chunks, in terms of the text `rbuf ++ dataOf rest` -/
def ScanSpec (seps : List Bytes) (t : Bytes) (cur n : Nat) : ScanOut → Prop
  | .found res nb idx => IsFirstEnd seps t idx ∧ idx ≤ t.length ∧ res = t.take idx ∧ dataOf nb = t.drop idx ∧ PureData nb
  | .more r c => NoOcc seps t ∧ r = t ∧ c = cur + n
  | _ => False

theorem ScanSpec_shift {seps : List Bytes} {t : Bytes} {c1 n1 c2 n2 : Nat} {out : ScanOut}
    (h : ScanSpec seps t c1 n1 out) (he : c1 + n1 = c2 + n2) : ScanSpec seps t c2 n2 out := by
  cases out <;> simp_all [ScanSpec]

theorem isFirstEnd_extend {seps : List Bytes} {t : Bytes} {e : Nat} (x : Bytes)
    (hne : ∀ sep ∈ seps, sep ≠ []) (h : IsFirstEnd seps t e) : IsFirstEnd seps (t ++ x) e ∧ e ≤ t.length := by
  obtain ⟨⟨sep, hs, p, ho, he⟩, hmin⟩ := h
  have hle : e ≤ t.length := by
    rcases occ_length ho with h | h
    · omega
    · exact absurd h (hne sep hs)
  refine ⟨⟨⟨sep, hs, p, occ_extend x ho, he⟩, ?_⟩, hle⟩
  intro p' sep' hs' ho'
  by_cases hc : p' + sep'.length ≤ t.length
  · exact hmin p' sep' hs' (occ_restrict ho' hc)
  · omega

theorem scan_spec (me : Bool) (seps : List Bytes) (seplen : Nat)
    (hlen : ∀ sep ∈ seps, sep ≠ [] ∧ sep.length ≤ seplen) (hpos : 0 < seplen)
    (hinf : me = true ∨ NoEarlyInfix seps)
    (rest : List Item) (hp : PureData rest) (rbuf : Bytes) (cur : Nat) (hno : NoOcc seps rbuf) :
    ScanSpec seps (rbuf ++ dataOf rest) cur rest.length (scan me seps seplen rbuf cur rest) := by
  induction rest generalizing rbuf cur with
  | nil => simp [scan, ScanSpec, dataOf, hno]
  | cons it rest ih =>
    obtain ⟨⟨b, rfl, hb⟩, hrest⟩ := PureData_cons hp
    obtain ⟨w1, w2⟩ := window_sound_srch me seps seplen rbuf b hlen hpos hno hinf
    unfold scan
    simp only
    cases hsr : srch me seps (rbuf ++ b) (searchStart rbuf.length seplen) with
    | none =>
      have := ih hrest (rbuf ++ b) (cur + 1) (w1 hsr)
      have h2 := ScanSpec_shift this (show cur + 1 + rest.length = cur + (rest.length + 1) by omega)
      simpa [dataOf, List.append_assoc] using h2
    | some idx =>
      have hfe := w2 idx hsr
      obtain ⟨h1, h2⟩ := isFirstEnd_extend (dataOf rest) (fun sep hs => (hlen sep hs).1) hfe
      simp only [ScanSpec, dataOf, ← List.append_assoc]
      refine ⟨h1, by simp at h2 ⊢; omega, ?_, ?_, ?_⟩
      · rw [List.take_append_of_le_length h2]
      · rw [List.drop_append_of_le_length h2]
        split
        · rename_i he
          have : List.drop idx (rbuf ++ b) = [] := by simpa using he
          simp [this]
        · simp [dataOf]
      · split
        · exact hrest
        · rename_i he
          intro x hx
          simp at hx
          rcases hx with rfl | hx
          · exact ⟨_, rfl, by simpa using he⟩
          · exact hrest x hx

/-- what is still to come (`d` bytes) cannot make the session pause reading -/
def NoPause (s : St) (d : Nat) : Prop := s.paused = false ∧ (s.limit = 0 ∨ s.bufLen + (d : Int) < (s.limit : Int))

theorem NoPause_mono {s : St} {d d' : Nat} (h : NoPause s d) (hd : d' ≤ d) : NoPause s d' := by
  obtain ⟨h1, h2⟩ := h
  refine ⟨h1, ?_⟩
  rcases h2 with h | h
  · exact Or.inl h
  · right; omega

theorem arrive_nopause {s : St} (hs : Inv s) (a : Arrival) (rest : List Arrival)
    (hc : CleanFrom (eofPend s) (a :: rest)) (d : Nat) (hn : NoPause s ((adata [a]).length + d)) :
    ∃ items, (arrive s a).buf = s.buf ++ items ∧ dataOf items = adata [a] ∧ NoPause (arrive s a) d := by
  obtain ⟨hp, hl⟩ := hn
  obtain ⟨hq, hce⟩ := hs.unpaused hp
  cases hep : eofPend s with
  | true => rw [hep] at hc; simp [CleanFrom] at hc
  | false =>
    rw [hep] at hc
    cases a with
    | data b =>
      unfold arrive
      by_cases hb : b.isEmpty
      · have : b = [] := by simpa using hb
        subst this
        refine ⟨[], by simp, by simp [dataOf, adata], hp, ?_⟩
        simpa [adata] using hl
      · simp only [hb, hp, Bool.false_eq_true, if_false]
        have hd : deliver s b = { s with buf := s.buf ++ [.data b], bufLen := s.bufLen + b.length } := by
          simp only [deliver, shouldPause, hp]
          rcases hl with h | h
          · simp [h]
          · have h' : ¬ ((s.limit : Int) ≤ s.bufLen + b.length) := by simp [adata] at h; omega
            simp [h']
        rw [hd]
        refine ⟨[.data b], rfl, by simp [dataOf, adata], hp, ?_⟩
        rcases hl with h | h
        · exact Or.inl h
        · right; simp [adata] at h; show s.bufLen + b.length + (d : Int) < s.limit; omega
    | eof =>
      unfold arrive
      simp only [hq, List.isEmpty_nil, if_true]
      refine ⟨[], by simp, by simp [dataOf, adata], hp, ?_⟩
      simpa [adata] using hl
    | feed b => simp [CleanFrom] at hc
    | exc e => simp [CleanFrom] at hc

theorem absorb_nopause {s : St} (hs : Inv s) (g rest : List Arrival)
    (hc : CleanFrom (eofPend s) (g ++ rest)) (d : Nat) (hn : NoPause s ((adata g).length + d)) :
    ∃ items, (absorb s g).buf = s.buf ++ items ∧ dataOf items = adata g ∧ NoPause (absorb s g) d := by
  induction g generalizing s with
  | nil => exact ⟨[], by simp [absorb], by simp [dataOf, adata], by simpa [absorb, adata] using hn⟩
  | cons a as ih =>
    have hsplit : adata (a :: as) = adata [a] ++ adata as := by rw [← adata_append]; rfl
    have hn1 : NoPause s ((adata [a]).length + ((adata as).length + d)) := by
      rw [hsplit] at hn; simpa [Nat.add_assoc] using hn
    obtain ⟨it1, b1, b2, b3⟩ := arrive_nopause hs a (as ++ rest) hc _ hn1
    obtain ⟨h1, h2, _, _⟩ := arrive_clean hs a (as ++ rest) hc
    obtain ⟨it2, c1, c2, c3⟩ := ih h1 h2 b3
    refine ⟨it1 ++ it2, ?_, ?_, c3⟩
    · show (absorb (arrive s a) as).buf = _
      rw [c1, b1, List.append_assoc]
    · rw [dataOf_append, b2, c2, hsplit]

/-- `readuntil` reports a partial result in front of an exception item only when it has read something -/
theorem scan_excPartial_nonempty (me : Bool) (seps : List Bytes) (seplen : Nat) (rbuf : Bytes) (cur : Nat)
    (items : List Item) (nb : List Item) : scan me seps seplen rbuf cur items ≠ .excPartial [] nb := by
  induction items generalizing rbuf cur with
  | nil => simp [scan]
  | cons it rest ih =>
    cases it with
    | exc e =>
      unfold scan
      split
      · next h =>
        intro hc
        simp only [ScanOut.excPartial.injEq] at hc
        simp [hc.1] at h
      · split
        · cases e <;> simp
        · simp
    | data b =>
      unfold scan
      simp only
      split
      · simp
      · exact ih _ _

theorem untilLoop_unfold (me : Bool) (seps : List Bytes) (seplen : Nat) (s : St) (rbuf : Bytes) (cur : Nat) (sched : Sched) :
    untilLoop me seps seplen s rbuf cur sched =
      match scan me seps seplen rbuf cur (s.buf.drop cur) with
      | .found res nb idx => (.ok res, (maybeResume { s with buf := nb, bufLen := s.bufLen - idx }).1, sched)
      | .excPartial part nb => (.incomplete part, { s with buf := nb, bufLen := s.bufLen - part.length }, sched)
      | .excRaise e nb => (.raised e, { s with buf := nb }, sched)
      | .softEof nb => (.ok [], { s with buf := nb }, sched)
      | .popType nb => (.typeError, { s with buf := nb }, sched)
      | .more rbuf' cur' =>
        if (s.paused && !rbuf'.isEmpty) || s.eof then
          (.incomplete rbuf', (maybeResume { s with buf := s.buf.drop cur', bufLen := s.bufLen - rbuf'.length }).1, sched)
        else match sched with
          | [] => (.blocked, s, [])
          | g :: rest => untilLoop me seps seplen (absorb s g) rbuf' cur' rest := by
  rw [untilLoop.eq_def]; rfl

theorem maybeResume_unpaused (s : St) (h : s.paused = false) : (maybeResume s).1 = s := by
  simp [maybeResume, h]

theorem PureData_drop {l : List Item} (h : PureData l) (k : Nat) : PureData (l.drop k) :=
  fun x hx => h x (List.mem_of_mem_drop hx)

theorem dataOf_take_drop (l : List Item) (k : Nat) : dataOf (l.take k) ++ dataOf (l.drop k) = dataOf l := by
  rw [← dataOf_append, List.take_append_drop]

/-- `Post` plus "still cannot be paused" -/
def PostU (s' : St) (sched' : Sched) (rest : Bytes) (ec : Bool) : Prop :=
  Post s' sched' rest ec ∧ NoPause s' (sdata sched').length

theorem until_found (me : Bool) (seps : List Bytes) (seplen : Nat)
    (hne : ∀ sep ∈ seps, sep ≠ [])
    (sched : Sched) (s : St) (hs : Inv s) (hc : Clean s sched) (rbuf : Bytes) (cur : Nat)
    (hnp : NoPause s (sdata sched).length)
    (res : Bytes) (nb : List Item) (idx : Nat)
    (hscan : scan me seps seplen rbuf cur (s.buf.drop cur) = .found res nb idx)
    (hsp : ScanSpec seps (dataOf s.buf) cur (s.buf.drop cur).length (.found res nb idx)) :
    (∀ e, IsFirstEnd seps (dataOf s.buf ++ sdata sched) e →
      ∃ s' sched', untilLoop me seps seplen s rbuf cur sched = (.ok ((dataOf s.buf ++ sdata sched).take e), s', sched') ∧
        PostU s' sched' ((dataOf s.buf ++ sdata sched).drop e) (eofComing s sched)) ∧
    (NoOcc seps (dataOf s.buf ++ sdata sched) → eofComing s sched = true →
      ∃ s' sched', untilLoop me seps seplen s rbuf cur sched = (.incomplete (dataOf s.buf ++ sdata sched), s', sched') ∧
        PostU s' sched' [] true) ∧
    (NoOcc seps (dataOf s.buf ++ sdata sched) → eofComing s sched = false →
      (untilLoop me seps seplen s rbuf cur sched).1 = .blocked) := by
  obtain ⟨f1, f2, f3, f4, f5⟩ := hsp
  obtain ⟨g1, _⟩ := isFirstEnd_extend (sdata sched) hne f1
  obtain ⟨hp, hl⟩ := hnp
  obtain ⟨hq, hce⟩ := hs.unpaused hp
  have hocc : ¬ NoOcc seps (dataOf s.buf ++ sdata sched) := by
    intro hno
    obtain ⟨⟨sep, hsep, p, ho, _⟩, _⟩ := g1
    exact hno p sep hsep ho
  refine ⟨?_, fun h => absurd h hocc, fun h => absurd h hocc⟩
  intro e he
  have hei : e = idx := IsFirstEnd_unique he g1
  subst hei
  refine ⟨{ s with buf := nb, bufLen := s.bufLen - e }, sched, ?_, ⟨⟨?_, ?_, ?_, ?_⟩, ?_⟩⟩
  · rw [untilLoop_unfold, hscan]
    simp only
    rw [maybeResume_unpaused { s with buf := nb, bufLen := s.bufLen - e } hp, f3,
      List.take_append_of_le_length f2]
  · refine ⟨f5, hs.qne, ?_, hs.unpaused⟩
    show s.bufLen - (e : Int) = ((dataOf nb).length : Int)
    rw [f4, hs.len, List.length_drop]; omega
  · exact hc
  · show dataOf nb ++ s.chanQ.flatten ++ sdata sched = _
    rw [f4, hq, List.drop_append_of_le_length f2]; simp
  · rfl
  · refine ⟨hp, ?_⟩
    rcases hl with h | h
    · exact Or.inl h
    · right; simp only; omega

theorem until_more (me : Bool) (seps : List Bytes) (seplen : Nat)
    (sched : Sched) (s : St) (hs : Inv s) (hc : Clean s sched) (rbuf : Bytes) (cur : Nat)
    (hnp : NoPause s (sdata sched).length)
    (r : Bytes) (c : Nat)
    (hscan : scan me seps seplen rbuf cur (s.buf.drop cur) = .more r c)
    (hsp : ScanSpec seps (dataOf s.buf) cur (s.buf.drop cur).length (.more r c)) (hcur : cur ≤ s.buf.length) :
    NoOcc seps (dataOf s.buf) ∧
    (s.eof = true → sdata sched = [] ∧ ∃ s', untilLoop me seps seplen s rbuf cur sched = (.incomplete (dataOf s.buf), s', sched) ∧
        PostU s' sched [] true) ∧
    (s.eof = false → eofPend s = false ∧
        (sched = [] → untilLoop me seps seplen s rbuf cur sched = (.blocked, s, [])) ∧
        (∀ g rest, sched = g :: rest → untilLoop me seps seplen s rbuf cur sched =
          untilLoop me seps seplen (absorb s g) (dataOf s.buf) s.buf.length rest)) := by
  obtain ⟨m1, m2, m3⟩ := hsp
  obtain ⟨hp, hl⟩ := hnp
  obtain ⟨hq, hce⟩ := hs.unpaused hp
  have hc' : c = s.buf.length := by rw [m3]; simp; omega
  subst m2 hc'
  refine ⟨m1, ?_, ?_⟩
  · intro he
    have hD : sdata sched = [] := by
      have : CleanFrom true sched.flatten := by simpa [Clean, eofPend, he] using hc
      simp [sdata, CleanFrom_true this, adata]
    refine ⟨hD, { s with buf := [], bufLen := s.bufLen - (dataOf s.buf).length }, ?_, ⟨⟨?_, ?_, ?_, ?_⟩, ?_⟩⟩
    · rw [untilLoop_unfold, hscan]
      have hcond : ((s.paused && !(dataOf s.buf).isEmpty) || s.eof) = true := by simp [he]
      simp only
      rw [if_pos hcond,
        maybeResume_unpaused { s with buf := s.buf.drop s.buf.length, bufLen := s.bufLen - (dataOf s.buf).length } hp]
      simp
    · refine ⟨by intro x hx; simp at hx, hs.qne, ?_, hs.unpaused⟩
      show s.bufLen - ((dataOf s.buf).length : Int) = _
      rw [hs.len]; simp [dataOf]
    · exact hc
    · simp [pend, hq, hD, dataOf]
    · simp [eofComing, eofPend, he]
    · refine ⟨hp, ?_⟩
      rcases hl with h | h
      · exact Or.inl h
      · right; simp only; omega
  · intro he
    have hcond : ¬ ((s.paused && !(dataOf s.buf).isEmpty) || s.eof) = true := by simp [he, hp]
    refine ⟨by simp [eofPend, he, hce], ?_, ?_⟩
    · intro h
      subst h
      rw [untilLoop_unfold, hscan]
      simp only
      rw [if_neg hcond]
    · intro g rest h
      subst h
      rw [untilLoop_unfold, hscan]
      simp only
      rw [if_neg hcond]

theorem untilLoop_spec (me : Bool) (seps : List Bytes) (seplen : Nat)
    (hlen : ∀ sep ∈ seps, sep ≠ [] ∧ sep.length ≤ seplen) (hpos : 0 < seplen)
    (hinf : me = true ∨ NoEarlyInfix seps)
    (sched : Sched) (s : St) (hs : Inv s) (hc : Clean s sched) (rbuf : Bytes) (cur : Nat)
    (hcur : cur ≤ s.buf.length) (hr : rbuf = dataOf (s.buf.take cur)) (hno : NoOcc seps rbuf)
    (hnp : NoPause s (sdata sched).length) :
    (∀ e, IsFirstEnd seps (dataOf s.buf ++ sdata sched) e →
      ∃ s' sched', untilLoop me seps seplen s rbuf cur sched = (.ok ((dataOf s.buf ++ sdata sched).take e), s', sched') ∧
        PostU s' sched' ((dataOf s.buf ++ sdata sched).drop e) (eofComing s sched)) ∧
    (NoOcc seps (dataOf s.buf ++ sdata sched) → eofComing s sched = true →
      ∃ s' sched', untilLoop me seps seplen s rbuf cur sched = (.incomplete (dataOf s.buf ++ sdata sched), s', sched') ∧
        PostU s' sched' [] true) ∧
    (NoOcc seps (dataOf s.buf ++ sdata sched) → eofComing s sched = false →
      (untilLoop me seps seplen s rbuf cur sched).1 = .blocked) := by
  have hne : ∀ sep ∈ seps, sep ≠ [] := fun sep h => (hlen sep h).1
  induction sched generalizing s rbuf cur with
  | nil =>
    · 
      have hB : rbuf ++ dataOf (s.buf.drop cur) = dataOf s.buf := by rw [hr]; exact dataOf_take_drop _ _
      have hsp := scan_spec me seps seplen hlen hpos hinf (s.buf.drop cur) (PureData_drop hs.pure cur) rbuf cur hno
      rw [hB] at hsp
      have hS : dataOf s.buf ++ sdata [] = dataOf s.buf := by simp [sdata, adata]
      cases hscan : scan me seps seplen rbuf cur (s.buf.drop cur) with
      | found res nb idx =>
        rw [hscan] at hsp
        exact until_found me seps seplen hne [] s hs hc rbuf cur hnp res nb idx hscan hsp
      | more r c =>
        rw [hscan] at hsp
        obtain ⟨m1, m2, m3⟩ := until_more me seps seplen [] s hs hc rbuf cur hnp r c hscan hsp hcur
        rw [hS]
        have hocc : ∀ e, ¬ IsFirstEnd seps (dataOf s.buf) e := by
          rintro e ⟨⟨sep, hsep, p, ho, _⟩, _⟩
          exact m1 p sep hsep ho
        refine ⟨fun e he => absurd he (hocc e), ?_, ?_⟩
        · intro _ hec
          have he : s.eof = true := by
            cases h : s.eof with
            | true => rfl
            | false => have := (m3 h).1; simp [eofComing, this, hasEof] at hec
          obtain ⟨_, s', q1, q2⟩ := m2 he
          exact ⟨s', [], q1, q2⟩
        · intro _ hec
          have he : s.eof = false := by
            cases h : s.eof with
            | false => rfl
            | true => simp [eofComing, eofPend, h] at hec
          rw [(m3 he).2.1 rfl]
      | excPartial _ _ => rw [hscan] at hsp; exact absurd hsp (by simp [ScanSpec])
      | excRaise _ _ => rw [hscan] at hsp; exact absurd hsp (by simp [ScanSpec])
      | softEof _ => rw [hscan] at hsp; exact absurd hsp (by simp [ScanSpec])
      | popType _ => rw [hscan] at hsp; exact absurd hsp (by simp [ScanSpec])
  | cons g rest ih =>
    have hB : rbuf ++ dataOf (s.buf.drop cur) = dataOf s.buf := by rw [hr]; exact dataOf_take_drop _ _
    have hsp := scan_spec me seps seplen hlen hpos hinf (s.buf.drop cur) (PureData_drop hs.pure cur) rbuf cur hno
    rw [hB] at hsp
    cases hscan : scan me seps seplen rbuf cur (s.buf.drop cur) with
    | found res nb idx =>
      rw [hscan] at hsp
      exact until_found me seps seplen hne (g :: rest) s hs hc rbuf cur hnp res nb idx hscan hsp
    | more r c =>
      rw [hscan] at hsp
      obtain ⟨m1, m2, m3⟩ := until_more me seps seplen (g :: rest) s hs hc rbuf cur hnp r c hscan hsp hcur
      cases he : s.eof with
      | true =>
        obtain ⟨hD, s', q1, q2⟩ := m2 he
        rw [hD, List.append_nil]
        have hocc : ∀ e, ¬ IsFirstEnd seps (dataOf s.buf) e := by
          rintro e ⟨⟨sep, hsep, p, ho, _⟩, _⟩
          exact m1 p sep hsep ho
        refine ⟨fun e h => absurd h (hocc e), fun _ _ => ⟨s', g :: rest, q1, q2⟩, ?_⟩
        intro _ hec
        simp [eofComing, eofPend, he] at hec
      | false =>
        obtain ⟨hep, _, m4⟩ := m3 he
        rw [m4 g rest rfl]
        have hcl : CleanFrom (eofPend s) (g ++ rest.flatten) := by simpa [Clean] using hc
        obtain ⟨a1, a2, a3, a4⟩ := absorb_clean hs g rest.flatten hcl
        have hnp' : NoPause s ((adata g).length + (sdata rest).length) := by
          simpa [sdata_cons] using hnp
        obtain ⟨items, b1, b2, b3⟩ := absorb_nopause hs g rest.flatten hcl _ hnp'
        have hcur' : s.buf.length ≤ (absorb s g).buf.length := by rw [b1]; simp
        have hr' : dataOf s.buf = dataOf ((absorb s g).buf.take s.buf.length) := by
          rw [b1, List.take_left' rfl]
        have hi := ih (absorb s g) a1 a2 (dataOf s.buf) s.buf.length hcur' hr' m1 b3
        have hS' : dataOf (absorb s g).buf ++ sdata rest = dataOf s.buf ++ sdata (g :: rest) := by
          rw [b1, dataOf_append, b2, sdata_cons, List.append_assoc]
        have hec' : eofComing (absorb s g) rest = eofComing s (g :: rest) := by
          rw [eofComing_cons]; simp [eofComing, a4, Bool.or_assoc]
        rw [hS', hec'] at hi
        exact hi
    | excPartial _ _ => rw [hscan] at hsp; exact absurd hsp (by simp [ScanSpec])
    | excRaise _ _ => rw [hscan] at hsp; exact absurd hsp (by simp [ScanSpec])
    | softEof _ => rw [hscan] at hsp; exact absurd hsp (by simp [ScanSpec])
    | popType _ => rw [hscan] at hsp; exact absurd hsp (by simp [ScanSpec])

/-- a non-empty set of naturals has a least element -/
theorem exists_least (P : Nat → Prop) (h : ∃ e, P e) : ∃ e, P e ∧ ∀ e', P e' → e ≤ e' := by
  obtain ⟨n, hn⟩ := h
  induction n using Nat.strongRecOn with
  | _ n ih =>
    by_cases hc : ∃ m, m < n ∧ P m
    · obtain ⟨m, hm, hpm⟩ := hc
      exact ih m hm hpm
    · refine ⟨n, hn, fun e' he' => ?_⟩
      by_cases hle : n ≤ e'
      · exact hle
      · exact absurd ⟨e', by omega, he'⟩ hc

/-- either some separator occurs, and then there is a shortest prefix ending in one, or none occurs -/
theorem firstEnd_or_noOcc (seps : List Bytes) (t : Bytes) : (∃ e, IsFirstEnd seps t e) ∨ NoOcc seps t := by
  by_cases h : ∃ e, ∃ sep ∈ seps, ∃ p, sep <+: t.drop p ∧ p + sep.length = e
  · left
    obtain ⟨e, he, hmin⟩ := exists_least _ h
    refine ⟨e, he, ?_⟩
    intro p sep hs ho
    exact hmin (p + sep.length) ⟨sep, hs, p, ho, rfl⟩
  · right
    intro p sep hs ho
    exact h ⟨p + sep.length, sep, hs, p, ho, rfl⟩

/-! ### sequences of calls -/

theorem CleanFrom_append {b : Bool} {x y : List Arrival} (h : CleanFrom b (x ++ y)) :
    CleanFrom b x ∧ CleanFrom (b || hasEof x) y := by
  induction x generalizing b with
  | nil => simp [CleanFrom, hasEof]; exact h
  | cons a as ih =>
    cases b with
    | true => simp [CleanFrom] at h
    | false =>
      cases a with
      | data d =>
        simp only [List.cons_append, CleanFrom] at h ⊢
        have := ih h
        simpa [hasEof] using this
      | eof =>
        simp only [List.cons_append, CleanFrom] at h ⊢
        have := ih h
        simpa [hasEof] using this
      | feed d => simp [CleanFrom] at h
      | exc e => simp [CleanFrom] at h

theorem CleanFrom_of_parts {b : Bool} {x y : List Arrival} (hx : CleanFrom b x) (hy : CleanFrom (b || hasEof x) y) :
    CleanFrom b (x ++ y) := by
  induction x generalizing b with
  | nil => simpa [hasEof] using hy
  | cons a as ih =>
    cases b with
    | true => simp [CleanFrom] at hx
    | false =>
      cases a with
      | data d =>
        simp only [List.cons_append, CleanFrom] at hx ⊢
        exact ih hx (by simpa [hasEof] using hy)
      | eof =>
        simp only [List.cons_append, CleanFrom] at hx ⊢
        exact ih hx (by simpa [hasEof] using hy)
      | feed d => simp [CleanFrom] at hx
      | exc e => simp [CleanFrom] at hx

/-- everything a call left in flight arrives before the next call -/
theorem absorbAll_clean (left : Sched) (s : St) (hs : Inv s) (more : List Arrival)
    (hc : CleanFrom (eofPend s) (left.flatten ++ more)) :
    Inv (left.foldl absorb s) ∧ CleanFrom (eofPend (left.foldl absorb s)) more ∧
    pend (left.foldl absorb s) = pend s ++ sdata left ∧
    eofPend (left.foldl absorb s) = eofComing s left := by
  induction left generalizing s with
  | nil => simp [sdata, adata, eofComing, hasEof, hs]; exact hc
  | cons g rest ih =>
    have hc' : CleanFrom (eofPend s) (g ++ (rest.flatten ++ more)) := by simpa [List.append_assoc] using hc
    obtain ⟨a1, a2, a3, a4⟩ := absorb_clean hs g _ hc'
    obtain ⟨i1, i2, i3, i4⟩ := ih (absorb s g) a1 a2
    refine ⟨i1, i2, ?_, ?_⟩
    · show pend (rest.foldl absorb (absorb s g)) = _
      rw [i3, a3, sdata_cons, List.append_assoc]
    · show eofPend (rest.foldl absorb (absorb s g)) = _
      rw [i4, eofComing_cons]; simp [eofComing, a4, Bool.or_assoc]

end AsyncsshModel.Stream
