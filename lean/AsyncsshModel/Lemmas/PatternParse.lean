import AsyncsshModel.Lemmas.KnownHosts
/-
  C17 — every address / network the parsers of Model/PatternIP.lean return is well formed
  (value below 2^bits, prefix length at most bits, no host bits), so the CIDR theorems apply to every
  pattern text without side conditions.
-/
namespace AsyncsshModel.KnownHosts
open AsyncsshModel AsyncsshModel.Pattern

theorem char_le_toNat {c d : Char} (h : c ≤ d) : c.toNat ≤ d.toNat :=
  UInt32.le_iff_toNat_le.mp (Char.le_def.mp h)

theorem hexDigitVal_le (c : Char) : (hexDigitVal c).getD 0 ≤ 15 := by
  unfold hexDigitVal
  split
  · rename_i h; have := char_le_toNat h.2; simp at this ⊢; omega
  · split
    · rename_i h; have := char_le_toNat h.2; simp at this ⊢; omega
    · split
      · rename_i h; have := char_le_toNat h.2; simp at this ⊢; omega
      · simp

theorem hexFold_lt (s : Str) : ∀ acc, s.foldl (fun a c => a * 16 + (hexDigitVal c).getD 0) acc < (acc + 1) * 16 ^ s.length := by
  induction s with
  | nil => intro acc; simp
  | cons c s ih =>
    intro acc
    simp only [List.foldl_cons, List.length_cons]
    have h := ih (acc * 16 + (hexDigitVal c).getD 0)
    have hc := hexDigitVal_le c
    calc _ < (acc * 16 + (hexDigitVal c).getD 0 + 1) * 16 ^ s.length := h
      _ ≤ ((acc + 1) * 16) * 16 ^ s.length := Nat.mul_le_mul_right _ (by omega)
      _ = (acc + 1) * 16 ^ (s.length + 1) := by rw [Nat.pow_succ, Nat.mul_assoc, Nat.mul_comm 16]

theorem parseHextet_lt {s : Str} {v : Nat} (h : parseHextet s = some v) : v < 65536 := by
  unfold parseHextet at h
  split at h
  · cases h
  · split at h
    · cases h
    · split at h
      · cases h
      · rename_i hl
        simp only [Option.some.injEq] at h
        subst h
        have := hexFold_lt s 0
        have hlen : s.length ≤ 4 := by omega
        have : (16 : Nat) ^ s.length ≤ 16 ^ 4 := Nat.pow_le_pow_right (by decide) hlen
        unfold hexVal
        omega

theorem foldHextets_lt : ∀ (l : List Str) (acc k v : Nat), acc < 2 ^ (16 * k) → foldHextets acc l = some v →
    v < 2 ^ (16 * (k + l.length)) := by
  intro l
  induction l with
  | nil => intro acc k v ha h; simp only [foldHextets, Option.some.injEq] at h; subst h; simpa using ha
  | cons x xs ih =>
    intro acc k v ha h
    simp only [foldHextets] at h
    cases hx : parseHextet x with
    | none => simp [hx] at h
    | some w =>
      rw [hx] at h
      simp only at h
      have hw := parseHextet_lt hx
      have : acc * 65536 + w < 2 ^ (16 * (k + 1)) := by
        have e : (2 : Nat) ^ (16 * (k + 1)) = 2 ^ (16 * k) * 65536 := by
          rw [Nat.mul_add, Nat.pow_add]
        rw [e]
        have : (acc + 1) * 65536 ≤ 2 ^ (16 * k) * 65536 := Nat.mul_le_mul_right _ ha
        omega
      have := ih (acc * 65536 + w) (k + 1) v this h
      simpa [List.length_cons, Nat.add_assoc, Nat.add_comm 1] using this

theorem parseOctet_le {s : Str} {v : Nat} (h : parseOctet s = some v) : v ≤ 255 := by
  unfold parseOctet at h
  repeat (split at h; · cases h)
  simp only [Option.some.injEq] at h
  omega

theorem parseIPv4_lt {s : Str} {v : Nat} (h : parseIPv4 s = some v) : v < 2 ^ 32 := by
  unfold parseIPv4 at h
  split at h
  · cases h
  · split at h
    · split at h
      · rename_i a b c d ha hb hc hd
        have := parseOctet_le ha
        have := parseOctet_le hb
        have := parseOctet_le hc
        have := parseOctet_le hd
        simp only [Option.some.injEq] at h
        omega
      · cases h
    · cases h

theorem pow65536 (k : Nat) : 65536 ^ k = 2 ^ (16 * k) := by
  rw [show (65536 : Nat) = 2 ^ 16 by decide, ← Nat.pow_mul]

theorem assemble_lt {parts : List Str} {hi lo v : Nat} (h : assemble parts hi lo = some v) : v < 2 ^ 128 := by
  unfold assemble at h
  split at h
  · cases h
  · rename_i hk
    split at h
    · cases h
    · rename_i v1 h1
      have b1 := foldHextets_lt _ 0 0 v1 (by simp) h1
      simp only [Nat.zero_add] at b1
      have hlen1 : (List.take hi parts).length ≤ hi := by simp [List.length_take]; omega
      have hlen2 : (List.drop (parts.length - lo) parts).length ≤ lo := by
        simp [List.length_drop]; omega
      have b2 : v1 * 65536 ^ (8 - (hi + lo)) < 2 ^ (16 * ((List.take hi parts).length + (8 - (hi + lo)))) := by
        rw [pow65536, Nat.mul_add, Nat.pow_add]
        exact Nat.mul_lt_mul_of_pos_right b1 (Nat.pow_pos (by decide))
      have b3 := foldHextets_lt _ _ _ v b2 h
      refine Nat.lt_of_lt_of_le b3 (Nat.pow_le_pow_right (by decide) ?_)
      omega

theorem ipv6FromParts_lt {parts : List Str} {v : Nat} (h : ipv6FromParts parts = some v) : v < 2 ^ 128 := by
  unfold ipv6FromParts at h
  split at h
  · cases h
  · simp only at h
    split at h
    · cases h
    · split at h
      · cases h
      · split at h
        · cases h
        · exact assemble_lt h
    · split at h
      · cases h
      · rename_i hn
        split at h
        · cases h
        · split at h
          · cases h
          · have hn8 : parts.length = 8 := by simpa using hn
            have := foldHextets_lt _ 0 0 v (by simp) h
            simpa [hn8] using this

theorem parseIPv6_lt {s : Str} {v : Nat} (h : parseIPv6 s = some v) : v < 2 ^ 128 := by
  unfold parseIPv6 at h
  split at h
  · cases h
  · simp only at h
    split at h
    · cases h
    · split at h
      · split at h
        · cases h
        · exact ipv6FromParts_lt h
      · exact ipv6FromParts_lt h

theorem parseAddress_wf {s : Str} {ip : IP} (h : parseAddress s = some ip) : IP.WF ip := by
  unfold parseAddress at h
  split at h
  · cases h
  · split at h
    · rename_i v hv
      simp only [Option.some.injEq] at h
      subst h
      exact parseIPv4_lt hv
    · split at h
      · cases h
      · rename_i a _
        cases h6 : parseIPv6 a with
        | none => simp [h6] at h
        | some v =>
          simp only [h6, Option.map_some, Option.some.injEq] at h
          subst h
          exact parseIPv6_lt h6

theorem strictOk_full {bits v : Nat} (hv : v < 2 ^ bits) : strictOk bits v bits = true := by
  unfold strictOk
  rw [beq_iff_eq]
  apply Nat.eq_of_testBit_eq
  intro i
  rw [Nat.testBit_and, netmask_testBit]
  by_cases hi : i < bits
  · have : ¬ bits + i < bits := by omega
    simp [hi, this]
  · have : v.testBit i = false :=
      Nat.testBit_lt_two_pow (Nat.lt_of_lt_of_le hv (Nat.pow_le_pow_right (by decide) (by omega)))
    simp [this]

theorem prefixFromDigits_le {bits : Nat} {s : Str} {p : Nat} (h : prefixFromDigits bits s = some p) : p ≤ bits := by
  unfold prefixFromDigits at h
  split at h
  · cases h
  · split at h
    · simp only [Option.some.injEq] at h; omega
    · cases h

theorem prefixFromMaskInt_le {bits m p : Nat} (h : prefixFromMaskInt bits m = some p) : p ≤ bits := by
  unfold prefixFromMaskInt at h
  simp only at h
  split at h
  · simp only [Option.some.injEq] at h; omega
  · cases h

theorem prefixV4_le {s : Str} {p : Nat} (h : prefixV4 s = some p) : p ≤ 32 := by
  unfold prefixV4 at h
  split at h
  · rename_i q hq; simp only [Option.some.injEq] at h; subst h; exact prefixFromDigits_le hq
  · split at h
    · cases h
    · split at h
      · rename_i q hq; simp only [Option.some.injEq] at h; subst h; exact prefixFromMaskInt_le hq
      · exact prefixFromMaskInt_le h

/-- every network `ip_network` accepts is well formed -/
theorem parseNetwork_wf {s : Str} {n : Net} (h : parseNetwork s = some n) : Net.WF n := by
  unfold parseNetwork at h
  split at h
  · -- bare address
    rename_i a _
    cases ha : parseAddress a with
    | none => simp [ha] at h
    | some ip =>
      simp only [ha, Option.map_some, Option.some.injEq] at h
      subst h
      exact ⟨Nat.le_refl _, strictOk_full (parseAddress_wf ha)⟩
  · split at h
    · split at h
      · rename_i p hp
        split at h
        · rename_i hs
          simp only [Option.some.injEq] at h
          subst h
          exact ⟨prefixV4_le hp, hs⟩
        · cases h
      · cases h
    · split at h
      · cases h
      · split at h
        · rename_i v p _ hp
          split at h
          · rename_i hs
            simp only [Option.some.injEq] at h
            subst h
            exact ⟨prefixFromDigits_le hp, hs⟩
          · cases h
        · cases h
  · cases h

theorem buildHostPat_wf (s : Str) : HostPat.WF (buildHostPat s) := by
  unfold buildHostPat
  split
  · rename_i n hn; exact parseNetwork_wf hn
  · trivial

theorem parseHostList_wf (t : Str) :
    (∀ p ∈ (parseHostList t).pos, HostPat.WF p) ∧ (∀ p ∈ (parseHostList t).neg, HostPat.WF p) := by
  constructor
  · intro p hp
    obtain ⟨e, _, _, rfl⟩ := (mem_parsePatList_pos buildHostPat t p).mp hp
    exact buildHostPat_wf e
  · intro p hp
    obtain ⟨r, _, rfl⟩ := (mem_parsePatList_neg buildHostPat t p).mp hp
    exact buildHostPat_wf r

/-- the address object `_match` derives is well formed whenever it exists -/
theorem lookupIP_wf {host addr : Str} {ip : Option IP} (h : lookupIP host addr = .ok ip) :
    ∀ a, ip = some a → IP.WF a := by
  intro a ha
  subst ha
  unfold lookupIP at h
  split at h
  · split at h
    · rename_i ip' hp
      simp only [Except.ok.injEq, Option.some.injEq] at h
      subst h
      exact parseAddress_wf hp
    · cases h
  · simp only [Except.ok.injEq] at h
    exact parseAddress_wf h

end AsyncsshModel.KnownHosts
