import AsyncsshModel.Model.Config
/-
  Helper lemmas for C18 about the lexical layer: stepping lemmas for token / environment expansion,
  the unsafe-user filter, and how expansion commutes with splitting a path at `/`.
-/
namespace AsyncsshModel.Config
open AsyncsshModel AsyncsshModel.Path

/-! ### token expansion -/

theorem Except.map_nil_append {ε : Type} (e : Except ε Bytes) : e.map (fun x => [] ++ x) = e := by
  cases e <;> simp [Except.map]

theorem expandTokens_cons_ne (toks : Tokens) (c : UInt8) (s : Bytes) (h : c ≠ chPct) :
    expandTokens toks (c :: s) = (expandTokens toks s).map (c :: ·) := by
  cases s with
  | nil => simp [expandTokens, Except.map]
  | cons d rest => rw [expandTokens]; simp [h]

theorem expandTokens_pct_nl (toks : Tokens) (rest : Bytes) :
    expandTokens toks (chPct :: chNl :: rest) = (expandTokens toks (chNl :: rest)).map (chPct :: ·) := by
  rw [expandTokens]; simp

theorem expandTokens_tok (toks : Tokens) (d : UInt8) (rest : Bytes) (h : d ≠ chNl) :
    expandTokens toks (chPct :: d :: rest) =
      match tokLookup toks d with
      | none => .error .parse
      | some v => (expandTokens toks rest).map (v ++ ·) := by
  rw [expandTokens]; simp only [h, ne_eq, not_false_eq_true, and_self, if_true]
  cases tokLookup toks d <;> rfl

theorem expandTokens_lit (toks : Tokens) (a s : Bytes) (h : chPct ∉ a) :
    expandTokens toks (a ++ s) = (expandTokens toks s).map (a ++ ·) := by
  induction a with
  | nil => simp only [List.nil_append]; exact (Except.map_nil_append _).symm
  | cons c cs ih =>
    have hc : c ≠ chPct := by intro e; apply h; simp [e]
    have hcs : chPct ∉ cs := by intro e; apply h; simp [e]
    rw [List.cons_append, expandTokens_cons_ne _ _ _ hc, ih hcs]
    cases expandTokens toks s <;> simp [Except.map]

theorem expandTokens_no_pct (toks : Tokens) (a : Bytes) (h : chPct ∉ a) :
    expandTokens toks a = .ok a := by
  have := expandTokens_lit toks a [] h
  simpa [expandTokens, Except.map] using this

/-! ### environment expansion -/

theorem expandEnvF_fuel (environ : List (Bytes × Bytes)) :
    ∀ (f f' : Nat) (s : Bytes), s.length < f → s.length < f' →
      expandEnvF environ f s = expandEnvF environ f' s := by
  intro f
  induction f with
  | zero => intro f' s h; omega
  | succ f ih =>
    intro f' s h h'
    cases f' with
    | zero => omega
    | succ f' =>
      match s with
      | [] => simp [expandEnvF]
      | [c] => simp [expandEnvF]
      | c :: d :: rest =>
        simp only [expandEnvF]
        simp only [List.length_cons] at h h'
        split
        · split
          · rename_i n r heq
            have hl := envName_length heq
            rw [ih f' r (by omega) (by omega)]
          · rw [ih f' (d :: rest) (by simp; omega) (by simp; omega)]
        · rw [ih f' (d :: rest) (by simp; omega) (by simp; omega)]

theorem expandEnv_nil (environ : List (Bytes × Bytes)) : expandEnv environ [] = .ok [] := by
  simp [expandEnv, expandEnvF]

theorem expandEnv_cons_ne (environ : List (Bytes × Bytes)) (c : UInt8) (s : Bytes) (h : c ≠ chDollar) :
    expandEnv environ (c :: s) = (expandEnv environ s).map (c :: ·) := by
  cases s with
  | nil => simp [expandEnv, expandEnvF, Except.map]
  | cons d rest =>
    unfold expandEnv
    simp only [List.length_cons, expandEnvF, h, false_and, if_false]

theorem expandEnv_dollar_ne (environ : List (Bytes × Bytes)) (d : UInt8) (s : Bytes) (h : d ≠ chLBrace) :
    expandEnv environ (chDollar :: d :: s) = (expandEnv environ (d :: s)).map (chDollar :: ·) := by
  unfold expandEnv
  simp only [List.length_cons, expandEnvF, h, and_false, if_false]

theorem expandEnv_ref (environ : List (Bytes × Bytes)) (rest n r : Bytes) (h : envName rest = some (n, r)) :
    expandEnv environ (chDollar :: chLBrace :: rest) =
      match envLookup environ n with
      | none => .error .parse
      | some v => (expandEnv environ r).map (v ++ ·) := by
  unfold expandEnv
  simp only [List.length_cons, expandEnvF, and_self, if_true, h]
  have hl := envName_length h
  rw [expandEnvF_fuel environ (rest.length + 1 + 1) (r.length + 1) r (by omega) (by omega)]
  cases envLookup environ n <;> rfl

theorem expandEnv_open_unclosed (environ : List (Bytes × Bytes)) (rest : Bytes) (h : envName rest = none) :
    expandEnv environ (chDollar :: chLBrace :: rest) =
      (expandEnv environ (chLBrace :: rest)).map (chDollar :: ·) := by
  unfold expandEnv
  simp only [List.length_cons, expandEnvF, and_self, if_true, h]

/-- a name without `}` and newline, followed by `}`, is what `(.*?)}` captures -/
theorem envName_of_name (n r : Bytes) (h : ∀ x ∈ n, x ≠ chRBrace ∧ x ≠ chNl) :
    envName (n ++ chRBrace :: r) = some (n, r) := by
  induction n with
  | nil => simp [envName]
  | cons c cs ih =>
    have hc := h c (by simp)
    have := ih (fun x hx => h x (by simp [hx]))
    simp [envName, hc.1, hc.2, this]

theorem expandEnv_lit (environ : List (Bytes × Bytes)) (a s : Bytes) (h : chDollar ∉ a) :
    expandEnv environ (a ++ s) = (expandEnv environ s).map (a ++ ·) := by
  induction a with
  | nil => simp only [List.nil_append]; exact (Except.map_nil_append _).symm
  | cons c cs ih =>
    have hc : c ≠ chDollar := by intro e; apply h; simp [e]
    have hcs : chDollar ∉ cs := by intro e; apply h; simp [e]
    rw [List.cons_append, expandEnv_cons_ne _ _ _ hc, ih hcs]
    cases expandEnv environ s <;> simp [Except.map]

/-! ### spans (`${ ... }`) and the identity of environment expansion without them -/

theorem spanClose_rbrace_iff_envName (s : Bytes) :
    spanClose [chRBrace] s = true ↔ (envName s).isSome := by
  induction s with
  | nil => simp [spanClose, envName]
  | cons c cs ih =>
    unfold spanClose envName
    by_cases h1 : c = chRBrace
    · simp [h1, List.isPrefixOf]
    · by_cases h2 : c = chNl
      · simp [h2, List.isPrefixOf]
        decide
      · have : ([chRBrace].isPrefixOf (c :: cs)) = false := by
          simp [List.isPrefixOf]; intro h; exact h1 h.symm
        simp only [this, Bool.false_or, h1, h2, if_false, bne_iff_ne, ne_eq, not_false_eq_true,
          Bool.and_eq_true, decide_eq_true_eq, true_and]
        rw [ih]
        cases envName cs <;> simp

/-- without a `${ … }` span the environment pass changes nothing -/
theorem expandEnv_id_of_no_span (environ : List (Bytes × Bytes)) (s : Bytes)
    (h : hasSpan [chDollar, chLBrace] [chRBrace] s = false) : expandEnv environ s = .ok s := by
  induction s with
  | nil => exact expandEnv_nil environ
  | cons c cs ih =>
    unfold hasSpan at h
    simp only [Bool.or_eq_false_iff, Bool.and_eq_false_iff] at h
    obtain ⟨h1, h2⟩ := h
    have ihc := ih h2
    by_cases hc : c = chDollar
    · subst hc
      cases cs with
      | nil => simp [expandEnv, expandEnvF]
      | cons d rest =>
        by_cases hd : d = chLBrace
        · subst hd
          have hpre : ([chDollar, chLBrace].isPrefixOf (chDollar :: chLBrace :: rest)) = true := by
            simp [List.isPrefixOf]
          rcases h1 with h1 | h1
          · rw [hpre] at h1; exact absurd h1 (by simp)
          · simp only [List.length_cons, List.length_nil, List.drop_succ_cons, List.drop_zero] at h1
            have hn : envName rest = none := by
              have := not_congr (spanClose_rbrace_iff_envName rest)
              simp only [h1, Bool.false_eq_true, not_false_eq_true, true_iff] at this
              cases h' : envName rest with
              | none => rfl
              | some v => simp [h'] at this
            rw [expandEnv_open_unclosed _ _ hn, ihc]; simp [Except.map]
        · rw [expandEnv_dollar_ne _ _ _ hd, ihc]; simp [Except.map]
    · rw [expandEnv_cons_ne _ _ _ hc, ihc]; simp [Except.map]

/-! ### segment form of the two expansion passes -/

/-- a piece of a value as the token pass sees it: literal text without `%`, or a reference `%c` -/
inductive Seg
  | lit (s : Bytes)
  | tok (c : UInt8)

def Seg.render : Seg → Bytes
  | .lit s => s
  | .tok c => [chPct, c]

def Seg.WF : Seg → Prop
  | .lit s => chPct ∉ s
  | .tok c => c ≠ chNl

def renderSegs (l : List Seg) : Bytes := l.flatMap Seg.render

/-- each reference replaced by its token value, literals kept; `none` when a token is unknown -/
def substSegs (toks : Tokens) : List Seg → Option Bytes
  | [] => some []
  | .lit s :: r => (substSegs toks r).map (s ++ ·)
  | .tok c :: r =>
    match tokLookup toks c with
    | none => none
    | some v => (substSegs toks r).map (v ++ ·)

theorem expandTokens_segs (toks : Tokens) :
    ∀ segs : List Seg, (∀ s ∈ segs, s.WF) →
      expandTokens toks (renderSegs segs) =
        match substSegs toks segs with
        | some r => .ok r
        | none => .error .parse := by
  intro segs
  induction segs with
  | nil => intro _; simp [renderSegs, substSegs, expandTokens]
  | cons sg rest ih =>
    intro hwf
    have ihr := ih (fun s hs => hwf s (List.mem_cons_of_mem _ hs))
    have hsg := hwf sg (List.mem_cons_self ..)
    cases sg with
    | lit s =>
      simp only [Seg.WF] at hsg
      simp only [renderSegs, List.flatMap_cons, Seg.render] at ihr ⊢
      rw [expandTokens_lit _ _ _ hsg, ihr]
      simp only [substSegs]
      cases substSegs toks rest <;> simp [Except.map]
    | tok c =>
      simp only [Seg.WF] at hsg
      simp only [renderSegs, List.flatMap_cons, Seg.render, List.cons_append, List.nil_append] at ihr ⊢
      rw [expandTokens_tok _ _ _ hsg, ihr]
      simp only [substSegs]
      cases tokLookup toks c with
      | none => rfl
      | some v => cases substSegs toks rest <;> simp [Except.map]

/-- a piece of a value as the environment pass sees it: literal text without `$`, or `${name}` -/
inductive ESeg
  | lit (s : Bytes)
  | ref (name : Bytes)

def ESeg.render : ESeg → Bytes
  | .lit s => s
  | .ref n => chDollar :: chLBrace :: (n ++ [chRBrace])

def ESeg.WF : ESeg → Prop
  | .lit s => chDollar ∉ s
  | .ref n => ∀ x ∈ n, x ≠ chRBrace ∧ x ≠ chNl

def renderESegs (l : List ESeg) : Bytes := l.flatMap ESeg.render

def substESegs (environ : List (Bytes × Bytes)) : List ESeg → Option Bytes
  | [] => some []
  | .lit s :: r => (substESegs environ r).map (s ++ ·)
  | .ref n :: r =>
    match envLookup environ n with
    | none => none
    | some v => (substESegs environ r).map (v ++ ·)

theorem expandEnv_segs (environ : List (Bytes × Bytes)) :
    ∀ segs : List ESeg, (∀ s ∈ segs, s.WF) →
      expandEnv environ (renderESegs segs) =
        match substESegs environ segs with
        | some r => .ok r
        | none => .error .parse := by
  intro segs
  induction segs with
  | nil => intro _; simp [renderESegs, substESegs, expandEnv_nil]
  | cons sg rest ih =>
    intro hwf
    have ihr := ih (fun s hs => hwf s (List.mem_cons_of_mem _ hs))
    have hsg := hwf sg (List.mem_cons_self ..)
    cases sg with
    | lit s =>
      simp only [ESeg.WF] at hsg
      simp only [renderESegs, List.flatMap_cons, ESeg.render] at ihr ⊢
      rw [expandEnv_lit _ _ _ hsg, ihr]
      simp only [substESegs]
      cases substESegs environ rest <;> simp [Except.map]
    | ref n =>
      simp only [ESeg.WF] at hsg
      simp only [renderESegs, List.flatMap_cons, ESeg.render, List.cons_append, List.append_assoc,
        List.nil_append] at ihr ⊢
      rw [expandEnv_ref _ _ n _ (envName_of_name n _ hsg), ihr]
      simp only [substESegs]
      cases envLookup environ n with
      | none => rfl
      | some v => cases substESegs environ rest <;> simp [Except.map]

/-! ### the unsafe-user filter -/

theorem unsafeUser_false_of_mem {alts : List UserPat} {u : Bytes} {a : UserPat}
    (ha : a ∈ alts) (h : unsafeUser alts u = false) : a.matches u = false := by
  unfold unsafeUser at h
  rw [List.any_eq_false] at h
  simpa using h a ha

/-! ### splitting at `/` commutes with token expansion when no token value contains `/` -/

theorem splitSlash_ne_nil (s : Bytes) : splitSlash s ≠ [] := by
  cases s with
  | nil => simp [splitSlash]
  | cons c cs =>
    unfold splitSlash
    split
    · simp
    · split <;> simp

theorem splitSlash_cons_ne (c : UInt8) (s : Bytes) (h : c ≠ slash) :
    splitSlash (c :: s) = (c :: (splitSlash s).headD []) :: (splitSlash s).tail := by
  have hne := splitSlash_ne_nil s
  rw [splitSlash]
  simp only [h, if_false]
  cases hs : splitSlash s with
  | nil => exact absurd hs hne
  | cons a t => simp

theorem splitSlash_append_noslash (v s : Bytes) (h : slash ∉ v) :
    splitSlash (v ++ s) = (v ++ (splitSlash s).headD []) :: (splitSlash s).tail := by
  induction v with
  | nil =>
    have hne := splitSlash_ne_nil s
    cases hs : splitSlash s with
    | nil => exact absurd hs hne
    | cons a t => simp [hs]
  | cons c cs ih =>
    have hc : c ≠ slash := by intro e; apply h; simp [e]
    have hcs : slash ∉ cs := by intro e; apply h; simp [e]
    rw [List.cons_append, splitSlash_cons_ne _ _ hc, ih hcs]
    simp


/-- the two lists have the same length and corresponding elements are related -/
inductive AllPairs {α β : Type} (R : α → β → Prop) : List α → List β → Prop
  | nil : AllPairs R [] []
  | cons {a : α} {b : β} {as : List α} {bs : List β} : R a b → AllPairs R as bs → AllPairs R (a :: as) (b :: bs)

theorem AllPairs.length_eq {α β : Type} {R : α → β → Prop} {l : List α} {l' : List β}
    (h : AllPairs R l l') : l.length = l'.length := by
  induction h with
  | nil => rfl
  | cons _ _ ih => simp [ih]

theorem tokLookup_mem {toks : Tokens} {d : UInt8} {v : Bytes} (h : tokLookup toks d = some v) :
    (d, v) ∈ toks := by
  unfold tokLookup at h
  cases hf : toks.find? (fun p => p.1 = d) with
  | none => simp [hf] at h
  | some p =>
    simp [hf] at h
    have hm := List.mem_of_find?_eq_some hf
    have hp := List.find?_some hf
    simp at hp
    rw [← h, ← hp]; exact hm

/-- **expansion keeps the component structure**: when no token value contains `/` (and no token is
    named `/`), the `/`-components of the expanded text are the expansions of the `/`-components of the
    template, one by one. -/
theorem expandTokens_splitSlash (toks : Tokens)
    (hv : ∀ p ∈ toks, slash ∉ p.2) (hk : ∀ p ∈ toks, p.1 ≠ slash) :
    ∀ (t r : Bytes), expandTokens toks t = .ok r →
      AllPairs (fun c c' => expandTokens toks c = .ok c') (splitSlash t) (splitSlash r)
  | [], r, h => by
    simp [expandTokens] at h; subst h
    simp only [splitSlash]
    exact AllPairs.cons (by simp [expandTokens]) AllPairs.nil
  | [c], r, h => by
    simp [expandTokens] at h; subst h
    by_cases hc : c = slash
    · simp only [splitSlash, hc, if_true]
      exact AllPairs.cons (by simp [expandTokens]) (AllPairs.cons (by simp [expandTokens]) AllPairs.nil)
    · simp only [splitSlash, hc, if_false]
      exact AllPairs.cons (by simp [expandTokens]) AllPairs.nil
  | c :: d :: rest, r, h => by
    by_cases htok : c = chPct ∧ d ≠ chNl
    · obtain ⟨hc, hdnl⟩ := htok
      subst hc
      rw [expandTokens_tok _ _ _ hdnl] at h
      cases hl : tokLookup toks d with
      | none => simp [hl] at h
      | some v =>
        simp only [hl] at h
        cases hr : expandTokens toks rest with
        | error e => simp [hr, Except.map] at h
        | ok r' =>
          simp [hr, Except.map] at h; subst h
          have hmem := tokLookup_mem hl
          have hvs : slash ∉ v := hv _ hmem
          have hds : d ≠ slash := hk _ hmem
          have ih := expandTokens_splitSlash toks hv hk rest r' hr
          have hp : chPct ≠ slash := by decide
          rw [splitSlash_cons_ne _ _ hp, splitSlash_cons_ne _ _ hds, splitSlash_append_noslash _ _ hvs]
          have hne := splitSlash_ne_nil rest
          have hne' := splitSlash_ne_nil r'
          cases hs : splitSlash rest with
          | nil => exact absurd hs hne
          | cons hd tl =>
            cases hs' : splitSlash r' with
            | nil => exact absurd hs' hne'
            | cons hd' tl' =>
              rw [hs, hs'] at ih
              cases ih with
              | cons h1 h2 =>
                simp only [List.headD_cons, List.tail_cons]
                refine AllPairs.cons ?_ h2
                rw [expandTokens_tok _ _ _ hdnl, hl]
                simp [h1, Except.map]
    · have hstep : expandTokens toks (c :: d :: rest) = (expandTokens toks (d :: rest)).map (c :: ·) := by
        rw [expandTokens]; simp only [htok, if_false]
      rw [hstep] at h
      cases hr : expandTokens toks (d :: rest) with
      | error e => simp [hr, Except.map] at h
      | ok r'' =>
        simp [hr, Except.map] at h; subst h
        have ih := expandTokens_splitSlash toks hv hk (d :: rest) r'' hr
        by_cases hc : c = slash
        · subst hc
          have e1 : splitSlash (slash :: d :: rest) = [] :: splitSlash (d :: rest) := by
            rw [splitSlash]; simp
          have e2 : splitSlash (slash :: r'') = [] :: splitSlash r'' := by
            rw [splitSlash]; simp
          rw [e1, e2]
          exact AllPairs.cons (by simp [expandTokens]) ih
        · rw [splitSlash_cons_ne _ _ hc, splitSlash_cons_ne c r'' hc]
          have hne := splitSlash_ne_nil (d :: rest)
          have hne' := splitSlash_ne_nil r''
          cases hs : splitSlash (d :: rest) with
          | nil => exact absurd hs hne
          | cons hd tl =>
            cases hs' : splitSlash r'' with
            | nil => exact absurd hs' hne'
            | cons hd' tl' =>
              rw [hs, hs'] at ih
              cases ih with
              | cons h1 h2 =>
                simp only [List.headD_cons, List.tail_cons]
                refine AllPairs.cons ?_ h2
                by_cases hcp : c = chPct
                · -- then `d` is a newline, and the component starts with it
                  have hdn : d = chNl := by
                    by_cases hdn : d = chNl
                    · exact hdn
                    · exact absurd ⟨hcp, hdn⟩ htok
                  subst hcp; subst hdn
                  have hnl : chNl ≠ slash := by decide
                  rw [splitSlash_cons_ne _ _ hnl] at hs
                  simp only [List.cons.injEq] at hs
                  rw [← hs.1] at h1 ⊢
                  rw [expandTokens_pct_nl, h1]; simp [Except.map]
                · rw [expandTokens_cons_ne _ _ _ hcp, h1]; simp [Except.map]

end AsyncsshModel.Config
