import AsyncsshModel.Model.ChannelDecode
import AsyncsshModel.Lemmas.ChannelCodec
import AsyncsshModel.Lemmas.ChannelStep
import AsyncsshModel.Lemmas.ChannelRun
/-
  The text layer with one decoder per data type (`Model/ChannelDecode.lean`):

  * per data type, what `_deliver_data` hands to the session is what ONE decoder makes of the chunks of that data
    type alone (`decodeChunksPer_proj`), and the whole decodes iff every data type does (`decodeChunksPer_some`);
  * hence: text per data type is a function of the BYTES per data type — wherever packets are cut, and whatever
    packets of other data types arrive in between (`text_per_datatype`);
  * after the application's `close()` no event whatsoever makes the text layer raise (`quiet_run`).
-/
namespace AsyncsshModel.ChannelCodec
open AsyncsshModel AsyncsshModel.Channel

/-! ### the decoder table -/

theorem decsGet_set (ds : Decs) (dt t : DType) (st : St) :
    decsGet (decsSet ds dt st) t = if dt = t then st else decsGet ds t := by
  induction ds with
  | nil => simp [decsSet, decsGet]
  | cons p rest ih =>
    obtain ⟨k, s⟩ := p
    simp only [decsSet]
    by_cases hk : k = dt
    · subst hk
      simp only [if_true, decsGet]
      by_cases hkt : k = t <;> simp [hkt]
    · simp only [hk, if_false, decsGet, ih]
      by_cases hkt : k = t
      · subst hkt
        simp [Ne.symm hk]
      · simp [hkt]

theorem decsGet_reset (ds : Decs) (t : DType) : decsGet (decsReset ds) t = .s0 := by
  induction ds with
  | nil => rfl
  | cons p rest ih =>
    obtain ⟨k, s⟩ := p
    simp only [decsReset, List.map_cons, decsGet]
    split
    · rfl
    · exact ih

/-- all decoders are in their initial state -/
def AllInit (ds : Decs) : Prop := ∀ t, decsGet ds t = .s0

theorem AllInit.finalOk {ds : Decs} (h : AllInit ds) : decsFinalOk ds = true := by
  unfold decsFinalOk
  rw [List.all_eq_true]
  intro p _
  rw [h p.1]
  rfl

theorem allInit_nil : AllInit [] := fun _ => rfl
theorem allInit_reset (ds : Decs) : AllInit (decsReset ds) := fun t => decsGet_reset ds t

/-! ### per data type, the table behaves like one decoder over the chunks of that data type -/

/-- the chunks of one data type -/
def chunksOfType (t : DType) (b : Buf) : Buf := b.filter (fun p => decide (p.2 = t))
/-- the callbacks of one data type -/
def outsOfType (t : DType) (o : List (List Nat × DType)) : List (List Nat × DType) :=
  o.filter (fun p => decide (p.2 = t))

theorem bytesOf_chunksOfType (t : DType) (b : Buf) : bytesOf (chunksOfType t b) = bytesOfType t b := by
  induction b with
  | nil => rfl
  | cons p rest ih =>
    obtain ⟨bs, dt⟩ := p
    simp only [chunksOfType, List.filter_cons, bytesOfType]
    by_cases h : dt = t
    · simp only [h, decide_true, if_true, bytesOf, List.flatMap_cons]
      have := ih
      simp only [chunksOfType, bytesOf] at this
      rw [this]
    · simp only [h, decide_false, if_false]
      exact ih

/-- **Projection**: when the per-data-type decoding of a chunk sequence succeeds, then for every data type `t` the
    decoder of `t` went through exactly the chunks of type `t`, as a single decoder would, and the callbacks of
    type `t` carry what that decoder produced. -/
theorem decodeChunksPer_proj (t : DType) : ∀ (b : Buf) (ds ds' : Decs) (outs : List (List Nat × DType)),
    decodeChunksPer ds b = some (ds', outs) →
    decodeChunks (decsGet ds t) (chunksOfType t b) = some (decsGet ds' t, outsOfType t outs)
  | [], ds, ds', outs, h => by
    simp only [decodeChunksPer, decodeChunksV, Option.some.injEq, Prod.mk.injEq] at h
    obtain ⟨rfl, rfl⟩ := h
    rfl
  | (bs, dt) :: rest, ds, ds', outs, h => by
    simp only [decodeChunksPer, decodeChunksV, deliverTextV, Variant.now, Variant.key, if_true] at h
    cases hd : decode (decsGet ds dt) bs with
    | none => simp [hd] at h
    | some r =>
      obtain ⟨st1, cps⟩ := r
      simp only [hd] at h
      cases hr : decodeChunksV { perType := true, resetOnDiscard := true } (decsSet ds dt st1) rest with
      | none => simp [hr] at h
      | some r2 =>
        obtain ⟨ds2, outs2⟩ := r2
        simp only [hr, Option.some.injEq, Prod.mk.injEq] at h
        obtain ⟨rfl, rfl⟩ := h
        have ih := decodeChunksPer_proj t rest (decsSet ds dt st1) ds2 outs2 hr
        rw [decsGet_set] at ih
        by_cases hdt : dt = t
        · subst hdt
          simp only [if_true] at ih
          simp only [chunksOfType, outsOfType, List.filter_cons, decide_true, if_true, decodeChunks, hd]
          simp only [chunksOfType, outsOfType] at ih
          rw [ih]
        · simp only [hdt, if_false] at ih
          simp only [chunksOfType, outsOfType, List.filter_cons, hdt, decide_false]
          exact ih

/-- **Completeness**: if, for every data type, a single decoder accepts the chunks of that data type, the
    per-data-type decoding of the interleaved sequence succeeds — a chunk of one data type never disturbs the
    decoding of another. -/
theorem decodeChunksPer_some : ∀ (b : Buf) (ds : Decs),
    (∀ t, ∃ r, decodeChunks (decsGet ds t) (chunksOfType t b) = some r) → ∃ r, decodeChunksPer ds b = some r
  | [], ds, _ => ⟨(ds, []), rfl⟩
  | (bs, dt) :: rest, ds, h => by
    obtain ⟨r, hr⟩ := h dt
    simp only [chunksOfType, List.filter_cons, decide_true, if_true, decodeChunks] at hr
    cases hd : decode (decsGet ds dt) bs with
    | none => simp [hd] at hr
    | some r1 =>
      obtain ⟨st1, cps⟩ := r1
      simp only [hd] at hr
      have hrest : ∀ t, ∃ r, decodeChunks (decsGet (decsSet ds dt st1) t) (chunksOfType t rest) = some r := by
        intro t
        rw [decsGet_set]
        by_cases hdt : dt = t
        · subst hdt
          simp only [if_true]
          cases h2 : decodeChunks st1 (List.filter (fun p => decide (p.2 = dt)) rest) with
          | none => simp [h2] at hr
          | some r2 => exact ⟨r2, h2⟩
        · simp only [hdt, if_false]
          obtain ⟨r2, h2⟩ := h t
          simp only [chunksOfType, List.filter_cons, hdt, decide_false] at h2
          exact ⟨r2, h2⟩
      obtain ⟨r3, h3⟩ := decodeChunksPer_some rest (decsSet ds dt st1) hrest
      obtain ⟨ds3, outs3⟩ := r3
      refine ⟨(ds3, (cps, dt) :: outs3), ?_⟩
      simp only [decodeChunksPer, decodeChunksV, deliverTextV, Variant.now, Variant.key, if_true, hd]
      simp only [decodeChunksPer, Variant.now] at h3
      rw [h3]

/-- code points written with data type `t`, in order -/
def cpsOfType (t : DType) (writes : List (List Nat × DType)) : List Nat := textOf (outsOfType t writes)

theorem encStr_append (a b : List Nat) : encStr (a ++ b) = encStr a ++ encStr b := by
  simp [encStr]

theorem bytesOfType_writes (t : DType) (writes : List (List Nat × DType)) :
    bytesOfType t (writes.map (fun w => (encStr w.1, w.2))) = encStr (cpsOfType t writes) := by
  induction writes with
  | nil => rfl
  | cons w rest ih =>
    obtain ⟨cps, dt⟩ := w
    simp only [List.map_cons, bytesOfType, cpsOfType, outsOfType, List.filter_cons]
    by_cases h : dt = t
    · simp only [h, decide_true, if_true, textOf, List.flatMap_cons, encStr_append]
      have := ih
      simp only [cpsOfType, outsOfType, textOf] at this
      rw [this]
    · simp only [h, decide_false, if_false]
      exact ih

/-- **Text per data type is a function of the bytes per data type.**  If for every data type the delivered chunks
    carry the bytes of the strings written with that data type (what the stream invariant gives, per data type,
    once everything is delivered — however the sender cut the bytes into packets and however packets of different
    data types are interleaved, also in the middle of a character), then the per-data-type decoding succeeds, the
    text handed to `data_received` with each data type is exactly the text written with it, and the final
    `decode(b'', True)` of every decoder succeeds. -/
theorem text_per_datatype (writes : List (List Nat × DType)) (hsc : ∀ w ∈ writes, ∀ cp ∈ w.1, isScalar cp)
    (delivered : Buf)
    (hst : ∀ t, bytesOfType t delivered = bytesOfType t (writes.map (fun w => (encStr w.1, w.2)))) :
    ∃ ds outs, decodeChunksPer [] delivered = some (ds, outs) ∧
      (∀ t, textOf (outsOfType t outs) = cpsOfType t writes) ∧ AllInit ds := by
  have hper : ∀ t, ∃ o, decodeChunks .s0 (chunksOfType t delivered) = some (.s0, o) ∧ textOf o = cpsOfType t writes := by
    intro t
    have hfl := decodeChunks_flatten .s0 (chunksOfType t delivered)
    rw [bytesOf_chunksOfType, hst t, bytesOfType_writes] at hfl
    have hsc' : ∀ cp ∈ cpsOfType t writes, isScalar cp := by
      intro cp hcp
      simp only [cpsOfType, textOf, outsOfType, List.mem_flatMap, List.mem_filter] at hcp
      obtain ⟨w, ⟨hw, _⟩, hcp⟩ := hcp
      exact hsc w hw cp hcp
    rw [decode_encStr _ hsc'] at hfl
    cases hd : decodeChunks .s0 (chunksOfType t delivered) with
    | none => simp [hd] at hfl
    | some r =>
      obtain ⟨st, o⟩ := r
      simp only [hd, Option.map_some, Option.some.injEq, Prod.mk.injEq] at hfl
      obtain ⟨rfl, ho⟩ := hfl
      exact ⟨o, rfl, ho⟩
  obtain ⟨r, hr⟩ := decodeChunksPer_some delivered [] (fun t => by
    obtain ⟨o, ho, _⟩ := hper t
    exact ⟨_, ho⟩)
  obtain ⟨ds, outs⟩ := r
  refine ⟨ds, outs, hr, ?_, ?_⟩
  · intro t
    obtain ⟨o, ho, htxt⟩ := hper t
    have hp := decodeChunksPer_proj t delivered [] ds outs hr
    simp only [decsGet] at hp
    rw [ho] at hp
    simp only [Option.some.injEq, Prod.mk.injEq] at hp
    rw [← hp.2]; exact htxt
  · intro t
    obtain ⟨o, ho, _⟩ := hper t
    have hp := decodeChunksPer_proj t delivered [] ds outs hr
    simp only [decsGet] at hp
    rw [ho] at hp
    simp only [Option.some.injEq, Prod.mk.injEq] at hp
    exact hp.1.symm

/-! ### after the application's `close()` the text layer never raises -/

/-- the application has closed the channel: the send half is `close_pending` / `closed` (so `_accept_data` drops
    everything), the receive buffer was discarded -/
structure QuietC (c : Chan) : Prop where
  wf : WF c
  closed : c.sendState = .closePending ∨ c.sendState = .closed
  empty : c.recvBuf = []

theorem feedOuts_tail (v : Variant) (flush : Bool) (ds : Decs) (h : AllInit ds) (os : List Out) (ht : OutTail os) :
    ∃ outs, feedOutsV v flush ds os = (outs, some ds) ∧ ∀ o ∈ outs, o = TOut.eof ∨ o = TOut.lost := by
  have hf := h.finalOk
  rcases ht with rfl | rfl | rfl | rfl
  · exact ⟨[], rfl, by simp⟩
  · exact ⟨[.eof], by simp [feedOutsV, hf], by simp⟩
  · exact ⟨[.lost], by simp [feedOutsV, hf], by simp⟩
  · exact ⟨[.eof, .lost], by simp [feedOutsV, hf], by simp⟩

theorem sendState_quiet {c c' : Chan} (h : c.sendState = .closePending ∨ c.sendState = .closed)
    (ht : c'.sendState = c.sendState ∨ (c.sendState = .opn ∧ (c'.sendState = .eofPending ∨ c'.sendState = .eof)) ∨
      (c.sendState = .eofPending ∧ c'.sendState = .eof) ∨ (c.sendState = .closePending ∧ c'.sendState = .closed)) :
    c'.sendState = .closePending ∨ c'.sendState = .closed := by
  rcases ht with h1 | ⟨h1, _⟩ | ⟨h1, _⟩ | ⟨_, h1⟩
  · rw [h1]; exact h
  · rcases h with h | h <;> rw [h] at h1 <;> cases h1
  · rcases h with h | h <;> rw [h] at h1 <;> cases h1
  · exact Or.inr h1

/-- a `_flush_recv_buf` on a quiet endpoint: no data callback, still quiet -/
theorem quiet_flushRecv {c0 c' : Chan} {ms : List Msg} {os : List Out} (hw : WFs c0)
    (hcl : c0.sendState = .closePending ∨ c0.sendState = .closed) (he : c0.recvBuf = [])
    (h : flushRecv c0 = some (c', ms, os)) :
    (c'.sendState = .closePending ∨ c'.sendState = .closed) ∧ c'.recvBuf = [] ∧ OutTail os := by
  have sp := flushRecv_spec c0 c' ms os hw h
  refine ⟨sendState_quiet hcl sp.eff.sendTrans, ?_, sp.noData he⟩
  have := sp.bufLen
  rw [he] at this
  exact List.eq_nil_of_length_eq_zero (by simpa using this)

/-- **A quiet endpoint stays quiet and makes no data callback**, whatever happens next. -/
theorem quiet_step {c c' : Chan} {ev : Ev} {ms : List Msg} {os : List Out} (hq : QuietC c)
    (h : step c ev = .ok (c', ms, os)) : QuietC c' ∧ OutTail os := by
  have hwf' : WF c' := step_wf c c' ev ms os hq.wf h
  have hnopn : c.sendState ≠ .opn := by
    rcases hq.closed with h1 | h1 <;> rw [h1] <;> simp
  suffices hs : (c'.sendState = .closePending ∨ c'.sendState = .closed) ∧ c'.recvBuf = [] ∧ OutTail os from
    ⟨⟨hwf', hs.1, hs.2.1⟩, hs.2.2⟩
  cases ev with
  | write dt bs =>
    simp [step, hnopn] at h
  | writeEof =>
    obtain ⟨h1, rfl⟩ := step_writeEof_ok h
    simp only [writeEof, hnopn, if_false, Option.some.injEq, Prod.mk.injEq] at h1
    obtain ⟨rfl, _⟩ := h1
    exact ⟨hq.closed, hq.empty, Or.inl rfl⟩
  | close =>
    obtain ⟨c1, ms1, hc1, hc2⟩ := step_close_ok h
    have hc1' : c1 = c := by
      rcases hc1 with ⟨h1, h2, _⟩ | ⟨_, h1, _⟩
      · rcases hq.closed with h3 | h3
        · exact absurd h3 h1
        · exact absurd h3 h2
      · exact h1
    subst hc1'
    rcases hc2 with ⟨_, rfl, _, rfl⟩ | ⟨_, rfl, _, rfl⟩
    · have ds := discardRecv_spec c1
      refine ⟨by rw [ds.sendState]; exact hq.closed, ds.recvBuf, ?_⟩
      rcases ds.fired with ⟨h1, _⟩ | ⟨h1, _⟩
      · rw [h1]; exact Or.inr (Or.inr (Or.inl rfl))
      · rw [h1]; exact Or.inl rfl
    · exact ⟨hq.closed, hq.empty, Or.inl rfl⟩
  | pause =>
    simp only [step, Except.ok.injEq, Prod.mk.injEq] at h
    obtain ⟨rfl, _, rfl⟩ := h
    exact ⟨hq.closed, hq.empty, Or.inl rfl⟩
  | resume =>
    simp only [step] at h
    split at h
    · exact quiet_flushRecv (c0 := { c with recvPaused := .no }) ⟨hq.wf.s.1, hq.wf.s.2⟩ hq.closed hq.empty (liftRecv_ok h)
    · simp only [Except.ok.injEq, Prod.mk.injEq] at h
      obtain ⟨rfl, _, rfl⟩ := h
      exact ⟨hq.closed, hq.empty, Or.inl rfl⟩
  | armPause k =>
    simp only [step, Except.ok.injEq, Prod.mk.injEq] at h
    obtain ⟨rfl, _, rfl⟩ := h
    exact ⟨hq.closed, hq.empty, Or.inl rfl⟩
  | startReading =>
    simp only [step] at h
    split at h
    · exact quiet_flushRecv (c0 := { c with recvPaused := .no }) ⟨hq.wf.s.1, hq.wf.s.2⟩ hq.closed hq.empty (liftRecv_ok h)
    · simp only [Except.ok.injEq, Prod.mk.injEq] at h
      obtain ⟨rfl, _, rfl⟩ := h
      exact ⟨hq.closed, hq.empty, Or.inl rfl⟩
  | recv m =>
    cases m with
    | data dt bs =>
      simp only [step, recvMsg] at h
      split at h
      · cases h
      · split at h
        · cases h
        · split at h
          · cases h
          · simp only [Except.ok.injEq] at h
            have hd : ∃ ms0, acceptData c bs dt = (c, ms0, []) := by
              unfold acceptData
              split
              · exact ⟨[], rfl⟩
              · rw [if_pos hq.closed]; exact ⟨_, rfl⟩
            obtain ⟨ms0, hd⟩ := hd
            rw [hd] at h
            simp only [Prod.mk.injEq] at h
            obtain ⟨rfl, _, rfl⟩ := h
            exact ⟨hq.closed, hq.empty, Or.inl rfl⟩
    | adjust n =>
      simp only [step, recvMsg] at h
      split at h
      · cases h
      · obtain ⟨h1, rfl⟩ := liftSend_ok h
        have sp := flushSend_spec { c with sendWindow := c.sendWindow + n } _ _ ⟨hq.wf.s.1, hq.wf.s.2⟩ h1
        refine ⟨?_, by rw [sp.same.recvBuf]; exact hq.empty, Or.inl rfl⟩
        rcases sp.trans with h2 | ⟨h2, _⟩ | ⟨_, h2⟩
        · rw [h2]; exact hq.closed
        · rcases hq.closed with h3 | h3 <;> simp only [h3] at h2 <;> cases h2
        · exact Or.inr h2
    | eof =>
      simp only [step, recvMsg] at h
      split at h
      · cases h
      · exact quiet_flushRecv (c0 := { c with recvState := .eofPending }) ⟨hq.wf.s.1, hq.wf.s.2⟩ hq.closed hq.empty (liftRecv_ok h)
    | close =>
      simp only [step, recvMsg] at h
      split at h
      · cases h
      · have cs := closeSend_spec c hq.wf.s
        obtain ⟨hsame, _, _, hst, _, _, _, _, hwfs⟩ := cs
        split at h
        · cases h
        · rename_i c2 ms2 os2 hfr
          simp only [Except.ok.injEq, Prod.mk.injEq] at h
          obtain ⟨rfl, _, rfl⟩ := h
          refine quiet_flushRecv (c0 := { (closeSend c).1 with
              recvEofPending := decide (c.recvState = .eofPending), recvState := .closePending })
            ⟨hwfs.chanOpen, hwfs.drained⟩ (Or.inr hst) (by simp only; rw [hsame.recvBuf]; exact hq.empty) hfr

/-- the application's `close()` on a channel whose receive half is not closed yet makes the endpoint quiet -/
theorem close_quiet {c c' : Chan} {ms : List Msg} {os : List Out} (hw : WF c) (hr : c.recvState ≠ .closed)
    (h : step c .close = .ok (c', ms, os)) : QuietC c' ∧ OutTail os := by
  have hwf' : WF c' := step_wf c c' .close ms os hw h
  obtain ⟨c1, ms1, hc1, hc2⟩ := step_close_ok h
  have hs1 : (c1.sendState = .closePending ∨ c1.sendState = .closed) ∧ c1.recvState = c.recvState := by
    rcases hc1 with ⟨_, hnc, hf⟩ | ⟨h1, rfl, _⟩
    · have hop : c.sendChanOpen = true := hw.s.chanOpen.mpr hnc
      have hw0 : WFs { c with sendEofPending := decide (c.sendState = .eofPending), sendState := .closePending } :=
        ⟨by simp [hop], by intro h2; simp at h2⟩
      have sp := flushSend_spec _ _ _ hw0 hf
      refine ⟨?_, sp.same.recvState⟩
      rcases sp.trans with h2 | ⟨h2, _⟩ | ⟨_, h2⟩
      · exact Or.inl h2
      · cases h2
      · exact Or.inr h2
    · exact ⟨h1, rfl⟩
  rcases hc2 with ⟨_, rfl, _, rfl⟩ | ⟨h2, _, _, _⟩
  · have ds := discardRecv_spec c1
    refine ⟨⟨hwf', by rw [ds.sendState]; exact hs1.1, ds.recvBuf⟩, ?_⟩
    rcases ds.fired with ⟨h1, _⟩ | ⟨h1, _⟩
    · rw [h1]; exact Or.inr (Or.inr (Or.inl rfl))
    · rw [h1]; exact Or.inl rfl
  · rw [hs1.2] at h2; exact absurd h2 hr

/-- a quiet text endpoint: closed by its application, every decoder in its initial state -/
structure QuietT (tc : TChan) : Prop where
  c : QuietC tc.c
  ds : AllInit tc.ds

theorem discardDecs_allInit (v : Variant) (c : Chan) (ev : Ev) (ds : Decs) (h : AllInit ds) :
    AllInit (discardDecs v c ev ds) := by
  unfold discardDecs
  split
  · exact allInit_reset ds
  · exact h

/-- a step of a quiet text endpoint never raises a decode error, makes no `data_received` call and leaves the
    endpoint quiet (any variant: nothing is decoded) -/
theorem quiet_tstep (v : Variant) (tc : TChan) (hq : QuietT tc) (ev : Ev) :
    (∃ tc' ms outs, tstepV v tc ev = .ok tc' ms outs ∧ QuietT tc' ∧ ∀ o ∈ outs, o = TOut.eof ∨ o = TOut.lost) ∨
    (∃ e, tstepV v tc ev = .error e) := by
  unfold tstepV
  cases hs : step tc.c ev with
  | error e => exact Or.inr ⟨e, rfl⟩
  | ok r =>
    obtain ⟨c', ms, os⟩ := r
    obtain ⟨hq', ht⟩ := quiet_step hq.c hs
    have hd := discardDecs_allInit v tc.c ev tc.ds hq.ds
    obtain ⟨outs, hf, ho⟩ := feedOuts_tail v (decide (ev ≠ .close)) _ hd os ht
    left
    refine ⟨{ c := c', ds := discardDecs v tc.c ev tc.ds }, ms, outs, ?_, ⟨hq', hd⟩, ho⟩
    simp only [hf]

/-- **No decode error after the application closed**: from a quiet text endpoint no sequence of events — packets
    of any kind from the peer, further application calls — ends in a decode error. -/
theorem quiet_run (v : Variant) : ∀ (evs : List Ev) (tc : TChan), QuietT tc → trunDecodeErrorV v tc evs = false
  | [], _, _ => rfl
  | ev :: rest, tc, hq => by
    unfold trunDecodeErrorV
    rcases quiet_tstep v tc hq ev with ⟨tc', ms, outs, hst, hq', _⟩ | ⟨e, hst⟩
    · rw [hst]; exact quiet_run v rest tc' hq'
    · rw [hst]
      simp only
      split
      · exact quiet_run v rest tc hq
      · rfl

/-- the application's `close()` itself: no final decode, the decoders are reset, the endpoint is quiet -/
theorem close_tstep (tc : TChan) (hw : WF tc.c) (hr : tc.c.recvState ≠ .closed) :
    (∃ tc' ms outs, tstep tc .close = .ok tc' ms outs ∧ QuietT tc') ∨ (∃ e, tstep tc .close = .error e) := by
  unfold tstep tstepV
  cases hs : step tc.c .close with
  | error e => exact Or.inr ⟨e, rfl⟩
  | ok r =>
    obtain ⟨c', ms, os⟩ := r
    obtain ⟨hq', ht⟩ := close_quiet hw hr hs
    have hd : AllInit (discardDecs .now tc.c .close tc.ds) := by
      unfold discardDecs
      rw [if_pos ⟨rfl, hr, rfl⟩]
      exact allInit_reset tc.ds
    obtain ⟨outs, hf, _⟩ := feedOuts_tail .now (decide (Ev.close ≠ .close)) _ hd os ht
    left
    refine ⟨{ c := c', ds := discardDecs .now tc.c .close tc.ds }, ms, outs, ?_, ⟨hq', hd⟩⟩
    simp only [hf]

end AsyncsshModel.ChannelCodec
