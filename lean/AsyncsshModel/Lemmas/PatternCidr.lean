import AsyncsshModel.Lemmas.Pattern
/-
  C17 — CIDR containment: the masked comparison of `ipaddress` equals "the top `plen` bits agree",
  and pattern-list helper lemmas.
-/
namespace AsyncsshModel.Pattern
open AsyncsshModel

theorem netmask_testBit (bits plen i : Nat) :
    (netmask bits plen).testBit i = (decide (i < bits) && !decide (plen + i < bits)) := by
  unfold netmask
  rw [Nat.testBit_xor, Nat.testBit_shiftRight, Nat.testBit_two_pow_sub_one, Nat.testBit_two_pow_sub_one]
  by_cases h1 : i < bits <;> by_cases h2 : plen + i < bits <;> simp [h1, h2]
  omega

/-- a network address that passed the strict test has no bit outside the prefix -/
theorem strict_bits {bits addr plen : Nat} (hs : strictOk bits addr plen = true) (i : Nat)
    (hi : addr.testBit i = true) : i < bits ∧ ¬ plen + i < bits := by
  unfold strictOk at hs
  have h := congrArg (fun x => x.testBit i) (beq_iff_eq.mp hs)
  simp only [Nat.testBit_and, netmask_testBit, hi, Bool.true_and] at h
  by_cases h1 : i < bits <;> by_cases h2 : plen + i < bits <;> simp [h1, h2] at h ⊢

/-- **masked comparison = prefix comparison** for a strict network and an address of the same width -/
theorem masked_eq_iff_prefix {bits addr plen ip : Nat} (hp : plen ≤ bits)
    (hs : strictOk bits addr plen = true) (hip : ip < 2 ^ bits) :
    (ip &&& netmask bits plen = addr) ↔ ip / 2 ^ (bits - plen) = addr / 2 ^ (bits - plen) := by
  constructor
  · intro h
    apply Nat.eq_of_testBit_eq
    intro i
    rw [Nat.testBit_div_two_pow, Nat.testBit_div_two_pow, ← h, Nat.testBit_and, netmask_testBit]
    by_cases h1 : i + (bits - plen) < bits
    · have h2 : ¬ plen + (i + (bits - plen)) < bits := by omega
      simp [h1, h2]
    · have : ip.testBit (i + (bits - plen)) = false :=
        Nat.testBit_lt_two_pow (Nat.lt_of_lt_of_le hip (Nat.pow_le_pow_right (by decide) (by omega)))
      simp [this]
  · intro h
    apply Nat.eq_of_testBit_eq
    intro i
    rw [Nat.testBit_and, netmask_testBit]
    by_cases hlow : i < bits - plen
    · -- below the prefix: the mask is 0 and so is the network address
      have h2 : plen + i < bits := by omega
      have ha : addr.testBit i = false := by
        cases hb : addr.testBit i with
        | false => rfl
        | true => exact absurd h2 (strict_bits hs i hb).2
      simp [h2, ha]
    · have hi : i = (i - (bits - plen)) + (bits - plen) := by omega
      have hb := congrArg (fun x => x.testBit (i - (bits - plen))) h
      simp only [Nat.testBit_div_two_pow] at hb
      rw [← hi] at hb
      by_cases h1 : i < bits
      · have h2 : ¬ plen + i < bits := by omega
        simp [h1, h2, hb]
      · have hz : addr.testBit i = false := by
          cases hc : addr.testBit i with
          | false => rfl
          | true => exact absurd (strict_bits hs i hc).1 h1
        simp [h1, hz]

/-! ### pattern lists -/

theorem mem_parsePatList_pos {α : Type} (build : Str → α) (t : Str) (x : α) :
    x ∈ (parsePatList build t).pos ↔ ∃ e ∈ splitOn ',' t, e.head? ≠ some '!' ∧ build e = x := by
  simp only [parsePatList, List.mem_filterMap]
  constructor
  · rintro ⟨e, he, hx⟩
    refine ⟨e, he, ?_⟩
    cases e with
    | nil => simpa using hx
    | cons c r =>
      split at hx
      · simp at hx
      · rename_i hno
        have hc : c ≠ '!' := fun h => hno r (by rw [h])
        exact ⟨by simpa using hc, by simpa using hx⟩
  · rintro ⟨e, he, hne, hx⟩
    refine ⟨e, he, ?_⟩
    cases e with
    | nil => simpa using hx
    | cons c r =>
      have hc : c ≠ '!' := by simpa using hne
      split
      · rename_i heq; cases heq; exact absurd rfl hc
      · simpa using hx

theorem mem_parsePatList_neg {α : Type} (build : Str → α) (t : Str) (x : α) :
    x ∈ (parsePatList build t).neg ↔ ∃ r, ('!' :: r) ∈ splitOn ',' t ∧ build r = x := by
  simp only [parsePatList, List.mem_filterMap]
  constructor
  · rintro ⟨e, he, hx⟩
    split at hx
    · rename_i r
      exact ⟨r, he, by simpa using hx⟩
    · simp at hx
  · rintro ⟨r, he, hx⟩
    exact ⟨'!' :: r, he, by simpa using hx⟩

end AsyncsshModel.Pattern
