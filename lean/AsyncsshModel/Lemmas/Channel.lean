import AsyncsshModel.Model.ChannelSys
/-
  Endpoint-level lemmas for `Model/Channel.lean`: the byte-tagging view of buffers, the send loop
  (`flushData`: what it emits, when it terminates, when it spins), `flushSend`, `deliverData`, `drainRecv`,
  `flushRecv`.  Everything here is about ONE endpoint and arbitrary inputs.
-/
namespace AsyncsshModel.Channel
open AsyncsshModel

/-- a buffer as a stream of bytes each tagged with its datatype: packet boundaries disappear, byte order and the
    interleaving of datatypes stay -/
def tag : Buf → List (UInt8 × DType)
  | [] => []
  | (bs, dt) :: rest => bs.map (fun b => (b, dt)) ++ tag rest

@[simp] theorem tag_nil : tag [] = [] := rfl
@[simp] theorem tag_cons (bs : Bytes) (dt : DType) (rest : Buf) :
    tag ((bs, dt) :: rest) = bs.map (fun b => (b, dt)) ++ tag rest := rfl
theorem tag_append (a b : Buf) : tag (a ++ b) = tag a ++ tag b := by
  induction a with
  | nil => simp
  | cons p rest ih => obtain ⟨bs, dt⟩ := p; simp [ih]
theorem bufBytes_eq (b : Buf) : bufBytes b = (tag b).length := by
  induction b with
  | nil => rfl
  | cons p rest ih => obtain ⟨bs, dt⟩ := p; simp [bufBytes, ih]

/-- all messages are DATA/EXTENDED_DATA -/
def allData : List Msg → Prop
  | [] => True
  | .data _ _ :: rest => allData rest
  | _ :: _ => False

theorem splitHead_tag (p : Nat) (buf : Bytes) (dt : DType) (rest : Buf) :
    tag [((splitHead p buf dt rest).1, dt)] ++ tag (splitHead p buf dt rest).2 = tag ((buf, dt) :: rest) := by
  unfold splitHead
  split
  · simp only [tag_cons, tag_nil, List.append_nil, ← List.append_assoc, ← List.map_append, List.take_append_drop]
  · simp

theorem splitHead_len (p : Nat) (buf : Bytes) (dt : DType) (rest : Buf) :
    (splitHead p buf dt rest).1.length ≤ p := by
  unfold splitHead
  split
  · simp; omega
  · simp; omega

theorem splitHead_bytes (p : Nat) (buf : Bytes) (dt : DType) (rest : Buf) :
    (splitHead p buf dt rest).1.length + bufBytes (splitHead p buf dt rest).2 = bufBytes ((buf, dt) :: rest) := by
  have h := congrArg List.length (splitHead_tag p buf dt rest)
  simp only [List.length_append, ← bufBytes_eq] at h
  simpa [bufBytes] using h

theorem flushData_spec : ∀ (fuel : Nat) (c c' : Chan) (ms : List Msg), flushData fuel c = some (c', ms) →
    c' = { c with sendBuf := c'.sendBuf, sendWindow := c'.sendWindow } ∧
    bufBytes c'.sendBuf + c.sendWindow = bufBytes c.sendBuf + c'.sendWindow ∧
    c'.sendWindow ≤ c.sendWindow ∧
    (c'.sendBuf = [] ∨ c'.sendWindow = 0 ∨ c.sendPktsize = 0) ∧
    (c.sendChanOpen = false → ms = []) ∧
    (c.sendChanOpen = true → tag (dataOf ms) ++ tag c'.sendBuf = tag c.sendBuf) ∧
    allData ms ∧
    (∀ dt bs, Msg.data dt bs ∈ ms → bs.length ≤ c.sendPktsize) := by
  intro fuel
  induction fuel with
  | zero => intro c c' ms h; simp [flushData] at h
  | succ n ih =>
    intro c c' ms h
    unfold flushData at h
    split at h
    · -- empty buffer
      rename_i hb
      simp only [Option.some.injEq, Prod.mk.injEq] at h
      obtain ⟨rfl, rfl⟩ := h
      refine ⟨by cases c; simp_all, ?_⟩
      simp [hb, allData, dataOf]
    · rename_i buf dt rest hb
      split at h
      · rename_i hw
        simp only [Option.some.injEq, Prod.mk.injEq] at h
        obtain ⟨rfl, rfl⟩ := h
        refine ⟨by cases c; simp_all, ?_⟩
        simp [hw, allData, dataOf]
      · rename_i hw
        split at h
        · rename_i hz
          simp only [Option.some.injEq, Prod.mk.injEq] at h
          obtain ⟨rfl, rfl⟩ := h
          have hp0 : c.sendPktsize = 0 := by unfold pktSize at hz; omega
          refine ⟨by cases c; simp_all, ?_⟩
          simp [hp0, allData, dataOf]
        rename_i hz
        simp only at h
        split at h
        · simp at h
        · rename_i c2 ms2 hrec
          simp only [Option.some.injEq, Prod.mk.injEq] at h
          obtain ⟨rfl, rfl⟩ := h
          obtain ⟨hfr, hbytes, hle, hexit, hclosed, hopen, hall, hlen⟩ := ih _ _ _ hrec
          simp only at hfr hbytes hle hexit hclosed hopen hlen
          have hsb := splitHead_bytes (pktSize c.sendWindow c.sendPktsize) buf dt rest
          have hst := splitHead_tag (pktSize c.sendWindow c.sendPktsize) buf dt rest
          have hsl := splitHead_len (pktSize c.sendWindow c.sendPktsize) buf dt rest
          have hp1 : pktSize c.sendWindow c.sendPktsize ≤ c.sendWindow := by unfold pktSize; omega
          have hp2 : pktSize c.sendWindow c.sendPktsize ≤ c.sendPktsize := by unfold pktSize; omega
          have hl1 : (splitHead (pktSize c.sendWindow c.sendPktsize) buf dt rest).1.length ≤ c.sendWindow := by
            omega
          have hl2 : (splitHead (pktSize c.sendWindow c.sendPktsize) buf dt rest).1.length ≤ c.sendPktsize := by
            omega
          refine ⟨?_, ?_, ?_, hexit, ?_, ?_, ?_, ?_⟩
          · rw [hfr]
          · rw [hb]; omega
          · omega
          · intro hc; simp [sendPkt, hc, hclosed hc]
          · intro hc
            simp only [sendPkt, hc, if_true, List.singleton_append, dataOf]
            rw [hb, ← hst, ← hopen hc]
            simp [tag_cons]
          · unfold sendPkt; split <;> simp [allData, hall]
          · intro dt' bs' hm
            simp only [List.mem_append] at hm
            rcases hm with hm | hm
            · unfold sendPkt at hm
              split at hm
              · simp at hm; obtain ⟨_, rfl⟩ := hm; exact hl2
              · simp at hm
            · exact hlen _ _ hm

theorem bufBytes_append (a b : Buf) : bufBytes (a ++ b) = bufBytes a + bufBytes b := by
  simp [bufBytes_eq, tag_append]

theorem dataOf_append (a b : List Msg) : dataOf (a ++ b) = dataOf a ++ dataOf b := by
  induction a with
  | nil => rfl
  | cons m rest ih => cases m <;> simp [dataOf, ih]

theorem adjustSum_append (a b : List Msg) : adjustSum (a ++ b) = adjustSum a + adjustSum b := by
  induction a with
  | nil => simp [adjustSum]
  | cons m rest ih => cases m <;> simp [adjustSum, ih]; omega

theorem dataOuts_append (a b : List Out) : dataOuts (a ++ b) = dataOuts a ++ dataOuts b := by
  induction a with
  | nil => rfl
  | cons m rest ih => cases m <;> simp [dataOuts, ih]

theorem allData_adjustSum : ∀ ms, allData ms → adjustSum ms = 0
  | [], _ => rfl
  | .data _ _ :: rest, h => by simpa [adjustSum] using allData_adjustSum rest h
  | .adjust _ :: _, h => by simp [allData] at h
  | .eof :: _, h => by simp [allData] at h
  | .close :: _, h => by simp [allData] at h

/-! ### termination of the send loop -/

/-- every iteration of the send loop that does not leave it consumes a byte or a buffer entry: `flushFuel`
    always suffices (since fix de5c08f the loop is left when the packet size is 0) -/
theorem flushData_terminates : ∀ (fuel : Nat) (c : Chan),
    bufBytes c.sendBuf + c.sendBuf.length < fuel → (flushData fuel c).isSome = true := by
  intro fuel
  induction fuel with
  | zero => intro c h; omega
  | succ n ih =>
    intro c hf
    unfold flushData
    split
    · rfl
    · rename_i buf dt rest hb
      split
      · rfl
      · rename_i hw
        split
        · rfl
        · rename_i hz
          simp only
          have hps : 0 < pktSize c.sendWindow c.sendPktsize := by omega
          generalize hsp : splitHead (pktSize c.sendWindow c.sendPktsize) buf dt rest = sp
          have hdec : bufBytes sp.2 + sp.2.length < n := by
            subst hsp
            rw [hb] at hf
            unfold splitHead
            split
            · rename_i hgt
              simp only [bufBytes, List.length_drop, List.length_cons] at hf ⊢
              omega
            · simp only [bufBytes, List.length_cons] at hf ⊢
              omega
          have h2 := ih { c with sendBuf := sp.2, sendWindow := c.sendWindow - sp.1.length } hdec
          cases hr : flushData n { c with sendBuf := sp.2, sendWindow := c.sendWindow - sp.1.length } with
          | none => rw [hr] at h2; simp at h2
          | some r => rfl

/-- BEFORE fix de5c08f: with maximum packet size 0, a non-empty head buffer and a non-zero window the loop never
    exits: every iteration emits an empty DATA packet and leaves the state as it was (defect F2) -/
theorem flushDataOld_spins : ∀ (fuel : Nat) (c : Chan) (buf : Bytes) (dt : DType) (rest : Buf),
    c.sendBuf = (buf, dt) :: rest → buf ≠ [] → c.sendWindow ≠ 0 → c.sendPktsize = 0 →
    flushDataOld fuel c = none := by
  intro fuel
  induction fuel with
  | zero => intro c _ _ _ _ _ _ _; rfl
  | succ n ih =>
    intro c buf dt rest hb hne hw hp
    unfold flushDataOld
    rw [hb]
    simp only [hw, if_false]
    have hlen : 0 < buf.length := List.length_pos_iff.mpr hne
    have hs : splitHead (pktSize c.sendWindow c.sendPktsize) buf dt rest = ([], (buf, dt) :: rest) := by
      unfold splitHead pktSize
      rw [hp]
      simp [hlen]
    rw [hs]
    simp only [List.length_nil, Nat.sub_zero]
    rw [ih { c with sendBuf := (buf, dt) :: rest, sendWindow := c.sendWindow } buf dt rest rfl hne hw hp]

/-- one iteration at maximum packet size 0: an empty DATA packet, nothing consumed -/
theorem splitHead_zero (buf : Bytes) (dt : DType) (rest : Buf) (h : buf ≠ []) :
    splitHead 0 buf dt rest = ([], (buf, dt) :: rest) := by
  unfold splitHead
  have hlen : 0 < buf.length := List.length_pos_iff.mpr h
  simp [hlen]

/-! ### stages and the grammar of a link -/

/-- how far the send half has got: 0 = may still send data, 1 = EOF sent, 2 = CLOSE sent -/
def sStage (c : Chan) : Nat :=
  match c.sendState with
  | .opn | .eofPending | .closePending => 0
  | .eof => 1
  | .closed => 2

/-- how far the receive half has got: 0 = open, 1 = EOF received, 2 = CLOSE received -/
def rStage (c : Chan) : Nat :=
  match c.recvState with
  | .opn => 0
  | .eofPending | .eof => 1
  | .closePending | .closed => 2

/-- `LinkOK r s l`: processing the messages `l` takes a receiver from stage `r` exactly to the sender's stage `s`:
    DATA only before EOF/CLOSE, one EOF, nothing after CLOSE, WINDOW_ADJUST anywhere before CLOSE -/
def LinkOK : Nat → Nat → List Msg → Prop
  | r, s, [] => r = s
  | r, s, .data _ _ :: rest => r = 0 ∧ LinkOK 0 s rest
  | r, s, .adjust _ :: rest => r ≤ 1 ∧ LinkOK r s rest
  | r, s, .eof :: rest => r = 0 ∧ LinkOK 1 s rest
  | r, s, .close :: rest => r ≤ 1 ∧ rest = [] ∧ s = 2

theorem LinkOK_le : ∀ (l : List Msg) (r s : Nat), LinkOK r s l → r ≤ s
  | [], r, s, h => by simp [LinkOK] at h; omega
  | .data _ _ :: rest, r, s, h => by
    simp only [LinkOK] at h; have := LinkOK_le rest 0 s h.2; omega
  | .adjust _ :: rest, r, s, h => by simp only [LinkOK] at h; exact LinkOK_le rest r s h.2
  | .eof :: rest, r, s, h => by
    simp only [LinkOK] at h; have := LinkOK_le rest 1 s h.2; omega
  | .close :: rest, r, s, h => by simp only [LinkOK] at h; omega

theorem LinkOK_two : ∀ (l : List Msg) (s : Nat), LinkOK 2 s l → l = [] ∧ s = 2
  | [], s, h => by simp [LinkOK] at h; exact ⟨rfl, h.symm⟩
  | .data _ _ :: _, _, h => by simp [LinkOK] at h
  | .adjust _ :: _, _, h => by simp [LinkOK] at h
  | .eof :: _, _, h => by simp [LinkOK] at h
  | .close :: _, _, h => by simp [LinkOK] at h

theorem LinkOK_append : ∀ (l1 l2 : List Msg) (r s t : Nat), LinkOK r s l1 → LinkOK s t l2 → LinkOK r t (l1 ++ l2)
  | [], l2, r, s, t, h1, h2 => by simp only [LinkOK] at h1; subst h1; simpa using h2
  | .data _ _ :: rest, l2, r, s, t, h1, h2 => by
    simp only [LinkOK, List.cons_append] at h1 ⊢
    exact ⟨h1.1, LinkOK_append rest l2 0 s t h1.2 h2⟩
  | .adjust _ :: rest, l2, r, s, t, h1, h2 => by
    simp only [LinkOK, List.cons_append] at h1 ⊢
    exact ⟨h1.1, LinkOK_append rest l2 r s t h1.2 h2⟩
  | .eof :: rest, l2, r, s, t, h1, h2 => by
    simp only [LinkOK, List.cons_append] at h1 ⊢
    exact ⟨h1.1, LinkOK_append rest l2 1 s t h1.2 h2⟩
  | .close :: rest, l2, r, s, t, h1, h2 => by
    simp only [LinkOK, List.cons_append] at h1 ⊢
    obtain ⟨hr, hrest, hs⟩ := h1
    subst hs
    obtain ⟨hl2, ht⟩ := LinkOK_two l2 t h2
    subst hl2 ht hrest
    simp [hr]

theorem LinkOK_allData : ∀ (l : List Msg), allData l → LinkOK 0 0 l
  | [], _ => by simp [LinkOK]
  | .data _ _ :: rest, h => by simp only [LinkOK]; exact ⟨trivial, LinkOK_allData rest h⟩
  | .adjust _ :: _, h => by simp [allData] at h
  | .eof :: _, h => by simp [allData] at h
  | .close :: _, h => by simp [allData] at h

/-- data messages can only sit in front of a receiver at stage 0 -/
theorem LinkOK_data_stage : ∀ (l : List Msg) (r s : Nat), LinkOK r s l → 1 ≤ r → dataOf l = []
  | [], _, _, _, _ => rfl
  | .data _ _ :: _, r, s, h, hr => by simp only [LinkOK] at h; omega
  | .adjust _ :: rest, r, s, h, hr => by
    simp only [LinkOK, dataOf] at h ⊢; exact LinkOK_data_stage rest r s h.2 hr
  | .eof :: _, r, s, h, hr => by simp only [LinkOK] at h; omega
  | .close :: rest, r, s, h, hr => by
    simp only [LinkOK] at h; obtain ⟨_, hrest, _⟩ := h; subst hrest; rfl

/-- send-half well-formedness -/
structure WFs (c : Chan) : Prop where
  chanOpen : c.sendChanOpen = true ↔ c.sendState ≠ .closed
  drained : c.sendState = .eof ∨ c.sendState = .closed → c.sendBuf = []

/-- the fields a send-half operation does not touch -/
structure SameRecv (c c' : Chan) : Prop where
  initWindow : c'.initWindow = c.initWindow
  readTypes : c'.readTypes = c.readTypes
  writeTypes : c'.writeTypes = c.writeTypes
  eofKeep : c'.eofKeep = c.eofKeep
  sendPktsize : c'.sendPktsize = c.sendPktsize
  recvState : c'.recvState = c.recvState
  recvWindow : c'.recvWindow = c.recvWindow
  recvPaused : c'.recvPaused = c.recvPaused
  recvBuf : c'.recvBuf = c.recvBuf
  pauseAfter : c'.pauseAfter = c.pauseAfter
  recvEofPending : c'.recvEofPending = c.recvEofPending

theorem SameRecv.refl (c : Chan) : SameRecv c c := ⟨rfl, rfl, rfl, rfl, rfl, rfl, rfl, rfl, rfl, rfl, rfl⟩
theorem SameRecv.trans {a b c : Chan} (h1 : SameRecv a b) (h2 : SameRecv b c) : SameRecv a c :=
  ⟨h2.1.trans h1.1, h2.2.trans h1.2, h2.3.trans h1.3, h2.4.trans h1.4, h2.5.trans h1.5, h2.6.trans h1.6,
   h2.7.trans h1.7, h2.8.trans h1.8, h2.9.trans h1.9, h2.10.trans h1.10, h2.11.trans h1.11⟩

/-- the send states in which an EOF signalled by the application still waits to be sent -/
def SendWaiting (c : Chan) : Prop :=
  c.sendState = .eofPending ∨ (c.sendState = .closePending ∧ c.sendEofPending = true)

/-- a deferred EOF / CLOSE is deferred only because data is still waiting -/
def PendOK (c : Chan) : Prop := c.sendState = .eofPending ∨ c.sendState = .closePending → c.sendBuf ≠ []

/-- what a send-half operation (`_flush_send_buf` and its callers) guarantees -/
structure SendSpec (c c' : Chan) (ms : List Msg) : Prop where
  same : SameRecv c c'
  stream : tag (dataOf ms) ++ tag c'.sendBuf = tag c.sendBuf
  window : bufBytes (dataOf ms) + c'.sendWindow = c.sendWindow
  noAdjust : adjustSum ms = 0
  path : LinkOK (sStage c) (sStage c') ms
  wf : WFs c'
  exit : c'.sendBuf = [] ∨ c'.sendWindow = 0 ∨ c'.sendPktsize = 0
  pktBound : ∀ dt bs, Msg.data dt bs ∈ ms → bs.length ≤ c.sendPktsize
  trans : c'.sendState = c.sendState ∨ (c.sendState = .eofPending ∧ c'.sendState = .eof) ∨
          (c.sendState = .closePending ∧ c'.sendState = .closed)
  flagMono : c'.sendEofPending = true → c.sendEofPending = true
  pendBuf : c'.sendState = .eofPending ∨ c'.sendState = .closePending → c'.sendBuf ≠ []
  eofMsg : Msg.eof ∈ ms → c'.sendState = .eof ∨ (c.sendState = .closePending ∧ c.sendEofPending = true)
  waiting : SendWaiting c → SendWaiting c' ∨ Msg.eof ∈ ms

theorem dataOf_nil_not_mem : ∀ (l : List Msg), dataOf l = [] → ∀ dt bs, Msg.data dt bs ∉ l
  | [], _, _, _ => by simp
  | .data _ _ :: _, h, _, _ => by simp [dataOf] at h
  | .adjust _ :: rest, h, dt, bs => by
    simp only [dataOf] at h; simp [dataOf_nil_not_mem rest h dt bs]
  | .eof :: rest, h, dt, bs => by
    simp only [dataOf] at h; simp [dataOf_nil_not_mem rest h dt bs]
  | .close :: rest, h, dt, bs => by
    simp only [dataOf] at h; simp [dataOf_nil_not_mem rest h dt bs]

theorem flushData_nil (n : Nat) (c : Chan) (h : c.sendBuf = []) : flushData (n + 1) c = some (c, []) := by
  unfold flushData; simp [h]

theorem flushFuel_pos (c : Chan) : ∃ n, flushFuel c = n + 1 := ⟨_, rfl⟩

theorem sendPkt_open (c : Chan) (m : Msg) (h : c.sendChanOpen = true) : sendPkt c m = [m] := by
  simp [sendPkt, h]

structure TailSpec (c c' : Chan) (ms : List Msg) : Prop where
  same : SameRecv c c'
  sendBuf : c'.sendBuf = c.sendBuf
  sendWindow : c'.sendWindow = c.sendWindow
  noData : dataOf ms = []
  noAdjust : adjustSum ms = 0
  path : LinkOK (sStage c) (sStage c') ms
  wf : WFs c'
  trans : c'.sendState = c.sendState ∨ (c.sendState = .eofPending ∧ c'.sendState = .eof) ∨
      (c.sendState = .closePending ∧ c'.sendState = .closed)
  flagMono : c'.sendEofPending = true → c.sendEofPending = true
  pendBuf : c'.sendState = .eofPending ∨ c'.sendState = .closePending → c'.sendBuf ≠ []
  eofMsg : Msg.eof ∈ ms → c'.sendState = .eof ∨ (c.sendState = .closePending ∧ c.sendEofPending = true)
  waiting : SendWaiting c → SendWaiting c' ∨ Msg.eof ∈ ms

theorem flushTail_spec (c c' : Chan) (ms : List Msg) (hwf : WFs c) (h : flushTail c = (c', ms)) :
    TailSpec c c' ms := by
  unfold flushTail at h
  split at h
  · rename_i hb
    split at h
    · rename_i hs
      have hop : c.sendChanOpen = true := hwf.chanOpen.mpr (by simp [hs])
      simp only [Prod.mk.injEq] at h
      obtain ⟨rfl, rfl⟩ := h
      refine ⟨⟨rfl, rfl, rfl, rfl, rfl, rfl, rfl, rfl, rfl, rfl, rfl⟩, rfl, rfl, ?_, ?_, ?_, ?_, ?_, id, ?_, ?_, ?_⟩
      · simp [sendPkt_open c _ hop, dataOf]
      · simp [sendPkt_open c _ hop, adjustSum]
      · simp [sendPkt_open c _ hop, sStage, hs, LinkOK]
      · exact ⟨by simp [hop], fun _ => hb⟩
      · right; left; exact ⟨hs, rfl⟩
      · intro h; simp at h
      · intro _; left; rfl
      · intro _; right; simp [sendPkt_open c _ hop]
    · rename_i hs
      have hop : c.sendChanOpen = true := hwf.chanOpen.mpr (by simp [hs])
      unfold closeSend at h
      simp only [hs, ne_eq, reduceCtorEq, not_false_eq_true, if_true, Prod.mk.injEq] at h
      obtain ⟨rfl, rfl⟩ := h
      refine ⟨⟨rfl, rfl, rfl, rfl, rfl, rfl, rfl, rfl, rfl, rfl, rfl⟩, hb.symm, rfl, ?_, ?_, ?_, ?_, ?_, ?_, ?_, ?_, ?_⟩
      · cases c.sendEofPending <;> simp [sendPkt, hop, dataOf]
      · cases c.sendEofPending <;> simp [sendPkt, hop, adjustSum]
      · cases c.sendEofPending <;> simp [sendPkt, hop, sStage, hs, LinkOK]
      · exact ⟨by simp, fun _ => rfl⟩
      · right; right; exact ⟨hs, rfl⟩
      · intro h; simp at h
      · intro h; simp at h
      · intro hm
        right
        refine ⟨hs, ?_⟩
        cases hf : c.sendEofPending
        · rw [hf] at hm; simp [sendPkt, hop] at hm
        · rfl
      · intro hwt
        rcases hwt with h1 | ⟨_, h1⟩
        · rw [hs] at h1; cases h1
        · right; simp [h1, sendPkt, hop]
    · rename_i hs1 hs2
      simp only [Prod.mk.injEq] at h
      obtain ⟨rfl, rfl⟩ := h
      refine ⟨SameRecv.refl _, rfl, rfl, rfl, rfl, by simp [LinkOK], hwf, Or.inl rfl, id, ?_, by simp, ?_⟩
      · intro h; rcases h with h | h
        · exact absurd h hs1
        · exact absurd h hs2
      · intro hwt; exact Or.inl hwt
  · rename_i p rest hb
    simp only [Prod.mk.injEq] at h
    obtain ⟨rfl, rfl⟩ := h
    exact ⟨SameRecv.refl _, rfl, rfl, rfl, rfl, by simp [LinkOK], hwf, Or.inl rfl, id, fun _ => by simp [hb], by simp,
      fun hwt => Or.inl hwt⟩

theorem flushSend_spec (c c' : Chan) (ms : List Msg) (hwf : WFs c) (h : flushSend c = some (c', ms)) :
    SendSpec c c' ms := by
  unfold flushSend at h
  split at h
  · simp at h
  · rename_i c1 ms1 hfd
    simp only [Option.some.injEq, Prod.mk.injEq] at h
    obtain ⟨rfl, rfl⟩ := h
    obtain ⟨hfr, hbytes, hle, hexit, hclosed, hopen, hall, hlen⟩ := flushData_spec _ _ _ _ hfd
    have hst1 : c1.sendState = c.sendState := by rw [hfr]
    have hco1 : c1.sendChanOpen = c.sendChanOpen := by rw [hfr]
    -- facts about the data phase that hold whether or not the channel may still send
    have hstream : tag (dataOf ms1) ++ tag c1.sendBuf = tag c.sendBuf := by
      cases hco : c.sendChanOpen with
      | true => exact hopen hco
      | false =>
        have hcl : c.sendState = .closed := by
          by_cases hne : c.sendState = .closed
          · exact hne
          · have := hwf.chanOpen.mpr hne; simp [hco] at this
        have hb := hwf.drained (Or.inr hcl)
        have hfd2 := hfd
        unfold flushFuel at hfd2
        rw [hb] at hfd2
        simp only [bufBytes, List.length_nil, Nat.add_zero, Nat.zero_add] at hfd2
        unfold flushData at hfd2
        simp only [hb, Option.some.injEq, Prod.mk.injEq] at hfd2
        obtain ⟨rfl, rfl⟩ := hfd2
        simp [hb, dataOf]
    have hwin : bufBytes (dataOf ms1) + c1.sendWindow = c.sendWindow := by
      have h1 := congrArg List.length hstream
      simp only [List.length_append, ← bufBytes_eq] at h1
      omega
    have hwf1 : WFs c1 := by
      refine ⟨by rw [hco1, hst1]; exact hwf.chanOpen, ?_⟩
      intro hs
      rw [hst1] at hs
      have hb := hwf.drained hs
      obtain ⟨n, hn⟩ := flushFuel_pos c
      rw [hn, flushData_nil n c hb] at hfd
      simp only [Option.some.injEq, Prod.mk.injEq] at hfd
      rw [← hfd.1]; exact hb
    have hsame1 : SameRecv c c1 := by
      rw [hfr]; exact ⟨rfl, rfl, rfl, rfl, rfl, rfl, rfl, rfl, rfl, rfl, rfl⟩
    have hss1 : sStage c1 = sStage c := by simp [sStage, hst1]
    generalize hft : flushTail c1 = r at *
    obtain ⟨c2, ms2⟩ := r
    have ts := flushTail_spec c1 c2 ms2 hwf1 hft
    obtain ⟨hsame2, hsb2, hw2, hd2, ha2, hp2, hwf2, htr2⟩ :=
      (⟨ts.same, ts.sendBuf, ts.sendWindow, ts.noData, ts.noAdjust, ts.path, ts.wf, ts.trans⟩ :
        SameRecv c1 c2 ∧ c2.sendBuf = c1.sendBuf ∧ c2.sendWindow = c1.sendWindow ∧ dataOf ms2 = [] ∧ adjustSum ms2 = 0 ∧
        LinkOK (sStage c1) (sStage c2) ms2 ∧ WFs c2 ∧
        (c2.sendState = c1.sendState ∨ (c1.sendState = .eofPending ∧ c2.sendState = .eof) ∨
          (c1.sendState = .closePending ∧ c2.sendState = .closed)))
    have hfl1 : c1.sendEofPending = c.sendEofPending := by rw [hfr]
    have hno1 : Msg.eof ∉ ms1 := by
      intro hm
      have : ∀ (l : List Msg), allData l → Msg.eof ∉ l := by
        intro l
        induction l with
        | nil => intro _ h; cases h
        | cons m rest ih =>
          intro hl hmem
          cases m with
          | data dt bs => rcases List.mem_cons.mp hmem with h | h; · cases h
                          exact ih hl h
          | adjust n => simp [allData] at hl
          | eof => simp [allData] at hl
          | close => simp [allData] at hl
      exact this ms1 hall hm
    simp only
    refine ⟨hsame1.trans hsame2, ?_, ?_, ?_, ?_, hwf2, ?_, ?_, ?_, ?_, ts.pendBuf, ?_, ?_⟩
    · rw [dataOf_append, hd2, hsb2, List.append_nil]; exact hstream
    · rw [dataOf_append, hd2, hw2, List.append_nil]; exact hwin
    · rw [adjustSum_append, ha2, allData_adjustSum _ hall]
    · refine LinkOK_append ms1 ms2 _ (sStage c) _ ?_ (hss1 ▸ hp2)
      by_cases hs0 : c.sendState = .eof ∨ c.sendState = .closed
      · have hb := hwf.drained hs0
        obtain ⟨n, hn⟩ := flushFuel_pos c
        rw [hn, flushData_nil n c hb] at hfd
        simp only [Option.some.injEq, Prod.mk.injEq] at hfd
        rw [← hfd.2]; simp [LinkOK]
      · have : sStage c = 0 := by
          unfold sStage
          cases hs : c.sendState <;> first | rfl | (exfalso; apply hs0; simp [hs])
        rw [this]; exact LinkOK_allData ms1 hall
    · rw [hsb2, hw2, (hsame1.trans hsame2).sendPktsize]; exact hexit
    · intro dt bs hm
      rcases List.mem_append.mp hm with hm | hm
      · exact hlen _ _ hm
      · exact absurd hm (dataOf_nil_not_mem ms2 hd2 dt bs)
    · rw [hst1] at htr2; exact htr2
    · intro hf; rw [← hfl1]; exact ts.flagMono hf
    · intro hm
      rcases List.mem_append.mp hm with hm | hm
      · exact absurd hm hno1
      · rw [← hst1, ← hfl1]; exact ts.eofMsg hm
    · intro hwt
      have hwt1 : SendWaiting c1 := by unfold SendWaiting at *; rw [hst1, hfl1]; exact hwt
      rcases ts.waiting hwt1 with h | h
      · exact Or.inl h
      · exact Or.inr (List.mem_append_right _ h)

end AsyncsshModel.Channel
