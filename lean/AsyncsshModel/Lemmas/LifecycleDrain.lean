import AsyncsshModel.Lemmas.LifecycleConn
/-
  C09: once the transport is gone, running the ready queue terminates — every executed entry strictly
  decreases a potential `Phi`, so at most `Phi s` entries run before the queue is empty.
-/
namespace AsyncsshModel.Lifecycle

def sigma : Stage → Nat
  | .waitOpen => 3
  | .waitPty => 2
  | .waitReq => 1
  | .done => 0

@[simp] theorem sigma_open : sigma .waitOpen = 3 := rfl
@[simp] theorem sigma_pty : sigma .waitPty = 2 := rfl
@[simp] theorem sigma_req : sigma .waitReq = 1 := rfl
@[simp] theorem sigma_done : sigma .done = 0 := rfl

/-- a scheduled `_cleanup` may still come from a close waiting for buffered data -/
def rho (c : Chan) : Nat := if c.recvSt = .closePending then 1 else 0

/-- a wake-up will be queued when the pending waiter is resolved -/
def wA (c : Chan) : Nat := if c.openWaiter = true ∨ c.reqWaiter = true then 1 else 0

/-- the `_cleanup` of a refused / orphaned open request -/
def wF (c : Chan) : Nat := if c.fo = .start ∨ c.fo = .awaiting then 1 else 0

/-- ready-queue entries a channel may still cause: a wake-up for a pending waiter, the remaining steps of
    `create()`, a `_cleanup` after a pending close, the `_cleanup` of a refused / orphaned open -/
def chi (c : Chan) : Nat := wA c + sigma c.stage + rho c + wF c

theorem wA_le (c : Chan) : wA c ≤ 1 := by unfold wA; split <;> omega
theorem wF_le (c : Chan) : wF c ≤ 1 := by unfold wF; split <;> omega
theorem rho_le (c : Chan) : rho c ≤ 1 := by unfold rho; split <;> omega

/-- the potential of a state that differs from `c` in a controlled way -/
theorem chi_le {c c' : Chan} {s : Nat} (hs : sigma c'.stage ≤ s) (hr : rho c' ≤ rho c) (hf : wF c' ≤ wF c) :
    chi c' ≤ 1 + s + rho c + wF c := by
  have := wA_le c'
  unfold chi; omega

theorem chi_le' {c c' : Chan} {s : Nat} (ha : wA c' ≤ wA c) (hs : sigma c'.stage ≤ s) (hr : rho c' ≤ rho c)
    (hf : wF c' ≤ wF c) : chi c' ≤ wA c + s + rho c + wF c := by
  unfold chi; omega

def chiSum (l : List Chan) : Nat := (l.map chi).sum

def Phi (s : Conn) : Nat := s.ready.length + chiSum s.chans + 2 * s.gqueue

/-- number of ready-queue entries among the actions -/
def items (acts : List Act) : Nat := (actItems 0 acts).length

theorem actItems_length (k : Nat) (acts : List Act) : (actItems k acts).length = items acts := by
  unfold items
  induction acts with
  | nil => rfl
  | cons a rest ih => cases a <;> simp [actItems, ih]

theorem items_append (a b : List Act) : items (a ++ b) = items a + items b := by
  unfold items
  induction a with
  | nil => simp [actItems]
  | cons x rest ih => cases x <;> simp [actItems, ih] <;> omega

theorem items_sendPkt (c : Chan) (m : CMsg) : items (sendPkt c m) = 0 := by
  unfold sendPkt; split <;> rfl

theorem items_replicate (c : Chan) (m : CMsg) (k : Nat) :
    items ((List.replicate k ()).flatMap (fun _ => sendPkt c m)) = 0 := by
  induction k with
  | zero => rfl
  | succ n ih => simp [List.replicate_succ, items_append, items_sendPkt, ih]

/-- a method that leaves waiters, `create()` stage and open-task stage alone, and whose scheduled cleanups are
    paid for by a pending close that completes -/
structure Quiet (c : Chan) (r : R) : Prop where
  ow : r.c.openWaiter = c.openWaiter
  rw : r.c.reqWaiter = c.reqWaiter
  st : r.c.stage = c.stage
  fo : r.c.fo = c.fo
  pay : rho r.c + items r.acts ≤ rho c

theorem quiet_refl (c : Chan) : Quiet c (R.ok c) := ⟨rfl, rfl, rfl, rfl, by simp [R.ok, items, actItems]⟩
theorem quiet_fail (c : Chan) (e : Exc) : Quiet c (R.fail c e) := ⟨rfl, rfl, rfl, rfl, by simp [R.fail, items, actItems]⟩

theorem quiet_andThen {c : Chan} {r : R} {f : Chan → R} (h1 : Quiet c r) (h2 : ∀ c', Quiet c' (f c')) :
    Quiet c (r.andThen f) := by
  unfold R.andThen
  split
  · exact h1
  · have g := h2 r.c
    refine ⟨g.ow.trans h1.ow, g.rw.trans h1.rw, g.st.trans h1.st, g.fo.trans h1.fo, ?_⟩
    simp only [items_append]
    have := h1.pay; have := g.pay; omega

theorem quiet_pre {c : Chan} {r : R} (acts : List Act) (h0 : items acts = 0) (h : Quiet c r) : Quiet c (r.pre acts) :=
  ⟨h.ow, h.rw, h.st, h.fo, by simp only [R.pre, items_append, h0]; have := h.pay; omega⟩

theorem Quiet.cast {c c0 : Chan} {r : R} (h : Quiet c0 r) (e1 : c0.openWaiter = c.openWaiter)
    (e2 : c0.reqWaiter = c.reqWaiter) (e3 : c0.stage = c.stage) (e4 : c0.fo = c.fo) (e5 : rho c0 ≤ rho c) : Quiet c r :=
  ⟨h.ow.trans e1, h.rw.trans e2, h.st.trans e3, h.fo.trans e4, by have := h.pay; omega⟩

theorem quiet_neutral {c c' : Chan} (acts : List Act) (h0 : items acts = 0) (e1 : c'.openWaiter = c.openWaiter)
    (e2 : c'.reqWaiter = c.reqWaiter) (e3 : c'.stage = c.stage) (e4 : c'.fo = c.fo) (e5 : rho c' ≤ rho c) :
    Quiet c (R.ok c' acts) := ⟨e1, e2, e3, e4, by simp only [R.ok, h0]; omega⟩

theorem closeSend_quiet (c : Chan) : Quiet c (closeSend c) := by
  simp only [closeSend]
  split
  · exact quiet_neutral _ (items_sendPkt _ _) rfl rfl rfl rfl (by simp [rho])
  · exact quiet_neutral _ rfl rfl rfl rfl rfl (by simp [rho])

theorem discardRecv_quiet (c : Chan) : Quiet c (discardRecv c) := by
  simp only [discardRecv]
  have h0 : items (if 0 < c.recvBuf then sendPkt c (.adjust c.recvBuf) else []) = 0 := by
    split
    · exact items_sendPkt _ _
    · rfl
  split
  · rename_i h
    refine ⟨rfl, rfl, rfl, rfl, ?_⟩
    simp only [R.ok, items_append, h0]
    simp [rho, items, actItems, h]
  · exact quiet_neutral _ h0 rfl rfl rfl rfl (by simp [rho])

theorem pauseResumeWriting_quiet (c : Chan) : Quiet c (pauseResumeWriting c) := by
  simp only [pauseResumeWriting]
  (repeat' split) <;>
    first
    | exact quiet_neutral _ rfl rfl rfl rfl rfl (by simp [rho])
    | exact ⟨rfl, rfl, rfl, rfl, Nat.le_refl _⟩

theorem flushSendTail_quiet (c : Chan) : Quiet c (flushSendTail c) := by
  simp only [flushSendTail]
  split
  · split
    · exact quiet_neutral _ (items_sendPkt _ _) rfl rfl rfl rfl (by simp [rho])
    · simp only [closeSendEof]
      split
      · exact quiet_pre _ (items_sendPkt _ _) ((closeSend_quiet _).cast rfl rfl rfl rfl (by simp [rho]))
      · exact closeSend_quiet _
    · exact quiet_refl _
  · exact quiet_refl _

theorem flushSendBuf_quiet (c : Chan) : Quiet c (flushSendBuf c) := by
  unfold flushSendBuf
  have hrep := items_replicate c .data (min c.sendBuf c.sendWin)
  exact quiet_andThen (quiet_pre _ hrep ((pauseResumeWriting_quiet _).cast rfl rfl rfl rfl (by simp [rho])))
    flushSendTail_quiet

theorem writeEof_quiet (c : Chan) : Quiet c (writeEof c) := by
  unfold writeEof
  split
  · exact (flushSendBuf_quiet _).cast rfl rfl rfl rfl (by simp [rho])
  · exact quiet_refl c

theorem deliverOne_quiet (c : Chan) : Quiet c (deliverOne c) := by
  simp only [deliverOne]
  have h0 : items (if decide (2 * (c.recvWin - 1) < c.initWin) = true then
      sendPkt c (.adjust (c.initWin - (c.recvWin - 1))) else []) = 0 := by
    split
    · exact items_sendPkt _ _
    · rfl
  split <;> exact quiet_neutral _ h0 rfl rfl rfl rfl (by simp [rho])

theorem deliverN_quiet (n : Nat) (c : Chan) : Quiet c (deliverN n c) := by
  induction n generalizing c with
  | zero => exact quiet_refl c
  | succ n ih => exact quiet_andThen (deliverOne_quiet c) ih

theorem flushEofPart_quiet (c : Chan) : Quiet c (flushEofPart c) := by
  simp only [flushEofPart]
  split
  · rename_i h
    split
    · split
      · exact (writeEof_quiet _).cast rfl rfl rfl rfl (by simp [rho, h.2.2])
      · exact quiet_neutral _ rfl rfl rfl rfl rfl (by simp [rho, h.2.2])
    · exact ⟨rfl, rfl, rfl, rfl, by simp [R.fail, rho, items, actItems, h.2.2]⟩
  · exact quiet_refl c

theorem flushClosePart_quiet (c : Chan) : Quiet c (flushClosePart c) := by
  simp only [flushClosePart]
  split
  · rename_i h
    exact ⟨rfl, rfl, rfl, rfl, by simp [R.ok, rho, items, actItems, h.2]⟩
  · exact quiet_refl c

theorem flushRecvBuf_quiet (c : Chan) : Quiet c (flushRecvBuf c) := by
  unfold flushRecvBuf
  refine quiet_andThen (quiet_andThen ?_ flushEofPart_quiet) flushClosePart_quiet
  split
  · exact (deliverN_quiet c.recvBuf _).cast rfl rfl rfl rfl (by simp [rho])
  · exact quiet_refl c

theorem startReading_quiet (c : Chan) : Quiet c (startReading c) := by
  unfold startReading
  split
  · exact (flushRecvBuf_quiet _).cast rfl rfl rfl rfl (by simp [rho])
  · exact quiet_refl c

theorem close_quiet (c : Chan) : Quiet c (close c) := by
  unfold close
  refine quiet_andThen ?_ ?_
  · split
    · exact (flushSendBuf_quiet _).cast rfl rfl rfl rfl (by simp [rho])
    · exact quiet_refl c
  · intro c'
    split
    · exact discardRecv_quiet c'
    · exact quiet_refl c'

/-- cost of a channel step in terms of `chi`: what it still may cause afterwards plus what it queued now -/
def Pays (c : Chan) (r : R) : Prop := chi r.c + items r.acts ≤ chi c

theorem pays_of_quiet {c : Chan} {r : R} (h : Quiet c r) : Pays c r := by
  have h1 : wA r.c = wA c := by unfold wA; rw [h.ow, h.rw]
  have h2 : wF r.c = wF c := by unfold wF; rw [h.fo]
  unfold Pays chi
  rw [h1, h2, h.st]
  have := h.pay
  omega

theorem cleanup_pays (e : Exc) (c : Chan) : Pays c (cleanup c e) := by
  have hi : items (cleanup c e).acts = wA c := by
    simp only [cleanup, R.ok, wA]; split <;> simp [items, actItems]
  have h1 : wA (cleanup c e).c = 0 := by simp only [cleanup, R.ok, wA]; (repeat' split) <;> simp_all
  have h2 : sigma (cleanup c e).c.stage = sigma c.stage := by simp only [cleanup, R.ok]; (repeat' split) <;> rfl
  have h3 : rho (cleanup c e).c = rho c := by simp only [cleanup, R.ok, rho]; (repeat' split) <;> simp_all
  have h4 : wF (cleanup c e).c = wF c := by simp only [cleanup, R.ok, wF]; (repeat' split) <;> simp_all
  unfold Pays chi
  omega

theorem processConnectionClose_pays (e : Exc) (c : Chan) : Pays c (processConnectionClose c e) := by
  have hcs : closeSend { c with sendSt := .closed } = R.ok { c with sendSt := .closed, sendBuf := 0 } := by
    simp [closeSend, R.ok]
  have heq : processConnectionClose c e = cleanup { c with sendSt := .closed, sendBuf := 0 } e := by
    unfold processConnectionClose
    rw [hcs]
    simp [R.andThen, R.ok]
  rw [heq]
  have := cleanup_pays e { c with sendSt := .closed, sendBuf := 0 }
  unfold Pays at this ⊢
  have hc : chi { c with sendSt := .closed, sendBuf := 0 } = chi c := rfl
  omega

theorem pays_ok {c c' : Chan} {acts : List Act}
    (h : wA c' + sigma c'.stage + rho c' + wF c' + items acts ≤ wA c + sigma c.stage + rho c + wF c) :
    Pays c (R.ok c' acts) := by
  unfold Pays chi; exact h

theorem pays_refl (c : Chan) : Pays c (R.ok c) := by simp [Pays, R.ok, items, actItems]

theorem pays_pre {c : Chan} {r : R} (acts : List Act) (h0 : items acts = 0) (h : Pays c r) : Pays c (r.pre acts) := by
  unfold Pays at h ⊢
  simp only [R.pre, items_append, h0]; omega

theorem sigma_le (s : Stage) : sigma .done ≤ sigma s := by cases s <;> simp [sigma]

theorem createFail_pays (c : Chan) (n : Nat) : Pays c (createFail c n) := by
  unfold createFail
  have := pays_of_quiet (close_quiet { c with stage := .done, outcome := .openErr n })
  unfold Pays at this ⊢
  have hc : chi { c with stage := .done, outcome := .openErr n } ≤ chi c := by
    have := chi_le' (c := c) (c' := { c with stage := .done, outcome := .openErr n }) (s := sigma c.stage)
      (Nat.le_refl _) (Nat.zero_le _) (Nat.le_refl _) (Nat.le_refl _)
    unfold chi at this ⊢; omega
  omega

theorem createMainReq_pays (c : Chan) (hs : 2 ≤ sigma c.stage) : Pays c (createMainReq c) := by
  unfold createMainReq
  cases hsc : c.sendChan with
  | none =>
    rw [makeRequest_none _ _ hsc]
    simp only [Bool.false_eq_true, if_false]
    exact pays_pre _ rfl (createFail_pays c 4)
  | some n =>
    rw [makeRequest_some _ _ n hsc]
    simp only [if_true]
    unfold Pays
    have := chi_le (c := c) (c' := { c with reqWaiter := true, stage := .waitReq }) (s := 1) (Nat.le_refl _)
      (Nat.le_refl _) (Nat.le_refl _)
    have hi : items [Act.send n (CMsg.req c.kind true)] = 0 := rfl
    simp only [R.ok, hi]
    unfold chi at this ⊢
    omega

theorem createAfterMade_pays (c : Chan) (hs : c.stage = .waitOpen) : Pays c (createAfterMade c) := by
  simp only [createAfterMade]
  have henv : items ((List.replicate c.nenv ()).flatMap (fun _ => sendPkt c (.req .env false))) = 0 :=
    items_replicate _ _ _
  split
  · cases hsc : c.sendChan with
    | none =>
      rw [makeRequest_none _ _ hsc]
      simp only [Bool.false_eq_true, if_false]
      exact pays_pre _ (by rw [items_append, henv]; rfl) (createFail_pays c 3)
    | some n =>
      rw [makeRequest_some _ _ n hsc]
      simp only [if_true]
      unfold Pays
      have := chi_le (c := c) (c' := { c with reqWaiter := true, stage := .waitPty }) (s := 2) (Nat.le_refl _)
        (Nat.le_refl _) (Nat.le_refl _)
      have hi : items [Act.send n (CMsg.req ReqKind.pty true)] = 0 := rfl
      simp only [R.ok, items_append, henv, hi]
      have h3 : sigma c.stage = 3 := by rw [hs]; rfl
      unfold chi at this ⊢
      omega
  · exact pays_pre _ henv (createMainReq_pays c (by simp [hs]))

theorem createWake_pays (c : Chan) : Pays c (createWake c) := by
  unfold createWake
  cases hv : c.wakeVal with
  | none => exact pays_refl c
  | some v =>
    simp only
    have hc0 : chi { c with wakeVal := none } = chi c := rfl
    have lift : ∀ r, Pays { c with wakeVal := none } r → Pays c r := by
      intro r h; unfold Pays at h ⊢; omega
    have hdone : ∀ (o : Outcome), Pays c (R.ok { c with wakeVal := none, stage := .done, outcome := o }) := by
      intro o
      apply pays_ok
      show wA c + 0 + rho c + wF c + 0 ≤ wA c + sigma c.stage + rho c + wF c
      omega
    apply lift
    cases v with
    | openOk =>
      simp only [createResume]
      split
      · rename_i hs
        unfold createAfterOpen
        have := createAfterMade_pays { c with wakeVal := none, session := true, trace := c.trace ++ [.made] } hs
        have hcc : chi { c with wakeVal := none, session := true, trace := c.trace ++ [.made] } =
            chi { c with wakeVal := none } := rfl
        show Pays { c with wakeVal := none }
          (createAfterMade { c with wakeVal := none, session := true, trace := c.trace ++ [.made] })
        unfold Pays at this ⊢
        rw [hcc] at this
        exact this
      · exact pays_refl _
    | openFail b =>
      simp only [createResume]
      split
      · have := hdone (.openErr 2); unfold Pays at this ⊢; omega
      · exact pays_refl _
    | reqVal b =>
      cases b with
      | true =>
        simp only [createResume]
        split
        · rename_i hs
          exact createMainReq_pays _ (by show 2 ≤ sigma c.stage; have hs' : c.stage = .waitPty := hs; simp [hs'])
        · split
          · rename_i hs
            split
            · have hs : c.stage = .waitReq := hs
              apply pays_ok
              show wA c + 0 + rho c + wF c + 1 ≤ wA c + sigma c.stage + rho c + wF c
              rw [hs]; simp; omega
            · have := hdone (.exc .attr); unfold Pays at this ⊢; omega
          · exact pays_refl _
      | false =>
        simp only [createResume]
        split
        · exact createFail_pays _ 3
        · split
          · exact createFail_pays _ 4
          · exact pays_refl _
    | exc e =>
      simp only [createResume]
      split
      · have := hdone (.exc e); unfold Pays at this ⊢; omega
      · exact pays_refl _

theorem finishOpenGranted_pays (c : Chan) (hf : c.fo = .start ∨ c.fo = .awaiting) : Pays c (finishOpenGranted c) := by
  have h1 : wF c = 1 := by simp [wF, hf]
  simp only [finishOpenGranted]
  split
  · apply pays_ok
    rw [h1]
    show wA c + sigma c.stage + rho c + 0 + 1 ≤ wA c + sigma c.stage + rho c + 1
    omega
  · split <;>
    · apply pays_ok
      rw [h1]
      show wA c + sigma c.stage + 0 + 0 + 0 ≤ wA c + sigma c.stage + rho c + 1
      omega

theorem finishOpenDenied_pays (c : Chan) (hf : c.fo = .start ∨ c.fo = .awaiting) : Pays c (finishOpenDenied c) := by
  have h1 : wF c = 1 := by simp [wF, hf]
  simp only [finishOpenDenied]
  have h2 : items ((if c.reg = true then (match c.sendChan with | some sc => [Act.sendFail sc] | none => []) else []) ++
      [Act.sched .clean]) = 1 := by
    simp only [items_append]
    split
    · split <;> simp [items, actItems]
    · simp [items, actItems]
  apply pays_ok
  have h2' : items (([] : List Act) ++ [Act.sched .clean]) = 1 := rfl
  generalize hacts : ((if c.reg = true then (match c.sendChan with | some sc => [Act.sendFail sc] | none => []) else []) ++
      [Act.sched .clean]) = acts at h2
  rw [h2, h1]
  show wA c + sigma c.stage + rho c + 0 + 1 ≤ wA c + sigma c.stage + rho c + 1
  omega

theorem finishOpen_pays (c : Chan) : Pays c (finishOpen c) := by
  unfold finishOpen
  split
  · exact pays_refl c
  · rename_i hs
    have hs' : c.fo = .start := by simpa using hs
    split
    · split
      · exact finishOpenGranted_pays c (Or.inl hs')
      · exact finishOpenDenied_pays c (Or.inl hs')
      · apply pays_ok
        have h1 : wF c = 1 := by simp [wF, hs']
        rw [h1]
        show wA c + sigma c.stage + rho c + 1 + 0 ≤ wA c + sigma c.stage + rho c + 1
        omega
    · exact finishOpenGranted_pays c (Or.inl hs')

theorem finishOpenResume_pays (g : Bool) (c : Chan) : Pays c (finishOpenResume c g) := by
  unfold finishOpenResume
  split
  · exact pays_refl c
  · rename_i hs
    have hs' : c.fo = .awaiting := by simpa using hs
    split
    · exact finishOpenGranted_pays c (Or.inr hs')
    · exact finishOpenDenied_pays c (Or.inr hs')

/-! ### the connection: every executed entry decreases `Phi` once the transport is gone -/

theorem chiSum_set {l : List Chan} {k : Nat} {c c' : Chan} (h : l[k]? = some c) :
    chiSum (l.set k c') + chi c = chiSum l + chi c' := by
  induction l generalizing k with
  | nil => simp at h
  | cons x rest ih =>
    cases k with
    | zero =>
      simp at h; subst h
      simp [chiSum]; omega
    | succ n =>
      simp at h
      have := ih h
      simp [chiSum] at this ⊢; omega

theorem send_noTransport (s : Conn) (m : Msg) (h : s.transport = false) : s.send m = s := by
  simp [Conn.send, h]

theorem forceClose_noTransport (s : Conn) (e : Exc) (h : s.transport = false) : forceClose s e = s := by
  simp [forceClose, h]

theorem applyActs_gqueue (k : Nat) (acts : List Act) (s0 : Conn) : (applyActs k s0 acts).gqueue = s0.gqueue := by
  induction acts generalizing s0 with
  | nil => rfl
  | cons a rest ih =>
    simp only [applyActs, List.foldl_cons]
    have h1 : (applyAct k s0 a).gqueue = s0.gqueue := by
      cases a <;> simp only [applyAct, Conn.send, Conn.enq] <;> (try split) <;> rfl
    have := ih (applyAct k s0 a)
    simp only [applyActs] at this
    rw [this, h1]

/-- a channel step whose cost is covered by the channel's potential does not increase `Phi` -/
theorem phi_withChan {s : Conn} {k : Nat} {f : Chan → R} {onErr : Conn → Exc → Conn} (ht : s.transport = false)
    (hE : ∀ s' e, s'.transport = false → onErr s' e = s') (hp : ∀ c, Pays c (f c)) :
    Phi (withChan s k f onErr) ≤ Phi s ∧ (withChan s k f onErr).transport = false := by
  unfold withChan
  cases hc : s.chans[k]? with
  | none => exact ⟨Nat.le_refl _, ht⟩
  | some c =>
    simp only
    obtain ⟨hcore, hready⟩ := applyActs_core k (f c).acts (setChan s k (f c).c)
    have ht1 : (applyActs k (setChan s k (f c).c) (f c).acts).transport = false := by rw [hcore.transport]; exact ht
    have hphi : Phi (applyActs k (setChan s k (f c).c) (f c).acts) ≤ Phi s := by
      have hg := applyActs_gqueue k (f c).acts (setChan s k (f c).c)
      have hch : (applyActs k (setChan s k (f c).c) (f c).acts).chans = s.chans.set k (f c).c := hcore.chans
      have hrd : (applyActs k (setChan s k (f c).c) (f c).acts).ready = s.ready ++ actItems k (f c).acts := hready
      have hs := chiSum_set (c' := (f c).c) hc
      have hpay := hp c
      unfold Pays at hpay
      unfold Phi
      rw [hg, hch, hrd, List.length_append, actItems_length]
      show s.ready.length + items (f c).acts + chiSum (s.chans.set k (f c).c) + 2 * s.gqueue ≤
        s.ready.length + chiSum s.chans + 2 * s.gqueue
      omega
    split
    · exact ⟨hphi, ht1⟩
    · rw [hE _ _ ht1]; exact ⟨hphi, ht1⟩

theorem phi_closeChans (e : Exc) (n : Nat) (s : Conn) (ht : s.transport = false) :
    Phi (closeChans e n s) ≤ Phi s ∧ (closeChans e n s).transport = false := by
  induction n with
  | zero => exact ⟨Nat.le_refl _, ht⟩
  | succ n ih =>
    simp only [closeChans]
    split
    · split
      · have := phi_withChan (s := closeChans e n s) (k := n) (f := fun c => processConnectionClose c e)
          (onErr := ignoreErr) ih.2 (fun _ _ _ => rfl) (fun c => processConnectionClose_pays e c)
        exact ⟨Nat.le_trans this.1 ih.1, this.2⟩
      · exact ih
    · exact ih

theorem phi_reportGlobalFalse (s : Conn) (ht : s.transport = false) :
    Phi (reportGlobalFalse s) ≤ Phi s ∧ (reportGlobalFalse s).transport = false := by
  unfold reportGlobalFalse
  rw [send_noTransport _ _ (by exact ht)]
  simp only
  split
  · rename_i hg
    refine ⟨?_, ht⟩
    simp only [Phi, Conn.enq, List.length_append, List.length_singleton]
    have hg' : 0 < s.gqueue - 1 := hg
    omega
  · refine ⟨?_, ht⟩
    simp only [Phi]
    omega

/-- **every executed ready-queue entry decreases `Phi`** (transport gone) -/
theorem phi_runHead (s : Conn) (ht : s.transport = false) (hne : s.ready ≠ []) :
    Phi (runHead s) < Phi s ∧ (runHead s).transport = false := by
  unfold runHead
  cases hr : s.ready with
  | nil => exact absurd hr hne
  | cons it rest =>
    simp only
    have hpop : Phi ({ s with ready := rest } : Conn) + 1 = Phi s := by
      simp only [Phi, hr, List.length_cons]; omega
    have ht0 : ({ s with ready := rest } : Conn).transport = false := ht
    cases it with
    | chanCleanup k e =>
      have := phi_withChan (s := { s with ready := rest }) (k := k) (f := fun c => cleanup c e) (onErr := ignoreErr)
        ht0 (fun _ _ _ => rfl) (fun c => cleanup_pays e c)
      exact ⟨by simp only [runItem]; omega, this.2⟩
    | connCleanup e =>
      have := phi_closeChans e s.chans.length { s with ready := rest } ht0
      have h1 : Phi (connCleanup { s with ready := rest } e) =
          Phi (closeChans e s.chans.length { s with ready := rest }) := rfl
      have h2 : (connCleanup { s with ready := rest } e).transport =
          (closeChans e s.chans.length { s with ready := rest }).transport := rfl
      simp only [runItem]
      exact ⟨by omega, by rw [h2]; exact this.2⟩
    | transportAbort => exact ⟨by simp only [runItem, Phi] at *; omega, ht⟩
    | createStart i =>
      simp only [runItem]
      have key : ∀ (s0 : Conn), s0.transport = false → Phi (createStart s0 i) = Phi s0 ∧ (createStart s0 i).transport = false := by
        intro s0 h0
        unfold createStart
        cases s0.cli[i]? with
        | none => exact ⟨rfl, h0⟩
        | some cs =>
          simp only
          split <;> (try split) <;> first | exact ⟨rfl, h0⟩ | (rename_i hx; exact absurd h0 hx)
      have := key { s with ready := rest } ht0
      exact ⟨by omega, this.2⟩
    | createWake k =>
      have := phi_withChan (s := { s with ready := rest }) (k := k) (f := createWake) (onErr := ignoreErr)
        ht0 (fun _ _ _ => rfl) createWake_pays
      exact ⟨by simp only [runItem]; omega, this.2⟩
    | startReading k =>
      have := phi_withChan (s := { s with ready := rest }) (k := k) (f := startReading) (onErr := forceClose)
        ht0 (fun s' e h => forceClose_noTransport s' e h) (fun c => pays_of_quiet (startReading_quiet c))
      exact ⟨by simp only [runItem]; omega, this.2⟩
    | finishOpen k =>
      have := phi_withChan (s := { s with ready := rest }) (k := k) (f := finishOpen) (onErr := ignoreErr)
        ht0 (fun _ _ _ => rfl) finishOpen_pays
      exact ⟨by simp only [runItem]; omega, this.2⟩
    | finishOpenResume k g =>
      have := phi_withChan (s := { s with ready := rest }) (k := k) (f := fun c => finishOpenResume c g)
        (onErr := ignoreErr) ht0 (fun _ _ _ => rfl) (fun c => finishOpenResume_pays g c)
      exact ⟨by simp only [runItem]; omega, this.2⟩
    | greqStart i =>
      simp only [runItem]
      split
      · exact ⟨by simp only [Phi] at *; omega, ht⟩
      · rename_i hx; exact absurd ht0 hx
    | finishPF j =>
      simp only [runItem, finishPF]
      split
      · exact ⟨by omega, ht⟩
      · split
        · exact ⟨by simp only [Phi] at *; omega, ht⟩
        · generalize hs0 : ({ s with ready := rest, ownerTrace := s.ownerTrace ++ [.serverRequested], pfs := s.pfs ++ [({} : PF)] } : Conn) = s0
          have ht1 : s0.transport = false := by rw [← hs0]; exact ht
          have h1 : Phi s0 = Phi ({ s with ready := rest } : Conn) := by rw [← hs0]; rfl
          have := phi_reportGlobalFalse s0 ht1
          exact ⟨by omega, this.2⟩
    | finishPFResume j =>
      have := phi_reportGlobalFalse ({ s with ready := rest } : Conn) ht0
      exact ⟨by simp only [runItem]; omega, this.2⟩

theorem runN_empty (n : Nat) (s : Conn) (h : s.ready = []) : runN n s = s := by
  induction n with
  | zero => rfl
  | succ n ih =>
    simp only [runN]
    have : runHead s = s := by unfold runHead; rw [h]
    rw [this]; exact ih

/-- **the event loop drains**: with the transport gone, after at most `Phi s` entries the ready queue is empty -/
theorem drain_bounded (n : Nat) (s : Conn) (ht : s.transport = false) (hn : Phi s ≤ n) :
    (runN n s).ready = [] ∧ (runN n s).transport = false := by
  induction n generalizing s with
  | zero =>
    simp only [runN]
    refine ⟨?_, ht⟩
    cases hr : s.ready with
    | nil => rfl
    | cons a b => simp [Phi, hr] at hn
  | succ n ih =>
    by_cases hne : s.ready = []
    · rw [runN_empty _ _ hne]; exact ⟨hne, ht⟩
    · simp only [runN]
      have := phi_runHead s ht hne
      exact ih _ this.2 (by omega)

end AsyncsshModel.Lifecycle
