import AsyncsshModel.Model.Forward
/-
  Helper lemmas for the listener table of `Model/Forward.lean` (property C20).
-/
namespace AsyncsshModel.Forward
open AsyncsshModel
set_option linter.unusedSimpArgs false
set_option linter.unusedVariables false

/-- (used for `sockDest`: a path without NUL is read in full) -/
theorem takeWhile_self_of_all {α : Type} (p : α → Bool) : ∀ (l : List α), (∀ x ∈ l, p x = true) →
    l.takeWhile p = l
  | [], _ => rfl
  | a :: r, h => by
    have ha : p a = true := h a (by simp)
    simp only [List.takeWhile_cons, ha, if_true]
    rw [takeWhile_self_of_all p r (fun x hx => h x (List.mem_cons_of_mem _ hx))]

theorem hasKey_true {t : List (LKey × Nat)} {k : LKey} : hasKey t k = true ↔ ∃ i, (k, i) ∈ t := by
  simp only [hasKey, List.find?_isSome]
  constructor
  · rintro ⟨⟨k', i⟩, hm, hk⟩
    simp only [beq_iff_eq] at hk
    subst hk
    exact ⟨i, hm⟩
  · rintro ⟨i, hm⟩
    exact ⟨(k, i), hm, by simp⟩

theorem hasKey_false {t : List (LKey × Nat)} {k : LKey} : hasKey t k = false ↔ ∀ i, (k, i) ∉ t := by
  constructor
  · intro h i hm
    have : hasKey t k = true := hasKey_true.mpr ⟨i, hm⟩
    rw [h] at this
    cases this
  · intro h
    cases hk : hasKey t k
    · rfl
    · obtain ⟨i, hm⟩ := hasKey_true.mp hk
      exact absurd hm (h i)

/-- every open listener is registered, a key is registered once, and a UNIX path whose listener is being
    created is neither registered nor being created a second time -/
structure Linv (s : LState) : Prop where
  listed : ∀ id ∈ s.listening, ∃ k, (k, id) ∈ s.table
  keyUniq : ∀ k i j, (k, i) ∈ s.table → (k, j) ∈ s.table → i = j
  pendFresh : ∀ p ∈ s.pending, p.2.isUnix = true → hasKey s.table p.2 = false
  pendUniq : ∀ p ∈ s.pending, ∀ q ∈ s.pending, p.2.isUnix = true → p.2 = q.2 → p.1 = q.1

theorem linv_init : Linv {} := by
  constructor <;> simp

theorem mem_tableErase {t : List (LKey × Nat)} {k k' : LKey} {i : Nat} :
    (k', i) ∈ tableErase t k ↔ (k', i) ∈ t ∧ k' ≠ k := by
  simp [tableErase]

theorem tableErase_of_not_hasKey {t : List (LKey × Nat)} {k : LKey} (h : hasKey t k = false) :
    tableErase t k = t := by
  unfold tableErase
  rw [List.filter_eq_self]
  intro e he
  simp only [bne_iff_ne, ne_eq]
  intro hk
  obtain ⟨k', i⟩ := e
  simp only at hk
  subst hk
  exact (hasKey_false.mp h) i he

theorem hasKey_tableErase_false {t : List (LKey × Nat)} {k q : LKey} (h : hasKey t q = false) :
    hasKey (tableErase t k) q = false := by
  rw [hasKey_false] at h ⊢
  intro i hm
  exact h i (mem_tableErase.mp hm).1

theorem linv_closeL (s : LState) (k : LKey) (id : Nat) (h : Linv s) (hm : (k, id) ∈ s.table) :
    Linv (closeL s k id) := by
  constructor
  · intro id' hid'
    simp only [closeL, List.mem_filter, bne_iff_ne, ne_eq] at hid'
    obtain ⟨k', hk'⟩ := h.listed id' hid'.1
    refine ⟨k', ?_⟩
    simp only [closeL]
    rw [mem_tableErase]
    refine ⟨hk', ?_⟩
    intro hkk
    subst hkk
    exact hid'.2 (h.keyUniq _ _ _ hk' hm)
  · intro k' i j hi hj
    simp only [closeL] at hi hj
    rw [mem_tableErase] at hi hj
    exact h.keyUniq k' i j hi.1 hj.1
  · intro p hp hu
    exact hasKey_tableErase_false (h.pendFresh p hp hu)
  · exact h.pendUniq

/-- `closeAll` over a snapshot `t` erases exactly the keys and ids of `t` -/
theorem closeAll_spec (t : List (LKey × Nat)) : ∀ s : LState,
    (closeAll t s).table = s.table.filter (fun e => !(t.map (·.1)).contains e.1) ∧
    (closeAll t s).listening = s.listening.filter (fun i => !(t.map (·.2)).contains i) ∧
    (closeAll t s).pending = s.pending ∧ (closeAll t s).next = s.next ∧ (closeAll t s).cleaned = s.cleaned := by
  induction t with
  | nil =>
    intro s
    simp only [closeAll, List.map_nil, List.contains_nil, Bool.not_false]
    exact ⟨(List.filter_eq_self.mpr (fun _ _ => rfl)).symm, (List.filter_eq_self.mpr (fun _ _ => rfl)).symm,
      trivial, trivial, trivial⟩
  | cons e r ih =>
    intro s
    obtain ⟨k, id⟩ := e
    simp only [closeAll]
    obtain ⟨h1, h2, h3, h4, h5⟩ := ih (closeL s k id)
    refine ⟨?_, ?_, ?_, ?_, ?_⟩
    · rw [h1]
      simp only [closeL, tableErase, List.filter_filter, List.map_cons, List.contains_cons]
      congr 1
      funext x
      cases hx : (x.1 == k) <;> simp [hx, bne]
    · rw [h2]
      simp only [closeL, List.filter_filter, List.map_cons, List.contains_cons]
      congr 1
      funext x
      cases hx : (x == id) <;> simp [hx, bne]
    · rw [h3]; rfl
    · rw [h4]; rfl
    · rw [h5]; rfl

theorem cleanup_empty (v : LVariant) (s : LState) (h : Linv s) :
    (lstep v s .cleanup).table = [] ∧ (lstep v s .cleanup).listening = [] ∧
    (lstep v s .cleanup).cleaned = true ∧ (lstep v s .cleanup).pending = s.pending := by
  obtain ⟨h1, h2, h3, _, _⟩ := closeAll_spec s.table s
  refine ⟨?_, ?_, ?_, ?_⟩
  · show (closeAll s.table s).table = []
    rw [h1, List.filter_eq_nil_iff]
    intro e he
    simp
    exact ⟨e.2, he⟩
  · show (closeAll s.table s).listening = []
    rw [h2, List.filter_eq_nil_iff]
    intro i hi
    obtain ⟨k, hk⟩ := h.listed i hi
    simp
    exact ⟨k, hk⟩
  · rfl
  · show (closeAll s.table s).pending = s.pending
    exact h3

theorem find_key_mem {t : List (LKey × Nat)} {k : LKey} {e : LKey × Nat}
    (h : t.find? (·.1 == k) = some e) : e ∈ t ∧ e.1 = k := by
  have h1 := List.find?_some h
  have h2 := List.mem_of_find?_eq_some h
  exact ⟨h2, by simpa using h1⟩

theorem find_id_mem {t : List (LKey × Nat)} {id : Nat} {e : LKey × Nat}
    (h : t.find? (·.2 == id) = some e) : e ∈ t ∧ e.2 = id := by
  have h1 := List.find?_some h
  have h2 := List.mem_of_find?_eq_some h
  exact ⟨h2, by simpa using h1⟩

theorem find_pending_mem {p : List (Nat × LKey)} {id : Nat} {e : Nat × LKey}
    (h : p.find? (·.1 == id) = some e) : e ∈ p ∧ e.1 = id := by
  have h1 := List.find?_some h
  have h2 := List.mem_of_find?_eq_some h
  exact ⟨h2, by simpa using h1⟩

theorem linv_step (v : LVariant) (s : LState) (e : LEv) (h : Linv s) (hl : llegal v s e = true) :
    Linv (lstep v s e) := by
  cases e with
  | request k g =>
    simp only [lstep]
    split
    · exact h
    · rename_i hg
      have hg' : g = true := by simpa using hg
      subst hg'
      split
      · exact ⟨h.listed, h.keyUniq, h.pendFresh, h.pendUniq⟩
      · rename_i hnd
        simp only [llegal, Bool.or_eq_true, Bool.not_eq_true', Bool.and_eq_true, List.any_eq_false,
          beq_iff_eq] at hl
        have hfresh : k.isUnix = true → hasKey s.table k = false := by
          intro hu
          rcases hl with hl | ⟨_, hl | hl⟩
          · rw [hu] at hl; cases hl
          · cases hk : hasKey s.table k
            · rfl
            · exact absurd (by simp [hl, hu, hk]) hnd
          · exact hl
        have hnone : k.isUnix = true → ∀ p ∈ s.pending, p.2 ≠ k := by
          intro hu p hp
          rcases hl with hl | ⟨hl, _⟩
          · rw [hu] at hl; cases hl
          · exact hl p hp
        refine ⟨h.listed, h.keyUniq, ?_, ?_⟩
        · intro p hp hu
          simp only [List.mem_append, List.mem_singleton] at hp
          rcases hp with hp | rfl
          · exact h.pendFresh p hp hu
          · exact hfresh hu
        · intro p hp q hq hu hpq
          simp only [List.mem_append, List.mem_singleton] at hp hq
          rcases hp with hp | rfl <;> rcases hq with hq | rfl
          · exact h.pendUniq p hp q hq hu hpq
          · exact absurd hpq (hnone (by simp only at hpq; rw [← hpq]; exact hu) p hp)
          · exact absurd hpq.symm (hnone hu q hq)
          · rfl
  | created id =>
    simp only [lstep]
    split
    · exact h
    · rename_i id' k hfind
      obtain ⟨hpm, hid⟩ := find_pending_mem hfind
      simp only at hid
      subst hid
      have hsub : ∀ q ∈ s.pending.filter (·.1 != id'), q ∈ s.pending := fun q hq => (List.mem_filter.mp hq).1
      split
      · exact ⟨h.listed, h.keyUniq, fun p hp => h.pendFresh p (hsub p hp),
          fun p hp q hq => h.pendUniq p (hsub p hp) q (hsub q hq)⟩
      · rename_i hbind
        split
        · exact ⟨h.listed, h.keyUniq, fun p hp => h.pendFresh p (hsub p hp),
            fun p hp q hq => h.pendUniq p (hsub p hp) q (hsub q hq)⟩
        · have hfree : hasKey s.table k = false := by
            cases hu : k.isUnix
            · cases hk : hasKey s.table k
              · rfl
              · exact absurd (by simp [hk, hu]) hbind
            · exact h.pendFresh _ hpm hu
          have hnone := hasKey_false.mp hfree
          simp only [tableErase_of_not_hasKey hfree]
          constructor
          · intro id'' hid''
            simp only [List.mem_cons] at hid''
            rcases hid'' with rfl | hid''
            · exact ⟨k, by simp⟩
            · obtain ⟨k', hk'⟩ := h.listed id'' hid''
              exact ⟨k', by simp [hk']⟩
          · intro k' i j hi hj
            simp only [List.mem_cons, Prod.mk.injEq] at hi hj
            rcases hi with ⟨hi1, hi2⟩ | hi <;> rcases hj with ⟨hj1, hj2⟩ | hj
            · rw [hi2, hj2]
            · rw [hi1] at hj; exact absurd hj (hnone _)
            · rw [hj1] at hi; exact absurd hi (hnone _)
            · exact h.keyUniq _ _ _ hi hj
          · intro q hq hu
            have hq' := List.mem_filter.mp hq
            rw [hasKey_false]
            intro i hm
            simp only [List.mem_cons, Prod.mk.injEq] at hm
            rcases hm with ⟨hk, _⟩ | hm
            · have := h.pendUniq q hq'.1 _ hpm hu hk
              simp only [bne_iff_ne, ne_eq] at hq'
              exact hq'.2 this
            · exact (hasKey_false.mp (h.pendFresh q hq'.1 hu)) i hm
          · exact fun p hp q hq => h.pendUniq p (hsub p hp) q (hsub q hq)
  | createFailed id =>
    have hsub : ∀ q ∈ s.pending.filter (·.1 != id), q ∈ s.pending := fun q hq => (List.mem_filter.mp hq).1
    exact ⟨h.listed, h.keyUniq, fun p hp => h.pendFresh p (hsub p hp),
      fun p hp q hq => h.pendUniq p (hsub p hp) q (hsub q hq)⟩
  | cancel k =>
    simp only [lstep]
    split
    · exact h
    · rename_i k' id hfind
      obtain ⟨hm, hk⟩ := find_key_mem hfind
      subst hk
      exact linv_closeL s _ id h hm
  | closeListener id =>
    simp only [lstep]
    split
    · exact h
    · rename_i k id' hfind
      obtain ⟨hm, hk⟩ := find_id_mem hfind
      subst hk
      exact linv_closeL s k _ h hm
  | cleanup =>
    obtain ⟨h1, h2, _, h4⟩ := cleanup_empty v s h
    constructor
    · intro id hid; rw [h2] at hid; cases hid
    · intro k i j hi; rw [h1] at hi; cases hi
    · intro p _ _; rw [h1]; rfl
    · rw [h4]; exact h.pendUniq

theorem linv_run (v : LVariant) (evs : List LEv) : ∀ s, Linv s → llegalRun v s evs = true →
    Linv (lrun v s evs) := by
  induction evs with
  | nil => intro s h _; exact h
  | cons e es ih =>
    intro s h hl
    simp only [llegalRun, Bool.and_eq_true] at hl
    exact ih _ (linv_step v s e h hl.1) hl.2

/-- released: nothing registered, nothing listening -/
def Released (s : LState) : Prop := s.table = [] ∧ s.listening = []

/-- closing on an empty table changes nothing that matters -/
theorem released_step (v : LVariant) (s : LState) (e : LEv) (hr : Released s) (hc : s.cleaned = true)
    (he : v.fixRace = true ∨ ∀ id, e ≠ .created id) :
    Released (lstep v s e) ∧ (lstep v s e).cleaned = true := by
  obtain ⟨ht, hl⟩ := hr
  cases e with
  | request k g =>
    simp only [lstep]; split
    · exact ⟨⟨ht, hl⟩, hc⟩
    · split <;> exact ⟨⟨ht, hl⟩, hc⟩
  | created id =>
    rcases he with he | he
    · simp only [lstep]
      split
      · exact ⟨⟨ht, hl⟩, hc⟩
      · simp [ht, hc, hl, he, Released, hasKey]
    · exact absurd rfl (he id)
  | createFailed id => exact ⟨⟨ht, hl⟩, hc⟩
  | cancel k => simp only [lstep, ht, List.find?_nil]; exact ⟨⟨ht, hl⟩, hc⟩
  | closeListener id => simp only [lstep, ht, List.find?_nil]; exact ⟨⟨ht, hl⟩, hc⟩
  | cleanup =>
    simp [lstep, ht, closeAll, Released, hl]

theorem released_run (v : LVariant) (evs : List LEv) : ∀ s, Released s → s.cleaned = true →
    (v.fixRace = true ∨ ∀ id, LEv.created id ∉ evs) → Released (lrun v s evs) := by
  induction evs with
  | nil => intro s h _ _; exact h
  | cons e es ih =>
    intro s hr hc he
    have h1 := released_step v s e hr hc (by
      rcases he with h | h
      · exact Or.inl h
      · right; intro id hid; exact h id (by rw [hid]; simp))
    exact ih _ h1.1 h1.2 (by
      rcases he with h | h
      · exact Or.inl h
      · right; intro id hid; exact h id (List.mem_cons_of_mem _ hid))

theorem lrun_append (v : LVariant) (l m : List LEv) : ∀ s, lrun v s (l ++ m) = lrun v (lrun v s l) m := by
  induction l with
  | nil => intro s; rfl
  | cons e es ih => intro s; simp only [List.cons_append, lrun]; exact ih _

theorem llegalRun_append (v : LVariant) (l m : List LEv) : ∀ s,
    llegalRun v s (l ++ m) = (llegalRun v s l && llegalRun v (lrun v s l) m) := by
  induction l with
  | nil => intro s; simp [llegalRun, lrun]
  | cons e es ih => intro s; simp only [List.cons_append, llegalRun, lrun, ih, Bool.and_assoc]

end AsyncsshModel.Forward
