import AsyncsshModel.Model.Forward
/-
  Helper lemmas for the listener table of `Model/Forward.lean` (property C20).
-/
namespace AsyncsshModel.Forward
open AsyncsshModel
set_option linter.unusedSimpArgs false
set_option linter.unusedVariables false

/-- every open listener is registered, and a key is registered once -/
structure Linv (s : LState) : Prop where
  listed : ∀ id ∈ s.listening, ∃ k, (k, id) ∈ s.table
  keyUniq : ∀ k i j, (k, i) ∈ s.table → (k, j) ∈ s.table → i = j

theorem linv_init : Linv {} := by
  constructor <;> simp

theorem mem_tableErase {t : List (LKey × Nat)} {k k' : LKey} {i : Nat} :
    (k', i) ∈ tableErase t k ↔ (k', i) ∈ t ∧ k' ≠ k := by
  simp [tableErase]

theorem linv_closeL (s : LState) (k : LKey) (id : Nat) (h : Linv s) (hm : (k, id) ∈ s.table) :
    Linv (closeL s k id) := by
  constructor
  · intro id' hid'
    simp only [closeL, List.mem_filter, bne_iff_ne, ne_eq] at hid'
    obtain ⟨k', hk'⟩ := h.listed id' hid'.1
    refine ⟨k', ?_⟩
    simp only [closeL]
    rw [mem_tableErase]
    refine ⟨hk', ?_⟩
    intro hkk
    subst hkk
    exact hid'.2 (h.keyUniq _ _ _ hk' hm)
  · intro k' i j hi hj
    simp only [closeL] at hi hj
    rw [mem_tableErase] at hi hj
    exact h.keyUniq k' i j hi.1 hj.1

/-- `closeAll` over a snapshot `t` erases exactly the keys and ids of `t` -/
theorem closeAll_spec (t : List (LKey × Nat)) : ∀ s : LState,
    (closeAll t s).table = s.table.filter (fun e => !(t.map (·.1)).contains e.1) ∧
    (closeAll t s).listening = s.listening.filter (fun i => !(t.map (·.2)).contains i) ∧
    (closeAll t s).pending = s.pending ∧ (closeAll t s).next = s.next ∧ (closeAll t s).cleaned = s.cleaned := by
  induction t with
  | nil =>
    intro s
    simp only [closeAll, List.map_nil, List.contains_nil, Bool.not_false]
    exact ⟨(List.filter_eq_self.mpr (fun _ _ => rfl)).symm, (List.filter_eq_self.mpr (fun _ _ => rfl)).symm,
      trivial, trivial, trivial⟩
  | cons e r ih =>
    intro s
    obtain ⟨k, id⟩ := e
    simp only [closeAll]
    obtain ⟨h1, h2, h3, h4, h5⟩ := ih (closeL s k id)
    refine ⟨?_, ?_, ?_, ?_, ?_⟩
    · rw [h1]
      simp only [closeL, tableErase, List.filter_filter, List.map_cons, List.contains_cons]
      congr 1
      funext x
      cases hx : (x.1 == k) <;> simp [hx, bne]
    · rw [h2]
      simp only [closeL, List.filter_filter, List.map_cons, List.contains_cons]
      congr 1
      funext x
      cases hx : (x == id) <;> simp [hx, bne]
    · rw [h3]; rfl
    · rw [h4]; rfl
    · rw [h5]; rfl

theorem cleanup_empty (fix : Bool) (s : LState) (h : Linv s) :
    (lstep fix s .cleanup).table = [] ∧ (lstep fix s .cleanup).listening = [] ∧
    (lstep fix s .cleanup).cleaned = true ∧ (lstep fix s .cleanup).pending = s.pending := by
  obtain ⟨h1, h2, h3, _, _⟩ := closeAll_spec s.table s
  refine ⟨?_, ?_, ?_, ?_⟩
  · show (closeAll s.table s).table = []
    rw [h1, List.filter_eq_nil_iff]
    intro e he
    simp
    exact ⟨e.2, he⟩
  · show (closeAll s.table s).listening = []
    rw [h2, List.filter_eq_nil_iff]
    intro i hi
    obtain ⟨k, hk⟩ := h.listed i hi
    simp
    exact ⟨k.1, k.2, hk⟩
  · rfl
  · show (closeAll s.table s).pending = s.pending
    exact h3

theorem find_key_mem {t : List (LKey × Nat)} {k : LKey} {e : LKey × Nat}
    (h : t.find? (·.1 == k) = some e) : e ∈ t ∧ e.1 = k := by
  have h1 := List.find?_some h
  have h2 := List.mem_of_find?_eq_some h
  exact ⟨h2, by simpa using h1⟩

theorem find_id_mem {t : List (LKey × Nat)} {id : Nat} {e : LKey × Nat}
    (h : t.find? (·.2 == id) = some e) : e ∈ t ∧ e.2 = id := by
  have h1 := List.find?_some h
  have h2 := List.mem_of_find?_eq_some h
  exact ⟨h2, by simpa using h1⟩

theorem linv_step (fix : Bool) (s : LState) (e : LEv) (h : Linv s) : Linv (lstep fix s e) := by
  cases e with
  | request k g =>
    simp only [lstep]
    split
    · exact ⟨h.listed, h.keyUniq⟩
    · exact h
  | created id =>
    simp only [lstep]
    split
    · exact h
    · rename_i k hfind
      split
      · exact ⟨h.listed, h.keyUniq⟩
      · rename_i hfree
        split
        · exact ⟨h.listed, h.keyUniq⟩
        · constructor
          · intro id' hid'
            simp only [List.mem_cons] at hid'
            rcases hid' with rfl | hid'
            · exact ⟨k, by simp⟩
            · obtain ⟨k', hk'⟩ := h.listed id' hid'
              exact ⟨k', by simp [hk']⟩
          · intro k' i j hi hj
            simp only [List.mem_cons, Prod.mk.injEq] at hi hj
            have hnone : ∀ x, (k, x) ∉ s.table := by
              intro x hx
              have : (s.table.find? (·.1 == k)).isSome = true := by
                rw [List.find?_isSome]
                exact ⟨(k, x), hx, by simp⟩
              exact hfree this
            rcases hi with ⟨hi1, hi2⟩ | hi <;> rcases hj with ⟨hj1, hj2⟩ | hj
            · rw [hi2, hj2]
            · rw [hi1] at hj; exact absurd hj (hnone _)
            · rw [hj1] at hi; exact absurd hi (hnone _)
            · exact h.keyUniq _ _ _ hi hj
  | createFailed id => exact ⟨h.listed, h.keyUniq⟩
  | cancel k =>
    simp only [lstep]
    split
    · exact h
    · rename_i k' id hfind
      obtain ⟨hm, hk⟩ := find_key_mem hfind
      subst hk
      exact linv_closeL s _ id h hm
  | closeListener id =>
    simp only [lstep]
    split
    · exact h
    · rename_i k id' hfind
      obtain ⟨hm, hk⟩ := find_id_mem hfind
      subst hk
      exact linv_closeL s k _ h hm
  | cleanup =>
    obtain ⟨h1, h2, _, _⟩ := cleanup_empty fix s h
    constructor
    · intro id hid; rw [h2] at hid; cases hid
    · intro k i j hi; rw [h1] at hi; cases hi

theorem linv_run (fix : Bool) (evs : List LEv) : ∀ s, Linv s → Linv (lrun fix s evs) := by
  induction evs with
  | nil => intro s h; exact h
  | cons e es ih => intro s h; exact ih _ (linv_step fix s e h)

/-- released: nothing registered, nothing listening -/
def Released (s : LState) : Prop := s.table = [] ∧ s.listening = []

/-- closing on an empty table changes nothing that matters -/
theorem released_step (fix : Bool) (s : LState) (e : LEv) (hr : Released s) (hc : s.cleaned = true)
    (he : fix = true ∨ ∀ id, e ≠ .created id) :
    Released (lstep fix s e) ∧ (lstep fix s e).cleaned = true := by
  obtain ⟨ht, hl⟩ := hr
  cases e with
  | request k g =>
    simp only [lstep]; split <;> exact ⟨⟨ht, hl⟩, hc⟩
  | created id =>
    rcases he with rfl | he
    · simp only [lstep]
      split
      · exact ⟨⟨ht, hl⟩, hc⟩
      · simp [ht, hc, hl, Released]
    · exact absurd rfl (he id)
  | createFailed id => exact ⟨⟨ht, hl⟩, hc⟩
  | cancel k => simp only [lstep, ht, List.find?_nil]; exact ⟨⟨ht, hl⟩, hc⟩
  | closeListener id => simp only [lstep, ht, List.find?_nil]; exact ⟨⟨ht, hl⟩, hc⟩
  | cleanup =>
    simp [lstep, ht, closeAll, Released, hl]

theorem released_run (fix : Bool) (evs : List LEv) : ∀ s, Released s → s.cleaned = true →
    (fix = true ∨ ∀ id, LEv.created id ∉ evs) → Released (lrun fix s evs) := by
  induction evs with
  | nil => intro s h _ _; exact h
  | cons e es ih =>
    intro s hr hc he
    have h1 := released_step fix s e hr hc (by
      rcases he with h | h
      · exact Or.inl h
      · right; intro id hid; exact h id (by rw [hid]; simp))
    exact ih _ h1.1 h1.2 (by
      rcases he with h | h
      · exact Or.inl h
      · right; intro id hid; exact h id (List.mem_cons_of_mem _ hid))

end AsyncsshModel.Forward
