import AsyncsshModel.Lemmas.SftpProto
/-
  "Framed" parsers: every field parser of the SFTP request grammar reads a definite prefix of its input,
  independent of what follows, and reports every strict prefix of that prefix as an incomplete packet.
  Closed under sequencing, so it lifts to `SFTPAttrs.decode`, to whole request bodies and hence to EVERY
  truncation point of EVERY accepted request.
-/
namespace AsyncsshModel.Sftp
open AsyncsshModel.Gen.C14

/-- a parser reads a definite prefix `c` of its input: the result does not depend on what follows `c`, and every
    strict prefix of `c` is reported as an incomplete packet -/
def Framed {α : Type} (P : Bytes → Except DecErr (α × Bytes)) : Prop :=
  ∀ inp x rest, P inp = .ok (x, rest) →
    ∃ c, inp = c ++ rest ∧ (∀ r', P (c ++ r') = .ok (x, r')) ∧
      (∀ p, p <+: c → p ≠ c → P p = .error .short)

theorem prefix_cases {α : Type} (p a b : List α) (h : p <+: a ++ b) :
    (p <+: a ∧ p ≠ a) ∨ ∃ q, p = a ++ q ∧ q <+: b := by
  rcases List.prefix_or_prefix_of_prefix h (List.prefix_append a b) with h1 | h1
  · by_cases he : p = a
    · right; exact ⟨[], by simp [he], List.nil_prefix⟩
    · left; exact ⟨h1, he⟩
  · obtain ⟨q, rfl⟩ := h1
    right
    exact ⟨q, rfl, (List.prefix_append_right_inj a).mp h⟩

/-- sequencing two framed parsers, the second possibly depending on the first result -/
theorem Framed.bind {α β γ : Type} {P : Bytes → Except DecErr (α × Bytes)}
    {Q : α → Bytes → Except DecErr (β × Bytes)} (f : α → β → γ)
    (hP : Framed P) (hQ : ∀ a, Framed (Q a)) :
    Framed (fun inp => match P inp with
      | .error e => .error e
      | .ok (a, r) => match Q a r with
        | .error e => .error e
        | .ok (b, r') => .ok (f a b, r')) := by
  intro inp x rest h
  simp only at h
  cases hp : P inp with
  | error e => simp [hp] at h
  | ok pr =>
    obtain ⟨a, r⟩ := pr
    simp only [hp] at h
    cases hq : Q a r with
    | error e => simp [hq] at h
    | ok qr =>
      obtain ⟨b, r'⟩ := qr
      simp only [hq, Except.ok.injEq, Prod.mk.injEq] at h
      obtain ⟨rfl, rfl⟩ := h
      obtain ⟨c1, rfl, f1, t1⟩ := hP inp a r hp
      obtain ⟨c2, rfl, f2, t2⟩ := hQ a r b r' hq
      refine ⟨c1 ++ c2, by simp, ?_, ?_⟩
      · intro r''
        simp only [List.append_assoc, f1, f2]
      · intro p hpre hne
        rcases prefix_cases p c1 c2 hpre with ⟨h1, h2⟩ | ⟨q, rfl, hq2⟩
        · simp only [t1 p h1 h2]
        · have hqne : q ≠ c2 := by intro he; apply hne; rw [he]
          simp only [f1, t2 q hq2 hqne]

theorem Framed.map {α β : Type} {P : Bytes → Except DecErr (α × Bytes)} (f : α → β) (hP : Framed P) :
    Framed (fun inp => match P inp with
      | .error e => .error e
      | .ok (a, r) => .ok (f a, r)) := by
  intro inp x rest h
  simp only at h
  cases hp : P inp with
  | error e => simp [hp] at h
  | ok pr =>
    obtain ⟨a, r⟩ := pr
    simp only [hp, Except.ok.injEq, Prod.mk.injEq] at h
    obtain ⟨rfl, rfl⟩ := h
    obtain ⟨c1, rfl, f1, t1⟩ := hP inp a r hp
    exact ⟨c1, rfl, fun r' => by simp only [f1], fun p h1 h2 => by simp only [t1 p h1 h2]⟩

theorem Framed.pure {α : Type} (x : α) : Framed (fun inp => (.ok (x, inp) : Except DecErr (α × Bytes))) := by
  intro inp y rest h
  simp only [Except.ok.injEq, Prod.mk.injEq] at h
  obtain ⟨rfl, rfl⟩ := h
  refine ⟨[], rfl, fun r' => rfl, ?_⟩
  intro p hp hne
  exact absurd (List.prefix_nil.mp hp) hne

theorem framed_of_fixed {α : Type} (n : Nat) (P : Bytes → Except DecErr (α × Bytes)) (val : Bytes → α)
    (hok : ∀ inp, n ≤ inp.length → P inp = .ok (val (inp.take n), inp.drop n))
    (hshort : ∀ inp, inp.length < n → P inp = .error .short) : Framed P := by
  intro inp x rest h
  by_cases hl : n ≤ inp.length
  · rw [hok inp hl] at h
    simp only [Except.ok.injEq, Prod.mk.injEq] at h
    obtain ⟨rfl, rfl⟩ := h
    refine ⟨inp.take n, (List.take_append_drop n inp).symm, ?_, ?_⟩
    · intro r'
      have hlen : (inp.take n).length = n := by simp [List.length_take]; omega
      rw [hok _ (by simp [hlen])]
      have e1 : List.take n (List.take n inp ++ r') = List.take n inp := by
        rw [List.take_append_of_le_length (by omega), List.take_of_length_le (by omega)]
      have e2 : List.drop n (List.take n inp ++ r') = r' := by
        rw [List.drop_append_of_le_length (by omega), List.drop_of_length_le (by omega)]; simp
      rw [e1, e2]
    · intro p hp hne
      have hlen : (inp.take n).length = n := by simp [List.length_take]; omega
      apply hshort
      have h1 := hp.length_le
      apply Nat.lt_of_le_of_ne (by omega)
      intro hge
      apply hne
      exact List.IsPrefix.eq_of_length_le hp (by omega)
  · rw [hshort inp (by omega)] at h
    simp at h

theorem framed_getU8 : Framed getU8 := by
  apply framed_of_fixed 1 getU8 (fun l => match l with | a :: _ => a.toNat | [] => 0)
  · intro inp h
    match inp, h with
    | a :: r, _ => simp [getU8]
  · intro inp h
    match inp, h with
    | [], _ => rfl

theorem framed_getU32 : Framed getU32 := by
  apply framed_of_fixed 4 getU32 (fun l => match l with
    | a :: b :: c :: d :: _ => a.toNat * 2^24 + b.toNat * 2^16 + c.toNat * 2^8 + d.toNat | _ => 0)
  · intro inp h
    match inp, h with
    | a :: b :: c :: d :: r, _ => simp [getU32]
  · intro inp h
    match inp, h with
    | [], _ => rfl
    | [_], _ => rfl
    | [_, _], _ => rfl
    | [_, _, _], _ => rfl

theorem framed_getU64 : Framed getU64 := by
  apply framed_of_fixed 8 getU64 (fun l => match l with
    | a :: b :: c :: d :: e :: f :: g :: h :: _ =>
      a.toNat * 2^56 + b.toNat * 2^48 + c.toNat * 2^40 + d.toNat * 2^32 +
        e.toNat * 2^24 + f.toNat * 2^16 + g.toNat * 2^8 + h.toNat
    | _ => 0)
  · intro inp h
    match inp, h with
    | a :: b :: c :: d :: e :: f :: g :: h :: r, _ => simp [getU64]
  · intro inp h
    match inp, h with
    | [], _ => rfl
    | [_], _ => rfl
    | [_, _], _ => rfl
    | [_, _, _], _ => rfl
    | [_, _, _, _], _ => rfl
    | [_, _, _, _, _], _ => rfl
    | [_, _, _, _, _, _], _ => rfl
    | [_, _, _, _, _, _, _], _ => rfl

theorem Framed.congr {α : Type} {P Q : Bytes → Except DecErr (α × Bytes)} (h : ∀ inp, P inp = Q inp)
    (hP : Framed P) : Framed Q := by
  have : P = Q := funext h
  rw [← this]; exact hP

/-- exactly `n` bytes -/
def takeN (n : Nat) : P Bytes := fun r =>
  if n ≤ r.length then .ok (r.take n, r.drop n) else .error .short

theorem framed_takeN (n : Nat) : Framed (takeN n) :=
  framed_of_fixed n (takeN n) id (fun inp h => by simp [takeN, h]) (fun inp h => by simp [takeN]; omega)

theorem framed_getStr : Framed getStr := by
  refine Framed.congr ?_ (Framed.bind (fun _ b => b) framed_getU32 framed_takeN)
  intro inp
  unfold getStr
  cases getU32 inp with
  | error e => rfl
  | ok p =>
    obtain ⟨n, r⟩ := p
    simp only [takeN]
    by_cases h : n ≤ r.length <;> simp [h]

theorem framed_getBool : Framed getBool := by
  refine Framed.congr ?_ (Framed.map (fun n => n != 0) framed_getU8)
  intro inp
  unfold getBool
  cases getU8 inp with
  | error e => rfl
  | ok p => rfl

/-- the same notion for a decoding stage (which also threads the attribute record) -/
def FramedS (st : Stage) : Prop :=
  ∀ a inp a' rest, st (a, inp) = .ok (a', rest) →
    ∃ c, inp = c ++ rest ∧ (∀ r', st (a, c ++ r') = .ok (a', r')) ∧
      (∀ p, p <+: c → p ≠ c → st (a, p) = .error .short)

theorem FramedS.rd {α : Type} {p : P α} (set : Attrs → α → Attrs) (hp : Framed p) : FramedS (rd p set) := by
  intro a inp a' rest h
  simp only [Sftp.rd] at h
  cases hq : p inp with
  | error e => simp [hq] at h
  | ok pr =>
    obtain ⟨x, r⟩ := pr
    simp only [hq, Except.ok.injEq, Prod.mk.injEq] at h
    obtain ⟨rfl, rfl⟩ := h
    obtain ⟨c, rfl, f1, t1⟩ := hp inp x r hq
    exact ⟨c, rfl, fun r' => by simp only [Sftp.rd, f1], fun q h1 h2 => by simp only [Sftp.rd, t1 q h1 h2]⟩

theorem FramedS.when (c : Bool) {st : Stage} (h : FramedS st) : FramedS (whenS c st) := by
  cases c with
  | true => intro a inp a' rest hh; simpa [whenS] using h a inp a' rest (by simpa [whenS] using hh)
  | false =>
    intro a inp a' rest hh
    simp only [whenS, Bool.false_eq_true, if_false, Except.ok.injEq, Prod.mk.injEq] at hh
    obtain ⟨rfl, rfl⟩ := hh
    refine ⟨[], rfl, fun r' => by simp [whenS], ?_⟩
    intro p hp hne
    exact absurd (List.prefix_nil.mp hp) hne

theorem FramedS.seq {s1 s2 : Stage} (h1 : FramedS s1) (h2 : FramedS s2) : FramedS (s1 ⨾ s2) := by
  intro a inp a' rest h
  simp only [seqS] at h
  cases hq : s1 (a, inp) with
  | error e => simp [hq] at h
  | ok pr =>
    obtain ⟨a1, r1⟩ := pr
    simp only [hq] at h
    obtain ⟨c1, rfl, f1, t1⟩ := h1 a inp a1 r1 hq
    obtain ⟨c2, rfl, f2, t2⟩ := h2 a1 r1 a' rest h
    refine ⟨c1 ++ c2, by simp, ?_, ?_⟩
    · intro r'
      simp only [seqS, List.append_assoc, f1, f2]
    · intro p hpre hne
      rcases prefix_cases p c1 c2 hpre with ⟨hp1, hp2⟩ | ⟨q, rfl, hq2⟩
      · simp only [seqS, t1 p hp1 hp2]
      · have hqne : q ≠ c2 := by intro he; apply hne; rw [he]
        simp only [seqS, f1, t2 q hq2 hqne]

theorem FramedS.ite (c : Prop) [Decidable c] {A B : Stage} (hA : FramedS A) (hB : FramedS B) :
    FramedS (if c then A else B) := by
  split <;> assumption

theorem FramedS.rdUtf8 (err : DecErr) (set : Attrs → Bytes → Attrs) : FramedS (rdUtf8 err set) := by
  intro a inp a' rest h
  simp only [Sftp.rdUtf8] at h
  cases hq : getStr inp with
  | error e => simp [hq] at h
  | ok pr =>
    obtain ⟨x, r⟩ := pr
    simp only [hq] at h
    by_cases hv : validUtf8 x = true
    · simp only [hv, if_true, Except.ok.injEq, Prod.mk.injEq] at h
      obtain ⟨rfl, rfl⟩ := h
      obtain ⟨c, rfl, f1, t1⟩ := framed_getStr inp x r hq
      exact ⟨c, rfl, fun r' => by simp only [Sftp.rdUtf8, f1, hv, if_true],
        fun q h1 h2 => by simp only [Sftp.rdUtf8, t1 q h1 h2]⟩
    · simp [hv] at h

theorem framed_getPairs (n : Nat) : Framed (getPairs n) := by
  induction n with
  | zero => exact Framed.pure []
  | succ n ih =>
    have h2 := Framed.bind (fun (kd : Bytes × Bytes) (l : List (Bytes × Bytes)) => kd :: l)
      (Framed.bind (fun (k d : Bytes) => (k, d)) framed_getStr (fun _ => framed_getStr)) (fun _ => ih)
    refine Framed.congr ?_ h2
    intro inp
    simp only [getPairs]
    cases getStr inp with
    | error e => rfl
    | ok p =>
      obtain ⟨k, r1⟩ := p
      simp only
      cases getStr r1 with
      | error e => rfl
      | ok p2 =>
        obtain ⟨d, r2⟩ := p2
        simp only
        cases getPairs n r2 with
        | error e => rfl
        | ok p3 => rfl

theorem FramedS.rdExtended : FramedS rdExtended := by
  have hb := Framed.bind (fun (_ : Nat) (l : List (Bytes × Bytes)) => l) framed_getU32 framed_getPairs
  intro a inp a' rest h
  simp only [Sftp.rdExtended] at h
  cases hq : getU32 inp with
  | error e => simp [hq] at h
  | ok pr =>
    obtain ⟨n, r⟩ := pr
    simp only [hq] at h
    cases hg : getPairs n r with
    | error e => simp [hg] at h
    | ok pr2 =>
      obtain ⟨l, r'⟩ := pr2
      simp only [hg, Except.ok.injEq, Prod.mk.injEq] at h
      obtain ⟨rfl, rfl⟩ := h
      obtain ⟨c, rfl, f1, t1⟩ := hb inp l r' (by simp only [hq, hg])
      refine ⟨c, rfl, ?_, ?_⟩
      · intro r''
        have := f1 r''
        simp only [Sftp.rdExtended]
        cases hq2 : getU32 (c ++ r'') with
        | error e => simp [hq2] at this
        | ok p2 =>
          obtain ⟨n2, s2⟩ := p2
          simp only [hq2] at this ⊢
          cases hg2 : getPairs n2 s2 with
          | error e => simp [hg2] at this
          | ok p3 =>
            obtain ⟨l3, s3⟩ := p3
            simp only [hg2, Except.ok.injEq, Prod.mk.injEq] at this ⊢
            obtain ⟨rfl, rfl⟩ := this
            exact ⟨rfl, rfl⟩
      · intro q h1 h2
        have := t1 q h1 h2
        simp only [Sftp.rdExtended]
        cases hq2 : getU32 q with
        | error e => simp [hq2] at this ⊢; exact this
        | ok p2 =>
          obtain ⟨n2, s2⟩ := p2
          simp only [hq2] at this ⊢
          cases hg2 : getPairs n2 s2 with
          | error e => simp [hg2] at this ⊢; exact this
          | ok p3 => simp [hg2] at this

theorem FramedS.stTime (flags f : Nat) (setT setNs : Attrs → Nat → Attrs) : FramedS (stTime flags f setT setNs) := by
  unfold Sftp.stTime
  exact FramedS.when _ (FramedS.seq (FramedS.rd _ framed_getU64) (FramedS.when _ (FramedS.rd _ framed_getU32)))

theorem framedS_decodeBody (v flags : Nat) : FramedS (decodeBody v flags) := by
  unfold decodeBody
  refine FramedS.seq (FramedS.when _ (FramedS.rd _ framed_getU8)) ?_
  refine FramedS.seq (FramedS.when _ (FramedS.rd _ framed_getU64)) ?_
  refine FramedS.seq (FramedS.when _ (FramedS.rd _ framed_getU64)) ?_
  refine FramedS.seq (FramedS.ite _
    (FramedS.when _ (FramedS.seq (FramedS.rd _ framed_getU32) (FramedS.rd _ framed_getU32)))
    (FramedS.when _ (FramedS.seq (FramedS.rdUtf8 _ _) (FramedS.rdUtf8 _ _)))) ?_
  refine FramedS.seq (FramedS.when _ (FramedS.rd _ framed_getU32)) ?_
  refine FramedS.seq (FramedS.ite _
    (FramedS.when _ (FramedS.seq (FramedS.rd _ framed_getU32) (FramedS.rd _ framed_getU32)))
    (FramedS.seq (FramedS.stTime _ _ _ _) (FramedS.seq (FramedS.stTime _ _ _ _)
      (FramedS.seq (FramedS.stTime _ _ _ _) (FramedS.stTime _ _ _ _))))) ?_
  refine FramedS.seq (FramedS.when _ (FramedS.rd _ framed_getStr)) ?_
  refine FramedS.seq (FramedS.when _ (FramedS.seq (FramedS.rd _ framed_getU32) (FramedS.rd _ framed_getU32))) ?_
  refine FramedS.seq (FramedS.when _ (FramedS.rd _ framed_getU8)) ?_
  refine FramedS.seq (FramedS.when _ (FramedS.rdUtf8 _ _)) ?_
  refine FramedS.seq (FramedS.when _ (FramedS.rd _ framed_getU32)) ?_
  refine FramedS.seq (FramedS.when _ (FramedS.rd _ framed_getStr)) ?_
  exact FramedS.when _ FramedS.rdExtended

/-- `SFTPAttrs.decode` reads a definite prefix of the packet, and a packet cut inside it is `Incomplete packet` -/
theorem framed_decode (v : Nat) : Framed (decode v) := by
  intro inp x rest h
  unfold decode at h
  cases hq : getU32 inp with
  | error e => simp [hq] at h
  | ok pr =>
    obtain ⟨flags0, r⟩ := pr
    simp only [hq] at h
    split at h
    · simp at h
    · rename_i hvalid
      obtain ⟨c1, rfl, f1, t1⟩ := framed_getU32 inp flags0 r hq
      obtain ⟨c2, rfl, f2, t2⟩ := framedS_decodeBody v _ {} r x rest h
      refine ⟨c1 ++ c2, by simp, ?_, ?_⟩
      · intro r'
        unfold decode
        simp only [List.append_assoc, f1, hvalid, if_false, f2]
      · intro p hpre hne
        unfold decode
        rcases prefix_cases p c1 c2 hpre with ⟨hp1, hp2⟩ | ⟨q, rfl, hq2⟩
        · simp only [t1 p hp1 hp2]
        · have hqne : q ≠ c2 := by intro he; apply hne; rw [he]
          simp only [f1, hvalid, if_false, t2 q hq2 hqne]

theorem framed_parseFld (v : Nat) (f : Fld) (hf : f ≠ .strs) : Framed (parseFld v f) := by
  cases f with
  | str =>
    refine Framed.congr ?_ (Framed.map Val.str framed_getStr)
    intro inp; simp only [parseFld]; cases getStr inp <;> rfl
  | u32 =>
    refine Framed.congr ?_ (Framed.map Val.num framed_getU32)
    intro inp; simp only [parseFld]; cases getU32 inp <;> rfl
  | u64 =>
    refine Framed.congr ?_ (Framed.map Val.num framed_getU64)
    intro inp; simp only [parseFld]; cases getU64 inp <;> rfl
  | u8 =>
    refine Framed.congr ?_ (Framed.map Val.num framed_getU8)
    intro inp; simp only [parseFld]; cases getU8 inp <;> rfl
  | bool =>
    refine Framed.congr ?_ (Framed.map Val.bool framed_getBool)
    intro inp; simp only [parseFld]; cases getBool inp <;> rfl
  | attrs =>
    refine Framed.congr ?_ (Framed.map Val.attrs (framed_decode v))
    intro inp; simp only [parseFld]; cases decode v inp <;> rfl
  | strs => exact absurd rfl hf

theorem framed_parseFields (v : Nat) (fs : List Fld) (hf : Fld.strs ∉ fs) : Framed (parseFields v fs) := by
  induction fs with
  | nil => exact Framed.pure []
  | cons f fs ih =>
    have hf1 : f ≠ .strs := by intro h; apply hf; simp [h]
    have hf2 : Fld.strs ∉ fs := by intro h; apply hf; simp [h]
    refine Framed.congr ?_ (Framed.bind (fun (x : Val) (xs : List Val) => x :: xs) (framed_parseFld v f hf1)
      (fun _ => ih hf2))
    intro inp
    simp only [parseFields]
    cases parseFld v f inp with
    | error e => rfl
    | ok p =>
      obtain ⟨x, r⟩ := p
      simp only
      cases parseFields v fs r with
      | error e => rfl
      | ok p2 => rfl

/-- **every truncation**: if a handler that checks the end of the packet accepts a body, then EVERY strict prefix
    of that body is rejected as an incomplete packet (`PacketDecodeError` → `FX_BAD_MESSAGE`), whatever the
    attribute flags, string lengths and version -/
theorem parseBody_truncated (v : Nat) (sp : Spec) (body : Bytes) (vals : List Val)
    (hstrict : sp.tail = .always ∨ (sp.tail = .lt6 ∧ v < 6)) (hf : Fld.strs ∉ sp.fields)
    (hok : parseBody v sp body = .ok vals) (p : Bytes) (hp : p <+: body) (hne : p ≠ body) :
    parseBody v sp p = .error .short := by
  unfold parseBody at hok
  cases hq : parseFields v sp.fields body with
  | error e => simp [hq] at hok
  | ok pr =>
    obtain ⟨xs, rest⟩ := pr
    simp only [hq] at hok
    have hrest : rest = [] := by
      cases ht : tailCheck v sp.tail rest with
      | error e => simp [ht] at hok
      | ok u =>
        unfold tailCheck at ht
        rcases hstrict with h | ⟨h, hv⟩
        · simp only [h, checkEnd] at ht
          split at ht
          · rename_i he; simpa using he
          · simp at ht
        · simp only [h, hv, if_true, checkEnd] at ht
          split at ht
          · rename_i he; simpa using he
          · simp at ht
    subst hrest
    obtain ⟨c, hc, _, t1⟩ := framed_parseFields v sp.fields hf body xs [] hq
    simp only [List.append_nil] at hc
    subst hc
    unfold parseBody
    simp only [t1 p hp hne]

end AsyncsshModel.Sftp
