import AsyncsshModel.Model.Lifecycle
/-
  Channel-object level lemmas for C09: every method of the channel model preserves the structural invariant
  `CInv` (legal callback trace, waiters only on registered channels, `_close_event` set once unregistered, ...).
-/
namespace AsyncsshModel.Lifecycle

/-- acceptor for `made · x* · lost?` where `x` is anything but `made` / `lost` and `eof` occurs at most once:
    state 0 fresh, 1 live, 3 live with `eof_received` already delivered, 2 over -/
def dfa : Nat → Cb → Option Nat
  | 0, .made => some 1
  | 1, .made => none
  | 1, .lost _ => some 2
  | 1, .eof => some 3
  | 1, _ => some 1
  | 3, .made => none
  | 3, .lost _ => some 2
  | 3, .eof => none
  | 3, _ => some 3
  | _, _ => none

def runDfa (tr : List Cb) : Option Nat := tr.foldl (fun st cb => st.bind (dfa · cb)) (some 0)

@[simp] theorem runDfa_nil : runDfa [] = some 0 := rfl

@[simp] theorem runDfa_snoc (tr : List Cb) (x : Cb) : runDfa (tr ++ [x]) = (runDfa tr).bind (dfa · x) := by
  simp [runDfa, List.foldl_append]

theorem dfa_one {x : Cb} {st' : Nat} (h : dfa 1 x = some st') :
    (∃ e, x = .lost e ∧ st' = 2) ∨ (x = .eof ∧ st' = 3) ∨
    (x ≠ .made ∧ (∀ e, x ≠ .lost e) ∧ x ≠ .eof ∧ st' = 1) := by
  cases x <;> simp [dfa] at h ⊢ <;> omega

theorem dfa_three {x : Cb} {st' : Nat} (h : dfa 3 x = some st') :
    (∃ e, x = .lost e ∧ st' = 2) ∨ (x ≠ .made ∧ (∀ e, x ≠ .lost e) ∧ x ≠ .eof ∧ st' = 3) := by
  cases x <;> simp [dfa] at h ⊢ <;> omega

theorem dfa_zero {x : Cb} {st' : Nat} (h : dfa 0 x = some st') : x = .made ∧ st' = 1 := by
  cases x <;> simp [dfa] at h ⊢ <;> omega

theorem dfa_other {st : Nat} {x : Cb} {st' : Nat} (h : dfa st x = some st') : st = 0 ∨ st = 1 ∨ st = 3 := by
  match st with
  | 0 => exact Or.inl rfl
  | 1 => exact Or.inr (Or.inl rfl)
  | 2 => simp [dfa] at h
  | 3 => exact Or.inr (Or.inr rfl)
  | n + 4 => simp [dfa] at h

theorem foldl_dfa_none (l : List Cb) : l.foldl (fun st cb => st.bind (dfa · cb)) none = none := by
  induction l with
  | nil => rfl
  | cons y r ih => simpa using ih

/-- no `made`, no `lost` inside -/
def Mid (mid : List Cb) : Prop := ∀ x ∈ mid, x ≠ .made ∧ ∀ e', x ≠ .lost e'

theorem mid_cons {x : Cb} {mid : List Cb} (h1 : x ≠ .made) (h2 : ∀ e, x ≠ .lost e) (h : Mid mid) : Mid (x :: mid) := by
  intro y hy
  rcases List.mem_cons.mp hy with z | z
  · subst z; exact ⟨h1, h2⟩
  · exact h y z

/-- what acceptance in state 2 means, for a run started in state `st` -/
theorem foldl_dfa_two (l : List Cb) (st : Nat)
    (h : l.foldl (fun st cb => st.bind (dfa · cb)) (some st) = some 2) :
    (st = 1 → ∃ mid e, l = mid ++ [.lost e] ∧ Mid mid ∧ mid.count .eof ≤ 1) ∧
    (st = 3 → ∃ mid e, l = mid ++ [.lost e] ∧ Mid mid ∧ mid.count .eof = 0) ∧
    (st = 0 → ∃ mid e, l = .made :: mid ++ [.lost e] ∧ Mid mid ∧ mid.count .eof ≤ 1) ∧
    (st = 2 → l = []) := by
  induction l generalizing st with
  | nil =>
    simp at h
    subst h
    exact ⟨fun h => (by cases h), fun h => (by cases h), fun h => (by cases h), fun _ => rfl⟩
  | cons x rest ih =>
    simp only [List.foldl_cons, Option.bind_some] at h
    cases hd : dfa st x with
    | none => rw [hd, foldl_dfa_none] at h; cases h
    | some st' =>
      rw [hd] at h
      obtain ⟨i1, i3, i0, i2⟩ := ih st' h
      refine ⟨?_, ?_, ?_, ?_⟩
      · intro h1; subst h1
        rcases dfa_one hd with ⟨e, hx, hs⟩ | ⟨hx, hs⟩ | ⟨hx1, hx2, hx3, hs⟩
        · subst hx; subst hs
          have := i2 rfl; subst this
          exact ⟨[], e, rfl, fun _ hy => (by cases hy), by simp⟩
        · subst hx; subst hs
          obtain ⟨mid, e, h1, h2, h3⟩ := i3 rfl
          exact ⟨.eof :: mid, e, by simp [h1], mid_cons (by simp) (by simp) h2, by simp [h3]⟩
        · subst hs
          obtain ⟨mid, e, h1, h2, h3⟩ := i1 rfl
          refine ⟨x :: mid, e, by simp [h1], mid_cons hx1 hx2 h2, ?_⟩
          simp only [List.count_cons, beq_iff_eq, hx3, if_false, Nat.add_zero]; exact h3
      · intro h3'; subst h3'
        rcases dfa_three hd with ⟨e, hx, hs⟩ | ⟨hx1, hx2, hx3, hs⟩
        · subst hx; subst hs
          have := i2 rfl; subst this
          exact ⟨[], e, rfl, fun _ hy => (by cases hy), by simp⟩
        · subst hs
          obtain ⟨mid, e, h1, h2, h3⟩ := i3 rfl
          refine ⟨x :: mid, e, by simp [h1], mid_cons hx1 hx2 h2, ?_⟩
          simp only [List.count_cons, beq_iff_eq, hx3, if_false, Nat.add_zero]; exact h3
      · intro h0; subst h0
        obtain ⟨hx, hs⟩ := dfa_zero hd
        subst hx; subst hs
        obtain ⟨mid, e, h1, h2, h3⟩ := i1 rfl
        exact ⟨mid, e, by simp [h1], h2, h3⟩
      · intro h2; subst h2
        rcases dfa_other hd with y | y | y <;> cases y

theorem foldl_dfa_from_two (l : List Cb) (st' : Nat)
    (h : l.foldl (fun st cb => st.bind (dfa · cb)) (some 2) = some st') : l = [] := by
  cases l with
  | nil => rfl
  | cons x rest =>
    simp only [List.foldl_cons, Option.bind_some] at h
    have : dfa 2 x = none := by cases x <;> rfl
    rw [this, foldl_dfa_none] at h; cases h

/-- every accepted prefix holds `eof` at most once (not at all after a start in state 3) -/
theorem foldl_dfa_eof (l : List Cb) (st st' : Nat)
    (h : l.foldl (fun st cb => st.bind (dfa · cb)) (some st) = some st') :
    l.count .eof ≤ (if st = 3 then 0 else 1) := by
  induction l generalizing st with
  | nil => simp
  | cons x rest ih =>
    simp only [List.foldl_cons, Option.bind_some] at h
    cases hd : dfa st x with
    | none => rw [hd, foldl_dfa_none] at h; cases h
    | some s1 =>
      rw [hd] at h
      have i := ih s1 h
      rcases dfa_other hd with y | y | y
      · subst y
        obtain ⟨hx, hs⟩ := dfa_zero hd
        subst hx; subst hs
        simp only [List.count_cons, beq_iff_eq] at i ⊢
        simp at i ⊢; exact i
      · subst y
        rcases dfa_one hd with ⟨e, hx, hs⟩ | ⟨hx, hs⟩ | ⟨hx1, hx2, hx3, hs⟩
        · subst hx; subst hs
          have := foldl_dfa_from_two rest st' h; subst this; simp
        · subst hx; subst hs
          simp only [List.count_cons, beq_iff_eq] at i ⊢
          simp at i ⊢; omega
        · subst hs
          simp only [List.count_cons, beq_iff_eq, hx3, if_false, Nat.add_zero]
          simpa using i
      · subst y
        rcases dfa_three hd with ⟨e, hx, hs⟩ | ⟨hx1, hx2, hx3, hs⟩
        · subst hx; subst hs
          have := foldl_dfa_from_two rest st' h; subst this; simp
        · subst hs
          simp only [List.count_cons, beq_iff_eq, hx3, if_false, Nat.add_zero]
          simpa using i

/-- a legal callback trace (any state of the acceptor) contains `eof` at most once -/
theorem runDfa_eof_once (tr : List Cb) (st : Nat) (h : runDfa tr = some st) : tr.count .eof ≤ 1 := by
  have := foldl_dfa_eof tr 0 st h
  simpa using this

/-- the unconsumed future result is the outcome of the open waiter / of a request waiter -/
def wvOpen (w : Option WakeVal) : Bool :=
  match w with
  | some .openOk => true
  | some (.openFail _) => true
  | _ => false

def wvReq (w : Option WakeVal) : Bool :=
  match w with
  | some (.reqVal _) => true
  | some (.exc _) => true
  | _ => false

@[simp, grind =] theorem wvOpen_none : wvOpen none = false := rfl
@[simp, grind =] theorem wvOpen_ok : wvOpen (some .openOk) = true := rfl
@[simp, grind =] theorem wvOpen_fail (b : Bool) : wvOpen (some (.openFail b)) = true := rfl
@[simp, grind =] theorem wvOpen_val (b : Bool) : wvOpen (some (.reqVal b)) = false := rfl
@[simp, grind =] theorem wvOpen_exc (e : Exc) : wvOpen (some (.exc e)) = false := rfl
@[simp, grind =] theorem wvReq_none : wvReq none = false := rfl
@[simp, grind =] theorem wvReq_ok : wvReq (some .openOk) = false := rfl
@[simp, grind =] theorem wvReq_fail (b : Bool) : wvReq (some (.openFail b)) = false := rfl
@[simp, grind =] theorem wvReq_val (b : Bool) : wvReq (some (.reqVal b)) = true := rfl
@[simp, grind =] theorem wvReq_exc (e : Exc) : wvReq (some (.exc e)) = true := rfl

/-- structural invariant of one channel object -/
structure CInv (c : Chan) : Prop where
  trT : c.session = true → runDfa c.trace = some 1 ∨ runDfa c.trace = some 3
  trF : c.session = false → runDfa c.trace = some 0 ∨ runDfa c.trace = some 2
  ow : c.openWaiter = true →
    c.reg = true ∧ c.stage = .waitOpen ∧ c.sendSt = .closed ∧ c.recvSt = .closed ∧ c.wakeVal = none ∧
      c.recvEofPending = false
  rw : c.reqWaiter = true → c.reg = true ∧ (c.stage = .waitPty ∨ c.stage = .waitReq) ∧ c.wakeVal = none
  sc : c.sendChan.isSome = true → c.reg = true
  ce : c.reg = false → c.closeEvent = true
  wc : c.closeEvent = true → c.wcPending = 0
  wo : c.stage = .waitOpen → runDfa c.trace = some 0 ∧ c.session = false ∧ c.reqWaiter = false
  fo : (c.fo = .start ∨ c.fo = .awaiting) →
    runDfa c.trace = some 0 ∧ c.session = false ∧ c.sendSt = .closed ∧ c.recvSt = .closed ∧
      c.openWaiter = false ∧ c.stage = .done ∧ c.recvEofPending = false
  wvO : wvOpen c.wakeVal = true → c.stage = .waitOpen
  wvR : wvReq c.wakeVal = true → c.stage = .waitPty ∨ c.stage = .waitReq
  live : c.stage ≠ .done → c.openWaiter = true ∨ c.reqWaiter = true ∨ c.wakeVal.isSome = true
  -- `eof_received` is delivered once: after it the receive side is past `eof_pending` and no EOF is owed
  es : runDfa c.trace = some 3 → c.recvSt ≠ .opn ∧ c.recvSt ≠ .eofPending ∧ c.recvEofPending = false
  rep : c.recvEofPending = true → c.recvSt = .closePending ∨ c.recvSt = .closed

/-- the result state of a sequenced computation satisfies `P` when both parts preserve it -/
theorem andThen_c {P : Chan → Prop} (r : R) (f : Chan → R) (hr : P r.c) (hf : ∀ c, P c → P (f c).c) :
    P (r.andThen f).c := by
  unfold R.andThen
  split
  · exact hr
  · exact hf _ hr

/-- variant with a stronger fact `Q` about the intermediate state -/
theorem andThen_c2 {Q P : Chan → Prop} (r : R) (f : Chan → R) (hr : Q r.c) (hq : Q r.c → P r.c)
    (hf : ∀ c, Q c → P (f c).c) : P (r.andThen f).c := by
  unfold R.andThen
  split
  · exact hq hr
  · exact hf _ hr

@[simp] theorem pre_c (acts : List Act) (r : R) : (r.pre acts).c = r.c := rfl
@[simp] theorem ok_c (c : Chan) (a : List Act) : (R.ok c a).c = c := rfl
@[simp] theorem fail_c (c : Chan) (e : Exc) (a : List Act) : (R.fail c e a).c = c := rfl

macro "chan_inv" h:ident "[" ds:Lean.Parser.Tactic.simpLemma,* "]" : tactic =>
  `(tactic| (obtain ⟨h1, h2, h3, h4, h5, h6, h7, h8, h9, h10, h11, h12, h13, h14⟩ := $h
             simp only [$ds,*, R.ok, R.fail, ok_c, fail_c, pre_c]
             repeat' split
             all_goals (constructor <;> (try simp only [R.ok, R.fail, ok_c, fail_c, pre_c]) <;> grind [dfa, runDfa_snoc])))

theorem cleanup_inv (e : Exc) (c : Chan) (h : CInv c) : CInv (cleanup c e).c := by
  chan_inv h [cleanup]

theorem closeSend_inv (c : Chan) (h : CInv c) : CInv (closeSend c).c := by
  chan_inv h [closeSend]

theorem discardRecv_inv (c : Chan) (h : CInv c) : CInv (discardRecv c).c := by
  chan_inv h [discardRecv]

theorem pauseResumeWriting_inv (c : Chan) (h : CInv c) : CInv (pauseResumeWriting c).c := by
  chan_inv h [pauseResumeWriting]

theorem closeSendEof_inv (c : Chan) (h : CInv c) : CInv (closeSendEof c).c := by
  chan_inv h [closeSendEof, closeSend]

theorem flushSendTail_inv (c : Chan) (h : CInv c) : CInv (flushSendTail c).c := by
  chan_inv h [flushSendTail, closeSendEof, closeSend]

theorem flushSendBuf_inv (c : Chan) (h : CInv c) : CInv (flushSendBuf c).c := by
  unfold flushSendBuf
  refine andThen_c _ _ ?_ flushSendTail_inv
  simp only [pre_c]
  apply pauseResumeWriting_inv
  obtain ⟨h1, h2, h3, h4, h5, h6, h7, h8, h9, h10, h11, h12, h13, h14⟩ := h
  constructor <;> grind

theorem writeEof_inv (c : Chan) (h : CInv c) : CInv (writeEof c).c := by
  unfold writeEof
  split
  · apply flushSendBuf_inv
    obtain ⟨h1, h2, h3, h4, h5, h6, h7, h8, h9, h10, h11, h12, h13, h14⟩ := h
    constructor <;> grind
  · exact h

theorem deliverOne_inv (c : Chan) (h : CInv c) : CInv (deliverOne c).c := by
  chan_inv h [deliverOne]

theorem deliverN_inv (n : Nat) (c : Chan) (h : CInv c) : CInv (deliverN n c).c := by
  induction n generalizing c with
  | zero => exact h
  | succ n ih => exact andThen_c _ _ (deliverOne_inv c h) ih

theorem flushEofPart_inv (c : Chan) (h : CInv c) : CInv (flushEofPart c).c := by
  simp only [flushEofPart]
  split
  · split
    · split
      · apply writeEof_inv
        obtain ⟨h1, h2, h3, h4, h5, h6, h7, h8, h9, h10, h11, h12, h13, h14⟩ := h
        constructor <;> grind [dfa, runDfa_snoc]
      · obtain ⟨h1, h2, h3, h4, h5, h6, h7, h8, h9, h10, h11, h12, h13, h14⟩ := h
        constructor <;> simp only [ok_c] <;> grind [dfa, runDfa_snoc]
    · obtain ⟨h1, h2, h3, h4, h5, h6, h7, h8, h9, h10, h11, h12, h13, h14⟩ := h
      constructor <;> simp only [fail_c] <;> grind [dfa, runDfa_snoc]
  · exact h

theorem flushClosePart_inv (c : Chan) (h : CInv c) : CInv (flushClosePart c).c := by
  chan_inv h [flushClosePart]

theorem flushRecvBuf_inv (c : Chan) (h : CInv c) : CInv (flushRecvBuf c).c := by
  unfold flushRecvBuf
  refine andThen_c _ _ (andThen_c _ _ ?_ flushEofPart_inv) flushClosePart_inv
  split
  · apply deliverN_inv
    obtain ⟨h1, h2, h3, h4, h5, h6, h7, h8, h9, h10, h11, h12, h13, h14⟩ := h
    constructor <;> grind
  · exact h

theorem acceptData_inv (c : Chan) (h : CInv c) : CInv (acceptData c).c := by
  unfold acceptData
  split
  · exact h
  · split
    · obtain ⟨h1, h2, h3, h4, h5, h6, h7, h8, h9, h10, h11, h12, h13, h14⟩ := h
      constructor <;> simp only [ok_c] <;> grind
    · exact deliverOne_inv c h

theorem resumeReading_inv (c : Chan) (h : CInv c) : CInv (resumeReading c).c := by
  unfold resumeReading
  split
  · apply flushRecvBuf_inv
    obtain ⟨h1, h2, h3, h4, h5, h6, h7, h8, h9, h10, h11, h12, h13, h14⟩ := h
    constructor <;> grind
  · exact h

theorem pauseReading_inv (c : Chan) (h : CInv c) : CInv (pauseReading c).c := by
  chan_inv h [pauseReading]

theorem startReading_inv (c : Chan) (h : CInv c) : CInv (startReading c).c := by
  unfold startReading
  split
  · apply flushRecvBuf_inv
    obtain ⟨h1, h2, h3, h4, h5, h6, h7, h8, h9, h10, h11, h12, h13, h14⟩ := h
    constructor <;> grind
  · exact h

theorem processConnectionClose_inv (e : Exc) (c : Chan) (h : CInv c) : CInv (processConnectionClose c e).c := by
  unfold processConnectionClose
  refine andThen_c _ _ ?_ (cleanup_inv e)
  apply closeSend_inv
  obtain ⟨h1, h2, h3, h4, h5, h6, h7, h8, h9, h10, h11, h12, h13, h14⟩ := h
  constructor <;> grind

theorem processData_inv (c : Chan) (h : CInv c) : CInv (processData c).c := by
  unfold processData
  split
  · exact h
  · split
    · exact h
    · exact acceptData_inv c h

theorem processEof_inv (c : Chan) (h : CInv c) : CInv (processEof c).c := by
  unfold processEof
  split
  · exact h
  · apply flushRecvBuf_inv
    obtain ⟨h1, h2, h3, h4, h5, h6, h7, h8, h9, h10, h11, h12, h13, h14⟩ := h
    constructor <;> grind

theorem closeSend_recvSt (c : Chan) : (closeSend c).c.recvSt = c.recvSt := by
  simp only [closeSend]; split <;> rfl

theorem pauseResumeWriting_recvSt (c : Chan) : (pauseResumeWriting c).c.recvSt = c.recvSt := by
  simp only [pauseResumeWriting]; (repeat' split) <;> rfl

theorem processClose_inv (c : Chan) (h : CInv c) : CInv (processClose c).c := by
  unfold processClose
  split
  · exact h
  · rename_i hl
    refine andThen_c2 (Q := fun x => CInv x ∧ x.recvSt = c.recvSt) _ _ ?_ (fun hq => hq.1) ?_
    · refine andThen_c2 (Q := fun x => CInv x ∧ x.recvSt = c.recvSt) (P := fun x => CInv x ∧ x.recvSt = c.recvSt) _ _
        ⟨closeSend_inv c h, closeSend_recvSt c⟩ (fun hq => hq) ?_
      intro c1 ⟨hc, hr⟩
      exact ⟨pauseResumeWriting_inv c1 hc, (pauseResumeWriting_recvSt c1).trans hr⟩
    intro c1 ⟨hc, hr⟩
    apply flushRecvBuf_inv
    obtain ⟨h1, h2, h3, h4, h5, h6, h7, h8, h9, h10, h11, h12, h13, h14⟩ := hc
    simp only [recvLive] at hl
    constructor <;> grind

theorem processAdjust_inv (n : Nat) (c : Chan) (h : CInv c) : CInv (processAdjust c n).c := by
  unfold processAdjust
  split
  · exact h
  · rename_i hl
    apply flushSendBuf_inv
    obtain ⟨h1, h2, h3, h4, h5, h6, h7, h8, h9, h10, h11, h12, h13, h14⟩ := h
    constructor <;> grind

theorem reportResponse_inv (k : ReqKind) (w r : Bool) (c : Chan) (h : CInv c) :
    CInv (reportResponse c k w r).c := by
  simp only [reportResponse]
  split
  · split
    · simp only [pre_c]
      apply resumeReading_inv
      obtain ⟨h1, h2, h3, h4, h5, h6, h7, h8, h9, h10, h11, h12, h13, h14⟩ := h
      constructor <;> grind [dfa, runDfa_snoc]
    · exact h
  · exact h

theorem handleReq_inv (k : ReqKind) (c : Chan) (h : CInv c)
    (hs : ((c.server = true ∧ (k = .pty ∨ isStart k = true)) ∨ (c.server = false ∧ k = .exitStatus)) → c.session = true) :
    CInv (handleReq c k).1.c := by
  obtain ⟨h1, h2, h3, h4, h5, h6, h7, h8, h9, h10, h11, h12, h13, h14⟩ := h
  cases hsv : c.server <;> cases k <;> simp only [handleReq, hsv] <;> (try split) <;>
    (constructor <;> simp only [ok_c, fail_c] <;> grind [dfa, runDfa_snoc, isStart])

theorem processRequest_inv (k : ReqKind) (w : Bool) (c : Chan) (h : CInv c) : CInv (processRequest c k w).c := by
  simp only [processRequest]
  split
  · exact h
  · split
    · exact h
    · rename_i hl hn
      refine andThen_c _ _ ?_ (fun c hc => reportResponse_inv k w _ c hc)
      apply handleReq_inv k c h
      intro hh
      cases hs : c.session with
      | true => rfl
      | false => exact absurd ⟨by simpa using hh, hs⟩ hn

theorem processResponse_inv (ok : Bool) (c : Chan) (h : CInv c) : CInv (processResponse c ok).c := by
  chan_inv h [processResponse]

theorem processOpenConf_inv (sc win : Nat) (c : Chan) (h : CInv c) : CInv (processOpenConf c sc win).c := by
  obtain ⟨h1, h2, h3, h4, h5, h6, h7, h8, h9, h10, h11, h12, h13, h14⟩ := h
  simp only [processOpenConf]
  split
  · constructor <;> simp only [fail_c] <;> grind
  · constructor <;> simp only [ok_c] <;> grind

theorem processOpenFailure_inv (c : Chan) (h : CInv c) : CInv (processOpenFailure c).c := by
  chan_inv h [processOpenFailure]

theorem write_inv (c : Chan) (h : CInv c) : CInv (write c).c := by
  unfold write
  split
  · exact h
  · apply flushSendBuf_inv
    obtain ⟨h1, h2, h3, h4, h5, h6, h7, h8, h9, h10, h11, h12, h13, h14⟩ := h
    constructor <;> grind

theorem abort_inv (c : Chan) (h : CInv c) : CInv (abort c).c := by
  unfold abort
  refine andThen_c _ _ ?_ ?_
  · split
    · exact closeSend_inv c h
    · exact h
  · intro c hc
    split
    · exact discardRecv_inv c hc
    · exact hc

theorem close_inv (c : Chan) (h : CInv c) : CInv (close c).c := by
  unfold close
  refine andThen_c _ _ ?_ ?_
  · split
    · apply flushSendBuf_inv
      obtain ⟨h1, h2, h3, h4, h5, h6, h7, h8, h9, h10, h11, h12, h13, h14⟩ := h
      constructor <;> grind
    · exact h
  · intro c hc
    split
    · exact discardRecv_inv c hc
    · exact hc

theorem exit_inv (c : Chan) (h : CInv c) : CInv (exit c).c := by
  unfold exit
  split
  · exact close_inv c h
  · exact h

theorem waitClosed_inv (c : Chan) (h : CInv c) : CInv (waitClosed c) := by
  obtain ⟨h1, h2, h3, h4, h5, h6, h7, h8, h9, h10, h11, h12, h13, h14⟩ := h
  unfold waitClosed
  split <;> (constructor <;> grind)

theorem processMsg_inv (m : CMsg) (c : Chan) (h : CInv c) : CInv (processMsg c m).c := by
  cases m with
  | data => exact processData_inv c h
  | eof => exact processEof_inv c h
  | close => exact processClose_inv c h
  | adjust n => exact processAdjust_inv n c h
  | req k w => exact processRequest_inv k w c h
  | success => exact processResponse_inv true c h
  | failure => exact processResponse_inv false c h

theorem appOp_inv (o : AppOp) (c : Chan) (h : CInv c) : CInv (appOp c o).c := by
  cases o with
  | write => exact write_inv c h
  | eof => exact writeEof_inv c h
  | close => exact close_inv c h
  | abort => exact abort_inv c h
  | pause => exact pauseReading_inv c h
  | resume => exact resumeReading_inv c h
  | exit => simp only [appOp]; split; exact exit_inv c h; exact h
  | limits hi lo =>
    simp only [appOp, setLimits]
    apply pauseResumeWriting_inv
    obtain ⟨h1, h2, h3, h4, h5, h6, h7, h8, h9, h10, h11, h12, h13, h14⟩ := h
    constructor <;> grind
  | drain =>
    obtain ⟨h1, h2, h3, h4, h5, h6, h7, h8, h9, h10, h11, h12, h13, h14⟩ := h
    simp only [appOp, drain, ok_c]
    split <;> (constructor <;> grind)

end AsyncsshModel.Lifecycle
