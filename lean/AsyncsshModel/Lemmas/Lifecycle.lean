import AsyncsshModel.Model.Lifecycle
/-
  Channel-object level lemmas for C09: every method of the channel model preserves the structural invariant
  `CInv` (legal callback trace, waiters only on registered channels, `_close_event` set once unregistered, ...).
-/
namespace AsyncsshModel.Lifecycle

/-- acceptor for `made · (anything but made / lost)* · lost?` : state 0 fresh, 1 live, 2 over -/
def dfa : Nat → Cb → Option Nat
  | 0, .made => some 1
  | 1, .made => none
  | 1, .lost _ => some 2
  | 1, _ => some 1
  | _, _ => none

def runDfa (tr : List Cb) : Option Nat := tr.foldl (fun st cb => st.bind (dfa · cb)) (some 0)

@[simp] theorem runDfa_nil : runDfa [] = some 0 := rfl

@[simp] theorem runDfa_snoc (tr : List Cb) (x : Cb) : runDfa (tr ++ [x]) = (runDfa tr).bind (dfa · x) := by
  simp [runDfa, List.foldl_append]

/-- the unconsumed future result is the outcome of the open waiter / of a request waiter -/
def wvOpen (w : Option WakeVal) : Bool :=
  match w with
  | some .openOk => true
  | some (.openFail _) => true
  | _ => false

def wvReq (w : Option WakeVal) : Bool :=
  match w with
  | some (.reqVal _) => true
  | some (.exc _) => true
  | _ => false

@[simp, grind =] theorem wvOpen_none : wvOpen none = false := rfl
@[simp, grind =] theorem wvOpen_ok : wvOpen (some .openOk) = true := rfl
@[simp, grind =] theorem wvOpen_fail (b : Bool) : wvOpen (some (.openFail b)) = true := rfl
@[simp, grind =] theorem wvOpen_val (b : Bool) : wvOpen (some (.reqVal b)) = false := rfl
@[simp, grind =] theorem wvOpen_exc (e : Exc) : wvOpen (some (.exc e)) = false := rfl
@[simp, grind =] theorem wvReq_none : wvReq none = false := rfl
@[simp, grind =] theorem wvReq_ok : wvReq (some .openOk) = false := rfl
@[simp, grind =] theorem wvReq_fail (b : Bool) : wvReq (some (.openFail b)) = false := rfl
@[simp, grind =] theorem wvReq_val (b : Bool) : wvReq (some (.reqVal b)) = true := rfl
@[simp, grind =] theorem wvReq_exc (e : Exc) : wvReq (some (.exc e)) = true := rfl

/-- structural invariant of one channel object -/
structure CInv (c : Chan) : Prop where
  trT : c.session = true → runDfa c.trace = some 1
  trF : c.session = false → runDfa c.trace = some 0 ∨ runDfa c.trace = some 2
  ow : c.openWaiter = true →
    c.reg = true ∧ c.stage = .waitOpen ∧ c.sendSt = .closed ∧ c.recvSt = .closed ∧ c.wakeVal = none
  rw : c.reqWaiter = true → c.reg = true ∧ (c.stage = .waitPty ∨ c.stage = .waitReq) ∧ c.wakeVal = none
  sc : c.sendChan.isSome = true → c.reg = true
  ce : c.reg = false → c.closeEvent = true
  wc : c.closeEvent = true → c.wcPending = 0
  wo : c.stage = .waitOpen → runDfa c.trace = some 0 ∧ c.session = false ∧ c.reqWaiter = false
  fo : (c.fo = .start ∨ c.fo = .awaiting) →
    runDfa c.trace = some 0 ∧ c.session = false ∧ c.sendSt = .closed ∧ c.recvSt = .closed ∧
      c.openWaiter = false ∧ c.stage = .done
  wvO : wvOpen c.wakeVal = true → c.stage = .waitOpen
  wvR : wvReq c.wakeVal = true → c.stage = .waitPty ∨ c.stage = .waitReq
  live : c.stage ≠ .done → c.openWaiter = true ∨ c.reqWaiter = true ∨ c.wakeVal.isSome = true

/-- the result state of a sequenced computation satisfies `P` when both parts preserve it -/
theorem andThen_c {P : Chan → Prop} (r : R) (f : Chan → R) (hr : P r.c) (hf : ∀ c, P c → P (f c).c) :
    P (r.andThen f).c := by
  unfold R.andThen
  split
  · exact hr
  · exact hf _ hr

/-- variant with a stronger fact `Q` about the intermediate state -/
theorem andThen_c2 {Q P : Chan → Prop} (r : R) (f : Chan → R) (hr : Q r.c) (hq : Q r.c → P r.c)
    (hf : ∀ c, Q c → P (f c).c) : P (r.andThen f).c := by
  unfold R.andThen
  split
  · exact hq hr
  · exact hf _ hr

@[simp] theorem pre_c (acts : List Act) (r : R) : (r.pre acts).c = r.c := rfl
@[simp] theorem ok_c (c : Chan) (a : List Act) : (R.ok c a).c = c := rfl
@[simp] theorem fail_c (c : Chan) (e : Exc) (a : List Act) : (R.fail c e a).c = c := rfl

macro "chan_inv" h:ident "[" ds:Lean.Parser.Tactic.simpLemma,* "]" : tactic =>
  `(tactic| (obtain ⟨h1, h2, h3, h4, h5, h6, h7, h8, h9, h10, h11, h12⟩ := $h
             simp only [$ds,*, R.ok, R.fail, ok_c, fail_c, pre_c]
             repeat' split
             all_goals (constructor <;> (try simp only [R.ok, R.fail, ok_c, fail_c, pre_c]) <;> grind [dfa, runDfa_snoc])))

theorem cleanup_inv (e : Exc) (c : Chan) (h : CInv c) : CInv (cleanup c e).c := by
  chan_inv h [cleanup]

theorem closeSend_inv (c : Chan) (h : CInv c) : CInv (closeSend c).c := by
  chan_inv h [closeSend]

theorem discardRecv_inv (c : Chan) (h : CInv c) : CInv (discardRecv c).c := by
  chan_inv h [discardRecv]

theorem flushSendBuf_inv (c : Chan) (h : CInv c) : CInv (flushSendBuf c).c := by
  chan_inv h [flushSendBuf, closeSend]

theorem writeEof_inv (c : Chan) (h : CInv c) : CInv (writeEof c).c := by
  unfold writeEof
  split
  · apply flushSendBuf_inv
    obtain ⟨h1, h2, h3, h4, h5, h6, h7, h8, h9, h10, h11, h12⟩ := h
    constructor <;> grind
  · exact h

theorem deliverOne_inv (c : Chan) (h : CInv c) : CInv (deliverOne c).c := by
  chan_inv h [deliverOne]

theorem deliverN_inv (n : Nat) (c : Chan) (h : CInv c) : CInv (deliverN n c).c := by
  induction n generalizing c with
  | zero => exact h
  | succ n ih => exact andThen_c _ _ (deliverOne_inv c h) ih

theorem flushEofPart_inv (c : Chan) (h : CInv c) : CInv (flushEofPart c).c := by
  simp only [flushEofPart]
  split
  · split
    · split
      · apply writeEof_inv
        obtain ⟨h1, h2, h3, h4, h5, h6, h7, h8, h9, h10, h11, h12⟩ := h
        constructor <;> grind [dfa, runDfa_snoc]
      · obtain ⟨h1, h2, h3, h4, h5, h6, h7, h8, h9, h10, h11, h12⟩ := h
        constructor <;> simp only [ok_c] <;> grind [dfa, runDfa_snoc]
    · obtain ⟨h1, h2, h3, h4, h5, h6, h7, h8, h9, h10, h11, h12⟩ := h
      constructor <;> simp only [fail_c] <;> grind [dfa, runDfa_snoc]
  · exact h

theorem flushClosePart_inv (c : Chan) (h : CInv c) : CInv (flushClosePart c).c := by
  chan_inv h [flushClosePart]

theorem flushRecvBuf_inv (c : Chan) (h : CInv c) : CInv (flushRecvBuf c).c := by
  unfold flushRecvBuf
  refine andThen_c _ _ (andThen_c _ _ ?_ flushEofPart_inv) flushClosePart_inv
  split
  · apply deliverN_inv
    obtain ⟨h1, h2, h3, h4, h5, h6, h7, h8, h9, h10, h11, h12⟩ := h
    constructor <;> grind
  · exact h

theorem acceptData_inv (c : Chan) (h : CInv c) : CInv (acceptData c).c := by
  unfold acceptData
  split
  · exact h
  · split
    · obtain ⟨h1, h2, h3, h4, h5, h6, h7, h8, h9, h10, h11, h12⟩ := h
      constructor <;> simp only [ok_c] <;> grind
    · exact deliverOne_inv c h

theorem resumeReading_inv (c : Chan) (h : CInv c) : CInv (resumeReading c).c := by
  unfold resumeReading
  split
  · apply flushRecvBuf_inv
    obtain ⟨h1, h2, h3, h4, h5, h6, h7, h8, h9, h10, h11, h12⟩ := h
    constructor <;> grind
  · exact h

theorem pauseReading_inv (c : Chan) (h : CInv c) : CInv (pauseReading c).c := by
  chan_inv h [pauseReading]

theorem startReading_inv (c : Chan) (h : CInv c) : CInv (startReading c).c := by
  unfold startReading
  split
  · apply flushRecvBuf_inv
    obtain ⟨h1, h2, h3, h4, h5, h6, h7, h8, h9, h10, h11, h12⟩ := h
    constructor <;> grind
  · exact h

theorem processConnectionClose_inv (e : Exc) (c : Chan) (h : CInv c) : CInv (processConnectionClose c e).c := by
  unfold processConnectionClose
  refine andThen_c _ _ ?_ (cleanup_inv e)
  apply closeSend_inv
  obtain ⟨h1, h2, h3, h4, h5, h6, h7, h8, h9, h10, h11, h12⟩ := h
  constructor <;> grind

theorem processData_inv (c : Chan) (h : CInv c) : CInv (processData c).c := by
  unfold processData
  split
  · exact h
  · split
    · exact h
    · exact acceptData_inv c h

theorem processEof_inv (c : Chan) (h : CInv c) : CInv (processEof c).c := by
  unfold processEof
  split
  · exact h
  · apply flushRecvBuf_inv
    obtain ⟨h1, h2, h3, h4, h5, h6, h7, h8, h9, h10, h11, h12⟩ := h
    constructor <;> grind

theorem closeSend_recvSt (c : Chan) : (closeSend c).c.recvSt = c.recvSt := by
  simp only [closeSend]; split <;> rfl

theorem processClose_inv (c : Chan) (h : CInv c) : CInv (processClose c).c := by
  unfold processClose
  split
  · exact h
  · rename_i hl
    refine andThen_c2 (Q := fun x => CInv x ∧ x.recvSt = c.recvSt) _ _
      ⟨closeSend_inv c h, closeSend_recvSt c⟩ (fun hq => hq.1) ?_
    intro c1 ⟨hc, hr⟩
    apply flushRecvBuf_inv
    obtain ⟨h1, h2, h3, h4, h5, h6, h7, h8, h9, h10, h11, h12⟩ := hc
    simp only [recvLive] at hl
    constructor <;> grind

theorem processAdjust_inv (n : Nat) (c : Chan) (h : CInv c) : CInv (processAdjust c n).c := by
  unfold processAdjust
  split
  · exact h
  · rename_i hl
    apply flushSendBuf_inv
    obtain ⟨h1, h2, h3, h4, h5, h6, h7, h8, h9, h10, h11, h12⟩ := h
    constructor <;> grind

theorem reportResponse_inv (k : ReqKind) (w r : Bool) (c : Chan) (h : CInv c) :
    CInv (reportResponse c k w r).c := by
  simp only [reportResponse]
  split
  · split
    · simp only [pre_c]
      apply resumeReading_inv
      obtain ⟨h1, h2, h3, h4, h5, h6, h7, h8, h9, h10, h11, h12⟩ := h
      constructor <;> grind [dfa, runDfa_snoc]
    · exact h
  · exact h

theorem handleReq_inv (k : ReqKind) (c : Chan) (h : CInv c)
    (hs : ((c.server = true ∧ (k = .pty ∨ isStart k = true)) ∨ (c.server = false ∧ k = .exitStatus)) → c.session = true) :
    CInv (handleReq c k).1.c := by
  obtain ⟨h1, h2, h3, h4, h5, h6, h7, h8, h9, h10, h11, h12⟩ := h
  cases hsv : c.server <;> cases k <;> simp only [handleReq, hsv] <;> (try split) <;>
    (constructor <;> simp only [ok_c, fail_c] <;> grind [dfa, runDfa_snoc, isStart])

theorem processRequest_inv (k : ReqKind) (w : Bool) (c : Chan) (h : CInv c) : CInv (processRequest c k w).c := by
  simp only [processRequest]
  split
  · exact h
  · split
    · exact h
    · rename_i hl hn
      refine andThen_c _ _ ?_ (fun c hc => reportResponse_inv k w _ c hc)
      apply handleReq_inv k c h
      intro hh
      cases hs : c.session with
      | true => rfl
      | false => exact absurd ⟨by simpa using hh, hs⟩ hn

theorem processResponse_inv (ok : Bool) (c : Chan) (h : CInv c) : CInv (processResponse c ok).c := by
  chan_inv h [processResponse]

theorem processOpenConf_inv (sc win : Nat) (c : Chan) (h : CInv c) : CInv (processOpenConf c sc win).c := by
  obtain ⟨h1, h2, h3, h4, h5, h6, h7, h8, h9, h10, h11, h12⟩ := h
  simp only [processOpenConf]
  split
  · constructor <;> simp only [fail_c] <;> grind
  · constructor <;> simp only [ok_c] <;> grind

theorem processOpenFailure_inv (c : Chan) (h : CInv c) : CInv (processOpenFailure c).c := by
  chan_inv h [processOpenFailure]

theorem write_inv (c : Chan) (h : CInv c) : CInv (write c).c := by
  unfold write
  split
  · exact h
  · apply flushSendBuf_inv
    obtain ⟨h1, h2, h3, h4, h5, h6, h7, h8, h9, h10, h11, h12⟩ := h
    constructor <;> grind

theorem abort_inv (c : Chan) (h : CInv c) : CInv (abort c).c := by
  unfold abort
  refine andThen_c _ _ ?_ ?_
  · split
    · exact closeSend_inv c h
    · exact h
  · intro c hc
    split
    · exact discardRecv_inv c hc
    · exact hc

theorem close_inv (c : Chan) (h : CInv c) : CInv (close c).c := by
  unfold close
  refine andThen_c _ _ ?_ ?_
  · split
    · apply flushSendBuf_inv
      obtain ⟨h1, h2, h3, h4, h5, h6, h7, h8, h9, h10, h11, h12⟩ := h
      constructor <;> grind
    · exact h
  · intro c hc
    split
    · exact discardRecv_inv c hc
    · exact hc

theorem exit_inv (c : Chan) (h : CInv c) : CInv (exit c).c := by
  unfold exit
  split
  · exact close_inv c h
  · exact h

theorem waitClosed_inv (c : Chan) (h : CInv c) : CInv (waitClosed c) := by
  obtain ⟨h1, h2, h3, h4, h5, h6, h7, h8, h9, h10, h11, h12⟩ := h
  unfold waitClosed
  split <;> (constructor <;> grind)

theorem processMsg_inv (m : CMsg) (c : Chan) (h : CInv c) : CInv (processMsg c m).c := by
  cases m with
  | data => exact processData_inv c h
  | eof => exact processEof_inv c h
  | close => exact processClose_inv c h
  | adjust n => exact processAdjust_inv n c h
  | req k w => exact processRequest_inv k w c h
  | success => exact processResponse_inv true c h
  | failure => exact processResponse_inv false c h

theorem appOp_inv (o : AppOp) (c : Chan) (h : CInv c) : CInv (appOp c o).c := by
  cases o with
  | write => exact write_inv c h
  | eof => exact writeEof_inv c h
  | close => exact close_inv c h
  | abort => exact abort_inv c h
  | pause => exact pauseReading_inv c h
  | resume => exact resumeReading_inv c h
  | exit => simp only [appOp]; split; exact exit_inv c h; exact h

end AsyncsshModel.Lifecycle
