import AsyncsshModel.Model.HostileBanner
/-
  Lemmas for the version/banner machine.  The only facts used about the generated guards are the bridges
  `tooMany_false`, `lineTooLong_false`, `versionTooLong_false`, `findLimit_le`; if the code's comparisons
  change so that a bridge no longer holds, the build breaks there and the run escalates.
-/
namespace AsyncsshModel.Hostile
open AsyncsshModel

/-! ### bridges between generated guards and generated limits -/

theorem tooMany_false {n : Nat} (h : Gen.C10.tooManyBannerLines (n : Int) = false) :
    n ≤ Gen.C10.maxBannerLines := by
  simp [Gen.C10.tooManyBannerLines, Gen.C10.maxBannerLines] at *
  omega

theorem lineTooLong_false {n : Nat} (h : Gen.C10.bannerLineTooLong (n : Int) = false) :
    n < Gen.C10.maxBannerLineLen := by
  simp [Gen.C10.bannerLineTooLong, Gen.C10.maxBannerLineLen] at *
  omega

theorem versionTooLong_false {n : Nat} (h : Gen.C10.versionTooLong (n : Int) = false) :
    n ≤ Gen.C10.maxVersionLineLen := by
  simp [Gen.C10.versionTooLong, Gen.C10.maxVersionLineLen] at *
  omega

theorem findLimit_le : Gen.C10.findLimit.toNat ≤ Gen.C10.maxBannerLineLen := by
  simp [Gen.C10.findLimit, Gen.C10.maxBannerLineLen]

/-! ### single step -/

/-- banner lines counted so far, capped at the limit -/
def eff (st : VState) : Nat := min st.bannerLines Gen.C10.maxBannerLines

theorem stripCR_length_le (l : Bytes) : (stripCR l).length ≤ l.length := by
  unfold stripCR; split <;> simp

theorem step_eff (c : Bool) (st st' : VState) (cont : Bool) (ev : List VEvent)
    (h : recvVersion c st = (st', cont, ev)) : eff st + bannerCount ev ≤ eff st' := by
  unfold recvVersion at h
  split at h
  · split at h <;> (simp only [Prod.mk.injEq] at h; obtain ⟨rfl, _, rfl⟩ := h; simp [bannerCount, eff])
  · simp only at h
    split at h
    · split at h <;> (simp only [Prod.mk.injEq] at h; obtain ⟨rfl, _, rfl⟩ := h; simp [bannerCount, eff])
    · split at h
      · split at h
        · simp only [Prod.mk.injEq] at h; obtain ⟨rfl, _, rfl⟩ := h
          simp [bannerCount, eff]; omega
        · rename_i hn
          simp only [Prod.mk.injEq] at h; obtain ⟨rfl, _, rfl⟩ := h
          have := tooMany_false (n := st.bannerLines + 1) (by simpa using hn)
          simp [bannerCount, eff]; omega
      · simp only [Prod.mk.injEq] at h; obtain ⟨rfl, _, rfl⟩ := h; simp [bannerCount, eff]

/-- what one step may emit: banner lines shorter than the line limit, versions within the version limit -/
def EventOk : VEvent → Prop
  | .banner line => line.length < Gen.C10.maxBannerLineLen
  | .version v => v.length ≤ Gen.C10.maxVersionLineLen
  | .close _ => True

theorem step_events_ok (c : Bool) (st st' : VState) (cont : Bool) (ev : List VEvent)
    (h : recvVersion c st = (st', cont, ev)) : ∀ e ∈ ev, EventOk e := by
  unfold recvVersion at h
  split at h
  · split at h <;> (simp only [Prod.mk.injEq] at h; obtain ⟨_, _, rfl⟩ := h; simp [EventOk])
  · rename_i idx hidx
    have hlt := findNL_lt _ _ _ hidx
    have hline : (stripCR (st.buf.take idx)).length < Gen.C10.maxBannerLineLen := by
      have h1 := stripCR_length_le (st.buf.take idx)
      have h2 := List.length_take_le idx st.buf
      have := findLimit_le
      omega
    simp only at h
    split at h
    · split at h
      · simp only [Prod.mk.injEq] at h; obtain ⟨_, _, rfl⟩ := h; simp [EventOk]
      · rename_i hv
        simp only [Prod.mk.injEq] at h; obtain ⟨_, _, rfl⟩ := h
        have := versionTooLong_false (n := (stripCR (st.buf.take idx)).length) (by simpa using hv)
        simp [EventOk]; exact this
    · split at h
      · split at h
        · simp only [Prod.mk.injEq] at h; obtain ⟨_, _, rfl⟩ := h; simp [EventOk]
        · simp only [Prod.mk.injEq] at h; obtain ⟨_, _, rfl⟩ := h; simp [EventOk]; exact hline
      · simp only [Prod.mk.injEq] at h; obtain ⟨_, _, rfl⟩ := h; simp [EventOk]

/-- a declining call that leaves the machine in the version phase leaves less than a full line buffered -/
theorem step_stop_buffer (c : Bool) (st st' : VState) (ev : List VEvent)
    (h : recvVersion c st = (st', false, ev)) (hp : st'.phase = .version) :
    st'.buf.length < Gen.C10.maxBannerLineLen := by
  unfold recvVersion at h
  split at h
  · split at h
    · simp only [Prod.mk.injEq] at h; obtain ⟨rfl, _, _⟩ := h; simp at hp
    · rename_i hl
      simp only [Prod.mk.injEq] at h; obtain ⟨rfl, _, _⟩ := h
      exact lineTooLong_false (by simpa using hl)
  · simp only at h
    split at h
    · split at h <;> simp at h
    · split at h
      · split at h
        · simp only [Prod.mk.injEq] at h; obtain ⟨rfl, _, _⟩ := h; simp at hp
        · simp at h
      · simp only [Prod.mk.injEq] at h; obtain ⟨rfl, _, _⟩ := h; simp at hp

/-- a server never skips a line -/
theorem step_server_no_banner (st st' : VState) (cont : Bool) (ev : List VEvent)
    (h : recvVersion false st = (st', cont, ev)) : bannerCount ev = 0 := by
  unfold recvVersion at h
  split at h
  · split at h <;> (simp only [Prod.mk.injEq] at h; obtain ⟨_, _, rfl⟩ := h; simp [bannerCount])
  · simp only at h
    split at h
    · split at h <;> (simp only [Prod.mk.injEq] at h; obtain ⟨_, _, rfl⟩ := h; simp [bannerCount])
    · simp at h
      obtain ⟨_, _, rfl⟩ := h; simp [bannerCount]

theorem bannerCount_append (a b : List VEvent) : bannerCount (a ++ b) = bannerCount a + bannerCount b := by
  induction a with
  | nil => simp [bannerCount]
  | cons e es ih => cases e <;> simp [bannerCount, ih] <;> omega

/-! ### the loop -/

theorem loop_steps_le (c : Bool) (st : VState) : (versionLoop c st).2.2 ≤ st.buf.length := by
  fun_induction versionLoop c st
  · simp
  · simp
  · rename_i x _ _ st' ev h r ih
    have hr : r = versionLoop c st' := rfl
    have := recvVersion_consumes c x st' ev h
    simp only [hr]; omega
  · rename_i x hne _ st' ev h
    have : x.buf.length ≠ 0 := by
      intro h0; apply hne; simp [List.length_eq_zero_iff.mp h0]
    simp only; omega

theorem loop_eff (c : Bool) (st : VState) :
    eff st + bannerCount (versionLoop c st).2.1 ≤ eff (versionLoop c st).1 := by
  fun_induction versionLoop c st
  · simp [bannerCount]
  · simp [bannerCount]
  · rename_i x _ _ st' ev h r ih
    have hr : r = versionLoop c st' := rfl
    have := step_eff c x st' true ev h
    simp only [hr, bannerCount_append]; omega
  · rename_i x _ _ st' ev h
    exact step_eff c x st' false ev h

theorem loop_events_ok (c : Bool) (st : VState) : ∀ e ∈ (versionLoop c st).2.1, EventOk e := by
  fun_induction versionLoop c st
  · simp
  · simp
  · rename_i x _ _ st' ev h r ih
    have hr : r = versionLoop c st' := rfl
    intro e he
    simp only [hr, List.mem_append] at he
    rcases he with he | he
    · exact step_events_ok c x st' true ev h e he
    · exact ih e he
  · rename_i x _ _ st' ev h
    exact step_events_ok c x st' false ev h

/-- when the loop stops in the version phase, less than one maximal line is buffered -/
theorem loop_buffer (c : Bool) (st : VState) (hp : (versionLoop c st).1.phase = .version) :
    (versionLoop c st).1.buf.length < Gen.C10.maxBannerLineLen ∨ (versionLoop c st).1.buf = [] := by
  fun_induction versionLoop c st
  · rename_i x he
    right; simpa using he
  · rename_i x _ hne
    simp at hp; exact absurd hp hne
  · rename_i x _ _ st' ev h r ih
    have hr : r = versionLoop c st' := rfl
    simp only [hr] at hp ⊢
    exact ih hp
  · rename_i x _ _ st' ev h
    left; exact step_stop_buffer c x st' ev h hp

theorem loop_server_no_banner (st : VState) : bannerCount (versionLoop false st).2.1 = 0 := by
  fun_induction versionLoop false st
  · simp [bannerCount]
  · simp [bannerCount]
  · rename_i x _ _ st' ev h r ih
    have hr : r = versionLoop false st' := rfl
    have := step_server_no_banner x st' true ev h
    simp only [hr, bannerCount_append]; omega
  · rename_i x _ _ st' ev h
    exact step_server_no_banner x st' false ev h

/-! ### feeding chunks -/

theorem feed_steps_le (c : Bool) (st : VState) (chunk : Bytes) :
    (feedVersion c st chunk).2.2 ≤ st.buf.length + chunk.length := by
  unfold feedVersion
  split
  · simp
  · simp
  · have := loop_steps_le c { st with buf := st.buf ++ chunk }
    simpa using this

theorem feed_eff (c : Bool) (st : VState) (chunk : Bytes) :
    eff st + bannerCount (feedVersion c st chunk).2.1 ≤ eff (feedVersion c st chunk).1 := by
  unfold feedVersion
  split
  · simp [bannerCount]
  · simp [bannerCount, eff]
  · have := loop_eff c { st with buf := st.buf ++ chunk }
    simpa [eff] using this

theorem feedAll_eff (c : Bool) : ∀ (chunks : List Bytes) (st : VState),
    eff st + bannerCount (feedVersionAll c st chunks).2.1 ≤ eff (feedVersionAll c st chunks).1
  | [], st => by simp [feedVersionAll, bannerCount]
  | ch :: cs, st => by
    have h1 := feed_eff c st ch
    have h2 := feedAll_eff c cs (feedVersion c st ch).1
    simp only [feedVersionAll, bannerCount_append]
    omega

theorem feed_events_ok (c : Bool) (st : VState) (chunk : Bytes) :
    ∀ e ∈ (feedVersion c st chunk).2.1, EventOk e := by
  unfold feedVersion
  split
  · simp
  · simp
  · exact loop_events_ok c _

theorem feedAll_events_ok (c : Bool) : ∀ (chunks : List Bytes) (st : VState),
    ∀ e ∈ (feedVersionAll c st chunks).2.1, EventOk e
  | [], st => by simp [feedVersionAll]
  | ch :: cs, st => by
    intro e he
    simp only [feedVersionAll, List.mem_append] at he
    rcases he with he | he
    · exact feed_events_ok c st ch e he
    · exact feedAll_events_ok c cs _ e he

/-- what is buffered between two `data_received` calls while the version is still awaited -/
def BufBounded (st : VState) : Prop :=
  st.phase = .version → st.buf.length < Gen.C10.maxBannerLineLen

theorem maxBannerLineLen_pos : 0 < Gen.C10.maxBannerLineLen := by
  simp [Gen.C10.maxBannerLineLen]

theorem feed_bufBounded (c : Bool) (st : VState) (chunk : Bytes) (_hb : BufBounded st) :
    BufBounded (feedVersion c st chunk).1 := by
  unfold feedVersion
  split
  · rename_i e he; intro hp; simp [he] at hp
  · rename_i v hv; intro hp; simp [hv] at hp
  · intro hp
    rcases loop_buffer c _ hp with h | h
    · exact h
    · rw [h]; exact maxBannerLineLen_pos

theorem feedAll_bufBounded (c : Bool) : ∀ (chunks : List Bytes) (st : VState), BufBounded st →
    BufBounded (feedVersionAll c st chunks).1
  | [], st, h => by simpa [feedVersionAll] using h
  | ch :: cs, st, h => by
    simp only [feedVersionAll]
    exact feedAll_bufBounded c cs _ (feed_bufBounded c st ch h)

theorem feedAll_server_no_banner : ∀ (chunks : List Bytes) (st : VState),
    bannerCount (feedVersionAll false st chunks).2.1 = 0
  | [], st => by simp [feedVersionAll, bannerCount]
  | ch :: cs, st => by
    have h2 := feedAll_server_no_banner cs (feedVersion false st ch).1
    have h1 : bannerCount (feedVersion false st ch).2.1 = 0 := by
      unfold feedVersion
      split
      · simp [bannerCount]
      · simp [bannerCount]
      · exact loop_server_no_banner _
    simp only [feedVersionAll, bannerCount_append]
    omega

/-- a closed machine stays closed and silent -/
theorem feed_closed (c : Bool) (st : VState) (e : VErr) (chunk : Bytes) (h : st.phase = .closed e) :
    feedVersion c st chunk = (st, [], 0) := by
  unfold feedVersion; simp [h]

end AsyncsshModel.Hostile
