import AsyncsshModel.Lemmas.ChannelRecv
/-
  `step` of one endpoint: inversion lemmas per event, the endpoint-local invariant `WF` and the summary
  `StepSum` of what a step does to the quantities the composition invariants talk about.
-/
namespace AsyncsshModel.Channel
open AsyncsshModel

/-- endpoint-local invariant (no history needed) -/
structure WF (c : Chan) : Prop where
  s : WFs c
  exit : c.sendBuf = [] ∨ c.sendWindow = 0 ∨ c.sendPktsize = 0
  pend : PendOK c
  unpaused : c.recvPaused = .no → c.recvBuf = []
  closeP : c.recvState = .closePending → c.recvPaused ≠ .no
  closePB : c.recvState = .closePending → c.recvBuf ≠ []
  closedR : c.recvState = .closed → c.recvBuf = []
  half : 2 * c.recvWindow ≥ c.initWindow

theorem liftSend_ok {r : Option (Chan × List Msg)} {c' : Chan} {ms : List Msg} {os : List Out}
    (h : liftSend r = .ok (c', ms, os)) : r = some (c', ms) ∧ os = [] := by
  unfold liftSend at h
  split at h
  · cases h
  · simp only [Except.ok.injEq, Prod.mk.injEq] at h
    obtain ⟨rfl, rfl, rfl⟩ := h
    exact ⟨rfl, rfl⟩

theorem liftRecv_ok {r : Option (Chan × List Msg × List Out)} {x : Chan × List Msg × List Out}
    (h : liftRecv r = .ok x) : r = some x := by
  unfold liftRecv at h
  split at h
  · cases h
  · simp only [Except.ok.injEq] at h; subst h; rfl

theorem closeSend_spec (c : Chan) (hw : WFs c) :
    SameRecv c (closeSend c).1 ∧ (closeSend c).1.sendBuf = [] ∧ (closeSend c).1.sendWindow = c.sendWindow ∧
    (closeSend c).1.sendState = .closed ∧ (closeSend c).1.sendChanOpen = false ∧
    LinkOK (sStage c) 2 (closeSend c).2 ∧ dataOf (closeSend c).2 = [] ∧ adjustSum (closeSend c).2 = 0 ∧
    WFs (closeSend c).1 := by
  unfold closeSend
  split
  · rename_i hs
    have hop : c.sendChanOpen = true := hw.chanOpen.mpr hs
    have hst : sStage c ≤ 1 := sStage_le_of_open hw hop
    exact ⟨⟨rfl, rfl, rfl, rfl, rfl, rfl, rfl, rfl, rfl, rfl, rfl⟩, rfl, rfl, rfl, rfl,
      by simp [sendPkt_open c _ hop, LinkOK, hst], by simp [sendPkt_open c _ hop, dataOf],
      by simp [sendPkt_open c _ hop, adjustSum], ⟨by simp, fun _ => rfl⟩⟩
  · rename_i hs
    have hs' : c.sendState = .closed := by
      cases h : c.sendState <;> simp_all
    have hop : c.sendChanOpen = false := by
      cases h : c.sendChanOpen
      · rfl
      · exact absurd hs' (hw.chanOpen.mp h)
    exact ⟨⟨rfl, rfl, rfl, rfl, rfl, rfl, rfl, rfl, rfl, rfl, rfl⟩, rfl, rfl, hs', hop, by simp [LinkOK, sStage, hs'],
      by simp [dataOf], by simp [adjustSum], ⟨by simp [hop, hs'], fun _ => rfl⟩⟩

/-- the credit `_discard_recv` sends for the buffer it throws away (fix ae15f0e): WINDOW_ADJUST only, only while the
    channel may still send, and exactly the bytes buffered -/
theorem discardCredit_spec (c : Chan) :
    allAdjust (discardCredit c) ∧ (discardCredit c ≠ [] → c.sendChanOpen = true) ∧
    adjustSum (discardCredit c) ≤ bufBytes c.recvBuf ∧
    (c.sendChanOpen = true → adjustSum (discardCredit c) = bufBytes c.recvBuf) := by
  unfold discardCredit sendPkt
  by_cases hb : bufBytes c.recvBuf = 0
  · simp [hb, allAdjust, adjustSum]
  · cases ho : c.sendChanOpen <;> simp [hb, ho, allAdjust, adjustSum]

theorem dataOf_sendPkt_adjust (c : Chan) (n : Nat) : dataOf (sendPkt c (.adjust n)) = [] := by
  unfold sendPkt; split <;> rfl

theorem not_mem_sendPkt_adjust (c : Chan) (n : Nat) {m : Msg} (h : ∀ k, m ≠ .adjust k) :
    m ∉ sendPkt c (.adjust n) := by
  unfold sendPkt
  split
  · intro hm; simp only [List.mem_singleton] at hm; exact h n hm
  · simp

theorem dataOf_discardCredit (c : Chan) : dataOf (discardCredit c) = [] :=
  allAdjust_dataOf _ (discardCredit_spec c).1

theorem not_mem_discardCredit (c : Chan) {m : Msg} (h : ∀ k, m ≠ .adjust k) : m ∉ discardCredit c := by
  unfold discardCredit
  split
  · exact not_mem_sendPkt_adjust c _ h
  · simp

theorem discardRecv_msgs (c : Chan) : (discardRecv c).2.1 = discardCredit c := by
  unfold discardRecv; simp only; split <;> rfl

structure DiscardSpec (c c' : Chan) (ms : List Msg) (os : List Out) : Prop where
  msgs : ms = discardCredit c
  cfg : SameCfg c c'
  sendState : c'.sendState = c.sendState
  sendChanOpen : c'.sendChanOpen = c.sendChanOpen
  sendWindow : c'.sendWindow = c.sendWindow
  sendBuf : c'.sendBuf = c.sendBuf
  recvBuf : c'.recvBuf = []
  recvPaused : c'.recvPaused = .no
  recvWindow : c'.recvWindow = c.recvWindow
  recvEofPending : c'.recvEofPending = c.recvEofPending
  fired : os = [.lost] ∧ c.recvState = .closePending ∧ c'.recvState = .closed ∨
          os = [] ∧ c.recvState ≠ .closePending ∧ c'.recvState = c.recvState

theorem discardRecv_spec (c : Chan) : DiscardSpec c (discardRecv c).1 (discardRecv c).2.1 (discardRecv c).2.2 := by
  unfold discardRecv
  simp only
  split
  · rename_i hs
    exact ⟨rfl, ⟨rfl, rfl, rfl, rfl, rfl⟩, rfl, rfl, rfl, rfl, rfl, rfl, rfl, rfl, Or.inl ⟨rfl, hs, rfl⟩⟩
  · rename_i hs
    exact ⟨rfl, ⟨rfl, rfl, rfl, rfl, rfl⟩, rfl, rfl, rfl, rfl, rfl, rfl, rfl, rfl, Or.inr ⟨rfl, hs, rfl⟩⟩

/-! ### inversion of `step` per event -/

theorem step_write_ok {c c' : Chan} {dt : DType} {bs : Bytes} {ms : List Msg} {os : List Out}
    (h : step c (.write dt bs) = .ok (c', ms, os)) :
    c.sendState = .opn ∧ typeOk c.writeTypes dt = true ∧ os = [] ∧
    ((bs = [] ∧ c' = c ∧ ms = []) ∨
     (bs ≠ [] ∧ flushSend { c with sendBuf := c.sendBuf ++ [(bs, dt)] } = some (c', ms))) := by
  simp only [step] at h
  split at h
  · simp at h
  · rename_i hs
    have hs' : c.sendState = .opn := by simpa using hs
    split at h
    · simp at h
    · rename_i ht
      have ht' : typeOk c.writeTypes dt = true := by simpa using ht
      split at h
      · rename_i he
        simp only [Except.ok.injEq, Prod.mk.injEq] at h
        obtain ⟨rfl, rfl, rfl⟩ := h
        exact ⟨hs', ht', rfl, Or.inl ⟨by simpa using he, rfl, rfl⟩⟩
      · rename_i he
        have h2 := liftSend_ok h
        obtain ⟨h3, rfl⟩ := h2
        exact ⟨hs', ht', rfl, Or.inr ⟨by simpa using he, h3⟩⟩

theorem step_writeEof_ok {c c' : Chan} {ms : List Msg} {os : List Out}
    (h : step c .writeEof = .ok (c', ms, os)) : writeEof c = some (c', ms) ∧ os = [] := by
  simp only [step] at h
  exact liftSend_ok h

theorem step_close_ok {c c' : Chan} {ms : List Msg} {os : List Out}
    (h : step c .close = .ok (c', ms, os)) :
    ∃ c1 ms1, ((c.sendState ≠ .closePending ∧ c.sendState ≠ .closed ∧
            flushSend { c with sendEofPending := decide (c.sendState = .eofPending), sendState := .closePending } = some (c1, ms1)) ∨
           ((c.sendState = .closePending ∨ c.sendState = .closed) ∧ c1 = c ∧ ms1 = [])) ∧
          ((c1.recvState ≠ .closed ∧ c' = (discardRecv c1).1 ∧ ms = ms1 ++ (discardRecv c1).2.1 ∧
              os = (discardRecv c1).2.2) ∨
           (c1.recvState = .closed ∧ c' = c1 ∧ ms = ms1 ∧ os = [])) := by
  simp only [step] at h
  split at h
  · simp at h
  · rename_i c1 ms1 h1
    refine ⟨c1, ms1, ?_, ?_⟩
    · split at h1
      · rename_i hc
        exact Or.inl ⟨hc.1, hc.2, h1⟩
      · rename_i hc
        simp only [Option.some.injEq, Prod.mk.injEq] at h1
        obtain ⟨rfl, rfl⟩ := h1
        refine Or.inr ⟨?_, rfl, rfl⟩
        by_cases h1 : c.sendState = .closePending
        · exact Or.inl h1
        · by_cases h2 : c.sendState = .closed
          · exact Or.inr h2
          · exact absurd ⟨h1, h2⟩ hc
    · split at h
      · rename_i hr
        simp only [Except.ok.injEq, Prod.mk.injEq] at h
        obtain ⟨rfl, rfl, rfl⟩ := h
        exact Or.inl ⟨hr, rfl, rfl, rfl⟩
      · rename_i hr
        simp only [Except.ok.injEq, Prod.mk.injEq] at h
        obtain ⟨rfl, rfl, rfl⟩ := h
        exact Or.inr ⟨by simpa using hr, rfl, rfl, rfl⟩

theorem step_resume_ok {c c' : Chan} {ms : List Msg} {os : List Out}
    (h : step c .resume = .ok (c', ms, os)) :
    (c.recvPaused ≠ .no ∧ flushRecv { c with recvPaused := .no } = some (c', ms, os)) ∨
    (c.recvPaused = .no ∧ c' = c ∧ ms = [] ∧ os = []) := by
  simp only [step] at h
  split at h
  · rename_i hp; exact Or.inl ⟨hp, liftRecv_ok h⟩
  · rename_i hp
    simp only [Except.ok.injEq, Prod.mk.injEq] at h
    obtain ⟨rfl, rfl, rfl⟩ := h
    exact Or.inr ⟨by simpa using hp, rfl, rfl, rfl⟩

theorem step_start_ok {c c' : Chan} {ms : List Msg} {os : List Out}
    (h : step c .startReading = .ok (c', ms, os)) :
    (c.recvPaused = .starting ∧ flushRecv { c with recvPaused := .no } = some (c', ms, os)) ∨
    (c.recvPaused ≠ .starting ∧ c' = c ∧ ms = [] ∧ os = []) := by
  simp only [step] at h
  split at h
  · rename_i hp; exact Or.inl ⟨hp, liftRecv_ok h⟩
  · rename_i hp
    simp only [Except.ok.injEq, Prod.mk.injEq] at h
    obtain ⟨rfl, rfl, rfl⟩ := h
    exact Or.inr ⟨hp, rfl, rfl, rfl⟩

theorem step_recv_data_ok {c c' : Chan} {dt : DType} {bs : Bytes} {ms : List Msg} {os : List Out}
    (h : step c (.recv (.data dt bs)) = .ok (c', ms, os)) :
    c.recvState = .opn ∧ typeOk c.readTypes dt = true ∧ (bs.length : Int) ≤ c.recvWindow - bufBytes c.recvBuf ∧
    acceptData c bs dt = (c', ms, os) := by
  simp only [step, recvMsg] at h
  split at h
  · simp at h
  · rename_i hs
    split at h
    · simp at h
    · rename_i ht
      split at h
      · simp at h
      · rename_i hwd
        simp only [Except.ok.injEq] at h
        exact ⟨by simpa using hs, by simpa using ht, by omega, h⟩

theorem recvOpenish_iff (s : RecvState) : recvOpenish s = true ↔ s = .opn ∨ s = .eofPending ∨ s = .eof := by
  simp [recvOpenish]

theorem step_recv_adjust_ok {c c' : Chan} {n : Nat} {ms : List Msg} {os : List Out}
    (h : step c (.recv (.adjust n)) = .ok (c', ms, os)) :
    recvOpenish c.recvState = true ∧ flushSend { c with sendWindow := c.sendWindow + n } = some (c', ms) ∧ os = [] := by
  simp only [step, recvMsg] at h
  split at h
  · simp at h
  · rename_i hs
    have h2 := liftSend_ok h
    obtain ⟨h3, rfl⟩ := h2
    exact ⟨by simpa using hs, h3, rfl⟩

theorem step_recv_eof_ok {c c' : Chan} {ms : List Msg} {os : List Out}
    (h : step c (.recv .eof) = .ok (c', ms, os)) :
    c.recvState = .opn ∧ flushRecv { c with recvState := .eofPending } = some (c', ms, os) := by
  simp only [step, recvMsg] at h
  split at h
  · simp at h
  · rename_i hs
    exact ⟨by simpa using hs, liftRecv_ok h⟩

theorem step_recv_close_ok {c c' : Chan} {ms : List Msg} {os : List Out}
    (h : step c (.recv .close) = .ok (c', ms, os)) :
    recvOpenish c.recvState = true ∧
    ∃ ms1, flushRecv { (closeSend c).1 with recvEofPending := decide (c.recvState = .eofPending),
                                            recvState := .closePending } = some (c', ms1, os) ∧
           ms = (closeSend c).2 ++ ms1 := by
  simp only [step, recvMsg] at h
  split at h
  · simp at h
  · rename_i hs
    split at h
    · simp at h
    · rename_i c2 ms2 os2 hf
      simp only [Except.ok.injEq, Prod.mk.injEq] at h
      obtain ⟨rfl, rfl, rfl⟩ := h
      exact ⟨by simpa using hs, ms2, hf, rfl⟩

theorem step_pause_ok {c c' : Chan} {ms : List Msg} {os : List Out}
    (h : step c .pause = .ok (c', ms, os)) : c' = { c with recvPaused := .yes } ∧ ms = [] ∧ os = [] := by
  simp only [step, Except.ok.injEq, Prod.mk.injEq] at h
  exact ⟨h.1.symm, h.2.1.symm, h.2.2.symm⟩

theorem step_arm_ok {c c' : Chan} {k : Nat} {ms : List Msg} {os : List Out}
    (h : step c (.armPause k) = .ok (c', ms, os)) : c' = { c with pauseAfter := some k } ∧ ms = [] ∧ os = [] := by
  simp only [step, Except.ok.injEq, Prod.mk.injEq] at h
  exact ⟨h.1.symm, h.2.1.symm, h.2.2.symm⟩

/-! ### the endpoint-local invariant is preserved -/

theorem WF.of_sendSpec {c0 c c' : Chan} {ms : List Msg} (hw : WF c0) (sp : SendSpec c c' ms)
    (h1 : c.recvPaused = c0.recvPaused) (h2 : c.recvBuf = c0.recvBuf) (h3 : c.recvState = c0.recvState)
    (h4 : c.recvWindow = c0.recvWindow) (h5 : c.initWindow = c0.initWindow) : WF c' :=
  ⟨sp.wf, sp.exit, sp.pendBuf, by rw [sp.same.recvPaused, sp.same.recvBuf, h1, h2]; exact hw.unpaused,
   by rw [sp.same.recvPaused, sp.same.recvState, h1, h3]; exact hw.closeP,
   by rw [sp.same.recvState, sp.same.recvBuf, h2, h3]; exact hw.closePB,
   by rw [sp.same.recvState, sp.same.recvBuf, h2, h3]; exact hw.closedR,
   by rw [sp.same.recvWindow, sp.same.initWindow, h4, h5]; exact hw.half⟩

theorem WF.of_flushRecv {c c' : Chan} {ms : List Msg} {os : List Out} (sp : FlushRecvSpec c c' ms os)
    (hexit : c.sendBuf = [] ∨ c.sendWindow = 0 ∨ c.sendPktsize = 0) (hcl : c.recvState = .closed → c.recvBuf = [])
    (hhalf : 2 * c.recvWindow ≥ c.initWindow) (hpend : PendOK c) : WF c' :=
  ⟨sp.eff.wfs, sp.exit hexit, sp.pend hpend, sp.unpaused, sp.closeP, sp.closePB, sp.closedR hcl, sp.eff.half hhalf⟩

theorem acceptData_cases (c : Chan) (bs : Bytes) (dt : DType) :
    (bs = [] ∧ acceptData c bs dt = (c, [], [])) ∨
    (bs ≠ [] ∧ (c.sendState = .closePending ∨ c.sendState = .closed) ∧
      acceptData c bs dt = (c, sendPkt c (.adjust bs.length), [])) ∨
    (bs ≠ [] ∧ ¬ (c.sendState = .closePending ∨ c.sendState = .closed) ∧ c.recvPaused ≠ .no ∧
      acceptData c bs dt = ({ c with recvBuf := c.recvBuf ++ [(bs, dt)] }, [], [])) ∨
    (bs ≠ [] ∧ ¬ (c.sendState = .closePending ∨ c.sendState = .closed) ∧ c.recvPaused = .no ∧
      acceptData c bs dt = deliverData c bs dt) := by
  unfold acceptData
  by_cases h1 : bs = []
  · left; simp [h1]
  · have h1' : bs.isEmpty = false := by simpa using h1
    by_cases h2 : c.sendState = .closePending ∨ c.sendState = .closed
    · right; left; simp [h1, h1', h2]
    · by_cases h3 : c.recvPaused = .no
      · right; right; right; simp [h1, h1', h2, h3]
      · right; right; left; simp [h1, h1', h2, h3]

theorem step_wf (c c' : Chan) (ev : Ev) (ms : List Msg) (os : List Out) (hw : WF c)
    (h : step c ev = .ok (c', ms, os)) : WF c' := by
  cases ev with
  | write dt bs =>
    obtain ⟨hs, _, _, h1 | ⟨hne, h1⟩⟩ := step_write_ok h
    · rw [h1.2.1]; exact hw
    · have hw0 : WFs { c with sendBuf := c.sendBuf ++ [(bs, dt)] } :=
        ⟨hw.s.chanOpen, by intro h2; simp [hs] at h2⟩
      exact hw.of_sendSpec (flushSend_spec _ _ _ hw0 h1) rfl rfl rfl rfl rfl
  | writeEof =>
    obtain ⟨h1, _⟩ := step_writeEof_ok h
    obtain ⟨e, h2, h3, h4, h5, _, _, h7, h8, _⟩ := writeEof_spec _ _ _ hw.s h1
    exact ⟨e.wfs, h7 hw.exit, h8 hw.pend, by rw [h4, h3]; exact hw.unpaused, by rw [h4, h2]; exact hw.closeP,
      by rw [h2, h3]; exact hw.closePB, by rw [h2, h3]; exact hw.closedR, by rw [h5, e.cfg.initWindow]; exact hw.half⟩
  | close =>
    obtain ⟨c1, ms1, h1, h2⟩ := step_close_ok h
    have hw1 : WF c1 := by
      rcases h1 with ⟨hs1, hs2, h1⟩ | ⟨_, rfl, _⟩
      · have hw0 : WFs { c with sendEofPending := decide (c.sendState = .eofPending), sendState := .closePending } :=
          ⟨by simp only [ne_eq, reduceCtorEq, not_false_eq_true, iff_true]; exact hw.s.chanOpen.mpr hs2, by simp⟩
        exact hw.of_sendSpec (flushSend_spec _ _ _ hw0 h1) rfl rfl rfl rfl rfl
      · exact hw
    rcases h2 with ⟨_, rfl, _, _⟩ | ⟨_, rfl, _, _⟩
    · have hss := discardRecv_spec c1
      refine ⟨⟨by rw [hss.sendChanOpen, hss.sendState]; exact hw1.s.chanOpen,
               by rw [hss.sendState, hss.sendBuf]; exact hw1.s.drained⟩,
              by rw [hss.sendBuf, hss.sendWindow, hss.cfg.sendPktsize]; exact hw1.exit,
              by unfold PendOK; rw [hss.sendState, hss.sendBuf]; exact hw1.pend, fun _ => hss.recvBuf, ?_, ?_,
              fun _ => hss.recvBuf, by rw [hss.recvWindow, hss.cfg.initWindow]; exact hw1.half⟩
      all_goals
        intro hcp
        rcases hss.fired with ⟨_, _, h3⟩ | ⟨_, h3, h4⟩
        · rw [h3] at hcp; cases hcp
        · rw [h4] at hcp; exact absurd hcp h3
    · exact hw1
  | pause =>
    obtain ⟨rfl, _, _⟩ := step_pause_ok h
    exact ⟨⟨hw.s.chanOpen, hw.s.drained⟩, hw.exit, hw.pend, by simp, by simp, hw.closePB, hw.closedR, hw.half⟩
  | resume =>
    rcases step_resume_ok h with ⟨_, h1⟩ | ⟨_, rfl, _⟩
    · have hw0 : WFs { c with recvPaused := .no } := ⟨hw.s.chanOpen, hw.s.drained⟩
      exact WF.of_flushRecv (flushRecv_spec _ _ _ _ hw0 h1) hw.exit hw.closedR hw.half hw.pend
    · exact hw
  | armPause k =>
    obtain ⟨rfl, _, _⟩ := step_arm_ok h
    exact ⟨⟨hw.s.chanOpen, hw.s.drained⟩, hw.exit, hw.pend, hw.unpaused, hw.closeP, hw.closePB, hw.closedR, hw.half⟩
  | startReading =>
    rcases step_start_ok h with ⟨_, h1⟩ | ⟨_, rfl, _⟩
    · have hw0 : WFs { c with recvPaused := .no } := ⟨hw.s.chanOpen, hw.s.drained⟩
      exact WF.of_flushRecv (flushRecv_spec _ _ _ _ hw0 h1) hw.exit hw.closedR hw.half hw.pend
    · exact hw
  | recv m =>
    cases m with
    | data dt bs =>
      obtain ⟨hs, _, _, ha⟩ := step_recv_data_ok h
      rcases acceptData_cases c bs dt with ⟨_, h1⟩ | ⟨_, _, h1⟩ | ⟨_, _, hp, h1⟩ | ⟨_, _, hp, h1⟩
      · rw [h1] at ha; cases ha; exact hw
      · rw [h1] at ha; cases ha; exact hw
      · rw [h1] at ha; cases ha
        exact ⟨⟨hw.s.chanOpen, hw.s.drained⟩, hw.exit, hw.pend, fun h2 => absurd h2 hp, hw.closeP,
          by intro h2; simp [hs] at h2, by intro h2; simp [hs] at h2, hw.half⟩
      · rw [h1] at ha
        obtain ⟨sp, _⟩ := deliverData_spec c bs dt
        rw [ha] at sp
        simp only at sp
        refine ⟨sp.same.wfs hw.s, by rw [sp.same.sendBuf, sp.same.sendWindow, sp.same.sendPktsize]; exact hw.exit,
          by unfold PendOK; rw [sp.same.sendState, sp.same.sendBuf]; exact hw.pend, fun _ => by rw [sp.recvBuf]; exact hw.unpaused hp, ?_, ?_, ?_, ?_⟩
        · intro h2; rw [sp.same.recvState, hs] at h2; cases h2
        · intro h2; rw [sp.same.recvState, hs] at h2; cases h2
        · intro h2; rw [sp.same.recvState, hs] at h2; cases h2
        · rw [sp.same.initWindow]; exact sp.half
    | adjust n =>
      obtain ⟨_, h1, _⟩ := step_recv_adjust_ok h
      have hw0 : WFs { c with sendWindow := c.sendWindow + n } := ⟨hw.s.chanOpen, hw.s.drained⟩
      exact hw.of_sendSpec (flushSend_spec _ _ _ hw0 h1) rfl rfl rfl rfl rfl
    | eof =>
      obtain ⟨_, h1⟩ := step_recv_eof_ok h
      have hw0 : WFs { c with recvState := .eofPending } := ⟨hw.s.chanOpen, hw.s.drained⟩
      exact WF.of_flushRecv (flushRecv_spec _ _ _ _ hw0 h1) hw.exit (by simp) hw.half hw.pend
    | close =>
      obtain ⟨_, ms1, h1, _⟩ := step_recv_close_ok h
      obtain ⟨hsr, hb, hwn, hst, hco, _, _, _, hwf⟩ := closeSend_spec c hw.s
      have hw0 : WFs { (closeSend c).1 with recvEofPending := decide (c.recvState = .eofPending),
                                            recvState := .closePending } := ⟨hwf.chanOpen, hwf.drained⟩
      exact WF.of_flushRecv (flushRecv_spec _ _ _ _ hw0 h1) (Or.inl hb) (by simp)
        (by show 2 * (closeSend c).1.recvWindow ≥ (closeSend c).1.initWindow
            rw [hsr.recvWindow, hsr.initWindow]; exact hw.half)
        (by intro hs
            have : (closeSend c).1.sendState = .eofPending ∨ (closeSend c).1.sendState = .closePending := hs
            rw [hst] at this; simp at this)

/-! ### what one step does, in the terms the composition invariants need -/

/-- receive stage after an event -/
def evStage (ev : Ev) (r : Nat) : Nat :=
  match ev with
  | .recv .eof => 1
  | .recv .close => 2
  | _ => r

/-- the tagged bytes the send half is responsible for after an event -/
def evSendTag (ev : Ev) (c : Chan) : List (UInt8 × DType) :=
  match ev with
  | .recv .close => []
  | .write dt bs => tag c.sendBuf ++ tag [(bs, dt)]
  | _ => tag c.sendBuf

def evAdjust (ev : Ev) : Nat :=
  match ev with
  | .recv (.adjust n) => n
  | _ => 0

/-- the tagged bytes the receive half holds or has delivered after an event -/
def evRecvTag (ev : Ev) (c : Chan) : List (UInt8 × DType) :=
  match ev with
  | .recv (.data dt bs) =>
    if c.sendState = .closePending ∨ c.sendState = .closed then tag c.recvBuf else tag c.recvBuf ++ tag [(bs, dt)]
  | .close => []
  | _ => tag c.recvBuf

structure StepSum (c : Chan) (ev : Ev) (c' : Chan) (ms : List Msg) (os : List Out) : Prop where
  cfg : SameCfg c c'
  path : LinkOK (sStage c) (sStage c') ms
  rstage : rStage c' = evStage ev (rStage c)
  sendStream : tag (dataOf ms) ++ tag c'.sendBuf = evSendTag ev c
  sendWindow : bufBytes (dataOf ms) + c'.sendWindow = c.sendWindow + evAdjust ev
  pktBound : ∀ dt bs, Msg.data dt bs ∈ ms → bs.length ≤ c.sendPktsize
  recvStream : tag (dataOuts os) ++ tag c'.recvBuf = evRecvTag ev c
  winGe : c'.recvWindow + bufBytes (dataOuts os) + evCredit ev c ≥ c.recvWindow + adjustSum ms
  winEq : c'.sendChanOpen = true →
    c'.recvWindow + bufBytes (dataOuts os) + evCredit ev c = c.recvWindow + adjustSum ms
  openMono : c'.sendChanOpen = true → c.sendChanOpen = true

theorem StepSum.of_eff {c c0 c' : Chan} {ev : Ev} {ms : List Msg} {os : List Out} (e : Eff c0 c' ms os)
    (h1 : SameCfg c c0) (h2 : sStage c0 = sStage c) (h3 : rStage c0 = evStage ev (rStage c))
    (h4 : tag c0.sendBuf = evSendTag ev c) (h5 : c0.sendWindow = c.sendWindow + evAdjust ev)
    (h6 : tag c0.recvBuf = evRecvTag ev c) (h7 : c0.recvWindow = c.recvWindow)
    (h8 : c0.sendChanOpen = c.sendChanOpen) (h9 : evCredit ev c = 0 := by rfl) : StepSum c ev c' ms os :=
  ⟨h1.trans e.cfg, h2 ▸ e.path, e.rstage.trans h3, e.sendStream.trans h4, e.sendWindow.trans h5,
   fun dt bs hm => h1.sendPktsize ▸ e.pktBound dt bs hm, e.recvStream.trans h6,
   by rw [h9]; have := e.winGe; rw [h7] at this; simpa using this,
   fun hop => by rw [h9]; have := e.winEq hop; rw [h7] at this; simpa using this,
   fun hop => h8 ▸ e.openMono hop⟩

theorem flushSend_nil (c : Chan) (h : c.sendBuf = []) :
    flushSend c = some ((flushTail c).1, (flushTail c).2) := by
  unfold flushSend
  obtain ⟨n, hn⟩ := flushFuel_pos c
  rw [hn, flushData_nil n c h]
  simp

theorem step_sum (c c' : Chan) (ev : Ev) (ms : List Msg) (os : List Out) (hw : WF c)
    (h : step c ev = .ok (c', ms, os)) : StepSum c ev c' ms os := by
  cases ev with
  | write dt bs =>
    obtain ⟨hs, _, rfl, ⟨hb, hc, hm⟩ | ⟨hne, h1⟩⟩ := step_write_ok h
    · rw [hb, hc, hm]
      exact StepSum.of_eff (Eff.refl c hw.s) (SameCfg.refl c) rfl rfl (by simp [evSendTag]) rfl rfl rfl rfl
    · have hw0 : WFs { c with sendBuf := c.sendBuf ++ [(bs, dt)] } :=
        ⟨hw.s.chanOpen, by intro h2; simp [hs] at h2⟩
      exact StepSum.of_eff ((flushSend_spec _ _ _ hw0 h1).eff hw0) ⟨rfl, rfl, rfl, rfl, rfl⟩ rfl rfl
        (by simp [evSendTag, tag_append]) rfl rfl rfl rfl
  | writeEof =>
    obtain ⟨h1, rfl⟩ := step_writeEof_ok h
    obtain ⟨e, _⟩ := writeEof_spec _ _ _ hw.s h1
    exact StepSum.of_eff e (SameCfg.refl c) rfl rfl rfl rfl rfl rfl rfl
  | close =>
    obtain ⟨c1, ms1, h1, h2⟩ := step_close_ok h
    -- the send half
    have hsend : SameRecv c c1 ∧ LinkOK (sStage c) (sStage c1) ms1 ∧ tag (dataOf ms1) ++ tag c1.sendBuf = tag c.sendBuf ∧
        bufBytes (dataOf ms1) + c1.sendWindow = c.sendWindow ∧
        (∀ dt bs, Msg.data dt bs ∈ ms1 → bs.length ≤ c.sendPktsize) ∧ adjustSum ms1 = 0 ∧
        (c1.sendChanOpen = true → c.sendChanOpen = true) ∧ WFs c1 := by
      rcases h1 with ⟨hs1, hs2, h1⟩ | ⟨_, hc1, hm1⟩
      · have hop : c.sendChanOpen = true := hw.s.chanOpen.mpr hs2
        have hw0 : WFs { c with sendEofPending := decide (c.sendState = .eofPending), sendState := .closePending } :=
          ⟨by simp only [ne_eq, reduceCtorEq, not_false_eq_true, iff_true]; exact hop, by simp⟩
        have sp := flushSend_spec _ _ _ hw0 h1
        refine ⟨⟨sp.same.initWindow, sp.same.readTypes, sp.same.writeTypes, sp.same.eofKeep, sp.same.sendPktsize,
          sp.same.recvState, sp.same.recvWindow, sp.same.recvPaused, sp.same.recvBuf, sp.same.pauseAfter,
          sp.same.recvEofPending⟩,
          ?_, sp.stream, sp.window, sp.pktBound, sp.noAdjust, fun _ => hop, sp.wf⟩
        by_cases he : c.sendState = .eof
        · have hb : c.sendBuf = [] := hw.s.drained (Or.inl he)
          rw [flushSend_nil _ (by exact hb)] at h1
          simp only [flushTail, hb, closeSend, ne_eq, reduceCtorEq, not_false_eq_true, if_true, sendPkt, hop,
            Option.some.injEq, Prod.mk.injEq] at h1
          obtain ⟨rfl, rfl⟩ := h1
          simp [sStage, he, LinkOK]
        · have : sStage c = sStage { c with sendEofPending := decide (c.sendState = .eofPending), sendState := .closePending } := by
            unfold sStage
            cases hs : c.sendState <;> simp_all
          rw [this]; exact sp.path
      · rw [hc1, hm1]
        exact ⟨SameRecv.refl c, by simp [LinkOK], by simp [dataOf], by simp [dataOf, bufBytes], by simp, rfl, id, hw.s⟩
    obtain ⟨hsr, hpath, hstr, hwin, hpb, hadj, hom, hwfs1⟩ := hsend
    rcases h2 with ⟨hr, rfl, rfl, rfl⟩ | ⟨hr, hc', hm', ho'⟩
    · have hss := discardRecv_spec c1
      obtain ⟨hca, hcs, hcle, hceq⟩ := discardCredit_spec c1
      have hmsg : (discardRecv c1).2.1 = discardCredit c1 := hss.msgs
      have hb := hss.recvBuf
      have hwn := hss.recvWindow
      have hos : dataOuts (discardRecv c1).2.2 = [] := by
        rcases hss.fired with ⟨h3, _⟩ | ⟨h3, _⟩ <;> (rw [h3]; rfl)
      have hdc : dataOf (discardCredit c1) = [] := allAdjust_dataOf _ hca
      have hst : sStage (discardRecv c1).1 = sStage c1 := by simp only [sStage, hss.sendState]
      rw [hmsg]
      refine ⟨hsr.cfg.trans hss.cfg, ?_, ?_, ?_, ?_, ?_, ?_, ?_, ?_, ?_⟩
      · rw [hst]
        exact LinkOK_append _ _ _ (sStage c1) _ hpath
          (allAdjust_LinkOK _ _ hca (fun hne => sStage_le_of_open hwfs1 (hcs hne)))
      · simp only [evStage]
        rcases hss.fired with ⟨_, h3, h4⟩ | ⟨_, _, h4⟩
        · simp [rStage, h4, ← hsr.recvState, h3]
        · simp [rStage, h4, hsr.recvState]
      · rw [dataOf_append, hdc, List.append_nil, hss.sendBuf]; exact hstr
      · rw [dataOf_append, hdc, List.append_nil, hss.sendWindow]; simpa [evAdjust] using hwin
      · intro dt bs hm
        rcases List.mem_append.mp hm with hm | hm
        · exact hpb dt bs hm
        · exact absurd hm (dataOf_nil_not_mem _ hdc dt bs)
      · simp [hos, hb, evRecvTag]
      · rw [hos, hwn, hsr.recvWindow, adjustSum_append, hadj]
        simp only [evCredit, bufBytes]
        rw [← hsr.recvBuf]; push_cast; omega
      · intro hop
        rw [hss.sendChanOpen] at hop
        have := hceq hop
        rw [hos, hwn, hsr.recvWindow, adjustSum_append, hadj]
        simp only [evCredit, bufBytes]
        rw [← hsr.recvBuf]; push_cast; omega
      · intro hop; rw [hss.sendChanOpen] at hop; exact hom hop
    · rw [hc', ho', hm']
      have hb0 : c.recvBuf = [] := hw.closedR (hsr.recvState ▸ hr)
      have hb : c1.recvBuf = [] := by rw [hsr.recvBuf]; exact hb0
      refine ⟨hsr.cfg, hpath, by simp [evStage, rStage, hsr.recvState], hstr, by simpa [evAdjust] using hwin, hpb,
        by simp [dataOuts, hb, evRecvTag], by simp [dataOuts, bufBytes, hadj, hsr.recvWindow, evCredit, hb0],
        fun _ => by simp [dataOuts, bufBytes, hadj, hsr.recvWindow, evCredit, hb0], hom⟩
  | pause =>
    obtain ⟨rfl, rfl, rfl⟩ := step_pause_ok h
    exact StepSum.of_eff (Eff.refl _ ⟨hw.s.chanOpen, hw.s.drained⟩) ⟨rfl, rfl, rfl, rfl, rfl⟩ rfl rfl rfl rfl rfl rfl rfl
  | armPause k =>
    obtain ⟨rfl, rfl, rfl⟩ := step_arm_ok h
    exact StepSum.of_eff (Eff.refl _ ⟨hw.s.chanOpen, hw.s.drained⟩) ⟨rfl, rfl, rfl, rfl, rfl⟩ rfl rfl rfl rfl rfl rfl rfl
  | resume =>
    rcases step_resume_ok h with ⟨_, h1⟩ | ⟨_, hc, hm, ho⟩
    · have hw0 : WFs { c with recvPaused := .no } := ⟨hw.s.chanOpen, hw.s.drained⟩
      exact StepSum.of_eff (flushRecv_spec _ _ _ _ hw0 h1).eff ⟨rfl, rfl, rfl, rfl, rfl⟩ rfl rfl rfl rfl rfl rfl rfl
    · rw [hc, hm, ho]
      exact StepSum.of_eff (Eff.refl c hw.s) (SameCfg.refl c) rfl rfl rfl rfl rfl rfl rfl
  | startReading =>
    rcases step_start_ok h with ⟨_, h1⟩ | ⟨_, hc, hm, ho⟩
    · have hw0 : WFs { c with recvPaused := .no } := ⟨hw.s.chanOpen, hw.s.drained⟩
      exact StepSum.of_eff (flushRecv_spec _ _ _ _ hw0 h1).eff ⟨rfl, rfl, rfl, rfl, rfl⟩ rfl rfl rfl rfl rfl rfl rfl
    · rw [hc, hm, ho]
      exact StepSum.of_eff (Eff.refl c hw.s) (SameCfg.refl c) rfl rfl rfl rfl rfl rfl rfl
  | recv m =>
    cases m with
    | data dt bs =>
      obtain ⟨hs, _, _, ha⟩ := step_recv_data_ok h
      rcases acceptData_cases c bs dt with ⟨hb, h1⟩ | ⟨_, hd, h1⟩ | ⟨_, hd, hp, h1⟩ | ⟨_, hd, hp, h1⟩
      · rw [h1] at ha; cases ha
        refine StepSum.of_eff (Eff.refl c hw.s) (SameCfg.refl c) rfl rfl rfl rfl ?_ rfl rfl (by simp [evCredit, hb])
        simp only [evRecvTag, hb]; split <;> simp
      · -- dropped after the local close(): nothing changes but the window it used is given back
        rw [h1] at ha; cases ha
        have hle : adjustSum (sendPkt c (.adjust bs.length)) ≤ bs.length := by
          unfold sendPkt; split <;> simp [adjustSum]
        have hdn : dataOf (sendPkt c (.adjust bs.length)) = [] := by
          unfold sendPkt; split <;> simp [dataOf]
        refine ⟨SameCfg.refl c, sendPkt_adjust_LinkOK c hw.s _, rfl, by simp [hdn, evSendTag],
          by simp [hdn, bufBytes, evAdjust], fun dt' bs' hm => absurd hm (dataOf_nil_not_mem _ hdn dt' bs'),
          by simp [dataOuts, evRecvTag, hd], ?_, ?_, id⟩
        · simp only [evCredit, hd, if_true, dataOuts, bufBytes]; push_cast; omega
        · intro hop
          simp only [evCredit, hd, if_true, dataOuts, bufBytes, sendPkt, hop, adjustSum]; push_cast; omega
      · rw [h1] at ha; cases ha
        exact StepSum.of_eff (Eff.refl _ ⟨hw.s.chanOpen, hw.s.drained⟩) ⟨rfl, rfl, rfl, rfl, rfl⟩ rfl rfl rfl rfl
          (by simp [evRecvTag, hd, tag_append]) rfl rfl (by simp [evCredit, hd])
      · rw [h1] at ha
        obtain ⟨sp, ho⟩ := deliverData_spec c bs dt
        rw [ha] at sp ho
        simp only at sp ho
        subst ho
        have hrb : c.recvBuf = [] := hw.unpaused hp
        refine ⟨sp.same.cfg, ?_, by simp [evStage, sp.same.rStage], ?_, ?_, ?_, ?_, ?_, ?_, ?_⟩
        · rw [sp.same.sStage]
          exact allAdjust_LinkOK ms _ sp.adj (fun hne => sStage_le_of_open hw.s (sp.sent hne))
        · simp [allAdjust_dataOf _ sp.adj, sp.same.sendBuf, evSendTag]
        · simp [allAdjust_dataOf _ sp.adj, bufBytes, sp.same.sendWindow, evAdjust]
        · intro dt' bs' hm
          exact absurd hm (dataOf_nil_not_mem ms (allAdjust_dataOf _ sp.adj) dt' bs')
        · simp [dataOuts, sp.recvBuf, hrb, evRecvTag, hd]
        · simpa [dataOuts, bufBytes, evCredit, hd] using sp.winGe
        · intro hop; rw [sp.same.sendChanOpen] at hop
          simpa [dataOuts, bufBytes, evCredit, hd] using sp.winEq hop
        · intro hop; rw [sp.same.sendChanOpen] at hop; exact hop
    | adjust n =>
      obtain ⟨_, h1, rfl⟩ := step_recv_adjust_ok h
      have hw0 : WFs { c with sendWindow := c.sendWindow + n } := ⟨hw.s.chanOpen, hw.s.drained⟩
      exact StepSum.of_eff ((flushSend_spec _ _ _ hw0 h1).eff hw0) ⟨rfl, rfl, rfl, rfl, rfl⟩ rfl rfl rfl rfl rfl rfl rfl
    | eof =>
      obtain ⟨hs, h1⟩ := step_recv_eof_ok h
      have hw0 : WFs { c with recvState := .eofPending } := ⟨hw.s.chanOpen, hw.s.drained⟩
      exact StepSum.of_eff (flushRecv_spec _ _ _ _ hw0 h1).eff ⟨rfl, rfl, rfl, rfl, rfl⟩ rfl
        (by simp [evStage, rStage]) rfl rfl rfl rfl rfl
    | close =>
      obtain ⟨_, ms1, h1, rfl⟩ := step_recv_close_ok h
      obtain ⟨hsr, hb, hwn, hst, hco, hp0, hd0, ha0, hwf⟩ := closeSend_spec c hw.s
      have hw0 : WFs { (closeSend c).1 with recvEofPending := decide (c.recvState = .eofPending), recvState := .closePending } := ⟨hwf.chanOpen, hwf.drained⟩
      have e := (flushRecv_spec _ _ _ _ hw0 h1).eff
      have hs2 : sStage { (closeSend c).1 with recvEofPending := decide (c.recvState = .eofPending), recvState := .closePending } = 2 := by simp [sStage, hst]
      refine ⟨hsr.cfg.trans ⟨e.cfg.1, e.cfg.2, e.cfg.3, e.cfg.4, e.cfg.5⟩, ?_, ?_, ?_, ?_, ?_, ?_, ?_, ?_, ?_⟩
      · exact LinkOK_append _ _ _ 2 _ hp0 (hs2 ▸ e.path)
      · rw [e.rstage]; simp [evStage, rStage]
      · rw [dataOf_append, hd0]
        have := e.sendStream
        simp only at this
        rw [hb] at this
        simpa [evSendTag] using this
      · rw [dataOf_append, hd0]
        have := e.sendWindow
        simp only at this
        rw [hwn] at this
        simpa [evAdjust] using this
      · intro dt bs hm
        rcases List.mem_append.mp hm with hm | hm
        · exact absurd hm (dataOf_nil_not_mem _ hd0 dt bs)
        · have := e.pktBound dt bs hm; simpa [hsr.sendPktsize] using this
      · have := e.recvStream
        simp only at this
        rw [hsr.recvBuf] at this
        simpa [evRecvTag] using this
      · have := e.winGe
        simp only at this
        rw [hsr.recvWindow] at this
        rw [adjustSum_append, ha0]; simpa [evCredit] using this
      · intro hop
        have := e.winEq hop
        simp only at this
        rw [hsr.recvWindow] at this
        rw [adjustSum_append, ha0]; simpa [evCredit] using this
      · intro hop
        have := e.openMono hop
        simp only at this
        rw [hco] at this; cases this

end AsyncsshModel.Channel
