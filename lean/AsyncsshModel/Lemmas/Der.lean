import AsyncsshModel.Model.Der
import AsyncsshModel.Lemmas.Wire
/-
  Lemmas for the DER model: header/length/base-128 round trips, per-type content round trips and the
  mutual induction that gives `decodePartial (enc v ++ rest) = (v, |enc v|)`.
-/
namespace AsyncsshModel.Der
open AsyncsshModel AsyncsshModel.Wire

/-! ### small byte facts -/

theorem ofNat_toNat_lt {n : Nat} (h : n < 256) : (UInt8.ofNat n).toNat = n := by
  simp [UInt8.toNat_ofNat', Nat.mod_eq_of_lt h]

theorem u8_lt_iff (a b : UInt8) : a < b ↔ a.toNat < b.toNat := UInt8.lt_iff_toNat_lt

theorem u8_eq_iff (a b : UInt8) : a = b ↔ a.toNat = b.toNat := UInt8.toNat_inj.symm

/-! ### base-128 -/

theorem parseHighTag_b128hi (m : Nat) (ys : Bytes) :
    parseHighTag 0 (b128hi m ++ ys) = parseHighTag (128 * m) ys := by
  induction m using Nat.strongRecOn generalizing ys with
  | _ m ih =>
    unfold b128hi
    split
    · subst_vars; simp
    · rename_i hm
      rw [List.append_assoc, ih (m / 128) (by omega)]
      have hb : (UInt8.ofNat (128 + m % 128)).toNat = 128 + m % 128 := ofNat_toNat_lt (by omega)
      simp only [List.singleton_append, parseHighTag, u8_lt_iff, hb]
      have : ¬ (128 + m % 128 < (0x80 : UInt8).toNat) := by simp
      simp only [this, if_false]
      congr 1
      omega

theorem parseHighTag_b128 (n : Nat) (ys : Bytes) :
    parseHighTag 0 (b128 n ++ ys) = some (n, ys) := by
  unfold b128
  rw [List.append_assoc, parseHighTag_b128hi]
  have hb : (UInt8.ofNat (n % 128)).toNat = n % 128 := ofNat_toNat_lt (by omega)
  simp only [List.singleton_append, parseHighTag, u8_lt_iff, hb]
  have : n % 128 < (0x80 : UInt8).toNat := by simp; omega
  simp only [this, if_true]
  congr 2
  omega

theorem oidLoop_b128hi (m : Nat) (ys : Bytes) :
    oidLoop 0 (b128hi m ++ ys) = oidLoop (128 * m) ys := by
  induction m using Nat.strongRecOn generalizing ys with
  | _ m ih =>
    unfold b128hi
    split
    · subst_vars; simp
    · rename_i hm
      rw [List.append_assoc, ih (m / 128) (by omega)]
      have hb : (UInt8.ofNat (128 + m % 128)).toNat = 128 + m % 128 := ofNat_toNat_lt (by omega)
      simp only [List.singleton_append, oidLoop, u8_lt_iff, u8_eq_iff, hb]
      have h1 : ¬ (128 + m % 128 < (0x80 : UInt8).toNat) := by simp
      have h2 : ¬ (128 + m % 128 = (0x80 : UInt8).toNat ∧ 128 * (m / 128) = 0) := by
        simp; omega
      simp only [h1, h2, if_false]
      congr 1
      omega

theorem oidLoop_b128 (n : Nat) (ys : Bytes) :
    oidLoop 0 (b128 n ++ ys) = (oidLoop 0 ys).map (fun l => n :: l) := by
  unfold b128
  rw [List.append_assoc, oidLoop_b128hi]
  have hb : (UInt8.ofNat (n % 128)).toNat = n % 128 := ofNat_toNat_lt (by omega)
  simp only [List.singleton_append, oidLoop, u8_lt_iff, u8_eq_iff, hb]
  have h1 : n % 128 < (0x80 : UInt8).toNat := by simp; omega
  have h2 : ¬ (n % 128 = (0x80 : UInt8).toNat ∧ 128 * (n / 128) = 0) := by simp; omega
  simp only [h1, h2, if_true, if_false]
  have : 128 * (n / 128) + n % 128 = n := by omega
  rw [this]

theorem oidLoop_flatten (cs : List Nat) : oidLoop 0 ((cs.map b128).flatten) = some cs := by
  induction cs with
  | nil => simp [oidLoop]
  | cons c cs ih =>
    simp only [List.map_cons, List.flatten_cons]
    rw [oidLoop_b128, ih]; rfl

theorem b128_small {n : Nat} (h : n < 128) : b128 n = [UInt8.ofNat n] := by
  unfold b128
  have : n / 128 = 0 := by omega
  rw [this, Nat.mod_eq_of_lt h]
  unfold b128hi
  simp

/-- OID content round trip (first two arcs must fit the first byte) -/
theorem oidDecode_oidContent (comps : List Nat) (h : oidOk comps = true)
    (h2 : oidFirstByte comps = true) :
    oidDecode (oidContent comps) = some comps := by
  match comps, h, h2 with
  | [], h, _ => simp [oidOk] at h
  | [_], h, _ => simp [oidOk] at h
  | c0 :: c1 :: rest, h, h2 =>
    simp only [oidOk, Bool.and_eq_true, decide_eq_true_eq, Bool.or_eq_true, beq_iff_eq] at h
    simp only [oidFirstByte, decide_eq_true_eq] at h2
    simp only [oidContent, b128_small h2, List.singleton_append, oidDecode]
    have hb : (UInt8.ofNat (c0 * 40 + c1)).toNat = c0 * 40 + c1 := ofNat_toNat_lt (by omega)
    rw [hb, oidLoop_flatten]
    simp only [Option.map_some]
    congr 1
    split
    · have : c0 * 40 + c1 < 80 := by assumption
      have hc : c0 ≤ 1 := by omega
      have : c1 ≤ 39 := by rcases h.2 with h' | h' <;> omega
      have e1 : (c0 * 40 + c1) / 40 = c0 := by omega
      have e2 : (c0 * 40 + c1) % 40 = c1 := by omega
      simp [e1, e2]
    · have : ¬ (c0 * 40 + c1 < 80) := by assumption
      have hc : c0 = 2 := by
        rcases h.2 with h' | h'
        · exact h'
        · omega
      subst hc
      have : 2 * 40 + c1 - 80 = c1 := by omega
      simp [this]

/-! ### identifier octets -/

theorem parseIdent_identBytes (cls : Nat) (cons : Bool) (tag : Nat) (xs : Bytes)
    (hc : cls < 4) (ht : tag ≠ 31) :
    parseIdent (identBytes cls cons tag ++ xs) = some (cls, cons, tag, xs) := by
  unfold identBytes
  simp only []
  split
  · rename_i hlt
    have hb : (UInt8.ofNat (cls * 64 + (if cons = true then 32 else 0) + tag)).toNat
        = cls * 64 + (if cons = true then 32 else 0) + tag := ofNat_toNat_lt (by split <;> omega)
    simp only [List.singleton_append, parseIdent, hb]
    have e3 : (cls * 64 + (if cons = true then 32 else 0) + tag) % 32 = tag := by split <;> omega
    have e1 : (cls * 64 + (if cons = true then 32 else 0) + tag) / 64 = cls := by split <;> omega
    have e2 : ((cls * 64 + (if cons = true then 32 else 0) + tag) / 32 % 2 == 1) = cons := by
      cases cons <;> simp <;> omega
    rw [e3, e1, e2]
    simp [ht]
  · rename_i hge
    have hb : (UInt8.ofNat (cls * 64 + (if cons = true then 32 else 0) + 31)).toNat
        = cls * 64 + (if cons = true then 32 else 0) + 31 := ofNat_toNat_lt (by split <;> omega)
    simp only [List.cons_append, parseIdent, hb]
    have e3 : (cls * 64 + (if cons = true then 32 else 0) + 31) % 32 = 31 := by split <;> omega
    have e1 : (cls * 64 + (if cons = true then 32 else 0) + 31) / 64 = cls := by split <;> omega
    have e2 : ((cls * 64 + (if cons = true then 32 else 0) + 31) / 32 % 2 == 1) = cons := by
      cases cons <;> simp <;> omega
    rw [e3, e1, e2, parseHighTag_b128]
    simp

theorem identBytes_length_pos (cls : Nat) (cons : Bool) (tag : Nat) : 1 ≤ (identBytes cls cons tag).length := by
  unfold identBytes; simp only []; split <;> simp

/-! ### length octets -/

theorem lt_pow_lenSize (n : Nat) : n < 256 ^ lenSize n := by
  by_cases hn : n = 0
  · subst hn; exact Nat.pow_pos (by decide)
  · have hne : (n : Int) ≠ 0 := by omega
    have := (natAbs_lt_pow_iff hne (8 * lenSize n)).mpr (by unfold lenSize; omega)
    rw [pow256]
    simpa using this

set_option exponentiation.threshold 2000 in
theorem lenSize_lt {n : Nat} (h : n < 256 ^ 126) : lenSize n < 128 := by
  by_cases hn : n = 0
  · subst hn; simp [lenSize, bitLength]
  · have hne : (n : Int) ≠ 0 := by omega
    have h' : (n : Int).natAbs < 2 ^ (8 * 126) := by rw [← pow256]; simpa using h
    have := (natAbs_lt_pow_iff hne (8 * 126)).mp h'
    unfold lenSize; omega

theorem lenSize_pos {n : Nat} (h : 128 ≤ n) : 1 ≤ lenSize n := by
  have hne : (n : Int) ≠ 0 := by omega
  have := bitLength_pos hne
  unfold lenSize; omega

theorem parseLenContent_encLen (content rest : Bytes) (h : content.length < 256 ^ 126) :
    parseLenContent (encLen content.length ++ content ++ rest) = some (content, rest) := by
  unfold encLen
  split
  · rename_i hlt
    have hb : (UInt8.ofNat content.length).toNat = content.length := ofNat_toNat_lt (by omega)
    have h1 : ¬ (128 < content.length) := by omega
    have h2 : ¬ (content.length = 128) := by omega
    have h3 : ¬ (content.length + rest.length < content.length) := by omega
    simp [parseLenContent, u8_lt_iff, u8_eq_iff, hb, h1, h2, h3]
  · rename_i hge
    have hk := lenSize_lt h
    have hk1 := lenSize_pos (n := content.length) (by omega)
    have hb : (UInt8.ofNat (128 + lenSize content.length)).toNat = 128 + lenSize content.length :=
      ofNat_toNat_lt (by omega)
    simp only [List.cons_append, parseLenContent, u8_lt_iff, hb]
    have h1 : (0x80 : UInt8).toNat < 128 + lenSize content.length := by simp; omega
    have e : (128 + lenSize content.length) % 128 = lenSize content.length := by omega
    simp only [h1, if_true, e]
    have hlen : ¬ ((beBytes (lenSize content.length) content.length ++ (content ++ rest)).length
        < lenSize content.length) := by simp
    rw [List.append_assoc] 
    simp only [hlen, if_false]
    rw [List.take_left' (length_beBytes _ _), List.drop_left' (length_beBytes _ _), beNat_beBytes,
      Nat.mod_eq_of_lt (lt_pow_lenSize _)]
    simp

theorem encLen_length_pos (n : Nat) : 1 ≤ (encLen n).length := by
  unfold encLen; split <;> simp

/-! ### INTEGER content -/

def intLen (v : Int) : Nat :=
  if bitLength v % 8 = 0 then bitLength v / 8 + 1 else (bitLength v + 7) / 8

theorem fitsSigned_intLen (v : Int) : FitsSigned v (intLen v) := by
  unfold intLen
  rcases Int.lt_trichotomy v 0 with hv | hv | hv
  · rw [fitsSigned_neg hv]
    split <;> split <;> omega
  · subst hv; exact fitsSigned_zero _
  · rw [fitsSigned_pos hv]
    split <;> omega

theorem fromBytesSigned_of_ge {b : Bytes} (h : 256 ^ b.length ≤ 2 * beNat b) :
    fromBytesSigned b = (beNat b : Int) - (256 : Int) ^ b.length := by
  unfold fromBytesSigned; rw [if_pos h]

theorem strip_aux (P b r : Nat) (hb : 128 ≤ b) (hb2 : b < 256) (_hr : r < P) :
    P * 256 * 256 ≤ 2 * (255 * (P * 256) + (b * P + r)) ∧ P * 256 ≤ 2 * (b * P + r) ∧
    ((255 * (P * 256) + (b * P + r) : Nat) : Int) - ((P * 256 * 256 : Nat) : Int)
      = ((b * P + r : Nat) : Int) - ((P * 256 : Nat) : Int) := by
  have h1 : 128 * P ≤ b * P := Nat.mul_le_mul_right _ hb
  have h2 : b * P ≤ 255 * P := Nat.mul_le_mul_right _ (by omega)
  refine ⟨by omega, by omega, ?_⟩
  omega

/-- dropping a redundant leading `ff` before a byte with the top bit set keeps the value -/
theorem fromBytesSigned_strip_ff (b : UInt8) (rest : Bytes) (hb : 0x80 ≤ b.toNat) :
    fromBytesSigned (0xff :: b :: rest) = fromBytesSigned (b :: rest) := by
  have hff : (0xff : UInt8).toNat = 255 := by decide
  obtain ⟨c1, c2, c3⟩ := strip_aux (256 ^ rest.length) b.toNat (beNat rest) hb b.toNat_lt (beNat_lt rest)
  have g1 : 256 ^ (0xff :: b :: rest).length ≤ 2 * beNat (0xff :: b :: rest) := by
    simp only [beNat, List.length_cons, Nat.pow_succ, hff]; exact c1
  have g2 : 256 ^ (b :: rest).length ≤ 2 * beNat (b :: rest) := by
    simp only [beNat, List.length_cons, Nat.pow_succ]; exact c2
  rw [fromBytesSigned_of_ge g1, fromBytesSigned_of_ge g2, pow256_cast, pow256_cast]
  simp only [beNat, List.length_cons, Nat.pow_succ, hff]
  exact c3

theorem fromBytesSigned_intContent (v : Int) : fromBytesSigned (intContent v) = v := by
  have hfit := fitsSigned_intLen v
  have hrt := fromBytesSigned_twosComp hfit
  unfold intContent
  simp only []
  change fromBytesSigned (match twosComp v (intLen v) with
    | a :: b :: rest => if a = 0xff ∧ b = 0x80 then b :: rest else twosComp v (intLen v)
    | _ => twosComp v (intLen v)) = v
  generalize twosComp v (intLen v) = r at hrt
  match r, hrt with
  | [], hrt => simpa using hrt
  | [_], hrt => simpa using hrt
  | a :: b :: rest, hrt =>
    simp only []
    split
    · rename_i hab
      obtain ⟨ha, hb⟩ := hab
      subst ha hb
      rw [← fromBytesSigned_strip_ff 0x80 rest (by decide)]
      exact hrt
    · exact hrt

/-! ### the header of a TLV -/

/-- Bound on the size of an encoding under which the length octets are representable
    (`bytes((0x80 | len(len_bytes),))` needs fewer than 128 length bytes).  Physically vacuous. -/
def sizeBound : Nat := 256 ^ 126

theorem tlv_length (ident content : Bytes) :
    (tlv ident content).length = ident.length + (encLen content.length).length + content.length := by
  simp [tlv]; omega

theorem tlv_ident_ge_two (cls : Nat) (cons : Bool) (tag : Nat) (content : Bytes) :
    2 ≤ (tlv (identBytes cls cons tag) content).length := by
  rw [tlv_length]
  have := identBytes_length_pos cls cons tag
  have := encLen_length_pos content.length
  omega

theorem decodePartial_tlv (fuel cls : Nat) (cons : Bool) (tag : Nat) (content rest : Bytes)
    (hc : cls < 4) (ht : tag ≠ 31) (hlen : content.length < sizeBound) :
    decodePartial (fuel + 1) (tlv (identBytes cls cons tag) content ++ rest) =
      (dispatch (decodeItems fuel) (decodePartial fuel) cls cons tag content).map
        fun v => (v, (tlv (identBytes cls cons tag) content).length) := by
  have h1 : parseIdent (tlv (identBytes cls cons tag) content ++ rest)
      = some (cls, cons, tag, encLen content.length ++ content ++ rest) := by
    have : tlv (identBytes cls cons tag) content ++ rest
        = identBytes cls cons tag ++ (encLen content.length ++ content ++ rest) := by
      simp [tlv, List.append_assoc]
    rw [this, parseIdent_identBytes _ _ _ _ hc ht]
  have h2 := parseLenContent_encLen content rest (by unfold sizeBound at hlen; exact hlen)
  rw [decodePartial]
  simp only [h1, h2]
  congr 1
  funext v
  congr 1
  simp [tlv]
  omega

/-! ### canonical sets -/

theorem bytesLt_le {a b : Bytes} (h : bytesLt a b = true) : bytesLe a b = true := by
  unfold bytesLt at h; simp at h; exact h.1

theorem sortBytes_of_sorted (l : List Bytes) (h : sortedStrict l = true) : sortBytes l = l := by
  induction l with
  | nil => rfl
  | cons a rest ih =>
    cases rest with
    | nil => rfl
    | cons b rest' =>
      simp only [sortedStrict, Bool.and_eq_true] at h
      have ih' := ih h.2
      unfold sortBytes at ih' ⊢
      simp only [List.foldr_cons] at ih' ⊢
      rw [ih']
      simp [insertSorted, bytesLt_le h.1]

theorem flatten_encEach (items : List DerVal) : (encEach items).flatten = encList items := by
  induction items with
  | nil => simp [encEach, encList]
  | cons x xs ih => simp [encEach, encList, ih]

/-! ### size facts -/

theorem enc_length_ge_two (v : DerVal) : 2 ≤ (enc v).length := by
  cases v <;> simp only [enc] <;> exact tlv_ident_ge_two _ _ _ _

theorem content_lt_of_tlv {ident content : Bytes} {B : Nat} (h : (tlv ident content).length < B) :
    content.length < B := by
  rw [tlv_length] at h; omega

/-- one TLV whose dispatch result is known -/
theorem decodePartial_of_dispatch (fuel cls : Nat) (cons : Bool) (tag : Nat) (content rest : Bytes) (v : DerVal)
    (hc : cls < 4) (ht : tag ≠ 31)
    (hs : (tlv (identBytes cls cons tag) content).length < sizeBound)
    (hf : (tlv (identBytes cls cons tag) content).length ≤ fuel)
    (hd : dispatch (decodeItems (fuel - 1)) (decodePartial (fuel - 1)) cls cons tag content = .ok v) :
    decodePartial fuel (tlv (identBytes cls cons tag) content ++ rest)
      = .ok (v, (tlv (identBytes cls cons tag) content).length) := by
  have h2 := tlv_ident_ge_two cls cons tag content
  obtain ⟨f, rfl⟩ : ∃ f, fuel = f + 1 := ⟨fuel - 1, by omega⟩
  rw [decodePartial_tlv f cls cons tag content rest hc ht (content_lt_of_tlv hs)]
  simp only [Nat.add_sub_cancel] at hd
  rw [hd]; rfl

theorem decodeItems_cons_eq (fuel : Nat) (data : Bytes) (h : data ≠ []) :
    decodeItems (fuel + 1) data =
      match decodePartial fuel data with
      | .error e => .error e
      | .ok (v, n) =>
        match decodeItems fuel (data.drop n) with
        | .error e => .error e
        | .ok vs => .ok (v :: vs) := by
  cases data with
  | nil => exact absurd rfl h
  | cons b bs => rw [decodeItems]; rfl

theorem universal_not (cls tag : Nat) (h : (!(cls == 0 && universalTags.contains tag)) = true) (t : Nat)
    (ht : t ∈ universalTags) : ¬ (cls = 0 ∧ tag = t) := by
  intro ⟨h1, h2⟩
  subst h1 h2
  simp at h
  exact h ht

mutual
/-- **DER round trip, consuming exactly the encoder's output**, for every value of the
    round-trip universe (`wf`) and every trailing byte string. -/
theorem decodePartial_enc : (v : DerVal) → wf v = true → ∀ (fuel : Nat) (rest : Bytes),
    (enc v).length ≤ fuel → (enc v).length < sizeBound →
    decodePartial fuel (enc v ++ rest) = .ok (v, (enc v).length)
  | .null, _, fuel, rest, hf, hs => by
    simp only [enc] at *
    exact decodePartial_of_dispatch fuel 0 false 5 [] rest _ (by omega) (by omega) hs hf (by simp [dispatch])
  | .bool b, _, fuel, rest, hf, hs => by
    simp only [enc] at *
    refine decodePartial_of_dispatch fuel 0 false 1 _ rest _ (by omega) (by omega) hs hf ?_
    cases b <;> simp [dispatch]
  | .int v, _, fuel, rest, hf, hs => by
    simp only [enc] at *
    refine decodePartial_of_dispatch fuel 0 false 2 _ rest _ (by omega) (by omega) hs hf ?_
    simp [dispatch, fromBytesSigned_intContent]
  | .octets b, _, fuel, rest, hf, hs => by
    simp only [enc] at *
    exact decodePartial_of_dispatch fuel 0 false 4 _ rest _ (by omega) (by omega) hs hf (by simp [dispatch])
  | .utf8 b, hw, fuel, rest, hf, hs => by
    simp only [enc, wf] at *
    exact decodePartial_of_dispatch fuel 0 false 12 _ rest _ (by omega) (by omega) hs hf (by simp [dispatch, hw])
  | .ia5 b, _, fuel, rest, hf, hs => by
    simp only [enc] at *
    exact decodePartial_of_dispatch fuel 0 false 22 _ rest _ (by omega) (by omega) hs hf (by simp [dispatch])
  | .bits u b, hw, fuel, rest, hf, hs => by
    simp only [enc, wf] at *
    refine decodePartial_of_dispatch fuel 0 false 3 _ rest _ (by omega) (by omega) hs hf ?_
    have hu : u ≤ 7 := by
      unfold bitsOk at hw; simp at hw; exact hw.1
    have hb : (UInt8.ofNat u).toNat = u := ofNat_toNat_lt (by omega)
    have hgt : ¬ (UInt8.ofNat u > 7) := by
      rw [gt_iff_lt, u8_lt_iff, hb]; simp; omega
    simp [dispatch, hgt, hb, hw]
  | .oid comps, hw, fuel, rest, hf, hs => by
    simp only [enc, wf, Bool.and_eq_true] at *
    refine decodePartial_of_dispatch fuel 0 false 6 _ rest _ (by omega) (by omega) hs hf ?_
    simp [dispatch, oidDecode_oidContent comps hw.1 hw.2]
  | .seq items, hw, fuel, rest, hf, hs => by
    simp only [enc, wf] at *
    refine decodePartial_of_dispatch fuel 0 true 16 _ rest _ (by omega) (by omega) hs hf ?_
    have hlen := tlv_length (identBytes 0 true 16) (encList items)
    have h1 := identBytes_length_pos 0 true 16
    have h2 := encLen_length_pos (encList items).length
    have := decodeItems_encList items hw (fuel - 1) (by omega) (by omega)
    simp [dispatch, this, Except.map]
  | .set items, hw, fuel, rest, hf, hs => by
    simp only [enc, wf, Bool.and_eq_true] at *
    rw [sortBytes_of_sorted _ hw.2, flatten_encEach] at *
    refine decodePartial_of_dispatch fuel 0 true 17 _ rest _ (by omega) (by omega) hs hf ?_
    have hlen := tlv_length (identBytes 0 true 17) (encList items)
    have h1 := identBytes_length_pos 0 true 17
    have h2 := encLen_length_pos (encList items).length
    have := decodeItems_encList items hw.1 (fuel - 1) (by omega) (by omega)
    simp [dispatch, this, Except.map]
  | .tagged cls tag v, hw, fuel, rest, hf, hs => by
    simp only [enc, wf, Bool.and_eq_true, decide_eq_true_eq] at *
    obtain ⟨⟨⟨hc, ht⟩, hu⟩, hwv⟩ := hw
    refine decodePartial_of_dispatch fuel cls true tag _ rest _ hc (by simpa using ht) hs hf ?_
    have hlen := tlv_length (identBytes cls true tag) (enc v)
    have h1 := identBytes_length_pos cls true tag
    have h2 := encLen_length_pos (enc v).length
    have ih := decodePartial_enc v hwv (fuel - 1) [] (by omega) (by omega)
    rw [List.append_nil] at ih
    have n1 := universal_not cls tag hu
    simp [dispatch, ih, n1 5 (by decide), n1 1 (by decide), n1 2 (by decide), n1 4 (by decide),
      n1 12 (by decide), n1 22 (by decide), n1 3 (by decide), n1 6 (by decide), n1 16 (by decide),
      n1 17 (by decide)]
  | .raw cls tag content, hw, fuel, rest, hf, hs => by
    simp only [enc, wf, Bool.and_eq_true, decide_eq_true_eq] at *
    obtain ⟨⟨hc, ht⟩, hu⟩ := hw
    refine decodePartial_of_dispatch fuel cls false tag _ rest _ hc (by simpa using ht) hs hf ?_
    have n1 := universal_not cls tag hu
    simp [dispatch, n1 5 (by decide), n1 1 (by decide), n1 2 (by decide), n1 4 (by decide),
      n1 12 (by decide), n1 22 (by decide), n1 3 (by decide), n1 6 (by decide), n1 16 (by decide),
      n1 17 (by decide)]
theorem decodeItems_encList : (vs : List DerVal) → wfList vs = true → ∀ (fuel : Nat),
    (encList vs).length + 1 ≤ fuel → (encList vs).length < sizeBound →
    decodeItems fuel (encList vs) = .ok vs
  | [], _, fuel, _, _ => by simp [encList, decodeItems]
  | x :: xs, hw, fuel, hf, hs => by
    simp only [encList, wfList, Bool.and_eq_true, List.length_append] at *
    have h2 := enc_length_ge_two x
    obtain ⟨f, rfl⟩ : ∃ f, fuel = f + 1 := ⟨fuel - 1, by omega⟩
    have hne : enc x ++ encList xs ≠ [] := by
      intro h
      have h3 : (enc x ++ encList xs).length = 0 := by rw [h]; rfl
      rw [List.length_append] at h3; omega
    rw [decodeItems_cons_eq f _ hne]
    rw [decodePartial_enc x hw.1 f (encList xs) (by omega) (by omega)]
    simp only [List.drop_left]
    rw [decodeItems_encList xs hw.2 f (by omega) (by omega)]
end

end AsyncsshModel.Der
