import AsyncsshModel.Lemmas.ChannelEof
import AsyncsshModel.Lemmas.ChannelLive
/-
  Reachable states of the two-endpoint composition satisfy all invariants at once.
-/
namespace AsyncsshModel.Channel
open AsyncsshModel

/-- what the two sides' configurations must satisfy for the honest-composition theorems: each side reads the
    extended datatypes the other may write (no condition on window or maximum packet size any more) -/
structure Compatible (ca cb : SideCfg) : Prop where
  ab : ∀ t, t ∈ ca.writeTypes → t ∈ cb.readTypes
  ba : ∀ t, t ∈ cb.writeTypes → t ∈ ca.readTypes

structure Good (s : Sys) : Prop where
  inv : Inv s
  tinv : TInv s
  einv : EInv s
  sinv : SInv s
  sig : GInvSig s

theorem good_init (ca cb : SideCfg) (h : Compatible ca cb) : Good (Sys.init ca cb) :=
  ⟨inv_init ca cb, tinv_init ca cb h.ab h.ba, einv_init ca cb, sinv_init ca cb, siginv_init ca cb⟩

theorem good_step (s s' : Sys) (ev : Event) (hg : Good s) (h : s.step ev = .ok s') : Good s' :=
  ⟨inv_step s s' ev hg.inv h, tinv_step s s' ev hg.inv hg.tinv h, einv_step s s' ev hg.inv hg.einv h,
   sinv_step s s' ev hg.inv hg.sinv h, siginv_step s s' ev hg.inv hg.sig h⟩

theorem good_run : ∀ (evs : List Event) (s s' : Sys), Good s → s.run evs = .ok s' → Good s'
  | [], s, s', hg, h => by simp only [Sys.run, Except.ok.injEq] at h; subst h; exact hg
  | e :: es, s, s', hg, h => by
    simp only [Sys.run] at h
    split at h
    · simp at h
    · rename_i s1 hs1
      exact good_run es s1 s' (good_step s s1 e hg hs1) h

theorem run_einv : ∀ (evs : List Event) (s s' : Sys), Inv s → EInv s → s.run evs = .ok s' → EInv s'
  | [], s, s', _, he, h => by simp only [Sys.run, Except.ok.injEq] at h; subst h; exact he
  | e :: es, s, s', hi, he, h => by
    simp only [Sys.run] at h
    split at h
    · simp at h
    · rename_i s1 hs1
      exact run_einv es s1 s' (inv_step s s1 e hi hs1) (einv_step s s1 e hi he hs1) h

theorem run_sinv : ∀ (evs : List Event) (s s' : Sys), Inv s → SInv s → s.run evs = .ok s' → SInv s'
  | [], s, s', _, he, h => by simp only [Sys.run, Except.ok.injEq] at h; subst h; exact he
  | e :: es, s, s', hi, he, h => by
    simp only [Sys.run] at h
    split at h
    · simp at h
    · rename_i s1 hs1
      exact run_sinv es s1 s' (inv_step s s1 e hi hs1) (sinv_step s s1 e hi he hs1) h

theorem run_siginv : ∀ (evs : List Event) (s s' : Sys), Inv s → GInvSig s → s.run evs = .ok s' → GInvSig s'
  | [], s, s', _, he, h => by simp only [Sys.run, Except.ok.injEq] at h; subst h; exact he
  | e :: es, s, s', hi, he, h => by
    simp only [Sys.run] at h
    split at h
    · simp at h
    · rename_i s1 hs1
      exact run_siginv es s1 s' (inv_step s s1 e hi hs1) (siginv_step s s1 e hi he hs1) h

/-- a path from receive stage 0 to send stage 1 contains the EOF message -/
theorem LinkOK_zero_one : ∀ (l : List Msg), LinkOK 0 1 l → Msg.eof ∈ l
  | [], h => by simp [LinkOK] at h
  | .data _ _ :: rest, h => by
    simp only [LinkOK] at h; exact List.mem_cons_of_mem _ (LinkOK_zero_one rest h.2)
  | .adjust _ :: rest, h => by
    simp only [LinkOK] at h; exact List.mem_cons_of_mem _ (LinkOK_zero_one rest h.2)
  | .eof :: _, _ => by simp
  | .close :: _, h => by simp [LinkOK] at h

end AsyncsshModel.Channel
