import AsyncsshModel.Lemmas.SftpIOSparse
import AsyncsshModel.Lemmas.SftpIOFile
/-
  Helper lemmas for C12, part 5: the writer/copier with the full set of environment events (`WEvX`, `cev`),
  the transfer part of `SFTPClientFile.read` (`fread`), and consecutive writes of a file object.
-/
namespace AsyncsshModel.SftpIO
open AsyncsshModel

/-! ### writer: with both repairs every environment event is one of the three `WEv` -/

theorem wstepX_fixed (bs mr start : Nat) (data : Bytes) (s : GState) (e : WEvX) :
    wstepX true true bs mr start data s e = wstep bs mr start data s (wevX e) := by
  cases e with
  | base e => rfl
  | eof r => simp [wstepX, wevX, wstep, wev]
  | short r n => simp [wstepX, wevX]

theorem wrunX_fixed (bs mr start : Nat) (data file0 : Bytes) (evs : List WEvX) :
    wrunX true true bs mr start data file0 evs = wrun bs mr start data file0 (evs.map wevX) := by
  simp only [wrunX, wrun, List.foldl_map]
  congr 1
  funext s e
  exact wstepX_fixed bs mr start data s e

/-! ### copier: a server that is truthful about the *source*; what the destination answers is not constrained -/

/-- DATA replies carry bytes of the source at the requested offset, at most as many as requested; nothing is
    assumed about EOF statuses (they come from the destination's write) -/
def TruthfulData (src : Bytes) : Ev → Prop
  | .complete r (.data d) => d.length ≤ r.size ∧ ∀ i, i < d.length → src[r.off + i]? = d[i]?
  | _ => True

theorem map_cev_truthful (src : Bytes) (evs : List Ev) (h : ∀ e ∈ evs, TruthfulData src e) :
    ∀ e ∈ evs.map (cev true), Truthful src e := by
  intro e he
  obtain ⟨e0, he0, rfl⟩ := List.mem_map.mp he
  have := h e0 he0
  cases e0 with
  | complete r rep =>
    cases rep with
    | data d => exact this
    | eof => simp [cev, Truthful]
    | err => trivial
  | endBatch => trivial

theorem map_cev_eofOnly (src : Bytes) (b : Bool) (evs : List Ev) (h : ∀ e ∈ evs, EofOnly src e) :
    ∀ e ∈ evs.map (cev b), EofOnly src e := by
  intro e he
  obtain ⟨e0, he0, rfl⟩ := List.mem_map.mp he
  have := h e0 he0
  cases e0 with
  | complete r rep =>
    cases rep with
    | data d => exact this
    | eof => cases b <;> simp [cev, EofOnly]
    | err => trivial
  | endBatch => trivial

/-! ### consecutive writes -/

theorem writeAt_writeAt_adjacent (c : Bytes) (p : Nat) (a b : Bytes) (ha : a ≠ []) :
    writeAt (writeAt c p a) (p + a.length) b = writeAt c p (a ++ b) := by
  have hapos : 0 < a.length := List.length_pos_iff.mpr ha
  apply List.ext_getElem?
  intro q
  rw [getElem?_writeAt, getElem?_writeAt, getElem?_writeAt, length_writeAt, List.length_append]
  by_cases h1 : q < p
  · have h2 : q < p + a.length := by omega
    have h3 : q < max c.length (p + a.length) := by omega
    simp only [h1, h2, h3, if_true]
  · by_cases h2 : q < p + a.length
    · have h3 : q < p + (a.length + b.length) := by omega
      have h4 : q < max c.length (p + a.length) := by omega
      simp only [h1, h2, h3, h4, if_true, if_false]
      rw [List.getElem?_append_left (by omega)]
    · simp only [h1, h2, if_false]
      by_cases h3 : q < p + a.length + b.length
      · have h4 : q < p + (a.length + b.length) := by omega
        simp only [h3, h4, if_true]
        rw [List.getElem?_append_right (by omega)]
        congr 1; omega
      · have h4 : ¬ q < p + (a.length + b.length) := by omega
        simp only [h3, h4, if_false]

theorem pwrite_pwrite_adjacent (c : Bytes) (p : Nat) (a b : Bytes) :
    pwrite (pwrite c p a) (p + a.length) b = pwrite c p (a ++ b) := by
  by_cases ha : a = []
  · subst ha; simp [pwrite]
  · by_cases hb : b = []
    · subst hb; simp [pwrite]
    · have hab : a ++ b ≠ [] := by simp [ha]
      simp only [pwrite, List.isEmpty_iff, ha, hb, hab, if_false]
      exact writeAt_writeAt_adjacent c p a b ha

/-- `write(d)` without an explicit offset, for each `d` of a list in turn -/
def writeOps (ds : List Bytes) : List FOp := ds.map fun d => FOp.write d none

theorem frun_writeOps (ds : List Bytes) : ∀ (w : FWorld) (p : Nat), w.obj.appending = false →
    w.obj.offset = some (p : Int) →
    (frun w (writeOps ds)).1.content = pwrite w.content p ds.flatten ∧
    (frun w (writeOps ds)).1.obj.offset = some ((p + ds.flatten.length : Nat) : Int) ∧
    (frun w (writeOps ds)).2 = ds.map fun d => FRes.num d.length := by
  induction ds with
  | nil =>
    intro w p _ hoff
    simp [writeOps, frun, pwrite, hoff]
  | cons d t ih =>
    intro w p happ hoff
    have hstep : fstep w (.write d none) =
        ({ content := pwrite w.content p d,
           obj := { w.obj with offset := some ((p : Int) + d.length) } }, .num d.length) := by
      have hp : ¬ ((p : Int) < 0) := by omega
      simp [fstep, hoff, happ, hp]
    have hoff' : (some ((p : Int) + d.length) : Option Int) = some ((p + d.length : Nat) : Int) := by
      congr 1
    obtain ⟨h1, h2, h3⟩ := ih
      { content := pwrite w.content p d, obj := { w.obj with offset := some ((p : Int) + d.length) } }
      (p + d.length) happ hoff'
    simp only [writeOps, List.map_cons, frun, hstep] at h1 h2 h3 ⊢
    refine ⟨?_, ?_, ?_⟩
    · rw [h1, pwrite_pwrite_adjacent, List.flatten_cons]
    · rw [h2, List.flatten_cons, List.length_append, Nat.add_assoc]
    · rw [h3]

end AsyncsshModel.SftpIO
