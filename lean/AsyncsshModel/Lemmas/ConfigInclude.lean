import AsyncsshModel.Lemmas.ConfigEval
/-
  C18 helper lemmas: the specification of the `Match` criterion loop, monotonicity of parsing in the
  include fuel, and the inlining of `Include`.
-/
namespace AsyncsshModel.Config
open AsyncsshModel

/-! ### `Match`: the loop computes the conjunction of its criteria -/

/-- the criteria of a `Match` line as (negated, truth value) pairs, together with the `_final` flag after
    the line; errors are exactly those of `matchLoop` -/
def matchSpec (cfg : Table) (env : Env) (st : St) : Option Bool → List Bytes → Except Err (List (Bool × Bool) × Option Bool)
  | fin, [] => .ok ([], fin)
  | fin, a :: rest =>
    match critHead cfg env st fin a with
    | .error e => .error e
    | .ok (negated, .flag res, fin') =>
      (matchSpec cfg env st fin' rest).map fun r => ((negated, res) :: r.1, r.2)
    | .ok (negated, .value m, fin') =>
      match rest with
      | [] => .error .parse
      | arg :: rest' =>
        (matchSpec cfg env st fin' rest').map fun r => ((negated, critValue cfg env st m arg) :: r.1, r.2)

/-- a criterion holds when its truth value differs from its negation flag -/
def critHolds (c : Bool × Bool) : Bool := c.2 != c.1

theorem Except.map_map' {ε α β γ : Type} (e : Except ε α) (f : α → β) (g : β → γ) :
    (e.map f).map g = e.map (g ∘ f) := by
  cases e <;> rfl

theorem matchLoop_spec_aux (cfg : Table) (env : Env) (st : St) :
    ∀ (n : Nat) (args : List Bytes), args.length ≤ n → ∀ (b : Bool) (fin : Option Bool),
      matchLoop cfg env st b fin args =
        (matchSpec cfg env st fin args).map fun r => (b && r.1.all critHolds, r.2) := by
  intro n
  induction n with
  | zero =>
    intro args h b fin
    have : args = [] := List.length_eq_zero_iff.mp (by omega)
    subst this
    simp [matchLoop, matchSpec, Except.map]
  | succ n ih =>
    intro args h b fin
    cases args with
    | nil => simp [matchLoop, matchSpec, Except.map]
    | cons a rest =>
      have hr : rest.length ≤ n := by simp at h; omega
      rw [matchLoop, matchSpec]
      cases hc : critHead cfg env st fin a with
      | error e => simp [Except.map]
      | ok p =>
        obtain ⟨negated, kind, fin'⟩ := p
        cases kind with
        | flag res =>
          simp only []
          rw [ih rest hr, Except.map_map']
          congr 1; funext r
          simp [critHolds, Bool.and_assoc]
        | value m =>
          simp only []
          cases rest with
          | nil => simp [Except.map]
          | cons arg rest' =>
            have hr' : rest'.length ≤ n := by simp at hr; omega
            simp only []
            rw [ih rest' hr', Except.map_map']
            congr 1; funext r
            simp [critHolds, Bool.and_assoc]

/-- **the `Match` loop is the conjunction of its criteria**: started with block state `b`, it ends with
    `b ∧ (every criterion holds)`, a criterion holding when its truth value differs from its `!` flag -/
theorem matchLoop_spec (cfg : Table) (env : Env) (st : St) (args : List Bytes) (b : Bool) (fin : Option Bool) :
    matchLoop cfg env st b fin args =
      (matchSpec cfg env st fin args).map fun r => (b && r.1.all critHolds, r.2) :=
  matchLoop_spec_aux cfg env st args.length args (Nat.le_refl _) b fin


/-! ### monotonicity in the include fuel -/

theorem foldlM_mono {α σ : Type} (f f' : σ → α → Except Err σ)
    (h : ∀ s a r, f s a = .ok r → f' s a = .ok r) :
    ∀ (l : List α) (s r : σ), l.foldlM f s = .ok r → l.foldlM f' s = .ok r := by
  intro l
  induction l with
  | nil => intro s r hr; simpa [List.foldlM] using hr
  | cons a rest ih =>
    intro s r hr
    simp only [List.foldlM, bind, Except.bind] at hr ⊢
    cases hfa : f s a with
    | error e => simp [hfa] at hr
    | ok s1 =>
      simp only [hfa] at hr
      rw [h s a s1 hfa]
      exact ih s1 r hr

theorem runHandler_mono (cfg : Table) (env : Env) (rec rec' : St → Bytes → Except Err St)
    (hext : ∀ st t r, rec st t = .ok r → rec' st t = .ok r)
    (st : St) (opt : Bytes) (k : Kind) (args : List Bytes) (r : St × List Bytes)
    (h : runHandler cfg env rec st opt k args = .ok r) : runHandler cfg env rec' st opt k args = .ok r := by
  cases k with
  | includeFile =>
    simp only [runHandler] at h ⊢
    cases hf : (args.flatMap (includeTargets env)).foldlM rec st with
    | error e => simp [hf] at h
    | ok s1 =>
      simp only [hf] at h
      rw [foldlM_mono rec rec' hext _ _ _ hf]
      exact h
  | _ => simpa [runHandler] using h

theorem handleLine_mono (cfg : Table) (env : Env) (rec rec' : St → Bytes → Except Err St)
    (hext : ∀ st t r, rec st t = .ok r → rec' st t = .ok r)
    (st : St) (line : Bytes) (r : St) (h : handleLine cfg env rec st line = .ok r) :
    handleLine cfg env rec' st line = .ok r := by
  unfold handleLine at h ⊢
  cases hc : lineCmd cfg st.matching line with
  | error e => simp [hc] at h
  | ok c =>
    cases c with
    | none => simpa [hc] using h
    | some c =>
      obtain ⟨opt, k, args⟩ := c
      simp only [hc] at h ⊢
      cases hr : runHandler cfg env rec st opt k args with
      | error e => simp [hr] at h
      | ok p =>
        rw [runHandler_mono cfg env rec rec' hext st opt k args p hr]
        simpa [hr] using h

/-- more include fuel never changes a successful parse -/
theorem parseText_mono (cfg : Table) (env : Env) :
    ∀ (f : Nat) (st : St) (text : Bytes) (r : St),
      parseText cfg env f st text = .ok r → parseText cfg env (f + 1) st text = .ok r := by
  intro f
  induction f with
  | zero => intro st text r h; simp [parseText] at h
  | succ f ih =>
    intro st text r h
    rw [parseText] at h ⊢
    cases hf : (fileLines text).foldlM (handleLine cfg env (parseText cfg env f)) (prologue st) with
    | error e => simp [hf] at h
    | ok s1 =>
      simp only [hf] at h
      have := foldlM_mono _ _
        (fun s a r hr => handleLine_mono cfg env (parseText cfg env f) (parseText cfg env (f + 1)) ih s a r hr)
        _ _ _ hf
      rw [this]
      exact h

/-! ### `Include` is inlining -/

/-- run a list of lines from a state -/
def runLines (cfg : Table) (env : Env) (rec : St → Bytes → Except Err St) (st : St) (lines : List Bytes) :
    Except Err St :=
  lines.foldlM (handleLine cfg env rec) st

theorem foldlM_append_ok {α σ : Type} (f : σ → α → Except Err σ) (l1 l2 : List α) (s s1 : σ)
    (h : l1.foldlM f s = .ok s1) : (l1 ++ l2).foldlM f s = l2.foldlM f s1 := by
  rw [List.foldlM_append]
  simp [bind, Except.bind, h]

/-- the line `Match all` -/
def matchAllLine : Bytes := [77, 97, 116, 99, 104, 32, 97, 108, 108]
def oMatch : Bytes := [77, 97, 116, 99, 104]

/-- a table reads the line `Match all` as a call of the `Match` handler with the argument `all` -/
def ReadsMatchAll (cfg : Table) : Prop :=
  ∀ b, lineCmd cfg b matchAllLine = .ok (some (oMatch, Kind.matchBlock, [sAll]))

theorem handleLine_matchAll (cfg : Table) (env : Env) (rec : St → Bytes → Except Err St) (st : St)
    (h : ReadsMatchAll cfg) : handleLine cfg env rec st matchAllLine = .ok { st with matching := true } := by
  unfold handleLine
  rw [h st.matching]
  simp [runHandler, matchLoop, critHead, lower, lowerByte, sAll, sFinal, sCanonical, chBang]

/-- **`Include` reads the file in place.**  Let an `Include` line resolve to one file `text`, executed while
    parsing at include depth `f+1`.  If the lines of the file, run from the start state with the block
    state and token table reset (`prologue`), end in a state `s` on which the end-of-file expansion pass
    changes no option (`hnoexp`: nothing left to expand), then executing the `Include` gives the same options,
    log, `_final` flag and block state as running, in the including file itself, the lines of the file
    followed by `Match all`. -/
theorem include_inlined (cfg : Table) (env : Env) (f : Nat) (st : St) (opt : Bytes) (args : List Bytes)
    (text : Bytes) (r : St) (rest : List Bytes)
    (hmatch : ReadsMatchAll cfg)
    (htext : args.flatMap (includeTargets env) = [text])
    (hinc : runHandler cfg env (parseText cfg env (f + 1)) st opt .includeFile args = .ok (r, rest))
    (hnoexp : ∀ s, runLines cfg env (parseText cfg env f) (prologue st) (fileLines text) = .ok s →
      ∀ toks, expandOpts env.inherited toks env.environ cfg.percentExpand s.opts = .ok s.opts) :
    ∃ r', runLines cfg env (parseText cfg env (f + 1)) (prologue st) (fileLines text ++ [matchAllLine]) = .ok r' ∧
      r'.opts = r.opts ∧ r'.log = r.log ∧ r'.final = r.final ∧ r'.matching = r.matching := by
  simp only [runHandler, htext, List.foldlM, bind, Except.bind, pure, Except.pure] at hinc
  cases hp : parseText cfg env (f + 1) st text with
  | error e => simp [hp] at hinc
  | ok s2 =>
    simp [hp] at hinc
    rw [parseText] at hp
    cases hl : (fileLines text).foldlM (handleLine cfg env (parseText cfg env f)) (prologue st) with
    | error e => simp [hl] at hp
    | ok s =>
      simp only [hl] at hp
      have hne := hnoexp s hl
      -- the epilogue only changes the token table
      unfold epilogue at hp
      cases ht : setTokens cfg env s with
      | error e => simp [ht] at hp
      | ok nt =>
        simp only [ht, hne] at hp
        simp at hp
        -- the inlined run
        have hup := foldlM_mono _ _
          (fun s a r hr => handleLine_mono cfg env (parseText cfg env f) (parseText cfg env (f + 1))
            (parseText_mono cfg env f) s a r hr) _ _ _ hl
        refine ⟨{ s with matching := true }, ?_, ?_, ?_, ?_, ?_⟩
        · unfold runLines
          rw [foldlM_append_ok _ _ _ _ _ hup]
          simp only [List.foldlM, bind, Except.bind, pure, Except.pure]
          rw [handleLine_matchAll cfg env _ s hmatch]
        · rw [← hinc.1, ← hp]
        · rw [← hinc.1, ← hp]
        · rw [← hinc.1, ← hp]
        · rw [← hinc.1]

end AsyncsshModel.Config
