import AsyncsshModel.Model.ChannelCodec
import AsyncsshModel.Lemmas.Channel
/-
  The UTF-8 text layer: chunk independence of the incremental decoder, round trip with the encoder for every
  Unicode scalar value, and the typed view (text per datatype is a function of the tagged byte stream).
-/
namespace AsyncsshModel.ChannelCodec
open AsyncsshModel AsyncsshModel.Channel

theorem decode_append (st : St) (a b : Bytes) :
    decode st (a ++ b) =
      match decode st a with
      | none => none
      | some (st1, o1) =>
        match decode st1 b with
        | none => none
        | some (st2, o2) => some (st2, o1 ++ o2) := by
  induction a generalizing st with
  | nil =>
    simp only [List.nil_append, decode]
    cases decode st b with
    | none => rfl
    | some r => simp
  | cons x rest ih =>
    simp only [List.cons_append, decode]
    cases hs : stepByte st x.toNat with
    | none => rfl
    | some r =>
      obtain ⟨st1, o⟩ := r
      simp only
      rw [ih st1]
      cases decode st1 rest with
      | none => rfl
      | some r1 =>
        obtain ⟨st2, o1⟩ := r1
        simp only
        cases decode st2 b with
        | none => rfl
        | some r2 => simp [List.append_assoc]

/-- all code points produced by a list of `data_received` callbacks, in order -/
def textOf (outs : List (List Nat × DType)) : List Nat := outs.flatMap (fun p => p.1)
/-- all bytes of a list of chunks -/
def bytesOf (b : Buf) : Bytes := b.flatMap (fun p => p.1)

/-- **Chunk independence**: feeding the chunks one by one yields, concatenated, exactly what feeding the
    concatenation yields — and fails iff that fails. -/
theorem decodeChunks_flatten (st : St) (b : Buf) :
    (decodeChunks st b).map (fun r => (r.1, textOf r.2)) = decode st (bytesOf b) := by
  induction b generalizing st with
  | nil => simp [decodeChunks, decode, bytesOf, textOf]
  | cons p rest ih =>
    obtain ⟨bs, dt⟩ := p
    simp only [decodeChunks, bytesOf, List.flatMap_cons]
    rw [decode_append]
    cases hd : decode st bs with
    | none => rfl
    | some r =>
      obtain ⟨st1, cps⟩ := r
      simp only
      have := ih st1
      simp only [bytesOf] at this
      rw [← this]
      cases decodeChunks st1 rest with
      | none => rfl
      | some r2 => simp [textOf]

theorem toNat_ofNat_lt (n : Nat) (h : n < 256) : (UInt8.ofNat n).toNat = n := by
  simp [UInt8.toNat_ofNat']
  omega

/-! ### round trip, on byte values -/

/-- `decode` on byte values -/
def decodeN (st : St) : List Nat → Option (St × List Nat)
  | [] => some (st, [])
  | b :: rest =>
    match stepByte st b with
    | none => none
    | some (st1, o) =>
      match decodeN st1 rest with
      | none => none
      | some (st2, os) => some (st2, o.toList ++ os)

theorem decode_eq_decodeN (st : St) (bs : Bytes) : decode st bs = decodeN st (bs.map UInt8.toNat) := by
  induction bs generalizing st with
  | nil => rfl
  | cons b rest ih =>
    simp only [decode, List.map_cons, decodeN]
    cases stepByte st b.toNat with
    | none => rfl
    | some r =>
      obtain ⟨st1, o⟩ := r
      simp only
      rw [ih st1]
      cases decodeN st1 (List.map UInt8.toNat rest) <;> rfl

theorem seqLen_1 {b : Nat} (h : b < 0x80) : seqLen b = 1 := by unfold seqLen; simp [h]
theorem seqLen_2 {b : Nat} (h : 0xC2 ≤ b ∧ b ≤ 0xDF) : seqLen b = 2 := by
  unfold seqLen; split
  · omega
  · simp [h]
theorem seqLen_3 {b : Nat} (h : 0xE0 ≤ b ∧ b ≤ 0xEF) : seqLen b = 3 := by
  unfold seqLen; split
  · omega
  · split
    · omega
    · simp [h]
theorem seqLen_4 {b : Nat} (h : 0xF0 ≤ b ∧ b ≤ 0xF4) : seqLen b = 4 := by
  unfold seqLen; split
  · omega
  · split
    · omega
    · split
      · omega
      · simp [h]

theorem secondOk_iff (b0 b : Nat) : secondOk b0 b = true ↔
    (b0 = 0xE0 ∧ 0xA0 ≤ b ∧ b ≤ 0xBF) ∨ (b0 = 0xF0 ∧ 0x90 ≤ b ∧ b ≤ 0xBF) ∨
    (b0 = 0xF4 ∧ 0x80 ≤ b ∧ b ≤ 0x8F) ∨
    (b0 ≠ 0xE0 ∧ b0 ≠ 0xF0 ∧ b0 ≠ 0xF4 ∧ 0x80 ≤ b ∧ b ≤ 0xBF) := by
  unfold secondOk isCont
  split
  · rename_i h; simp only [decide_eq_true_eq]; omega
  · split
    · rename_i h; simp only [decide_eq_true_eq]; omega
    · split
      · rename_i h; simp only [decide_eq_true_eq]; omega
      · simp only [decide_eq_true_eq]; omega

theorem isCont_iff (b : Nat) : isCont b = true ↔ 0x80 ≤ b ∧ b ≤ 0xBF := by
  unfold isCont; simp

theorem decodeN_encCpN_1 (cp : Nat) (h : cp < 0x80) : decodeN .s0 [cp] = some (.s0, [cp]) := by
  simp [decodeN, stepByte, seqLen_1 h]

theorem decodeN_2 (b0 b1 : Nat) (h0 : 0xC2 ≤ b0 ∧ b0 ≤ 0xDF) (h1 : 0x80 ≤ b1 ∧ b1 ≤ 0xBF) :
    decodeN .s0 [b0, b1] = some (.s0, [(b0 - 0xC0) * 64 + (b1 - 0x80)]) := by
  have hs : secondOk b0 b1 = true := (secondOk_iff b0 b1).mpr (by omega)
  simp [decodeN, stepByte, seqLen_2 h0, hs]

theorem decodeN_3 (b0 b1 b2 : Nat) (h0 : 0xE0 ≤ b0 ∧ b0 ≤ 0xEF) (h1 : secondOk b0 b1 = true)
    (hs : ¬ (b0 = 0xED ∧ 0xA0 ≤ b1)) (h2 : 0x80 ≤ b2 ∧ b2 ≤ 0xBF) :
    decodeN .s0 [b0, b1, b2] = some (.s0, [(b0 - 0xE0) * 4096 + (b1 - 0x80) * 64 + (b2 - 0x80)]) := by
  have hc : isCont b2 = true := (isCont_iff b2).mpr h2
  have hsp : surrogatePrefix b0 b1 = false := by simp only [surrogatePrefix, decide_eq_false_iff_not]; exact hs
  simp [decodeN, stepByte, seqLen_3 h0, h1, hc, hsp]

theorem decodeN_4 (b0 b1 b2 b3 : Nat) (h0 : 0xF0 ≤ b0 ∧ b0 ≤ 0xF4) (h1 : secondOk b0 b1 = true)
    (h2 : 0x80 ≤ b2 ∧ b2 ≤ 0xBF) (h3 : 0x80 ≤ b3 ∧ b3 ≤ 0xBF) :
    decodeN .s0 [b0, b1, b2, b3] =
      some (.s0, [(b0 - 0xF0) * 262144 + (b1 - 0x80) * 4096 + (b2 - 0x80) * 64 + (b3 - 0x80)]) := by
  have hc2 : isCont b2 = true := (isCont_iff b2).mpr h2
  have hc3 : isCont b3 = true := (isCont_iff b3).mpr h3
  have hsp : surrogatePrefix b0 b1 = false := by simp only [surrogatePrefix, decide_eq_false_iff_not]; omega
  simp [decodeN, stepByte, seqLen_4 h0, h1, hc2, hc3, hsp]

/-- **Round trip**: the decoder inverts UTF-8 encoding of every Unicode scalar value and returns to the
    initial state (so `decode(b'', True)` succeeds). -/
theorem decode_encCp (cp : Nat) (h : isScalar cp) : decode .s0 (encCp cp) = some (.s0, [cp]) := by
  unfold isScalar at h
  rw [decode_eq_decodeN]
  unfold encCp
  by_cases h1 : cp < 0x80
  · simp only [h1, if_true, List.map_cons, List.map_nil]
    rw [toNat_ofNat_lt _ (by omega)]
    exact decodeN_encCpN_1 cp h1
  · by_cases h2 : cp < 0x800
    · simp only [h1, h2, if_true, if_false, List.map_cons, List.map_nil]
      rw [toNat_ofNat_lt _ (by omega), toNat_ofNat_lt _ (by omega)]
      rw [decodeN_2 _ _ (by omega) (by omega)]
      simp only [Option.some.injEq, Prod.mk.injEq, List.cons.injEq, true_and, and_true]
      omega
    · by_cases h3 : cp < 0x10000
      · simp only [h1, h2, h3, if_true, if_false, List.map_cons, List.map_nil]
        rw [toNat_ofNat_lt _ (by omega), toNat_ofNat_lt _ (by omega), toNat_ofNat_lt _ (by omega)]
        rw [decodeN_3 _ _ _ (by omega) ((secondOk_iff _ _).mpr (by omega)) (by omega) (by omega)]
        simp only [Option.some.injEq, Prod.mk.injEq, List.cons.injEq, true_and, and_true]
        omega
      · simp only [h1, h2, h3, if_true, if_false, List.map_cons, List.map_nil]
        rw [toNat_ofNat_lt _ (by omega), toNat_ofNat_lt _ (by omega), toNat_ofNat_lt _ (by omega),
          toNat_ofNat_lt _ (by omega)]
        rw [decodeN_4 _ _ _ _ (by omega) ((secondOk_iff _ _).mpr (by omega)) (by omega) (by omega)]
        simp only [Option.some.injEq, Prod.mk.injEq, List.cons.injEq, true_and, and_true]
        omega

theorem decode_encStr (cps : List Nat) (h : ∀ cp ∈ cps, isScalar cp) : decode .s0 (encStr cps) = some (.s0, cps) := by
  induction cps with
  | nil => rfl
  | cons cp rest ih =>
    have h1 : encStr (cp :: rest) = encCp cp ++ encStr rest := by simp [encStr]
    rw [h1, decode_append, decode_encCp cp (h cp (by simp))]
    simp only
    rw [ih (fun c hc => h c (List.mem_cons_of_mem _ hc))]
    simp

/-! ### the typed view: text per datatype depends only on the tagged byte stream -/

/-- code points of a list of callbacks, each tagged with the callback's datatype -/
def tagCps (outs : List (List Nat × DType)) : List (Nat × DType) :=
  outs.flatMap (fun p => p.1.map (fun cp => (cp, p.2)))

/-- the decoder over a tagged byte stream: a completed code point carries the tag of its last byte -/
def decodeTagged : St → List (UInt8 × DType) → Option (St × List (Nat × DType))
  | st, [] => some (st, [])
  | st, (b, dt) :: rest =>
    match stepByte st b.toNat with
    | none => none
    | some (st1, o) =>
      match decodeTagged st1 rest with
      | none => none
      | some (st2, os) => some (st2, o.toList.map (fun cp => (cp, dt)) ++ os)

theorem decodeTagged_append (st : St) (a b : List (UInt8 × DType)) :
    decodeTagged st (a ++ b) =
      match decodeTagged st a with
      | none => none
      | some (st1, o1) =>
        match decodeTagged st1 b with
        | none => none
        | some (st2, o2) => some (st2, o1 ++ o2) := by
  induction a generalizing st with
  | nil =>
    simp only [List.nil_append, decodeTagged]
    cases decodeTagged st b with
    | none => rfl
    | some r => simp
  | cons x rest ih =>
    obtain ⟨x, dt⟩ := x
    simp only [List.cons_append, decodeTagged]
    cases hs : stepByte st x.toNat with
    | none => rfl
    | some r =>
      obtain ⟨st1, o⟩ := r
      simp only
      rw [ih st1]
      cases decodeTagged st1 rest with
      | none => rfl
      | some r1 =>
        obtain ⟨st2, o1⟩ := r1
        simp only
        cases decodeTagged st2 b with
        | none => rfl
        | some r2 => simp [List.append_assoc]

theorem decodeTagged_uniform (st : St) (bs : Bytes) (dt : DType) :
    decodeTagged st (bs.map (fun b => (b, dt))) =
      (decode st bs).map (fun r => (r.1, r.2.map (fun cp => (cp, dt)))) := by
  induction bs generalizing st with
  | nil => rfl
  | cons b rest ih =>
    simp only [List.map_cons, decodeTagged, decode]
    cases stepByte st b.toNat with
    | none => rfl
    | some r =>
      obtain ⟨st1, o⟩ := r
      simp only
      rw [ih st1]
      cases decode st1 rest with
      | none => rfl
      | some r1 => simp

/-- **Packet boundaries do not matter for text, per datatype**: the callbacks' text, tagged with the callbacks'
    datatypes, is a function of the tagged byte stream alone (the quantity the stream invariant preserves). -/
theorem decodeChunks_tagged (st : St) (b : Buf) :
    (decodeChunks st b).map (fun r => (r.1, tagCps r.2)) = decodeTagged st (tag b) := by
  induction b generalizing st with
  | nil => rfl
  | cons p rest ih =>
    obtain ⟨bs, dt⟩ := p
    simp only [decodeChunks, tag_cons]
    rw [decodeTagged_append, decodeTagged_uniform]
    cases decode st bs with
    | none => rfl
    | some r =>
      obtain ⟨st1, cps⟩ := r
      simp only [Option.map_some]
      rw [← ih st1]
      cases decodeChunks st1 rest with
      | none => rfl
      | some r2 => simp [tagCps]

/-- what whole-string writes put into the tagged byte stream decodes to exactly the strings written, with
    their datatypes, and leaves the decoder in its initial state -/
theorem decodeTagged_writes (writes : List (List Nat × DType)) (h : ∀ w ∈ writes, ∀ cp ∈ w.1, isScalar cp) :
    decodeTagged .s0 (tag (writes.map (fun w => (encStr w.1, w.2)))) = some (.s0, tagCps writes) := by
  induction writes with
  | nil => rfl
  | cons w rest ih =>
    obtain ⟨cps, dt⟩ := w
    simp only [List.map_cons, tag_cons]
    rw [decodeTagged_append, decodeTagged_uniform, decode_encStr cps (h (cps, dt) (by simp))]
    simp only [Option.map_some]
    rw [ih (fun w hw => h w (List.mem_cons_of_mem _ hw))]
    simp [tagCps]

end AsyncsshModel.ChannelCodec
