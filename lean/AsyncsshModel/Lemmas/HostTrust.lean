import AsyncsshModel.Model.HostTrust
/-
  Helper lemmas for C04: the acceptance decision.
-/
namespace AsyncsshModel.HostTrust

open AsyncsshModel.Gen

theorem runChecks_ok_iff (c : Cert) (want : Int) (now4 : Nat) (pr : Option String) (l : List Nat) :
    runChecks c want now4 pr l = .ok () ↔ ∀ chk ∈ l, checkFails c want now4 pr chk = none := by
  induction l with
  | nil => simp [runChecks]
  | cons a l ih =>
    simp only [runChecks, List.mem_cons, forall_eq_or_imp]
    cases h : checkFails c want now4 pr a with
    | none => simp [ih]
    | some r => simp

theorem runChecks_error_mem (c : Cert) (want : Int) (now4 : Nat) (pr : Option String) (l : List Nat) (r : Reject) :
    runChecks c want now4 pr l = .error r → ∃ chk ∈ l, checkFails c want now4 pr chk = some r := by
  induction l with
  | nil => simp [runChecks]
  | cons a l ih =>
    simp only [runChecks, List.mem_cons]
    cases h : checkFails c want now4 pr a with
    | none =>
      intro h2
      obtain ⟨chk, hm, hc⟩ := ih h2
      exact ⟨chk, Or.inr hm, hc⟩
    | some r' =>
      intro h2
      have : r' = r := by simpa using h2
      exact ⟨a, Or.inl rfl, by rw [h, this]⟩

theorem validatePlain_ok_iff (t : Trust) (app : App) (host addr : String) (port : Nat) (k k' : KeyId) :
    validatePlain (some t) app host addr port k = .ok k' ↔
      (k' = k ∧ k ∉ t.revoked ∧ (k ∈ t.trusted ∨ app.hostKeyOk host addr port k = true)) := by
  unfold validatePlain
  by_cases hr : k ∈ t.revoked
  · simp [hr]
  · by_cases ht : k ∈ t.trusted
    · simp [hr, ht]
      exact eq_comm
    · cases hc : app.hostKeyOk host addr port k
      · simp [hr, ht]
      · simp [hr, ht]
        exact eq_comm

theorem revocationFails_none_iff (t : Trust) (c : Cert) (l : List Nat) :
    revocationFails t c l = none ↔ ((0 ∈ l → c.key ∉ t.revoked) ∧ (1 ∈ l → c.ca ∉ t.revoked)) := by
  induction l with
  | nil => simp [revocationFails]
  | cons a l ih =>
    unfold revocationFails
    by_cases h0 : a = 0 ∧ t.revoked.contains c.key = true
    · simp only [h0, and_self, if_true]
      obtain ⟨ha, hk⟩ := h0
      have hk' : c.key ∈ t.revoked := by simpa using hk
      simp [hk']
    · simp only [h0, if_false]
      by_cases h1 : a = 1 ∧ t.revoked.contains c.ca = true
      · simp only [h1, and_self, if_true]
        obtain ⟨ha, hk⟩ := h1
        have hk' : c.ca ∈ t.revoked := by simpa using hk
        simp [hk']
      · simp only [h1, if_false, ih, List.mem_cons]
        constructor
        · rintro ⟨i0, i1⟩
          refine ⟨?_, ?_⟩
          · rintro (h | h)
            · intro hk
              exact h0 ⟨h.symm, by simpa using hk⟩
            · exact i0 h
          · rintro (h | h)
            · intro hk
              exact h1 ⟨h.symm, by simpa using hk⟩
            · exact i1 h
        · rintro ⟨i0, i1⟩
          exact ⟨fun h => i0 (Or.inr h), fun h => i1 (Or.inr h)⟩

end AsyncsshModel.HostTrust
