import AsyncsshModel.Model.SftpAttrs
import AsyncsshModel.Lemmas.SftpWire
/-
  Helper lemmas for the SFTP attribute codec: every attribute flag is a distinct single bit (re-proved
  against the generated constants), which bit `encode` sets when, and a small calculus of decoding
  stages (`Good st seg upd`: stage `st` consumes exactly the segment `seg` and applies `upd`).
-/
namespace AsyncsshModel.Sftp
open AsyncsshModel.Gen.C14

theorem c_SIZE : FILEXFER_ATTR_SIZE = 2^0 := by decide
theorem c_UIDGID : FILEXFER_ATTR_UIDGID = 2^1 := by decide
theorem c_PERMISSIONS : FILEXFER_ATTR_PERMISSIONS = 2^2 := by decide
theorem c_ACMODTIME : FILEXFER_ATTR_ACMODTIME = 2^3 := by decide
theorem c_ACCESSTIME : FILEXFER_ATTR_ACCESSTIME = 2^3 := by decide
theorem c_CREATETIME : FILEXFER_ATTR_CREATETIME = 2^4 := by decide
theorem c_MODIFYTIME : FILEXFER_ATTR_MODIFYTIME = 2^5 := by decide
theorem c_ACL : FILEXFER_ATTR_ACL = 2^6 := by decide
theorem c_OWNERGROUP : FILEXFER_ATTR_OWNERGROUP = 2^7 := by decide
theorem c_SUBSECOND : FILEXFER_ATTR_SUBSECOND_TIMES = 2^8 := by decide
theorem c_BITS : FILEXFER_ATTR_BITS = 2^9 := by decide
theorem c_ALLOC : FILEXFER_ATTR_ALLOCATION_SIZE = 2^10 := by decide
theorem c_TEXT_HINT : FILEXFER_ATTR_TEXT_HINT = 2^11 := by decide
theorem c_MIME : FILEXFER_ATTR_MIME_TYPE = 2^12 := by decide
theorem c_LINK_COUNT : FILEXFER_ATTR_LINK_COUNT = 2^13 := by decide
theorem c_UNTRANS : FILEXFER_ATTR_UNTRANSLATED_NAME = 2^14 := by decide
theorem c_CTIME : FILEXFER_ATTR_CTIME = 2^15 := by decide
theorem c_EXTENDED : FILEXFER_ATTR_EXTENDED = 2^31 := by decide

/-- which bit of the flags word `encode` sets, and when -/
def flagBit (fixed : Bool) (v : Nat) (a : Attrs) (k : Nat) : Bool :=
  (a.size.isSome && decide (0 = k)) ||
  (allocGate fixed v && a.allocSize.isSome && decide (10 = k)) ||
  (if v = 3 then (a.uid.isSome && a.gid.isSome) && decide (1 = k) else cOwnerGroup a && decide (7 = k)) ||
  (a.permissions.isSome && decide (2 = k)) ||
  (if v = 3 then (a.atime.isSome && a.mtime.isSome) && decide (3 = k)
   else (subsecond a && decide (8 = k)) || (a.atime.isSome && decide (3 = k)) ||
        (a.crtime.isSome && decide (4 = k)) || (a.mtime.isSome && decide (5 = k)) ||
        (decide (v ≥ 6) && a.ctime.isSome && decide (15 = k))) ||
  (decide (v ≥ 4) && a.acl.isSome && decide (6 = k)) ||
  (decide (v ≥ 5) && a.attribBits.isSome && a.attribValid.isSome && decide (9 = k)) ||
  (decide (v ≥ 6) && a.textHint.isSome && decide (11 = k)) ||
  (decide (v ≥ 6) && a.mimeType.isSome && decide (12 = k)) ||
  (decide (v ≥ 6) && a.nlink.isSome && decide (13 = k)) ||
  (decide (v ≥ 6) && a.untransName.isSome && decide (14 = k)) ||
  (!a.extended.isEmpty && decide (31 = k))

theorem testBit_encodeFlags (fixed : Bool) (v : Nat) (a : Attrs) (k : Nat) :
    (encodeFlagsG fixed v a).testBit k = flagBit fixed v a k := by
  unfold encodeFlagsG flagBit
  simp only [c_SIZE, c_UIDGID, c_PERMISSIONS, c_ACMODTIME, c_ACCESSTIME, c_CREATETIME, c_MODIFYTIME, c_ACL,
    c_OWNERGROUP, c_SUBSECOND, c_BITS, c_ALLOC, c_TEXT_HINT, c_MIME, c_LINK_COUNT, c_UNTRANS, c_CTIME, c_EXTENDED]
  by_cases hv : v = 3
  · simp only [hv, ↓reduceIte, Nat.testBit_or, testBit_flagIf]
  · simp only [hv, ↓reduceIte, Nat.testBit_or, testBit_flagIf]

/-- a decoding stage consumes exactly `seg` and applies `upd` -/
def Good (st : Stage) (seg : Bytes) (upd : Attrs → Attrs) : Prop :=
  ∀ acc rest, st (acc, seg ++ rest) = .ok (upd acc, rest)

theorem Good.seq {s1 s2 : Stage} {g1 g2 : Bytes} {u1 u2 : Attrs → Attrs}
    (h1 : Good s1 g1 u1) (h2 : Good s2 g2 u2) : Good (s1 ⨾ s2) (g1 ++ g2) (fun a => u2 (u1 a)) := by
  intro acc rest
  simp only [seqS, List.append_assoc, h1 acc (g2 ++ rest), h2 (u1 acc) rest]

theorem Good.skip (st : Stage) : Good (whenS false st) [] id := by
  intro acc rest; simp [whenS]

theorem Good.when_true {st : Stage} {seg : Bytes} {u : Attrs → Attrs} (h : Good st seg u) :
    Good (whenS true st) seg u := by
  intro acc rest; simp [whenS, h acc rest]

theorem Good.rd {α : Type} {p : P α} {enc : Bytes} {x : α} (set : Attrs → α → Attrs)
    (h : ∀ r, p (enc ++ r) = .ok (x, r)) : Good (rd p set) enc (fun a => set a x) := by
  intro acc rest; simp [Sftp.rd, h rest]

theorem Good.cast {st : Stage} {seg seg' : Bytes} {u u' : Attrs → Attrs}
    (h : Good st seg u) (hs : seg = seg') (hu : ∀ a, u a = u' a) : Good st seg' u' := by
  intro acc rest; rw [← hs, ← hu]; exact h acc rest

theorem Good.rdUtf8' {b enc : Bytes} (err : DecErr) (set : Attrs → Bytes → Attrs)
    (hg : ∀ r, getStr (enc ++ r) = .ok (b, r)) (hv : validUtf8 b = true) :
    Good (Sftp.rdUtf8 err set) enc (fun a => set a b) := by
  intro acc rest; simp [Sftp.rdUtf8, hg rest, hv]

theorem Good.rdUtf8 {b : Bytes} (err : DecErr) (set : Attrs → Bytes → Attrs)
    (hl : b.length < 2^32) (hv : validUtf8 b = true) :
    Good (Sftp.rdUtf8 err set) (putStr b) (fun a => set a b) :=
  Good.rdUtf8' err set (fun r => getStr_putStr b r hl) hv

/-- the update performed by an optional field -/
def updOpt {α : Type} (o : Option α) (set : Attrs → α → Attrs) (acc : Attrs) : Attrs :=
  match o with
  | some x => set acc x
  | none => acc

/-- optional single field -/
theorem good_opt {α : Type} (c : Bool) (o : Option α) (p : P α) (enc : α → Bytes) (set : Attrs → α → Attrs)
    (hc : c = o.isSome) (hp : ∀ x, o = some x → ∀ r, p (enc x ++ r) = .ok (x, r)) :
    Good (whenS c (rd p set)) (opt o enc) (updOpt o set) := by
  subst hc
  cases o with
  | none => exact Good.skip _
  | some x => exact Good.when_true (Good.rd set (hp x rfl))

theorem good_opt_utf8 (c : Bool) (o : Option Bytes) (err : DecErr) (set : Attrs → Bytes → Attrs)
    (hc : c = o.isSome) (hl : lenO o = true) (hu : utf8O o = true) :
    Good (whenS c (rdUtf8 err set)) (opt o putStr) (updOpt o set) := by
  subst hc
  cases o with
  | none => exact Good.skip _
  | some x =>
    simp [lenO] at hl
    exact Good.when_true (Good.rdUtf8 err set hl hu)

theorem ltO_some {o : Option Nat} {b x : Nat} (h : ltO o b = true) (hx : o = some x) : x < b := by
  subst hx; simpa [ltO] using h

theorem lenO_some {o : Option Bytes} {x : Bytes} (h : lenO o = true) (hx : o = some x) : x.length < 2^32 := by
  subst hx; simpa [lenO] using h

def updTime (t ns : Option Nat) (setT setNs : Attrs → Nat → Attrs) (acc : Attrs) : Attrs :=
  match t with
  | some x => (match ns with | some n => setNs (setT acc x) n | none => setT acc x)
  | none => acc

/-- a v4+ time field with its optional nanoseconds -/
theorem good_time (flags f : Nat) (sub : Bool) (t ns : Option Nat) (setT setNs : Attrs → Nat → Attrs)
    (hf : hasFlag flags f = t.isSome) (hs : hasFlag flags FILEXFER_ATTR_SUBSECOND_TIMES = sub)
    (hc : timeCarry sub t ns = true) :
    Good (stTime flags f setT setNs) (segTime sub t ns) (updTime t ns setT setNs) := by
  unfold stTime
  rw [hf, hs]
  cases t with
  | none => exact Good.skip _
  | some x =>
    cases sub with
    | false =>
      cases ns with
      | some n => simp [timeCarry] at hc
      | none =>
        simp [timeCarry] at hc
        refine Good.when_true ?_
        have := Good.seq (Good.rd setT (fun r => getU64_putU64 x r hc)) (Good.skip (rd getU32 setNs))
        exact this.cast (by simp [segTime]) (fun _ => rfl)
    | true =>
      cases ns with
      | none => simp [timeCarry] at hc
      | some n =>
        simp [timeCarry] at hc
        refine Good.when_true ?_
        have := Good.seq (Good.rd setT (fun r => getU64_putU64 x r hc.1))
          (Good.when_true (Good.rd setNs (fun r => getU32_putU32 n r hc.2)))
        exact this.cast (by simp [segTime]) (fun _ => rfl)

theorem getPairs_cons (n : Nat) (ek ed tail k d : Bytes) (l : List (Bytes × Bytes)) (r : Bytes)
    (h1 : ∀ r, getStr (ek ++ r) = .ok (k, r)) (h2 : ∀ r, getStr (ed ++ r) = .ok (d, r))
    (h3 : getPairs n tail = .ok (l, r)) :
    getPairs (n + 1) (ek ++ (ed ++ tail)) = .ok ((k, d) :: l, r) := by
  simp [getPairs, h1, h2, h3]

theorem getPairs_putPairs (l : List (Bytes × Bytes)) (r : Bytes) (h : pairsOk l = true) :
    getPairs l.length (putPairs l ++ r) = .ok (l, r) := by
  induction l with
  | nil => rfl
  | cons p l ih =>
    obtain ⟨k, d⟩ := p
    simp [pairsOk] at h
    obtain ⟨⟨hk, hd⟩, hl⟩ := h
    simp only [List.length_cons, putPairs, List.append_assoc]
    exact getPairs_cons _ _ _ _ _ _ _ _ (fun r => getStr_putStr k r hk) (fun r => getStr_putStr d r hd) (ih hl)

theorem rdExtended_ok (en ep : Bytes) (n : Nat) (l : List (Bytes × Bytes))
    (h1 : ∀ r, getU32 (en ++ r) = .ok (n, r)) (h2 : ∀ r, getPairs n (ep ++ r) = .ok (l, r)) :
    Good rdExtended (en ++ ep) (fun acc => { acc with extended := l }) := by
  intro acc rest
  simp [rdExtended, h1, h2]

theorem good_extended (c : Bool) (l : List (Bytes × Bytes)) (hc : c = !l.isEmpty)
    (hn : l.length < 2^32) (hp : pairsOk l = true) :
    Good (whenS c rdExtended) (if l.isEmpty then [] else putU32 l.length ++ putPairs l)
      (fun acc => if l.isEmpty then acc else { acc with extended := l }) := by
  subst hc
  cases l with
  | nil => exact Good.skip _
  | cons p l =>
    refine Good.when_true ?_
    exact rdExtended_ok _ _ _ _ (fun r => getU32_putU32 _ r hn) (fun r => getPairs_putPairs _ r hp)

/-- the facts `carryable v a` provides for versions 4–6, in a version-independent form -/
structure Carry4 (v : Nat) (a : Attrs) : Prop where
  size : ltO a.size (2^64) = true
  alloc : ltO a.allocSize (2^64) = true
  allocV : v < 6 → a.allocSize = none
  perm : ltO a.permissions (2^12) = true
  extn : a.extended.length < 2^32
  extp : pairsOk a.extended = true
  type : a.type < 256
  typeV : v < 5 → a.type < FILEXFER_TYPE_SOCKET
  uid : a.uid = none
  gid : a.gid = none
  og : a.owner.isSome = a.group.isSome
  lo : lenO a.owner = true
  lg : lenO a.group = true
  uo : utf8O a.owner = true
  ug : utf8O a.group = true
  ta : timeCarry (subsecond a) a.atime a.atimeNs = true
  tc : timeCarry (subsecond a) a.crtime a.crtimeNs = true
  tm : timeCarry (subsecond a) a.mtime a.mtimeNs = true
  tct : timeCarry (subsecond a) a.ctime a.ctimeNs = true
  tctV : v < 6 → a.ctime = none
  acl : lenO a.acl = true
  bb : a.attribBits.isSome = a.attribValid.isSome
  b1 : ltO a.attribBits (2^32) = true
  b2 : ltO a.attribValid (2^32) = true
  bV : v < 5 → a.attribBits = none
  th : ltO a.textHint 256 = true
  lm : lenO a.mimeType = true
  um : utf8O a.mimeType = true
  nl : ltO a.nlink (2^32) = true
  un : lenO a.untransName = true
  v6 : v < 6 → a.textHint = none ∧ a.mimeType = none ∧ a.nlink = none ∧ a.untransName = none

theorem carry4_of (v : Nat) (a : Attrs) (hv : v = 4 ∨ v = 5 ∨ v = 6) (h : carryable v a = true) :
    Carry4 v a := by
  rcases hv with rfl | rfl | rfl <;> simp [carryable] at h <;>
    constructor <;> simp_all [ltO, lenO, utf8O, timeCarry, FILEXFER_TYPE_SOCKET] <;> omega


theorem hasFlag_enc (v : Nat) (a : Attrs) (k : Nat) :
    hasFlag (encodeFlags v a) (2^k) = flagBit true v a k := by
  rw [hasFlag_two_pow]; exact testBit_encodeFlags true v a k

/-- what the flag tests of `decode` see in a word produced by `encode`, versions 4–6 -/
structure Flags4 (F : Nat) (a : Attrs) : Prop where
  size : hasFlag F FILEXFER_ATTR_SIZE = a.size.isSome
  alloc : hasFlag F FILEXFER_ATTR_ALLOCATION_SIZE = a.allocSize.isSome
  og : hasFlag F FILEXFER_ATTR_OWNERGROUP = a.owner.isSome
  perm : hasFlag F FILEXFER_ATTR_PERMISSIONS = a.permissions.isSome
  sub : hasFlag F FILEXFER_ATTR_SUBSECOND_TIMES = subsecond a
  atime : hasFlag F FILEXFER_ATTR_ACCESSTIME = a.atime.isSome
  crtime : hasFlag F FILEXFER_ATTR_CREATETIME = a.crtime.isSome
  mtime : hasFlag F FILEXFER_ATTR_MODIFYTIME = a.mtime.isSome
  ctime : hasFlag F FILEXFER_ATTR_CTIME = a.ctime.isSome
  acl : hasFlag F FILEXFER_ATTR_ACL = a.acl.isSome
  bits : hasFlag F FILEXFER_ATTR_BITS = a.attribBits.isSome
  th : hasFlag F FILEXFER_ATTR_TEXT_HINT = a.textHint.isSome
  mime : hasFlag F FILEXFER_ATTR_MIME_TYPE = a.mimeType.isSome
  nlink : hasFlag F FILEXFER_ATTR_LINK_COUNT = a.nlink.isSome
  untrans : hasFlag F FILEXFER_ATTR_UNTRANSLATED_NAME = a.untransName.isSome
  ext : hasFlag F FILEXFER_ATTR_EXTENDED = !a.extended.isEmpty

theorem flags4_of (v : Nat) (a : Attrs) (hv : v = 4 ∨ v = 5 ∨ v = 6) (c : Carry4 v a) :
    Flags4 (encodeFlags v a) a := by
  have hF := hasFlag_enc v a
  have h6 := c.v6
  have ha := c.allocV
  have hb := c.bV
  have ht := c.tctV
  have hbb := c.bb
  have hog := c.og
  have hu := c.uid
  have hg := c.gid
  rcases hv with rfl | rfl | rfl <;>
  constructor <;>
  first
    | (rw [c_SIZE, hF]; simp [flagBit, allocGate, cOwnerGroup]; done)
    | (rw [c_ALLOC, hF]; simp_all [flagBit, allocGate, cOwnerGroup]; done)
    | (rw [c_OWNERGROUP, hF]; simp_all [flagBit, allocGate, cOwnerGroup]; done)
    | (rw [c_PERMISSIONS, hF]; simp [flagBit, allocGate, cOwnerGroup]; done)
    | (rw [c_SUBSECOND, hF]; simp [flagBit, allocGate, cOwnerGroup]; done)
    | (rw [c_ACCESSTIME, hF]; simp [flagBit, allocGate, cOwnerGroup]; done)
    | (rw [c_CREATETIME, hF]; simp [flagBit, allocGate, cOwnerGroup]; done)
    | (rw [c_MODIFYTIME, hF]; simp [flagBit, allocGate, cOwnerGroup]; done)
    | (rw [c_CTIME, hF]; simp_all [flagBit, allocGate, cOwnerGroup]; done)
    | (rw [c_ACL, hF]; simp [flagBit, allocGate, cOwnerGroup]; done)
    | (rw [c_BITS, hF]; simp_all [flagBit, allocGate, cOwnerGroup]; done)
    | (rw [c_TEXT_HINT, hF]; simp_all [flagBit, allocGate, cOwnerGroup]; done)
    | (rw [c_MIME, hF]; simp_all [flagBit, allocGate, cOwnerGroup]; done)
    | (rw [c_LINK_COUNT, hF]; simp_all [flagBit, allocGate, cOwnerGroup]; done)
    | (rw [c_UNTRANS, hF]; simp_all [flagBit, allocGate, cOwnerGroup]; done)
    | (rw [c_EXTENDED, hF]; simp [flagBit, allocGate, cOwnerGroup]; done)


theorem and_fff (m : Nat) (h : m < 2^12) : m &&& 0xfff = m :=
  Nat.and_two_pow_sub_one_of_lt_two_pow (n := 12) h

/-- the accumulated result of decoding what `encode` wrote, versions 4–6 -/
def upd4 (a : Attrs) (acc : Attrs) : Attrs :=
  { acc with
    type := a.type, size := a.size.or acc.size, allocSize := a.allocSize.or acc.allocSize,
    owner := a.owner.or acc.owner, group := a.group.or acc.group,
    permissions := a.permissions.or acc.permissions,
    atime := a.atime.or acc.atime, atimeNs := a.atimeNs.or acc.atimeNs,
    crtime := a.crtime.or acc.crtime, crtimeNs := a.crtimeNs.or acc.crtimeNs,
    mtime := a.mtime.or acc.mtime, mtimeNs := a.mtimeNs.or acc.mtimeNs,
    ctime := a.ctime.or acc.ctime, ctimeNs := a.ctimeNs.or acc.ctimeNs,
    acl := a.acl.or acc.acl,
    attribBits := a.attribBits.or acc.attribBits, attribValid := a.attribValid.or acc.attribValid,
    textHint := a.textHint.or acc.textHint, mimeType := a.mimeType.or acc.mimeType,
    nlink := a.nlink.or acc.nlink, untransName := a.untransName.or acc.untransName,
    extended := if a.extended.isEmpty then acc.extended else a.extended }

theorem body4 (v : Nat) (a : Attrs) (hv : v = 4 ∨ v = 5 ∨ v = 6) (c : Carry4 v a) :
    Good (decodeBody v (encodeFlags v a)) (encodeBody v a) (upd4 a) := by
  have f := flags4_of v a hv c
  have hv3 : ¬ v = 3 := by omega
  have hv4 : v ≥ 4 := by omega
  unfold decodeBody encodeBody encodeBodyG
  simp only [hv3, if_false]
  have gType : Good (whenS (decide (v ≥ 4)) (rd getU8 fun a x => { a with type := x })) (segType v a)
      (fun acc => { acc with type := a.type }) := by
    have hw : wireType v a.type = a.type := by
      unfold wireType
      split
      · rename_i h; have := c.typeV h.1; omega
      · rfl
    have := Good.when_true (Good.rd (fun (a : Attrs) x => { a with type := x })
      (fun r => getU8_putU8 a.type r c.type))
    have h4 : decide (v ≥ 4) = true := by simp [hv4]
    rw [h4]
    exact this.cast (by simp [segType, hw, hv4]) (fun _ => rfl)
  have h4 : decide (v ≥ 4) = true := by simp [hv4]
  have gSize := (good_opt _ a.size getU64 putU64 (fun a x => { a with size := some x }) f.size
      (fun x hx r => getU64_putU64 x r (ltO_some c.size hx))).cast rfl
      (u' := fun acc => { acc with size := a.size.or acc.size }) (fun acc => by cases a.size <;> simp [updOpt])
  have gAlloc := (good_opt _ a.allocSize getU64 putU64 (fun a x => { a with allocSize := some x }) f.alloc
      (fun x hx r => getU64_putU64 x r (ltO_some c.alloc hx))).cast
      (seg' := segAlloc true v a)
      (u' := fun acc => { acc with allocSize := a.allocSize.or acc.allocSize })
      (by
        unfold segAlloc allocGate
        by_cases h6 : v ≥ 6
        · simp [h6]
        · have := c.allocV (by omega); simp [this, opt])
      (fun acc => by cases a.allocSize <;> simp [updOpt])
  have gOwner : Good (whenS (hasFlag (encodeFlags v a) FILEXFER_ATTR_OWNERGROUP)
      (rdUtf8 .ownerInvalid (fun a b => { a with owner := some b }) ⨾
       rdUtf8 .groupInvalid (fun a b => { a with group := some b }))) (segOwner v a)
      (fun acc => { acc with owner := a.owner.or acc.owner, group := a.group.or acc.group }) := by
    rw [f.og]
    have hog := c.og
    have hlo := c.lo; have hlg := c.lg; have huo := c.uo; have hug := c.ug
    have hu := c.uid; have hg := c.gid
    unfold segOwner
    simp only [hv3, if_false]
    cases ho : a.owner with
    | none =>
      have hgn : a.group = none := by
        rw [ho] at hog; cases hgg : a.group <;> simp_all
      simp only [hgn, hu, hg]
      exact (Good.skip _).cast rfl (fun acc => by simp)
    | some o =>
      have ⟨g, hgs⟩ : ∃ g, a.group = some g := by
        rw [ho] at hog; cases hgg : a.group <;> simp_all
      rw [ho] at hlo huo; rw [hgs] at hlg hug
      simp only [hgs]
      refine (Good.when_true (Good.seq (Good.rdUtf8 _ _ ?_ ?_) (Good.rdUtf8 _ _ ?_ ?_))).cast rfl
        (fun acc => by simp)
      · simpa [lenO] using hlo
      · simpa [utf8O] using huo
      · simpa [lenO] using hlg
      · simpa [utf8O] using hug
  have gPerm : Good (whenS (hasFlag (encodeFlags v a) FILEXFER_ATTR_PERMISSIONS)
      (rd getU32 fun a m => { a with permissions := some (m &&& 0xfff) })) (opt a.permissions putU32)
      (fun acc => { acc with permissions := a.permissions.or acc.permissions }) := by
    refine (good_opt _ a.permissions getU32 putU32 _ f.perm
      (fun x hx r => getU32_putU32 x r (Nat.lt_trans (ltO_some c.perm hx) (by decide)))).cast rfl ?_
    intro acc
    cases hp : a.permissions with
    | none => simp [updOpt]
    | some m => simp [updOpt, and_fff m (ltO_some c.perm hp)]
  have updTime_eq : ∀ (t ns : Option Nat) (setT setNs : Attrs → Nat → Attrs) (acc : Attrs) (sub : Bool),
      timeCarry sub t ns = true → updTime t ns setT setNs acc =
        (match ns with | some n => setNs (match t with | some x => setT acc x | none => acc) n
                       | none => (match t with | some x => setT acc x | none => acc)) := by
    intro t ns setT setNs acc sub h
    cases t <;> cases ns <;> simp_all [updTime, timeCarry]
  have gA := (good_time _ _ _ a.atime a.atimeNs (fun a x => { a with atime := some x })
      (fun a x => { a with atimeNs := some x }) f.atime f.sub c.ta).cast rfl
      (u' := fun acc => { acc with atime := a.atime.or acc.atime, atimeNs := a.atimeNs.or acc.atimeNs })
      (fun acc => by rw [updTime_eq _ _ _ _ _ _ c.ta]; cases a.atime <;> cases a.atimeNs <;> simp)
  have gC := (good_time _ _ _ a.crtime a.crtimeNs (fun a x => { a with crtime := some x })
      (fun a x => { a with crtimeNs := some x }) f.crtime f.sub c.tc).cast rfl
      (u' := fun acc => { acc with crtime := a.crtime.or acc.crtime, crtimeNs := a.crtimeNs.or acc.crtimeNs })
      (fun acc => by rw [updTime_eq _ _ _ _ _ _ c.tc]; cases a.crtime <;> cases a.crtimeNs <;> simp)
  have gM := (good_time _ _ _ a.mtime a.mtimeNs (fun a x => { a with mtime := some x })
      (fun a x => { a with mtimeNs := some x }) f.mtime f.sub c.tm).cast rfl
      (u' := fun acc => { acc with mtime := a.mtime.or acc.mtime, mtimeNs := a.mtimeNs.or acc.mtimeNs })
      (fun acc => by rw [updTime_eq _ _ _ _ _ _ c.tm]; cases a.mtime <;> cases a.mtimeNs <;> simp)
  have gCt := (good_time _ _ _ a.ctime a.ctimeNs (fun a x => { a with ctime := some x })
      (fun a x => { a with ctimeNs := some x }) f.ctime f.sub c.tct).cast
      (seg' := if v ≥ 6 then segTime (subsecond a) a.ctime a.ctimeNs else [])
      (u' := fun acc => { acc with ctime := a.ctime.or acc.ctime, ctimeNs := a.ctimeNs.or acc.ctimeNs })
      (by
        by_cases h6 : v ≥ 6
        · simp [h6]
        · have := c.tctV (by omega); simp [this, segTime, h6])
      (fun acc => by rw [updTime_eq _ _ _ _ _ _ c.tct]; cases a.ctime <;> cases a.ctimeNs <;> simp)
  have gAcl := (good_opt _ a.acl getStr putStr (fun a b => { a with acl := some b }) f.acl
      (fun x hx r => getStr_putStr x r (lenO_some c.acl hx))).cast
      (seg' := if v ≥ 4 then opt a.acl putStr else [])
      (u' := fun acc => { acc with acl := a.acl.or acc.acl })
      (by simp [hv4]) (fun acc => by cases a.acl <;> simp [updOpt])
  have gBits : Good (whenS (hasFlag (encodeFlags v a) FILEXFER_ATTR_BITS)
      ((rd getU32 fun a x => { a with attribBits := some x }) ⨾
       (rd getU32 fun a x => { a with attribValid := some x }))) (segBits v a)
      (fun acc => { acc with attribBits := a.attribBits.or acc.attribBits,
                             attribValid := a.attribValid.or acc.attribValid }) := by
    rw [f.bits]
    have hbb := c.bb; have hb1 := c.b1; have hb2 := c.b2
    unfold segBits
    cases hb : a.attribBits with
    | none =>
      have hvn : a.attribValid = none := by
        rw [hb] at hbb; cases hh : a.attribValid <;> simp_all
      simp only [hvn]
      exact (Good.skip _).cast (by simp) (fun acc => by simp)
    | some x =>
      have ⟨y, hy⟩ : ∃ y, a.attribValid = some y := by
        rw [hb] at hbb; cases hh : a.attribValid <;> simp_all
      have h5 : v ≥ 5 := by
        by_cases h : v < 5
        · have := c.bV h; simp_all
        · omega
      simp only [hy, h5, if_true]
      exact (Good.when_true (Good.seq (Good.rd _ (fun r => getU32_putU32 x r (ltO_some hb1 hb)))
        (Good.rd _ (fun r => getU32_putU32 y r (ltO_some hb2 hy))))).cast rfl (fun acc => by simp)
  have gTh := (good_opt _ a.textHint getU8 putU8 (fun a x => { a with textHint := some x }) f.th
      (fun x hx r => getU8_putU8 x r (ltO_some c.th hx))).cast rfl
      (u' := fun acc => { acc with textHint := a.textHint.or acc.textHint })
      (fun acc => by cases a.textHint <;> simp [updOpt])
  have gMime := (good_opt_utf8 _ a.mimeType .badMime (fun a b => { a with mimeType := some b }) f.mime
      c.lm c.um).cast rfl
      (u' := fun acc => { acc with mimeType := a.mimeType.or acc.mimeType })
      (fun acc => by cases a.mimeType <;> simp [updOpt])
  have gNl := (good_opt _ a.nlink getU32 putU32 (fun a x => { a with nlink := some x }) f.nlink
      (fun x hx r => getU32_putU32 x r (ltO_some c.nl hx))).cast rfl
      (u' := fun acc => { acc with nlink := a.nlink.or acc.nlink })
      (fun acc => by cases a.nlink <;> simp [updOpt])
  have gUn := (good_opt _ a.untransName getStr putStr (fun a b => { a with untransName := some b }) f.untrans
      (fun x hx r => getStr_putStr x r (lenO_some c.un hx))).cast rfl
      (u' := fun acc => { acc with untransName := a.untransName.or acc.untransName })
      (fun acc => by cases a.untransName <;> simp [updOpt])
  have gExt := good_extended _ a.extended f.ext c.extn c.extp
  have all := Good.seq gType (Good.seq gSize (Good.seq gAlloc (Good.seq gOwner (Good.seq gPerm
    (Good.seq (Good.seq gA (Good.seq gC (Good.seq gM gCt))) (Good.seq gAcl (Good.seq gBits
    (Good.seq gTh (Good.seq gMime (Good.seq gNl (Good.seq gUn gExt)))))))))))
  refine all.cast ?_ ?_
  · have h6 := c.v6
    unfold segTimes segV6 segExtended
    by_cases hh : v ≥ 6
    · simp [hv3, hh, List.append_assoc]
    · have := h6 (by omega)
      simp [hv3, hh, this, opt, List.append_assoc]
  · intro acc
    simp only [upd4]
    cases a.extended <;> rfl


theorem upd4_default (v : Nat) (a : Attrs) (c : Carry4 v a) : upd4 a {} = a := by
  have hu := c.uid; have hg := c.gid
  cases a
  simp_all [upd4]

theorem decode_ok (v : Nat) (ef body rest : Bytes) (flags : Nat) (a : Attrs)
    (h1 : ∀ r, getU32 (ef ++ r) = .ok (flags, r))
    (h2 : fixFlagsV3 v flags = flags) (h3 : andNot flags (validAttrFlags v) = 0)
    (h4 : decodeBody v flags ({}, body ++ rest) = .ok (a, rest)) :
    decode v (ef ++ body ++ rest) = .ok (a, rest) := by
  simp [decode, h1, h2, h3, h4]

theorem encodeFlags_lt (fixed : Bool) (v : Nat) (a : Attrs) : encodeFlagsG fixed v a < 2^32 := by
  apply Nat.lt_pow_two_of_testBit
  intro i hi
  rw [testBit_encodeFlags]
  unfold flagBit
  have : ∀ k, k < 32 → decide (k = i) = false := by intro k hk; simp; omega
  simp [this]


/-- every bit `encode` sets in versions 4–6 is in `_valid_attr_flags[v]` (the fixed encoder) -/
theorem flagBit_valid (v : Nat) (hv : v = 3 ∨ v = 4 ∨ v = 5 ∨ v = 6) (a : Attrs) (i : Nat)
    (h : flagBit true v a i = true) : (validAttrFlags v).testBit i = true := by
  rcases hv with rfl | rfl | rfl | rfl <;>
    simp [flagBit, allocGate] at h <;>
    simp [validAttrFlags] <;>
    (repeat' (rcases h with h | h)) <;>
    (first | (obtain ⟨_, rfl⟩ := h; decide) | (obtain ⟨⟨_, _⟩, rfl⟩ := h; decide) | (subst h; decide) | skip)

structure Carry3 (a : Attrs) : Prop where
  size : ltO a.size (2^64) = true
  perm : ltO a.permissions (2^16) = true
  extn : a.extended.length < 2^32
  extp : pairsOk a.extended = true
  type : a.type = (match a.permissions with | some m => modeToFiletype m | none => FILEXFER_TYPE_UNKNOWN)
  ug : a.uid.isSome = a.gid.isSome
  uid : ltO a.uid (2^32) = true
  gid : ltO a.gid (2^32) = true
  am : a.atime.isSome = a.mtime.isSome
  atime : ltO a.atime (2^32) = true
  mtime : ltO a.mtime (2^32) = true
  none1 : a.allocSize = none ∧ a.owner = none ∧ a.group = none ∧ a.atimeNs = none ∧ a.crtime = none ∧
    a.crtimeNs = none ∧ a.mtimeNs = none
  none2 : a.ctime = none ∧ a.ctimeNs = none ∧ a.acl = none ∧ a.attribBits = none ∧ a.attribValid = none ∧
    a.textHint = none ∧ a.mimeType = none ∧ a.nlink = none ∧ a.untransName = none

theorem carry3_of (a : Attrs) (h : carryable 3 a = true) : Carry3 a := by
  simp [carryable] at h
  constructor <;> simp_all [ltO] <;> rfl

structure Flags3 (F : Nat) (a : Attrs) : Prop where
  size : hasFlag F FILEXFER_ATTR_SIZE = a.size.isSome
  alloc : hasFlag F FILEXFER_ATTR_ALLOCATION_SIZE = false
  ug : hasFlag F FILEXFER_ATTR_UIDGID = a.uid.isSome
  perm : hasFlag F FILEXFER_ATTR_PERMISSIONS = a.permissions.isSome
  am : hasFlag F FILEXFER_ATTR_ACMODTIME = a.atime.isSome
  acl : hasFlag F FILEXFER_ATTR_ACL = false
  bits : hasFlag F FILEXFER_ATTR_BITS = false
  th : hasFlag F FILEXFER_ATTR_TEXT_HINT = false
  mime : hasFlag F FILEXFER_ATTR_MIME_TYPE = false
  nlink : hasFlag F FILEXFER_ATTR_LINK_COUNT = false
  untrans : hasFlag F FILEXFER_ATTR_UNTRANSLATED_NAME = false
  ext : hasFlag F FILEXFER_ATTR_EXTENDED = !a.extended.isEmpty

theorem flags3_of (a : Attrs) (c : Carry3 a) : Flags3 (encodeFlags 3 a) a := by
  have hF := hasFlag_enc 3 a
  have hug := c.ug
  have ham := c.am
  constructor <;>
  first
    | (rw [c_SIZE, hF]; simp [flagBit, allocGate]; done)
    | (rw [c_ALLOC, hF]; simp_all [flagBit, allocGate]; done)
    | (rw [c_UIDGID, hF]; simp_all [flagBit, allocGate]; done)
    | (rw [c_PERMISSIONS, hF]; simp [flagBit, allocGate]; done)
    | (rw [c_ACMODTIME, hF]; simp_all [flagBit, allocGate]; done)
    | (rw [c_ACL, hF]; simp [flagBit, allocGate]; done)
    | (rw [c_BITS, hF]; simp_all [flagBit, allocGate]; done)
    | (rw [c_TEXT_HINT, hF]; simp_all [flagBit, allocGate]; done)
    | (rw [c_MIME, hF]; simp_all [flagBit, allocGate]; done)
    | (rw [c_LINK_COUNT, hF]; simp_all [flagBit, allocGate]; done)
    | (rw [c_UNTRANS, hF]; simp_all [flagBit, allocGate]; done)
    | (rw [c_EXTENDED, hF]; simp [flagBit, allocGate]; done)


theorem and_ffff (m : Nat) (h : m < 2^16) : m &&& 0xffff = m :=
  Nat.and_two_pow_sub_one_of_lt_two_pow (n := 16) h

def upd3 (a : Attrs) (acc : Attrs) : Attrs :=
  { acc with
    type := (match a.permissions with | some m => modeToFiletype m | none => acc.type),
    size := a.size.or acc.size, uid := a.uid.or acc.uid, gid := a.gid.or acc.gid,
    permissions := a.permissions.or acc.permissions,
    atime := a.atime.or acc.atime, mtime := a.mtime.or acc.mtime,
    extended := if a.extended.isEmpty then acc.extended else a.extended }

def segPair (x y : Option Nat) : Bytes :=
  match x, y with
  | some u, some g => putU32 u ++ putU32 g
  | _, _ => []

def updPair (x y : Option Nat) (set1 set2 : Attrs → Nat → Attrs) (acc : Attrs) : Attrs :=
  match x, y with
  | some u, some g => set2 (set1 acc u) g
  | _, _ => acc

/-- two fields that are present together or not at all (uid/gid, atime/mtime in version 3) -/
theorem good_pair (c : Bool) (x y : Option Nat) (set1 set2 : Attrs → Nat → Attrs)
    (hc : c = x.isSome) (hxy : x.isSome = y.isSome) (hx : ltO x (2^32) = true) (hy : ltO y (2^32) = true) :
    Good (whenS c (rd getU32 set1 ⨾ rd getU32 set2)) (segPair x y) (updPair x y set1 set2) := by
  subst hc
  cases x with
  | none =>
    cases y with
    | none => exact Good.skip _
    | some g => simp at hxy
  | some u =>
    cases y with
    | none => simp at hxy
    | some g =>
      exact (Good.when_true (Good.seq (Good.rd set1 (fun r => getU32_putU32 u r (ltO_some hx rfl)))
        (Good.rd set2 (fun r => getU32_putU32 g r (ltO_some hy rfl))))).cast rfl (fun _ => rfl)

theorem body3 (a : Attrs) (c : Carry3 a) :
    Good (decodeBody 3 (encodeFlags 3 a)) (encodeBody 3 a) (upd3 a) := by
  have f := flags3_of a c
  unfold decodeBody encodeBody encodeBodyG
  simp only [if_true]
  rw [f.alloc, f.acl, f.bits, f.th, f.mime, f.nlink, f.untrans]
  have gType : Good (whenS (decide (3 ≥ 4)) (rd getU8 fun a x => { a with type := x })) (segType 3 a) id :=
    (Good.skip _).cast (by simp [segType]) (fun _ => rfl)
  have gSize := (good_opt _ a.size getU64 putU64 (fun a x => { a with size := some x }) f.size
      (fun x hx r => getU64_putU64 x r (ltO_some c.size hx))).cast rfl
      (u' := fun acc => { acc with size := a.size.or acc.size }) (fun acc => by cases a.size <;> simp [updOpt])
  have gAlloc : Good (whenS false (rd getU64 fun a x => { a with allocSize := some x })) (segAlloc true 3 a) id :=
    (Good.skip _).cast (by simp [segAlloc, allocGate]) (fun _ => rfl)
  have gUg := (good_pair _ a.uid a.gid (fun a x => { a with uid := some x }) (fun a x => { a with gid := some x })
      f.ug c.ug c.uid c.gid).cast (seg' := segOwner 3 a)
      (u' := fun acc => { acc with uid := a.uid.or acc.uid, gid := a.gid.or acc.gid })
      (by simp only [segOwner, if_true]; cases a.uid <;> cases a.gid <;> rfl)
      (fun acc => by
        have := c.ug
        cases hu : a.uid <;> cases hg : a.gid <;> simp_all [updPair])
  have gPerm : Good (whenS (hasFlag (encodeFlags 3 a) FILEXFER_ATTR_PERMISSIONS)
      (rd getU32 fun a m => { a with type := modeToFiletype m, permissions := some (m &&& 0xffff) }))
      (opt a.permissions putU32)
      (fun acc => { acc with
        type := (match a.permissions with | some m => modeToFiletype m | none => acc.type),
        permissions := a.permissions.or acc.permissions }) := by
    refine (good_opt _ a.permissions getU32 putU32 _ f.perm
      (fun x hx r => getU32_putU32 x r (Nat.lt_trans (ltO_some c.perm hx) (by decide)))).cast rfl ?_
    intro acc
    cases hp : a.permissions with
    | none => simp [updOpt]
    | some m => simp [updOpt, and_ffff m (ltO_some c.perm hp)]
  have gAm := (good_pair _ a.atime a.mtime (fun a x => { a with atime := some x })
      (fun a x => { a with mtime := some x }) f.am c.am c.atime c.mtime).cast (seg' := segTimes 3 a)
      (u' := fun acc => { acc with atime := a.atime.or acc.atime, mtime := a.mtime.or acc.mtime })
      (by simp only [segTimes, if_true]; cases a.atime <;> cases a.mtime <;> rfl)
      (fun acc => by
        have := c.am
        cases hu : a.atime <;> cases hg : a.mtime <;> simp_all [updPair])
  have gExt := good_extended _ a.extended f.ext c.extn c.extp
  refine Good.cast (Good.seq gType (Good.seq gSize (Good.seq gAlloc (Good.seq gUg (Good.seq gPerm
    (Good.seq gAm (Good.seq (Good.skip _) (Good.seq (Good.skip _)
    (Good.seq (Good.skip _) (Good.seq (Good.skip _) (Good.seq (Good.skip _) (Good.seq (Good.skip _) gExt))))))))))))
    ?_ ?_
  · unfold segV6 segBits segExtended
    simp
  · intro acc
    simp only [upd3, id]
    cases a.extended <;> rfl

theorem upd3_default (a : Attrs) (c : Carry3 a) : upd3 a {} = a := by
  have h1 := c.none1; have h2 := c.none2; have ht := c.type
  cases a
  simp_all [upd3]

theorem fixFlags_enc (v : Nat) (hv : v = 3 ∨ v = 4 ∨ v = 5 ∨ v = 6) (a : Attrs) :
    fixFlagsV3 v (encodeFlags v a) = encodeFlags v a := by
  unfold fixFlagsV3
  split
  · rename_i h
    obtain ⟨rfl, _⟩ := h
    apply Nat.eq_of_testBit_eq
    intro i
    rw [c_MODIFYTIME, testBit_andNot, Nat.testBit_two_pow]
    by_cases hi : 5 = i
    · subst hi
      have : (encodeFlags 3 a).testBit 5 = false := by
        rw [testBit_encodeFlags]; simp [flagBit]
      simp [this]
    · simp [hi]
  · rfl

theorem unsupported_enc (v : Nat) (hv : v = 3 ∨ v = 4 ∨ v = 5 ∨ v = 6) (a : Attrs) :
    andNot (encodeFlags v a) (validAttrFlags v) = 0 := by
  rw [andNot_eq_zero_iff]
  intro i hi
  rw [testBit_encodeFlags] at hi
  exact flagBit_valid v hv a i hi

theorem encodable_of_carry4 (v : Nat) (a : Attrs) (hv : v = 4 ∨ v = 5 ∨ v = 6) (c : Carry4 v a) :
    encodable v a = true := by
  have := c.size; have := c.alloc; have := c.perm; have := c.extn; have := c.extp; have := c.type
  have := c.typeV; have := c.lo; have := c.lg; have := c.acl; have := c.b1; have := c.b2; have := c.th
  have := c.lm; have := c.nl; have := c.un
  have ta := c.ta; have tc := c.tc; have tm := c.tm; have tct := c.tct
  have hto : ∀ sub t ns, timeCarry sub t ns = true → timeOk sub t ns = true := by
    intro sub t ns h
    cases t <;> cases ns <;> cases sub <;> simp_all [timeCarry, timeOk]
  have := hto _ _ _ ta; have := hto _ _ _ tc; have := hto _ _ _ tm; have := hto _ _ _ tct
  have hw : wireType v a.type < 256 := by
    unfold wireType; split
    · decide
    · assumption
  have hp : ltO a.permissions (2^32) = true := by
    cases hh : a.permissions with
    | none => rfl
    | some m => have := ltO_some c.perm hh; simp [ltO]; omega
  rcases hv with rfl | rfl | rfl <;> simp_all [encodableG, allocGate]


theorem encodable_of_carry3 (a : Attrs) (c : Carry3 a) : encodable 3 a = true := by
  have := c.size; have := c.extn; have := c.extp; have := c.uid; have := c.gid
  have := c.atime; have := c.mtime; have h1 := c.none1; have h2 := c.none2
  have hp : ltO a.permissions (2^32) = true := by
    cases hh : a.permissions with
    | none => rfl
    | some m => have := ltO_some c.perm hh; simp [ltO]; omega
  simp_all [encodableG, allocGate]

/-- decode ∘ encode = id on what the version can carry, with any bytes following -/
theorem decode_encodeRaw (v : Nat) (hv : v = 3 ∨ v = 4 ∨ v = 5 ∨ v = 6) (a : Attrs)
    (h : carryable v a = true) (rest : Bytes) :
    decode v (encodeRaw v a ++ rest) = .ok (a, rest) := by
  have hlt := encodeFlags_lt true v a
  have key : ∃ upd, Good (decodeBody v (encodeFlags v a)) (encodeBody v a) upd ∧ upd {} = a := by
    rcases hv with rfl | hv
    · have c := carry3_of a h
      exact ⟨_, body3 a c, upd3_default a c⟩
    · have c := carry4_of v a hv h
      exact ⟨_, body4 v a hv c, upd4_default v a c⟩
  obtain ⟨upd, hg, hu⟩ := key
  have h4 := hg {} rest
  rw [hu] at h4
  exact decode_ok v _ _ rest _ a (fun r => getU32_putU32 _ r hlt) (fixFlags_enc v hv a)
    (unsupported_enc v hv a) h4

theorem encodable_of_carryable (v : Nat) (hv : v = 3 ∨ v = 4 ∨ v = 5 ∨ v = 6) (a : Attrs)
    (h : carryable v a = true) : encodable v a = true := by
  rcases hv with rfl | hv
  · exact encodable_of_carry3 a (carry3_of a h)
  · exact encodable_of_carry4 v a hv (carry4_of v a hv h)

theorem decodeName_ok3 (ef el ea rest fnm ln : Bytes) (a : Attrs)
    (h1 : ∀ r, getStr (ef ++ r) = .ok (fnm, r)) (h2 : ∀ r, getStr (el ++ r) = .ok (ln, r))
    (h3 : decode 3 (ea ++ rest) = .ok (a, rest)) :
    decodeName 3 (ef ++ el ++ ea ++ rest) = .ok ({ filename := fnm, longname := some ln, attrs := a }, rest) := by
  simp [decodeName, h1, h2, h3]

theorem decodeName_ok4 (v : Nat) (hv : ¬ v = 3) (ef ea rest fnm : Bytes) (a : Attrs)
    (h1 : ∀ r, getStr (ef ++ r) = .ok (fnm, r))
    (h3 : decode v (ea ++ rest) = .ok (a, rest)) :
    decodeName v (ef ++ [] ++ ea ++ rest) = .ok ({ filename := fnm, longname := none, attrs := a }, rest) := by
  simp [decodeName, h1, h3, hv]

theorem name_roundtrip_aux (v : Nat) (hv : v = 3 ∨ v = 4 ∨ v = 5 ∨ v = 6) (n : Name)
    (h : carryableName v n = true) :
    ∃ b, encodeName? v n = some b ∧ ∀ rest, decodeName v (b ++ rest) = .ok (n, rest) := by
  simp [carryableName] at h
  obtain ⟨⟨hf, ha⟩, hl⟩ := h
  have he := encodable_of_carryable v hv n.attrs ha
  obtain ⟨fnm, ln, a⟩ := n
  simp only at hf ha hl he
  rcases hv with rfl | hv
  · simp at hl
    obtain ⟨hl1, hl2⟩ := hl
    cases ln with
    | none => simp at hl2
    | some l =>
      simp [lenO] at hl1
      refine ⟨putStr fnm ++ putStr l ++ encodeRaw 3 a, ?_, ?_⟩
      · simp [encodeName?, hf, hl1, encodeG?, he]
      · intro rest
        exact decodeName_ok3 _ _ _ rest fnm l a (fun r => getStr_putStr fnm r hf)
          (fun r => getStr_putStr l r hl1) (decode_encodeRaw 3 (Or.inl rfl) a ha rest)
  · have hv3 : ¬ v = 3 := by omega
    simp [hv3] at hl
    subst hl
    refine ⟨putStr fnm ++ [] ++ encodeRaw v a, ?_, ?_⟩
    · simp [encodeName?, hf, hv3, encodeG?, he]
    · intro rest
      exact decodeName_ok4 v hv3 _ _ rest fnm a (fun r => getStr_putStr fnm r hf)
        (decode_encodeRaw v (Or.inr hv) a ha rest)

end AsyncsshModel.Sftp
