import AsyncsshModel.Lemmas.PatternCidr
import AsyncsshModel.Model.KnownHosts
/-
  C17 — declarative selection rules for known_hosts lines and helper lemmas (membership and
  permutation invariance of the lookup).
-/
namespace AsyncsshModel.KnownHosts
open AsyncsshModel AsyncsshModel.Pattern

/-! ### well-formedness of parsed addresses and networks -/

def IP.WF (ip : IP) : Prop := ip.val < 2 ^ bitsOf ip.v6

def Net.WF (n : Net) : Prop := n.plen ≤ bitsOf n.v6 ∧ strictOk (bitsOf n.v6) n.addr n.plen = true

def HostPat.WF : HostPat → Prop
  | .wild _ => True
  | .cidr n => Net.WF n

/-! ### the documented rules, as propositions -/

/-- the address lies in the network: same family and the first `plen` bits agree -/
def InNet (n : Net) (a : IP) : Prop :=
  n.v6 = a.v6 ∧ a.val / 2 ^ (bitsOf n.v6 - n.plen) = n.addr / 2 ^ (bitsOf n.v6 - n.plen)

/-- one element of a hosts field matches the connection (name, address text, address) -/
inductive ElemMatches (host addr : Str) (ip : Option IP) : HostPat → Prop
  | cidr {n : Net} {a : IP} : ip = some a → InNet n a → ElemMatches host addr ip (.cidr n)
  | host {p : Str} : host ≠ [] → Glob p host → ElemMatches host addr ip (.wild p)
  | addr {p : Str} : addr ≠ [] → Glob p addr → ElemMatches host addr ip (.wild p)

/-- sshd(8): the line applies iff some pattern matches and no negated pattern matches -/
def ListSelects (pl : PatList HostPat) (host addr : Str) (ip : Option IP) : Prop :=
  (∃ p ∈ pl.pos, ElemMatches host addr ip p) ∧ (∀ p ∈ pl.neg, ¬ ElemMatches host addr ip p)

theorem net_contains_iff {n : Net} {a : IP} (hn : Net.WF n) (ha : IP.WF a) :
    n.contains a = true ↔ InNet n a := by
  unfold Net.contains InNet
  simp only [Bool.and_eq_true, beq_iff_eq]
  constructor
  · rintro ⟨hv, hm⟩
    refine ⟨hv, ?_⟩
    have ha' : a.val < 2 ^ bitsOf n.v6 := by rw [hv]; exact ha
    exact (masked_eq_iff_prefix hn.1 hn.2 ha').mp hm
  · rintro ⟨hv, hm⟩
    have ha' : a.val < 2 ^ bitsOf n.v6 := by rw [hv]; exact ha
    exact ⟨hv, (masked_eq_iff_prefix hn.1 hn.2 ha').mpr hm⟩

theorem hostPat_matches_iff (host addr : Str) (ip : Option IP) (hip : ∀ a, ip = some a → IP.WF a)
    (p : HostPat) (hp : HostPat.WF p) :
    p.matches host addr ip = true ↔ ElemMatches host addr ip p := by
  cases p with
  | wild g =>
    simp only [HostPat.matches, Bool.or_eq_true, Bool.and_eq_true, Bool.not_eq_true', List.isEmpty_eq_false_iff,
      globMatch_iff_glob]
    constructor
    · rintro (⟨h1, h2⟩ | ⟨h1, h2⟩)
      · exact ElemMatches.host h1 h2
      · exact ElemMatches.addr h1 h2
    · intro h
      cases h with
      | host h1 h2 => exact Or.inl ⟨h1, h2⟩
      | addr h1 h2 => exact Or.inr ⟨h1, h2⟩
  | cidr n =>
    cases ip with
    | none =>
      simp only [HostPat.matches]
      constructor
      · intro h; cases h
      · intro h; cases h with
        | cidr h1 _ => cases h1
    | some a =>
      simp only [HostPat.matches]
      rw [net_contains_iff hp (hip a rfl)]
      constructor
      · intro h; exact ElemMatches.cidr rfl h
      · intro h; cases h with
        | cidr h1 h2 => cases h1; exact h2

theorem hostList_iff (pl : PatList HostPat) (host addr : Str) (ip : Option IP)
    (hip : ∀ a, ip = some a → IP.WF a) (hpos : ∀ p ∈ pl.pos, HostPat.WF p) (hneg : ∀ p ∈ pl.neg, HostPat.WF p) :
    hostListMatches pl host addr ip = true ↔ ListSelects pl host addr ip := by
  unfold hostListMatches PatList.matchesWith ListSelects
  simp only [Bool.and_eq_true, Bool.not_eq_true', List.any_eq_true, List.any_eq_false]
  constructor
  · rintro ⟨⟨p, hp, hm⟩, hn⟩
    exact ⟨⟨p, hp, (hostPat_matches_iff host addr ip hip p (hpos p hp)).mp hm⟩,
      fun q hq hmq => hn q hq ((hostPat_matches_iff host addr ip hip q (hneg q hq)).mpr hmq)⟩
  · rintro ⟨⟨p, hp, hm⟩, hn⟩
    exact ⟨⟨p, hp, (hostPat_matches_iff host addr ip hip p (hpos p hp)).mpr hm⟩,
      fun q hq hmq => hn q hq ((hostPat_matches_iff host addr ip hip q (hneg q hq)).mp hmq)⟩

/-! ### which index records a lookup selects -/

/-- the rule for one index record, given the (possibly port-qualified) names looked up -/
def RecSelects (hmac : Bytes → Bytes → Bytes) (h a : Str) (ip : Option IP) : Rec → Prop
  | .exact n _ => (n = h ∧ h ≠ []) ∨ (n = a ∧ a ≠ [])
  | .pat (.plain pl) _ => hostListMatches pl h a ip = true
  | .pat (.hashed salt hash) _ => hmac salt (utf8 h) = hash ∨ hmac salt (utf8 a) = hash

/-- `RecSelects` as it was before fix cfdf9ae (empty names were looked up in the dictionary) -/
def RecSelectsOld (hmac : Bytes → Bytes → Bytes) (h a : Str) (ip : Option IP) : Rec → Prop
  | .exact n _ => n = h ∨ n = a
  | .pat (.plain pl) _ => hostListMatches pl h a ip = true
  | .pat (.hashed salt hash) _ => hmac salt (utf8 h) = hash ∨ hmac salt (utf8 a) = hash

theorem mem_exactGet (recs : List Rec) (name : Str) (e : Entry) :
    e ∈ exactGet recs name ↔ Rec.exact name e ∈ recs := by
  simp only [exactGet, List.mem_filterMap]
  constructor
  · rintro ⟨r, hr, h⟩
    cases r with
    | exact n e' =>
      by_cases hn : n = name
      · simp [hn] at h; subst hn; subst h; exact hr
      · simp [hn] at h
    | pat _ _ => simp at h
  · intro h; exact ⟨_, h, by simp⟩

theorem mem_patGet (hmac : Bytes → Bytes → Bytes) (recs : List Rec) (h a : Str) (ip : Option IP) (e : Entry) :
    e ∈ patGet hmac recs h a ip ↔ ∃ hs, Rec.pat hs e ∈ recs ∧ hs.matches hmac h a ip = true := by
  simp only [patGet, List.mem_filterMap]
  constructor
  · rintro ⟨r, hr, hx⟩
    cases r with
    | exact _ _ => simp at hx
    | pat hs e' =>
      by_cases hm : hs.matches hmac h a ip = true
      · simp [hm] at hx; subst hx; exact ⟨hs, hr, hm⟩
      · simp [hm] at hx
  · rintro ⟨hs, hr, hm⟩
    exact ⟨_, hr, by simp [hm]⟩

theorem hostSpec_matches_iff (hmac : Bytes → Bytes → Bytes) (h a : Str) (ip : Option IP) (hs : HostSpec) (e : Entry) :
    hs.matches hmac h a ip = true ↔ RecSelects hmac h a ip (.pat hs e) := by
  cases hs with
  | plain pl => simp [HostSpec.matches, RecSelects]
  | hashed s x => simp [HostSpec.matches, RecSelects]

/-- the entries of one lookup stage are exactly the entries of the selected records -/
theorem mem_lookup (hmac : Bytes → Bytes → Bytes) (recs : List Rec) (h a : Str) (ip : Option IP) (e : Entry) :
    e ∈ (if h ≠ [] then exactGet recs h else []) ++ (if a ≠ [] then exactGet recs a else [])
        ++ patGet hmac recs h a ip ↔
      ∃ r ∈ recs, r.entry = e ∧ RecSelects hmac h a ip r := by
  simp only [List.mem_append, mem_patGet]
  constructor
  · rintro ((h1 | h1) | ⟨hs, h1, h2⟩)
    · by_cases hh : h ≠ []
      · rw [if_pos hh, mem_exactGet] at h1; exact ⟨_, h1, rfl, Or.inl ⟨rfl, hh⟩⟩
      · rw [if_neg hh] at h1; cases h1
    · by_cases ha : a ≠ []
      · rw [if_pos ha, mem_exactGet] at h1; exact ⟨_, h1, rfl, Or.inr ⟨rfl, ha⟩⟩
      · rw [if_neg ha] at h1; cases h1
    · exact ⟨_, h1, rfl, (hostSpec_matches_iff hmac h a ip hs e).mp h2⟩
  · rintro ⟨r, hr, he, hsel⟩
    cases r with
    | exact n e' =>
      simp only [Rec.entry] at he; subst he
      rcases hsel with ⟨rfl, hh⟩ | ⟨rfl, ha⟩
      · left; left; rw [if_pos hh, mem_exactGet]; exact hr
      · left; right; rw [if_pos ha, mem_exactGet]; exact hr
    | pat hs e' =>
      simp only [Rec.entry] at he; subst he
      exact Or.inr ⟨hs, hr, (hostSpec_matches_iff hmac h a ip hs e').mpr hsel⟩

/-! ### permutation invariance -/

theorem exactGet_perm {r1 r2 : List Rec} (hp : r1.Perm r2) (name : Str) :
    (exactGet r1 name).Perm (exactGet r2 name) := hp.filterMap _

theorem patGet_perm (hmac : Bytes → Bytes → Bytes) {r1 r2 : List Rec} (hp : r1.Perm r2) (h a : Str) (ip : Option IP) :
    (patGet hmac r1 h a ip).Perm (patGet hmac r2 h a ip) := hp.filterMap _

theorem matchEntries_perm (hmac : Bytes → Bytes → Bytes) {r1 r2 : List Rec} (hp : r1.Perm r2)
    (host addr : Str) (port : Nat) (ip : Option IP) :
    (matchEntries hmac r1 host addr port ip).Perm (matchEntries hmac r2 host addr port ip) := by
  have guard : ∀ n : Str, (if n ≠ [] then exactGet r1 n else []).Perm (if n ≠ [] then exactGet r2 n else []) := by
    intro n
    by_cases hn : n ≠ []
    · rw [if_pos hn, if_pos hn]; exact exactGet_perm hp n
    · rw [if_neg hn, if_neg hn]
  unfold matchEntries
  exact ((guard _).append (guard _)).append (patGet_perm hmac hp _ _ _)

/-- two results with the same entries up to order (what "independent of line order" means for the seven lists) -/
structure Result.Equiv (a b : Result) : Prop where
  hostKeys : a.hostKeys.Perm b.hostKeys
  caKeys : a.caKeys.Perm b.caKeys
  revokedKeys : a.revokedKeys.Perm b.revokedKeys
  x509Certs : a.x509Certs.Perm b.x509Certs
  revokedCerts : a.revokedCerts.Perm b.revokedCerts
  x509Subjects : a.x509Subjects.Perm b.x509Subjects
  revokedSubjects : a.revokedSubjects.Perm b.revokedSubjects

theorem classify_perm {e1 e2 : List Entry} (hp : e1.Perm e2) : (classify e1).Equiv (classify e2) :=
  ⟨hp.filterMap _, hp.filterMap _, hp.filterMap _, hp.filterMap _, hp.filterMap _, hp.filterMap _, hp.filterMap _⟩

theorem mergeRevoked_equiv {a1 a2 b1 b2 : Result} (h1 : a1.Equiv b1) (h2 : a2.Equiv b2) :
    (mergeRevoked a1 a2).Equiv (mergeRevoked b1 b2) :=
  ⟨h2.hostKeys, h2.caKeys, h1.revokedKeys.append h2.revokedKeys, h2.x509Certs,
    h1.revokedCerts.append h2.revokedCerts, h2.x509Subjects, h1.revokedSubjects.append h2.revokedSubjects⟩

theorem noneTrusted_equiv {a b : Result} (h : a.Equiv b) : a.noneTrusted = b.noneTrusted := by
  unfold Result.noneTrusted
  rw [h.hostKeys.isEmpty_eq, h.caKeys.isEmpty_eq, h.x509Certs.isEmpty_eq, h.x509Subjects.isEmpty_eq]

/-- loading a permuted list of lines: success is preserved and the records are a permutation -/
theorem loadLines_perm (x509 : Bool) (imp : Importer) {l1 l2 : List Str} (hp : l1.Perm l2) :
    ∀ r1, loadLines x509 imp l1 = .ok r1 → ∃ r2, loadLines x509 imp l2 = .ok r2 ∧ r1.Perm r2 := by
  induction hp with
  | nil => intro r1 h; exact ⟨r1, h, List.Perm.refl _⟩
  | cons x _ ih =>
    intro r1 h
    simp only [loadLines] at h ⊢
    cases hx : lineRecs x509 imp x with
    | error c => simp [hx] at h
    | ok rs =>
      rw [hx] at h
      simp only at h ⊢
      rename_i la lb _
      cases hl : loadLines x509 imp la with
      | error c => simp [hl] at h
      | ok rest =>
        rw [hl] at h
        simp only [Except.ok.injEq] at h
        obtain ⟨r2, h2, hp2⟩ := ih rest hl
        rw [h2]
        exact ⟨rs ++ r2, rfl, h ▸ List.Perm.append_left rs hp2⟩
  | swap x y l =>
    intro r1 h
    simp only [loadLines] at h ⊢
    cases hy : lineRecs x509 imp y with
    | error c => simp [hy] at h
    | ok ry =>
      cases hx : lineRecs x509 imp x with
      | error c => simp [hy, hx] at h
      | ok rx =>
        cases hl : loadLines x509 imp l with
        | error c => simp [hy, hx, hl] at h
        | ok rest =>
          simp only [hy, hx, hl, Except.ok.injEq] at h
          refine ⟨rx ++ (ry ++ rest), rfl, ?_⟩
          rw [← h, ← List.append_assoc, ← List.append_assoc]
          exact List.Perm.append_right rest List.perm_append_comm
  | trans _ _ ih1 ih2 =>
    intro r1 h
    obtain ⟨r2, h2, hp2⟩ := ih1 r1 h
    obtain ⟨r3, h3, hp3⟩ := ih2 r2 h2
    exact ⟨r3, h3, hp2.trans hp3⟩

/-- loading a concatenation: the first exception wins, otherwise the records are concatenated -/
theorem loadLines_append (x509 : Bool) (imp : Importer) (l1 l2 : List Str) :
    loadLines x509 imp (l1 ++ l2) =
      match loadLines x509 imp l1 with
      | .error c => .error c
      | .ok r1 => match loadLines x509 imp l2 with
        | .error c => .error c
        | .ok r2 => .ok (r1 ++ r2) := by
  induction l1 with
  | nil =>
    simp only [List.nil_append, loadLines]
    cases loadLines x509 imp l2 <;> simp
  | cons x xs ih =>
    simp only [List.cons_append, loadLines, ih]
    cases lineRecs x509 imp x with
    | error c => rfl
    | ok rs =>
      cases loadLines x509 imp xs with
      | error c => rfl
      | ok r1 =>
        cases loadLines x509 imp l2 with
        | error c => rfl
        | ok r2 => simp

/-- a glob without `*` and `?` matches exactly itself -/
theorem glob_literal {p s : Str} (hp : ∀ c ∈ p, c ≠ '*' ∧ c ≠ '?') : Glob p s ↔ p = s := by
  constructor
  · intro h
    induction h with
    | nil => rfl
    | starSkip _ _ => exact absurd rfl (hp '*' (by simp)).1
    | starTake _ _ => exact absurd rfl (hp '*' (by simp)).1
    | any _ _ => exact absurd rfl (hp '?' (by simp)).2
    | lit _ _ _ ih => rw [ih (fun c hc => hp c (List.mem_cons_of_mem _ hc))]
  · intro h
    subst h
    induction p with
    | nil => exact Glob.nil
    | cons c p ih =>
      exact Glob.lit (hp c (by simp)).1 (hp c (by simp)).2 (ih (fun d hd => hp d (List.mem_cons_of_mem _ hd)))

end AsyncsshModel.KnownHosts
