import AsyncsshModel.Lemmas.RekeyAbs
/-
  Simulation of the concrete endpoint functions of `Model/Rekey.lean` by the control abstraction of
  `Lemmas/RekeyAbs.lean`.
-/
namespace AsyncsshModel.RekeyAbs
open AsyncsshModel.Rekey

/-- local consistency of one endpoint's flags (post-authentication re-exchange) -/
structure Loc (e : Endpoint) : Prop where
  auth : e.authComplete = true
  kc : e.kexComplete = (!e.kexActive && !e.kexinitSent)
  excl : (e.kexActive && e.kexinitSent) = false
  q : ∀ p ∈ e.deferred, MSG_KEX_LAST < p.type

theorem cproj_append (a b : List Wire) : cproj (a ++ b) = cproj a ++ cproj b := by
  simp [cproj, List.filterMap_append]

theorem ctlOf_app (t : Nat) (h : MSG_KEX_LAST < t) : ctlOf t = none := by
  simp only [MSG_KEX_LAST] at h
  have h20 : t ≠ MSG_KEXINIT := by simp only [MSG_KEXINIT]; omega
  have h30 : t ≠ MSG_KEX_INIT := by simp only [MSG_KEX_INIT]; omega
  have h31 : t ≠ MSG_KEX_REPLY := by simp only [MSG_KEX_REPLY]; omega
  have h21 : t ≠ MSG_NEWKEYS := by simp only [MSG_NEWKEYS]; omega
  simp [ctlOf, h20, h30, h31, h21]

theorem startIf_false (a : AE) : startIf false a = (a, []) := by simp [startIf]

theorem startIf_comp (b1 b2 : Bool) (a : AE) :
    (startIf b2 (startIf b1 a).1).1 = (startIf (b1 || b2) a).1 ∧
    (startIf b1 a).2 ++ (startIf b2 (startIf b1 a).1).2 = (startIf (b1 || b2) a).2 := by
  obtain ⟨ph, nrr, failed⟩ := a
  cases ph <;> cases b1 <;> cases b2 <;> simp [startIf]

/-- the effect of one or more application-level `send_packet` calls, as the abstraction sees it -/
def SendRel (e e' : Endpoint) : Prop :=
  ∃ b extra, e'.out = e.out ++ extra ∧ cproj extra = (startIf b (absE e)).2 ∧
    absE e' = (startIf b (absE e)).1 ∧ Loc e' ∧ e'.server = e.server

theorem sendRel_refl (e : Endpoint) (hl : Loc e) : SendRel e e :=
  ⟨false, [], by simp, by simp [startIf_false, cproj], by simp [startIf_false], hl, rfl⟩

theorem sendRel_trans {a b c : Endpoint} (h1 : SendRel a b) (h2 : SendRel b c) : SendRel a c := by
  obtain ⟨b1, x1, o1, p1, a1, _, s1⟩ := h1
  obtain ⟨b2, x2, o2, p2, a2, l2, s2⟩ := h2
  refine ⟨b1 || b2, x1 ++ x2, by rw [o2, o1, List.append_assoc], ?_, ?_, l2, s2.trans s1⟩
  · rw [cproj_append, p1, p2, a1]; exact (startIf_comp b1 b2 (absE a)).2
  · rw [a2, a1]; exact (startIf_comp b1 b2 (absE a)).1

theorem sendPacket_nofire (e : Endpoint) (p : Pkt) (h : (e.authComplete && e.kexComplete && e.rekeyDue) = false) :
    sendPacket e p =
      if mustDefer e p.type then { e with deferred := e.deferred ++ [p] }
      else if e.sendEpoch ≠ 0 ∧ p.type > MSG_KEX_LAST then
        (if (sendIgnore e).kexComplete then emit (sendIgnore e) p
         else { sendIgnore e with deferred := (sendIgnore e).deferred ++ [p] })
      else emit e p := by
  unfold sendPacket
  simp only [h, Bool.false_eq_true, if_false]

/-- the nested IGNORE call when nothing is due and the clock has not passed the limit in between -/
theorem sendIgnore_quiet (e : Endpoint) (ha : e.authComplete = true) (hk : e.kexComplete = true)
    (hd : e.rekeyDue = false) (hl : e.lateArmed = false) :
    sendIgnore e = emit e ⟨MSG_IGNORE, 0⟩ := by
  obtain ⟨sv, ks, kc, ka, aip, ac, rd, la, df, se, re, nr, sid, out, dl, fl⟩ := e
  simp only at ha hk hd hl
  subst ha hk hd hl
  simp [sendIgnore, emit]

/-- ... and when the clock HAS passed the limit between the two readings: the nested call starts the exchange -/
theorem sendIgnore_late (e : Endpoint) (ha : e.authComplete = true) (hk : e.kexComplete = true)
    (hd : e.rekeyDue = false) (hl : e.lateArmed = true) :
    sendIgnore e =
      emit { sendKexinit { e with lateArmed := false } with kexinitSent := true } ⟨MSG_IGNORE, 0⟩ := by
  simp [sendIgnore, ha, hk, hd, hl]

theorem sendPacket_app (e : Endpoint) (p : Pkt) (hl : Loc e) (hp : MSG_KEX_LAST < p.type) :
    SendRel e (sendPacket e p) := by
  obtain ⟨ha, hk, hx, hq⟩ := hl
  have hc := ctlOf_app p.type hp
  have hp' : 49 < p.type := hp
  have hd : ((p.type == MSG_DEBUG || p.type == MSG_SERVICE_REQUEST || p.type == MSG_SERVICE_ACCEPT ||
      decide (p.type > MSG_KEX_LAST)) = true) := by simp [MSG_KEX_LAST]; omega
  by_cases hfire : e.kexComplete = true ∧ e.rekeyDue = true
  · have hA : e.kexActive = false := by
      have := hfire.1; rw [hk] at this; simp at this; exact this.1
    have hS : e.kexinitSent = false := by
      have := hfire.1; rw [hk] at this; simp at this; exact this.2
    refine ⟨true, [⟨⟨MSG_KEXINIT, 0⟩, e.sendEpoch, true⟩], ?_, ?_, ?_, ?_, ?_⟩
    · simp [sendPacket, ha, hfire.1, hfire.2, sendKexinit, emit, mustDefer, hd]
    · simp [cproj, ctlOf, startIf, absE, hA, hS]
    · simp [sendPacket, ha, hfire.1, hfire.2, sendKexinit, emit, mustDefer, hd, startIf, absE, hA, hS]
    · refine ⟨?_, ?_, ?_, ?_⟩ <;>
        simp [sendPacket, ha, hfire.1, hfire.2, sendKexinit, emit, mustDefer, hd, hA, hS]
      intro q hq'
      rcases hq' with h | h
      · exact hq q h
      · rw [h]; exact hp
    · simp [sendPacket, ha, hfire.1, hfire.2, sendKexinit, emit, mustDefer, hd]
  · have hnf : (e.authComplete && e.kexComplete && e.rekeyDue) = false := by
      cases h1 : e.kexComplete <;> cases h2 : e.rekeyDue <;> simp_all
    have hmd : mustDefer e p.type = !e.kexComplete := by
      simp only [mustDefer, hd, ha]
      simp
    rw [sendPacket_nofire e p hnf, hmd]
    cases hkc : e.kexComplete with
    | false =>
      have hkk : (!e.kexActive && !e.kexinitSent) = false := by rw [← hk]; exact hkc
      have hst : startIf e.rekeyDue (absE e) = (absE e, []) := by
        cases h1 : e.kexActive <;> cases h2 : e.kexinitSent <;> cases h3 : e.rekeyDue <;>
          simp_all [startIf, absE]
      refine ⟨e.rekeyDue, [], ?_, ?_, ?_, ?_, ?_⟩
      · simp
      · rw [hst]; rfl
      · rw [hst]; simp [absE]
      · refine ⟨?_, ?_, ?_, ?_⟩
        · simpa using ha
        · simpa [hkc] using hkk.symm
        · simpa using hx
        · intro q hq'
          simp at hq'
          rcases hq' with h | h
          · exact hq q h
          · rw [h]; exact hp
      · simp
    | true =>
      have hkk : (!e.kexActive && !e.kexinitSent) = true := by rw [← hk]; exact hkc
      have hA : e.kexActive = false := by simp at hkk; exact hkk.1
      have hS : e.kexinitSent = false := by simp at hkk; exact hkk.2
      have hrd : e.rekeyDue = false := by
        cases h : e.rekeyDue with
        | false => rfl
        | true => exact absurd ⟨hkc, h⟩ hfire
      by_cases hse : e.sendEpoch = 0
      · refine ⟨false, [⟨p, e.sendEpoch, false⟩], ?_, ?_, ?_, ?_, ?_⟩
        · simp [hse, emit, hkc]
        · simp [cproj, hc, startIf]
        · simp [hse, emit, absE, startIf]
        · refine ⟨?_, ?_, ?_, ?_⟩
          · simpa [hse, emit] using ha
          · simpa [hse, emit, hkc] using hkk.symm
          · simpa [hse, emit] using hx
          · simpa [hse, emit] using hq
        · simp [hse, emit]
      · have hcond : e.sendEpoch ≠ 0 ∧ p.type > MSG_KEX_LAST := ⟨hse, hp⟩
        simp only [Bool.not_true, Bool.false_eq_true, if_false]
        rw [if_pos hcond]
        have hi : ctlOf MSG_IGNORE = none := by decide
        cases hla : e.lateArmed with
        | false =>
          rw [sendIgnore_quiet e ha hkc hrd hla]
          have hkc2 : (emit e ⟨MSG_IGNORE, 0⟩).kexComplete = true := hkc
          rw [if_pos hkc2]
          refine ⟨false, [⟨⟨MSG_IGNORE, 0⟩, e.sendEpoch, false⟩, ⟨p, e.sendEpoch, false⟩], ?_, ?_, ?_, ?_, ?_⟩
          · simp [emit, hkc]
          · simp [cproj, hc, hi, startIf]
          · simp [emit, absE, startIf]
          · exact ⟨ha, by simpa [emit, hkc] using hkk.symm, by simpa [emit] using hx, by simpa [emit] using hq⟩
          · simp [emit]
        | true =>
          rw [sendIgnore_late e ha hkc hrd hla]
          have hkc2 : (emit { sendKexinit { e with lateArmed := false } with kexinitSent := true }
              ⟨MSG_IGNORE, 0⟩).kexComplete = false := rfl
          rw [if_neg (by rw [hkc2]; simp)]
          refine ⟨true, [⟨⟨MSG_KEXINIT, 0⟩, e.sendEpoch, true⟩, ⟨⟨MSG_IGNORE, 0⟩, e.sendEpoch, true⟩], ?_, ?_, ?_, ?_, ?_⟩
          · simp [sendKexinit, emit]
          · have hk20 : ctlOf MSG_KEXINIT = some .kexinit := by decide
            simp [cproj, hk20, hi, startIf, absE, hA, hS]
          · simp [sendKexinit, emit, startIf, absE, hA, hS]
          · refine ⟨?_, ?_, ?_, ?_⟩
            · simpa [sendKexinit, emit] using ha
            · simp [sendKexinit, emit, hA]
            · simp [sendKexinit, emit, hA]
            · intro q hq'
              simp [sendKexinit, emit] at hq'
              rcases hq' with h | h
              · exact hq q h
              · rw [h]; exact hp
          · simp [sendKexinit, emit]

theorem foldl_sendPacket_app (l : List Pkt) (e : Endpoint) (hl : Loc e) (hp : ∀ p ∈ l, MSG_KEX_LAST < p.type) :
    SendRel e (l.foldl sendPacket e) := by
  induction l generalizing e with
  | nil => exact sendRel_refl e hl
  | cons p ps ih =>
    simp only [List.foldl_cons]
    have h1 := sendPacket_app e p hl (hp p (by simp))
    obtain ⟨_, _, _, _, _, l1, _⟩ := h1
    exact sendRel_trans (sendPacket_app e p hl (hp p (by simp))) (ih _ l1 (fun q hq => hp q (by simp [hq])))

/-- a key-exchange message submitted while an exchange is running goes straight out -/
theorem sendPacket_ctl (e : Endpoint) (p : Pkt) (hk : e.kexComplete = false)
    (ht : p.type = MSG_NEWKEYS ∨ p.type = MSG_KEX_INIT ∨ p.type = MSG_KEX_REPLY) : sendPacket e p = emit e p := by
  have hnf : (e.authComplete && e.kexComplete && e.rekeyDue) = false := by simp [hk]
  rw [sendPacket_nofire e p hnf]
  have hmd : mustDefer e p.type = false := by
    rcases ht with h | h | h <;> rw [h] <;> simp [mustDefer, MSG_NEWKEYS, MSG_KEX_INIT, MSG_KEX_REPLY, MSG_DEBUG,
      MSG_SERVICE_REQUEST, MSG_SERVICE_ACCEPT, MSG_KEX_LAST, MSG_USERAUTH_BANNER, MSG_USERAUTH_LAST]
  have hle : ¬ (e.sendEpoch ≠ 0 ∧ p.type > MSG_KEX_LAST) := by
    rcases ht with h | h | h <;> rw [h] <;> simp [MSG_NEWKEYS, MSG_KEX_INIT, MSG_KEX_REPLY, MSG_KEX_LAST]
  rw [hmd, if_neg hle]
  simp

/-- the endpoint `send_newkeys` flushes the deferred packets from -/
def nkBase (e1 : Endpoint) : Endpoint :=
  { e1 with sendEpoch := e1.sendEpoch + 1, nextRecvReady := true, kexActive := false, kexComplete := true,
            rekeyDue := false,
            sessionId := match e1.sessionId with
              | some h => some h
              | none => some e1.sendEpoch,
            deferred := [] }

theorem sendNewkeys_eq (e : Endpoint) :
    sendNewkeys e =
      (sendPacket e ⟨MSG_NEWKEYS, 0⟩).deferred.foldl sendPacket (nkBase (sendPacket e ⟨MSG_NEWKEYS, 0⟩)) := rfl

/-- `send_newkeys` in the only state the handshake calls it from (exchange active) -/
theorem sendNewkeys_sim (e : Endpoint) (hl : Loc e) (hA : e.kexActive = true) :
    ∃ b extra, (sendNewkeys e).out = e.out ++ extra ∧
      cproj extra = [.newkeys] ++ (startIf b { absE e with ph := .idle, nrr := true }).2 ∧
      absE (sendNewkeys e) = (startIf b { absE e with ph := .idle, nrr := true }).1 ∧
      Loc (sendNewkeys e) ∧ (sendNewkeys e).server = e.server := by
  obtain ⟨ha, hk, hx, hq⟩ := hl
  have hS : e.kexinitSent = false := by simpa [hA] using hx
  have hkc : e.kexComplete = false := by rw [hk, hA]; rfl
  rw [sendNewkeys_eq, sendPacket_ctl e _ hkc (Or.inl rfl)]
  generalize hE : nkBase (emit e ⟨MSG_NEWKEYS, 0⟩) = E
  have hlE : Loc E := by
    subst hE
    exact ⟨ha, by simp [nkBase, emit, hS], by simp [nkBase, emit], by intro p hp; cases hp⟩
  have hout : E.out = e.out ++ [⟨⟨MSG_NEWKEYS, 0⟩, e.sendEpoch, !e.kexComplete⟩] := by subst hE; rfl
  have habs : absE E = { absE e with ph := .idle, nrr := true } := by subst hE; simp [absE, nkBase, emit, hS]
  have hsv : E.server = e.server := by subst hE; rfl
  have hdef : (emit e ⟨MSG_NEWKEYS, 0⟩).deferred = e.deferred := rfl
  rw [hdef]
  obtain ⟨b, x, o, pj, ab, lo, sv⟩ := foldl_sendPacket_app e.deferred E hlE hq
  refine ⟨b, [⟨⟨MSG_NEWKEYS, 0⟩, e.sendEpoch, !e.kexComplete⟩] ++ x, ?_, ?_, ?_, lo, sv.trans hsv⟩
  · rw [o, hout, List.append_assoc]
  · rw [cproj_append, pj, habs]
    have : cproj [(⟨⟨MSG_NEWKEYS, 0⟩, e.sendEpoch, !e.kexComplete⟩ : Wire)] = [.newkeys] := by
      simp [cproj, ctlOf, MSG_NEWKEYS, MSG_KEXINIT, MSG_KEX_INIT, MSG_KEX_REPLY]
    rw [this]
  · rw [ab, habs]

/-- the message dispatch of `recvPacket` for an endpoint that has not failed and holds the right keys -/
def recvBody (e : Endpoint) (w : Wire) : Endpoint :=
  let t := w.pkt.type
  if t = MSG_KEXINIT then
    if e.kexActive then { e with failed := true }
    else
      let e1 := if e.kexinitSent then { e with kexinitSent := false } else sendKexinit e
      let e2 := { e1 with kexActive := true }
      if e2.server then e2 else sendPacket e2 ⟨MSG_KEX_INIT, 0⟩
  else if t = MSG_KEX_INIT then
    if e.kexActive ∧ e.server then sendNewkeys (sendPacket e ⟨MSG_KEX_REPLY, 0⟩) else { e with failed := true }
  else if t = MSG_KEX_REPLY then
    if e.kexActive ∧ ¬ e.server then sendNewkeys e else { e with failed := true }
  else if t = MSG_NEWKEYS then
    if e.nextRecvReady then { e with recvEpoch := e.recvEpoch + 1, nextRecvReady := false }
    else { e with failed := true }
  else if t = MSG_IGNORE then e
  else { e with delivered := e.delivered ++ [w.pkt] }

theorem recvPacket_ok (e : Endpoint) (w : Wire) (hf : e.failed = false) (hep : w.epoch = e.recvEpoch) :
    recvPacket e w = recvBody e w := by
  unfold recvPacket recvBody
  rw [if_neg (by simp [hf]), if_neg (by simp [hep])]

/-- what the abstraction must see after a packet was handled -/
def RecvGoal (e e' : Endpoint) (t : Nat) : Prop :=
  ∃ b extra, e'.out = e.out ++ extra ∧ Loc e' ∧ e'.server = e.server ∧
    (match ctlOf t with
     | none => cproj extra = [] ∧ absE e' = absE e
     | some c => cproj extra = (absRecv e.server (absE e) c b).2 ∧ absE e' = (absRecv e.server (absE e) c b).1)

theorem recv_kexinit (e : Endpoint) (w : Wire) (hl : Loc e) (hf : e.failed = false) (hep : w.epoch = e.recvEpoch)
    (ht : w.pkt.type = MSG_KEXINIT) : RecvGoal e (recvPacket e w) w.pkt.type := by
  have hc : ctlOf w.pkt.type = some .kexinit := by rw [ht]; decide
  have hki : ctlOf MSG_KEXINIT = some .kexinit := by decide
  have hk3 : ctlOf MSG_KEX_INIT = some .kinit := by decide
  unfold RecvGoal
  rw [hc, recvPacket_ok e w hf hep]
  obtain ⟨ha, hk, hx, hq⟩ := hl
  refine ⟨false, ?_⟩
  cases hA : e.kexActive with
  | true =>
    have hb : recvBody e w = { e with failed := true } := by simp [recvBody, ht, hA]
    rw [hb]
    exact ⟨[], by simp, ⟨ha, hk, hx, hq⟩, rfl, by simp [absRecv, absE, hA, cproj], by simp [absRecv, absE, hA]⟩
  | false =>
    cases hS : e.kexinitSent with
    | true =>
      have hkc : e.kexComplete = false := by rw [hk, hA, hS]; rfl
      cases hsv : e.server with
      | true =>
        have hb : recvBody e w = { e with kexinitSent := false, kexActive := true } := by
          simp [recvBody, ht, hA, hS, hsv]
        rw [hb]
        refine ⟨[], by simp, ⟨ha, ?_, ?_, hq⟩, by simpa [emit, sendKexinit] using hsv, ?_, ?_⟩
        · simpa using hkc
        · simp
        · simp [absRecv, absE, hA, hS, cproj]
        · simp [absRecv, absE, hA, hS]
      | false =>
        have hb : recvBody e w = emit { e with kexinitSent := false, kexActive := true } ⟨MSG_KEX_INIT, 0⟩ := by
          simp only [recvBody, ht, hA, hS, hsv, if_true, Bool.false_eq_true, if_false]
          rw [sendPacket_ctl _ _ (by simpa using hkc) (Or.inr (Or.inl rfl))]
        rw [hb]
        refine ⟨[⟨⟨MSG_KEX_INIT, 0⟩, e.sendEpoch, !e.kexComplete⟩], by simp [emit], ⟨ha, ?_, ?_, hq⟩, by simpa [emit, sendKexinit] using hsv, ?_, ?_⟩
        · simpa [emit] using hkc
        · simp [emit]
        · simp [absRecv, absE, hA, hS, cproj, hk3]
        · simp [absRecv, absE, hA, hS, emit]
    | false =>
      cases hsv : e.server with
      | true =>
        have hb : recvBody e w = { sendKexinit e with kexActive := true } := by
          simp [recvBody, ht, hA, hS, hsv, sendKexinit, emit]
        rw [hb]
        refine ⟨[⟨⟨MSG_KEXINIT, 0⟩, e.sendEpoch, true⟩], by simp [sendKexinit, emit], ⟨ha, ?_, ?_, hq⟩, by simpa [emit, sendKexinit] using hsv, ?_, ?_⟩
        · simp [sendKexinit, emit, hS]
        · simp [sendKexinit, emit, hS]
        · simp [absRecv, absE, hA, hS, cproj, hki]
        · simp [absRecv, absE, hA, hS, sendKexinit, emit]
      | false =>
        have hb : recvBody e w = emit { sendKexinit e with kexActive := true } ⟨MSG_KEX_INIT, 0⟩ := by
          simp only [recvBody, ht, hA, hS, hsv, if_true, Bool.false_eq_true, if_false]
          rw [sendPacket_ctl _ _ (by simp [sendKexinit, emit]) (Or.inr (Or.inl rfl))]
          simp [sendKexinit, emit, hsv]
        rw [hb]
        refine ⟨[⟨⟨MSG_KEXINIT, 0⟩, e.sendEpoch, true⟩, ⟨⟨MSG_KEX_INIT, 0⟩, e.sendEpoch, true⟩],
          by simp [sendKexinit, emit], ⟨ha, ?_, ?_, hq⟩, by simpa [emit, sendKexinit] using hsv, ?_, ?_⟩
        · simp [sendKexinit, emit, hS]
        · simp [sendKexinit, emit, hS]
        · simp [absRecv, absE, hA, hS, cproj, hki, hk3]
        · simp [absRecv, absE, hA, hS, sendKexinit, emit]

theorem absE_ph_active (e : Endpoint) : (absE e).ph = .active ↔ e.kexActive = true := by
  cases h1 : e.kexActive <;> cases h2 : e.kexinitSent <;> simp [absE, h1, h2]

theorem emit_loc (e : Endpoint) (p : Pkt) (hl : Loc e) : Loc (emit e p) := ⟨hl.auth, hl.kc, hl.excl, hl.q⟩

theorem recv_kinit (e : Endpoint) (w : Wire) (hl : Loc e) (hf : e.failed = false) (hep : w.epoch = e.recvEpoch)
    (ht : w.pkt.type = MSG_KEX_INIT) : RecvGoal e (recvPacket e w) w.pkt.type := by
  have hc : ctlOf w.pkt.type = some .kinit := by rw [ht]; decide
  have hkr : ctlOf MSG_KEX_REPLY = some .kreply := by decide
  unfold RecvGoal
  rw [hc, recvPacket_ok e w hf hep]
  by_cases hcond : e.kexActive = true ∧ e.server = true
  · have hkc : e.kexComplete = false := by
      rw [hl.kc, hcond.1]; rfl
    have hb : recvBody e w = sendNewkeys (emit e ⟨MSG_KEX_REPLY, 0⟩) := by
      have h20 : ¬ (MSG_KEX_INIT = MSG_KEXINIT) := by decide
      simp only [recvBody, ht, h20, if_false, if_true, hcond, and_self]
      rw [sendPacket_ctl _ _ hkc (Or.inr (Or.inr rfl))]
    rw [hb]
    obtain ⟨b, x, o, pj, ab, lo, sv⟩ := sendNewkeys_sim (emit e ⟨MSG_KEX_REPLY, 0⟩) (emit_loc e _ hl) hcond.1
    have hph : (absE e).ph = .active := (absE_ph_active e).2 hcond.1
    have hae : absE (emit e ⟨MSG_KEX_REPLY, 0⟩) = absE e := rfl
    rw [hae] at pj ab
    refine ⟨b, [⟨⟨MSG_KEX_REPLY, 0⟩, e.sendEpoch, !e.kexComplete⟩] ++ x, ?_, lo, sv, ?_, ?_⟩
    · rw [o]; simp [emit]
    · rw [cproj_append, pj]
      simp only [absRecv]
      rw [if_pos ⟨hph, hcond.2⟩]
      simp [cproj, hkr]
    · rw [ab]
      simp only [absRecv]
      rw [if_pos ⟨hph, hcond.2⟩]
  · have hb : recvBody e w = { e with failed := true } := by
      have h20 : ¬ (MSG_KEX_INIT = MSG_KEXINIT) := by decide
      simp only [recvBody, ht, h20, if_false, if_true]
      rw [if_neg hcond]
    rw [hb]
    have hph : ¬ ((absE e).ph = .active ∧ e.server = true) := by
      rw [absE_ph_active]; exact hcond
    refine ⟨false, [], by simp, ⟨hl.auth, hl.kc, hl.excl, hl.q⟩, rfl, ?_, ?_⟩
    · simp only [absRecv]; rw [if_neg hph]; simp [cproj]
    · simp only [absRecv]; rw [if_neg hph]; simp [absE]

theorem recv_kreply (e : Endpoint) (w : Wire) (hl : Loc e) (hf : e.failed = false) (hep : w.epoch = e.recvEpoch)
    (ht : w.pkt.type = MSG_KEX_REPLY) : RecvGoal e (recvPacket e w) w.pkt.type := by
  have hc : ctlOf w.pkt.type = some .kreply := by rw [ht]; decide
  unfold RecvGoal
  rw [hc, recvPacket_ok e w hf hep]
  have h20 : ¬ (MSG_KEX_REPLY = MSG_KEXINIT) := by decide
  have h30 : ¬ (MSG_KEX_REPLY = MSG_KEX_INIT) := by decide
  by_cases hcond : e.kexActive = true ∧ ¬ e.server = true
  · have hb : recvBody e w = sendNewkeys e := by
      simp only [recvBody, ht, h20, h30, if_false, if_true]
      rw [if_pos hcond]
    rw [hb]
    have hsv : e.server = false := by simpa using hcond.2
    obtain ⟨b, x, o, pj, ab, lo, sv⟩ := sendNewkeys_sim e hl hcond.1
    have hph : (absE e).ph = .active := (absE_ph_active e).2 hcond.1
    refine ⟨b, x, o, lo, sv, ?_, ?_⟩
    · rw [pj]; simp [absRecv, hph, hsv]
    · rw [ab]; simp [absRecv, hph, hsv]
  · have hb : recvBody e w = { e with failed := true } := by
      simp only [recvBody, ht, h20, h30, if_false, if_true]
      rw [if_neg hcond]
    rw [hb]
    have hph : ¬ ((absE e).ph = .active ∧ e.server = false) := by
      rw [absE_ph_active]; intro h; exact hcond ⟨h.1, by simp [h.2]⟩
    refine ⟨false, [], by simp, ⟨hl.auth, hl.kc, hl.excl, hl.q⟩, rfl, ?_, ?_⟩
    · simp only [absRecv]; rw [if_neg hph]; simp [cproj]
    · simp only [absRecv]; rw [if_neg hph]; simp [absE]

theorem recv_newkeys (e : Endpoint) (w : Wire) (hl : Loc e) (hf : e.failed = false) (hep : w.epoch = e.recvEpoch)
    (ht : w.pkt.type = MSG_NEWKEYS) : RecvGoal e (recvPacket e w) w.pkt.type := by
  have hc : ctlOf w.pkt.type = some .newkeys := by rw [ht]; decide
  unfold RecvGoal
  rw [hc, recvPacket_ok e w hf hep]
  have h20 : ¬ (MSG_NEWKEYS = MSG_KEXINIT) := by decide
  have h30 : ¬ (MSG_NEWKEYS = MSG_KEX_INIT) := by decide
  have h31 : ¬ (MSG_NEWKEYS = MSG_KEX_REPLY) := by decide
  cases hn : e.nextRecvReady with
  | true =>
    have hb : recvBody e w = { e with recvEpoch := e.recvEpoch + 1, nextRecvReady := false } := by
      simp only [recvBody, ht, h20, h30, h31, if_false, if_true, hn]
    rw [hb]
    refine ⟨false, [], by simp, ⟨hl.auth, hl.kc, hl.excl, hl.q⟩, rfl, ?_, ?_⟩
    · simp [absRecv, absE, hn, cproj]
    · simp [absRecv, absE, hn]
  | false =>
    have hb : recvBody e w = { e with failed := true } := by
      simp only [recvBody, ht, h20, h30, h31, if_false, if_true, hn, Bool.false_eq_true]
    rw [hb]
    refine ⟨false, [], by simp, ⟨hl.auth, hl.kc, hl.excl, hl.q⟩, rfl, ?_, ?_⟩
    · simp [absRecv, absE, hn, cproj]
    · simp [absRecv, absE, hn]

theorem recv_other (e : Endpoint) (w : Wire) (hl : Loc e) (hf : e.failed = false) (hep : w.epoch = e.recvEpoch)
    (hc : ctlOf w.pkt.type = none) : RecvGoal e (recvPacket e w) w.pkt.type := by
  unfold RecvGoal
  rw [hc, recvPacket_ok e w hf hep]
  have h20 : ¬ (w.pkt.type = MSG_KEXINIT) := by intro h; rw [h] at hc; revert hc; decide
  have h30 : ¬ (w.pkt.type = MSG_KEX_INIT) := by intro h; rw [h] at hc; revert hc; decide
  have h31 : ¬ (w.pkt.type = MSG_KEX_REPLY) := by intro h; rw [h] at hc; revert hc; decide
  have h21 : ¬ (w.pkt.type = MSG_NEWKEYS) := by intro h; rw [h] at hc; revert hc; decide
  by_cases hi : w.pkt.type = MSG_IGNORE
  · have hb : recvBody e w = e := by
      rw [hi] at h20 h30 h31 h21
      simp only [recvBody, h20, h30, h31, h21, hi, if_false, if_true]
    rw [hb]
    exact ⟨false, [], by simp, hl, rfl, by simp [cproj], rfl⟩
  · have hb : recvBody e w = { e with delivered := e.delivered ++ [w.pkt] } := by
      simp only [recvBody, h20, h30, h31, h21, hi, if_false]
    rw [hb]
    exact ⟨false, [], by simp, ⟨hl.auth, hl.kc, hl.excl, hl.q⟩, rfl, by simp [cproj], by simp [absE]⟩

/-- **one delivery, as the abstraction sees it** -/
theorem recv_sim (e : Endpoint) (w : Wire) (hl : Loc e) (hf : e.failed = false) (hep : w.epoch = e.recvEpoch) :
    RecvGoal e (recvPacket e w) w.pkt.type := by
  cases hc : ctlOf w.pkt.type with
  | none => exact recv_other e w hl hf hep hc
  | some c =>
    have : w.pkt.type = MSG_KEXINIT ∨ w.pkt.type = MSG_KEX_INIT ∨ w.pkt.type = MSG_KEX_REPLY ∨
        w.pkt.type = MSG_NEWKEYS := by
      unfold ctlOf at hc
      by_cases h1 : w.pkt.type = MSG_KEXINIT
      · exact Or.inl h1
      · by_cases h2 : w.pkt.type = MSG_KEX_INIT
        · exact Or.inr (Or.inl h2)
        · by_cases h3 : w.pkt.type = MSG_KEX_REPLY
          · exact Or.inr (Or.inr (Or.inl h3))
          · by_cases h4 : w.pkt.type = MSG_NEWKEYS
            · exact Or.inr (Or.inr (Or.inr h4))
            · simp [h1, h2, h3, h4] at hc
    rcases this with h | h | h | h
    · exact recv_kexinit e w hl hf hep h
    · exact recv_kinit e w hl hf hep h
    · exact recv_kreply e w hl hf hep h
    · exact recv_newkeys e w hl hf hep h

/-! ### the two-endpoint system -/

theorem startIf_cases (b : Bool) (a : AE) : startIf b a = (a, []) ∨ startIf b a = startIf true a := by
  cases b
  · exact Or.inl (startIf_false a)
  · exact Or.inr rfl

theorem cproj_drop_append (out extra : List Wire) (n : Nat) (hn : n ≤ out.length) :
    cproj ((out ++ extra).drop n) = cproj (out.drop n) ++ cproj extra := by
  rw [List.drop_append_of_le_length hn, cproj_append]

theorem sys_submitC (y : Sys) (p : Pkt) (hl : Loc y.c) (hp : MSG_KEX_LAST < p.type)
    (hb : y.cDelivered ≤ y.c.out.length) :
    Loc (sendPacket y.c p) ∧ (sendPacket y.c p).server = y.c.server ∧
      (absSys { y with c := sendPacket y.c p } = absSys y ∨
       absSys { y with c := sendPacket y.c p } = aStep (absSys y) .startC) := by
  obtain ⟨b, x, o, pj, ab, lo, sv⟩ := sendPacket_app y.c p hl hp
  refine ⟨lo, sv, ?_⟩
  have h1 : absSys { y with c := sendPacket y.c p } =
      ⟨(startIf b (absE y.c)).1, absE y.s, cproj (y.c.out.drop y.cDelivered) ++ (startIf b (absE y.c)).2,
        cproj (y.s.out.drop y.sDelivered)⟩ := by
    simp only [absSys]
    rw [o, cproj_drop_append _ _ _ hb, pj, ab]
  rw [h1]
  rcases startIf_cases b (absE y.c) with h | h
  · left; rw [h]; simp [absSys]
  · right; rw [h]; simp [aStep, absSys]

theorem sys_submitS (y : Sys) (p : Pkt) (hl : Loc y.s) (hp : MSG_KEX_LAST < p.type)
    (hb : y.sDelivered ≤ y.s.out.length) :
    Loc (sendPacket y.s p) ∧ (sendPacket y.s p).server = y.s.server ∧
      (absSys { y with s := sendPacket y.s p } = absSys y ∨
       absSys { y with s := sendPacket y.s p } = aStep (absSys y) .startS) := by
  obtain ⟨b, x, o, pj, ab, lo, sv⟩ := sendPacket_app y.s p hl hp
  refine ⟨lo, sv, ?_⟩
  have h1 : absSys { y with s := sendPacket y.s p } =
      ⟨absE y.c, (startIf b (absE y.s)).1, cproj (y.c.out.drop y.cDelivered),
        cproj (y.s.out.drop y.sDelivered) ++ (startIf b (absE y.s)).2⟩ := by
    simp only [absSys]
    rw [o, cproj_drop_append _ _ _ hb, pj, ab]
  rw [h1]
  rcases startIf_cases b (absE y.s) with h | h
  · left; rw [h]; simp [absSys]
  · right; rw [h]; simp [aStep, absSys]

theorem drop_of_getElem? (l : List Wire) (n : Nat) (w : Wire) (h : l[n]? = some w) : l.drop n = w :: l.drop (n + 1) := by
  have hlt : n < l.length := by
    rcases Nat.lt_or_ge n l.length with hl | hl
    · exact hl
    · rw [List.getElem?_eq_none hl] at h; cases h
  rw [List.getElem?_eq_getElem hlt] at h
  rw [List.drop_eq_getElem_cons hlt]
  congr 1
  exact Option.some.inj h

theorem sys_deliverCS (y : Sys) (w : Wire) (hw : y.c.out[y.cDelivered]? = some w) (hl : Loc y.s)
    (hsv : y.s.server = true) (hf : y.s.failed = false) (hep : w.epoch = y.s.recvEpoch)
    (hb : y.sDelivered ≤ y.s.out.length) :
    Loc (recvPacket y.s w) ∧ (recvPacket y.s w).server = y.s.server ∧
      (absSys { y with s := recvPacket y.s w, cDelivered := y.cDelivered + 1 } = absSys y ∨
       ∃ b, absSys { y with s := recvPacket y.s w, cDelivered := y.cDelivered + 1 } = aStep (absSys y) (.delCS b)) := by
  obtain ⟨b, x, o, lo, sv, hm⟩ := recv_sim y.s w hl hf hep
  refine ⟨lo, sv, ?_⟩
  have hd := drop_of_getElem? _ _ _ hw
  cases hc : ctlOf w.pkt.type with
  | none =>
    rw [hc] at hm
    left
    simp only [absSys]
    rw [o, cproj_drop_append _ _ _ hb, hm.1, hm.2, hd]
    simp [cproj, hc]
  | some c =>
    rw [hc] at hm
    right
    refine ⟨b, ?_⟩
    simp only [absSys, aStep]
    rw [o, cproj_drop_append _ _ _ hb, hm.1, hm.2, hd]
    have : cproj (w :: List.drop (y.cDelivered + 1) y.c.out) = c :: cproj (List.drop (y.cDelivered + 1) y.c.out) := by
      simp [cproj, hc]
    rw [this, hsv]

theorem sys_deliverSC (y : Sys) (w : Wire) (hw : y.s.out[y.sDelivered]? = some w) (hl : Loc y.c)
    (hsv : y.c.server = false) (hf : y.c.failed = false) (hep : w.epoch = y.c.recvEpoch)
    (hb : y.cDelivered ≤ y.c.out.length) :
    Loc (recvPacket y.c w) ∧ (recvPacket y.c w).server = y.c.server ∧
      (absSys { y with c := recvPacket y.c w, sDelivered := y.sDelivered + 1 } = absSys y ∨
       ∃ b, absSys { y with c := recvPacket y.c w, sDelivered := y.sDelivered + 1 } = aStep (absSys y) (.delSC b)) := by
  obtain ⟨b, x, o, lo, sv, hm⟩ := recv_sim y.c w hl hf hep
  refine ⟨lo, sv, ?_⟩
  have hd := drop_of_getElem? _ _ _ hw
  cases hc : ctlOf w.pkt.type with
  | none =>
    rw [hc] at hm
    left
    simp only [absSys]
    rw [o, cproj_drop_append _ _ _ hb, hm.1, hm.2, hd]
    simp [cproj, hc]
  | some c =>
    rw [hc] at hm
    right
    refine ⟨b, ?_⟩
    simp only [absSys, aStep]
    rw [o, cproj_drop_append _ _ _ hb, hm.1, hm.2, hd]
    have : cproj (w :: List.drop (y.sDelivered + 1) y.s.out) = c :: cproj (List.drop (y.sDelivered + 1) y.s.out) := by
      simp [cproj, hc]
    rw [this, hsv]

end AsyncsshModel.RekeyAbs
