import AsyncsshModel.Model.SftpWire
/-
  Helper lemmas for the SFTP wire primitives: decode∘encode for the fixed-width fields and strings,
  and bit-test characterisations of the flag-word operations.
-/
namespace AsyncsshModel.Sftp

theorem b8_toNat (n : Nat) : (b8 n).toNat = n % 256 := by
  simp [b8]

theorem getU8_putU8 (n : Nat) (r : Bytes) (h : n < 256) : getU8 (putU8 n ++ r) = .ok (n, r) := by
  simp [getU8, putU8, b8_toNat]; omega

theorem getU32_putU32 (n : Nat) (r : Bytes) (h : n < 2^32) : getU32 (putU32 n ++ r) = .ok (n, r) := by
  simp [getU32, putU32, b8_toNat]; omega

theorem getU64_putU64 (n : Nat) (r : Bytes) (h : n < 2^64) : getU64 (putU64 n ++ r) = .ok (n, r) := by
  simp [getU64, putU64, b8_toNat]; omega

theorem getStr_putStr (b r : Bytes) (h : b.length < 2^32) : getStr (putStr b ++ r) = .ok (b, r) := by
  unfold getStr putStr
  rw [List.append_assoc, getU32_putU32 _ _ h]
  simp

theorem getBool_putBool (x : Bool) (r : Bytes) : getBool (putBool x ++ r) = .ok (x, r) := by
  cases x <;> simp [getBool, putBool, getU8]

theorem hasFlag_two_pow (x k : Nat) : hasFlag x (2^k) = x.testBit k := by
  unfold hasFlag
  cases h : x.testBit k with
  | false =>
    have : x &&& 2^k = 0 := by
      apply Nat.eq_of_testBit_eq
      intro i
      simp [Nat.testBit_two_pow]
      intro hi hk; subst hk; simp [h] at hi
    simp [this]
  | true =>
    have : (x &&& 2^k).testBit k = true := by simp [h]
    have hne : x &&& 2^k ≠ 0 := by
      intro h0; rw [h0] at this; simp at this
    simp [hne]

theorem testBit_flagIf (c : Bool) (k j : Nat) : (flagIf c (2^k)).testBit j = (c && decide (k = j)) := by
  cases c <;> simp [flagIf, Nat.testBit_two_pow]

theorem testBit_andNot (x y i : Nat) : (andNot x y).testBit i = (x.testBit i && !y.testBit i) := by
  simp [andNot]
  cases x.testBit i <;> cases y.testBit i <;> rfl

theorem andNot_eq_zero_iff (x y : Nat) : andNot x y = 0 ↔ ∀ i, x.testBit i = true → y.testBit i = true := by
  constructor
  · intro h i hx
    have := testBit_andNot x y i
    rw [h] at this
    simp [hx] at this
    exact this
  · intro h
    apply Nat.eq_of_testBit_eq
    intro i
    rw [testBit_andNot]
    cases hx : x.testBit i with
    | false => simp
    | true => simp [h i hx]

/-- an unset flag stays unset when another flag is removed, a set one is removed only if it is that flag -/
theorem hasFlag_andNot_two_pow (x j k : Nat) :
    hasFlag (andNot x (2^j)) (2^k) = (x.testBit k && !decide (j = k)) := by
  rw [hasFlag_two_pow, testBit_andNot, Nat.testBit_two_pow]

end AsyncsshModel.Sftp
