import AsyncsshModel.Model.PathMap
namespace AsyncsshModel.Path
open AsyncsshModel

/-- a path component that cannot move a lexical walk upward or sideways -/
def SafeComp (c : Bytes) : Prop := c ≠ [] ∧ c ≠ dot ∧ c ≠ dotdot ∧ slash ∉ c

theorem splitSlash_ne_nil (p : Bytes) : splitSlash p ≠ [] := by
  induction p with
  | nil => simp [splitSlash]
  | cons c cs ih =>
    unfold splitSlash
    split
    · simp
    · split <;> simp

theorem splitSlash_noSlash (p : Bytes) : ∀ c ∈ splitSlash p, slash ∉ c := by
  induction p with
  | nil => simp [splitSlash]
  | cons c cs ih =>
    unfold splitSlash
    split
    · intro x hx
      simp at hx
      rcases hx with rfl | hx
      · simp
      · exact ih x hx
    · rename_i hc
      split
      · intro x hx; simp at hx; subst hx; simp; exact fun h => hc h.symm
      · rename_i h t heq
        intro x hx
        simp at hx
        rcases hx with rfl | hx
        · have := ih h (by rw [heq]; simp)
          simp
          exact ⟨fun h => hc h.symm, this⟩
        · exact ih x (by rw [heq]; simp [hx])

theorem normStep_safe (st : List Bytes) (comp : Bytes)
    (hst : ∀ c ∈ st, SafeComp c) (hc : slash ∉ comp) :
    ∀ c ∈ normStep true st comp, SafeComp c := by
  unfold normStep
  split
  · exact hst
  · rename_i h1
    have hne : comp ≠ [] := fun h => h1 (Or.inl h)
    have hnd : comp ≠ dot := fun h => h1 (Or.inr h)
    split
    · rename_i h2
      rcases h2 with h2 | h2 | h2
      · intro c hcm
        simp at hcm
        rcases hcm with rfl | hcm
        · exact ⟨hne, hnd, h2, hc⟩
        · exact hst c hcm
      · simp at h2
      · -- top of stack is `..` : impossible for a safe stack
        cases st with
        | nil => simp at h2
        | cons t ts =>
          simp at h2
          have := hst t (by simp)
          exact absurd h2 this.2.2.1
    · intro c hcm
      exact hst c (List.mem_of_mem_tail hcm)

theorem foldl_normStep_safe (comps : List Bytes) (st : List Bytes)
    (hst : ∀ c ∈ st, SafeComp c) (hc : ∀ c ∈ comps, slash ∉ c) :
    ∀ c ∈ comps.foldl (normStep true) st, SafeComp c := by
  induction comps generalizing st with
  | nil => simpa using hst
  | cons x xs ih =>
    simp only [List.foldl_cons]
    apply ih
    · exact normStep_safe st x hst (hc x (by simp))
    · intro c hcm; exact hc c (by simp [hcm])

theorem normComps_safe (p : Bytes) (h : initialSlashes p ≠ 0) : ∀ c ∈ normComps p, SafeComp c := by
  unfold normComps
  have : (initialSlashes p != 0) = true := by simpa using h
  rw [this]
  intro c hc
  rw [List.mem_reverse] at hc
  exact foldl_normStep_safe _ [] (by simp) (splitSlash_noSlash p) c hc

theorem initialSlashes_pos_of_head (p : Bytes) (h : p.head? = some slash) :
    initialSlashes p = 1 ∨ initialSlashes p = 2 := by
  match p, h with
  | [a], h => simp at h; subst h; simp [initialSlashes]
  | [a, b], h =>
    simp at h; subst h; simp [initialSlashes]
    by_cases hb : b = slash <;> simp [hb]
  | a :: b :: c :: r, h =>
    simp at h; subst h; simp only [initialSlashes]
    simp only [if_true]
    split <;> simp

theorem head_join_slash (p : Bytes) : (join [slash] p).head? = some slash := by
  unfold join
  split
  · rename_i h
    rcases h with h | h
    · exact h
    · simp at h
  · simp

/-- `joinSlash` of safe components never starts with a slash -/
theorem joinSlash_safe_head (comps : List Bytes) (h : ∀ c ∈ comps, SafeComp c) :
    (joinSlash comps).head? ≠ some slash := by
  match comps, h with
  | [], _ => simp [joinSlash]
  | [c], h =>
    have hc := h c (by simp)
    simp only [joinSlash]
    cases c with
    | nil => exact absurd rfl hc.1
    | cons x xs =>
      simp
      intro hx
      exact hc.2.2.2 (by simp [hx])
  | c :: d :: r, h =>
    have hc := h c (by simp)
    simp only [joinSlash]
    cases c with
    | nil => exact absurd rfl hc.1
    | cons x xs =>
      simp
      intro hx
      exact hc.2.2.2 (by simp [hx])

theorem lstripSlash_of_head (l : Bytes) (h : l.head? ≠ some slash) : lstripSlash l = l := by
  cases l with
  | nil => rfl
  | cons c cs =>
    simp at h
    simp [lstripSlash, h]

theorem lstripSlash_replicate (k : Nat) (l : Bytes) :
    lstripSlash (List.replicate k slash ++ l) = lstripSlash l := by
  induction k with
  | zero => simp
  | succ n ih => simp [List.replicate_succ, lstripSlash, ih]

end AsyncsshModel.Path
